SPECIFICATION Spec
INVARIANTS OneLaws PairLaws VecLaws
CHECK_DEADLOCK FALSE
