------------------------------ MODULE VecAlgebra ------------------------------
(* Property C04: every vec_t operator is the component-wise lifting of its     *)
(* scalar definition (rkcommon/math/vec.h, rkmath.h, constants.h).             *)
(*                                                                             *)
(* A vector of shape N (2, 3, 4; the padded 3-vector is the same abstract      *)
(* value as the unpadded one) is a TUPLE OF INTEGERS <<x, y>>, <<x, y, z>>,    *)
(* <<x, y, z, w>>: component i of the tuple is the i-th member in the order    *)
(* x, y, z, w.  The section "scalar definitions" gives the C++ meaning of each *)
(* scalar operation on exact integers (truncating / and %, std::min / max,     *)
(* divRoundUp, madd); the section "liftings" defines every operation of vec.h  *)
(* from them with Lift1 / Lift2 / Lift3, folds (reductions) and index maps     *)
(* (constructors, conversions, operator[], pointer view, streaming).  The      *)
(* section "element types" says what a result means in each of the ten element *)
(* types vec.h instantiates (range, modular narrowing of the narrow unsigned   *)
(* types, usual arithmetic conversions for mixed element types).  The section  *)
(* "laws" holds algebraic laws that tie the operations to each other and to    *)
(* declarative characterisations; VecAlgebraMC checks them with TLC over the   *)
(* bounded lattice before VecAlgebraGen hands any expected value to a driver.  *)
EXTENDS Integers, Sequences, FiniteSets, TLC

\* ---------------------------------------------------------------------------
\* scalar definitions (C++ semantics on exact integers)
\* ---------------------------------------------------------------------------
AbsS(x)      == IF x < 0 THEN -x ELSE x                       \* std::abs
SgnS(x)      == IF x < 0 THEN -1 ELSE IF x > 0 THEN 1 ELSE 0
NegS(x)      == -x                                            \* unary -
PosS(x)      == x                                             \* unary +
AddS(x, y)   == x + y
SubS(x, y)   == x - y
MulS(x, y)   == x * y
DivS(x, y)   == SgnS(x) * SgnS(y) * (AbsS(x) \div AbsS(y))    \* C++ integer /: truncation towards zero (y # 0)
ModS(x, y)   == x - y * DivS(x, y)                            \* C++ %: sign of the dividend
MinS(x, y)   == IF y < x THEN y ELSE x                        \* std::min
MaxS(x, y)   == IF x < y THEN y ELSE x                        \* std::max
DivRoundUpS(x, y) == DivS(x + y - 1, y)                       \* rkmath.h divRoundUp for POSITIVE operands: the least q with q * y >= x
                                                              \* (LawDivRoundUp).  rkmath.h has used (a + b - 1) / b and, for integers,
                                                              \* a / b + (a % b > 0): they agree on positive operands and differ on the
                                                              \* others, where no value is specified here - there divRoundUp(vec) is only
                                                              \* required to be the lifting of the real scalar function (VecLiftValidate)
MaddS(x, y, z)    == x * y + z                                \* rkmath.h madd - defined for float only: components of other element
                                                              \* types pass through float, so madd is decided only while x * y and
                                                              \* x * y + z are exactly representable floats (VecAlgebraGen: window "f")
ClampS(x, lo, hi) == MaxS(MinS(x, hi), lo)                    \* rkmath.h clamp: max(min(x, upper), lower)
\* compound assignment x op= s where s has ANOTHER arithmetic type than x: C++ evaluates  x = T(R(x) op R(s))  with
\* R = the usual arithmetic conversion type of the two (UAC below) - the SCALAR IS NOT CONVERTED TO T FIRST.  For an integer x
\* and a floating-point s = p / q (q > 0; p, q small, q a power of two, so every intermediate value is exact) the result
\* is the exact rational truncated towards zero (float -> integer conversion):
CAddQS(x, p, q) == DivS(x * q + p, q)                         \* x += p/q
CSubQS(x, p, q) == DivS(x * q - p, q)                         \* x -= p/q
CMulQS(x, p, q) == DivS(x * p, q)                             \* x *= p/q
CDivQS(x, p, q) == DivS(x * q, p)                             \* x /= p/q   (p # 0)
\* for an integer x of a narrow type and an integer s of a wider type the operation is carried out in the wider type
\* (AddS .. ModS on the exact integers) and only the result is converted back.
\* The other reading - convert the scalar to T first, then operate in T - is what the specification excludes:
TruncQ(p, q)    == DivS(p, q)                                 \* T(p/q) for an integer type T

\* ---------------------------------------------------------------------------
\* tuples
\* ---------------------------------------------------------------------------
Vecs(S, n)     == [1..n -> S]
Rng(v)         == {v[i] : i \in DOMAIN v}
Distinct(v)    == \A i, j \in DOMAIN v : i # j => v[i] # v[j]
DistinctVecs(S, n) == {v \in Vecs(S, n) : Distinct(v)}
Splat(s, n)    == [i \in 1..n |-> s]                          \* vec_t(scalar): every component = s
MinOf(S)       == CHOOSE x \in S : \A y \in S : x <= y
MaxOf(S)       == CHOOSE x \in S : \A y \in S : x >= y

\* ---------------------------------------------------------------------------
\* liftings
\* ---------------------------------------------------------------------------
Lift1(f(_), a)             == [i \in DOMAIN a |-> f(a[i])]
Lift2(f(_, _), a, b)       == [i \in DOMAIN a |-> f(a[i], b[i])]
Lift3(f(_, _, _), a, b, c) == [i \in DOMAIN a |-> f(a[i], b[i], c[i])]
\* left fold over the components in x, y, z, w order (v non-empty)
RECURSIVE FoldTo(_, _, _)
FoldTo(f(_, _), v, n) == IF n = 1 THEN v[1] ELSE f(FoldTo(f, v, n - 1), v[n])
Fold(f(_, _), v)      == FoldTo(f, v, Len(v))

\* unary operators and functors
Neg(a) == Lift1(NegS, a)                                      \* operator-
Pos(a) == Lift1(PosS, a)                                      \* operator+
Abs(a) == Lift1(AbsS, a)                                      \* abs
\* binary operators: vec op vec; "vec op scalar" and "scalar op vec" are the same liftings with a splat operand
Add(a, b) == Lift2(AddS, a, b)
Sub(a, b) == Lift2(SubS, a, b)
Mul(a, b) == Lift2(MulS, a, b)
Div(a, b) == Lift2(DivS, a, b)                                \* integer element types; no zero component in b
Mod(a, b) == Lift2(ModS, a, b)
MinV(a, b) == Lift2(MinS, a, b)
MaxV(a, b) == Lift2(MaxS, a, b)
DivRoundUp(a, b) == Lift2(DivRoundUpS, a, b)
VS(op(_, _), a, s) == op(a, Splat(s, Len(a)))                 \* vec op scalar
SV(op(_, _), s, b) == op(Splat(s, Len(b)), b)                 \* scalar op vec
\* exact quotient (floating-point element types): defined when every component divides
Divisible(a, b) == \A i \in DOMAIN a : b[i] # 0 /\ ModS(a[i], b[i]) = 0
\* ternary
\* compound assignment with a fractional scalar / vector of fractions (numerators p, common denominator q)
CAddQ(a, p, q) == [i \in DOMAIN a |-> CAddQS(a[i], p[i], q)]
CSubQ(a, p, q) == [i \in DOMAIN a |-> CSubQS(a[i], p[i], q)]
CMulQ(a, p, q) == [i \in DOMAIN a |-> CMulQS(a[i], p[i], q)]
CDivQ(a, p, q) == [i \in DOMAIN a |-> CDivQS(a[i], p[i], q)]
Madd(a, b, c)  == Lift3(MaddS, a, b, c)                       \* madd (3-vectors)
Clamp(x, l, h) == Lift3(ClampS, x, l, h)                      \* clamp(vec, vec, vec) through min / max
InterpolateUV(f, a, b, c) == [i \in DOMAIN a |-> f[1] * a[i] + f[2] * b[i] + f[3] * c[i]]     \* f.x * a + f.y * b + f.z * c
\* lerp(t, a, b) = (1 - t) * a + t * b with t = k / 4: four times the result (exact), and the result where it is an integer
Lerp4(k, a, b)     == [i \in DOMAIN a |-> (4 - k) * a[i] + k * b[i]]
LerpExact(k, a, b) == \A i \in DOMAIN a : Lerp4(k, a, b)[i] % 4 = 0
Lerp(k, a, b)      == [i \in DOMAIN a |-> Lerp4(k, a, b)[i] \div 4]
\* reductions
ReduceAdd(v) == Fold(AddS, v)                                 \* reduce_add, vec_t::sum
ReduceMul(v) == Fold(MulS, v)                                 \* reduce_mul, vec_t::product, long_product
ReduceMin(v) == Fold(MinS, v)                                 \* reduce_min
ReduceMax(v) == Fold(MaxS, v)                                 \* reduce_max
RECURSIVE DotTo(_, _, _)
DotTo(a, b, n) == IF n = 0 THEN 0 ELSE DotTo(a, b, n - 1) + a[n] * b[n]
Dot(a, b)    == DotTo(a, b, Len(a))                           \* dot
Cross(a, b)  == << a[2] * b[3] - a[3] * b[2], a[3] * b[1] - a[1] * b[3], a[1] * b[2] - a[2] * b[1] >>     \* cross
\* arg_max: index (0-based) of the first component that no other component exceeds
ArgMax(v)    == (CHOOSE i \in DOMAIN v : (\A j \in DOMAIN v : v[j] <= v[i]) /\ (\A j \in 1..(i - 1) : v[j] < v[i])) - 1
\* comparisons
Eq(a, b)          == \A i \in DOMAIN a : a[i] = b[i]           \* operator==
Ne(a, b)          == ~Eq(a, b)                                 \* operator!=
AnyLessThan(a, b) == \E i \in DOMAIN a : a[i] < b[i]           \* anyLessThan
Less(a, b)        == \E k \in DOMAIN a : a[k] < b[k] /\ \A j \in 1..(k - 1) : a[j] = b[j]     \* std::less<vec_t>: lexicographic
\* length: defined (as an exact value) when the squared length is a perfect square
SqrtBound(n) == IF n < 256 THEN 16 ELSE IF n < 65536 THEN 256 ELSE IF n < 16777216 THEN 4096 ELSE 46340   \* r * r = n => r <= SqrtBound(n)
IsSquare(n)  == \E r \in 0..SqrtBound(n) : r * r = n
ISqrt(n)     == CHOOSE r \in 0..SqrtBound(n) : r * r = n
Pythagorean(v) == IsSquare(Dot(v, v))
Length(v)    == ISqrt(Dot(v, v))
\* results that are rationals: a pair [n, d] with d > 0 stands for n / d
Rat(n, d)    == IF d < 0 THEN [n |-> -n, d |-> -d] ELSE [n |-> n, d |-> d]
Rcp(a)       == [i \in DOMAIN a |-> Rat(1, a[i])]              \* rcp, rcp_safe (no zero component)
Normalize(v) == [i \in DOMAIN v |-> Rat(v[i], Length(v))]      \* normalize, safe_normalize (Pythagorean, non-zero v)

\* ---------------------------------------------------------------------------
\* index maps: constructors, conversions, indexing, pointer view, streaming
\* ---------------------------------------------------------------------------
FromComponents(v) == [i \in DOMAIN v |-> v[i]]                 \* vec_t(x, y[, z[, w]])
FromPointer(mem, n) == [i \in 1..n |-> mem[i]]                 \* vec_t(const T *): v[0], v[1], ...
V3From2(p, z)     == <<p[1], p[2], z>>                         \* vec_t<T,3>(vec2, z)
V4From3(p, w)     == <<p[1], p[2], p[3], w>>                   \* vec_t<T,4>(vec3, w)
V4From22(p, q)    == <<p[1], p[2], q[1], q[2]>>                \* vec_t<T,4>(vec2, vec2)
Index(v, i)       == v[i + 1]                                  \* operator[](i), (&v.x)[i], ((T *)v)[i]: 0-based
SetIndex(v, i, s) == [v EXCEPT ![i + 1] = s]                   \* v[i] = s
PointerView(v)    == [i \in 1..Len(v) |-> Index(v, i - 1)]     \* the components as consecutive array elements
RECURSIVE JoinTo(_, _)
JoinTo(v, n)      == IF n = 1 THEN ToString(v[1]) ELSE JoinTo(v, n - 1) \o "," \o ToString(v[n])
Stream(v)         == "(" \o JoinTo(v, Len(v)) \o ")"           \* operator<<: "(x,y,z,w)"
\* the 8-bit element types stream their components as characters: the byte sequence of the output
StreamBytes(v)    == <<40>> \o [k \in 1..(2 * Len(v) - 1) |-> IF k % 2 = 1 THEN v[(k + 1) \div 2] % 256 ELSE 44] \o <<41>>

\* ---------------------------------------------------------------------------
\* element types
\* ---------------------------------------------------------------------------
\* the ten element types of the typedef list of vec.h (vec2uc ... vec4d)
Types     == {"uc", "c", "us", "s", "ui", "i", "ul", "l", "f", "d"}
IntTypes  == {"uc", "c", "us", "s", "ui", "i", "ul", "l"}
FltTypes  == {"f", "d"}
WrapTypes == {"uc", "us"}                 \* narrow unsigned: results are reduced modulo 2^8 / 2^16
Unsigned  == {"uc", "us", "ui", "ul"}
\* the window of values in which the specification decides results: the type's own range for the narrow types,
\* +-2^24 for float (every integer is exact), the range of TLC's integers for the wide ones
BIG == 2147483647
TyLo(ty) == CASE ty = "uc" -> 0 [] ty = "c" -> -128 [] ty = "us" -> 0 [] ty = "s" -> -32768
              [] ty \in {"ui", "ul"} -> 0 [] ty \in {"i", "l", "d"} -> -BIG [] ty = "f" -> -16777216
TyHi(ty) == CASE ty = "uc" -> 255 [] ty = "c" -> 127 [] ty = "us" -> 65535 [] ty = "s" -> 32767
              [] ty = "f" -> 16777216 [] OTHER -> BIG
InRange(ty, x)  == TyLo(ty) <= x /\ x <= TyHi(ty)
AllInRange(ty, S) == \A x \in S : InRange(ty, x)
Modulus(ty)     == IF ty = "uc" THEN 256 ELSE 65536
Narrow(ty, x)   == x % Modulus(ty)        \* conversion of an int result to uint8_t / uint16_t
NarrowV(ty, v)  == [i \in DOMAIN v |-> Narrow(ty, v[i])]
\* usual arithmetic conversions: element type of "vec<T> op vec<U>" / "vec<T> op U" / "T op vec<U>" = decltype(T() op U())
Rank(ty)     == CASE ty \in {"uc", "c"} -> 1 [] ty \in {"us", "s"} -> 2 [] ty \in {"ui", "i"} -> 3 [] ty \in {"ul", "l"} -> 4
Promote(ty)  == IF Rank(ty) < 3 THEN "i" ELSE ty            \* integral promotion
UAC(t, u) == IF "d" \in {t, u} THEN "d"
             ELSE IF "f" \in {t, u} THEN "f"
             ELSE LET p == Promote(t)
                      q == Promote(u)
                  IN IF p = q THEN p
                     ELSE IF (p \in Unsigned) = (q \in Unsigned) THEN (IF Rank(p) >= Rank(q) THEN p ELSE q)
                     ELSE LET us == IF p \in Unsigned THEN p ELSE q
                              sg == IF p \in Unsigned THEN q ELSE p
                          IN IF Rank(us) >= Rank(sg) THEN us ELSE sg      \* LP64: long holds every unsigned int

\* ---------------------------------------------------------------------------
\* laws (checked by VecAlgebraMC for every vector / pair / triple of the lattice)
\* ---------------------------------------------------------------------------
\* scalar semantics: C++ division and remainder are characterised by  x = q*y + r, |r| < |y|, r = 0 or sign(r) = sign(x)
LawDivMod(x, y) == y # 0 =>
   /\ x = DivS(x, y) * y + ModS(x, y)
   /\ AbsS(ModS(x, y)) < AbsS(y)
   /\ (ModS(x, y) = 0 \/ SgnS(ModS(x, y)) = SgnS(x))
\* divRoundUp of positive operands is the least q with q * y >= x
LawDivRoundUp(x, y) == (x > 0 /\ y > 0) =>
   LET q == DivRoundUpS(x, y) IN q * y >= x /\ (q - 1) * y < x
LawClampS(x, lo, hi) == lo <= hi =>
   LET r == ClampS(x, lo, hi) IN lo <= r /\ r <= hi /\ ((lo <= x /\ x <= hi) => r = x) /\ (x < lo => r = lo) /\ (x > hi => r = hi)
\* truncation towards zero of the exact rational: r = trunc(n / q)  <=>  |r * q| <= |n|, |n - r * q| < q, same sign
LawTruncQ(n, q) == q > 0 => LET r == DivS(n, q) IN AbsS(n - r * q) < q /\ AbsS(r * q) <= AbsS(n) /\ (r = 0 \/ SgnS(r) = SgnS(n))
LawCompoundQ(x, p, q) == q > 0 =>
   /\ LawTruncQ(x * q + p, q) /\ LawTruncQ(x * q - p, q) /\ LawTruncQ(x * p, q)
   /\ CAddQS(x, p * q, q) = x + p /\ CSubQS(x, p * q, q) = x - p /\ CMulQS(x, p * q, q) = x * p          \* integral scalars: the plain operators
   /\ (p # 0 => CDivQS(x, p * q, q) = DivS(x, p))
   /\ CSubQS(x, p, q) = CAddQS(x, -p, q)
   /\ CAddQS(-x, -p, q) = -CAddQS(x, p, q) /\ CMulQS(-x, p, q) = -CMulQS(x, p, q)                          \* truncation is odd
\* narrowing is a ring homomorphism: results of chains of + - * may be reduced once at the end
LawNarrow(ty, x, y) ==
   /\ InRange(ty, Narrow(ty, x))
   /\ (InRange(ty, x) => Narrow(ty, x) = x)
   /\ Narrow(ty, x + y) = Narrow(ty, Narrow(ty, x) + Narrow(ty, y))
   /\ Narrow(ty, x - y) = Narrow(ty, Narrow(ty, x) - Narrow(ty, y))
LawNarrowMul(ty, x, y) == Narrow(ty, x * y) = Narrow(ty, Narrow(ty, x) * Narrow(ty, y))
\* usual arithmetic conversions: symmetric, idempotent, never narrower than int, floating point wins
LawUAC(t, u) ==
   /\ UAC(t, u) = UAC(u, t)
   /\ UAC(t, u) \in {"i", "ui", "l", "ul", "f", "d"}
   /\ (t \in {"i", "ui", "l", "ul", "f", "d"} => UAC(t, t) = t)
   /\ UAC(UAC(t, u), u) = UAC(t, u)
   /\ ((t \in FltTypes \/ u \in FltTypes) <=> UAC(t, u) \in FltTypes)

\* one vector
LawUnary(a) ==
   /\ Len(Neg(a)) = Len(a) /\ \A i \in DOMAIN a : Neg(a)[i] = -a[i] /\ Abs(a)[i] = AbsS(a[i]) /\ Pos(a)[i] = a[i]
   /\ Neg(Neg(a)) = a
   /\ Abs(a) = MaxV(a, Neg(a))
   /\ Abs(Neg(a)) = Abs(a)
LawReductions(a) ==
   /\ ReduceMin(a) \in Rng(a) /\ \A i \in DOMAIN a : ReduceMin(a) <= a[i]
   /\ ReduceMax(a) \in Rng(a) /\ \A i \in DOMAIN a : ReduceMax(a) >= a[i]
   /\ ReduceMin(a) = -ReduceMax(Neg(a))
   /\ ReduceAdd(a) = Dot(a, Splat(1, Len(a)))
   /\ ReduceAdd(Neg(a)) = -ReduceAdd(a)
   /\ AbsS(ReduceMul(a)) = ReduceMul(Abs(a))
   /\ ((\E i \in DOMAIN a : a[i] = 0) <=> ReduceMul(a) = 0)
   \* reductions do not depend on the order of the components (all rotations)
   /\ \A k \in DOMAIN a : LET r == [i \in DOMAIN a |-> a[((i + k - 1) % Len(a)) + 1]]
                         IN ReduceAdd(r) = ReduceAdd(a) /\ ReduceMul(r) = ReduceMul(a) /\ ReduceMin(r) = ReduceMin(a) /\ ReduceMax(r) = ReduceMax(a)
LawArgMax(a) ==
   /\ ArgMax(a) \in 0..(Len(a) - 1)
   /\ Index(a, ArgMax(a)) = ReduceMax(a)
   /\ \A i \in 0..(ArgMax(a) - 1) : Index(a, i) < ReduceMax(a)
LawIndexMaps(a) ==
   /\ FromComponents(a) = a
   /\ PointerView(a) = a
   /\ FromPointer(a \o <<99>>, Len(a)) = a
   /\ \A i \in 0..(Len(a) - 1) : Index(SetIndex(a, i, 99), i) = 99
                                  /\ \A j \in 0..(Len(a) - 1) : j # i => Index(SetIndex(a, i, 99), j) = Index(a, j)
   /\ (Len(a) = 2 => V3From2(a, 99) = a \o <<99>> /\ V4From22(a, Neg(a)) = a \o Neg(a))
   /\ (Len(a) = 3 => V4From3(a, 99) = a \o <<99>>)
   /\ Len(StreamBytes(a)) = 2 * Len(a) + 1
LawLength(a) == Pythagorean(a) => Length(a) >= 0 /\ Length(a) * Length(a) = Dot(a, a)
LawNormalize(a) == (Pythagorean(a) /\ Dot(a, a) # 0) =>
   LET r == Normalize(a)
       L == Length(a)
   IN /\ \A i \in DOMAIN a : r[i].d = L /\ r[i].n = a[i]
      /\ ReduceAdd([i \in DOMAIN a |-> r[i].n * r[i].n]) = L * L                \* unit length: sum (n/L)^2 = 1
      /\ \A i, j \in DOMAIN a : r[i].n * a[j] = r[j].n * a[i]                   \* same direction
      /\ ReduceAdd([i \in DOMAIN a |-> r[i].n * a[i]]) > 0                      \* same orientation
LawRcp(a) == (\A i \in DOMAIN a : a[i] # 0) => \A i \in DOMAIN a : Rcp(a)[i].d > 0 /\ Rcp(a)[i].n * a[i] = Rcp(a)[i].d

\* two vectors (s: a scalar)
LawLift2(a, b) ==
   \A i \in DOMAIN a :
      /\ Add(a, b)[i] = a[i] + b[i] /\ Sub(a, b)[i] = a[i] - b[i] /\ Mul(a, b)[i] = a[i] * b[i]
      /\ MinV(a, b)[i] = MinS(a[i], b[i]) /\ MaxV(a, b)[i] = MaxS(a[i], b[i])
      /\ (b[i] # 0 => Lift2(DivS, a, b)[i] = DivS(a[i], b[i]) /\ Lift2(ModS, a, b)[i] = ModS(a[i], b[i]))
LawRing(a, b, s) ==
   /\ Add(a, b) = Add(b, a) /\ Mul(a, b) = Mul(b, a)
   /\ Sub(a, b) = Add(a, Neg(b)) /\ Sub(a, b) = Neg(Sub(b, a))
   /\ Add(Sub(a, b), b) = a
   /\ VS(Mul, Add(a, b), s) = Add(VS(Mul, a, s), VS(Mul, b, s))
   /\ VS(Add, a, s) = SV(Add, s, a) /\ VS(Mul, a, s) = SV(Mul, s, a)
   /\ VS(Sub, a, s) = Neg(SV(Sub, s, a))
   /\ \A i \in DOMAIN a : VS(Sub, a, s)[i] = a[i] - s /\ SV(Sub, s, a)[i] = s - a[i]
LawDivVec(a, b) == (\A i \in DOMAIN b : b[i] # 0) =>
   /\ Add(Mul(Div(a, b), b), Mod(a, b)) = a
   /\ (Divisible(a, b) <=> Mod(a, b) = Splat(0, Len(a)))
   /\ Div(Mul(a, b), b) = a /\ Divisible(Mul(a, b), b)
LawMinMax(a, b) ==
   /\ MinV(a, b) = MinV(b, a) /\ MaxV(a, b) = MaxV(b, a)
   /\ MinV(a, a) = a /\ MaxV(a, a) = a
   /\ MinV(a, MaxV(a, b)) = a /\ MaxV(a, MinV(a, b)) = a                       \* absorption
   /\ Add(MinV(a, b), MaxV(a, b)) = Add(a, b)
   /\ \A i \in DOMAIN a : MinV(a, b)[i] <= a[i] /\ MinV(a, b)[i] <= b[i] /\ MinV(a, b)[i] \in {a[i], b[i]}
   /\ MinV(a, b) = Neg(MaxV(Neg(a), Neg(b)))
LawDot(a, b, c, s) ==
   /\ Dot(a, b) = ReduceAdd(Mul(a, b))
   /\ Dot(a, b) = Dot(b, a)
   /\ Dot(Add(a, b), c) = Dot(a, c) + Dot(b, c)
   /\ Dot(VS(Mul, a, s), b) = s * Dot(a, b)
   /\ Dot(a, a) >= 0 /\ (Dot(a, a) = 0 <=> a = Splat(0, Len(a)))
   /\ Dot(a, b) * Dot(a, b) <= Dot(a, a) * Dot(b, b)                       \* Cauchy-Schwarz
\* the cross product is characterised (uniquely) by: orthogonal to both operands, Lagrange's identity for its length,
\* and right-handedness det[a, b, a x b] = |a x b|^2
Det3(a, b, c) == a[1] * (b[2] * c[3] - b[3] * c[2]) - a[2] * (b[1] * c[3] - b[3] * c[1]) + a[3] * (b[1] * c[2] - b[2] * c[1])
LawCross(a, b) == Len(a) = 3 =>
   LET c == Cross(a, b) IN
   /\ Dot(c, a) = 0 /\ Dot(c, b) = 0
   /\ c = Neg(Cross(b, a))
   /\ Dot(c, c) = Dot(a, a) * Dot(b, b) - Dot(a, b) * Dot(a, b)
   /\ Det3(a, b, c) = Dot(c, c)
   /\ Cross(a, a) = <<0, 0, 0>>
LawCompare(a, b) ==
   /\ (Eq(a, b) <=> a = b) /\ (Ne(a, b) <=> a # b)
   /\ (AnyLessThan(a, b) <=> MinV(a, b) # b)
   /\ (AnyLessThan(a, b) <=> ~(\A i \in DOMAIN a : a[i] >= b[i]))
   /\ ~Less(a, a)
   /\ ((Less(a, b) /\ ~Less(b, a) /\ a # b) \/ (~Less(a, b) /\ Less(b, a) /\ a # b) \/ (~Less(a, b) /\ ~Less(b, a) /\ a = b))   \* trichotomy
\* the lexicographic order is the numeric order of the positional encoding (every component shifted into 0 .. B-1)
RECURSIVE EncodeTo(_, _, _, _)
EncodeTo(v, n, off, B) == IF n = 0 THEN 0 ELSE EncodeTo(v, n - 1, off, B) * B + (v[n] + off)
LawLessEncoding(a, b, off, B) == Less(a, b) <=> EncodeTo(a, Len(a), off, B) < EncodeTo(b, Len(b), off, B)
LawLessTransitive(a, b, c)    == (Less(a, b) /\ Less(b, c)) => Less(a, c)

\* three vectors
LawTernary(a, b, c) ==
   /\ Madd(a, b, c) = Add(Mul(a, b), c)
   /\ InterpolateUV(<<1, 0, 0>>, a, b, c) = a /\ InterpolateUV(<<0, 1, 0>>, a, b, c) = b /\ InterpolateUV(<<0, 0, 1>>, a, b, c) = c
   /\ \A i \in DOMAIN a : LawClampS(a[i], MinS(b[i], c[i]), MaxS(b[i], c[i]))
   /\ Clamp(a, MinV(b, c), MaxV(b, c)) = MaxV(MinV(a, MaxV(b, c)), MinV(b, c))
   /\ Lerp4(0, a, b) = VS(Mul, a, 4) /\ Lerp4(4, a, b) = VS(Mul, b, 4) /\ Lerp4(2, a, b) = VS(Mul, Add(a, b), 2)
LawInterpolate(f, a, b, c) ==
   InterpolateUV(f, a, b, c) = Add(Add(SV(Mul, f[1], a), SV(Mul, f[2], b)), SV(Mul, f[3], c))
===============================================================================
