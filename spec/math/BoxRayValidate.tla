---------------------------- MODULE BoxRayValidate ----------------------------
(* Code -> spec for intersectRayBox: the driver evaluated the real function on *)
(* the ray cases emitted by BoxAlgebraGen and recorded the returned interval   *)
(* [t0, t1] as integers T0, T1 (ends scaled by PD = 2^16, rounded, saturated   *)
(* at +-SAT).  TLC decides here, for every record, whether the interval covers *)
(* exactly the parameters whose points lie in the box, within rounding:        *)
(*   - every decided probe parameter n/PD (its point is farther than BAND from *)
(*     every face plane and from both ends of the admitted range) is inside    *)
(*     [T0, T1] exactly when its point is in the box (exact integer test);     *)
(*   - a ray that stays clear of the box yields an empty interval (T0 > T1).   *)
(* Grazing rays (in a face plane, touching an edge / corner / flat box only)   *)
(* have no decided probe at the contact and are not required to be non-empty.  *)
(* Boxes without points (default-constructed empty, inverted in some axis):    *)
(* the returned range_t must be empty by its own empty() (flag `empty`).       *)
(* Input: IOEnv.C05_OBS (ndjson {id, arg, T0, T1, nan, differs, empty});       *)
(* output: the rejected                                                        *)
(* records as ndjson in IOEnv.OUT.                                             *)
EXTENDS BoxAlgebra, IOUtils, Json, SequencesExt

Obs    == ndJsonDeserialize(IOEnv.C05_OBS)
KProbe == 16

\* o.differs: the call that relies on the default range [0, inf) returned something else than the call that spells it out
\* boxes without points: the real range_t must call itself empty (o.empty is range_t::empty() of the returned interval)
Accepted(o) == IF RayBoxIsEmpty(o.arg) THEN ~o.differs /\ RayAcceptEmptyBox(o.empty)
               ELSE /\ ~o.differs
                    /\ (o.nan => Grazes(o.arg))
                    /\ (~o.nan => RayAccept(o.arg, o.T0, o.T1, KProbe))
\* first failing probe, for the report
BadProbes(o) == IF RayBoxIsEmpty(o.arg) THEN {} ELSE {n \in Probes(o.arg, KProbe) : Decided(o.arg, n) /\ ~((o.T0 <= n /\ n <= o.T1) <=> Hit(o.arg, n))}
Report(o) == [id |-> o.id, cls |-> RayClass(o.arg),
              reason |-> IF o.differs THEN "default-range-differs" ELSE IF RayBoxIsEmpty(o.arg) THEN "box-without-points-hit" ELSE IF o.nan THEN "nan" ELSE IF BadProbes(o) # {} THEN "probe" ELSE "clear-miss-not-empty",
              probe |-> IF ~o.nan /\ BadProbes(o) # {} THEN MinOf(BadProbes(o)) ELSE 0,
              hit |-> IF ~o.nan /\ BadProbes(o) # {} THEN Hit(o.arg, MinOf(BadProbes(o))) ELSE FALSE]
RejIdx  == {k \in DOMAIN Obs : ~Accepted(Obs[k])}
RejSeq  == LET s == SetToSeq(RejIdx) IN [k \in DOMAIN s |-> Report(Obs[s[k]])]

ASSUME ndJsonSerialize(IOEnv.OUT, RejSeq)
ASSUME PrintT(<<"C05-RAY-VALIDATED", Len(Obs), "REJECTED", Cardinality(RejIdx)>>)
===============================================================================
