-------------------------- MODULE ScalarKernelsValidate --------------------------
(* Code -> spec for C07: TLC judges what the driver recorded from the real     *)
(* kernels.  Every record carries the INPUT and OUTPUT bit patterns (binary32  *)
(* as two 16-bit halves, integers as sign + base-2^15 limbs) of one evaluation *)
(* of the real code (or a table / stream of evaluations); the contracts of     *)
(* ScalarKernels are decided on them in exact integer arithmetic.  The driver  *)
(* and the orchestrator never compare a result with anything.                  *)
(*                                                                             *)
(*   k = "rcp", "rsqrt"    judged when x is in the stated range (and x > 0 for *)
(*                         rsqrt): relative error <= 2^-20                     *)
(*   k = "rcp_safe"        judged for every finite x                           *)
(*   k = "sign", "clampf", "clampi", "dru", "madd", "lerp", "deg2rad"          *)
(*   k = "lerpd", "deg2radd", "clampd", "rcp_safed"   the double instantiations *)
(*                         (binary64 patterns as four 16-bit quarters)         *)
(*   k = "lerpi"           lerp<T> for an integer type T (operands as limbs)   *)
(*   k = "runs"            complete run-length encoded table of a byte-valued  *)
(*                         function of one float                               *)
(*   k = "pack"            sampled channel tables of a packing function of     *)
(*                         four floats + packed vectors                        *)
(*   k = "dist"            two streams of a random distribution built from the *)
(*                         same arguments                                      *)
(*   k = "distinct"        streams recorded for two different seeds / sequence *)
(*                         ids (non-vacuity of "reproducible": they differ)    *)
(*   k = "dhist"           one history of ScalarKernelsDistADT performed on    *)
(*                         real distribution objects: per Draw the generator's *)
(*                         raw outputs and the values of the (used / copied)   *)
(*                         object and of a FRESH object fed a twin generator   *)
(* Input: IOEnv.C07_OBS (ndjson); output IOEnv.OUT: one line per rejected      *)
(* record [id, failed, cls] and a final summary line [summary, total, judged]. *)
EXTENDS ScalarKernels, IOUtils, Json, SequencesExt, FiniteSets, TLC

Obs == ndJsonDeserialize(IOEnv.C07_OBS)
TOL == 20

H(h)  == FromHalves(h)
ZZ(z) == SD(z.n = 1, z.m, 0)
WellHalves(o, fields) == \A fld \in fields : IsHalves(o[fld])
WellZ(z) == z.n \in {0, 1} /\ IsLimbs(z.m)

\* the values of an integer type o.bits wide (o.sgn = 1: signed)
TMax(o) == SD(FALSE, Sub(Pow2L(o.bits - o.sgn), One), 0)
TMin(o) == IF o.sgn = 1 THEN SD(TRUE, Pow2L(o.bits - 1), 0) ELSE SDZero
InsideD(o) == D64IsFinite(o.r) /\ SDLessEq(D64Val(o.lo), D64Val(o.r)) /\ SDLessEq(D64Val(o.r), D64Val(o.hi))

\* ---- histories of distribution objects (ScalarKernelsDistADT) --------------------------------------------
\* values travel as halves (urd_f, biased, color) or quarters (urd_d); raw generator outputs as limbs
PV(kind, p)      == IF kind = "urd_d" THEN D64Val(p) ELSE Val(H(p))
PFinite(kind, p) == IF kind = "urd_d" THEN D64IsFinite(p) ELSE IsFinite(H(p))
RelBits(kind)    == IF kind = "urd_d" THEN 49 ELSE MB - 3
TinyOf(kind)     == IF kind = "urd_d" THEN D64Tiny ELSE Tiny
TopOf(kind)      == IF kind = "urd_d" THEN Top64 ELSE Top32
RangeStated(o)   == /\ PFinite(o.kind, o.lo) /\ PFinite(o.kind, o.hi) /\ SDLessEq(PV(o.kind, o.lo), PV(o.kind, o.hi))
                    /\ (o.kind # "urd_d" => ~WidthOverflows(H(o.lo), H(o.hi)))      \* wider than FLT_MAX: judged (and known) on the stream records
InRangeP(o, p)   == /\ PFinite(o.kind, p)
                    /\ IF o.kind = "urd_d" THEN InRangeStepV(D64Val(p), D64Val(o.lo), D64Val(o.hi), 52, D64Tiny) ELSE InRangeStep(H(p), H(o.lo), H(o.hi))
DrawFailures(o, st) ==
  LET lv    == PV(o.kind, o.lo)
      uv    == PV(o.kind, o.hi)
      minL  == GenMinL(st.gen)
      spanL == GenSpanL(st.gen)
      n     == Len(st.v)
      ValueOk(i) == \/ ~DrawStatedV(lv, uv, minL, spanL, st.raws[i], RelBits(o.kind), TopOf(o.kind))
                    \/ /\ PFinite(o.kind, st.v[i])
                       /\ DrawValueOkV(lv, uv, minL, spanL, st.raws[i], PV(o.kind, st.v[i]), RelBits(o.kind), TinyOf(o.kind))
  IN \* binding guards (the orchestrator turns them into tooling errors): the generator types are the ones of the table,
     \* the twin generators gave the same outputs, one output per value
     (IF st.gen = "own" \/ (st.gmin = minL /\ st.gmax = Add(minL, spanL)) THEN {} ELSE {"guard:generator-range-table"})
     \cup (IF st.raws = st.fraws /\ Len(st.raws) = n /\ Len(st.fv) = n /\ n = st.n /\ \A i \in 1..n : IsLimbs(st.raws[i]) THEN {} ELSE {"guard:generator-twins"})
     \* no abstract state: the used / copied object returns what an object in its initial state returns
     \cup (IF st.v = st.fv THEN {} ELSE {"stateless"})
     \cup (IF ~RangeStated(o) \/ Len(st.raws) # n \/ \A i \in 1..n : ValueOk(i) THEN {} ELSE {"value-of-raw-output"})
     \cup (IF ~RangeStated(o) \/ \A i \in 1..n : InRangeP(o, st.v[i]) THEN {} ELSE {"range"})
\* makeRandomColor: a function of the index (whatever was evaluated before), components in [0, 1]
ColorCalls(o) == UNION {{<<s, i>> : i \in 1..Len(o.steps[s].idx)} : s \in {t \in 1..Len(o.steps) : o.steps[t].a = "Colors"}}
ColorFailures(o) ==
  LET calls == ColorCalls(o)
      Idx(c) == o.steps[c[1]].idx[c[2]]
      Col(c) == o.steps[c[1]].v[c[2]]
  IN (IF \A c \in calls, d \in calls : Idx(c) = Idx(d) => Col(c) = Col(d) THEN {} ELSE {"function-of-index"})
     \cup (IF \A c \in calls : Len(Col(c)) = 3 /\ \A j \in 1..3 : InRangeStep(H(Col(c)[j]), FromHalves(<<0, 0>>), PlusOne) THEN {} ELSE {"range"})
     \cup (IF \A s \in 1..Len(o.steps) : o.steps[s].a = "Colors" => Len(o.steps[s].idx) = Len(o.steps[s].v) /\ Len(o.steps[s].v) = o.steps[s].n THEN {} ELSE {"guard:calls"})
DrawSteps(o) == {s \in 1..Len(o.steps) : o.steps[s].a = "Draw"}
HistFailures(o) == (UNION {DrawFailures(o, o.steps[s]) : s \in DrawSteps(o)}) \cup (IF o.kind = "color" THEN ColorFailures(o) ELSE {})
\* the first step a clause fails at names the class of the finding
FirstBad(o) == LET bad == {s \in DrawSteps(o) : DrawFailures(o, o.steps[s]) # {}}
               IN IF bad = {} THEN 0 ELSE CHOOSE s \in bad : \A t \in bad : s <= t

\* is the record inside what the statement talks about?
Judged(o) ==
  CASE o.k = "rcp"      -> InKernelDomain(H(o.x))
    [] o.k = "rsqrt"    -> InKernelDomain(H(o.x)) /\ H(o.x).s = 0
    [] o.k = "rcp_safe" -> IsFinite(H(o.x))
    [] o.k = "sign"     -> ~IsNaN(H(o.x))
    [] o.k = "clampf"   -> ClampStated(H(o.x), H(o.lo), H(o.hi))
    [] o.k = "clampi"   -> SDLessEq(ZZ(o.lo), ZZ(o.hi))
    [] o.k = "dru"      -> DruStated(ZZ(o.a), ZZ(o.b))
    [] o.k = "madd"     -> IsFinite(H(o.a)) /\ IsFinite(H(o.b)) /\ IsFinite(H(o.c))
    [] o.k = "lerp"     -> IsFinite(H(o.f)) /\ IsFinite(H(o.a)) /\ IsFinite(H(o.b))
    [] o.k = "deg2rad"  -> IsFinite(H(o.x))
    [] o.k = "lerpd"    -> IsFinite(H(o.f)) /\ D64IsFinite(o.a) /\ D64IsFinite(o.b)
    [] o.k = "deg2radd" -> D64IsFinite(o.x) /\ D64Exp(o.x) <= 2000
    [] o.k = "clampd"   -> D64IsFinite(o.x) /\ D64IsFinite(o.lo) /\ D64IsFinite(o.hi) /\ SDLessEq(D64Val(o.lo), D64Val(o.hi))
    [] o.k = "rcp_safed" -> D64IsFinite(o.x)
    [] o.k = "lerpi"    -> IsFinite(H(o.f)) /\ LerpIntStated(Val(H(o.f)), ZZ(o.a), ZZ(o.b), TMin(o), TMax(o))
    [] OTHER            -> TRUE

Failures(o) ==
  CASE o.k = "rcp"      -> IF ~Judged(o) \/ RcpOk(H(o.x), H(o.r), TOL) THEN {} ELSE {"relative-error"}
    [] o.k = "rsqrt"    -> IF ~Judged(o) \/ RsqrtOk(H(o.x), H(o.r), TOL) THEN {} ELSE {"relative-error"}
    [] o.k = "rcp_safe" -> IF ~Judged(o) THEN {} ELSE (IF IsFinite(H(o.r)) THEN {} ELSE {"finite"})
                                                     \cup (IF OppositeSign(H(o.x), H(o.r)) THEN {"sign"} ELSE {})
    [] o.k = "sign"     -> IF SignOk(H(o.x), H(o.r)) THEN {} ELSE {"definition"}
    [] o.k = "clampf"   -> IF ~Judged(o) THEN {}
                           ELSE (IF ~IsNaN(H(o.r)) /\ ValLessEq(H(o.lo), H(o.r)) /\ ValLessEq(H(o.r), H(o.hi)) THEN {} ELSE {"inside"})
                                \cup (IF ClampOk(H(o.x), H(o.lo), H(o.hi), H(o.r)) \/ ~(~IsNaN(H(o.r)) /\ ValLessEq(H(o.lo), H(o.r)) /\ ValLessEq(H(o.r), H(o.hi)))
                                      THEN {} ELSE {"equals-x"})
    [] o.k = "clampi"   -> IF ~Judged(o) THEN {}
                           ELSE (IF SDLessEq(ZZ(o.lo), ZZ(o.r)) /\ SDLessEq(ZZ(o.r), ZZ(o.hi)) THEN {} ELSE {"inside"})
                                \cup (IF ZClampOk(ZZ(o.x), ZZ(o.lo), ZZ(o.hi), ZZ(o.r)) \/ ~(SDLessEq(ZZ(o.lo), ZZ(o.r)) /\ SDLessEq(ZZ(o.r), ZZ(o.hi)))
                                      THEN {} ELSE {"equals-x"})
    [] o.k = "dru"      -> IF DruOk(ZZ(o.a), ZZ(o.b), ZZ(o.q)) THEN {} ELSE {"least-q"}
    [] o.k = "madd"     -> IF MaddOk(H(o.a), H(o.b), H(o.c), H(o.r)) THEN {} ELSE {"definition"}
    [] o.k = "lerp"     -> IF LerpOk(H(o.f), H(o.a), H(o.b), H(o.r)) THEN {} ELSE {"definition"}
    [] o.k = "deg2rad"  -> IF Deg2RadOk(H(o.x), H(o.r)) THEN {} ELSE {"definition"}
    [] o.k = "lerpd"    -> IF LerpD64Ok(H(o.f), o.a, o.b, o.r) THEN {} ELSE {"definition"}
    [] o.k = "deg2radd" -> IF Deg2RadD64Ok(o.x, o.r) THEN {} ELSE {"definition"}
    [] o.k = "clampd"   -> IF ~Judged(o) THEN {}
                           ELSE (IF InsideD(o) THEN {} ELSE {"inside"})
                                \cup (IF ~InsideD(o) \/ ZClampOk(D64Val(o.x), D64Val(o.lo), D64Val(o.hi), D64Val(o.r)) THEN {} ELSE {"equals-x"})
    [] o.k = "rcp_safed" -> IF ~Judged(o) THEN {} ELSE (IF D64IsFinite(o.r) THEN {} ELSE {"finite"})
                                                      \cup (IF RcpSafeD64Ok(o.x, o.r) \/ ~D64IsFinite(o.r) THEN {} ELSE {"sign"})
    [] o.k = "lerpi"    -> IF ~IsFinite(H(o.f)) \/ LerpIntOk(Val(H(o.f)), ZZ(o.a), ZZ(o.b), ZZ(o.r), TMin(o), TMax(o)) THEN {} ELSE {"definition"}
    [] o.k = "runs"     -> RunFailures(o.runs) \ (IF o.truncated THEN {"cover"} ELSE {})     \* a table cut off by the recorder (more than 4096 runs) is judged on its prefix
    [] o.k = "pack"     -> UNION {ChanFailures(c, o.tabs[c]) : c \in 1..4}
                           \cup (IF \A i \in 1..Len(o.vecs) : VecOk(o.tabs, o.vecs[i]) THEN {} ELSE {"word-is-sum-of-channel-bytes"})
    [] o.k = "dist"     -> DistFailures(H(o.lo), H(o.hi), o.a, o.b)
    [] o.k = "dhist"    -> HistFailures(o)
    [] o.k = "distinct" -> IF o.s1 # o.s2 THEN {} ELSE {"identical-streams"}      \* vacuity guard of the orchestrator, not a property
    [] OTHER            -> {"unknown-record-kind"}

\* argument class of a record (part of the signature of a finding)
PosOf(x, lo, hi) == IF SDLess(x, lo) THEN "x<lower" ELSE IF SDLess(hi, x) THEN "x>upper"
                    ELSE IF SDEq(lo, hi) THEN "x=lower=upper" ELSE IF SDEq(x, lo) THEN "x=lower" ELSE IF SDEq(x, hi) THEN "x=upper" ELSE "lower<x<upper"
FPos(x, lo, hi)  == IF ~ValLessEq(lo, x) THEN "x<lower" ELSE IF ~ValLessEq(x, hi) THEN "x>upper"
                    ELSE IF SameValue(lo, hi) THEN "x=lower=upper" ELSE IF SameValue(x, lo) THEN "x=lower" ELSE IF SameValue(x, hi) THEN "x=upper" ELSE "lower<x<upper"
\* does a + b - 1 exceed the largest value of the operand type (o.bits wide, o.sgn = 1: signed)?
TypeMax(o) == TMax(o)
Cls(o) ==
  CASE o.k \in {"rcp", "rsqrt", "rcp_safe", "sign"} -> [binade |-> H(o.x).e, sign |-> H(o.x).s, class |-> ClassOf(H(o.x))]
    [] o.k = "clampf"  -> [class |-> FPos(H(o.x), H(o.lo), H(o.hi))]
    [] o.k = "clampi"  -> [class |-> PosOf(ZZ(o.x), ZZ(o.lo), ZZ(o.hi))]
    [] o.k = "dru"     -> [class |-> IF SDLess(TypeMax(o), SDSub(SDAdd(ZZ(o.a), ZZ(o.b)), SDOne)) THEN "a+b-1>max" ELSE "a+b-1<=max"]
    [] o.k = "deg2rad" -> [class |-> ClassOf(H(o.x))]
    [] o.k \in {"deg2radd", "rcp_safed"} -> [class |-> D64Class(o.x), sign |-> D64Sign(o.x)]
    [] o.k = "clampd"  -> [class |-> PosOf(D64Val(o.x), D64Val(o.lo), D64Val(o.hi))]
    [] o.k = "lerpi"   -> [class |-> IF LerpIntNearEdge(Val(H(o.f)), ZZ(o.a), ZZ(o.b), TMin(o), TMax(o)) THEN "float-value-may-leave-the-type" ELSE "inside-the-type"]
    [] o.k = "dist"    -> [class |-> IF IsFinite(H(o.lo)) /\ IsFinite(H(o.hi)) /\ WidthOverflows(H(o.lo), H(o.hi)) THEN "upper-lower>FLT_MAX" ELSE "lower<=upper"]
    [] o.k = "dhist"   -> LET s == FirstBad(o) IN IF s = 0 THEN [class |-> "-", gen |-> "-", step |-> 0]
                                                   ELSE [class |-> IF RangeStated(o) /\ QuotientDenormalV(PV(o.kind, o.lo), PV(o.kind, o.hi), GenSpanL(o.steps[s].gen),
                                                                                                            IF o.kind = "urd_d" THEN SDPow2(0 - 1022) ELSE SDPow2(1 - BIAS))
                                                                    THEN "(upper-lower)/(max-min)<MIN_NORMAL" ELSE o.steps[s].cls,
                                                         gen |-> o.steps[s].gen, step |-> s]
    [] OTHER           -> [class |-> "-"]

RejIdx == {i \in DOMAIN Obs : Failures(Obs[i]) # {}}
RejSeq == LET s == SetToSeq(RejIdx) IN [j \in DOMAIN s |-> [id |-> Obs[s[j]].id, failed |-> SetToSeq(Failures(Obs[s[j]])), cls |-> Cls(Obs[s[j]])]]
NJudged == Cardinality({i \in DOMAIN Obs : Judged(Obs[i])})

ASSUME ndJsonSerialize(IOEnv.OUT, RejSeq \o <<[summary |-> TRUE, total |-> Len(Obs), judged |-> NJudged]>>)
ASSUME PrintT(<<"C07-VALIDATED", Len(Obs), "JUDGED", NJudged, "REJECTED", Cardinality(RejIdx)>>)
===============================================================================
