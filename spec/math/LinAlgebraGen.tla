---------------------------- MODULE LinAlgebraGen -----------------------------
(* Case generation from LinAlgebra (constant level): every expected value is   *)
(* computed here by TLC with the operators whose laws LinAlgebraMC has         *)
(* checked.  One TLC run emits one group of cases                              *)
(*    {"a": op, "cls": class, "arg": {...}, "exp": {...}}                      *)
(* A case without "exp", or fields that are missing from "exp", are results    *)
(* that are rational or defined by a law: the driver records them and          *)
(* LinAlgebraValidate decides.                                                 *)
(* Matrices are lists of rows.  Angles are given as num * pi / den.            *)
(* Environment: OUT (file prefix), C06_GROUP (lin2 | lin3 | pair3 | aff3 |     *)
(* rot | quat | slerp | ops), C06_LEVEL (0 quick, 1 thorough: size of the families). *)
EXTENDS LinAlgebra, IOUtils, Json, SequencesExt

Group == IOEnv.C06_GROUP
Level == atoi(IOEnv.C06_LEVEL)
OutFile == IOEnv.OUT \o "-" \o Group

Weight(M) == Sum(MkV(Len(M), LAMBDA i : Sum(MkV(Len(M), LAMBDA j : (3 * i + j) * M[i][j]))))
DetClass(M) == IF Det(M) = 0 THEN "singular" ELSE IF Unimodular(M) THEN "unimodular" ELSE "regular"
AffRec(a)   == [l |-> a.l, p |-> a.p]

\* --------------------------------------------------------------------------
\* one matrix: det / adjoint / transposed / rows / constructors / inverse
\* --------------------------------------------------------------------------
UnaryCase(M) ==
  [a |-> IF Len(M) = 2 THEN "Unary2" ELSE "Unary3", cls |-> DetClass(M), arg |-> [m |-> M],
   exp |-> [det |-> Det(M), adjoint |-> Adj(M), transposed |-> Transpose(M), rows |-> M, mat |-> M,
            rm_cols |-> Cols(M), cc_cols |-> Cols(M), neg |-> MNeg(M)]]
\* M * inverse(M), inverse(M) * M, M / M are the identity for every regular M; the inverse itself is compared
\* here when it is an integer matrix and validated as a matrix of rationals otherwise
InverseCase(M) ==
  LET I == Ident(Len(M)) IN
  [a |-> IF Len(M) = 2 THEN "Inverse2" ELSE "Inverse3", cls |-> DetClass(M), arg |-> [m |-> M],
   exp |-> IF Unimodular(M) THEN [mulinv |-> I, invmul |-> I, div |-> I, inverse |-> InvU(M), rcp |-> InvU(M)]
           ELSE [mulinv |-> I, invmul |-> I, div |-> I]]
\* M * v, xfmPoint, xfmVector (the linear map) and xfmNormal (the inverse transpose) on probe vectors
XfmVs3 == << <<1, 0, 0>>, <<0, 1, 0>>, <<0, 0, 1>>, <<1, -1, 2>>, <<-2, 1, 1>> >>
XfmVs2 == << <<1, 0>>, <<0, 1>>, <<1, -1>>, <<-2, 1>>, <<2, 2>> >>
Images(M, vs) == [k \in DOMAIN vs |-> Apply(M, vs[k])]
XfmCase(M) ==
  LET img == Images(M, XfmVs3)
      nrm == [k \in DOMAIN XfmVs3 |-> VScale(Det(M), NormalNum(M, XfmVs3[k]))]
  IN [a |-> "Xfm3", cls |-> DetClass(M), arg |-> [m |-> M, vs |-> XfmVs3, inv |-> Det(M) # 0],
      exp |-> IF Unimodular(M) THEN [mulvec |-> img, point |-> img, vector |-> img, normal |-> nrm]
              ELSE [mulvec |-> img, point |-> img, vector |-> img]]
MulVec2Case(M) == [a |-> "MulVec2", cls |-> DetClass(M), arg |-> [m |-> M, vs |-> XfmVs2], exp |-> [mulvec |-> Images(M, XfmVs2)]]

\* two matrices: product, sum, difference, multiplicativity of det
PairClass(A, B) == IF Len(A) = 3 /\ A \in Rot /\ B \in Rot THEN "rotations" ELSE DetClass(A) \o "*" \o DetClass(B)
PairCase(A, B) ==
  [a |-> IF Len(A) = 2 THEN "Pair2" ELSE "Pair3", cls |-> PairClass(A, B), arg |-> [a |-> A, b |-> B],
   exp |-> [mul |-> Mul(A, B), muleq |-> Mul(A, B), detmul |-> Det(A) * Det(B), detprod |-> Det(A) * Det(B),
            add |-> MAdd(A, B), sub |-> MSub(A, B)]]

\* --------------------------------------------------------------------------
\* group "lin2": everything about 2x2 matrices and affine maps of the plane
\* --------------------------------------------------------------------------
M2Small == Mats(2, -1..1)
M2Wide  == Mats(2, -2..2)
M2Set   == IF Level = 0 THEN M2Small ELSE M2Wide
M2Pairs == IF Level = 0 THEN M2Small \X M2Small ELSE (M2Small \X M2Small) \cup {pr \in M2Wide \X M2Wide : (Weight(pr[1]) + 5 * Weight(pr[2])) % 17 = 0}
Offs2   == {<<0, 0>>, <<1, -2>>}
Aff2Maps == {Aff(M, t) : M \in {X \in M2Small : Weight(X) % 2 = 0 \/ Unimodular(X)}, t \in Offs2}
Aff2PairCase(x, y) ==
  LET I == AffRec(AffId(2)) IN
  [a |-> "Aff2Pair", cls |-> DetClass(x.l), arg |-> [a |-> AffRec(x), b |-> AffRec(y), inv |-> Det(x.l) # 0],
   exp |-> IF Unimodular(x.l) THEN [mul |-> AffRec(AffMul(x, y)), rcp |-> AffRec(AffInvU(x)), rcpmul |-> I, mulrcp |-> I]
           ELSE IF Det(x.l) # 0 THEN [mul |-> AffRec(AffMul(x, y)), rcpmul |-> I, mulrcp |-> I]
           ELSE [mul |-> AffRec(AffMul(x, y))]]
\* rotate(r), rotate(p, r) of the plane: quarter turns about the origin / about the point c; scale; translate
Aff2RotCase(k) ==
  [a |-> "Aff2Rot", cls |-> IF k % 4 = 0 THEN "full-turn" ELSE "turn", arg |-> [num |-> k, den |-> 2],
   exp |-> [lin |-> Rotate2(k), plain |-> AffRec(Aff(Rotate2(k), <<0, 0>>))]]
\* (rotate(point, angle) exists only as the explicit specialisation AffineSpace2f: float only)
Aff2RotAboutCase(c, k) ==
  [a |-> "Aff2RotAbout", cls |-> IF k % 4 = 0 THEN "full-turn" ELSE "turn", arg |-> [c |-> c, num |-> k, den |-> 2],
   exp |-> [about |-> AffRec(AffRotateAbout(c, Rotate2(k)))]]
Ctor2Case(s) == [a |-> "Ctor2", cls |-> "scale-translate", arg |-> [s |-> s],
                 exp |-> [linscale |-> Diag(s), scale |-> AffRec(AffScale(s)), translate |-> AffRec(AffTranslate(s)),
                          one |-> AffRec(AffId(2)), linone |-> Ident(2), linzero |-> SMul(0, Ident(2))]]
Ortho2Case(M) == [a |-> "Orthogonal2", cls |-> IF Det(M) > 0 THEN "proper" ELSE "mirrored", arg |-> [m |-> M]]
Lin2Cases ==
  IF Group # "lin2" THEN <<>> ELSE
  LET ms   == SetToSeq(M2Set)
      reg  == SetToSeq({M \in M2Set : Det(M) # 0})
      prs  == SetToSeq(M2Pairs)
      aps  == SetToSeq({pr \in Aff2Maps \X Aff2Maps : Level = 1 \/ (Weight(pr[1].l) + Weight(pr[2].l)) % 3 = 0})
      rots == SetToSeq({<<0, 0>>, <<1, -2>>, <<2, 1>>} \X (-4..4))
      svs  == SetToSeq(Vecs(2, -2..2))
      ort  == SetToSeq({M \in M2Wide : Det(M) # 0})
  IN [k \in DOMAIN ms |-> UnaryCase(ms[k])] \o [k \in DOMAIN reg |-> InverseCase(reg[k])]
     \o [k \in DOMAIN ms |-> MulVec2Case(ms[k])] \o [k \in DOMAIN prs |-> PairCase(prs[k][1], prs[k][2])]
     \o [k \in DOMAIN aps |-> Aff2PairCase(aps[k][1], aps[k][2])] \o [k \in DOMAIN rots |-> Aff2RotAboutCase(rots[k][1], rots[k][2])] \o [k \in 1..9 |-> Aff2RotCase(k - 5)]
     \o [k \in DOMAIN svs |-> Ctor2Case(svs[k])] \o [k \in DOMAIN ort |-> Ortho2Case(ort[k])]

\* --------------------------------------------------------------------------
\* group "lin3": one 3x3 matrix (quick: every ninth matrix of the lattice, and the whole group; thorough: all 19 683)
\* --------------------------------------------------------------------------
M3All == Mats(3, -1..1)
M3Set == IF Level = 0 THEN {M \in M3All : Weight(M) % 9 = 0} \cup Rot ELSE M3All
Lin3Cases ==
  IF Group # "lin3" THEN <<>> ELSE
  LET ms  == SetToSeq(M3Set)
      reg == SetToSeq({M \in M3Set : Det(M) # 0})
  IN [k \in DOMAIN ms |-> UnaryCase(ms[k])] \o [k \in DOMAIN reg |-> InverseCase(reg[k])] \o [k \in DOMAIN ms |-> XfmCase(ms[k])]

\* group "pair3": products
P3First == IF Level = 0 THEN {M \in M3All : Weight(M) % 81 = 0} \cup Partner3 ELSE {M \in M3All : Weight(M) % 9 = 0} \cup Partner3
Pair3Cases ==
  IF Group # "pair3" THEN <<>> ELSE
  LET prs == SetToSeq(P3First \X Partner3) IN [k \in DOMAIN prs |-> PairCase(prs[k][1], prs[k][2])]

\* --------------------------------------------------------------------------
\* group "aff3": affine maps of space
\* --------------------------------------------------------------------------
Offs3 == {<<0, 0, 0>>, <<1, -2, 3>>}
AffVs == << <<0, 0, 0>>, <<1, 0, 0>>, <<0, 1, 0>>, <<0, 0, 1>>, <<1, -1, 2>> >>
A3Lin == IF Level = 0 THEN {M \in M3All : Weight(M) % 27 = 0} \cup Partner3 ELSE {M \in M3All : Weight(M) % 3 = 0} \cup Partner3
AffXfmCase(x) ==
  LET pts == [k \in DOMAIN AffVs |-> AffApply(x, AffVs[k])]
      vcs == Images(x.l, AffVs)
      nrm == [k \in DOMAIN AffVs |-> VScale(Det(x.l), NormalNum(x.l, AffVs[k]))]
  IN [a |-> "AffXfm", cls |-> DetClass(x.l), arg |-> [l |-> x.l, p |-> x.p, vs |-> AffVs, inv |-> Det(x.l) # 0],
      exp |-> IF Unimodular(x.l) THEN [point |-> pts, vector |-> vcs, normal |-> nrm, parts |-> AffRec(x)]
              ELSE [point |-> pts, vector |-> vcs, parts |-> AffRec(x)]]
AffInvCase(x) ==
  LET I == AffRec(AffId(3)) IN
  [a |-> "AffInv", cls |-> DetClass(x.l), arg |-> [l |-> x.l, p |-> x.p, inv |-> TRUE],
   exp |-> IF Unimodular(x.l) THEN [rcp |-> AffRec(AffInvU(x)), rcpmul |-> I, mulrcp |-> I, div |-> I] ELSE [rcpmul |-> I, mulrcp |-> I, div |-> I]]
\* (A * B) p = A (B p): both sides are evaluated on the real code and both must be the value computed here
AffPairCase(x, y) ==
  LET img == [k \in DOMAIN AffVs |-> AffApply(x, AffApply(y, AffVs[k]))] IN
  [a |-> "AffPair", cls |-> PairClass(x.l, y.l), arg |-> [a |-> AffRec(x), b |-> AffRec(y), vs |-> AffVs],
   exp |-> [mul |-> AffRec(AffMul(x, y)), composed |-> img, nested |-> img]]
AffCtorCase(s) ==
  [a |-> "AffCtor", cls |-> "scale-translate", arg |-> [s |-> s],
   exp |-> [linscale |-> Diag(s), scale |-> AffRec(AffScale(s)), translate |-> AffRec(AffTranslate(s)), one |-> AffRec(AffId(3)),
            fromlin |-> AffRec(Aff(Diag(s), <<0, 0, 0>>)), linone |-> Ident(3), linzero |-> SMul(0, Ident(3))]]
\* rotate(u, r), rotate(p, u, r), rotate(q), rotate(p, q): turn count k about the cube axis a, about the origin / the point c
TurnRange(a) == (-AxisOrder(a))..AxisOrder(a)
AffRotateCase(a, k, c) ==
  LET R == RotateAA(a, k) IN
  [a |-> "AffRotate", cls |-> AxisKind(a), arg |-> [axis |-> a, num |-> 2 * k, den |-> AxisOrder(a), c |-> c],
   exp |-> [plain |-> AffRec(Aff(R, <<0, 0, 0>>)), about |-> AffRec(AffRotateAbout(c, R)),
            quat |-> AffRec(Aff(R, <<0, 0, 0>>))]]
AffRotateAboutQCase(a, k, c) ==
  [a |-> "AffRotateAboutQ", cls |-> AxisKind(a), arg |-> [axis |-> a, num |-> 2 * k, den |-> AxisOrder(a), c |-> c],
   exp |-> [aboutquat |-> AffRec(AffRotateAbout(c, RotateAA(a, k)))]]
LookEyes == IF Level = 0 THEN {<<0, 0, 0>>, <<1, -2, 1>>} ELSE {<<0, 0, 0>>, <<1, -2, 1>>, <<-1, 1, 2>>}
LookSet  == {<<e, d, w>> \in LookEyes \X Dirs3 \X Dirs3 : ~Parallel(d, w) /\ (Level = 1 \/ (Weight(<<e, d, w>>) % 2 = 0))}
LookatCase(e, d, w, f) == [a |-> "Lookat", cls |-> AxisKind(d) \o "/" \o (IF Dot(d, w) = 0 THEN "up-orthogonal" ELSE "up-oblique"),
                           arg |-> [eye |-> e, point |-> VAdd(e, VScale(f, d)), up |-> w]]
Aff3Cases ==
  IF Group # "aff3" THEN <<>> ELSE
  LET maps == SetToSeq({Aff(M, t) : M \in A3Lin, t \in Offs3})
      regs == SetToSeq({Aff(M, t) : M \in {X \in A3Lin : Det(X) # 0}, t \in Offs3})
      prs  == SetToSeq({Aff(M, t) : M \in Partner3, t \in Offs3} \X {Aff(M, t) : M \in Partner3, t \in Offs3})
      svs  == SetToSeq({s \in Vecs(3, -2..2) : Level = 1 \/ Sum(s) % 2 = 0})
      rots == SetToSeq({<<a, k, c>> \in Dirs3 \X (-4..4) \X {<<0, 0, 0>>, <<1, -2, 3>>} : k \in TurnRange(a)})
      lks  == SetToSeq(LookSet)
  IN [k \in DOMAIN maps |-> AffXfmCase(maps[k])] \o [k \in DOMAIN regs |-> AffInvCase(regs[k])]
     \o [k \in DOMAIN prs |-> AffPairCase(prs[k][1], prs[k][2])] \o [k \in DOMAIN svs |-> AffCtorCase(svs[k])]
     \o [k \in DOMAIN rots |-> AffRotateCase(rots[k][1], rots[k][2], rots[k][3])]
     \o [k \in DOMAIN rots |-> AffRotateAboutQCase(rots[k][1], rots[k][2], rots[k][3])]
     \o [k \in DOMAIN lks |-> LookatCase(lks[k][1], lks[k][2], lks[k][3], 1 + (k % 2))]

\* --------------------------------------------------------------------------
\* group "rot": rotate(axis, angle), frames
\* --------------------------------------------------------------------------
Turns == {<<a, k>> \in Dirs3 \X (-4..4) : k \in TurnRange(a)}
TurnArg(a, k) == [axis |-> a, num |-> 2 * k, den |-> AxisOrder(a), vs |-> XfmVs3]
TurnClass(a, k) == AxisKind(a) \o (IF k % AxisOrder(a) = 0 THEN "/full-turn" ELSE "")
RotateAACase(a, k) == [a |-> "RotateAA", cls |-> TurnClass(a, k), arg |-> TurnArg(a, k), exp |-> [m |-> RotateAA(a, k), det |-> 1]]
FrameCase(n)       == [a |-> "Frame", cls |-> AxisKind(n), arg |-> [n |-> n]]
FrameUpCase(n, w)  == [a |-> "FrameUp", cls |-> IF Parallel(n, w) THEN "up-parallel" ELSE AxisKind(n), arg |-> [n |-> n, up |-> w]]
RotCases ==
  IF Group # "rot" THEN <<>> ELSE
  LET ts == SetToSeq(Turns)
      ds == SetToSeq(Dirs3)
      fu == SetToSeq(Dirs3 \X Dirs3)
      ks == SetToSeq(-4..4)
  IN [k \in DOMAIN ts |-> RotateAACase(ts[k][1], ts[k][2])]
     \o [k \in DOMAIN ks |-> [a |-> "Rotate2", cls |-> IF ks[k] % 4 = 0 THEN "full-turn" ELSE "turn", arg |-> [num |-> ks[k], den |-> 2], exp |-> [m |-> Rotate2(ks[k])]]]
     \o [k \in DOMAIN ds |-> FrameCase(ds[k])] \o [k \in DOMAIN fu |-> FrameUpCase(fu[k][1], fu[k][2])]

\* --------------------------------------------------------------------------
\* group "quat": quaternions seen through the rotations they produce
\* --------------------------------------------------------------------------
QuatAACase(a, k)     == [a |-> "QuatAA", cls |-> TurnClass(a, k), arg |-> TurnArg(a, k),
                         exp |-> [m |-> RotateAA(a, k), app |-> Images(RotateAA(a, k), XfmVs3), norm2 |-> 1]]
\* matrix -> quaternion -> matrix, from the exact integer matrix (class = the branch of the constructor it takes) ...
QuatFromMatCase(R)   == [a |-> "QuatFromMat", cls |-> QuatBranch(R), arg |-> [m |-> R], exp |-> [m |-> R, norm2 |-> 1]]
\* ... and from the matrix rotate(axis, angle) computes (entries off by rounding: traces next to the branch boundaries)
QuatFromRotCase(a, k) == [a |-> "QuatFromRot", cls |-> QuatBranch(RotateAA(a, k)), arg |-> TurnArg(a, k), exp |-> [m |-> RotateAA(a, k)]]
QuatPairCase(A, B)   == [a |-> "QuatPair", cls |-> QuatBranch(A) \o "*" \o QuatBranch(B), arg |-> [a |-> A, b |-> B],
                         exp |-> [mul |-> Mul(A, B), xfmq |-> Mul(A, B), conj |-> Transpose(A), rcp |-> Transpose(A), div |-> Mul(A, Transpose(B))]]
QuatVecCase(A)       == [a |-> "QuatVec", cls |-> QuatBranch(A), arg |-> [a |-> A, vs |-> XfmVs3],
                         exp |-> [app |-> Images(A, XfmVs3), point |-> Images(A, XfmVs3), normal |-> Images(A, XfmVs3)]]
\* Hurwitz units: quaternion values themselves (components doubled), exact in binary floating point
\* ... including every scalar / compound-assignment / mixed-type overload of the quaternion operators (s = 2, 1/2, 1: exact):
\* all are componentwise by definition, the product is the Hamilton product
Two == <<2, 0, 0, 0>>                               \* the real number 1, doubled
HQuatCase(x, y)      == [a |-> "HQuat", cls |-> IF x[1] % 2 = 0 THEN "lipschitz" ELSE "half-integer", arg |-> [a |-> x, b |-> y],
                         exp |-> [mul2 |-> HMul(x, y), conj2 |-> HConj(x), rcp2 |-> HConj(x), neg2 |-> VNeg(x), m |-> QMat(x),
                                  sum2 |-> VAdd(x, y), diff2 |-> VSub(x, y), dot4 |-> Dot(x, y),
                                  smul_l |-> VScale(2, x), smul_r |-> VScale(2, x), smul_int |-> VScale(2, x), smul_dbl |-> VScale(2, x),
                                  sdiv |-> VScale(2, x), rdiv |-> VScale(2, HConj(x)), qdiv |-> HMul(x, HConj(y)),
                                  addr |-> VAdd(x, Two), addl |-> VAdd(x, Two), subr |-> VSub(x, Two), subl |-> VSub(Two, x), pos |-> x,
                                  pluseq_s |-> VAdd(x, Two), minuseq_s |-> VSub(x, Two), muleq_s |-> VScale(2, x), diveq_s |-> VScale(2, x),
                                  pluseq_q |-> VAdd(x, y), minuseq_q |-> VSub(x, y), muleq_q |-> HMul(x, y), diveq_q |-> HMul(x, HConj(y)),
                                  eq |-> (x = y), ne |-> (x # y), ctor_r |-> <<2, 0, 0, 0>>, ctor_v |-> <<0, x[2], x[3], x[4]>>,
                                  ctor_rv |-> x, vpart2 |-> <<x[2], x[3], x[4]>>, abs1 |-> 1, normalized2 |-> x]]
\* rotations with rational matrices num / den: matrix -> quaternion -> matrix, unit quaternion -> matrix, normalize
\* (class = branch / whether every component of the quaternion is non-zero, i.e. every term of the branch is exercised)
QuatRatCase(h) == [a |-> "QuatRat", cls |-> QuatBranch(QMat4(h)) \o (IF \A i \in 1..4 : h[i] # 0 THEN "/all-terms" ELSE ""),
                   arg |-> [h |-> h, num |-> QMat4(h), den |-> HSq(h)]]
YprRange == IF Level = 0 THEN -2..2 ELSE -4..4
QuatYPRCase(y, p, r) == [a |-> "QuatYPR", cls |-> IF (p - 1) % 2 = 0 THEN "pitch-quarter" ELSE "pitch-half", arg |-> [y |-> y, p |-> p, r |-> r],
                         exp |-> [m |-> YPR(y, p, r), norm2 |-> 1]]
QuatCases ==
  IF Group # "quat" THEN <<>> ELSE
  LET ts == SetToSeq(Turns)
      rs == SetToSeq(Rot)
      rp == SetToSeq(Rot \X Rot)
      hp == SetToSeq(HUnits \X HUnits)
      yp == SetToSeq(YprRange \X YprRange \X YprRange)
      iq == SetToSeq(IntQuats(-2..2))
  IN [k \in DOMAIN ts |-> QuatAACase(ts[k][1], ts[k][2])] \o [k \in DOMAIN rs |-> QuatFromMatCase(rs[k])]
     \o [k \in DOMAIN ts |-> QuatFromRotCase(ts[k][1], ts[k][2])] \o [k \in DOMAIN rp |-> QuatPairCase(rp[k][1], rp[k][2])]
     \o [k \in DOMAIN rs |-> QuatVecCase(rs[k])] \o [k \in DOMAIN hp |-> HQuatCase(hp[k][1], hp[k][2])]
     \o [k \in DOMAIN yp |-> QuatYPRCase(yp[k][1], yp[k][2], yp[k][3])] \o [k \in DOMAIN iq |-> QuatRatCase(iq[k])]

\* --------------------------------------------------------------------------
\* group "slerp": slerp(t, qa, qb) for all pairs of group elements, t = 0, 1/2, 1 (t2 = 2 t); qb negated for "neg"
\* --------------------------------------------------------------------------
StepKind(A, B) == LET T == Mul(Transpose(A), B) IN
                  CASE T = Ident(3) -> "equal" [] Trace(T) = 1 -> "quarter-turn-apart" [] Trace(T) = 0 -> "third-turn-apart" [] Trace(T) = -1 -> "half-turn-apart"
SlerpCase(A, B, neg, t2) ==
  LET base == [a |-> "Slerp", cls |-> StepKind(A, B) \o (IF neg THEN "/negated" ELSE "") \o "/t=" \o ToString(t2) \o "/2",
               arg |-> [a |-> A, b |-> B, neg |-> neg, t2 |-> t2]]
  IN IF t2 = 0 THEN base @@ [exp |-> [m |-> A]]
     ELSE IF t2 = 2 THEN base @@ [exp |-> [m |-> B]]
     ELSE IF A = B THEN base @@ [exp |-> [m |-> A]]
     ELSE base
SlerpCases ==
  IF Group # "slerp" THEN <<>> ELSE
  LET sp == SetToSeq({<<A, B, neg, t2>> \in Rot \X Rot \X BOOLEAN \X {0, 1, 2} : Level = 1 \/ ~neg \/ A = B \/ Weight(A) % 3 = 0})
  IN [k \in DOMAIN sp |-> SlerpCase(sp[k][1], sp[k][2], sp[k][3], sp[k][4])]


\* --------------------------------------------------------------------------
\* group "ops": every remaining operator overload of LinearSpace2 / LinearSpace3 / AffineSpaceT (scalar *, / scalar, / matrix,
\* compound assignments, unary +, aliasing operands x *= x and x /= x, ==, !=) and the converting constructors between
\* element types and paddings; two overloads that must agree are both compared with the same expected value
\* --------------------------------------------------------------------------
OpsCase(A, B) ==
  LET I == Ident(Len(A))
      base == [smul2 |-> SMul(2, A), smulneg |-> SMul(-3, A), divs |-> A, plus |-> A, selfmul |-> Mul(A, A),
               eq |-> (A = B), ne |-> (A # B), eqself |-> TRUE, neself |-> FALSE, copy |-> A, assign |-> A]
      e1 == IF Unimodular(B) THEN base @@ [div |-> Mul(A, InvU(B)), diveq |-> Mul(A, InvU(B))] ELSE base
      e2 == IF Unimodular(A) THEN e1 @@ [selfdiv |-> I] ELSE e1
  IN [a |-> IF Len(A) = 2 THEN "Ops2" ELSE "Ops3", cls |-> IF A = B THEN "same-operands" ELSE "distinct-operands",
      arg |-> [a |-> A, b |-> B, a2 |-> SMul(2, A), invb |-> Unimodular(B), inva |-> Unimodular(A)], exp |-> e2]
AffOpsCase(x, y) ==
  LET I == AffRec(AffId(3))
      base == [smul2 |-> AffRec(Aff(SMul(2, x.l), VScale(2, x.p))), plus |-> AffRec(x), neg |-> AffRec(Aff(MNeg(x.l), VNeg(x.p))),
               add |-> AffRec(Aff(MAdd(x.l, y.l), VAdd(x.p, y.p))), sub |-> AffRec(Aff(MSub(x.l, y.l), VSub(x.p, y.p))),
               muleq |-> AffRec(AffMul(x, y)), selfmul |-> AffRec(AffMul(x, x)), eq |-> (x = y), ne |-> (x # y), eqself |-> TRUE, neself |-> FALSE,
               copy |-> AffRec(x), assign |-> AffRec(x)]
      e1 == IF Unimodular(y.l) THEN base @@ [div |-> AffRec(AffMul(x, AffInvU(y))), diveq |-> AffRec(AffMul(x, AffInvU(y)))] ELSE base
      e2 == IF Unimodular(x.l) THEN e1 @@ [selfdiv |-> I] ELSE e1
  IN [a |-> "AffOps", cls |-> IF x = y THEN "same-operands" ELSE "distinct-operands",
      arg |-> [a |-> AffRec(x), b |-> AffRec(y), invb |-> Unimodular(y.l), inva |-> Unimodular(x.l)], exp |-> e2]
\* converting constructors: float <-> double, plain <-> padded: the same matrix / map in every element type
ConvertCase(x) == [a |-> IF Len(x.p) = 2 THEN "Convert2" ELSE "Convert3", cls |-> "any", arg |-> AffRec(x),
                   exp |-> IF Len(x.p) = 2 THEN [lin_f |-> x.l, lin_d |-> x.l]
                           ELSE [lin_f |-> x.l, lin_d |-> x.l, lin_fa |-> x.l, aff_f |-> AffRec(x), aff_d |-> AffRec(x), aff_fa |-> AffRec(x)]]
OpsMaps3 == {Aff(M, t) : M \in Partner3, t \in {<<0, 0, 0>>, <<1, -2, 3>>}}
OpsCases ==
  IF Group # "ops" THEN <<>> ELSE
  LET p3 == SetToSeq({pr \in Partner3 \X Partner3 : Level = 1 \/ pr[1] = pr[2] \/ (Weight(pr[1]) + 2 * Weight(pr[2])) % 3 = 0})
      p2 == SetToSeq({pr \in Mats(2, -1..1) \X Mats(2, -1..1) : Level = 1 \/ pr[1] = pr[2] \/ (Weight(pr[1]) + 2 * Weight(pr[2])) % 5 = 0})
      pa == SetToSeq({pr \in OpsMaps3 \X OpsMaps3 : pr[1] = pr[2] \/ (Weight(pr[1].l) + 2 * Weight(pr[2].l)) % (IF Level = 1 THEN 2 ELSE 5) = 0})
      c3 == SetToSeq(OpsMaps3)
      c2 == SetToSeq({Aff(M, <<1, -2>>) : M \in Mats(2, -1..1)})
  IN [k \in DOMAIN p3 |-> OpsCase(p3[k][1], p3[k][2])] \o [k \in DOMAIN p2 |-> OpsCase(p2[k][1], p2[k][2])]
     \o [k \in DOMAIN pa |-> AffOpsCase(pa[k][1], pa[k][2])] \o [k \in DOMAIN c3 |-> ConvertCase(c3[k])] \o [k \in DOMAIN c2 |-> ConvertCase(c2[k])]

\* "val": the case has results that LinAlgebraValidate decides (rational or law-defined)
NeedsValidation(c) == CASE c.a \in {"Inverse2", "Inverse3", "AffInv", "Orthogonal2", "Frame", "FrameUp", "Lookat", "QuatRat"} -> TRUE
                        [] c.a \in {"Xfm3", "AffXfm"} -> c.arg.inv
                        [] c.a = "Aff2Pair" -> Det(c.arg.a.l) # 0
                        [] c.a = "Slerp" -> c.arg.t2 = 1
                        [] OTHER -> FALSE
Marked(cs) == [k \in DOMAIN cs |-> cs[k] @@ [val |-> NeedsValidation(cs[k])]]

RawCases == CASE Group = "lin2" -> Lin2Cases [] Group = "lin3" -> Lin3Cases [] Group = "pair3" -> Pair3Cases [] Group = "aff3" -> Aff3Cases
           [] Group = "rot" -> RotCases [] Group = "quat" -> QuatCases [] Group = "slerp" -> SlerpCases [] Group = "ops" -> OpsCases
Cases == Marked(RawCases)

\* laws on exactly the emitted families (the general laws are LinAlgebraMC's)
ASSUME Group = "rot" => \A t \in Turns : RotateAA(t[1], t[2]) \in Rot /\ Apply(RotateAA(t[1], t[2]), t[1]) = t[1]
ASSUME Group = "quat" => \A b \in {"trace", "x-largest", "y-largest", "z-largest"} : \E R \in Rot : QuatBranch(R) = b
ASSUME ndJsonSerialize(OutFile, Cases)
ASSUME PrintT(<<"C06-CASES", Group, Len(Cases)>>)
===============================================================================
