
