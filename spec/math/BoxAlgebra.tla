------------------------------ MODULE BoxAlgebra ------------------------------
(* Property C05: ranges and boxes behave as closed axis-aligned sets.          *)
(*                                                                             *)
(* A box of dimension d is a record [lo |-> <<..>>, hi |-> <<..>>] of two      *)
(* integer tuples of length d (rkcommon: range_t<T> for d = 1, box_t<T,N> =    *)
(* range_t<vec_t<T,N>> for d = N; lo = lower, hi = upper).  Its MEANING is the *)
(* set of points  Pts(b) = {p : lo[i] <= p[i] <= hi[i] for every axis i};      *)
(* on a finite lattice this is a finite set TLC can compute, and every law of  *)
(* the property is stated about these sets (section "laws").  The operators of *)
(* the section "operations" are what the specification predicts for the        *)
(* library functions; the laws tie each of them to the set semantics and are   *)
(* checked by TLC for every box of the bounded lattice (BoxAlgebraMC) before   *)
(* any expected value is handed to a driver (BoxAlgebraGen, BoxTrace).         *)
(*                                                                             *)
(* Rays (intersectRayBox) are treated with exact rational parameters: a        *)
(* parameter t is an integer numerator over the fixed denominator PD.          *)
EXTENDS Integers, Sequences, FiniteSets, TLC

\* ---------------------------------------------------------------------------
\* basics
\* ---------------------------------------------------------------------------
Min2(x, y) == IF x <= y THEN x ELSE y
Max2(x, y) == IF x >= y THEN x ELSE y
Abs(x)     == IF x < 0 THEN -x ELSE x
MinOf(S)   == CHOOSE x \in S : \A y \in S : x <= y
MaxOf(S)   == CHOOSE x \in S : \A y \in S : x >= y

RECURSIVE ProdTo(_, _)
ProdTo(t, n) == IF n = 0 THEN 1 ELSE t[n] * ProdTo(t, n - 1)
Prod(t)      == ProdTo(t, Len(t))
RECURSIVE SumTo(_, _)
SumTo(t, n)  == IF n = 0 THEN 0 ELSE t[n] + SumTo(t, n - 1)

Tuples(S, d) == [1..d -> S]
Dim(b)       == Len(b.lo)
Ax(b)        == 1..Len(b.lo)

\* Bounds of the default-constructed box: rkcommon sets lower = pos_inf and
\* upper = neg_inf (infinity for float, max / lowest for integer element types).
\* The drivers map +INF / -INF to exactly those values.
INF == 1000000
EmptyBox(d) == [lo |-> [i \in 1..d |-> INF], hi |-> [i \in 1..d |-> -INF]]

AllBoxes(d, AX) == [lo : Tuples(AX, d), hi : Tuples(AX, d)]       \* includes inverted (lo > hi) boxes
IsEmpty(b)      == \E i \in Ax(b) : b.hi[i] < b.lo[i]             \* range_t::empty()
NEBoxes(d, AX)  == {b \in AllBoxes(d, AX) : ~IsEmpty(b)}
IsCanonicalEmpty(b) == b = EmptyBox(Dim(b))
\* operands for which the binary set laws are claimed: non-empty boxes and the default-constructed empty box
Proper(b)       == ~IsEmpty(b) \/ IsCanonicalEmpty(b)

\* ---------------------------------------------------------------------------
\* set semantics
\* ---------------------------------------------------------------------------
Pts(b, AX) == {p \in Tuples(AX, Dim(b)) : \A i \in Ax(b) : b.lo[i] <= p[i] /\ p[i] <= b.hi[i]}

\* r is the least box that contains the point set S (S non-empty, r non-empty):
\* quantification over every non-empty box of the lattice
IsLeastBox(r, S, NE, AX) ==
  /\ ~IsEmpty(r)
  /\ S \subseteq Pts(r, AX)
  /\ \A r2 \in NE : S \subseteq Pts(r2, AX) => Pts(r, AX) \subseteq Pts(r2, AX)
\* the same, stated without the quantifier over boxes: r contains S and every face of r touches S
IsTightBox(r, S) ==
  /\ S # {}
  /\ \A p \in S : \A i \in Ax(r) : r.lo[i] <= p[i] /\ p[i] <= r.hi[i]
  /\ \A i \in Ax(r) : (\E p \in S : p[i] = r.lo[i]) /\ (\E p \in S : p[i] = r.hi[i])
Hull(S, d) == [lo |-> [i \in 1..d |-> MinOf({p[i] : p \in S})], hi |-> [i \in 1..d |-> MaxOf({p[i] : p \in S})]]

Dist2(p, q) == SumTo([i \in 1..Len(p) |-> (p[i] - q[i]) * (p[i] - q[i])], Len(p))

\* ---------------------------------------------------------------------------
\* operations (what the specification predicts for the library functions)
\* ---------------------------------------------------------------------------
ContainsPt(b, p)   == \A i \in Ax(b) : b.lo[i] <= p[i] /\ p[i] <= b.hi[i]                 \* range_t::contains
ExtendPt(b, p)   == [lo |-> [i \in Ax(b) |-> Min2(b.lo[i], p[i])],                       \* range_t::extend(T)
                     hi |-> [i \in Ax(b) |-> Max2(b.hi[i], p[i])]]
ExtendBox(a, b)  == [lo |-> [i \in Ax(a) |-> Min2(a.lo[i], b.lo[i])],                    \* range_t::extend(range_t)
                     hi |-> [i \in Ax(a) |-> Max2(a.hi[i], b.hi[i])]]
Intersection(a, b) == [lo |-> [i \in Ax(a) |-> Max2(a.lo[i], b.lo[i])],                  \* intersectionOf
                       hi |-> [i \in Ax(a) |-> Min2(a.hi[i], b.hi[i])]]
Disjoint(a, b)   == \E i \in Ax(a) : a.hi[i] < b.lo[i] \/ b.hi[i] < a.lo[i]              \* disjoint
Touching(a, b)   == \A i \in Ax(a) : a.lo[i] <= b.hi[i] /\ b.lo[i] <= a.hi[i]            \* touchingOrOverlapping
Clamp(b, p)      == [i \in Ax(b) |-> Max2(b.lo[i], Min2(p[i], b.hi[i]))]                 \* range_t::clamp
Size(b)          == [i \in Ax(b) |-> b.hi[i] - b.lo[i]]                                  \* range_t::size
Center2(b)       == [i \in Ax(b) |-> b.lo[i] + b.hi[i]]                                  \* 2 * range_t::center
Volume(b)        == Prod(Size(b))                                                        \* area (d = 2), volume (d = 3)
SurfaceArea3(b)  == LET s == Size(b) IN 2 * (s[1] * s[2] + s[1] * s[3] + s[2] * s[3])    \* area (d = 3)
Scale(b, s)      == [lo |-> [i \in Ax(b) |-> b.lo[i] * s[i]], hi |-> [i \in Ax(b) |-> b.hi[i] * s[i]]]   \* box * s
Translate(b, v)  == [lo |-> [i \in Ax(b) |-> b.lo[i] + v[i]], hi |-> [i \in Ax(b) |-> b.hi[i] + v[i]]]   \* box + v

\* affine maps of 3-space: m = <<vx, vy, vz, t>> (columns of the linear part, translation)
XfmPoint(m, p)   == [i \in 1..3 |-> p[1] * m[1][i] + p[2] * m[2][i] + p[3] * m[3][i] + m[4][i]]
Det3(m)          == m[1][1] * (m[2][2] * m[3][3] - m[3][2] * m[2][3])
                  - m[2][1] * (m[1][2] * m[3][3] - m[3][2] * m[1][3])
                  + m[3][1] * (m[1][2] * m[2][3] - m[2][2] * m[1][3])
Corners(b)       == {p \in Tuples({0, 1}, Dim(b)) : TRUE}
CornerPts(b)     == {[i \in Ax(b) |-> IF c[i] = 0 THEN b.lo[i] ELSE b.hi[i]] : c \in Corners(b)}
XfmImages(m, S)  == {XfmPoint(m, p) : p \in S}

\* ---------------------------------------------------------------------------
\* laws: operations versus set semantics (each is checked for every box /
\* pair / point of the bounded lattice by BoxAlgebraMC)
\* ---------------------------------------------------------------------------
LawContains(b, p, AX)  == ContainsPt(b, p) <=> p \in Pts(b, AX)
LawEmpty(b, AX)        == IsEmpty(b) <=> Pts(b, AX) = {}
\* extend by a point: b non-empty or the default-constructed empty box
LawExtendPt(b, p, AX)  == Proper(b) => IsTightBox(ExtendPt(b, p), Pts(b, AX) \cup {p})
LawExtendPtFull(b, p, NE, AX) == Proper(b) => IsLeastBox(ExtendPt(b, p), Pts(b, AX) \cup {p}, NE, AX)
\* extend by a box: both operands non-empty or default-constructed empty
LawExtendBox(a, b, AX) ==
  (Proper(a) /\ Proper(b)) =>
     IF IsEmpty(a) /\ IsEmpty(b) THEN IsEmpty(ExtendBox(a, b))
     ELSE IsTightBox(ExtendBox(a, b), Pts(a, AX) \cup Pts(b, AX))
LawExtendBoxFull(a, b, NE, AX) ==
  (Proper(a) /\ Proper(b) /\ ~(IsEmpty(a) /\ IsEmpty(b))) => IsLeastBox(ExtendBox(a, b), Pts(a, AX) \cup Pts(b, AX), NE, AX)
\* the default-constructed empty box is the identity of extend, for every other operand (also inverted ones, as records)
LawExtendIdentity(b)   == ExtendBox(EmptyBox(Dim(b)), b) = b /\ ExtendBox(b, EmptyBox(Dim(b))) = b
\* intersection: exactly the common points - for ALL operands, inverted and default-empty included
LawIntersection(a, b, AX) == Pts(Intersection(a, b), AX) = Pts(a, AX) \cap Pts(b, AX)
\* disjoint <=> no common point <=> intersection empty <=> not touchingOrOverlapping (proper operands)
LawDisjoint(a, b, AX)  ==
  (Proper(a) /\ Proper(b)) =>
     /\ Disjoint(a, b) <=> (Pts(a, AX) \cap Pts(b, AX) = {})
     /\ Disjoint(a, b) <=> IsEmpty(Intersection(a, b))
     /\ Disjoint(a, b) <=> ~Touching(a, b)
\* as formulas the two predicates are complementary for all operands
LawDisjointTouching(a, b) == Disjoint(a, b) <=> ~Touching(a, b)
\* clamp: the unique nearest point of a non-empty box
LawClamp(b, p, AX)     ==
  ~IsEmpty(b) => LET c == Clamp(b, p) IN
     /\ c \in Pts(b, AX)
     /\ \A q \in Pts(b, AX) : q = c \/ Dist2(p, q) > Dist2(p, c)
     /\ (p \in Pts(b, AX) => c = p)
\* size / volume: extent per axis and number of unit cells
LawSize(b, AX)         ==
  ~IsEmpty(b) =>
     /\ \A i \in Ax(b) : Size(b)[i] = Cardinality({q[i] : q \in Pts(b, AX)}) - 1
     /\ Volume(b) = Cardinality({q \in Pts(b, AX) : ContainsPt(b, [i \in Ax(b) |-> q[i] + 1])})
\* centre: the point reflection about Center2/2 maps the box onto itself
LawCenter(b, AX)       == ~IsEmpty(b) => {[i \in Ax(b) |-> Center2(b)[i] - q[i]] : q \in Pts(b, AX)} = Pts(b, AX)
LawCenterUnique(b, AX, AXW) ==
  ~IsEmpty(b) => \A c \in Tuples(AXW, Dim(b)) : ({[i \in Ax(b) |-> c[i] - q[i]] : q \in Pts(b, AX)} = Pts(b, AX)) <=> c = Center2(b)
\* translation: the translated box is the translated set
LawTranslate(b, v, AX, AXW) == ~IsEmpty(b) => Pts(Translate(b, v), AXW) = {[i \in Ax(b) |-> q[i] + v[i]] : q \in Pts(b, AX)}
\* scaling by non-negative factors: least box containing the scaled set
LawScale(b, s, AX)     == (~IsEmpty(b) /\ \A i \in Ax(b) : s[i] >= 0) => IsTightBox(Scale(b, s), {[i \in Ax(b) |-> q[i] * s[i]] : q \in Pts(b, AX)})
\* xfmBounds: the hull of the corner images contains the image of every lattice point of the box (convexity)
LawXfm(m, b, AX)       == ~IsEmpty(b) => LET h == Hull(XfmImages(m, CornerPts(b)), 3) IN \A q \in XfmImages(m, Pts(b, AX)) : ContainsPt(h, q)

\* Scaling and translation of boxes WITHOUT points.  The headers define both component-wise on the bounds
\* (range * s = [lower * s, upper * s], range + v = [lower + v, upper + v]; the only overloads are range * T, T * range,
\* range + T, T + range with T the bound type - there is no operator-, no compound form and no box * scalar for vector
\* boxes).  ScaleB / TranslateB extend Scale / Translate to the sentinel bounds of the default-constructed empty box:
\* +-INF times a positive factor and +-INF plus anything stay +-INF.  A positive rational factor n/den is applied to
\* bounds whose product is divisible (ScaleQ).  What is NOT constrained: negative factors (they swap the order of the
\* bounds: a non-empty box gets inverted bounds, an inverted one regular bounds - the definition contradicts the set
\* reading either way), and a zero factor on a box without points (float: inf * 0 = NaN; int: the definition gives the
\* point box [0, 0]); for the integer default empty box only the factor 1 and the translation 0 are evaluated, every other
\* one overflows INT_MAX / INT_MIN.  A zero factor on a NON-empty box is part of the ordinary Scale cases (it collapses
\* to the point 0).
IsSentinel(x)      == x = INF \/ x = -INF
MulB(x, n, den)    == IF IsSentinel(x) THEN x ELSE (x * n) \div den          \* n > 0, den > 0, den divides x * n
AddB(x, v)         == IF IsSentinel(x) THEN x ELSE x + v
ScaleQ(b, n, den)  == [lo |-> [i \in Ax(b) |-> MulB(b.lo[i], n[i], den)], hi |-> [i \in Ax(b) |-> MulB(b.hi[i], n[i], den)]]
ScaleB(b, s)       == ScaleQ(b, s, 1)
TranslateB(b, v)   == [lo |-> [i \in Ax(b) |-> AddB(b.lo[i], v[i])], hi |-> [i \in Ax(b) |-> AddB(b.hi[i], v[i])]]
Divisible(b, n, den) == \A i \in Ax(b) : (IsSentinel(b.lo[i]) \/ (b.lo[i] * n[i]) % den = 0) /\ (IsSentinel(b.hi[i]) \/ (b.hi[i] * n[i]) % den = 0)
Positive(s)        == \A i \in DOMAIN s : s[i] > 0
PointBox(p)        == [lo |-> p, hi |-> p]
\* a box without points stays without points, contains no point, and (default empty box) stays the identity of extend
StaysEmpty(b, r, AXW, PS) ==
  /\ IsEmpty(r)
  /\ Pts(r, AXW) = {}
  /\ \A p \in PS : ~ContainsPt(r, p)
  /\ (IsCanonicalEmpty(b) => (IsCanonicalEmpty(r) /\ \A p \in PS : ExtendPt(r, p) = PointBox(p)))
LawScaleEmpty(b, n, den, AXW, PS)  == (IsEmpty(b) /\ Positive(n) /\ Divisible(b, n, den)) => StaysEmpty(b, ScaleQ(b, n, den), AXW, PS)
LawTranslateEmpty(b, v, AXW, PS)   == IsEmpty(b) => StaysEmpty(b, TranslateB(b, v), AXW, PS)
\* if two boxes have no common point, neither have their scaled / translated images, and the scaled / translated
\* (inverted) intersection is still without points; disjoint() of the images agrees (proper operands)
LawScalePair(a, b, n, den) ==
  (Positive(n) /\ Divisible(a, n, den) /\ Divisible(b, n, den) /\ Divisible(Intersection(a, b), n, den)) =>
     /\ IsEmpty(Intersection(ScaleQ(a, n, den), ScaleQ(b, n, den))) = IsEmpty(Intersection(a, b))
     /\ IsEmpty(ScaleQ(Intersection(a, b), n, den)) = IsEmpty(Intersection(a, b))
     /\ ((Proper(a) /\ Proper(b)) => Disjoint(ScaleQ(a, n, den), ScaleQ(b, n, den)) = Disjoint(a, b))
LawTranslatePair(a, b, v) ==
     /\ IsEmpty(Intersection(TranslateB(a, v), TranslateB(b, v))) = IsEmpty(Intersection(a, b))
     /\ IsEmpty(TranslateB(Intersection(a, b), v)) = IsEmpty(Intersection(a, b))
     /\ ((Proper(a) /\ Proper(b)) => Disjoint(TranslateB(a, v), TranslateB(b, v)) = Disjoint(a, b))

\* Order isomorphism: contains / extend / clamp / intersectionOf / disjoint / touchingOrOverlapping / empty only COMPARE
\* coordinates, so they commute with every strictly increasing map F of the coordinates (the sentinel +-INF is fixed).
\* This is what lets the drivers re-use the lattice expectations for boxes whose coordinates are F(k): the
\* neighbourhood of the element type's limits (2^31, 2^24, 2^15, the sign bit of unsigned types, multiples of 2^32),
\* non-dyadic, subnormal and huge floating-point values.
MapV(F(_), x)     == IF x = INF THEN INF ELSE IF x = -INF THEN -INF ELSE F(x)
MapPt(F(_), p)    == [i \in 1..Len(p) |-> MapV(F, p[i])]
MapBox(F(_), b)   == [lo |-> MapPt(F, b.lo), hi |-> MapPt(F, b.hi)]
StrictlyIncreasing(F(_), S) == \A x, y \in S : x < y => (F(x) < F(y) /\ -INF < F(x) /\ F(y) < INF)
LawMonotonePt(F(_), b, p) ==
  /\ ContainsPt(MapBox(F, b), MapPt(F, p)) = ContainsPt(b, p)
  /\ IsEmpty(MapBox(F, b)) = IsEmpty(b)
  /\ ExtendPt(MapBox(F, b), MapPt(F, p)) = MapBox(F, ExtendPt(b, p))
  /\ Clamp(MapBox(F, b), MapPt(F, p)) = MapPt(F, Clamp(b, p))
LawMonotonePair(F(_), a, b) ==
  /\ ExtendBox(MapBox(F, a), MapBox(F, b)) = MapBox(F, ExtendBox(a, b))
  /\ Intersection(MapBox(F, a), MapBox(F, b)) = MapBox(F, Intersection(a, b))
  /\ Disjoint(MapBox(F, a), MapBox(F, b)) = Disjoint(a, b)
  /\ Touching(MapBox(F, a), MapBox(F, b)) = Touching(a, b)

\* ---------------------------------------------------------------------------
\* rays: p(t) = org + t * dir, t = n / PD, restricted to [tlo2/2, thi2/2]
\* (thi2 = INF: unbounded).  A ray case is a record
\*    [org, dir, lo, hi, tlo2, thi2]
\* ---------------------------------------------------------------------------
PD   == 65536          \* denominator of probe parameters and scale of the recorded interval ends
BAND == 4              \* 2^-14 absolute = 2^-18 relative to the coordinate scale 16, in units of 1/PD

RayAx(c)        == 1..Len(c.org)
\* PD * (coordinate i of the point at parameter n/PD)
CoordAt(c, n, i) == c.org[i] * PD + n * c.dir[i]
InBoxAt(c, n)   == \A i \in RayAx(c) : c.lo[i] * PD <= CoordAt(c, n, i) /\ CoordAt(c, n, i) <= c.hi[i] * PD
InRangeAt(c, n) == c.tlo2 * (PD \div 2) <= n /\ (c.thi2 = INF \/ n <= c.thi2 * (PD \div 2))
Hit(c, n)       == InBoxAt(c, n) /\ InRangeAt(c, n)
\* a probe is decided if its point is farther than BAND from every face plane and its parameter from both ends of the range
Decided(c, n)   ==
  /\ \A i \in RayAx(c) : Abs(CoordAt(c, n, i) - c.lo[i] * PD) > BAND /\ Abs(CoordAt(c, n, i) - c.hi[i] * PD) > BAND
  /\ Abs(n - c.tlo2 * (PD \div 2)) > BAND
  /\ (c.thi2 = INF \/ Abs(n - c.thi2 * (PD \div 2)) > BAND)

\* exact parameter interval by cross-multiplication; fractions [n, d] with d > 0
Frac(n, d)      == IF d < 0 THEN [n |-> -n, d |-> -d] ELSE [n |-> n, d |-> d]
FLe(f, g)       == f.n * g.d <= g.n * f.d
FLt(f, g)       == f.n * g.d < g.n * f.d
FMax(S)         == CHOOSE f \in S : \A g \in S : FLe(g, f)
FMin(S)         == CHOOSE f \in S : \A g \in S : FLe(f, g)
Moving(c)       == {i \in RayAx(c) : c.dir[i] # 0}
SlabEnds(c, i)  == {Frac(c.lo[i] - c.org[i], c.dir[i]), Frac(c.hi[i] - c.org[i], c.dir[i])}
SlabOK(c)       == \A i \in RayAx(c) : c.dir[i] = 0 => (c.lo[i] <= c.org[i] /\ c.org[i] <= c.hi[i])
ExactLo(c)      == FMax({FMin(SlabEnds(c, i)) : i \in Moving(c)} \cup {Frac(c.tlo2, 2)})
ExactHi(c)      == FMin({FMax(SlabEnds(c, i)) : i \in Moving(c)} \cup (IF c.thi2 = INF THEN {} ELSE {Frac(c.thi2, 2)}))
ExactEmpty(c)   == ~SlabOK(c) \/ FLt(ExactHi(c), ExactLo(c))
\* the ray stays clear of the box: a stationary axis outside its slab (distance >= 1) or a gap of at least 1/4 between the exact ends
ClearMiss(c)    == ~SlabOK(c) \/ LET l == ExactLo(c)
                                     h == ExactHi(c) IN 4 * (l.n * h.d - h.n * l.d) >= l.d * h.d
\* the ray only grazes: the exact hit set is a single parameter, or the ray lies in a face plane
Grazes(c)       == \/ (~ExactEmpty(c) /\ ~FLt(ExactLo(c), ExactHi(c)))
                   \/ \E i \in RayAx(c) : c.dir[i] = 0 /\ (c.org[i] = c.lo[i] \/ c.org[i] = c.hi[i])

\* probe parameters: odd quarters (never on a slab end, which are multiples of 1/2 for |dir| <= 2) and
\* +-8/PD around every slab end and range end
CoarseProbes(K) == {(2 * k + 1) * (PD \div 4) : k \in -K..(K - 1)}
EndNums(c)      == {(f.n * PD) \div f.d : f \in UNION {SlabEnds(c, i) : i \in Moving(c)}}
                     \cup {c.tlo2 * (PD \div 2)} \cup (IF c.thi2 = INF THEN {} ELSE {c.thi2 * (PD \div 2)})
FineProbes(c)   == UNION {{e - 8, e + 8} : e \in EndNums(c)}
Probes(c, K)    == CoarseProbes(K) \cup FineProbes(c)

\* law: the exact interval computed from the slab formula is the set of parameters whose points lie in the box
LawRay(c, K)    == LET l  == ExactLo(c)
                       h  == ExactHi(c)
                       ok == SlabOK(c)
                   IN \A n \in Probes(c, K) : Hit(c, n) <=> (ok /\ FLe(l, Frac(n, PD)) /\ FLe(Frac(n, PD), h))
\* every probe of this construction is decided unless the ray lies in a face plane
LawProbesDecided(c, K) == (\A i \in RayAx(c) : c.dir[i] = 0 => (c.org[i] # c.lo[i] /\ c.org[i] # c.hi[i]))
                             => \A n \in Probes(c, K) : Decided(c, n)

\* acceptance of an observed interval [T0, T1] (ends scaled by PD and rounded, saturated at +-SAT)
SAT == 16777216
RayAccept(c, T0, T1, K) ==
  /\ \A n \in Probes(c, K) : Decided(c, n) => ((T0 <= n /\ n <= T1) <=> Hit(c, n))
  /\ ClearMiss(c) => T0 > T1
\* Boxes without points (the default-constructed empty box, boxes inverted in at least one axis): no parameter's point
\* lies in the box (LawEmpty: IsEmpty(b) <=> Pts(b) = {}), so for EVERY ray and every admitted range the returned interval
\* must be empty.  Emptiness of the returned range_t is what range_t::empty() decides: anyLessThan(upper, lower), i.e.
\* upper < lower for the scalar parameter type (false when an end is NaN).  The driver records that verdict of the real
\* range_t as the flag `empty`; the bounds themselves are not constrained.
RayBox(c)          == [lo |-> c.lo, hi |-> c.hi]
RayBoxIsEmpty(c)   == IsEmpty(RayBox(c))
RayAcceptEmptyBox(emptyFlag) == emptyFlag = TRUE
\* for finite (inverted) bounds: no probe parameter's point is inside the box
LawRayEmptyBox(c, K) == (RayBoxIsEmpty(c) /\ ~IsCanonicalEmpty(RayBox(c))) => \A n \in CoarseProbes(K) : ~InBoxAt(c, n)
RayEmptyClass(c)   == IF IsCanonicalEmpty(RayBox(c)) THEN "empty-box-default" ELSE "empty-box-inverted"

RayClass(c) == IF RayBoxIsEmpty(c) THEN RayEmptyClass(c)
               ELSE IF ~SlabOK(c) THEN "miss-parallel"
               ELSE IF ClearMiss(c) THEN "miss"
               ELSE IF Grazes(c) THEN "graze"
               ELSE IF \E i \in RayAx(c) : c.dir[i] = 0 THEN "hit-parallel"
               ELSE IF ContainsPt([lo |-> c.lo, hi |-> c.hi], c.org) THEN "hit-from-inside"
               ELSE "hit"
===============================================================================
