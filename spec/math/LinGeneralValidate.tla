--------------------------- MODULE LinGeneralValidate --------------------------
(* Code -> spec for the non-lattice families of C06 (LinGeneral): the driver   *)
(* evaluated the real functions on seeded random inputs (general unit axes and  *)
(* angles, general unit quaternion pairs, general matrices K / 8) and recorded  *)
(* the results scaled by 2^14; TLC decides every record with the polynomial     *)
(* laws of LinGeneral.  A record whose input is outside the stated quantifier   *)
(* (condition number > 64, malformed descriptor) is skipped, and counted.       *)
(* Input: IOEnv.C06_OBS (ndjson {id, a, arg, obs}).  Output: IOEnv.OUT = the    *)
(* rejected records {id, a, reason}; IOEnv.OUT \o "-stats" = how many records   *)
(* of each class were judged ({a, cls, verdict, n}) - the vacuity guards of the *)
(* check read these counts.                                                     *)
EXTENDS LinGeneral, IOUtils, Json, SequencesExt

Obs == ndJsonDeserialize(IOEnv.C06_OBS)

Verdict(o) == CASE o.a = "GenRot" -> GenRotVerdict(o.arg, o.obs)
                [] o.a = "GenHalf" -> GenHalfVerdict(o.arg, o.obs)
                [] o.a = "GenSlerp" -> GenSlerpVerdict(o.arg, o.obs)
                [] o.a \in {"GenMat3", "GenMat2"} -> GenMatVerdict(o.arg, o.obs)
                [] o.a = "GenFrame" -> GenFrameVerdict(o.arg, o.obs)
                [] o.a = "GenLookat" -> GenLookatVerdict(o.arg, o.obs)
                [] OTHER -> "unknown-operation"
IsSkip(v) == Len(v) >= 5 /\ SubSeq(v, 1, 5) = "skip:"
ClassOf(o) == CASE o.a = "GenRot" -> (IF o.obs.nan \/ ~InRangeM(o.obs.R1) THEN "unclassified" ELSE GenRotClass(o.arg, o.obs))
                [] o.a = "GenSlerp" -> PairClass(o.arg.ha, o.arg.hb)
                [] o.a = "GenFrame" -> GenFrameClass(o.arg)
                [] o.a = "GenLookat" -> GenLookatClass(o.arg)
                [] o.a \in {"GenMat3", "GenMat2"} -> (IF o.arg.e = 0 THEN "unscaled" ELSE IF o.arg.e > 0 THEN "scaled-up" ELSE "scaled-down")
                [] OTHER -> "all"

\* class used in the signature of a rejection: coarse, so that one defect gives one family of signatures
BranchLaws == {"quaternion-from-matrix-is-not-the-same-rotation", "quaternion-from-matrix-is-not-+-quaternion-rotate", "quaternion-not-unit",
               "matrix-from-quaternion-is-not-its-rotation"}
SigClass(o, v) == CASE o.a = "GenRot" -> (IF v \in BranchLaws /\ ~o.obs.nan /\ InRangeM(o.obs.R1) THEN "branch=" \o QuatBranch(o.obs.R1)
                                          ELSE IF Abs(o.arg.a.q) >= 2 \/ Abs(o.arg.b.q) >= 2 THEN "angle-beyond-pi-or-near" ELSE "angle-within-pi")
                  [] o.a = "GenSlerp" -> PairClass(o.arg.ha, o.arg.hb)
                  [] o.a = "GenFrame" -> GenFrameClass(o.arg)
                  [] o.a = "GenLookat" -> GenLookatClass(o.arg)
                  [] o.a \in {"GenMat3", "GenMat2"} -> (IF o.arg.e = 0 THEN "unscaled" ELSE IF o.arg.e > 0 THEN "scaled-up" ELSE "scaled-down")
                  [] OTHER -> "general"

\* evaluated once per record
Judged == [k \in DOMAIN Obs |-> [a |-> Obs[k].a, cls |-> ClassOf(Obs[k]), v |-> Verdict(Obs[k])]]
JSeq   == [k \in DOMAIN Obs |-> Judged[k]]
RejIdx == {k \in DOMAIN Obs : Judged[k].v # "ok" /\ ~IsSkip(Judged[k].v)}
RejSeq == LET s == SetToSeq(RejIdx) IN [k \in DOMAIN s |-> [id |-> Obs[s[k]].id, a |-> Obs[s[k]].a, cls |-> SigClass(Obs[s[k]], Judged[s[k]].v), reason |-> Judged[s[k]].v]]
Keys   == {<<Judged[k].a, Judged[k].cls, IF Judged[k].v = "ok" THEN "ok" ELSE IF IsSkip(Judged[k].v) THEN Judged[k].v ELSE "rejected">> : k \in DOMAIN Obs}
KeyOf(k) == <<Judged[k].a, Judged[k].cls, IF Judged[k].v = "ok" THEN "ok" ELSE IF IsSkip(Judged[k].v) THEN Judged[k].v ELSE "rejected">>
Stats  == LET s == SetToSeq(Keys) IN [i \in DOMAIN s |-> [a |-> s[i][1], cls |-> s[i][2], verdict |-> s[i][3],
                                                         n |-> Cardinality({k \in DOMAIN Obs : KeyOf(k) = s[i]})]]

ASSUME ndJsonSerialize(IOEnv.OUT, RejSeq)
ASSUME ndJsonSerialize(IOEnv.OUT \o "-stats", Stats)
ASSUME PrintT(<<"C06-GENERAL-VALIDATED", Len(Obs), "REJECTED", Cardinality(RejIdx)>>)
===============================================================================
