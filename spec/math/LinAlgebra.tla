------------------------------ MODULE LinAlgebra ------------------------------
(* Property C06: linear, affine and quaternion transforms obey their algebra   *)
(* and agree (rkcommon/math/LinearSpace.h, AffineSpace.h, Quaternion.h).       *)
(*                                                                             *)
(* Everything is exact integer arithmetic.  A vector is a tuple <<x, y[, z]>>, *)
(* a matrix a tuple of ROWS (M[i][j]: row i, column j; rkcommon stores the     *)
(* COLUMNS vx, vy, vz - the drivers convert), an affine map a record           *)
(* [l |-> matrix, p |-> vector] meaning x |-> l x + p.  The operators of the   *)
(* section "operations" are what the specification predicts for the library    *)
(* functions; they are written from the textbook definitions (Leibniz formula, *)
(* cofactors, composition of maps), not from the library's formulas, and the   *)
(* section "laws" ties them to each other.  LinAlgebraMC checks every law for  *)
(* every matrix with entries in -1..1 and for the whole rotation group of the  *)
(* cube before LinAlgebraGen hands any expected value to a driver.             *)
(*                                                                             *)
(* Rotations: the 24 proper rotations of the cube are computed as the closure  *)
(* of the three quarter turns.  rotate(axis, angle) for the 13 axes of the     *)
(* cube and angles that are multiples of the axis' own turn is DEFINED by the  *)
(* geometry (fixes the axis, turns every other vector counter-clockwise about  *)
(* it, has the order of the axis), not by Rodrigues' formula.  Quaternions     *)
(* never appear as irrational values: a unit quaternion is observed through    *)
(* the rotation matrix / rotated vectors it produces; only the 24 Hurwitz      *)
(* units (+-1, +-i, +-j, +-k, (+-1+-i+-j+-k)/2), whose components are exact    *)
(* in binary floating point, are also modelled as values (components doubled). *)
(*                                                                             *)
(* Results that are defined by laws rather than uniquely (frame, orthogonal,   *)
(* lookat, the slerp midpoint, rational inverses) are validated the other way  *)
(* round: the driver records them as integers scaled by SC = 2^14 and the      *)
(* predicates of the section "scaled records" decide (LinAlgebraValidate).     *)
EXTENDS Integers, Sequences, FiniteSets, TLC

\* ---------------------------------------------------------------------------
\* basics
\* ---------------------------------------------------------------------------
Abs(x)     == IF x < 0 THEN -x ELSE x
Sgn(x)     == IF x < 0 THEN -1 ELSE IF x > 0 THEN 1 ELSE 0
Max2(x, y) == IF x >= y THEN x ELSE y

RECURSIVE SumTo(_, _)
SumTo(t, n) == IF n = 0 THEN 0 ELSE t[n] + SumTo(t, n - 1)
Sum(t)      == CASE Len(t) = 1 -> t[1] [] Len(t) = 2 -> t[1] + t[2] [] Len(t) = 3 -> t[1] + t[2] + t[3] [] OTHER -> SumTo(t, Len(t))

\* Tuples are built explicitly (<<f(1), ..., f(n)>>): TLC evaluates a tuple eagerly, whereas a function constructor
\* [i \in 1..n |-> f(i)] is re-evaluated on every access - the same values, two orders of magnitude apart in cost.
MkV(n, f(_)) == CASE n = 1 -> <<f(1)>> [] n = 2 -> <<f(1), f(2)>> [] n = 3 -> <<f(1), f(2), f(3)>> [] n = 4 -> <<f(1), f(2), f(3), f(4)>>
MkM(n, f(_, _)) == MkV(n, LAMBDA i : MkV(n, LAMBDA j : f(i, j)))

Vecs(n, E)   == [1..n -> E]
ZeroV(n)     == MkV(n, LAMBDA i : 0)
UnitV(n, k)  == MkV(n, LAMBDA i : IF i = k THEN 1 ELSE 0)
Dot(u, v)    == Sum(MkV(Len(u), LAMBDA i : u[i] * v[i]))
VAdd(u, v)   == MkV(Len(u), LAMBDA i : u[i] + v[i])
VSub(u, v)   == MkV(Len(u), LAMBDA i : u[i] - v[i])
VNeg(u)      == MkV(Len(u), LAMBDA i : -u[i])
VScale(k, u) == MkV(Len(u), LAMBDA i : k * u[i])
Norm1(u)     == Sum(MkV(Len(u), LAMBDA i : Abs(u[i])))
Cross(u, v)  == << u[2] * v[3] - u[3] * v[2], u[3] * v[1] - u[1] * v[3], u[1] * v[2] - u[2] * v[1] >>
Parallel(u, v) == Cross(u, v) = <<0, 0, 0>>

\* ---------------------------------------------------------------------------
\* operations: matrices
\* ---------------------------------------------------------------------------
Mats(n, E)   == [1..n -> [1..n -> E]]
Dim(M)       == Len(M)
Ident(n)     == MkM(n, LAMBDA i, j : IF i = j THEN 1 ELSE 0)
Diag(s)      == MkM(Len(s), LAMBDA i, j : IF i = j THEN s[i] ELSE 0)                       \* L::scale(s)
Col(M, j)    == MkV(Len(M), LAMBDA i : M[i][j])                                            \* vx, vy, vz
Cols(M)      == MkV(Len(M), LAMBDA j : Col(M, j))
Transpose(M) == MkM(Len(M), LAMBDA i, j : M[j][i])                                         \* transposed()
Mul(A, B)    == MkM(Len(A), LAMBDA i, j : Dot(A[i], Col(B, j)))                            \* A * B
Apply(M, v)  == MkV(Len(M), LAMBDA i : Dot(M[i], v))                                       \* M * v, xfmPoint, xfmVector
SMul(k, M)   == MkM(Len(M), LAMBDA i, j : k * M[i][j])
MAdd(A, B)   == MkM(Len(A), LAMBDA i, j : A[i][j] + B[i][j])
MSub(A, B)   == MkM(Len(A), LAMBDA i, j : A[i][j] - B[i][j])
MNeg(A)      == SMul(-1, A)
Trace(M)     == Sum(MkV(Len(M), LAMBDA i : M[i][i]))

\* determinant: Leibniz formula (sum over permutations)
Det2(M) == M[1][1] * M[2][2] - M[1][2] * M[2][1]
Det3(M) ==   M[1][1] * M[2][2] * M[3][3] + M[1][2] * M[2][3] * M[3][1] + M[1][3] * M[2][1] * M[3][2]
           - M[1][3] * M[2][2] * M[3][1] - M[1][2] * M[2][1] * M[3][3] - M[1][1] * M[2][3] * M[3][2]
Det(M)  == IF Len(M) = 1 THEN M[1][1] ELSE IF Len(M) = 2 THEN Det2(M) ELSE Det3(M)             \* det()

\* adjoint (adjugate): transposed matrix of cofactors
SkipIdx(k, i)     == IF k < i THEN k ELSE k + 1
Minor(M, i, j)    == MkM(Len(M) - 1, LAMBDA r, c : M[SkipIdx(r, i)][SkipIdx(c, j)])
Cofactor(M, i, j) == (IF (i + j) % 2 = 0 THEN 1 ELSE -1) * Det(Minor(M, i, j))
Adj(M)            == MkM(Len(M), LAMBDA i, j : Cofactor(M, j, i))                              \* adjoint()

\* inverse() = adjoint() / det(): a matrix of rationals Adj(M)[i][j] / Det(M); an integer matrix when |det| = 1
Unimodular(M) == Abs(Det(M)) = 1
InvU(M)       == SMul(Det(M), Adj(M))                                                       \* only for unimodular M
\* xfmNormal: the inverse transpose; numerator over the denominator Det(M)
NormalNum(M, n) == Apply(Transpose(Adj(M)), n)

RECURSIVE Pow(_, _)
Pow(M, k) == IF k = 0 THEN Ident(Len(M)) ELSE IF k > 0 THEN Mul(M, Pow(M, k - 1)) ELSE Pow(InvU(M), -k)

\* ---------------------------------------------------------------------------
\* operations: affine maps
\* ---------------------------------------------------------------------------
Aff(l, p)       == [l |-> l, p |-> p]
AffId(n)        == Aff(Ident(n), ZeroV(n))
AffMul(a, b)    == Aff(Mul(a.l, b.l), VAdd(Apply(a.l, b.p), a.p))          \* a * b: first b, then a
AffApply(a, v)  == VAdd(Apply(a.l, v), a.p)                                \* xfmPoint(a, v)
AffInvU(a)      == LET il == InvU(a.l) IN Aff(il, VNeg(Apply(il, a.p)))    \* rcp(a), unimodular linear part
AffTranslate(t) == Aff(Ident(Len(t)), t)                                   \* translate(t)
AffScale(s)     == Aff(Diag(s), ZeroV(Len(s)))                             \* scale(s)
\* rotation R about the point c: the map with linear part R that fixes c
AffRotateAbout(c, R) == Aff(R, VSub(c, Apply(R, c)))

\* ---------------------------------------------------------------------------
\* the rotation group of the cube
\* ---------------------------------------------------------------------------
QX == << <<1, 0, 0>>, <<0, 0, -1>>, <<0, 1, 0>> >>       \* quarter turn about +x: y -> z
QY == << <<0, 0, 1>>, <<0, 1, 0>>, <<-1, 0, 0>> >>       \* quarter turn about +y: z -> x
QZ == << <<0, -1, 0>>, <<1, 0, 0>>, <<0, 0, 1>> >>       \* quarter turn about +z: x -> y
Q2 == << <<0, -1>>, <<1, 0>> >>                          \* the quarter turn of the plane: x -> y

RECURSIVE Closure(_)
Closure(S) == LET T == S \cup {Mul(a, b) : a \in S, b \in S} IN IF T = S THEN S ELSE Closure(T)
Rot  == Closure({QX, QY, QZ})
Rot2 == Closure({Q2})

Lattice3 == Vecs(3, -1..1)
Dirs3    == Lattice3 \ {ZeroV(3)}                         \* the 26 directions: 6 coordinate, 12 face-diagonal, 8 body-diagonal
AxisKind(a) == CASE Norm1(a) = 1 -> "coordinate" [] Norm1(a) = 2 -> "face-diagonal" [] Norm1(a) = 3 -> "body-diagonal"
AxisOrder(a) == CASE Norm1(a) = 1 -> 4 [] Norm1(a) = 2 -> 2 [] Norm1(a) = 3 -> 3      \* a turn about a is 2 pi / AxisOrder(a)
OrderOf(R)  == CHOOSE k \in 1..4 : Pow(R, k) = Ident(3) /\ \A m \in 1..(k - 1) : Pow(R, m) # Ident(3)

\* R fixes a and turns every other vector counter-clockwise about a (right-hand rule) by an angle in (0, pi)
TurnsPositively(R, a) ==
  /\ Apply(R, a) = a
  /\ R # Ident(3)
  /\ \A v \in Lattice3 : ~Parallel(v, a) => Dot(a, Cross(v, Apply(R, v))) > 0
\* the half turn about a: fixes a, reverses every vector orthogonal to a
IsHalfTurn(R, a) ==
  /\ Apply(R, a) = a
  /\ \A v \in Lattice3 : Dot(v, a) = 0 => Apply(R, v) = VNeg(v)
\* the rotation about the direction a by one turn of that axis (2 pi / AxisOrder(a))
IsAxisTurn(R, a) == IF AxisOrder(a) = 2 THEN IsHalfTurn(R, a) ELSE TurnsPositively(R, a) /\ OrderOf(R) = AxisOrder(a)
\* (tabulated once: TLC caches a constant set, but re-evaluates an operator with arguments on every use)
AxisTurnTable    == {<<a, CHOOSE R \in Rot : IsAxisTurn(R, a)>> : a \in Dirs3}
AxisTurn(a)      == (CHOOSE p \in AxisTurnTable : p[1] = a)[2]
\* rotate(a / |a|, k * 2 pi / AxisOrder(a))
RotateAA(a, k)   == Pow(AxisTurn(a), k)
\* rotate(k * pi / 2) in the plane
Rotate2(k)       == Pow(Q2, k)

\* Rodrigues' formula where it stays in the integers: unit coordinate axis u, c = cos, s = sin of a multiple of pi/2
Cos4(k) == CASE k % 4 = 0 -> 1 [] k % 4 = 1 -> 0 [] k % 4 = 2 -> -1 [] k % 4 = 3 -> 0
Sin4(k) == CASE k % 4 = 0 -> 0 [] k % 4 = 1 -> 1 [] k % 4 = 2 -> 0 [] k % 4 = 3 -> -1
Rodrigues(u, c, s) ==
  << << u[1] * u[1] + (1 - u[1] * u[1]) * c, u[1] * u[2] * (1 - c) - u[3] * s, u[1] * u[3] * (1 - c) + u[2] * s >>,
     << u[1] * u[2] * (1 - c) + u[3] * s, u[2] * u[2] + (1 - u[2] * u[2]) * c, u[2] * u[3] * (1 - c) - u[1] * s >>,
     << u[1] * u[3] * (1 - c) - u[2] * s, u[2] * u[3] * (1 - c) + u[1] * s, u[3] * u[3] + (1 - u[3] * u[3]) * c >> >>

\* yaw / pitch / roll in quarter turns.  Convention RECOVERED from Quaternion.h (the constructor's formula is the
\* Hamilton product q_y(yaw) q_x(pitch) q_z(roll)) and FROZEN here: yaw turns about +y, pitch about +x, roll about +z,
\* roll is applied first, then pitch, then yaw.
YPR(y, p, r) == Mul(Pow(QY, y), Mul(Pow(QX, p), Pow(QZ, r)))

\* which branch of QuaternionT(vx, vy, vz) a rotation matrix takes (classification only; every branch must give the same rotation)
QuatBranch(R) == IF Trace(R) >= 0 THEN "trace"
                 ELSE IF R[1][1] >= Max2(R[2][2], R[3][3]) THEN "x-largest"
                 ELSE IF R[2][2] >= R[3][3] THEN "y-largest" ELSE "z-largest"

\* second operands of the pair laws and pair cases: the whole group, and matrices of every determinant -4..4
\* (singular, reflections, shears, ...)
Partner3 == Rot \cup {Diag(<<1, 1, -1>>), Diag(<<-1, -1, -1>>), Diag(<<0, 1, 1>>), Diag(<<0, 0, 0>>),
                      << <<1, 1, 0>>, <<0, 1, 1>>, <<0, 0, 1>> >>, << <<1, 0, 0>>, <<-1, 1, 0>>, <<1, -1, 1>> >>,
                      << <<1, 1, 1>>, <<1, 1, 1>>, <<1, 1, 1>> >>, << <<1, -1, 0>>, <<1, 1, 0>>, <<0, 0, 1>> >>,
                      << <<1, 1, 0>>, <<-1, 1, 1>>, <<0, -1, 1>> >>, << <<1, 1, 0>>, <<1, -1, 1>>, <<0, 1, 1>> >>,
                      << <<1, 1, -1>>, <<-1, 1, 1>>, <<1, -1, 1>> >>, << <<-1, 1, 1>>, <<1, -1, 1>>, <<1, 1, -1>> >>,
                      << <<0, 1, 1>>, <<1, 0, 1>>, <<1, 1, 0>> >>, << <<1, -1, 1>>, <<0, 0, 1>>, <<-1, -1, 0>> >>,
                      << <<-1, -1, 1>>, <<1, -1, -1>>, <<-1, 1, -1>> >>, << <<-1, 1, 0>>, <<-1, -1, 0>>, <<0, 0, -1>> >>}

\* ---------------------------------------------------------------------------
\* Hurwitz unit quaternions, components doubled: h = <<2r, 2i, 2j, 2k>>
\* ---------------------------------------------------------------------------
HSq(h)  == h[1] * h[1] + h[2] * h[2] + h[3] * h[3] + h[4] * h[4]
HUnits  == {h \in [1..4 -> -2..2] : HSq(h) = 4 /\ ((\A i \in 1..4 : h[i] % 2 = 0) \/ (\A i \in 1..4 : h[i] % 2 = 1))}
\* Hamilton product of integer quaternions <<r, i, j, k>>
HP(a, b) == << a[1] * b[1] - a[2] * b[2] - a[3] * b[3] - a[4] * b[4],
               a[1] * b[2] + a[2] * b[1] + a[3] * b[4] - a[4] * b[3],
               a[1] * b[3] - a[2] * b[4] + a[3] * b[1] + a[4] * b[2],
               a[1] * b[4] + a[2] * b[3] - a[3] * b[2] + a[4] * b[1] >>
HHalf(q)   == MkV(4, LAMBDA i : q[i] \div 2)
HMul(a, b) == HHalf(HP(a, b))                        \* doubled components of (a/2)(b/2); exact for Hurwitz units (law)
HConj(a)   == << a[1], -a[2], -a[3], -a[4] >>
\* 4 x the rotation matrix of the unit quaternion h / 2 (rotation x |-> q x conj(q))
QMat4(h) == LET r == h[1] i == h[2] j == h[3] k == h[4] IN
  << << r * r + i * i - j * j - k * k, 2 * (i * j - r * k), 2 * (i * k + r * j) >>,
     << 2 * (i * j + r * k), r * r - i * i + j * j - k * k, 2 * (j * k - r * i) >>,
     << 2 * (i * k - r * j), 2 * (j * k + r * i), r * r - i * i - j * j + k * k >> >>
QMat(h)  == LET m == QMat4(h) IN MkM(3, LAMBDA i, j : m[i][j] \div 4)

\* Integer quaternions in general: h = <<r, i, j, k>> # 0 stands for the unit quaternion h / |h|; its rotation matrix is the
\* matrix of rationals QMat4(h) / HSq(h) (the same formula: QMat4 is homogeneous of degree two).  These rotations have
\* every angle class: they reach every term of every branch of the matrix-to-quaternion constructor, which the 24 group
\* elements do not (their half turns are symmetric matrices with at most one non-zero off-diagonal sum).
IntQuats(E) == [1..4 -> E] \ {<<0, 0, 0, 0>>}

\* ---------------------------------------------------------------------------
\* laws
\* ---------------------------------------------------------------------------
\* one matrix
LawAdjoint(M)    == Mul(M, Adj(M)) = SMul(Det(M), Ident(Len(M))) /\ Mul(Adj(M), M) = SMul(Det(M), Ident(Len(M)))
LawLaplace(M)    == Det(M) = Sum(MkV(Len(M), LAMBDA j : M[1][j] * Cofactor(M, 1, j)))
LawTranspose(M)  == Transpose(Transpose(M)) = M /\ Det(Transpose(M)) = Det(M) /\ Adj(Transpose(M)) = Transpose(Adj(M))
LawInverse(M)    == Unimodular(M) => Mul(M, InvU(M)) = Ident(Len(M)) /\ Mul(InvU(M), M) = Ident(Len(M))
\* the determinant is the signed volume of the images of the unit vectors (3D) / signed area (2D)
LawVolume(M)     == IF Len(M) = 3 THEN Det(M) = Dot(Col(M, 1), Cross(Col(M, 2), Col(M, 3)))
                    ELSE Det(M) = Col(M, 1)[1] * Col(M, 2)[2] - Col(M, 1)[2] * Col(M, 2)[1]
\* columns are the images of the unit vectors, rows are the columns of the transposed matrix
LawColumns(M)    == \A k \in 1..Len(M) : Apply(M, UnitV(Len(M), k)) = Col(M, k) /\ Transpose(M)[k] = Col(M, k)
\* one matrix, one or two vectors
LawLinear(M, u, v) == Apply(M, VAdd(u, v)) = VAdd(Apply(M, u), Apply(M, v))
\* the inverse transpose maps normals: orthogonality to a transformed vector is preserved (up to the factor det)
LawNormal(M, n, u) == Dot(NormalNum(M, n), Apply(M, u)) = Det(M) * Dot(n, u)
\* two matrices
LawDetMul(A, B)  == Det(Mul(A, B)) = Det(A) * Det(B)
LawMulApply(A, B, v) == Apply(Mul(A, B), v) = Apply(A, Apply(B, v))
LawMulTranspose(A, B) == Transpose(Mul(A, B)) = Mul(Transpose(B), Transpose(A))
LawAdjMul(A, B)  == Adj(Mul(A, B)) = Mul(Adj(B), Adj(A))
\* affine maps
LawAffCompose(a, b, v) == AffApply(AffMul(a, b), v) = AffApply(a, AffApply(b, v))
LawAffInverse(a) == Unimodular(a.l) => AffMul(AffInvU(a), a) = AffId(Len(a.p)) /\ AffMul(a, AffInvU(a)) = AffId(Len(a.p))
LawAffAbout(c, R) == /\ AffApply(AffRotateAbout(c, R), c) = c
                     /\ AffRotateAbout(c, R) = AffMul(AffTranslate(c), AffMul(Aff(R, ZeroV(Len(c))), AffTranslate(VNeg(c))))
LawAffParts(a, v) == /\ AffApply(a, ZeroV(Len(v))) = a.p
                     /\ VSub(AffApply(a, v), AffApply(a, ZeroV(Len(v)))) = Apply(a.l, v)

\* the group (constant level, checked once)
SignedPerms == {M \in Mats(3, -1..1) : Mul(M, Transpose(M)) = Ident(3) /\ Det(M) = 1}
LawGroup ==
  /\ Cardinality(Rot) = 24
  /\ Rot = SignedPerms                                         \* exactly the proper orthogonal matrices of the lattice
  /\ Ident(3) \in Rot
  /\ \A A \in Rot, B \in Rot : Mul(A, B) \in Rot               \* closure
  /\ \A A \in Rot : Transpose(A) \in Rot /\ Mul(A, Transpose(A)) = Ident(3) /\ Det(A) = 1 /\ InvU(A) = Transpose(A)
  /\ Cardinality(Rot2) = 4 /\ \A A \in Rot2 : Det(A) = 1 /\ Mul(A, Transpose(A)) = Ident(2)
LawAxisTurns ==
  /\ \A a \in Dirs3 : Cardinality({R \in Rot : IsAxisTurn(R, a)}) = 1           \* the geometric definition is unambiguous
  /\ AxisTurn(<<1, 0, 0>>) = QX /\ AxisTurn(<<0, 1, 0>>) = QY /\ AxisTurn(<<0, 0, 1>>) = QZ
  /\ \A a \in Dirs3 : AxisTurn(VNeg(a)) = Transpose(AxisTurn(a))                \* opposite axis = opposite sense
  /\ \A a \in Dirs3 : Pow(AxisTurn(a), AxisOrder(a)) = Ident(3)
  /\ \A R \in Rot : R = Ident(3) \/ \E a \in Dirs3, k \in 1..3 : R = RotateAA(a, k)    \* every element is a turn about a cube axis
  /\ \A a \in {x \in Dirs3 : Norm1(x) = 1}, k \in -4..4 : RotateAA(a, k) = Rodrigues(a, Cos4(k), Sin4(k))
  /\ \A k \in -4..4 : Rotate2(k) = << <<Cos4(k), -Sin4(k)>>, <<Sin4(k), Cos4(k)>> >>
  /\ \A a \in Dirs3, k \in -4..4, m \in -4..4 : RotateAA(a, k + m) = Mul(RotateAA(a, k), RotateAA(a, m))
LawYPR ==
  /\ \A y \in 0..3, p \in 0..3, r \in 0..3 : YPR(y, p, r) \in Rot
  /\ {YPR(y, p, r) : y \in 0..3, p \in 0..3, r \in 0..3} = Rot
  /\ \A y \in -4..4 : YPR(y, 0, 0) = RotateAA(<<0, 1, 0>>, y) /\ YPR(0, y, 0) = RotateAA(<<1, 0, 0>>, y) /\ YPR(0, 0, y) = RotateAA(<<0, 0, 1>>, y)
LawBranches == \A b \in {"trace", "x-largest", "y-largest", "z-largest"} : \E R \in Rot : QuatBranch(R) = b
LawHurwitz ==
  /\ Cardinality(HUnits) = 24
  /\ \A a \in HUnits, b \in HUnits : (\A i \in 1..4 : HP(a, b)[i] % 2 = 0) /\ HMul(a, b) \in HUnits
  /\ \A a \in HUnits : (\A i \in 1..3, j \in 1..3 : QMat4(a)[i][j] % 4 = 0) /\ QMat(a) \in Rot
  /\ \A a \in HUnits, b \in HUnits : QMat(HMul(a, b)) = Mul(QMat(a), QMat(b))        \* quaternion product = composition
  /\ \A a \in HUnits : QMat(HConj(a)) = Transpose(QMat(a)) /\ HMul(a, HConj(a)) = <<2, 0, 0, 0>>
  /\ \A a \in HUnits : QMat(VNeg(a)) = QMat(a)                                      \* q and -q: the same rotation
  /\ \A a \in HUnits, v \in Lattice3 :                                              \* q v conj(q) = R v
        HP(HP(a, <<0, v[1], v[2], v[3]>>), HConj(a)) = <<0, 4 * Apply(QMat(a), v)[1], 4 * Apply(QMat(a), v)[2], 4 * Apply(QMat(a), v)[3]>>
  /\ Cardinality({QMat(a) : a \in HUnits}) = 12

\* QMat4(h) / |h|^2 is a proper rotation, the product of quaternions is the composition, conjugation the transposition
LawIntQuat(a, b) ==
  /\ Mul(QMat4(a), Transpose(QMat4(a))) = SMul(HSq(a) * HSq(a), Ident(3))
  /\ Det(QMat4(a)) = HSq(a) * HSq(a) * HSq(a)
  /\ QMat4(HP(a, b)) = Mul(QMat4(a), QMat4(b)) /\ HSq(HP(a, b)) = HSq(a) * HSq(b)
  /\ QMat4(HConj(a)) = Transpose(QMat4(a))
  /\ Trace(QMat4(a)) = 4 * a[1] * a[1] - HSq(a)                         \* trace = 4 r^2 - 1: the branch condition is |r| < 1/2

\* ---------------------------------------------------------------------------
\* scaled records: a real number x is recorded as the integer round(x * SC)
\* ---------------------------------------------------------------------------
\* SC = 2^14 keeps every polynomial of degree two in recorded entries below 2^31 (TLC's integers are 32-bit).
\* EPS: a recorded entry may differ from the exact value by 3 units = 1.8 * 10^-4 (10^-4 = 1.64 units, plus rounding).
\* TOL2: bound for a sum of three products of two recorded entries (2 sqrt 3 EPS SC + 3 EPS^2 < 12 SC).
SC   == 16384
EPS  == 3
TOL2 == 12 * SC

\* x = n / d within EPS (d # 0): |x d - n| <= EPS |d|
NearRat(xs, n, d) == Abs(xs * d - n * SC) <= EPS * Abs(d)
NearRatV(vs, nv, d) == \A i \in 1..Len(nv) : NearRat(vs[i], nv[i], d)
NearRatM(Ms, N, d)  == \A i \in 1..Len(N) : NearRatV(Ms[i], N[i], d)

\* the columns of the recorded matrix are orthonormal
OrthoS(Ms) == \A i \in 1..Len(Ms), j \in 1..Len(Ms) :
                 Abs(Dot(Col(Ms, i), Col(Ms, j)) - (IF i = j THEN SC * SC ELSE 0)) <= TOL2
\* third column = first x second (right-handed) / = second x first (left-handed)
RightHandedS(Ms) == \A i \in 1..3 : Abs(Cross(Col(Ms, 1), Col(Ms, 2))[i] - SC * Col(Ms, 3)[i]) <= TOL2
LeftHandedS(Ms)  == \A i \in 1..3 : Abs(Cross(Col(Ms, 2), Col(Ms, 1))[i] - SC * Col(Ms, 3)[i]) <= TOL2
\* the recorded vector us points in the direction of the integer vector n
AlongS(us, n) == (\A i \in 1..3 : Abs(Cross(us, n)[i]) <= EPS * Norm1(n)) /\ Dot(us, n) > 0

\* frame(N): orthonormal, right-handed, third axis N
IsFrameS(Ms, n) == OrthoS(Ms) /\ RightHandedS(Ms) /\ AlongS(Col(Ms, 3), n)
\* frame(N, up), up not parallel to N: additionally the first axis is the direction of up x N
IsFrameUpS(Ms, n, up) == IsFrameS(Ms, n) /\ (~Parallel(up, n) => AlongS(Col(Ms, 1), Cross(up, n)))
\* lookat(eye, point, up) = [l = (U, V, Z), p = eye]: Z the direction to the point, U the direction of Z x up,
\* V = U x Z (so V lies on the side of up and (U, V, Z) is a left-handed orthonormal triple)
IsLookatS(ls, ps, eye, point, up) ==
  LET d == VSub(point, eye) IN
    /\ OrthoS(ls) /\ LeftHandedS(ls)
    /\ AlongS(Col(ls, 3), d)
    /\ AlongS(Col(ls, 1), Cross(d, up))
    /\ Dot(Col(ls, 2), up) > 0
    /\ \A i \in 1..3 : Abs(ps[i] - SC * eye[i]) <= EPS
\* orthogonal(): the closest orthogonal matrix Q of M (det M # 0) - the orthogonal factor of the polar decomposition:
\* Q orthonormal, same orientation as M, and Q^T M symmetric positive definite
IsOrthogonalOfS(Qs, M) ==
  LET P == Mul(Transpose(Qs), M) IN
    /\ OrthoS(Qs)
    /\ Det2(Qs) * Sgn(Det2(M)) > (SC \div 2) * SC
    /\ Abs(P[1][2] - P[2][1]) <= EPS * (Norm1(M[1]) + Norm1(M[2]))
    /\ P[1][1] + P[2][2] > 0
\* slerp(1/2, a, b) for rotations A, B: a rotation C whose step D = A^T C from A satisfies D D = A^T B (half way)
\* and turns by at most a quarter turn (the short way: trace D >= 1); for B = A this is C = A
IsSlerpMidS(Cs, A, B) ==
  LET D == Mul(Transpose(A), Cs)
      T == Mul(Transpose(A), B)
      DD == Mul(D, D)
  IN /\ OrthoS(D)
     /\ \A i \in 1..3, j \in 1..3 : Abs(DD[i][j] - SC * SC * T[i][j]) <= TOL2
     /\ Trace(D) >= SC - 3 * EPS

\* the predicates accept what the definitions give and reject the neighbouring wrong answers (checked by LinAlgebraMC)
FlipCol(M, k) == MkM(Len(M), LAMBDA i, j : IF j = k THEN -M[i][j] ELSE M[i][j])
LawPredicates ==
  /\ \A R \in Rot : IsFrameS(SMul(SC, R), Col(R, 3)) /\ IsFrameS(SMul(SC, R), VScale(2, Col(R, 3)))
  /\ \A R \in Rot : ~IsFrameS(SMul(SC, FlipCol(R, 1)), Col(R, 3)) /\ ~IsFrameS(SMul(SC, R), Col(R, 1))
                    /\ ~IsFrameS(SMul(SC, R), VNeg(Col(R, 3))) /\ ~IsFrameS(SMul(SC + 40, R), Col(R, 3))
  /\ \A R \in Rot : IsFrameUpS(SMul(SC, R), Col(R, 3), Col(R, 2)) /\ ~IsFrameUpS(SMul(SC, R), Col(R, 3), VNeg(Col(R, 2)))
                    /\ IsFrameUpS(SMul(SC, R), Col(R, 3), Col(R, 3))
  \* lookat from the origin along R e_z with up = R e_y: U = Z x up = R (e_z x e_y) = -R e_x
  /\ \A R \in Rot : LET L == FlipCol(R, 1) IN
        /\ IsLookatS(SMul(SC, L), <<SC, -SC, 0>>, <<1, -1, 0>>, VAdd(<<1, -1, 0>>, Col(R, 3)), Col(R, 2))
        /\ ~IsLookatS(SMul(SC, R), <<SC, -SC, 0>>, <<1, -1, 0>>, VAdd(<<1, -1, 0>>, Col(R, 3)), Col(R, 2))
        /\ ~IsLookatS(SMul(SC, L), <<SC, -SC, 0>>, <<1, -1, 0>>, VAdd(<<1, -1, 0>>, Col(R, 3)), VNeg(Col(R, 2)))
        /\ ~IsLookatS(SMul(SC, L), <<SC, SC, 0>>, <<1, -1, 0>>, VAdd(<<1, -1, 0>>, Col(R, 3)), Col(R, 2))
  /\ \A R \in Rot2 : IsOrthogonalOfS(SMul(SC, R), SMul(2, R)) /\ IsOrthogonalOfS(SMul(SC, R), R)
                     /\ ~IsOrthogonalOfS(SMul(SC, Mul(R, Q2)), R) /\ ~IsOrthogonalOfS(SMul(SC, FlipCol(R, 1)), R)
                     /\ IsOrthogonalOfS(SMul(SC, FlipCol(R, 1)), FlipCol(SMul(2, R), 1))
  \* the midpoint between A and A R^2 is A R (and A R^-1 when R^2 is a half turn), never A, B or the long way round
  /\ \A A \in Rot, a \in {x \in Dirs3 : Norm1(x) = 1} :
        LET R == AxisTurn(a) IN
          /\ IsSlerpMidS(SMul(SC, Mul(A, R)), A, Mul(A, Pow(R, 2)))
          /\ IsSlerpMidS(SMul(SC, Mul(A, Transpose(R))), A, Mul(A, Pow(R, 2)))
          /\ ~IsSlerpMidS(SMul(SC, A), A, Mul(A, Pow(R, 2)))
          /\ ~IsSlerpMidS(SMul(SC, Mul(A, Pow(R, 2))), A, Mul(A, Pow(R, 2)))
          /\ IsSlerpMidS(SMul(SC, A), A, A)
          /\ ~IsSlerpMidS(SMul(SC, Mul(A, Pow(R, 2))), A, A)                  \* the long way: a half turn whose square is the identity
  /\ NearRat(5461, 1, 3) /\ NearRat(-5461, -1, 3) /\ ~NearRat(5461, -1, 3) /\ ~NearRat(5470, 1, 3) /\ NearRat(-8192, 2, -4)
===============================================================================
