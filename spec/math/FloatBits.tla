------------------------------- MODULE FloatBits -------------------------------
(* IEEE-754 binary floating-point numbers as bit patterns, in exact integer    *)
(* arithmetic (TLC has no floating point and 32-bit integers only).            *)
(*                                                                             *)
(* A float of the format (EB exponent bits, MB fraction bits) is the record    *)
(*   [s |-> sign bit, e |-> biased exponent field, f |-> fraction field].      *)
(* MB = 23, EB = 8 is binary32; ScalarKernelsMC also instantiates the toy      *)
(* format MB = 4, EB = 4, small enough to check every operator below against   *)
(* plain integer arithmetic for EVERY pair of floats.                          *)
(* A binary32 pattern travels as two 16-bit halves <<hi, lo>> (a 32-bit        *)
(* pattern does not fit a TLC integer); the magnitude (31 bits) does.          *)
(*                                                                             *)
(* The value of a finite float is the signed dyadic number                     *)
(*   (-1)^s * Mant * 2^Exp2,  Mant < 2^(MB+1),                                 *)
(* represented exactly as SD = [neg, m (limbs), k]: arithmetic on SD (add,     *)
(* subtract, multiply, compare) is exact for any width.                        *)
EXTENDS FloatBitsLimbs

CONSTANTS MB, EB

P2(n)  == Pow2Int(n)
FRAC   == P2(MB)                      \* 2^MB
EALL   == P2(EB) - 1                  \* exponent field of infinities / NaN
BIAS   == P2(EB - 1) - 1

IsFloat(x) == x.s \in {0, 1} /\ x.e \in 0..EALL /\ x.f \in 0..(FRAC - 1)

\* ---- bit patterns --------------------------------------------------------------
\* binary32 only (MB = 23, EB = 8): halves <<bits 31..16, bits 15..0>>
IsHalves(h)   == Len(h) = 2 /\ h[1] \in 0..65535 /\ h[2] \in 0..65535
FromHalves(h) == [s |-> h[1] \div 32768, e |-> (h[1] % 32768) \div 128, f |-> (h[1] % 128) * 65536 + h[2]]
ToHalves(x)   == <<x.s * 32768 + x.e * 128 + x.f \div 65536, x.f % 65536>>
\* small formats: the whole pattern is one integer
FromBits(b) == [s |-> b \div P2(EB + MB), e |-> (b % P2(EB + MB)) \div FRAC, f |-> b % FRAC]
ToBits(x)   == x.s * P2(EB + MB) + x.e * FRAC + x.f

\* ---- classes ---------------------------------------------------------------------
IsZero(x)     == x.e = 0 /\ x.f = 0
IsDenormal(x) == x.e = 0 /\ x.f # 0
IsNormal(x)   == x.e \in 1..(EALL - 1)
IsInf(x)      == x.e = EALL /\ x.f = 0
IsNaN(x)      == x.e = EALL /\ x.f # 0
IsFinite(x)   == x.e # EALL
ClassOf(x)    == IF IsZero(x) THEN "zero" ELSE IF IsDenormal(x) THEN "denormal" ELSE IF IsNormal(x) THEN "normal"
                 ELSE IF IsInf(x) THEN "inf" ELSE "nan"

\* ---- value ------------------------------------------------------------------------
Mant(x) == IF x.e = 0 THEN x.f ELSE FRAC + x.f                  \* < 2^(MB+1)
Exp2(x) == (IF x.e = 0 THEN 1 ELSE x.e) - BIAS - MB             \* weight of the last fraction bit = one rounding step at x

\* ---- order by bit pattern -----------------------------------------------------
\* magnitude pattern (without the sign bit) and signed key; -0 and +0 share key 0; not for NaN
Mag(x) == x.e * FRAC + x.f                                      \* < 2^31 for binary32
Key(x) == IF x.s = 1 THEN 0 - Mag(x) ELSE Mag(x)
KeyLess(a, b)   == Key(a) < Key(b)
KeyLessEq(a, b) == Key(a) <= Key(b)
\* b is a or a neighbour of a in the order of values (the difference of two keys may overflow: split by sign)
WithinOneStep(a, b) ==
  IF a.s = b.s THEN (Mag(a) - Mag(b)) \in {-1, 0, 1}
  ELSE Mag(a) <= 1 /\ Mag(b) <= 1 /\ Mag(a) + Mag(b) <= 1
\* b follows a in the enumeration -inf, ..., -min, -0, +0, +min, ..., +inf of all non-NaN patterns
IsNextPattern(a, b) ==
  \/ a.s = 1 /\ b.s = 1 /\ Mag(a) >= 1 /\ Mag(b) = Mag(a) - 1
  \/ a.s = 1 /\ Mag(a) = 0 /\ b.s = 0 /\ Mag(b) = 0
  \/ a.s = 0 /\ b.s = 0 /\ Mag(b) = Mag(a) + 1
\* position in that enumeration compared (total order on patterns: -0 before +0)
PatLessEq(a, b) == IF a.s # b.s THEN a.s = 1 ELSE IF a.s = 1 THEN Mag(a) >= Mag(b) ELSE Mag(a) <= Mag(b)

\* ---- signed dyadic numbers -----------------------------------------------------
SD(neg, m, k) == [neg |-> neg, m |-> m, k |-> k]
SDInt(n)   == IF n < 0 THEN SD(TRUE, FromInt(0 - n), 0) ELSE SD(FALSE, FromInt(n), 0)
SDPow2(k)  == SD(FALSE, One, k)
SDZero     == SD(FALSE, Zero, 0)
SDOne      == SD(FALSE, One, 0)
Val(x)     == SD(x.s = 1, FromInt(Mant(x)), Exp2(x))             \* finite x only

SDIsZero(a) == a.m = Zero
SDSign(a)   == IF a.m = Zero THEN 0 ELSE IF a.neg THEN -1 ELSE 1
SDNeg(a)    == SD(~a.neg, a.m, a.k)
SDAbs(a)    == SD(FALSE, a.m, a.k)
SDMul(a, b) == SD(a.neg # b.neg, Mul(a.m, b.m), a.k + b.k)
SDScale(a, n) == SD(a.neg, a.m, a.k + n)                        \* a * 2^n
MinK(a, b)  == IF a.k < b.k THEN a.k ELSE b.k
AlignTo(a, k) == ShiftLeft(a.m, a.k - k)                        \* k <= a.k
SDAdd(a, b) ==
  IF a.m = Zero THEN b ELSE IF b.m = Zero THEN a ELSE
  LET k == MinK(a, b)
      x == AlignTo(a, k)
      y == AlignTo(b, k)
  IN IF a.neg = b.neg THEN SD(a.neg, Add(x, y), k)
     ELSE IF Less(x, y) THEN SD(b.neg, Sub(y, x), k)
     ELSE SD(a.neg, Sub(x, y), k)
SDSub(a, b)    == SDAdd(a, SDNeg(b))
\* comparison without forming the difference: numbers of different binary magnitude are ordered by it (2^(TopBit-1) <= |a| < 2^TopBit);
\* only numbers of the same magnitude are aligned (by at most the length of a mantissa), so that comparing the largest double with
\* the smallest denormal does not shift by 2000 bits
RECURSIVE BitLen(_)
BitLen(d) == IF d = 0 THEN 0 ELSE 1 + BitLen(d \div 2)
TopBit(a) == 15 * (Len(a.m) - 1) + BitLen(a.m[Len(a.m)]) + a.k                    \* a # 0
AbsLess(a, b) == IF b.m = Zero THEN FALSE ELSE IF a.m = Zero THEN TRUE
                 ELSE IF TopBit(a) # TopBit(b) THEN TopBit(a) < TopBit(b)
                 ELSE LET k == MinK(a, b) IN Less(AlignTo(a, k), AlignTo(b, k))
SDLess(a, b)   == LET sa == SDSign(a)
                      sb == SDSign(b)
                  IN IF sa # sb THEN sa < sb ELSE IF sa = 0 THEN FALSE ELSE IF sa = 1 THEN AbsLess(a, b) ELSE AbsLess(b, a)
SDLessEq(a, b) == ~SDLess(b, a)
SDEq(a, b)     == ~SDLess(a, b) /\ ~SDLess(b, a)

\* same real value (identical finite values; -0 = +0); never true for NaN; infinities equal when the patterns are
SameValue(a, b) == /\ ~IsNaN(a) /\ ~IsNaN(b)
                   /\ \/ a = b
                      \/ IsZero(a) /\ IsZero(b)
\* order of values on non-NaN floats = order of keys (checked against SD arithmetic in ScalarKernelsMC)
ValLessEq(a, b) == KeyLessEq(a, b)

\* ---- binary64 patterns -------------------------------------------------------------
\* four 16-bit quarters <<q3, q2, q1, q0>> (q3 most significant): sign 1, exponent 11, fraction 52 bits.  The 53-bit
\* mantissa does not fit a TLC integer: it is assembled on limbs.  Independent of the constants MB, EB.
IsQuarters(q)  == Len(q) = 4 /\ \A i \in 1..4 : q[i] \in 0..65535
D64Sign(q)     == q[1] \div 32768
D64Exp(q)      == (q[1] % 32768) \div 16
D64Frac(q)     == Add(Add(ShiftLeft(FromInt(q[1] % 16), 48), ShiftLeft(FromInt(q[2]), 32)), Add(ShiftLeft(FromInt(q[3]), 16), FromInt(q[4])))
D64IsFinite(q) == D64Exp(q) # 2047
D64IsNaN(q)    == D64Exp(q) = 2047 /\ D64Frac(q) # Zero
D64IsZero(q)   == D64Exp(q) = 0 /\ D64Frac(q) = Zero
D64Class(q)    == IF D64IsZero(q) THEN "zero" ELSE IF D64Exp(q) = 0 THEN "denormal" ELSE IF D64Exp(q) # 2047 THEN "normal"
                  ELSE IF D64IsNaN(q) THEN "nan" ELSE "inf"
D64Val(q)      == SD(D64Sign(q) = 1, IF D64Exp(q) = 0 THEN D64Frac(q) ELSE Add(Pow2L(52), D64Frac(q)),
                     (IF D64Exp(q) = 0 THEN 1 ELSE D64Exp(q)) - 1075)                    \* finite q only
D64Tiny        == SDPow2(0 - 1074)

\* ---- encoding an exactly representable dyadic number --------------------------------
\* the float with value (-1)^neg * m * 2^k for an integer 0 <= m < 2^31, if one exists
RECURSIVE NormUp(_, _)      \* shift m up until it has MB+1 bits (or the exponent reaches the denormal one)
NormUp(m, k) == IF m >= FRAC \/ k <= 1 - BIAS - MB THEN <<m, k>> ELSE NormUp(2 * m, k - 1)
RECURSIVE NormDown(_, _)    \* shift m down while it is even and too wide or below the denormal exponent
NormDown(m, k) == IF (m >= 2 * FRAC \/ k < 1 - BIAS - MB) /\ m % 2 = 0 /\ m # 0 THEN NormDown(m \div 2, k + 1) ELSE <<m, k>>
Norm(m, k) == LET d == NormDown(m, k) IN NormUp(d[1], d[2])
Representable(m, k) == LET n == Norm(m, k) IN
                          m = 0 \/ (n[1] < 2 * FRAC /\ n[2] >= 1 - BIAS - MB /\ n[2] <= EALL - 1 - BIAS - MB
                                    /\ (n[1] < FRAC => n[2] = 1 - BIAS - MB))
Encode(neg, m, k) == LET n == Norm(m, k) IN
                       IF m = 0 THEN [s |-> IF neg THEN 1 ELSE 0, e |-> 0, f |-> 0]
                       ELSE IF n[1] < FRAC THEN [s |-> IF neg THEN 1 ELSE 0, e |-> 0, f |-> n[1]]
                       ELSE [s |-> IF neg THEN 1 ELSE 0, e |-> n[2] + BIAS + MB, f |-> n[1] - FRAC]
===============================================================================
