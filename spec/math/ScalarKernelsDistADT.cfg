SPECIFICATION Spec
CONSTANTS
  MB = 23
  EB = 8
  NGen = 5
  MaxObj = 2
  MaxCount = 23
INVARIANTS TypeOK GhostOK
CHECK_DEADLOCK FALSE
