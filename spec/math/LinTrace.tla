------------------------------- MODULE LinTrace -------------------------------
(* Trace specification (code -> spec): a recorded execution of ONE real affine *)
(* map object (AffineSpace3f / 3fa / double) - seeded random sequences of      *)
(* compositions from the left and the right with unimodular integer maps,      *)
(* translations, rotations given as Hurwitz unit quaternions (about the origin *)
(* and about a point), inversions, and queries (xfmPoint / xfmVector /         *)
(* xfmNormal / det) - must be a behaviour of LinAlgebra: the map after every   *)
(* step and every returned value are the ones the specification computes.      *)
(* Every operand is exactly representable and every intermediate value stays   *)
(* far below 2^24, so the real arithmetic is exact and equality is demanded.   *)
(* Lines: {a, arg, obs}; obs.st = {l, p} is the map after the step.            *)
EXTENDS LinAlgebra, Json, IOUtils, TLCExt

\* (state variables must not share a name with an operator parameter of LinAlgebra: TLC then stops caching constants)
VARIABLES tCur, tLine
tvars == <<tCur, tLine>>

TraceLines == ndJsonDeserialize(IOEnv.TRACE)
NLines  == Len(TraceLines)
Line    == TraceLines[tLine]
Arg     == Line.arg
Obs     == Line.obs
ObsMap  == [l |-> Obs.st.l, p |-> Obs.st.p]
ArgMap  == [l |-> Arg.m.l, p |-> Arg.m.p]
O3      == <<0, 0, 0>>

TInit == tCur = AffId(3) /\ tLine = 1

Becomes(x) == tCur' = x /\ ObsMap = x
TNew    == Line.a = "TNew"   /\ Becomes(AffId(3))
TMulL   == Line.a = "TMulL"  /\ Becomes(AffMul(ArgMap, tCur))                                   \* cur = m * cur
TMulR   == Line.a = "TMulR"  /\ Becomes(AffMul(tCur, ArgMap))                                   \* cur = cur * m
TTrans  == Line.a = "TTrans" /\ Becomes(AffMul(AffTranslate(Arg.v), tCur))                      \* cur = translate(v) * cur
TRotH   == Line.a = "TRotH"  /\ Arg.q \in HUnits /\ Becomes(AffMul(Aff(QMat(Arg.q), O3), tCur)) \* cur = rotate(q) * cur
TRotC   == Line.a = "TRotC"  /\ Arg.q \in HUnits /\ Becomes(AffMul(AffRotateAbout(Arg.c, QMat(Arg.q)), tCur))   \* cur = rotate(c, q) * cur
TInv    == Line.a = "TInv"   /\ Unimodular(tCur.l) /\ Becomes(AffInvU(tCur))                    \* cur = rcp(cur)
TQuery  == /\ Line.a = "TQuery" /\ ObsMap = tCur /\ UNCHANGED tCur
           /\ Obs.point  = AffApply(tCur, Arg.v)
           /\ Obs.vector = Apply(tCur.l, Arg.v)
           /\ Obs.det    = Det(tCur.l)
           /\ (Unimodular(tCur.l) => Obs.normal = VScale(Det(tCur.l), NormalNum(tCur.l, Arg.v)))

TStep  == tLine <= NLines /\ Line.a # "Reset" /\ tLine' = tLine + 1
          /\ (TNew \/ TMulL \/ TMulR \/ TTrans \/ TRotH \/ TRotC \/ TInv \/ TQuery)
TReset == tLine <= NLines /\ Line.a = "Reset" /\ tCur' = AffId(3) /\ tLine' = tLine + 1
TNext  == TStep \/ TReset
TSpec  == TInit /\ [][TNext]_tvars

Accepted == TLCGet("stats").diameter - 1 = NLines
Post == IF Accepted THEN TRUE
        ELSE /\ PrintT(<<"TRACE-REJECTED-AT-LINE", TLCGet("stats").diameter, "OF", NLines>>)
             /\ FALSE
===============================================================================
