----------------------------- MODULE LinAlgebraMC -----------------------------
(* Model-checking instance of LinAlgebra.  The constant-level laws (rotation   *)
(* group, axis turns, yaw/pitch/roll, Hurwitz quaternions, acceptance and      *)
(* rejection by the scaled-record predicates) are ASSUMEs, evaluated once.     *)
(* The laws about matrices are invariants of a small state machine whose       *)
(* initial states are ALL 2x2 / 3x3 matrices with entries in the tier's range  *)
(* (3x3: -1..1, 19 683 matrices) and whose steps pick a second matrix          *)
(* ("pair"), or two vectors ("vec"): TLC enumerates the space completely.      *)
(* Quick tier: the first matrix of the pair / vec laws is thinned to the       *)
(* matrices whose weighted entry sum is divisible by 27 (all are kept for the   *)
(* one-matrix laws); thorough tier: nothing is thinned.                        *)
EXTENDS LinGeneral, IOUtils

Tier == IF "C06_TIER" \in DOMAIN IOEnv THEN IOEnv.C06_TIER ELSE "quick"

M3 == Mats(3, -1..1)
M2 == IF Tier = "thorough" THEN Mats(2, -2..2) ELSE Mats(2, -1..1)
Weight(M) == Sum(MkV(Len(M), LAMBDA i : Sum(MkV(Len(M), LAMBDA j : (3 * i + j) * M[i][j]))))
Thin(M)   == Tier = "thorough" \/ Len(M) = 2 \/ Weight(M) % 27 = 0

Partner(n) == IF n = 3 THEN Partner3 ELSE M2
VecPairs3 == {<<u, u>> : u \in Lattice3} \cup {<<u, Cross(u, <<1, -1, 1>>)>> : u \in Lattice3} \cup {<<<<1, 0, -1>>, u>> : u \in Lattice3}
VecPairs2 == Vecs(2, -1..1) \X Vecs(2, -1..1)
VecPairs(n) == IF n = 3 THEN VecPairs3 ELSE VecPairs2
Offsets(n) == IF n = 3 THEN {<<0, 0, 0>>, <<1, -2, 3>>} ELSE {<<0, 0>>, <<1, -2>>}
Probes(n)  == IF n = 3 THEN {<<1, 0, 0>>, <<0, 1, -1>>, <<2, 1, 1>>} ELSE {<<1, 0>>, <<-1, 2>>}

\* (state variables must not share a name with an operator parameter of LinAlgebra: TLC then stops caching constants)
VARIABLES sKind, sA, sB, sU, sV
vars == <<sKind, sA, sB, sU, sV>>

Init == /\ sKind = "one" /\ sA \in M3 \cup M2 /\ sB = sA /\ sU = ZeroV(Len(sA)) /\ sV = ZeroV(Len(sA))
Next == /\ sKind = "one" /\ Thin(sA)
        /\ UNCHANGED sA
        /\ \/ \E X \in Partner(Len(sA)) : sB' = X /\ sKind' = "pair" /\ UNCHANGED <<sU, sV>>
           \/ \E uv \in VecPairs(Len(sA)) : sU' = uv[1] /\ sV' = uv[2] /\ sKind' = "vec" /\ UNCHANGED sB
Spec == Init /\ [][Next]_vars

OneLaws ==
  sKind = "one" =>
    /\ LawAdjoint(sA) /\ LawLaplace(sA) /\ LawTranspose(sA) /\ LawInverse(sA) /\ LawVolume(sA) /\ LawColumns(sA)
    /\ \A t \in Offsets(Len(sA)) : LawAffInverse(Aff(sA, t))
PairLaws ==
  sKind = "pair" =>
    /\ LawDetMul(sA, sB) /\ LawMulTranspose(sA, sB) /\ LawAdjMul(sA, sB)
    /\ \A x \in Probes(Len(sA)) : LawMulApply(sA, sB, x)
    /\ \A s \in Offsets(Len(sA)), t \in Offsets(Len(sA)), x \in Probes(Len(sA)) :
          LawAffCompose(Aff(sA, s), Aff(sB, t), x) /\ LawAffParts(Aff(sA, s), x)
    /\ (Len(sA) = 3 /\ sB \in Rot) => \A c \in Probes(3) : LawAffAbout(c, sB)
VecLaws ==
  sKind = "vec" => LawLinear(sA, sU, sV) /\ LawNormal(sA, sU, sV)

ASSUME LawGroup
ASSUME LawAxisTurns
ASSUME LawYPR
ASSUME LawBranches
ASSUME LawHurwitz
ASSUME LawPredicates
ASSUME LawGeneralPredicates
ASSUME \A a \in IntQuats(-2..2) : LawIntQuat(a, <<1, -2, 0, 1>>) /\ LawIntQuat(a, <<0, 1, 1, -1>>)
ASSUME \A a \in IntQuats(-1..1), b \in IntQuats(-1..1) : LawIntQuat(a, b)
\* every branch is reached with every one of its terms non-zero
ASSUME \A br \in {"trace", "x-largest", "y-largest", "z-largest"} : \E a \in IntQuats(-2..2) :
          /\ QuatBranch(QMat4(a)) = br /\ \A i \in 1..4 : a[i] # 0
\* sharpness: the laws are not vacuous - a transposed adjoint or a wrong cofactor sign is refuted on the lattice
ASSUME \E M \in M3 : Mul(M, Transpose(Adj(M))) # SMul(Det(M), Ident(3))
ASSUME \E M \in M3, N \in Partner3 : Det(MAdd(M, N)) # Det(M) + Det(N)
ASSUME \E X \in Rot, Y \in Rot : Mul(X, Y) # Mul(Y, X)
\* the second operands realise every determinant a matrix with entries in -1..1 can have
ASSUME {Det(M) : M \in Partner3} = -4..4 /\ {Det(M) : M \in M3} = -4..4
===============================================================================
