SPECIFICATION Spec
CONSTANT XS <- AllXS
INVARIANTS TypeOK RoundTrip SDAgrees OrderAgrees RcpAgrees RsqrtAgrees RcpSafeAgrees Satisfiable NotVacuous SignLaw ClampLaw
CHECK_DEADLOCK FALSE
