SPECIFICATION Spec
INVARIANTS OneLaws PairLaws TripleLaws
CHECK_DEADLOCK FALSE
