---------------------------- MODULE FloatBitsLimbs ----------------------------
(* Natural numbers beyond TLC's 32-bit integers, for the exact arithmetic on   *)
(* IEEE-754 bit patterns of FloatBits / ScalarKernels (C07): little-endian     *)
(* sequences of digits in base 2^15 ("limbs"); canonical form = at least one   *)
(* digit and no zero as most significant digit unless the number is <<0>>.     *)
(* Every intermediate value of the operators below stays below 2^31:           *)
(*   digit * digit + carry <= (2^15-1)^2 + 2^15 < 2^30 + 2^15.                 *)
(* The first part is a copy of spec/array3D/Limbs.tla (C17); Sub, the powers   *)
(* of two, the bit shifts and the decimal constructor are added here.  The     *)
(* laws of all operators are checked by TLC in ScalarKernelsMC.                *)
EXTENDS Integers, Sequences

BASE == 32768

IsLimbs(a) == /\ Len(a) >= 1
              /\ \A i \in 1..Len(a) : a[i] \in 0..(BASE - 1)
              /\ (Len(a) > 1 => a[Len(a)] # 0)

RECURSIVE Strip(_)
Strip(a) == IF Len(a) > 1 /\ a[Len(a)] = 0 THEN Strip(SubSeq(a, 1, Len(a) - 1)) ELSE a

RECURSIVE FromInt(_)
FromInt(n) == IF n < BASE THEN <<n>> ELSE <<n % BASE>> \o FromInt(n \div BASE)

\* only for values known to be below 2^31
RECURSIVE ToInt(_)
ToInt(a) == IF Len(a) = 1 THEN a[1] ELSE a[1] + BASE * ToInt(Tail(a))
FitsInt(a) == Len(a) <= 2 \/ (Len(a) = 3 /\ a[3] <= 1)     \* < 2^31

Digit(a, i) == IF i <= Len(a) THEN a[i] ELSE 0
MaxLen(a, b) == IF Len(a) > Len(b) THEN Len(a) ELSE Len(b)

RECURSIVE AddFrom(_, _, _, _)
AddFrom(a, b, i, carry) ==
  IF i > MaxLen(a, b) THEN (IF carry = 0 THEN <<>> ELSE <<carry>>)
  ELSE LET s == Digit(a, i) + Digit(b, i) + carry
       IN <<s % BASE>> \o AddFrom(a, b, i + 1, s \div BASE)
Add(a, b) == Strip(AddFrom(a, b, 1, 0))

RECURSIVE MulDigitFrom(_, _, _, _)
MulDigitFrom(a, k, i, carry) ==
  IF i > Len(a) THEN (IF carry = 0 THEN <<>> ELSE <<carry>>)
  ELSE LET p == a[i] * k + carry
       IN <<p % BASE>> \o MulDigitFrom(a, k, i + 1, p \div BASE)
MulDigit(a, k) == Strip(MulDigitFrom(a, k, 1, 0))

ShiftUp(a, n) == [i \in 1..n |-> 0] \o a

RECURSIVE MulFrom(_, _, _)
MulFrom(a, b, j) == IF j > Len(b) THEN <<0>>
                    ELSE Add(Strip(ShiftUp(MulDigit(a, b[j]), j - 1)), MulFrom(a, b, j + 1))
Mul(a, b) == MulFrom(a, b, 1)

\* comparison of canonical numbers
RECURSIVE LessFrom(_, _, _)
LessFrom(a, b, i) == IF i = 0 THEN FALSE
                     ELSE IF a[i] # b[i] THEN a[i] < b[i]
                     ELSE LessFrom(a, b, i - 1)
Less(a, b) == IF Len(a) # Len(b) THEN Len(a) < Len(b) ELSE LessFrom(a, b, Len(a))
LessEq(a, b) == ~Less(b, a)

Zero == <<0>>
One  == <<1>>

(* ---- additions for C07 ---------------------------------------------------- *)
\* a - b for canonical a >= b
RECURSIVE SubFrom(_, _, _, _)
SubFrom(a, b, i, borrow) ==
  IF i > Len(a) THEN <<>>
  ELSE LET d == a[i] - Digit(b, i) - borrow
       IN IF d < 0 THEN <<d + BASE>> \o SubFrom(a, b, i + 1, 1)
                   ELSE <<d>> \o SubFrom(a, b, i + 1, 0)
Sub(a, b) == Strip(SubFrom(a, b, 1, 0))

RECURSIVE Pow2Int(_)
Pow2Int(n) == IF n = 0 THEN 1 ELSE 2 * Pow2Int(n - 1)          \* n <= 30

Pow2L(n) == ShiftUp(<<Pow2Int(n % 15)>>, n \div 15)              \* 2^n, any n >= 0
ShiftLeft(a, n) == IF a = Zero THEN Zero
                   ELSE IF n % 15 = 0 THEN ShiftUp(a, n \div 15)
                   ELSE ShiftUp(MulDigit(a, Pow2Int(n % 15)), n \div 15)   \* a * 2^n

\* number with the decimal digit groups d[1] d[2] ... (most significant first, 4 digits per group after the first)
RECURSIVE FromDec4(_, _)
FromDec4(d, acc) == IF d = <<>> THEN acc ELSE FromDec4(Tail(d), Add(MulDigit(acc, 10000), FromInt(Head(d))))
Dec4(d) == FromDec4(d, Zero)
===============================================================================
