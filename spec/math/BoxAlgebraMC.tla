----------------------------- MODULE BoxAlgebraMC -----------------------------
(* Model-checking instance of BoxAlgebra: TLC enumerates every box a of the    *)
(* bounded lattice (initial states), then every second box b ("pair" states)   *)
(* and every lattice point p ("point" states), and checks the laws that tie    *)
(* the operations to the set semantics as invariants.  A configuration is      *)
(* [d, ax, full, proper]: dimension, axis values, whether the laws that        *)
(* quantify over all boxes / all candidate centres are affordable, and whether *)
(* inverted boxes are left out (they are covered in the lower dimensions).     *)
EXTENDS BoxAlgebra, IOUtils

Tier == IF "C05_TIER" \in DOMAIN IOEnv THEN IOEnv.C05_TIER ELSE "quick"

Configs ==
  IF Tier = "thorough"
  THEN << [d |-> 1, ax |-> -2..3, full |-> TRUE,  proper |-> FALSE],
          [d |-> 2, ax |-> -2..3, full |-> FALSE, proper |-> FALSE],
          [d |-> 2, ax |-> -1..2, full |-> TRUE,  proper |-> FALSE],
          [d |-> 3, ax |-> -1..1, full |-> FALSE, proper |-> FALSE],
          [d |-> 3, ax |-> -1..2, full |-> FALSE, proper |-> TRUE],
          [d |-> 4, ax |-> 0..1,  full |-> FALSE, proper |-> FALSE] >>
  ELSE << [d |-> 1, ax |-> -2..3, full |-> TRUE,  proper |-> FALSE],
          [d |-> 2, ax |-> -1..2, full |-> TRUE,  proper |-> FALSE],
          [d |-> 3, ax |-> -1..1, full |-> FALSE, proper |-> TRUE],
          [d |-> 3, ax |-> 0..1,  full |-> FALSE, proper |-> FALSE] >>

NC == Len(Configs)
\* evaluated once per configuration
\* proper: only non-empty boxes and the default-constructed empty box (no inverted ones)
BoxesOf == [c \in 1..NC |-> (IF Configs[c].proper THEN NEBoxes(Configs[c].d, Configs[c].ax) ELSE AllBoxes(Configs[c].d, Configs[c].ax))
                              \cup {EmptyBox(Configs[c].d)}]
NEOf    == [c \in 1..NC |-> NEBoxes(Configs[c].d, Configs[c].ax)]
PtsOf   == [c \in 1..NC |-> Tuples(Configs[c].ax, Configs[c].d)]
WideOf  == [c \in 1..NC |-> LET ax == Configs[c].ax IN (2 * MinOf(ax) - 1)..(2 * MaxOf(ax) + 1)]

VARIABLES cfg, kind, a, b, p
vars == <<cfg, kind, a, b, p>>

Init == \E c \in 1..NC : \E x \in BoxesOf[c] :
          /\ cfg = c /\ kind = "box" /\ a = x /\ b = x /\ p = x.lo
Next == /\ kind = "box"
        /\ UNCHANGED <<cfg, a>>
        /\ \/ \E y \in BoxesOf[cfg] : b' = y /\ p' = p /\ kind' = "pair"
           \/ \E q \in PtsOf[cfg] : p' = q /\ b' = b /\ kind' = "point"
Spec == Init /\ [][Next]_vars

AX   == Configs[cfg].ax
Full == Configs[cfg].full
\* factor vectors for the pair laws: uniform 1, uniform 2, 1..d, and 3 (3/2 with denominator 2); minus 2 they serve as translations
PairFactors == LET d == Configs[cfg].d IN {[i \in 1..d |-> 1], [i \in 1..d |-> 2], [i \in 1..d |-> i], [i \in 1..d |-> 3]}

\* two strictly increasing coordinate maps: a cubic one and one that pushes the two signs far apart
Cubic(k)  == k * k * k - 7
Spread(k) == IF k < 0 THEN k - 900000 ELSE IF k > 0 THEN k + 900000 ELSE 0
ASSUME StrictlyIncreasing(Cubic, -4..5) /\ StrictlyIncreasing(Spread, -4..5)

BoxLaws ==
  kind = "box" =>
    /\ LawEmpty(a, AX)
    /\ LawExtendIdentity(a)
    /\ LawSize(a, AX)
    /\ LawCenter(a, AX)
    /\ (Full => LawCenterUnique(a, AX, WideOf[cfg]))
PointLaws ==
  kind = "point" =>
    /\ LawContains(a, p, AX)
    /\ LawExtendPt(a, p, AX)
    /\ (Full => LawExtendPtFull(a, p, NEOf[cfg], AX))
    /\ LawClamp(a, p, AX)
    /\ LawTranslate(a, p, AX, WideOf[cfg])
    /\ LawScale(a, p, AX)
    /\ (Full => (LawMonotonePt(Cubic, a, p) /\ LawMonotonePt(Spread, a, p)))
    \* boxes without points under positive scaling (p as the factor, also p/2 and 3p/2 where divisible) and translation by p
    /\ LawScaleEmpty(a, p, 1, WideOf[cfg], PtsOf[cfg])
    /\ LawScaleEmpty(a, p, 2, WideOf[cfg], PtsOf[cfg])
    /\ LawScaleEmpty(a, [i \in DOMAIN p |-> 3 * p[i]], 2, WideOf[cfg], PtsOf[cfg])
    /\ LawTranslateEmpty(a, p, WideOf[cfg], PtsOf[cfg])
PairLaws ==
  kind = "pair" =>
    /\ LawExtendBox(a, b, AX)
    /\ (Full => LawExtendBoxFull(a, b, NEOf[cfg], AX))
    /\ LawIntersection(a, b, AX)
    /\ LawDisjoint(a, b, AX)
    /\ LawDisjointTouching(a, b)
    /\ (Full => (LawMonotonePair(Cubic, a, b) /\ LawMonotonePair(Spread, a, b)))
    /\ \A n \in PairFactors : LawScalePair(a, b, n, 1) /\ LawScalePair(a, b, n, 2) /\ LawTranslatePair(a, b, [i \in DOMAIN n |-> n[i] - 2])

\* Sharpness (constant level): why LawDisjoint and LawExtendBox are restricted to proper operands -
\* with an inverted operand the comparison formulas no longer describe the (empty) point set.
ASSUME \E x \in AllBoxes(1, 0..3), y \in NEBoxes(1, 0..3) :
          IsEmpty(x) /\ ~Disjoint(x, y) /\ Pts(x, 0..3) \cap Pts(y, 0..3) = {}
ASSUME \E x \in AllBoxes(1, 0..3), y \in NEBoxes(1, 0..3) :
          IsEmpty(x) /\ ExtendBox(y, x) # y
\* scaling by a negative factor inverts the bounds: outside the law (and outside what the check constrains)
ASSUME IsEmpty(Scale([lo |-> <<1>>, hi |-> <<2>>], <<-1>>))

\* xfmBounds (constant level): hull of the corner images contains every lattice image, for all maps of a covering family
XfmMaps == {<<vx, vy, vz, t>> : vx \in {<<1, 0, -2>>, <<-1, 2, 0>>}, vy \in {<<0, -1, 1>>, <<2, 1, -1>>},
                               vz \in {<<-2, 2, 1>>, <<0, 0, -1>>}, t \in {<<0, 0, 0>>, <<1, -2, 3>>}}
ASSUME \A m \in XfmMaps : \A x \in NEBoxes(3, 0..1) : LawXfm(m, x, 0..1)
===============================================================================
