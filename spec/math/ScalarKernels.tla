----------------------------- MODULE ScalarKernels -----------------------------
(* C07 - contracts of the scalar math kernels of rkcommon (math/rkmath.h,      *)
(* math/vec.h packing, utility/random.h), stated over IEEE-754 BIT PATTERNS in *)
(* exact integer arithmetic (FloatBits: a finite float is the signed dyadic    *)
(* number Val(x); products and sums of such numbers are computed exactly on    *)
(* limbs).  Nothing in this module rounds: every predicate below is a decision *)
(* about rational numbers.                                                     *)
(*                                                                             *)
(* The module states exactly the clauses of the property:                      *)
(*   RcpOk / RsqrtOk   |x*r - 1| <= 2^-T ;  (1-2^-T)^2 <= r^2*x <= (1+2^-T)^2   *)
(*                     (the relative error of r against 1/x resp. 1/sqrt(x) is *)
(*                     |x*r - 1| resp. |r*sqrt(x) - 1|; squaring the second    *)
(*                     inequality is an equivalence for r > 0), T = 20 for     *)
(*                     binary32, on the domain 2^-126 <= |x| < 2^126;          *)
(*   RcpSafeOk         r finite and not of the opposite sign to x;             *)
(*   ClampOk           lower <= r <= upper, and r = x when lower <= x <= upper;*)
(*   IsDivRoundUp      q*b >= a and (q-1)*b < a;                               *)
(*   SignOk, MaddOk, LerpOk, Deg2RadOk     definitions of rkmath.h;            *)
(*   RunsOk, ChanTabOk, VecOk   monotone / saturating / per-channel packing;   *)
(*   DistOk, ColorOk   range (to within one rounding step) and reproducibility *)
(* and leaves everything else unconstrained (NaN operands, lower > upper,      *)
(* a < 0 or b <= 0, x outside the stated range).                               *)
EXTENDS FloatBits

\* ---------------------------------------------------------------------------------------
\* rcp, rsqrt, rcp_safe
\* ---------------------------------------------------------------------------------------
\* 2^(1-BIAS) <= |x| < 2^(BIAS-1): for binary32 2^-126 <= |x| < 2^126, biased exponent 1..252
InKernelDomain(x) == x.e \in 1..(EALL - 3)

WithinRel(p, T) == SDLessEq(SDAbs(SDSub(p, SDOne)), SDPow2(0 - T))         \* |p - 1| <= 2^-T

RcpOk(x, r, T) == IsFinite(r) /\ WithinRel(SDMul(Val(x), Val(r)), T)

SqLo(T) == LET a == SDSub(SDOne, SDPow2(0 - T)) IN SDMul(a, a)             \* (1 - 2^-T)^2
SqHi(T) == LET a == SDAdd(SDOne, SDPow2(0 - T)) IN SDMul(a, a)             \* (1 + 2^-T)^2
RsqrtOk(x, r, T) == /\ IsFinite(r) /\ r.s = 0
                    /\ LET q == SDMul(SDMul(Val(r), Val(r)), Val(x))
                       IN SDLessEq(SqLo(T), q) /\ SDLessEq(q, SqHi(T))

\* "never of the opposite sign to x": x and r are of opposite sign when one is a negative and the other a
\* positive NUMBER (x * r < 0).  A zero (either bit pattern) is neither, so it is of the opposite sign to nothing.
OppositeSign(x, r) == ~IsZero(x) /\ ~IsZero(r) /\ x.s # r.s
RcpSafeOk(x, r) == IsFinite(r) /\ ~OppositeSign(x, r)

\* ---------------------------------------------------------------------------------------
\* sign, clamp, divRoundUp, madd, lerp, deg2rad
\* ---------------------------------------------------------------------------------------
PlusOne  == Encode(FALSE, 1, 0)
MinusOne == Encode(TRUE, 1, 0)
\* rkmath.h: x < 0 ? -1.0f : 1.0f  (both zeros are not < 0); NaN: not stated
SignDef(x) == IF x.s = 1 /\ ~IsZero(x) THEN MinusOne ELSE PlusOne
SignOk(x, r) == IsNaN(x) \/ r = SignDef(x)

\* floats (infinite bounds allowed); any NaN operand or lower > upper: not stated
ClampStated(x, lo, hi) == ~IsNaN(x) /\ ~IsNaN(lo) /\ ~IsNaN(hi) /\ ValLessEq(lo, hi)
ClampOk(x, lo, hi, r) ==
  ClampStated(x, lo, hi) =>
     /\ ~IsNaN(r) /\ ValLessEq(lo, r) /\ ValLessEq(r, hi)
     /\ ((ValLessEq(lo, x) /\ ValLessEq(x, hi)) => SameValue(r, x))
\* integers of any width as SD numbers with k = 0
ZClampOk(x, lo, hi, r) ==
  SDLessEq(lo, hi) =>
     /\ SDLessEq(lo, r) /\ SDLessEq(r, hi)
     /\ ((SDLessEq(lo, x) /\ SDLessEq(x, hi)) => SDEq(r, x))
\* reference implementation (small integers), used by the generation module and the model-checking instance
ClampInt(x, lo, hi) == LET m == IF x < hi THEN x ELSE hi IN IF m < lo THEN lo ELSE m

\* the least q with q*b >= a  (a >= 0, b > 0; otherwise not stated)
DruStated(a, b) == SDSign(a) >= 0 /\ SDSign(b) = 1
IsDivRoundUp(a, b, q) == /\ SDLessEq(a, SDMul(q, b))
                         /\ SDLess(SDMul(SDSub(q, SDOne), b), a)
DruOk(a, b, q) == DruStated(a, b) => IsDivRoundUp(a, b, q)
\* small integers
IsDivRoundUpInt(a, b, q) == q * b >= a /\ (q - 1) * b < a
DivRoundUpInt(a, b) == (a \div b) + (IF a % b = 0 THEN 0 ELSE 1)

\* definitions on exact values
MaddExact(a, b, c) == SDAdd(SDMul(Val(a), Val(b)), Val(c))
LerpExact(f, a, b) == SDAdd(SDMul(SDSub(SDOne, Val(f)), Val(a)), SDMul(Val(f), Val(b)))
\* a float evaluation of the definition rounds after every operation (relative 2^-(MB+1) each): the recorded result
\* must lie within the accumulated bound of the standard model, 2^-(MB-1) for madd (two roundings) and
\* 2^-(MB-2) for lerp (three roundings on either path), of the magnitudes of the terms, plus one denormal step.
Tiny == SDPow2(1 - BIAS - MB)
\* the largest finite magnitude is below 2^(BIAS+1); a law is stated only when every exact intermediate value (plus its
\* bound) stays below it - an overflowing evaluation is neither required nor forbidden to return an infinity
InRangeV(v, slack, top) == SDLess(SDAdd(SDAbs(v), slack), top)
Top32 == SDPow2(BIAS + 1)
Top64 == SDPow2(1024)
MaddOk(a, b, c, r) ==
  (IsFinite(a) /\ IsFinite(b) /\ IsFinite(c)) =>
     LET p == SDMul(Val(a), Val(b))
         bound == SDAdd(SDScale(SDAdd(SDAbs(p), SDAbs(Val(c))), 0 - (MB - 1)), Tiny)
     IN (InRangeV(p, bound, Top32) /\ InRangeV(MaddExact(a, b, c), bound, Top32)) =>
           (IsFinite(r) /\ SDLessEq(SDAbs(SDSub(Val(r), MaddExact(a, b, c))), bound))
\* the same law on exact values (used for binary32, for the double instantiation and for integer element types)
LerpExactV(fv, av, bv) == SDAdd(SDMul(SDSub(SDOne, fv), av), SDMul(fv, bv))
LerpBoundV(fv, av, bv, relbits, tiny) ==
  SDAdd(SDScale(SDAdd(SDAbs(SDMul(SDSub(SDOne, fv), av)), SDAbs(SDMul(fv, bv))), 0 - relbits), tiny)
LerpOkV(fv, av, bv, rv, relbits, tiny) == SDLessEq(SDAbs(SDSub(rv, LerpExactV(fv, av, bv))), LerpBoundV(fv, av, bv, relbits, tiny))
LerpStatedV(fv, av, bv, relbits, tiny, top) ==
  LET d == LerpBoundV(fv, av, bv, relbits, tiny)
  IN InRangeV(SDMul(SDSub(SDOne, fv), av), d, top) /\ InRangeV(SDMul(fv, bv), d, top) /\ InRangeV(LerpExactV(fv, av, bv), d, top)
LerpOk(f, a, b, r) ==
  (IsFinite(f) /\ IsFinite(a) /\ IsFinite(b) /\ LerpStatedV(Val(f), Val(a), Val(b), MB - 2, Tiny, Top32)) =>
     /\ IsFinite(r)
     /\ LerpOkV(Val(f), Val(a), Val(b), Val(r), MB - 2, Tiny)
\* lerp<double>(float factor, double a, double b): 1.f - factor is formed in binary32, so the accumulated bound is the
\* binary32 one; operands and result are binary64 patterns (quarters)
LerpD64Ok(f, a, b, r) ==
  (IsFinite(f) /\ D64IsFinite(a) /\ D64IsFinite(b) /\ LerpStatedV(Val(f), D64Val(a), D64Val(b), MB - 2, D64Tiny, Top64)) =>
     /\ D64IsFinite(r)
     /\ LerpOkV(Val(f), D64Val(a), D64Val(b), D64Val(r), MB - 2, D64Tiny)
\* lerp<T> for an integer type T = [tmin, tmax] (a, b, r integers as SD numbers): the float expression is converted back
\* to T by truncation, so r is within the accumulated bound plus one of the exact value.  Stated when the exact value,
\* truncated, is a value of T (the statement cannot ask for a value the type does not have).
LerpIntStated(fv, av, bv, tmin, tmax) == LET e == LerpExactV(fv, av, bv) IN SDLess(SDSub(tmin, SDOne), e) /\ SDLess(e, SDAdd(tmax, SDOne))
LerpIntOk(fv, av, bv, rv, tmin, tmax) ==
  LerpIntStated(fv, av, bv, tmin, tmax) => LerpOkV(fv, av, bv, rv, MB - 2, SDOne)
\* can the rounded float value of the expression lie outside T although the exact value does not?
LerpIntNearEdge(fv, av, bv, tmin, tmax) ==
  LET e == LerpExactV(fv, av, bv)
      d == LerpBoundV(fv, av, bv, MB - 2, SDOne)
  IN ~(SDLess(SDSub(tmin, SDOne), SDSub(e, d)) /\ SDLess(SDAdd(e, d), SDAdd(tmax, SDOne)))

\* pi bracketed by two dyadic numbers 2^-60 apart: PiLo = floor(pi * 2^60) / 2^60 (ScalarKernelsMC checks the limb
\* literal against the decimal digits 3.14159265358979323846 and against Archimedes' and Zu's bounds)
PiLoM == <<12429, 4276, 23202, 4639, 3>>
PiLo  == SD(FALSE, PiLoM, 0 - 60)
PiHi  == SD(FALSE, Add(PiLoM, One), 0 - 60)
\* deg2rad(x) = x * pi / 180:  |180 r - x pi| <= 2^-(MB-1) |x pi| + 180 denormal steps  (the header's constant and the
\* product each round once; a product below the normal range is rounded to a multiple of the denormal step), decided
\* with the bracket, for x >= 0:  |x| PiLo (1 - 2^-(MB-1)) - 180 Tiny <= 180 r <= |x| PiHi (1 + 2^-(MB-1)) + 180 Tiny,
\* and for x < 0 the same about -r
Deg2RadOkV(xv, rv, relbits, tiny) ==
  LET ax   == SDAbs(xv)
      sr   == IF xv.neg THEN SDNeg(rv) ELSE rv
      lhs  == SDMul(SDInt(180), sr)
      slack == SDMul(SDInt(180), tiny)
      lo   == SDSub(SDMul(SDMul(ax, PiLo), SDSub(SDOne, SDPow2(0 - relbits))), slack)
      hi   == SDAdd(SDMul(SDMul(ax, PiHi), SDAdd(SDOne, SDPow2(0 - relbits))), slack)
  IN SDLessEq(lo, lhs) /\ SDLessEq(lhs, hi)
Deg2RadOk(x, r) == IsFinite(x) => (IsFinite(r) /\ Deg2RadOkV(Val(x), Val(r), MB - 1, Tiny))
\* deg2rad<double>: the constant and the product each round once in binary64 (2^-53 each): within 2^-50
Deg2RadD64Ok(x, r) == (D64IsFinite(x) /\ D64Exp(x) <= 2000) => (D64IsFinite(r) /\ Deg2RadOkV(D64Val(x), D64Val(r), 50, D64Tiny))

\* rcp_safe(double) / clamp<double> on binary64 patterns
RcpSafeD64Ok(x, r) == D64IsFinite(r) /\ ~(~D64IsZero(x) /\ ~D64IsZero(r) /\ D64Sign(x) # D64Sign(r))

\* ---------------------------------------------------------------------------------------
\* 8-bit packing: monotone, saturating, per-channel  (binary32 halves)
\* ---------------------------------------------------------------------------------------
NegInf == [s |-> 1, e |-> EALL, f |-> 0]
PosInf == [s |-> 0, e |-> EALL, f |-> 0]
\* byte c (1..4 = x, y, z, w) of a packed word <<hi, lo>>
Byte(w, c) == IF c = 1 THEN w[2] % 256 ELSE IF c = 2 THEN w[2] \div 256 ELSE IF c = 3 THEN w[1] % 256 ELSE w[1] \div 256

\* A complete table of a byte-valued function of one float, run-length encoded: runs[i] = [from, to, v] says
\* that every pattern from `from` to `to` (in the enumeration -inf .. -0, +0 .. +inf) is mapped to v.
RunFailures(runs) ==
  LET n == Len(runs)
      F(i) == FromHalves(runs[i].from)
      T(i) == FromHalves(runs[i].to)
  IN (IF /\ n >= 1 /\ F(1) = NegInf /\ T(n) = PosInf
         /\ \A i \in 1..n : ~IsNaN(F(i)) /\ ~IsNaN(T(i)) /\ PatLessEq(F(i), T(i))
         /\ \A i \in 1..(n - 1) : IsNextPattern(T(i), F(i + 1))
      THEN {} ELSE {"cover"})
     \cup (IF \A i \in 1..n : runs[i].v \in 0..255 THEN {} ELSE {"byte-range"})
     \cup (IF \A i \in 1..(n - 1) : runs[i].v <= runs[i + 1].v THEN {} ELSE {"monotone"})
     \cup (IF \A i \in 1..n : Key(F(i)) <= 0 => runs[i].v = 0 THEN {} ELSE {"saturate-low"})
     \cup (IF \A i \in 1..n : Key(T(i)) >= Key(PlusOne) => runs[i].v = 255 THEN {} ELSE {"saturate-high"})

\* A sampled table of channel c of a function of four floats: fam[i] = [x, w] where x is the input of channel c
\* and w[j] the packed words obtained for several settings of the OTHER three channels.
ChanFailures(c, fam) ==
  LET n == Len(fam)
      X(i) == FromHalves(fam[i].x)
      B(i) == Byte(fam[i].w[1], c)
  IN (IF \A i \in 1..n : ~IsNaN(X(i)) /\ Len(fam[i].w) >= 2 THEN {} ELSE {"malformed"})
     \cup (IF \A i \in 1..(n - 1) : PatLessEq(X(i), X(i + 1)) /\ X(i) # X(i + 1) THEN {} ELSE {"unsorted"})
     \cup (IF \A i \in 1..n : \A j \in 1..Len(fam[i].w) : Byte(fam[i].w[j], c) = B(i) THEN {} ELSE {"per-channel"})
     \cup (IF \A i \in 1..(n - 1) : B(i) <= B(i + 1) THEN {} ELSE {"monotone"})
     \cup (IF \A i \in 1..n : Key(X(i)) <= 0 => B(i) = 0 THEN {} ELSE {"saturate-low"})
     \cup (IF \A i \in 1..n : Key(X(i)) >= Key(PlusOne) => B(i) = 255 THEN {} ELSE {"saturate-high"})

\* the packed word of a vector is the sum of its channel bytes at their positions: byte c of the word equals the
\* value the channel table gives for the input of channel c (ix[c] = claimed position of that input in table c; checked)
VecOk(tabs, vec) ==
  \A c \in 1..4 : /\ vec.ix[c] \in 1..Len(tabs[c])
                  /\ tabs[c][vec.ix[c]].x = vec.v[c]
                  /\ Byte(vec.w, c) = Byte(tabs[c][vec.ix[c]].w[1], c)

\* ---------------------------------------------------------------------------------------
\* random distributions
\* ---------------------------------------------------------------------------------------
\* v lies in [lo, hi] to within one rounding step, the step being the spacing of floats at the larger-magnitude
\* end of the range (one unit in the last place of the arithmetic that produced v)
InRangeStep(v, lo, hi) ==
  /\ IsFinite(v)
  /\ \/ KeyLessEq(lo, v) /\ KeyLessEq(v, hi)
     \/ LET step == SDPow2(IF Exp2(lo) > Exp2(hi) THEN Exp2(lo) ELSE Exp2(hi))
        IN /\ SDLessEq(SDSub(Val(lo), step), Val(v))
           /\ SDLessEq(Val(v), SDAdd(Val(hi), step))
\* upper - lower itself is not a finite float (|upper - lower| rounds to infinity: at least 2^(BIAS+1) - 2^(BIAS-MB-1))
WidthOverflows(lo, hi) ==
  SDLessEq(SDSub(SDPow2(BIAS + 1), SDPow2(BIAS - MB - 1)), SDAbs(SDSub(Val(hi), Val(lo))))
\* a and b: the streams of two generators constructed from the same arguments
DistFailures(lo, hi, a, b) ==
  (IF a = b THEN {} ELSE {"reproducible"})
  \cup (IF IsFinite(lo) /\ IsFinite(hi) /\ ValLessEq(lo, hi)
           /\ ~(\A i \in 1..Len(a) : InRangeStep(FromHalves(a[i]), lo, hi))
        THEN {"range"} ELSE {})

\* ---------------------------------------------------------------------------------------
\* distribution OBJECTS: abstract data types without abstract state
\* ---------------------------------------------------------------------------------------
\* A uniform_real_distribution<T> object has NO state besides (lower, upper): every draw is a function of lower, upper,
\* the generator's min() / max() and the generator's next output only - not of earlier draws of the object, of the
\* generator TYPE it served before, of how many draws came before, nor of whether the object is a copy of a used one.
\* A pcg32_biased_float_distribution object owns its generator: its k-th draw is a function of (seed, sequence, lower,
\* upper, k) only, and a copy continues the stream of its source.  (ScalarKernelsDistADT is the state machine; the
\* operators below judge one recorded Draw.)
\* generator types a distribution object may be handed: least output and max() - min(), on limbs
GenNames == <<"pcg32", "mt19937_64", "minstd_rand", "ranlux24", "edge32", "mt19937">>
GenMinL(g)  == IF g = "minstd_rand" THEN One ELSE Zero
GenSpanL(g) == CASE g \in {"pcg32", "mt19937", "edge32"} -> Sub(Pow2L(32), One)
                 [] g = "mt19937_64"  -> Sub(Pow2L(64), One)
                 [] g = "minstd_rand" -> Sub(Pow2L(31), FromInt(3))      \* [1, 2^31 - 2]
                 [] g = "ranlux24"    -> Sub(Pow2L(24), One)
                 [] OTHER             -> Pow2L(32)                       \* "own": pcg32_biased scales its pcg32 output by 2^-32
SameGenRange(g, h) == GenMinL(g) = GenMinL(h) /\ GenSpanL(g) = GenSpanL(h)

\* The value of a draw, from the generator's raw output: the exact number is E = l + (raw - min) (u - l) / span.  A float
\* evaluation rounds u - l, span, (u - l) / span, raw - min, the product and the sum (relative 2^-(MB+1) each: at most 7
\* units of the magnitudes |l| + |u|, bounded here by 2^-relbits of them) and the quotient (u - l) / span may be rounded
\* to a multiple of the denormal step (absolute error of half a step, multiplied by raw - min).  Decided without
\* division:  | span (v - l) - (raw - min)(u - l) | <= span * bound.
\* Stated when lower <= upper, min <= raw <= min + span, and no intermediate value can leave the finite range.
DrawBoundV(lv, uv, rp, relbits, tiny) ==
  SDAdd(SDScale(SDAdd(SDAbs(lv), SDAbs(uv)), 0 - relbits), SDMul(SDAdd(rp, SDInt(2)), tiny))
DrawStatedV(lv, uv, minL, spanL, rawL, relbits, top) ==
  /\ SDLessEq(lv, uv)
  /\ LessEq(minL, rawL) /\ LessEq(Sub(rawL, minL), spanL)
  /\ LET mag == SDAdd(SDAbs(lv), SDAbs(uv)) IN InRangeV(mag, SDScale(mag, 0 - relbits), top)
DrawValueOkV(lv, uv, minL, spanL, rawL, vv, relbits, tiny) ==
  LET rp   == SD(FALSE, Sub(rawL, minL), 0)
      span == SD(FALSE, spanL, 0)
      err  == SDAbs(SDSub(SDMul(span, SDSub(vv, lv)), SDMul(rp, SDSub(uv, lv))))
      rel  == SDScale(SDAdd(SDAbs(lv), SDAbs(uv)), 0 - relbits)          \* the rounding part of the bound
      und  == SDMul(SDAdd(rp, SDInt(2)), tiny)                           \* the underflow part of the bound
  IN \* err <= span (rel + und); the parts are tried alone first: their sum aligns numbers up to 2000 binary digits apart
     \/ SDLessEq(err, SDMul(span, rel))
     \/ SDLessEq(err, SDMul(span, und))
     \/ SDLessEq(err, SDMul(span, SDAdd(rel, und)))
\* one rounding step of the magnitudes around [lower, upper] for a format with `ulpbits` fraction bits, at least one
\* denormal step `tiny` (binary64 draws; the binary32 draws use InRangeStep on patterns)
InRangeStepV(vv, lv, uv, ulpbits, tiny) ==
  LET rel  == SDScale(SDAdd(SDAbs(lv), SDAbs(uv)), 0 - ulpbits)
      step == IF SDLess(rel, tiny) THEN tiny ELSE rel
  IN SDLessEq(SDSub(lv, step), vv) /\ SDLessEq(vv, SDAdd(uv, step))
\* the quotient (upper - lower) / (max - min) lies below the normal range (it is rounded to a multiple of the denormal
\* step: the class of a range finding, like upper - lower > FLT_MAX)
QuotientDenormalV(lv, uv, spanL, minnormal) == SDLess(SDAbs(SDSub(uv, lv)), SDMul(SD(FALSE, spanL, 0), minnormal))
===============================================================================
