
