------------------------------ MODULE LinGeneral ------------------------------
(* Property C06 beyond the cube lattice: GENERAL unit axes and angles, GENERAL  *)
(* unit quaternion pairs and slerp factors, GENERAL well-conditioned matrices.  *)
(* No expected value exists in exact arithmetic for these inputs (irrational),  *)
(* so the direction is code -> spec only: the driver records the results of the *)
(* real functions as integers scaled by SC = 2^14 and the POLYNOMIAL LAWS of    *)
(* this module - evaluated by TLC in 32-bit integer arithmetic - decide.  A     *)
(* product of two recorded numbers is scaled by SC^2 = 2^28; every sum below    *)
(* has at most three or four such terms and entries bounded by RANGE, so it     *)
(* stays under 2^31; chained matrix products are re-scaled (MulS).              *)
(*                                                                              *)
(* The laws pin the functions down without trigonometry:                        *)
(*  rotate(u, a):  R orthonormal, det +1, R u = u, R(a) R(b) = R(a + b),        *)
(*     R(-a) = R(a)^T, the sense of rotation (the axial vector of R is          *)
(*     sin(a) u), and anchors where the exact value is a polynomial in u:       *)
(*     angles k pi/2 (Rodrigues with c, s in {0, +-1}: u u^T (1-c) + c I + s    *)
(*     [u]x) reached as sums a + b, and the half-angle chain C(j+1)^2 = C(j)    *)
(*     down from C(0) = rotate(u, pi) = 2 u u^T - I.                            *)
(*  quaternions: unit norm, matrix-from-quaternion = QMat4(q) (the formula      *)
(*     whose laws LinAlgebraMC checks), quaternion-from-matrix gives +-q.       *)
(*  slerp: with S_t = A^T R_t:  S_0 = I, S_1 = A^T B, S_1/2^2 = A^T B,          *)
(*     S_1/4^2 = S_1/2, S_1/8^2 = S_1/4, S_3/4 = S_1/2 S_1/4, S_7/8 = S_3/4     *)
(*     S_1/8, same axis and sense as A^T B, short arc; for nearly (anti)        *)
(*     parallel pairs additionally r_t is parallel to (1-t) a' + t b with a'    *)
(*     = +-a the representative on b's side.                                    *)
(*  matrices M = K / 8 (K integer, |K[i][j]| <= 16), condition number <= 64:    *)
(*     K inverse(M) = 8 I exactly, det = Det(K) / 8^n, det multiplicative,      *)
(*     M^T xfmNormal(M, v) = v, rcp(A) A = id, (A B) p = A (B p) = the exact    *)
(*     rational value.                                                          *)
EXTENDS LinAlgebra

\* ---------------------------------------------------------------------------
\* scaled arithmetic
\* ---------------------------------------------------------------------------
RANGE == 20000                                        \* entries of recorded orthonormal matrices / unit quaternions (<= SC + slack)
InRangeV(vs) == \A i \in 1..Len(vs) : Abs(vs[i]) <= RANGE
InRangeM(Ms) == \A i \in 1..Len(Ms) : InRangeV(Ms[i])
DivR(x, d)   == (x + d \div 2) \div d                 \* rounding division, d > 0
\* (X / SC) (Y / SC) scaled by SC again
MulS(X, Y)   == MkM(3, LAMBDA i, j : DivR(Dot(X[i], Col(Y, j)), SC))
NearV(xs, ys, tol) == \A i \in 1..Len(xs) : Abs(xs[i] - ys[i]) <= tol
NearM(X, Y, tol)   == \A i \in 1..Len(X) : NearV(X[i], Y[i], tol)
IdentS       == SMul(SC, Ident(3))
\* sin(angle) * axis of a rotation matrix: half the axial vector of its antisymmetric part
Axial(X)     == << DivR(X[3][2] - X[2][3], 2), DivR(X[1][3] - X[3][1], 2), DivR(X[2][1] - X[1][2], 2) >>
MaxAbsM(X)   == LET S == {Abs(X[i][j]) : i \in 1..Len(X), j \in 1..Len(X)} IN CHOOSE m \in S : \A y \in S : m >= y

\* tolerances (units of 2^-14): T1 one recorded entry against another; TP one re-scaled product of recorded matrices;
\* chained products accumulate: TP2 two levels, TP3 three levels
T1  == 2 * EPS
TP  == 8
TP2 == 24
TP3 == 72

IsRotS(X)       == OrthoS(X) /\ RightHandedS(X)
UnitS(vs)       == Abs(Dot(vs, vs) - SC * SC) <= TOL2                         \* 3 components
FixesS(X, us)   == \A i \in 1..3 : Abs(Dot(X[i], us) - SC * us[i]) <= TOL2    \* X u = u
\* SC^2 x the rotation about the unit vector us / SC with cos = c, sin = s in {-1, 0, 1}
CrossMat(us)    == << <<0, -us[3], us[2]>>, <<us[3], 0, -us[1]>>, <<-us[2], us[1], 0>> >>
RodS(us, c, s)  == MkM(3, LAMBDA i, j : us[i] * us[j] * (1 - c) + (IF i = j THEN SC * SC * c ELSE 0) + SC * s * CrossMat(us)[i][j])
IsAnchorS(X, us, c, s) == \A i \in 1..3, j \in 1..3 : Abs(SC * X[i][j] - RodS(us, c, s)[i][j]) <= 2 * TOL2

\* unit quaternion records <<r, i, j, k>>
QUnitS(qs)      == Abs(HSq(qs) - SC * SC) <= 2 * TOL2
QMatOfS(Ms, qs) == \A i \in 1..3, j \in 1..3 : Abs(QMat4(qs)[i][j] - SC * Ms[i][j]) <= 2 * TOL2      \* Ms = LinearSpace3(qs)
QSameS(ps, qs)  == NearV(ps, qs, 2 * T1) \/ NearV(ps, VNeg(qs), 2 * T1)                             \* q and -q: the same rotation
\* the recorded 4-vector rs is a positive multiple of cs (both about SC long)
QAlongS(rs, cs, tol) == (\A i \in 1..4, j \in 1..4 : Abs(rs[i] * cs[j] - rs[j] * cs[i]) <= tol) /\ Dot(rs, cs) > 0

\* ---------------------------------------------------------------------------
\* angles: a = q pi/2 + n / den with |n / den| <= 3/2 (so the quadrant is known)
\* ---------------------------------------------------------------------------
AngleOk(a)  == a.den > 0 /\ 2 * Abs(a.n) <= 3 * a.den
\* sign of sin(a), and whether |sin(a)| is large enough (>= 1/64 rad from a zero) to be demanded
SinSign(a)  == CASE a.q % 4 = 0 -> Sgn(a.n) [] a.q % 4 = 1 -> 1 [] a.q % 4 = 2 -> -Sgn(a.n) [] a.q % 4 = 3 -> -1
SinDecided(a) == a.q % 2 = 1 \/ 64 * Abs(a.n) >= a.den
SENSE_MIN   == (SC \div 128) * SC                       \* sin >= 1/128 in units of SC^2
\* a + b is an exact multiple of pi/2
SumIsLattice(a, b) == a.den = b.den /\ a.n + b.n = 0

\* ---------------------------------------------------------------------------
\* (a) rotate(u, angle), quaternion constructions of the same rotation
\* ---------------------------------------------------------------------------
\* record: us (the unit axis the driver used), R1 = rotate(u, a), R2 = rotate(u, b), R12 = rotate(u, a + b), Rm = rotate(u, -a),
\* q1 = QuaternionT::rotate(u, a), MQ1 = LinearSpace3(q1), q2 = QuaternionT(columns of R1), MQ2 = LinearSpace3(q2)
GenRotVerdict(g, r) ==
  IF ~(AngleOk(g.a) /\ AngleOk(g.b)) THEN "skip:angle-descriptor"
  ELSE IF r.nan THEN "nan"
  ELSE IF ~(InRangeV(r.us) /\ InRangeM(r.R1) /\ InRangeM(r.R2) /\ InRangeM(r.R12) /\ InRangeM(r.Rm) /\ InRangeM(r.MQ1) /\ InRangeM(r.MQ2)
       /\ InRangeV(r.q1) /\ InRangeV(r.q2)) THEN "out-of-range"
  ELSE IF ~(UnitS(r.us) /\ AlongS(r.us, g.axis)) THEN "input-axis-not-normalised"
  ELSE IF ~(IsRotS(r.R1) /\ IsRotS(r.R2) /\ IsRotS(r.R12) /\ IsRotS(r.Rm)) THEN "rotate-is-not-a-proper-rotation"
  ELSE IF ~(FixesS(r.R1, r.us) /\ FixesS(r.R2, r.us) /\ FixesS(r.R12, r.us)) THEN "rotate-does-not-fix-its-axis"
  ELSE IF ~NearM(MulS(r.R1, r.R2), r.R12, TP) THEN "rotate(a)rotate(b)-is-not-rotate(a+b)"
  ELSE IF ~NearM(r.Rm, Transpose(r.R1), T1) THEN "rotate(-a)-is-not-the-transpose"
  ELSE IF SinDecided(g.a) /\ SinSign(g.a) * Dot(Axial(r.R1), r.us) < SENSE_MIN THEN "wrong-sense-of-rotation"
  ELSE IF SinDecided(g.b) /\ SinSign(g.b) * Dot(Axial(r.R2), r.us) < SENSE_MIN THEN "wrong-sense-of-rotation"
  ELSE IF SumIsLattice(g.a, g.b) /\ ~IsAnchorS(r.R12, r.us, Cos4(g.a.q + g.b.q), Sin4(g.a.q + g.b.q)) THEN "rotate-by-a-multiple-of-pi/2-is-not-Rodrigues"
  ELSE IF ~(QUnitS(r.q1) /\ QUnitS(r.q2)) THEN "quaternion-not-unit"
  ELSE IF ~QMatOfS(r.MQ1, r.q1) \/ ~QMatOfS(r.MQ2, r.q2) THEN "matrix-from-quaternion-is-not-its-rotation"
  ELSE IF ~NearM(r.MQ1, r.R1, 2 * T1) THEN "quaternion-rotate-is-not-the-same-rotation"
  ELSE IF ~NearM(r.MQ2, r.R1, 2 * T1) THEN "quaternion-from-matrix-is-not-the-same-rotation"
  ELSE IF ~QSameS(r.q2, r.q1) THEN "quaternion-from-matrix-is-not-+-quaternion-rotate"
  ELSE "ok"
GenRotClass(g, r) == "branch=" \o QuatBranch(r.R1) \o (IF SinDecided(g.a) THEN "|sense-decided" ELSE "|tiny-angle")
                     \o (IF SumIsLattice(g.a, g.b) THEN "|sum-anchored" ELSE "")
                     \o (IF Abs(g.a.q) >= 2 THEN "|beyond-pi-or-near" ELSE "")

\* half-angle chain: C[j] = rotate(u, pi / 2^(j-1)), j = 1..Len(C); F = rotate(u, 2 pi)
GenHalfVerdict(g, r) ==
  IF r.nan THEN "nan"
  ELSE IF ~(InRangeV(r.us) /\ InRangeM(r.F) /\ \A j \in DOMAIN r.C : InRangeM(r.C[j])) THEN "out-of-range"
  ELSE IF ~(UnitS(r.us) /\ AlongS(r.us, g.axis)) THEN "input-axis-not-normalised"
  ELSE IF ~(\A j \in DOMAIN r.C : IsRotS(r.C[j]) /\ FixesS(r.C[j], r.us)) THEN "rotate-is-not-a-proper-rotation-about-its-axis"
  ELSE IF ~IsAnchorS(r.C[1], r.us, -1, 0) THEN "rotate-by-pi-is-not-2uu^T-I"
  ELSE IF ~IsAnchorS(r.C[2], r.us, 0, 1) THEN "rotate-by-pi/2-is-not-Rodrigues"
  ELSE IF ~NearM(r.F, IdentS, T1) THEN "rotate-by-2pi-is-not-the-identity"
  ELSE IF ~(\A j \in 1..(Len(r.C) - 1) : NearM(MulS(r.C[j + 1], r.C[j + 1]), r.C[j], TP)) THEN "half-angle-squared-is-not-the-angle"
  ELSE IF ~(\A j \in 2..Len(r.C) : Dot(Axial(r.C[j]), r.us) >= SENSE_MIN /\ Trace(r.C[j]) >= Trace(r.C[j - 1]) - T1) THEN "wrong-sense-of-rotation"
  ELSE "ok"

\* frame(N), frame(N, up), lookat for general directions (integer vectors, normalised by the driver), in particular up vectors
\* that are NEARLY parallel or anti-parallel to N / to the viewing direction.  frame(N, up) may fall back to frame(N) when up
\* and N are "very parallel" (|cos| > 0.99): the first axis is only demanded along up x N when cos^2 < 9/10.
\* record: m1 = frame(n / |n|), m2 = frame(n / |n|, up / |up|)
CosSqBelow(x, y, num, den) == den * Dot(x, y) * Dot(x, y) < num * Dot(x, x) * Dot(y, y)           \* |x| <= 8 sqrt 3, |y| <= 136 sqrt 3, den <= 50: < 2^31
GenFrameVerdict(g, r) ==
  IF r.nan THEN "nan"
  ELSE IF ~(InRangeM(r.m1) /\ InRangeM(r.m2)) THEN "out-of-range"
  ELSE IF ~IsFrameS(r.m1, g.n) THEN "not-a-right-handed-orthonormal-frame-of-N"
  ELSE IF ~IsFrameS(r.m2, g.n) THEN "frame(N,up)-is-not-a-right-handed-orthonormal-frame-of-N"
  ELSE IF CosSqBelow(g.n, g.up, 9, 10) /\ ~AlongS(Col(r.m2, 1), Cross(g.up, g.n)) THEN "frame(N,up)-first-axis-is-not-along-up-x-N"
  ELSE "ok"
GenFrameClass(g) == IF Parallel(g.n, g.up) THEN "exactly-parallel" ELSE IF ~CosSqBelow(g.n, g.up, 49, 50) THEN (IF Dot(g.n, g.up) > 0 THEN "nearly-parallel" ELSE "nearly-antiparallel")
                    ELSE IF CosSqBelow(g.n, g.up, 9, 10) THEN "generic" ELSE "threshold-zone"
\* record: ls, ps = lookat(eye, point, up) (eye, point, up integer vectors; up not parallel to point - eye)
GenLookatVerdict(g, r) ==
  IF Parallel(VSub(g.point, g.eye), g.up) THEN "skip:up-parallel-to-view-direction"
  ELSE IF r.nan THEN "nan"
  ELSE IF ~(InRangeM(r.ls)) THEN "out-of-range"
  ELSE IF IsLookatS(r.ls, r.ps, g.eye, g.point, g.up) THEN "ok" ELSE "not-the-lookat-frame"
GenLookatClass(g) == LET d == VSub(g.point, g.eye) IN
                     IF ~CosSqBelow(d, g.up, 49, 50) THEN (IF Dot(d, g.up) > 0 THEN "up-nearly-parallel" ELSE "up-nearly-antiparallel") ELSE "generic"

\* ---------------------------------------------------------------------------
\* (b) slerp between general unit quaternions qa = ha / |ha|, qb = hb / |hb| (ha, hb integer 4-vectors)
\* ---------------------------------------------------------------------------
\* classes decided in exact arithmetic: sin^2 of the angle between the 4-vectors = D / (|ha|^2 |hb|^2)
PairD(ha, hb)  == HSq(ha) * HSq(hb) - Dot(ha, hb) * Dot(ha, hb)
NearPair(ha, hb) == PairD(ha, hb) <= 100000 /\ 1001 * PairD(ha, hb) < HSq(ha) * HSq(hb)          \* sin^2 < 1/1001: |cos| > 0.9995
PairClass(ha, hb) == IF NearPair(ha, hb) THEN (IF Dot(ha, hb) > 0 THEN "near-parallel" ELSE "near-antiparallel")
                     ELSE IF Dot(ha, hb) < 0 THEN "obtuse" ELSE "acute"
\* record: qa, qb (normalised by the driver), A = LinearSpace3(qa), B = LinearSpace3(qb), and for t = ts[k] / 8:
\* rq[k] = slerp(t, qa, qb), RM[k] = LinearSpace3(rq[k]);  ts = <<0, 1, 2, 4, 6, 7, 8>>
SlerpTs == <<0, 1, 2, 4, 6, 7, 8>>
GenSlerpVerdict(g, r) ==
  IF g.ts # SlerpTs THEN "skip:factor-list"
  ELSE IF r.nan THEN "nan"
  ELSE IF ~(InRangeV(r.qa) /\ InRangeV(r.qb) /\ InRangeM(r.A) /\ InRangeM(r.B) /\ \A k \in 1..7 : InRangeV(r.rq[k]) /\ InRangeM(r.RM[k])) THEN "out-of-range"
  ELSE IF ~(QUnitS(r.qa) /\ QUnitS(r.qb) /\ QAlongS(r.qa, g.ha, EPS * 32) /\ QAlongS(r.qb, g.hb, EPS * 600)) THEN "input-quaternion-not-normalised"
  ELSE IF ~(QMatOfS(r.A, r.qa) /\ QMatOfS(r.B, r.qb)) THEN "matrix-from-quaternion-is-not-its-rotation"
  ELSE IF ~(\A k \in 1..7 : QUnitS(r.rq[k])) THEN "slerp-result-not-unit"
  ELSE IF ~(\A k \in 1..7 : QMatOfS(r.RM[k], r.rq[k])) THEN "matrix-from-quaternion-is-not-its-rotation"
  ELSE
    LET At == Transpose(r.A)
        T  == MulS(At, r.B)
        S0 == MulS(At, r.RM[1]) S1 == MulS(At, r.RM[2]) S2 == MulS(At, r.RM[3]) S4 == MulS(At, r.RM[4])
        S6 == MulS(At, r.RM[5]) S7 == MulS(At, r.RM[6]) S8 == MulS(At, r.RM[7])
        ax == Axial(T)
        SameAxis(S) == (\A i \in 1..3 : Abs(Cross(Axial(S), ax)[i]) <= 64 * SC) /\ Dot(Axial(S), ax) >= -(64 * SC)
        \* the representative of qa on qb's side, and the chord point (1 - t) a' + t b
        sg == IF Dot(g.ha, g.hb) < 0 THEN -1 ELSE 1
        Chord(m) == MkV(4, LAMBDA i : DivR((8 - m) * sg * r.qa[i] + m * r.qb[i], 8))
    IN IF ~(NearM(S0, IdentS, TP) /\ NearM(S8, T, TP)) THEN "slerp-at-0-or-1-is-not-an-endpoint"
       ELSE IF ~NearM(MulS(S4, S4), T, TP2) THEN "slerp(1/2)-squared-is-not-the-whole-step"
       ELSE IF ~NearM(MulS(S2, S2), S4, TP2) THEN "slerp(1/4)-squared-is-not-slerp(1/2)"
       ELSE IF ~NearM(MulS(S1, S1), S2, TP2) THEN "slerp(1/8)-squared-is-not-slerp(1/4)"
       ELSE IF ~NearM(MulS(S4, S2), S6, TP2) THEN "slerp(3/4)-is-not-slerp(1/2)slerp(1/4)"
       ELSE IF ~NearM(MulS(S6, S1), S7, TP3) THEN "slerp(7/8)-is-not-slerp(3/4)slerp(1/8)"
       ELSE IF ~(Trace(S1) >= SC - TP2 /\ Trace(S2) >= SC - TP2 /\ Trace(S4) >= SC - TP2
                 /\ Trace(S6) >= Trace(T) - TP2 /\ Trace(S7) >= Trace(T) - TP2) THEN "slerp-goes-the-long-way"
       ELSE IF ~(SameAxis(S1) /\ SameAxis(S2) /\ SameAxis(S4) /\ SameAxis(S6) /\ SameAxis(S7)) THEN "slerp-leaves-the-axis-of-the-step"
       ELSE IF NearPair(g.ha, g.hb) /\ ~(\A k \in 1..7 : QAlongS(r.rq[k], Chord(SlerpTs[k]), 24 * SC)) THEN "slerp-of-nearly-parallel-pair-is-not-on-the-chord"
       ELSE "ok"

\* ---------------------------------------------------------------------------
\* (c) general well-conditioned matrices M = K / 8
\* ---------------------------------------------------------------------------
Frob2(K)  == Sum(MkV(Len(K), LAMBDA i : Dot(K[i], K[i])))
\* sufficient for cond_2(M) <= cond_F(M) = |K|_F |Adj K|_F / |Det K| <= 64 (the condition number does not depend on the factor 1/8):
\* |K|_F^2 (|Adj K|_F^2 / 4096 rounded up) <= Det(K)^2, evaluated without leaving 31 bits (|K| <= 16: Det^2 <= 6.1e8)
WellConditioned(K) == Det(K) # 0 /\ Frob2(K) * (Frob2(Adj(K)) \div 4096 + 1) <= Det(K) * Det(K)
EntriesOk(K) == \A i \in 1..Len(K), j \in 1..Len(K) : Abs(K[i][j]) <= 16
Pow8(n)    == IF n = 2 THEN 64 ELSE 512
RowAbs(K, i) == Norm1(K[i])
\* entry tolerance of a recorded inverse: 2 units plus 2^-12 of its largest entry (condition 64 x 2^-18)
InvTol(Xs)  == 2 + MaxAbsM(Xs) \div 4096
\* K X = 8 SC I and X K = 8 SC I, exactly, for X = SC inverse(M)
IsInverseS(Xs, K) ==
  LET n == Len(K) tol == InvTol(Xs) IN
  /\ MaxAbsM(Xs) <= 16777216
  /\ \A i \in 1..n, j \in 1..n : Abs(Dot(K[i], Col(Xs, j)) - (IF i = j THEN 8 * SC ELSE 0)) <= RowAbs(K, i) * tol
  /\ \A i \in 1..n, j \in 1..n : Abs(Dot(Xs[i], Col(K, j)) - (IF i = j THEN 8 * SC ELSE 0)) <= Norm1(Col(K, j)) * tol
\* det(M) = Det(K) / 8^n
IsDetS(ds, K) == Abs(ds * Pow8(Len(K)) - Det(K) * SC) <= Pow8(Len(K)) * 2 + Abs(Det(K)) * 4
\* det(A B) = det(A) det(B) = Det(KA) Det(KB) / 8^2n:  dabs 8^2n / SC = Det(KA) Det(KB)
IsDetMulS(dabs, KA, KB) ==
  LET f == (Pow8(Len(KA)) * Pow8(Len(KA))) \div SC IN         \* 16 (3x3); 2x2: 4096 / 16384 < 1 -> compare the other way round
  IF Len(KA) = 3 THEN Abs(dabs * f - Det(KA) * Det(KB)) <= 48 + Abs(Det(KA) * Det(KB)) \div 4096
  ELSE Abs(dabs - 4 * Det(KA) * Det(KB)) <= 3 + Abs(Det(KA) * Det(KB)) \div 1024
\* xfmNormal(M, v) = M^-T v:  K^T n = 8 v
IsNormalS(ns, K, v, tol) == \A i \in 1..3 : Abs(Dot(Col(K, i), ns) - 8 * SC * v[i]) <= Norm1(Col(K, i)) * tol
\* affine maps A = (KA / 8, PA / 8), B likewise, point V / 8:  512 A(B(V / 8)) = KA (KB V + 8 PB) + 64 PA
ComposedNum(KA, PA, KB, PB, V) == VAdd(Apply(KA, VAdd(Apply(KB, V), VScale(8, PB))), VScale(64, PA))
IsComposedS(xs, KA, PA, KB, PB, V) == \A i \in 1..3 : Abs(xs[i] * 512 - ComposedNum(KA, PA, KB, PB, V)[i] * SC) <= 512 * 3
\* The matrices handed to the library are K / 8 * 2^e (e in -16..16: the laws must not depend on the magnitude of the entries);
\* the driver multiplies every recorded result by the exact power of two that undoes the scale (inverse 2^e, det 2^(-n e),
\* det(AB) 2^(-2 n e), xfmNormal 2^e), so the laws below are those of K / 8.  Affine laws are recorded for e = 0 only.
\* 2x2: orth = orthogonal() of M (the orthogonal polar factor does not depend on a positive scale).
\* record: det, detb, detab, inv = inverse(M), minv = M inverse(M), invm = inverse(M) M; 3x3 also: rcp = rcp(A) as [l, p],
\* rcpmul = rcp(A) A, normal[k] = xfmNormal(M, vs[k]), composed[k] = (A B)(vs[k] / 8), nested[k] = A(B(vs[k] / 8))
\* every recorded number is small enough for the 32-bit evaluation of the laws (a correct result is far inside these bounds)
AbsBelowV(vs, b) == \A i \in 1..Len(vs) : Abs(vs[i]) <= b
AbsBelowM(Ms, b) == \A i \in 1..Len(Ms) : AbsBelowV(Ms[i], b)
GenMatInRange(g, r) ==
  /\ Abs(r.det) <= 1048576 /\ Abs(r.detb) <= 1048576 /\ Abs(r.detab) <= 67108864
  /\ AbsBelowM(r.inv, 2097152) /\ AbsBelowM(r.minv, 2097152) /\ AbsBelowM(r.invm, 2097152)
  /\ (Len(g.ka) = 3 => \A k \in DOMAIN g.vs : AbsBelowV(r.normal[k], 33554432))
  /\ ((Len(g.ka) = 3 /\ g.e = 0) =>
        /\ AbsBelowM(r.rcp.l, 2097152) /\ AbsBelowV(r.rcp.p, 16777216) /\ AbsBelowM(r.rcpmul.l, 2097152) /\ AbsBelowV(r.rcpmul.p, 2097152)
        /\ \A k \in DOMAIN g.vs : AbsBelowV(r.composed[k], 2097152) /\ AbsBelowV(r.nested[k], 2097152))
GenMatVerdict(g, r) ==
  LET n == Len(g.ka) I == SMul(SC, Ident(n)) IN
  IF ~(EntriesOk(g.ka) /\ EntriesOk(g.kb) /\ g.e \in -16..16) THEN "skip:entries"
  ELSE IF ~(WellConditioned(g.ka) /\ WellConditioned(g.kb)) THEN "skip:condition"
  ELSE IF Frob2(g.ka) < 64 \/ Frob2(g.kb) < 64 THEN "skip:norm-below-one"          \* |M|_F >= 1: |inverse(M)|_F <= 64, all records stay in range
  ELSE IF n = 3 /\ ~(\A k \in DOMAIN g.vs : \A i \in 1..3 : Abs(g.vs[k][i]) <= 4) THEN "skip:entries"
  ELSE IF r.nan THEN "nan"
  ELSE IF ~GenMatInRange(g, r) THEN "out-of-range"
  ELSE IF ~(IsDetS(r.det, g.ka) /\ IsDetS(r.detb, g.kb)) THEN "det-is-not-the-determinant"
  ELSE IF ~IsDetMulS(r.detab, g.ka, g.kb) THEN "det-is-not-multiplicative"
  ELSE IF ~IsInverseS(r.inv, g.ka) THEN "inverse-is-not-the-inverse"
  ELSE IF ~(NearM(r.minv, I, 2 + InvTol(r.inv)) /\ NearM(r.invm, I, 2 + InvTol(r.inv))) THEN "M-times-inverse-is-not-the-identity"
  ELSE IF n = 2 THEN (IF ~InRangeM(r.orth) THEN "out-of-range" ELSE IF IsOrthogonalOfS(r.orth, g.ka) THEN "ok" ELSE "orthogonal-is-not-the-closest-orthogonal-matrix")
  ELSE IF ~(\A k \in DOMAIN g.vs : IsNormalS(r.normal[k], g.ka, g.vs[k], 2 + 4 * InvTol(r.inv))) THEN "xfmNormal-is-not-the-inverse-transpose"
  ELSE IF g.e # 0 THEN "ok"
  ELSE IF ~IsInverseS(r.rcp.l, g.ka) THEN "rcp-linear-part-is-not-the-inverse"
  ELSE IF ~(\A i \in 1..3 : Abs(Dot(g.ka[i], r.rcp.p) + g.pa[i] * SC) <= RowAbs(g.ka, i) * (2 + InvTol(r.inv))) THEN "rcp-translation-is-not-minus-inverse-p"
  ELSE IF ~(NearM(r.rcpmul.l, I, 2 + InvTol(r.inv)) /\ NearV(r.rcpmul.p, <<0, 0, 0>>, 2 + 4 * InvTol(r.inv))) THEN "rcp(A)A-is-not-the-identity"
  ELSE IF ~(\A k \in DOMAIN g.vs : IsComposedS(r.composed[k], g.ka, g.pa, g.kb, g.pb, g.vs[k])) THEN "(AB)p-is-not-A(Bp)"
  ELSE IF ~(\A k \in DOMAIN g.vs : IsComposedS(r.nested[k], g.ka, g.pa, g.kb, g.pb, g.vs[k])) THEN "A(Bp)-is-not-the-composition"
  ELSE "ok"

\* ---------------------------------------------------------------------------
\* the predicates accept the exact answers and reject their neighbours (model level; checked by LinAlgebraMC)
\* ---------------------------------------------------------------------------
LawGeneralPredicates ==
  /\ \A a \in {x \in Dirs3 : Norm1(x) = 1}, k \in -4..4 :
        LET R == RotateAA(a, k) us == VScale(SC, a) IN
          /\ IsRotS(SMul(SC, R)) /\ FixesS(SMul(SC, R), us) /\ IsAnchorS(SMul(SC, R), us, Cos4(k), Sin4(k))
          /\ (k % 4 # 0 => ~IsAnchorS(SMul(SC, Transpose(R)), us, Cos4(k), Sin4(k)) \/ k % 2 = 0)
          /\ Axial(SMul(SC, R)) = VScale(SC * Sin4(k), a)
          /\ NearM(MulS(SMul(SC, R), SMul(SC, R)), SMul(SC, RotateAA(a, 2 * k)), 0)
  /\ \A R \in Rot : ~IsRotS(SMul(SC, FlipCol(R, 2))) /\ ~IsRotS(SMul(SC + 40, R))
  /\ \A h \in HUnits : LET qs == VScale(SC \div 2, h) IN
        QUnitS(qs) /\ QMatOfS(SMul(SC, QMat(h)), qs) /\ (QMat(h) = Transpose(QMat(h)) \/ ~QMatOfS(SMul(SC, Transpose(QMat(h))), qs))
  /\ QSameS(<<SC, 0, 0, 0>>, <<-SC, 0, 0, 0>>) /\ ~QSameS(<<SC, 0, 0, 0>>, <<0, SC, 0, 0>>)
  /\ SinSign([q |-> 0, n |-> 1, den |-> 2]) = 1 /\ SinSign([q |-> 2, n |-> 1, den |-> 2]) = -1 /\ SinSign([q |-> -1, n |-> 0, den |-> 1]) = -1
  /\ SinSign([q |-> -2, n |-> -1, den |-> 4]) = 1 /\ SinSign([q |-> 3, n |-> 1, den |-> 1]) = -1 /\ ~SinDecided([q |-> 4, n |-> -1, den |-> 4096])
  /\ PairClass(<<1, 2, 3, 4>>, <<32, 64, 96, 129>>) = "near-parallel" /\ PairClass(<<1, 2, 3, 4>>, <<-32, -64, -97, -128>>) = "near-antiparallel"
  /\ PairClass(<<1, 2, 3, 4>>, <<-4, 3, -2, 0>>) = "obtuse" /\ PairClass(<<1, 0, 0, 0>>, <<1, 1, 0, 0>>) = "acute"
  \* matrices: 2 I has inverse I / 2; the shear is well conditioned, a nearly singular matrix is not
  /\ WellConditioned(Diag(<<16, 16, 16>>)) /\ IsInverseS(SMul(SC \div 2, Ident(3)), Diag(<<16, 16, 16>>)) /\ ~IsInverseS(SMul(SC, Ident(3)), Diag(<<16, 16, 16>>))
  /\ IsDetS(8 * SC, Diag(<<16, 16, 16>>)) /\ ~IsDetS(4 * SC, Diag(<<16, 16, 16>>)) /\ IsDetMulS(64 * SC, Diag(<<16, 16, 16>>), Diag(<<16, 16, 16>>))
  /\ IsDetS(4 * SC, Diag(<<16, 16>>)) /\ IsDetMulS(16 * SC, Diag(<<16, 16>>), Diag(<<16, 16>>)) /\ ~IsDetMulS(8 * SC, Diag(<<16, 16>>), Diag(<<16, 16>>))
  /\ WellConditioned(<< <<8, 8, 0>>, <<0, 8, 8>>, <<0, 0, 8>> >>) /\ ~WellConditioned(<< <<16, 16, 16>>, <<16, 16, 15>>, <<1, 0, 0>> >>)
  /\ ~WellConditioned(<< <<1, 2>>, <<2, 4>> >>)
  /\ IsNormalS(<<SC \div 2, 0, 0>>, Diag(<<16, 8, 8>>), <<1, 0, 0>>, 2) /\ ~IsNormalS(<<2 * SC, 0, 0>>, Diag(<<16, 8, 8>>), <<1, 0, 0>>, 2)
  /\ IsComposedS(<<3 * SC, 0, SC>>, Diag(<<16, 8, 8>>), <<8, 0, 0>>, Ident(3), <<0, 0, 8>>, <<64, 0, 0>>)
===============================================================================
