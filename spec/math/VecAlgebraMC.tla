---------------------------- MODULE VecAlgebraMC -----------------------------
(* Model-checking instance of VecAlgebra: TLC enumerates every vector a with   *)
(* pairwise distinct components over the lattice of a configuration (initial   *)
(* states), then every second vector b ("pair" states) and, where the          *)
(* configuration says so, every third vector c ("triple" states), and checks   *)
(* the laws of VecAlgebra as invariants.  The scalar laws (C++ division,       *)
(* narrowing, usual arithmetic conversions) are constant-level ASSUMEs.        *)
(* A configuration is [n, lat, off, B, triple]: shape, lattice, and the shift  *)
(* / base of the positional encoding used by LawLessEncoding.                  *)
EXTENDS VecAlgebra, IOUtils

Tier == IF "C04_TIER" \in DOMAIN IOEnv THEN IOEnv.C04_TIER ELSE "quick"

LS  == {-5, -3, -2, 1, 2, 4, 7}          \* the lattice of the emitted cases (signed element types)
LS6 == {-5, -3, 1, 2, 4, 7}
LS5 == {-5, -2, 1, 4, 7}
LS4 == {-3, 1, 2, 7}
LU  == {1, 2, 4, 7, 11, 100}             \* unsigned element types (the emitted cases use 250 in place of 100: the fourth-degree
                                         \* laws - Cauchy-Schwarz, Lagrange - would leave TLC's 32-bit integers with 250)
LZ  == {-2, 0, 1, 3}                     \* with a zero component (reductions, dot, comparisons; not a divisor lattice)

Configs ==
  IF Tier = "thorough"
  THEN << [n |-> 2, lat |-> LS,  off |-> 5, B |-> 13,  triple |-> TRUE],
          [n |-> 3, lat |-> LS,  off |-> 5, B |-> 13,  triple |-> FALSE],
          [n |-> 3, lat |-> LS4, off |-> 5, B |-> 13,  triple |-> TRUE],
          [n |-> 4, lat |-> LS6, off |-> 5, B |-> 13,  triple |-> FALSE],
          [n |-> 4, lat |-> LS4, off |-> 5, B |-> 13,  triple |-> TRUE],
          [n |-> 2, lat |-> LU,  off |-> 0, B |-> 101, triple |-> TRUE],
          [n |-> 3, lat |-> LU,  off |-> 0, B |-> 101, triple |-> FALSE],
          [n |-> 2, lat |-> LZ,  off |-> 5, B |-> 13,  triple |-> TRUE],
          [n |-> 3, lat |-> LZ,  off |-> 5, B |-> 13,  triple |-> TRUE],
          [n |-> 4, lat |-> LZ,  off |-> 5, B |-> 13,  triple |-> FALSE] >>
  ELSE << [n |-> 2, lat |-> LS,  off |-> 5, B |-> 13,  triple |-> FALSE],
          [n |-> 2, lat |-> LS5, off |-> 5, B |-> 13,  triple |-> TRUE],
          [n |-> 3, lat |-> LS,  off |-> 5, B |-> 13,  triple |-> FALSE],
          [n |-> 3, lat |-> LS4, off |-> 5, B |-> 13,  triple |-> TRUE],
          [n |-> 4, lat |-> LS5, off |-> 5, B |-> 13,  triple |-> FALSE],
          [n |-> 2, lat |-> LU,  off |-> 0, B |-> 101, triple |-> FALSE],
          [n |-> 3, lat |-> LU,  off |-> 0, B |-> 101, triple |-> FALSE],
          [n |-> 3, lat |-> LZ,  off |-> 5, B |-> 13,  triple |-> FALSE] >>
NC == Len(Configs)
VecsOf == [c \in 1..NC |-> DistinctVecs(Configs[c].lat, Configs[c].n)]

VARIABLES cfg, kind, a, b, c
vars == <<cfg, kind, a, b, c>>

Init == \E k \in 1..NC : \E x \in VecsOf[k] : cfg = k /\ kind = "one" /\ a = x /\ b = x /\ c = x
Next == \/ /\ kind = "one" /\ kind' = "pair"
           /\ \E y \in VecsOf[cfg] : b' = y
           /\ UNCHANGED <<cfg, a, c>>
        \/ /\ kind = "pair" /\ Configs[cfg].triple /\ kind' = "triple"
           /\ \E z \in VecsOf[cfg] : c' = z
           /\ UNCHANGED <<cfg, a, b>>
Spec == Init /\ [][Next]_vars

NoZero(v) == \A i \in DOMAIN v : v[i] # 0
S1 == a[1] + b[Len(b)]                  \* a scalar that varies with the state

OneLaws ==
  kind = "one" =>
    /\ LawUnary(a) /\ LawReductions(a) /\ LawArgMax(a) /\ LawIndexMaps(a)
    /\ LawLength(a) /\ LawNormalize(a) /\ LawRcp(a)
PairLaws ==
  kind = "pair" =>
    /\ LawLift2(a, b) /\ LawRing(a, b, S1) /\ LawMinMax(a, b)
    /\ (NoZero(b) => LawDivVec(a, b))
    /\ LawDot(a, b, Sub(b, a), S1)
    /\ LawCross(a, b)
    /\ LawCompare(a, b)
    /\ LawLessEncoding(a, b, Configs[cfg].off, Configs[cfg].B)
    /\ LawTernary(a, b, Neg(a))
TripleLaws ==
  kind = "triple" =>
    /\ LawLessTransitive(a, b, c)
    /\ LawTernary(a, b, c)
    /\ LawDot(a, b, c, S1)
    /\ LET f == <<a[1], b[2], c[1]>> IN LawInterpolate(f, a, b, c)

\* scalar laws (constant level)
ASSUME \A x \in -60..60 : \A y \in -9..9 : LawDivMod(x, y) /\ LawDivRoundUp(x, y)
\* the two scalar formulas rkmath.h has used for divRoundUp agree on positive operands (the specified domain) and only there
ASSUME \A x \in 1..60 : \A y \in 1..9 : DivRoundUpS(x, y) = DivS(x, y) + (IF ModS(x, y) > 0 THEN 1 ELSE 0)
ASSUME \E x \in -9..-1 : \E y \in 1..9 : DivRoundUpS(x, y) # DivS(x, y) + (IF ModS(x, y) > 0 THEN 1 ELSE 0)
ASSUME \A x \in -9..9 : \A lo \in -5..5 : \A hi \in -5..5 : LawClampS(x, lo, hi)
NarrowProbe == {-40000, -300, -256, -255, -1, 0, 1, 7, 200, 255, 256, 257, 40000}
ASSUME \A ty \in WrapTypes : \A x, y \in NarrowProbe : LawNarrow(ty, x, y)
ASSUME \A x, y \in NarrowProbe : LawNarrowMul("uc", x, y)
ASSUME \A x \in NarrowProbe : \A y \in {0, 1, 7, 200, 257} : LawNarrowMul("us", x, y) /\ LawNarrowMul("us", y, x)
ASSUME \A t, u \in Types : LawUAC(t, u)
\* compound assignment with a scalar of another type
ASSUME \A x \in -12..12 : \A p \in -9..9 : \A q \in {1, 2, 4} : LawCompoundQ(x, p, q)
\* ... and it is NOT "convert the scalar first": the two readings differ on the operands of the emitted cases
ASSUME CMulQS(10, 1, 2) = 5 /\ 10 * TruncQ(1, 2) = 0 /\ CDivQS(7, 5, 2) = 2 /\ DivS(7, TruncQ(5, 2)) = 3
ASSUME DivS(200, 300) = 0 /\ DivS(200, Narrow("uc", 300)) = 4 /\ ModS(200, 300) = 200 /\ ModS(200, Narrow("uc", 300)) = 24
\* integer promotion and the LP64 cases the drivers rely on
ASSUME UAC("uc", "c") = "i" /\ UAC("us", "uc") = "i" /\ UAC("ui", "i") = "ui" /\ UAC("ui", "l") = "l" /\ UAC("ul", "l") = "ul"
ASSUME UAC("i", "f") = "f" /\ UAC("l", "f") = "f" /\ UAC("f", "d") = "d" /\ UAC("s", "s") = "i"
\* the Pythagorean tuples used by the generator really are Pythagorean, and the lattice has distinct non-zero values
ASSUME \A v \in {<<3, 4>>, <<5, 12>>, <<2, 3, 6>>, <<1, 4, 8>>, <<2, 4, 5, 6>>, <<1, 2, 4, 10>>} : Pythagorean(v) /\ Distinct(v)
ASSUME 0 \notin LS /\ 0 \notin LU /\ Cardinality(LS) = 7
\* streaming: distinct vectors have distinct images (the order of the components is observable)
ASSUME Cardinality({Stream(v) : v \in DistinctVecs(LS4, 3)}) = Cardinality(DistinctVecs(LS4, 3))
ASSUME Stream(<<-5, 7, 1>>) = "(-5,7,1)" /\ StreamBytes(<<1, 2>>) = <<40, 1, 44, 2, 41>>
\* negative controls: the laws are not vacuous - a cross product with two components exchanged, a lexicographic
\* order that looks at the last component first, and flooring division are each rejected by the corresponding law
BadCross(x, y) == << x[2] * y[3] - x[3] * y[2], x[1] * y[2] - x[2] * y[1], x[3] * y[1] - x[1] * y[3] >>
ASSUME \E x, y \in DistinctVecs(LS4, 3) : Dot(BadCross(x, y), x) # 0
ASSUME \E x, y \in DistinctVecs(LS4, 2) : ~(((x[2] < y[2]) \/ (x[2] = y[2] /\ x[1] < y[1])) <=> EncodeTo(x, 2, 5, 13) < EncodeTo(y, 2, 5, 13))
ASSUME \E x \in -9..9 : \E y \in {-2, 2} : x # (x \div y) * y + ModS(x, y) \/ (x \div y) # DivS(x, y)
===============================================================================
