-------------------------- MODULE ScalarKernelsDistADT --------------------------
(* C07 - the random distributions of utility/random.h as ABSTRACT DATA TYPES.  *)
(*                                                                             *)
(* The property treats a distribution as a pure function ("values inside       *)
(* [lower, upper], reproducible from the seed").  An object of                 *)
(*   uniform_real_distribution<float / double>   has NO abstract state besides *)
(*       (lower, upper): Draw(o, G, n) hands it a generator of type G and      *)
(*       takes n values, each a function of (lower, upper, G::min(), G::max(), *)
(*       the generator's next output) only;                                    *)
(*   pcg32_biased_float_distribution   owns its generator: the only abstract   *)
(*       state is the NUMBER of values drawn so far (the position in the       *)
(*       stream of (seed, sequence)); a copy continues at its source's         *)
(*       position;                                                             *)
(*   makeRandomColor   is a function of its index (kind "color": the same      *)
(*       indices evaluated in different orders).                               *)
(* The state machine below therefore keeps, per object, only GHOST history     *)
(* (which generator types it has served, how often it drew, whether it is a    *)
(* copy): it determines nothing about the values - it names the class of the   *)
(* step (`cls`, part of a finding's signature) and, for the biased             *)
(* distribution, the stream position `skip` at which a FRESH object built from *)
(* the same arguments must produce the same values.  The contract of one step  *)
(* (ScalarKernelsValidate, record kind "dhist") is: the values of Draw on ANY  *)
(* reachable object equal the values of the same Draw on an object in its      *)
(* initial state fed an identically seeded generator (observational            *)
(* equivalence of every state with the initial one = no state), and each value *)
(* is the one the exact arithmetic of ScalarKernels!DrawValueOkV computes from *)
(* the generator's raw output.                                                 *)
(* TLC dumps the complete state graph of this module; histories (paths) are    *)
(* replayed by the driver on real objects, the recorded values judged by TLC.  *)
EXTENDS ScalarKernels, TLC

CONSTANTS NGen,        \* the first NGen generator types of ScalarKernels!GenNames are used
          MaxObj,      \* objects alive in one history
          MaxCount     \* values one biased distribution may have drawn

VARIABLES dkind, dobjs, last

Kinds  == {"urd_f", "urd_d", "biased", "color"}
Bursts == {1, 20}      \* draw counts of one Draw step
Fresh  == [served |-> [i \in 1..NGen |-> FALSE], count |-> 0, copy |-> FALSE]

TypeOK == /\ dkind \in Kinds
          /\ Len(dobjs) \in 1..MaxObj
          /\ \A o \in 1..Len(dobjs) : /\ dobjs[o].count \in 0..MaxCount
                                      /\ dobjs[o].copy \in BOOLEAN
                                      /\ \A i \in 1..NGen : dobjs[o].served[i] \in BOOLEAN
\* the ghost history is of the kind's own sort only (an object handed generators never counts, and conversely)
GhostOK == \A o \in 1..Len(dobjs) : /\ (dkind # "biased" => dobjs[o].count = 0)
                                    /\ (dkind \notin {"urd_f", "urd_d"} => \A i \in 1..NGen : ~dobjs[o].served[i])

\* class of a Draw on object o with generator type g, from the object's ghost history
ClassOfDraw(o, g) ==
  LET sv     == dobjs[o].served
      others == {i \in 1..NGen : sv[i] /\ GenNames[i] # g}
      base   == IF \A i \in 1..NGen : ~sv[i] THEN (IF dobjs[o].count = 0 THEN "fresh" ELSE "used")
                ELSE IF others = {} THEN "served-same-type"
                ELSE IF \E i \in others : ~SameGenRange(GenNames[i], g) THEN "served-other-range"
                ELSE "served-other-type-same-range"
  IN IF dobjs[o].copy THEN base \o ",copy" ELSE base

Init == /\ dkind \in Kinds
        /\ dobjs = <<Fresh>>
        /\ last = [a |-> "New", arg |-> [kind |-> dkind, obj |-> 1], cls |-> "-"]

DrawU(o, i, n) ==
  /\ dkind \in {"urd_f", "urd_d"}
  /\ dobjs' = [dobjs EXCEPT ![o].served[i] = TRUE]
  /\ last' = [a |-> "Draw", arg |-> [kind |-> dkind, obj |-> o, gen |-> GenNames[i], n |-> n, skip |-> 0], cls |-> ClassOfDraw(o, GenNames[i])]
DrawB(o, n) ==
  /\ dkind = "biased"
  /\ dobjs[o].count + n <= MaxCount
  /\ dobjs' = [dobjs EXCEPT ![o].count = @ + n]
  /\ last' = [a |-> "Draw", arg |-> [kind |-> dkind, obj |-> o, gen |-> "own", n |-> n, skip |-> dobjs[o].count], cls |-> ClassOfDraw(o, "own")]
CopyObj(o) ==
  /\ dkind # "color"
  /\ Len(dobjs) < MaxObj
  /\ dobjs' = Append(dobjs, [dobjs[o] EXCEPT !.copy = TRUE])
  /\ last' = [a |-> "Copy", arg |-> [kind |-> dkind, src |-> o, dst |-> Len(dobjs) + 1], cls |-> "-"]
NewObj ==
  /\ dkind # "color"
  /\ Len(dobjs) < MaxObj
  /\ dobjs' = Append(dobjs, Fresh)
  /\ last' = [a |-> "New", arg |-> [kind |-> dkind, obj |-> Len(dobjs) + 1], cls |-> "-"]
\* makeRandomColor on a block of indices in one of several orders (no object, no state)
Colors(order) ==
  /\ dkind = "color"
  /\ dobjs' = dobjs
  /\ last' = [a |-> "Colors", arg |-> [kind |-> dkind, order |-> order, n |-> 24], cls |-> order]

Next == \/ \E o \in 1..Len(dobjs) : \/ \E i \in 1..NGen, n \in Bursts : DrawU(o, i, n)
                                    \/ \E n \in Bursts : DrawB(o, n)
                                    \/ CopyObj(o)
        \/ NewObj
        \/ \E order \in {"up", "down", "stride7", "repeat"} : Colors(order)

Spec == Init /\ [][Next /\ dkind' = dkind]_<<dkind, dobjs, last>>

\* a copy starts with its source's ghost history (it IS a used object when its source was)
ASSUME NGen \in 1..Len(GenNames)
ASSUME SameGenRange("pcg32", "edge32") /\ SameGenRange("pcg32", "mt19937") /\ ~SameGenRange("pcg32", "mt19937_64") /\ ~SameGenRange("pcg32", "minstd_rand")
       /\ ~SameGenRange("pcg32", "ranlux24") /\ ~SameGenRange("minstd_rand", "ranlux24") /\ ~SameGenRange("own", "pcg32")
===============================================================================
