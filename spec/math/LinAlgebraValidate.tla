-------------------------- MODULE LinAlgebraValidate --------------------------
(* Code -> spec for results that are rational or defined by a law rather than  *)
(* uniquely.  The driver evaluated the real functions on cases emitted by      *)
(* LinAlgebraGen and recorded the results as integers scaled by SC = 2^14      *)
(* (fields "..._s", rounded to nearest, saturated); TLC decides here, for      *)
(* every record, whether the result satisfies its definition:                  *)
(*   Inverse2/3, Xfm3, AffXfm, AffInv, Aff2Pair: entries of inverse(),         *)
(*        xfmNormal, rcp are the rationals Adj / Det (NearRat);                *)
(*   Orthogonal2: the orthogonal polar factor (IsOrthogonalOfS);               *)
(*   Frame, FrameUp: orthonormal right-handed frame with third axis N, first   *)
(*        axis along up x N (IsFrameS / IsFrameUpS);                           *)
(*   Lookat: IsLookatS;   Slerp at t = 1/2: IsSlerpMidS;                       *)
(*   QuatRat: rotations with rational matrices num / den (NearRat).            *)
(* Input: IOEnv.C06_OBS (ndjson {id, a, arg, obs}); output: the rejected       *)
(* records as ndjson {id, a, reason} in IOEnv.OUT.                             *)
EXTENDS LinAlgebra, IOUtils, Json, SequencesExt

Obs == ndJsonDeserialize(IOEnv.C06_OBS)

\* quadratic predicates are only evaluated on entries small enough for 32-bit arithmetic (an orthonormal entry is <= SC)
RANGE == 20000
InRangeV(vs) == \A i \in 1..Len(vs) : Abs(vs[i]) <= RANGE
InRangeM(Ms) == \A i \in 1..Len(Ms) : InRangeV(Ms[i])

RcpOk(rs, x) == /\ NearRatM(rs.l, Adj(x.l), Det(x.l))
                /\ NearRatV(rs.p, VNeg(Apply(Adj(x.l), x.p)), Det(x.l))

\* "ok" or the reason of the rejection
Verdict(o) ==
  LET g == o.arg r == o.obs IN
  IF r.nan THEN "nan"
  ELSE CASE o.a \in {"Inverse2", "Inverse3"} ->
              IF NearRatM(r.inverse_s, Adj(g.m), Det(g.m)) /\ NearRatM(r.rcp_s, Adj(g.m), Det(g.m)) THEN "ok" ELSE "inverse-is-not-adjoint/det"
         [] o.a \in {"Xfm3"} ->
              IF \A k \in DOMAIN g.vs : NearRatV(r.normal_s[k], NormalNum(g.m, g.vs[k]), Det(g.m)) THEN "ok" ELSE "normal-is-not-inverse-transpose"
         [] o.a \in {"AffXfm"} ->
              IF \A k \in DOMAIN g.vs : NearRatV(r.normal_s[k], NormalNum(g.l, g.vs[k]), Det(g.l)) THEN "ok" ELSE "normal-is-not-inverse-transpose"
         [] o.a \in {"AffInv"} -> IF RcpOk(r.rcp_s, [l |-> g.l, p |-> g.p]) THEN "ok" ELSE "rcp-is-not-the-inverse-map"
         [] o.a \in {"Aff2Pair"} -> IF RcpOk(r.rcp_s, g.a) THEN "ok" ELSE "rcp-is-not-the-inverse-map"
         [] o.a = "Orthogonal2" -> IF ~InRangeM(r.q_s) THEN "out-of-range" ELSE IF IsOrthogonalOfS(r.q_s, g.m) THEN "ok" ELSE "not-the-closest-orthogonal-matrix"
         [] o.a = "Frame" -> IF ~InRangeM(r.m_s) THEN "out-of-range" ELSE IF IsFrameS(r.m_s, g.n) THEN "ok" ELSE "not-a-right-handed-orthonormal-frame-of-N"
         [] o.a = "FrameUp" -> IF ~InRangeM(r.m_s) THEN "out-of-range" ELSE IF IsFrameUpS(r.m_s, g.n, g.up) THEN "ok" ELSE "not-the-frame-of-N-and-up"
         [] o.a = "Lookat" -> IF ~InRangeM(r.l_s) THEN "out-of-range" ELSE IF IsLookatS(r.l_s, r.p_s, g.eye, g.point, g.up) THEN "ok" ELSE "not-the-lookat-frame"
         [] o.a = "QuatRat" ->
              IF ~NearRatM(r.m_s, g.num, g.den) THEN "matrix-quaternion-matrix-is-not-the-same-rotation"
              ELSE IF ~NearRatM(r.qm_s, g.num, g.den) \/ ~NearRatM(r.nm_s, g.num, g.den) THEN "matrix-of-quaternion-is-not-its-rotation" ELSE "ok"
         [] o.a = "Slerp" -> IF ~InRangeM(r.m_s) THEN "out-of-range" ELSE IF IsSlerpMidS(r.m_s, g.a, g.b) THEN "ok" ELSE "not-the-midpoint-rotation"
         [] OTHER -> "unknown-operation"

RejIdx == {k \in DOMAIN Obs : Verdict(Obs[k]) # "ok"}
RejSeq == LET s == SetToSeq(RejIdx) IN [k \in DOMAIN s |-> [id |-> Obs[s[k]].id, a |-> Obs[s[k]].a, reason |-> Verdict(Obs[s[k]])]]

ASSUME ndJsonSerialize(IOEnv.OUT, RejSeq)
ASSUME PrintT(<<"C06-VALIDATED", Len(Obs), "REJECTED", Cardinality(RejIdx)>>)
===============================================================================
