---------------------------- MODULE ScalarKernelsMC ----------------------------
(* Laws of the C07 specification itself, checked by TLC before the             *)
(* specification is used to judge anything recorded from the real code.        *)
(*                                                                             *)
(* 1. State space: EVERY ordered pair (x, r) of floats of the toy format       *)
(*    MB = 4, EB = 4 (512 patterns: zeros, denormals, normals, infinities,     *)
(*    NaNs - the same operators as binary32, instantiated with other           *)
(*    constants).  In this format every quantity fits a TLC integer, so each   *)
(*    limb-based decision of FloatBits / ScalarKernels is compared with the    *)
(*    same decision made by plain integer arithmetic (invariants below), the   *)
(*    order by bit pattern is compared with the order of values, and the       *)
(*    accuracy contracts are shown to be satisfiable (the nearest float to     *)
(*    1/x meets RcpOk at the format's precision) and not vacuous (a coarser    *)
(*    estimate does not).                                                      *)
(* 2. Constant level (ASSUME): limb arithmetic against integer arithmetic      *)
(*    across every digit boundary, binary32 anchors (known reciprocals, the    *)
(*    2^-20 boundary itself, an estimate without Newton-Raphson step), the pi  *)
(*    bracket against the decimal digits of pi, uniqueness of divRoundUp,      *)
(*    clamp, and negative controls of every table / stream law.                *)
EXTENDS Integers, Sequences, FiniteSets, TLC

T == INSTANCE ScalarKernels WITH MB <- 4, EB <- 4
K == INSTANCE ScalarKernels WITH MB <- 23, EB <- 8

Abs(n) == IF n < 0 THEN 0 - n ELSE n
P2(n) == T!Pow2Int(n)

\* =========================================================================================
\* 1. the toy format, exhaustively
\* =========================================================================================
NPAT == 512
CONSTANT XS                          \* the patterns of x explored (AllXS: every pattern; QuickXS: every class and exponent)
AllXS   == 0..(NPAT - 1)
OneXS == {17}
QuickXS == {e * 16 + f : e \in 0..15, f \in {0, 5, 15}} \cup {256 + e * 16 + f : e \in {0, 1, 7, 12, 14, 15}, f \in {0, 9}}
VARIABLES xb, rb                     \* patterns of x and r
vars == <<xb, rb>>
X == T!FromBits(xb)
R == T!FromBits(rb)

\* --- decisions by plain integer arithmetic (everything scaled by 2^10 = the smallest weight of the format)
SV(x) == (IF x.s = 1 THEN -1 ELSE 1) * T!Mant(x) * P2(T!Exp2(x) + 10)      \* value * 2^10, |.| <= 31 * 2^13
RcpDirect(x, r, tol) ==
  /\ T!IsFinite(r) /\ x.s = r.s
  /\ LET p == T!Mant(x) * T!Mant(r)
         e == T!Exp2(x) + T!Exp2(r)
     IN p # 0 /\ (IF e >= 0 THEN p = 1 /\ e = 0
                  ELSE Abs(p - P2(0 - e)) * P2(tol) <= P2(0 - e))
RsqrtDirect(x, r, tol) ==
  /\ T!IsFinite(r) /\ r.s = 0 /\ x.s = 0
  /\ LET q == T!Mant(r) * T!Mant(r) * T!Mant(x)
         e == 2 * T!Exp2(r) + T!Exp2(x) + 2 * tol
         lo == (P2(tol) - 1) * (P2(tol) - 1)
         hi == (P2(tol) + 1) * (P2(tol) + 1)
     IN q # 0 /\ (IF e > 11 THEN FALSE
                  ELSE IF e >= 0 THEN lo <= q * P2(e) /\ q * P2(e) <= hi
                  ELSE lo * P2(0 - e) <= q /\ q <= hi * P2(0 - e))
PatIndex(x) == IF x.s = 1 THEN 0 - 1 - T!Mag(x) ELSE T!Mag(x)               \* position in -inf .. -0, +0 .. +inf

\* r runs through its 512 patterns in 16 independent chunks (so that TLC's workers share the work)
Init == xb \in XS /\ rb \in {32 * c : c \in 0..15}
Next == rb % 32 # 31 /\ rb' = rb + 1 /\ xb' = xb
Spec == Init /\ [][Next]_vars

TypeOK == T!IsFloat(X) /\ T!IsFloat(R) /\ T!FromBits(T!ToBits(X)) = X /\ T!ToBits(X) = xb
\* decode / encode round trip through the exact value
RoundTrip == T!IsFinite(X) => (/\ T!Representable(T!Mant(X), T!Exp2(X))
                               /\ T!Encode(X.s = 1, T!Mant(X), T!Exp2(X)) = X)
\* exact arithmetic on values = integer arithmetic
BothFinite == T!IsFinite(X) /\ T!IsFinite(R)
SDAgrees == BothFinite =>
  /\ T!SDEq(T!SDAdd(T!Val(X), T!Val(R)), T!SDScale(T!SDInt(SV(X) + SV(R)), -10))
  /\ T!SDEq(T!SDSub(T!Val(X), T!Val(R)), T!SDScale(T!SDInt(SV(X) - SV(R)), -10))
  /\ (T!SDLessEq(T!Val(X), T!Val(R)) <=> SV(X) <= SV(R))
  /\ (T!SDLess(T!Val(X), T!Val(R)) <=> SV(X) < SV(R))
  /\ T!SDSign(T!Val(X)) = (IF SV(X) < 0 THEN -1 ELSE IF SV(X) = 0 THEN 0 ELSE 1)
\* the order of bit patterns is the order of values (infinities included), neighbours are neighbours
OrderAgrees ==
  /\ BothFinite => ((T!ValLessEq(X, R) <=> SV(X) <= SV(R)) /\ (T!SameValue(X, R) <=> SV(X) = SV(R)))
  /\ (~T!IsNaN(X) /\ ~T!IsNaN(R)) =>
        /\ (T!IsInf(R) /\ R.s = 0) => T!ValLessEq(X, R)
        /\ (T!IsInf(X) /\ X.s = 1) => T!ValLessEq(X, R)
        /\ (T!WithinOneStep(X, R) <=> Abs(T!Key(X) - T!Key(R)) <= 1)
        /\ (T!IsNextPattern(X, R) <=> PatIndex(R) = PatIndex(X) + 1)
        /\ (T!PatLessEq(X, R) <=> PatIndex(X) <= PatIndex(R))
\* the accuracy contracts decided on limbs = decided on integers, for every tolerance used
RcpAgrees   == T!IsFinite(X) => \A tol \in {3, 5} : T!RcpOk(X, R, tol) <=> RcpDirect(X, R, tol)
RsqrtAgrees == (T!IsFinite(X) /\ X.s = 0 /\ ~T!IsZero(X)) => \A tol \in {3, 4} : T!RsqrtOk(X, R, tol) <=> RsqrtDirect(X, R, tol)
Sgn(n) == IF n < 0 THEN -1 ELSE IF n = 0 THEN 0 ELSE 1
RcpSafeAgrees == T!IsFinite(X) => (T!RcpSafeOk(X, R) <=> (T!IsFinite(R) /\ Sgn(SV(X)) * Sgn(SV(R)) >= 0))
\* in the stated domain some float (the nearest to 1/x) meets the contract at the format's precision 2^-(MB+1), and
\* the contract tells it from a coarser estimate (some float is within 2^-3 but not within 2^-5); evaluated once per x (at rb = 1: a state TLC's workers process in parallel)
Satisfiable == (rb = 1 /\ T!InKernelDomain(X)) => \E b \in 0..(NPAT - 1) : T!RcpOk(X, T!FromBits(b), 5)
NotVacuous  == (rb = 1 /\ T!InKernelDomain(X) /\ X.f # 0) =>
                  \E b \in 0..(NPAT - 1) : T!RcpOk(X, T!FromBits(b), 3) /\ ~T!RcpOk(X, T!FromBits(b), 5)
\* sign / clamp on every pair
SignLaw  == ~T!IsNaN(X) => /\ T!SignOk(X, T!SignDef(X))
                           /\ (T!SignDef(X) = T!MinusOne <=> (T!IsFinite(X) /\ SV(X) < 0) \/ (T!IsInf(X) /\ X.s = 1))
                           /\ ~T!SignOk(X, IF T!SignDef(X) = T!PlusOne THEN T!MinusOne ELSE T!PlusOne)
ClampLaw == (BothFinite /\ SV(X) <= SV(R)) =>
              \A yb \in {0, 1, 16, 100, 239, 256, 257, 300, 400, 495} :       \* a third operand from every class
                 LET Y == T!FromBits(yb)
                     ref == IF SV(Y) < SV(X) THEN X ELSE IF SV(Y) > SV(R) THEN R ELSE Y
                 IN /\ T!ClampOk(Y, X, R, ref)
                    /\ (SV(X) < SV(R) /\ SV(Y) = SV(R)) => ~T!ClampOk(Y, X, R, X)      \* "returns lower when x = upper"
                    /\ (SV(Y) < SV(X) \/ SV(Y) > SV(R)) => ~T!ClampOk(Y, X, R, Y)      \* "returns x unclamped"

\* =========================================================================================
\* 2. constant-level laws
\* =========================================================================================
\* --- limbs ---
Near(n) == {m \in (n - 2)..(n + 2) : m >= 0}
Small == Near(0) \cup Near(K!BASE) \cup Near(2 * K!BASE) \cup Near(46340) \cup {12345, 65535, 65536, 99999}
Mid   == Near(K!BASE * K!BASE) \cup Near(1000000000) \cup {16777215, 16777216, 8388608, 2147483647 - 70000, 123456789}
L(n)  == K!FromInt(n)
ASSUME \A n \in Small \cup Mid \cup {2147483647} : K!IsLimbs(L(n)) /\ K!FitsInt(L(n)) /\ K!ToInt(L(n)) = n
ASSUME \A x \in Small \cup Mid, y \in Small \cup Mid :
          /\ x <= 2147483647 - y => (K!IsLimbs(K!Add(L(x), L(y))) /\ K!ToInt(K!Add(L(x), L(y))) = x + y)
          /\ x >= y => (K!IsLimbs(K!Sub(L(x), L(y))) /\ K!ToInt(K!Sub(L(x), L(y))) = x - y)
          /\ (K!Less(L(x), L(y)) <=> x < y) /\ (K!LessEq(L(x), L(y)) <=> x <= y)
\* the limb product is exact wherever the direct product fits
ASSUME \A x \in Small, y \in Small :
          x <= 2147483647 \div (y + 1) => (K!IsLimbs(K!Mul(L(x), L(y))) /\ K!ToInt(K!Mul(L(x), L(y))) = x * y)
ASSUME \A x \in {0, 1, 3, 5, 12345, 32767, 32768, 65535}, n \in 0..15 :
          K!ToInt(K!ShiftLeft(L(x), n)) = x * K!Pow2Int(n) /\ K!ShiftLeft(L(x), n) = K!Mul(L(x), K!Pow2L(n))
ASSUME \A n \in 0..30 : K!Pow2L(n) = L(K!Pow2Int(n))
ASSUME \A n \in {31, 32, 45, 47, 48, 60, 72, 100, 149, 277} :
          /\ K!IsLimbs(K!Pow2L(n)) /\ K!Pow2L(n) = K!Mul(K!Pow2L(n - 30), K!Pow2L(30))
          /\ K!ShiftLeft(L(16777215), n) = K!Mul(L(16777215), K!Pow2L(n))
          /\ K!Sub(K!Add(K!Pow2L(n), L(12345)), K!Pow2L(n)) = L(12345)
          /\ K!Sub(K!Pow2L(n), K!One) = K!Add(K!Sub(K!Pow2L(n - 1), K!One), K!Pow2L(n - 1))
\* 24-bit x 24-bit and 24 x 24 x 24-bit products (the widths RcpOk / RsqrtOk need), anchored: (2^24-1)^2 = 2^48 - 2^25 + 1
ASSUME K!Add(K!Mul(L(16777215), L(16777215)), K!Pow2L(25)) = K!Add(K!Pow2L(48), K!One)
ASSUME K!Mul(K!Mul(L(16777216), L(16777216)), L(16777216)) = K!Pow2L(72)
Big == {K!Mul(L(x), L(y)) : x \in {65536, 2147483647, 16777215, 8388609}, y \in {65537, 2147483647, 16777213, 3}}
ASSUME \A a \in Big, b \in Big : K!IsLimbs(K!Add(a, b)) /\ K!IsLimbs(K!Mul(a, b)) /\ K!Add(a, b) = K!Add(b, a) /\ K!Mul(a, b) = K!Mul(b, a)
                                /\ K!Sub(K!Add(a, b), b) = a
ASSUME \A a \in Big, b \in Big, c \in {L(7), L(2147483647), K!Pow2L(32)} :
          /\ K!Mul(K!Add(a, b), c) = K!Add(K!Mul(a, c), K!Mul(b, c))
          /\ K!Mul(K!Mul(a, b), c) = K!Mul(a, K!Mul(b, c))
          /\ K!Less(a, K!Add(a, c)) /\ ~K!Less(K!Add(a, c), a)
ASSUME K!Dec4(<<21, 4748, 3647>>) = L(2147483647) /\ K!Dec4(<<1, 0, 0>>) = L(100000000)

\* --- binary32: halves, classes, order ---
F(hi, lo) == K!FromHalves(<<hi, lo>>)
SampleHi == {0, 1, 127, 128, 129, 255, 256, 16256, 16383, 16384, 32511, 32512, 32513, 32639, 32640, 32641, 32767,
             32768, 32769, 32896, 49024, 65279, 65280, 65281, 65407, 65408, 65409, 65535}
SampleLo == {0, 1, 2, 32767, 32768, 65534, 65535}
ASSUME \A hi \in SampleHi, lo \in SampleLo : K!IsFloat(F(hi, lo)) /\ K!ToHalves(F(hi, lo)) = <<hi, lo>>
ASSUME \A hi \in SampleHi, lo \in SampleLo : LET x == F(hi, lo) IN
          K!IsFinite(x) => (K!Representable(K!Mant(x), K!Exp2(x)) /\ K!Encode(x.s = 1, K!Mant(x), K!Exp2(x)) = x)
ASSUME K!ClassOf(F(0, 0)) = "zero" /\ K!ClassOf(F(32768, 0)) = "zero" /\ K!ClassOf(F(0, 1)) = "denormal" /\ K!ClassOf(F(127, 65535)) = "denormal"
       /\ K!ClassOf(F(128, 0)) = "normal" /\ K!ClassOf(F(32639, 65535)) = "normal" /\ K!ClassOf(F(32640, 0)) = "inf" /\ K!ClassOf(F(65408, 0)) = "inf"
       /\ K!ClassOf(F(32640, 1)) = "nan" /\ K!ClassOf(F(65535, 65535)) = "nan"
ASSUME K!PlusOne = F(16256, 0) /\ K!MinusOne = F(49024, 0) /\ K!Encode(FALSE, 3, -1) = F(16320, 0)
ASSUME K!Encode(FALSE, 1, -149) = F(0, 1) /\ K!Encode(FALSE, 1, -126) = F(128, 0) /\ K!Encode(FALSE, 16777215, 104) = F(32639, 65535)
       /\ ~K!Representable(16777217, 0) /\ K!Representable(16777218, 0) /\ ~K!Representable(1, -150) /\ ~K!Representable(1, 128)
\* order of patterns = order of exact values on the finite samples
Fin == {F(hi, lo) : hi \in SampleHi \ {32640, 32641, 32767, 65408, 65409, 65535}, lo \in {0, 1, 65535}}
ASSUME \A x \in Fin, y \in Fin : (K!ValLessEq(x, y) <=> K!SDLessEq(K!Val(x), K!Val(y))) /\ (K!SameValue(x, y) <=> K!SDEq(K!Val(x), K!Val(y)))
ASSUME K!WithinOneStep(F(32768, 1), F(0, 0)) /\ K!WithinOneStep(F(32768, 0), F(0, 1)) /\ ~K!WithinOneStep(F(32768, 1), F(0, 1))
       /\ K!WithinOneStep(F(32639, 65535), F(32640, 0)) /\ ~K!WithinOneStep(F(32639, 65534), F(32640, 0)) /\ ~K!WithinOneStep(F(32640, 0), F(65408, 0))
ASSUME K!IsNextPattern(F(32768, 0), F(0, 0)) /\ K!IsNextPattern(F(32768, 1), F(32768, 0)) /\ K!IsNextPattern(F(0, 65535), F(1, 0))
       /\ K!IsNextPattern(F(65408, 0), F(65407, 65535)) /\ ~K!IsNextPattern(F(0, 0), F(32768, 0)) /\ ~K!IsNextPattern(F(0, 0), F(0, 2))

\* --- binary32: the accuracy contracts on known values ---
One32 == F(16256, 0)
ASSUME K!RcpOk(One32, One32, 20) /\ K!RcpOk(F(16384, 0), F(16128, 0), 20) /\ K!RcpOk(F(49216, 0), F(48810, 43691), 20)   \* 1/2 ; 1/-3 = bf aaaa ab
       /\ ~K!RcpOk(F(49216, 0), F(16042, 43691), 20)                                 \* wrong sign
       /\ K!RcpOk(F(16448, 0), F(16042, 43691), 20)                                  \* 1/3 = 3eaaaaab
       /\ K!RcpOk(F(16448, 0), F(16042, 43691 + 10), 20) /\ ~K!RcpOk(F(16448, 0), F(16042, 43691 + 11), 20)   \* 3 * (aaaaab + n) * 2^-25 - 1 = (1 + 3n) * 2^-25 <= 32 * 2^-25 iff n <= 10
       /\ ~K!RcpOk(One32, F(0, 0), 20) /\ ~K!RcpOk(One32, F(32640, 0), 20) /\ ~K!RcpOk(One32, F(32704, 0), 20)
\* the bound itself: 1 + 2^-20 is accepted, the next float is not; an estimate without Newton-Raphson step (relative error
\* 2^-12, what rcpss / rsqrtss alone guarantee) is rejected; 1 - 2^-20 accepted, the float below it is not
ASSUME K!RcpOk(One32, F(16256, 8), 20) /\ ~K!RcpOk(One32, F(16256, 9), 20) /\ ~K!RcpOk(One32, F(16256, 2048), 20) /\ ~K!RcpOk(One32, F(16255, 65535 - 4095), 20)
       /\ K!RcpOk(One32, F(16255, 65535 - 15), 20) /\ ~K!RcpOk(One32, F(16255, 65535 - 16), 20)
\* ends of the stated range
ASSUME K!InKernelDomain(F(128, 0)) /\ ~K!InKernelDomain(F(127, 65535)) /\ K!InKernelDomain(F(32383, 65535)) /\ ~K!InKernelDomain(F(32384, 0))
       /\ K!RcpOk(F(128, 0), F(32384, 0), 20) /\ K!RcpOk(F(32256, 0), F(256, 0), 20)          \* 1/2^-126 = 2^126 ; 1/2^125 = 2^-125
\* rsqrt: 1/sqrt(4) = 0.5, 1/sqrt(2) = 3f3504f3, the bound (1 + 2^-20)^2 itself, no Newton-Raphson step, r <= 0
ASSUME K!RsqrtOk(F(16512, 0), F(16128, 0), 20) /\ K!RsqrtOk(F(16384, 0), F(16181, 1267), 20) /\ ~K!RsqrtOk(F(16384, 0), F(16181, 1267 + 20), 20)
       /\ K!RsqrtOk(One32, F(16256, 8), 20) /\ ~K!RsqrtOk(One32, F(16256, 9), 20) /\ ~K!RsqrtOk(One32, F(16256, 2048), 20)
       /\ ~K!RsqrtOk(One32, F(49024, 0), 20) /\ ~K!RsqrtOk(One32, F(0, 0), 20) /\ ~K!RsqrtOk(One32, F(32640, 0), 20)
       /\ K!RsqrtOk(F(128, 0), F(24320, 0), 20) /\ K!RsqrtOk(F(32256, 0), F(8245, 1267), 20)     \* 2^-126 -> 2^63 ; 2^125 -> 2^-63 * sqrt(2)
\* rcp_safe: finite and not of the opposite sign; zeros are of no sign
ASSUME K!RcpSafeOk(F(0, 0), F(32384, 0)) /\ K!RcpSafeOk(F(32768, 0), F(32384, 0)) /\ K!RcpSafeOk(F(32768, 0), F(65152, 0))
       /\ K!RcpSafeOk(F(32768, 1), F(65152, 0)) /\ ~K!RcpSafeOk(F(32768, 1), F(32384, 0)) /\ ~K!RcpSafeOk(F(0, 1), F(65152, 0))
       /\ ~K!RcpSafeOk(F(0, 0), F(32640, 0)) /\ ~K!RcpSafeOk(F(0, 1), F(32704, 0)) /\ K!RcpSafeOk(F(32639, 65535), F(32768, 0))

\* --- pi ---
D20   == K!Dec4(<<3, 1415, 9265, 3589, 7932, 3846>>)            \* floor(pi * 10^20)
Ten20 == K!Dec4(<<1, 0, 0, 0, 0, 0>>)
ASSUME K!IsLimbs(K!PiLoM)
\* PiLo <= D20 / 10^20 < pi < (D20 + 1) / 10^20 <= PiHi
ASSUME K!LessEq(K!Mul(K!PiLoM, Ten20), K!Mul(D20, K!Pow2L(60)))
ASSUME K!LessEq(K!Mul(K!Add(D20, K!One), K!Pow2L(60)), K!Mul(K!Add(K!PiLoM, K!One), Ten20))
\* 223/71 < PiLo, PiHi < 22/7 (Archimedes); 333/106 < PiLo, PiHi < 355/113 (Zu Chongzhi)
ASSUME K!Less(K!Mul(L(223), K!Pow2L(60)), K!Mul(K!PiLoM, L(71))) /\ K!Less(K!Mul(K!Add(K!PiLoM, K!One), L(7)), K!Mul(L(22), K!Pow2L(60)))
ASSUME K!Less(K!Mul(L(333), K!Pow2L(60)), K!Mul(K!PiLoM, L(106))) /\ K!Less(K!Mul(K!Add(K!PiLoM, K!One), L(113)), K!Mul(L(355), K!Pow2L(60)))
\* deg2rad(180) = pi: 40490fdb accepted, four steps away rejected; deg2rad(1) = 3c8efa35; sign; zero
ASSUME K!Deg2RadOk(F(17204, 0), F(16457, 4059)) /\ ~K!Deg2RadOk(F(17204, 0), F(16457, 4063)) /\ ~K!Deg2RadOk(F(17204, 0), F(16457, 4055))
       /\ K!Deg2RadOk(One32, F(15502, 64053)) /\ ~K!Deg2RadOk(One32, F(48270, 64053)) /\ K!Deg2RadOk(F(49024, 0), F(48270, 64053))
       /\ K!Deg2RadOk(F(0, 0), F(0, 0)) /\ ~K!Deg2RadOk(F(0, 0), One32) /\ ~K!Deg2RadOk(One32, One32)
\* a product below the normal range: within one denormal step (the smallest denormal times pi/180 rounds to zero)
ASSUME K!Deg2RadOk(F(0, 1), F(0, 0)) /\ K!Deg2RadOk(F(0, 1), F(0, 1)) /\ ~K!Deg2RadOk(F(0, 1), F(0, 2)) /\ K!Deg2RadOk(F(32768, 1), F(32768, 0))
       /\ K!Deg2RadOk(F(32768, 1), F(0, 0)) /\ ~K!Deg2RadOk(F(32768, 1), F(0, 2))

\* --- madd / lerp: exact results are accepted, a result one part in 2^18 off is not ---
Two32 == F(16384, 0)
ASSUME K!MaddOk(Two32, F(16448, 0), One32, F(16608, 0)) /\ ~K!MaddOk(Two32, F(16448, 0), One32, F(16608, 16)) /\ ~K!MaddOk(Two32, F(16448, 0), One32, F(16576, 0))
ASSUME K!LerpOk(F(16000, 0), Two32, F(16512, 0), F(16416, 0)) /\ ~K!LerpOk(F(16000, 0), Two32, F(16512, 0), F(16416, 64))    \* lerp(1/4, 2, 4) = 2.5
       /\ ~K!LerpOk(F(16000, 0), Two32, F(16512, 0), F(16480, 0))                                                           \* 3.5 = lerp with a and b exchanged

\* --- divRoundUp: the definition has exactly one solution; the closed form is it; wide operands ---
ASSUME \A a \in 0..40, b \in 1..12 :
          /\ Cardinality({q \in -2..(a + 2) : K!IsDivRoundUpInt(a, b, q)}) = 1
          /\ K!IsDivRoundUpInt(a, b, K!DivRoundUpInt(a, b))
          /\ \A q \in -1..(a + 1) : K!IsDivRoundUp(K!SDInt(a), K!SDInt(b), K!SDInt(q)) <=> K!IsDivRoundUpInt(a, b, q)
U32Max == K!SD(FALSE, K!Sub(K!Pow2L(32), K!One), 0)
ASSUME K!DruOk(U32Max, K!SDInt(2), K!SD(FALSE, K!Pow2L(31), 0)) /\ ~K!DruOk(U32Max, K!SDInt(2), K!SDInt(0))      \* (a + b - 1) wrapped
       /\ ~K!DruOk(K!SDInt(2147483647), K!SDInt(2), K!SD(TRUE, K!Pow2L(30), 0)) /\ K!DruOk(K!SDInt(2147483647), K!SDInt(2), K!SD(FALSE, K!Pow2L(30), 0))
       /\ K!DruOk(K!SDInt(-1), K!SDInt(2), K!SDInt(77)) /\ K!DruOk(K!SDInt(1), K!SDInt(0), K!SDInt(77))               \* not stated
\* --- clamp on integers ---
ASSUME \A x \in -3..3, lo \in -3..3, hi \in -3..3 :
          /\ lo <= hi => K!ZClampOk(K!SDInt(x), K!SDInt(lo), K!SDInt(hi), K!SDInt(K!ClampInt(x, lo, hi)))
          /\ (lo < hi /\ x = hi) => ~K!ZClampOk(K!SDInt(x), K!SDInt(lo), K!SDInt(hi), K!SDInt(lo))
          /\ (lo <= hi /\ x > hi) => ~K!ZClampOk(K!SDInt(x), K!SDInt(lo), K!SDInt(hi), K!SDInt(x))
          /\ lo > hi => K!ZClampOk(K!SDInt(x), K!SDInt(lo), K!SDInt(hi), K!SDInt(99))
ASSUME K!ClampOk(F(32768, 0), F(0, 0), One32, F(32768, 0)) /\ K!ClampOk(F(32768, 0), F(0, 0), One32, F(0, 0))       \* -0 in [0,1]: either zero
       /\ ~K!ClampOk(F(32768, 0), F(0, 0), One32, F(0, 1)) /\ K!ClampOk(F(32704, 0), F(0, 0), One32, F(32704, 0))   \* NaN: not stated
       /\ K!ClampOk(F(32640, 0), F(0, 0), One32, One32) /\ ~K!ClampOk(F(32640, 0), F(0, 0), One32, F(32640, 0))

\* --- packing laws: a correct table is accepted, every kind of wrong table is refuted ---
Run(a, b, v) == [from |-> a, to |-> b, v |-> v]
\* f(x) = 0 for x < 0.5, 128 for 0.5 <= x < 1, 255 from 1: three runs over all patterns; 0.5 = 3f000000, below it 3effffff
Good == <<Run(<<65408, 0>>, <<16127, 65535>>, 0), Run(<<16128, 0>>, <<16255, 65535>>, 128), Run(<<16256, 0>>, <<32640, 0>>, 255)>>
ASSUME K!RunFailures(Good) = {}
ASSUME K!RunFailures(<<Good[1], Run(<<16128, 0>>, <<16255, 65535>>, 255), Run(<<16256, 0>>, <<32640, 0>>, 254)>>) = {"monotone", "saturate-high"}
ASSUME K!RunFailures(<<Good[1], Run(<<16128, 0>>, <<16255, 65534>>, 128), Good[3]>>) = {"cover"}              \* one pattern missing
ASSUME K!RunFailures(<<Good[1], Good[2]>>) = {"cover"}
ASSUME K!RunFailures(<<Run(<<65408, 0>>, <<32768, 1>>, 1), Run(<<32768, 0>>, <<16255, 65535>>, 128), Good[3]>>) = {"saturate-low"}
ASSUME K!RunFailures(<<Good[1], Good[2], Run(<<16256, 0>>, <<16256, 0>>, 255), Run(<<16256, 1>>, <<32640, 0>>, 510)>>) = {"byte-range", "saturate-high"}
ASSUME K!RunFailures(<<Good[1], Run(<<16128, 0>>, <<16200, 0>>, 128), Run(<<16200, 1>>, <<16200, 1>>, 127), Run(<<16200, 2>>, <<16255, 65535>>, 128), Good[3]>>) = {"monotone"}
Fam(x, ws) == [x |-> x, w |-> ws]
GoodTab == <<Fam(<<0, 0>>, <<<<9, 2304>>, <<7, 256>>>>), Fam(<<16128, 0>>, <<<<9, 2432>>, <<77, 128>>>>), Fam(<<16256, 0>>, <<<<9, 2559>>, <<0, 255>>>>)>>   \* channel 1
ASSUME K!ChanFailures(1, GoodTab) = {} /\ K!Byte(<<258, 772>>, 1) = 4 /\ K!Byte(<<258, 772>>, 2) = 3 /\ K!Byte(<<258, 772>>, 3) = 2 /\ K!Byte(<<258, 772>>, 4) = 1
ASSUME K!ChanFailures(1, <<GoodTab[1], Fam(<<16128, 0>>, <<<<9, 2432>>, <<77, 129>>>>), GoodTab[3]>>) = {"per-channel"}         \* another channel leaks into byte 1
ASSUME K!ChanFailures(2, GoodTab) = {"per-channel", "saturate-low", "saturate-high"}                                            \* byte 2 is constant 9 / 1 / 0
ASSUME K!ChanFailures(1, <<GoodTab[2], GoodTab[1], GoodTab[3]>>) = {"unsorted", "monotone"}
ASSUME K!ChanFailures(1, <<GoodTab[1], GoodTab[2], Fam(<<16256, 0>>, <<<<9, 2558>>, <<0, 254>>>>)>>) = {"saturate-high"}
OtherTab == <<Fam(<<0, 0>>, <<<<0, 0>>, <<0, 0>>>>), Fam(<<16256, 0>>, <<<<65535, 65535>>, <<65535, 65535>>>>)>>
Tabs4 == <<GoodTab, OtherTab, OtherTab, OtherTab>>
Vec(ix, w) == [v |-> <<<<16128, 0>>, <<16256, 0>>, <<0, 0>>, <<16256, 0>>>>, ix |-> ix, w |-> w]          \* (0.5, 1, 0, 1) -> ff 00 ff 80
ASSUME K!VecOk(Tabs4, Vec(<<2, 2, 1, 2>>, <<65280, 65408>>))
       /\ ~K!VecOk(Tabs4, Vec(<<2, 2, 1, 2>>, <<65280, 65409>>)) /\ ~K!VecOk(Tabs4, Vec(<<2, 2, 1, 2>>, <<65281, 65408>>))   \* a byte off
       /\ ~K!VecOk(Tabs4, Vec(<<2, 2, 1, 2>>, <<65280, 33152>>))                                                         \* channels x and y exchanged
       /\ ~K!VecOk(Tabs4, Vec(<<3, 2, 1, 2>>, <<65280, 65408>>)) /\ ~K!VecOk(Tabs4, Vec(<<2, 2, 1, 9>>, <<65280, 65408>>))   \* the position claim is checked

\* --- binary64 patterns (quarters) and the double / integer instantiations ---
DOne == <<16368, 0, 0, 0>>                                                                  \* 3ff0 0000 0000 0000
ASSUME K!IsQuarters(DOne) /\ K!SDEq(K!D64Val(DOne), K!SDOne) /\ K!D64Val(DOne).m = K!Pow2L(52) /\ K!D64Class(DOne) = "normal"
ASSUME K!SDEq(K!D64Val(<<0, 0, 0, 1>>), K!SDPow2(-1074)) /\ K!D64Class(<<0, 0, 0, 1>>) = "denormal" /\ K!D64Class(<<32768, 0, 0, 0>>) = "zero"
       /\ K!D64Class(<<32752, 0, 0, 0>>) = "inf" /\ K!D64Class(<<32760, 0, 0, 0>>) = "nan" /\ ~K!D64IsFinite(<<65520, 0, 0, 0>>)
       /\ K!SDEq(K!D64Val(<<49144, 0, 0, 0>>), K!SDScale(K!SDInt(-3), -1))                  \* bff8... = -1.5
       /\ K!SDEq(K!D64Val(<<32751, 65535, 65535, 65535>>), K!SD(FALSE, K!Sub(K!Pow2L(53), K!One), 971))   \* DBL_MAX
       /\ K!SDEq(K!D64Val(<<15, 65535, 65535, 65535>>), K!SD(FALSE, K!Sub(K!Pow2L(52), K!One), -1074))    \* largest denormal
\* a binary32 pattern and its widening to binary64 are the same number: 1/3f = 3eaaaaab = 3fd5555560000000, FLT_MAX = 47efffffe0000000
ASSUME K!SDEq(K!Val(F(16042, 43691)), K!D64Val(<<16341, 21845, 24576, 0>>)) /\ K!SDEq(K!Val(F(32639, 65535)), K!D64Val(<<18415, 65535, 57344, 0>>))
\* deg2rad<double>(180) = 400921fb54442d18: accepted, also 2 units away; 16 units away (2^-48.6 relative) is not
ASSUME K!Deg2RadD64Ok(<<16486, 32768, 0, 0>>, <<16393, 8699, 21572, 11544>>) /\ K!Deg2RadD64Ok(<<16486, 32768, 0, 0>>, <<16393, 8699, 21572, 11546>>)
       /\ ~K!Deg2RadD64Ok(<<16486, 32768, 0, 0>>, <<16393, 8699, 21572, 11560>>) /\ ~K!Deg2RadD64Ok(<<16486, 32768, 0, 0>>, <<49161, 8699, 21572, 11544>>)
       /\ K!Deg2RadD64Ok(<<0, 0, 0, 1>>, <<0, 0, 0, 0>>) /\ ~K!Deg2RadD64Ok(<<0, 0, 0, 1>>, <<0, 0, 0, 2>>)
\* lerp<double>(0.25f, 2, 4) = 2.5 = 4004...; 3.5 (operands exchanged) and 2.5 + 2^-19 are not (2.5 + 2^-20 is inside the bound 2.5 * 2^-21)
ASSUME K!LerpD64Ok(F(16000, 0), <<16384, 0, 0, 0>>, <<16400, 0, 0, 0>>, <<16388, 0, 0, 0>>) /\ ~K!LerpD64Ok(F(16000, 0), <<16384, 0, 0, 0>>, <<16400, 0, 0, 0>>, <<16396, 0, 0, 0>>)
       /\ K!LerpD64Ok(F(16000, 0), <<16384, 0, 0, 0>>, <<16400, 0, 0, 0>>, <<16388, 0, 32768, 0>>) /\ ~K!LerpD64Ok(F(16000, 0), <<16384, 0, 0, 0>>, <<16400, 0, 0, 0>>, <<16388, 1, 0, 0>>) /\ ~K!LerpD64Ok(F(16000, 0), <<16384, 0, 0, 0>>, <<16400, 0, 0, 0>>, <<32752, 0, 0, 0>>)
\* an overflowing evaluation is not stated: lerp<double>(1.5f, 0, DBL_MAX) = inf; madd(FLT_MAX, 2, 0) = inf; but an infinity where nothing overflows is rejected
ASSUME K!LerpD64Ok(F(16320, 0), <<0, 0, 0, 0>>, <<32751, 65535, 65535, 65535>>, <<32752, 0, 0, 0>>) /\ K!MaddOk(F(32639, 65535), Two32, F(0, 0), F(32640, 0))
       /\ ~K!MaddOk(Two32, F(16448, 0), One32, F(32640, 0)) /\ ~K!LerpOk(F(16000, 0), Two32, F(16512, 0), F(32640, 0))
       /\ K!LerpOk(F(16320, 0), F(0, 0), F(32639, 65535), F(32640, 0))
\* rcp_safe(double): zeros are of no sign; a negative denormal must not give a positive result; infinities are not finite
ASSUME K!RcpSafeD64Ok(<<32768, 0, 0, 0>>, <<32736, 0, 0, 0>>) /\ ~K!RcpSafeD64Ok(<<32768, 0, 0, 1>>, <<32736, 0, 0, 0>>) /\ K!RcpSafeD64Ok(<<32768, 0, 0, 1>>, <<65504, 0, 0, 0>>)
       /\ ~K!RcpSafeD64Ok(<<0, 0, 0, 1>>, <<32752, 0, 0, 0>>)
\* lerp<int32_t>: factor 1 between 0 and the largest value must give (about) the largest value - the smallest value (what
\* an out-of-range float-to-int conversion produces) is rejected; an exact value outside the type is not stated
I32Max == K!SDInt(2147483647)
I32Min == K!SDSub(K!SDInt(-2147483647), K!SDOne)
ASSUME K!LerpIntOk(K!SDOne, K!SDZero, I32Max, I32Max, I32Min, I32Max) /\ K!LerpIntOk(K!SDOne, K!SDZero, I32Max, K!SDInt(2147483647 - 1000), I32Min, I32Max)
       /\ ~K!LerpIntOk(K!SDOne, K!SDZero, I32Max, K!SDInt(2147483647 - 2000), I32Min, I32Max) /\ ~K!LerpIntOk(K!SDOne, K!SDZero, I32Max, I32Min, I32Min, I32Max)
       /\ K!LerpIntOk(K!SDScale(K!SDInt(3), -1), K!SDZero, I32Max, I32Min, I32Min, I32Max)        \* 1.5 * max is not a value of the type
       /\ K!LerpIntNearEdge(K!SDOne, K!SDZero, I32Max, I32Min, I32Max) /\ ~K!LerpIntNearEdge(K!SDPow2(-1), K!SDZero, K!SDInt(100), I32Min, I32Max)
       /\ K!LerpIntOk(K!SDPow2(-1), K!SDInt(3), K!SDInt(4), K!SDInt(3), I32Min, I32Max) /\ ~K!LerpIntOk(K!SDPow2(-1), K!SDInt(3), K!SDInt(4), K!SDInt(5), I32Min, I32Max)
\* the width of a range is not a float: (-FLT_MAX, FLT_MAX), (-2^127, 2^127); it is one for (-2^127 + step, 2^127 - step) and (-1, FLT_MAX)
ASSUME K!WidthOverflows(F(65407, 65535), F(32639, 65535)) /\ K!WidthOverflows(F(65280, 0), F(32512, 0)) /\ ~K!WidthOverflows(F(65279, 65535), F(32511, 65535))
       /\ ~K!WidthOverflows(F(49024, 0), F(32639, 65535)) /\ ~K!WidthOverflows(F(0, 0), One32)

\* --- distributions ---
Z32 == F(0, 0)
ASSUME K!InRangeStep(One32, Z32, One32) /\ K!InRangeStep(F(16256, 1), Z32, One32) /\ ~K!InRangeStep(F(16256, 2), Z32, One32)
       /\ K!InRangeStep(F(46080, 0), Z32, One32) /\ ~K!InRangeStep(F(46080, 1), Z32, One32) /\ ~K!InRangeStep(F(32640, 0), Z32, F(32639, 65535))
       /\ K!InRangeStep(F(49024, 0), F(49024, 0), F(14979, 4719)) /\ ~K!InRangeStep(F(15000, 0), F(49024, 0), F(14979, 4719))
ASSUME K!DistFailures(Z32, One32, <<<<16000, 0>>, <<16256, 0>>>>, <<<<16000, 0>>, <<16256, 0>>>>) = {}
       /\ K!DistFailures(Z32, One32, <<<<16000, 0>>, <<16256, 0>>>>, <<<<16000, 0>>, <<16256, 1>>>>) = {"reproducible"}
       /\ K!DistFailures(Z32, One32, <<<<16000, 0>>, <<16384, 0>>>>, <<<<16000, 0>>, <<16384, 0>>>>) = {"range"}
       /\ K!DistFailures(One32, Z32, <<<<16384, 0>>>>, <<<<16384, 0>>>>) = {}                                        \* lower > upper: not stated
\* --- distribution objects without abstract state: the value of a draw from the generator's raw output ---
\* [0, 1], pcg32 output 2^31: 0.5 accepted, 0.25 and 0.5 + 2^-18 rejected; an object that kept the scale of a pcg32 (2^-32) and is handed an
\* mt19937_64 output 2^63 returns 2^31, one that kept the scale of an mt19937_64 (2^-64) and is handed a pcg32 output 2^31 returns 2^-33: both rejected;
\* minstd_rand: least output 1 maps to lower; a range of one denormal step: the quotient underflows, lower itself is accepted (underflow part of the bound)
ASSUME K!DrawValueOkV(K!SDZero, K!SDOne, K!Zero, K!GenSpanL("pcg32"), K!Pow2L(31), K!SDPow2(-1), 20, K!Tiny)
       /\ ~K!DrawValueOkV(K!SDZero, K!SDOne, K!Zero, K!GenSpanL("pcg32"), K!Pow2L(31), K!SDPow2(-2), 20, K!Tiny)
       /\ ~K!DrawValueOkV(K!SDZero, K!SDOne, K!Zero, K!GenSpanL("pcg32"), K!Pow2L(31), K!SDAdd(K!SDPow2(-1), K!SDPow2(-18)), 20, K!Tiny)
       /\ ~K!DrawValueOkV(K!SDZero, K!SDOne, K!Zero, K!GenSpanL("mt19937_64"), K!Pow2L(63), K!SDPow2(31), 20, K!Tiny)
       /\ K!DrawValueOkV(K!SDZero, K!SDOne, K!Zero, K!GenSpanL("mt19937_64"), K!Pow2L(63), K!SDPow2(-1), 20, K!Tiny)
       /\ ~K!DrawValueOkV(K!SDZero, K!SDOne, K!Zero, K!GenSpanL("pcg32"), K!Pow2L(31), K!SDPow2(-33), 20, K!Tiny)
       /\ K!DrawValueOkV(K!SDInt(3), K!SDInt(5), K!One, K!GenSpanL("minstd_rand"), K!One, K!SDInt(3), 20, K!Tiny)
       /\ ~K!DrawValueOkV(K!SDInt(3), K!SDInt(5), K!One, K!GenSpanL("minstd_rand"), K!One, K!SDInt(4), 20, K!Tiny)
       /\ K!DrawValueOkV(K!SDZero, K!Tiny, K!Zero, K!GenSpanL("mt19937_64"), K!Pow2L(63), K!SDZero, 20, K!Tiny)
       /\ K!DrawStatedV(K!SDZero, K!SDOne, K!One, K!GenSpanL("minstd_rand"), K!One, 20, K!Top32)
       /\ ~K!DrawStatedV(K!SDZero, K!SDOne, K!One, K!GenSpanL("minstd_rand"), K!Zero, 20, K!Top32)                  \* an output below min(): not stated
       /\ ~K!DrawStatedV(K!SDZero, K!Val(F(32639, 65535)), K!Zero, K!GenSpanL("pcg32"), K!One, 20, K!Top32)          \* [0, FLT_MAX]: an intermediate value may overflow
       /\ ~K!DrawStatedV(K!SDOne, K!SDZero, K!Zero, K!GenSpanL("pcg32"), K!One, 20, K!Top32)                         \* lower > upper
       /\ K!InRangeStepV(K!SDAdd(K!SDInt(20), K!SDPow2(-48)), K!SDInt(10), K!SDInt(20), 52, K!D64Tiny) /\ ~K!InRangeStepV(K!SDAdd(K!SDInt(20), K!SDPow2(-46)), K!SDInt(10), K!SDInt(20), 52, K!D64Tiny)
       /\ K!InRangeStepV(K!SDScale(K!SDInt(3), -1074), K!SDZero, K!SDScale(K!SDInt(2), -1074), 52, K!D64Tiny) /\ ~K!InRangeStepV(K!SDScale(K!SDInt(4), -1074), K!SDZero, K!SDScale(K!SDInt(2), -1074), 52, K!D64Tiny)
       /\ K!QuotientDenormalV(K!SDZero, K!SDPow2(-117), K!GenSpanL("pcg32"), K!SDPow2(-126)) /\ ~K!QuotientDenormalV(K!SDZero, K!SDPow2(-94), K!GenSpanL("pcg32"), K!SDPow2(-126))
ASSUME PrintT(<<"C07-constant-laws-checked", Cardinality(Small \cup Mid), Cardinality(Big), Cardinality(Fin)>>)
===============================================================================
