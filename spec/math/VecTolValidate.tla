---------------------------- MODULE VecTolValidate ----------------------------
(* Code -> spec for the vec.h operations whose results are floating-point      *)
(* approximations: the driver evaluated rcp, rcp_safe, normalize,              *)
(* safe_normalize, length, sin and cos of vec_t<float|double, N> on the        *)
(* tuples emitted by VecAlgebraGen (group "tol") and recorded every result     *)
(* component as an integer scaled by S = 2^18 (length: 2^10), together with    *)
(* the results of the SCALAR functions applied to each component.  TLC         *)
(* decides here, for every record, that each component is the scalar           *)
(* definition applied to the corresponding component:                          *)
(*   rcp, rcp_safe   |R[i] * a[i] - S| <= 2 |a[i]|   (the rational 1 / a[i] of *)
(*                   VecAlgebra!Rcp within 2^-17), and R[i] = the recorded     *)
(*                   scalar rcp(a[i]) within one unit;                         *)
(*   normalize,      Pythagorean a: |R[i] * L - a[i] * S| <= 2 L  (the         *)
(*   safe_normalize  rational a[i] / L of VecAlgebra!Normalize within 2^-17);  *)
(*                   other a: R is parallel to a (|R[i] a[j] - R[j] a[i]| <=   *)
(*                   2 (|a[i]| + |a[j]|)), points the same way, and has unit   *)
(*                   length within 0.4 % (32-bit arithmetic of TLC);           *)
(*   length          (L10 - 2)^2 <= |a|^2 * 2^20 <= (L10 + 2)^2;               *)
(*   sin, cos        vector result = recorded scalar result within one unit.   *)
(* Input: IOEnv.C04_OBS (ndjson {id, a, r: {...}}); output: the rejected       *)
(* records as ndjson in IOEnv.OUT.                                             *)
EXTENDS VecAlgebra, IOUtils, Json, SequencesExt

Obs == ndJsonDeserialize(IOEnv.C04_OBS)
S   == 262144
S10 == 1024

RcpOk(a, R)   == \A i \in DOMAIN a : AbsS(R[i] * Rcp(a)[i].d - Rcp(a)[i].n * S) <= 2 * Rcp(a)[i].d
SameOk(R, Q)  == \A i \in DOMAIN R : AbsS(R[i] - Q[i]) <= 1
NormOk(a, R)  ==
  IF Pythagorean(a)
  THEN \A i \in DOMAIN a : AbsS(R[i] * Normalize(a)[i].d - Normalize(a)[i].n * S) <= 2 * Normalize(a)[i].d
  ELSE /\ \A i, j \in DOMAIN a : AbsS(R[i] * a[j] - R[j] * a[i]) <= 2 * (AbsS(a[i]) + AbsS(a[j]))
       /\ ReduceAdd([i \in DOMAIN a |-> R[i] * a[i]]) > 0
       /\ LET Q == [i \in DOMAIN a |-> DivS(R[i], 256)] IN AbsS(ReduceAdd(Mul(Q, Q)) - S10 * S10) <= 4200
LenOk(a, L10) == L10 >= 2 /\ (L10 - 2) * (L10 - 2) <= Dot(a, a) * S10 * S10 /\ Dot(a, a) * S10 * S10 <= (L10 + 2) * (L10 + 2)
InRangeAll(o) == \A k \in {"rcp", "rcp_safe", "normalize", "safe_normalize", "sin_v", "cos_v", "sin_s", "cos_s", "rcp_s", "rcp_safe_s"} :
                    \A i \in DOMAIN o.r[k] : AbsS(o.r[k][i]) <= 4 * S

Failures(o) ==
  IF ~InRangeAll(o) \/ AbsS(o.r.length10) > 64 * S10 THEN {"out-of-range"} ELSE
     (IF RcpOk(o.a, o.r.rcp) THEN {} ELSE {"rcp"})
     \cup (IF RcpOk(o.a, o.r.rcp_safe) THEN {} ELSE {"rcp_safe"})
     \cup (IF SameOk(o.r.rcp, o.r.rcp_s) THEN {} ELSE {"rcp-vs-scalar"})
     \cup (IF SameOk(o.r.rcp_safe, o.r.rcp_safe_s) THEN {} ELSE {"rcp_safe-vs-scalar"})
     \cup (IF NormOk(o.a, o.r.normalize) THEN {} ELSE {"normalize"})
     \cup (IF NormOk(o.a, o.r.safe_normalize) THEN {} ELSE {"safe_normalize"})
     \cup (IF LenOk(o.a, o.r.length10) THEN {} ELSE {"length"})
     \cup (IF SameOk(o.r.sin_v, o.r.sin_s) THEN {} ELSE {"sin-vs-scalar"})
     \cup (IF SameOk(o.r.cos_v, o.r.cos_s) THEN {} ELSE {"cos-vs-scalar"})
RejIdx == {k \in DOMAIN Obs : Failures(Obs[k]) # {}}
RejSeq == LET s == SetToSeq(RejIdx) IN [k \in DOMAIN s |-> [id |-> Obs[s[k]].id, failed |-> SetToSeq(Failures(Obs[s[k]]))]]

\* the acceptance predicates are not vacuous: exact scaled values are accepted, a result with two components
\* exchanged, an unnormalised result and a length off by 1 % are rejected
ASSUME RcpOk(<<2, -4>>, <<131072, -65536>>) /\ ~RcpOk(<<2, -4>>, <<-65536, 131072>>)
ASSUME NormOk(<<3, 4>>, <<157286, 209715>>) /\ ~NormOk(<<3, 4>>, <<209715, 157286>>) /\ ~NormOk(<<3, 4>>, <<-157286, -209715>>)
ASSUME NormOk(<<1, 2>>, <<117234, 234468>>) /\ ~NormOk(<<1, 2>>, <<234468, 117234>>) /\ ~NormOk(<<1, 2>>, <<118500, 237000>>)
ASSUME LenOk(<<1, 2>>, 2290) /\ ~LenOk(<<1, 2>>, 2313) /\ LenOk(<<3, 4>>, 5120)

ASSUME ndJsonSerialize(IOEnv.OUT, RejSeq)
ASSUME PrintT(<<"C04-TOL-VALIDATED", Len(Obs), "REJECTED", Cardinality(RejIdx)>>)
===============================================================================
