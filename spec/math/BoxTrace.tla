------------------------------- MODULE BoxTrace -------------------------------
(* Trace specification (code -> spec): a recorded execution of a real range_t  *)
(* / box_t object - seeded random sequences of extend / intersect / translate  *)
(* / scale and queries, with coordinates far outside the lattice used for the  *)
(* exhaustive cases - must be a behaviour of BoxAlgebra: the state of the box  *)
(* after every step and every returned value is the one the specification      *)
(* computes.  What the property does not say is left open:                     *)
(*   - the bounds of an EMPTY intersection are free (only emptiness is fixed), *)
(*   - extend / clamp / relations on an empty box other than the default-      *)
(*     constructed one are unconstrained (the observed state is adopted),      *)
(*   - the driver does not call size / center / scale / translate on an empty  *)
(*     box and says so ("skipped"); a skip is accepted only when the           *)
(*     specification's box is empty as well.                                   *)
(* Lines: {a, arg, obs}; obs.lo / obs.hi is the box after the step.            *)
EXTENDS BoxAlgebra, Json, IOUtils, TLCExt

VARIABLES b, l
tvars == <<b, l>>

TraceLines == ndJsonDeserialize(IOEnv.TRACE)
N    == Len(TraceLines)
Line == TraceLines[l]
Arg  == Line.arg
Obs  == Line.obs
ObsBox == [lo |-> Obs.lo, hi |-> Obs.hi]
ArgBox == [lo |-> Arg.lo, hi |-> Arg.hi]
Skipped == "skipped" \in DOMAIN Obs

TInit == b = EmptyBox(1) /\ l = 1

New    == Line.a = "New"   /\ b' = EmptyBox(Arg.d)  /\ ObsBox = b' /\ Obs.empty = TRUE
Clear  == Line.a = "Clear" /\ b' = EmptyBox(Dim(b)) /\ ObsBox = b' /\ Obs.empty = TRUE
ExtPt  == /\ Line.a = "ExtendPt"
          /\ IF Proper(b) THEN b' = ExtendPt(b, Arg.p) /\ ObsBox = b' ELSE b' = ObsBox
ExtBox == /\ Line.a = "ExtendBox"
          /\ IF Proper(b) /\ Proper(ArgBox) THEN b' = ExtendBox(b, ArgBox) /\ ObsBox = b' ELSE b' = ObsBox
Inter  == /\ Line.a = "Intersect"
          /\ LET r == Intersection(b, ArgBox) IN
               IF IsEmpty(r) THEN IsEmpty(ObsBox) /\ Obs.empty = TRUE /\ b' = ObsBox
               ELSE Obs.empty = FALSE /\ ObsBox = r /\ b' = r
Trans  == /\ Line.a = "Translate1"
          /\ IF Skipped THEN IsEmpty(b) /\ ObsBox = b /\ b' = b
             ELSE ~IsEmpty(b) /\ b' = Translate(b, Arg.v) /\ ObsBox = b'
Scal   == /\ Line.a = "Scale1"
          /\ IF Skipped THEN IsEmpty(b) /\ ObsBox = b /\ b' = b
             ELSE ~IsEmpty(b) /\ b' = Scale(b, Arg.v) /\ ObsBox = b'
ContQ  == Line.a = "ContainsQ" /\ Obs.ret = ContainsPt(b, Arg.p) /\ ObsBox = b /\ b' = b
ClampQ == Line.a = "ClampQ" /\ (~IsEmpty(b) => Obs.ret = Clamp(b, Arg.p)) /\ ObsBox = b /\ b' = b
\* center: exact for floating-point element types; integer element types truncate, so only even sums are constrained
Meas   == /\ Line.a = "Measure" /\ ObsBox = b /\ b' = b
          /\ Obs.empty = IsEmpty(b)
          /\ IF Skipped THEN IsEmpty(b)
             ELSE /\ ~IsEmpty(b)
                  /\ Obs.size = Size(b)
                  /\ \A i \in Ax(b) : (Obs.int = FALSE \/ Center2(b)[i] % 2 = 0) => Obs.center2[i] = Center2(b)[i]
Relate == /\ Line.a = "Relate" /\ ObsBox = b /\ b' = b
          /\ Obs.inter_empty = IsEmpty(Intersection(b, ArgBox))
          /\ (Proper(b) /\ Proper(ArgBox)) =>
                /\ Obs.disjoint = Disjoint(b, ArgBox)
                /\ ("touching" \in DOMAIN Obs => Obs.touching = Touching(b, ArgBox))

TStep  == l <= N /\ Line.a # "Reset" /\ l' = l + 1
          /\ (New \/ Clear \/ ExtPt \/ ExtBox \/ Inter \/ Trans \/ Scal \/ ContQ \/ ClampQ \/ Meas \/ Relate)
TReset == l <= N /\ Line.a = "Reset" /\ b' = EmptyBox(1) /\ l' = l + 1
TNext  == TStep \/ TReset
TSpec  == TInit /\ [][TNext]_tvars

Accepted == TLCGet("stats").diameter - 1 = N
Post == IF Accepted THEN TRUE
        ELSE /\ PrintT(<<"TRACE-REJECTED-AT-LINE", TLCGet("stats").diameter, "OF", N>>)
             /\ FALSE
===============================================================================
