---------------------------- MODULE VecLiftValidate ----------------------------
(* Code -> spec: the LIFTING LAW on general operands.  The driver evaluated     *)
(* every vec.h operator / functor, through every overload family, on seeded     *)
(* random and edge operands that are NOT on the lattice of the exhaustive cases *)
(* (non-dyadic floats such as 5/3 and 0.1, subnormals, huge values, signed      *)
(* zeros, values with inexact reciprocals; full-range integers for / and %) and *)
(* recorded, per family,                                                        *)
(*    v = the components of the vector operator's result,                       *)
(*    s = the result of the corresponding C++ scalar operator / function        *)
(*        applied to each component pair (in the common type),                  *)
(* both as bit patterns cut into 16-bit pieces.  The statement of C04 says the  *)
(* vector operators are the component-wise liftings of the scalar ones; here    *)
(* TLC judges exactly that, bit for bit:                                        *)
(*    Lift:  v = s        (VecAlgebra!Lift1 / Lift2 with the REAL scalar        *)
(*                         operator as f: r[i] = f(a[i], b[i]) for every i)     *)
(* and for the comparisons, from the recorded scalar comparisons lt[i] =        *)
(* (a[i] < b[i]), eqs[i] = (a[i] == b[i]), nes[i] = (a[i] != b[i]):             *)
(*    ==  <=> all eqs;  !=  <=> some nes;  anyLessThan <=> some lt;             *)
(*    std::less <=> lexicographic: some k with lt[k] and eqs[j] for all j < k   *)
(* (the definitions of VecAlgebra!Eq / Ne / AnyLessThan / Less with the real    *)
(* scalar comparisons in place of the integer ones).                            *)
(* Input: IOEnv.C04_OBS (ndjson {id, r: {op: {family: {k, v, s}}}, c: {family:  *)
(* {eq, ne, anylt, less, lt, eqs, nes}}}); output: rejected (id, op, family)    *)
(* triples as ndjson in IOEnv.OUT.                                              *)
EXTENDS Integers, Sequences, FiniteSets, TLC, IOUtils, Json, SequencesExt

Obs == ndJsonDeserialize(IOEnv.C04_OBS)

\* the law for value-returning operators.  e.k is the kind of the recorded type: "i" integer, "f" float (2 pieces per component,
\* most significant first), "d" double (4 pieces).  Operands may be infinite (the statement's quantifier names infinities), so a
\* result can be NaN (inf - inf, 0 * inf, inf / inf): then both sides must be NaN - sign and payload of a NaN are not part of the law.
W(e) == IF e.k = "f" THEN 2 ELSE IF e.k = "d" THEN 4 ELSE 1
IsNaN(q, c, k) ==
  IF k = "f" THEN (q[2 * c - 1] % 32768) \div 128 = 255 /\ ((q[2 * c - 1] % 128) # 0 \/ q[2 * c] # 0)
  ELSE IF k = "d" THEN (q[4 * c - 3] % 32768) \div 16 = 2047 /\ ((q[4 * c - 3] % 16) # 0 \/ q[4 * c - 2] # 0 \/ q[4 * c - 1] # 0 \/ q[4 * c] # 0)
  ELSE FALSE
Lift(e) == /\ Len(e.v) = Len(e.s)
           /\ IF e.k = "i" THEN \A i \in DOMAIN e.v : e.v[i] = e.s[i]
              ELSE /\ Len(e.v) % W(e) = 0
                   /\ \A c \in 1..(Len(e.v) \div W(e)) :
                        \/ \A j \in (W(e) * (c - 1) + 1)..(W(e) * c) : e.v[j] = e.s[j]
                        \/ IsNaN(e.v, c, e.k) /\ IsNaN(e.s, c, e.k)
\* the comparison operators from the scalar comparisons
Some(q) == \E i \in DOMAIN q : q[i]
All(q)  == \A i \in DOMAIN q : q[i]
LexLess(lt, eqs) == \E k \in DOMAIN lt : lt[k] /\ \A j \in 1..(k - 1) : eqs[j]
CmpFailures(c) ==
  (IF c.eq = All(c.eqs) THEN {} ELSE {"eq"}) \cup (IF c.ne = Some(c.nes) THEN {} ELSE {"ne"})
  \cup (IF c.anylt = Some(c.lt) THEN {} ELSE {"anylt"}) \cup (IF c.less = LexLess(c.lt, c.eqs) THEN {} ELSE {"less"})

Failures(o) ==
  UNION {{<<op, fam>> : fam \in {f \in DOMAIN o.r[op] : ~Lift(o.r[op][f])}} : op \in DOMAIN o.r}
  \cup UNION {{<<op, fam>> : op \in CmpFailures(o.c[fam])} : fam \in DOMAIN o.c}
RejIdx == {k \in DOMAIN Obs : Failures(Obs[k]) # {}}
RejSeq == LET s == SetToSeq(RejIdx)
          IN [k \in DOMAIN s |-> [id |-> Obs[s[k]].id,
                                  failed |-> LET fs == SetToSeq(Failures(Obs[s[k]])) IN [j \in DOMAIN fs |-> [op |-> fs[j][1], fam |-> fs[j][2]]]]]
\* number of judged (record, operator, family) triples (the four comparison operators count per family)
TotalJudged == Cardinality(UNION {UNION {{<<k, op, fam>> : fam \in DOMAIN Obs[k].r[op]} : op \in DOMAIN Obs[k].r} : k \in DOMAIN Obs})
               + 4 * Cardinality(UNION {{<<k, fam>> : fam \in DOMAIN Obs[k].c} : k \in DOMAIN Obs})

\* the law is not vacuous: one flipped piece, a missing component, a signed zero are rejected; NaN matches NaN only
ASSUME Lift([k |-> "f", v |-> <<16213, 21845>>, s |-> <<16213, 21845>>]) /\ ~Lift([k |-> "f", v |-> <<16213, 21846>>, s |-> <<16213, 21845>>])
ASSUME ~Lift([k |-> "f", v |-> <<16213>>, s |-> <<16213, 21845>>])
ASSUME ~Lift([k |-> "f", v |-> <<32768, 0>>, s |-> <<0, 0>>])                                   \* -0 is not +0
ASSUME Lift([k |-> "f", v |-> <<65472, 0>>, s |-> <<32704, 1>>])                                 \* -qNaN and +NaN with payload
ASSUME ~Lift([k |-> "f", v |-> <<32640, 0>>, s |-> <<32704, 0>>])                                \* +inf is not NaN
ASSUME ~Lift([k |-> "i", v |-> <<65472, 0>>, s |-> <<32704, 1>>])
ASSUME Lift([k |-> "d", v |-> <<65528, 0, 0, 0>>, s |-> <<32760, 0, 0, 0>>]) /\ ~Lift([k |-> "d", v |-> <<32752, 0, 0, 0>>, s |-> <<32760, 0, 0, 0>>])
ASSUME CmpFailures([eq |-> FALSE, ne |-> TRUE, anylt |-> TRUE, less |-> FALSE, lt |-> <<FALSE, TRUE>>, eqs |-> <<FALSE, FALSE>>, nes |-> <<TRUE, TRUE>>]) = {}
ASSUME CmpFailures([eq |-> FALSE, ne |-> TRUE, anylt |-> TRUE, less |-> TRUE, lt |-> <<FALSE, TRUE>>, eqs |-> <<FALSE, FALSE>>, nes |-> <<TRUE, TRUE>>]) = {"less"}
ASSUME CmpFailures([eq |-> TRUE, ne |-> FALSE, anylt |-> FALSE, less |-> FALSE, lt |-> <<FALSE, FALSE>>, eqs |-> <<TRUE, TRUE>>, nes |-> <<FALSE, FALSE>>]) = {}

ASSUME ndJsonSerialize(IOEnv.OUT, RejSeq)
ASSUME PrintT(<<"C04-LIFT-VALIDATED", Len(Obs), "JUDGED", TotalJudged, "REJECTED", Cardinality(RejIdx)>>)
===============================================================================
