SPECIFICATION Spec
INVARIANTS BoxLaws PointLaws PairLaws
CHECK_DEADLOCK FALSE
