\* constant-level evaluation only (ASSUMEs): no behaviour specification
