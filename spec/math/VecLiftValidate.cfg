
