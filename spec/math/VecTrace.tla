------------------------------- MODULE VecTrace -------------------------------
(* Trace specification (code -> spec): a recorded execution of a real vec_t    *)
(* object - a vector register driven by seeded random sequences of the vec.h   *)
(* operators (vec-vec, vec-scalar, scalar-vec, compound assignment, min / max  *)
(* / clamp, cross, madd, interpolate_uv, element writes) and queries (dot,     *)
(* reductions, comparisons, indexing), with operands far outside the lattice   *)
(* of the exhaustive cases, equal components and zeros included - must be a    *)
(* behaviour of VecAlgebra: after every step the register holds the lifting    *)
(* the specification computes and every returned value is the specified one.   *)
(* For uint8_t / uint16_t the ring operations wrap around modulo 2^8 / 2^16    *)
(* (VecAlgebra!Narrow).  The generator of the executions keeps the magnitudes  *)
(* of the other element types inside their windows (no overflow, exact floats).*)
(* Lines: {a, arg, obs}; obs.v = the register after the step (components read  *)
(* from the members x, y, z, w), obs.ret = the returned value.                 *)
EXTENDS VecAlgebra, Json, IOUtils, TLCExt

VARIABLES v, ty, l
tvars == <<v, ty, l>>

TraceLines == ndJsonDeserialize(IOEnv.TRACE)
NLines == Len(TraceLines)
Line == TraceLines[l]
Arg  == Line.arg
Obs  == Line.obs

RingV(r) == IF ty \in WrapTypes THEN NarrowV(ty, r) ELSE r
RingZ(z) == IF ty \in WrapTypes THEN Narrow(ty, z) ELSE z

TInit == v = <<0, 0>> /\ ty = "i" /\ l = 1

Upd(r)   == v' = r /\ Obs.v = r /\ ty' = ty            \* the register becomes r and the driver observed exactly r
Query(r) == v' = v /\ Obs.v = v /\ Obs.ret = r /\ ty' = ty

New    == Line.a = "New"   /\ v' = Arg.v /\ Obs.v = Arg.v /\ ty' = Arg.ty
AddV   == Line.a = "AddV"  /\ Upd(RingV(Add(v, Arg.b)))
SubV   == Line.a = "SubV"  /\ Upd(RingV(Sub(v, Arg.b)))
MulV   == Line.a = "MulV"  /\ Upd(RingV(Mul(v, Arg.b)))
DivV   == Line.a = "DivV"  /\ Upd(Div(v, Arg.b))
ModV   == Line.a = "ModV"  /\ Upd(Mod(v, Arg.b))
AddSc  == Line.a = "AddS"  /\ Upd(RingV(VS(Add, v, Arg.s)))
SubSc  == Line.a = "SubS"  /\ Upd(RingV(VS(Sub, v, Arg.s)))
RSubSc == Line.a = "RSubS" /\ Upd(RingV(SV(Sub, Arg.s, v)))
MulSc  == Line.a = "MulS"  /\ Upd(RingV(SV(Mul, Arg.s, v)))
CAddV  == Line.a = "CAddV" /\ Upd(RingV(Add(v, Arg.b)))
CSubV  == Line.a = "CSubV" /\ Upd(RingV(Sub(v, Arg.b)))
CMulSc == Line.a = "CMulS" /\ Upd(RingV(VS(Mul, v, Arg.s)))
NegA   == Line.a = "Neg"   /\ Upd(RingV(Neg(v)))
AbsA   == Line.a = "Abs"   /\ Upd(Abs(v))
MinA   == Line.a = "MinV"  /\ Upd(MinV(v, Arg.b))
MaxA   == Line.a = "MaxV"  /\ Upd(MaxV(v, Arg.b))
ClampA == Line.a = "Clamp" /\ Upd(Clamp(v, Arg.lo, Arg.hi))
CrossA == Line.a = "CrossV" /\ Len(v) = 3 /\ Upd(RingV(Cross(v, Arg.b)))
MaddA  == Line.a = "Madd"  /\ Len(v) = 3 /\ Upd(Madd(v, Arg.b, Arg.c))
Interp == Line.a = "Interp" /\ Upd(RingV(InterpolateUV(Arg.f, v, Arg.b, Arg.c)))
SetIdx == Line.a = "SetIdx" /\ Upd(SetIndex(v, Arg.i, Arg.s))
DotQ   == Line.a = "Dot"   /\ Query(RingZ(Dot(v, Arg.b)))
RedQ   == Line.a = "Reduce" /\ Query([add |-> RingZ(ReduceAdd(v)), min |-> ReduceMin(v), max |-> ReduceMax(v)])
CmpQ   == Line.a = "Compare" /\ Query([eq |-> Eq(v, Arg.b), ne |-> Ne(v, Arg.b), anylt |-> AnyLessThan(v, Arg.b), less |-> Less(v, Arg.b)])
IdxQ   == Line.a = "Index" /\ Query(Index(v, Arg.i))

TStep  == l <= NLines /\ Line.a # "Reset" /\ l' = l + 1
          /\ (New \/ AddV \/ SubV \/ MulV \/ DivV \/ ModV \/ AddSc \/ SubSc \/ RSubSc \/ MulSc \/ CAddV \/ CSubV \/ CMulSc \/ NegA \/ AbsA
              \/ MinA \/ MaxA \/ ClampA \/ CrossA \/ MaddA \/ Interp \/ SetIdx \/ DotQ \/ RedQ \/ CmpQ \/ IdxQ)
TReset == l <= NLines /\ Line.a = "Reset" /\ v' = <<0, 0>> /\ ty' = "i" /\ l' = l + 1
TNext  == TStep \/ TReset
TSpec  == TInit /\ [][TNext]_tvars

Accepted == TLCGet("stats").diameter - 1 = NLines
Post == IF Accepted THEN TRUE
        ELSE /\ PrintT(<<"TRACE-REJECTED-AT-LINE", TLCGet("stats").diameter, "OF", NLines>>)
             /\ FALSE
===============================================================================
