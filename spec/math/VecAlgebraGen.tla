---------------------------- MODULE VecAlgebraGen ----------------------------
(* Case generation from VecAlgebra (constant level).  Every expected value is  *)
(* computed here by TLC with the operators whose laws VecAlgebraMC has         *)
(* checked.  One TLC run emits one group of cases for one shape N over one     *)
(* lattice:                                                                    *)
(*   {"a": group, "n": N, "arg": {...}, "exp": {op: [ {"ty": [...], "v": {kind: value}} ... ]}}  *)
(* For every operation `exp` lists groups of element types together with the  *)
(* value expected on them, per KIND of overload (vv = vec op vec, vs = vec op  *)
(* scalar, sv = scalar op vec, r = the only form).  An element type occurs in  *)
(* a group only if the specification decides the result for it:                *)
(*   - every operand is representable in the type;                             *)
(*   - every intermediate and final result is in the type's window (exact), or *)
(*   - the operation is a chain of + - * and the type is uint8_t / uint16_t:   *)
(*     the result is the exact one modulo 2^8 / 2^16 (LawNarrow).              *)
(* Overflowing signed results, negative results of 32/64-bit unsigned types    *)
(* and non-integer quotients are not emitted (not decided).                    *)
(* Environment: OUT (file prefix), C04_GROUP, C04_N, C04_LAT ("S" | "U"),      *)
(* C04_LEVEL (0 quick, 1 thorough), C04_PART / C04_NPARTS (the cases whose     *)
(* first operand has index = PART modulo NPARTS).                              *)
EXTENDS VecAlgebra, IOUtils, Json, SequencesExt

Group  == IOEnv.C04_GROUP
N      == atoi(IOEnv.C04_N)
LatN   == IOEnv.C04_LAT
Level  == atoi(IOEnv.C04_LEVEL)
Part   == atoi(IOEnv.C04_PART)
NParts == atoi(IOEnv.C04_NPARTS)
OutFile == IOEnv.OUT \o "-" \o Group \o "-" \o IOEnv.C04_N \o "-" \o LatN \o "-" \o IOEnv.C04_PART

LS  == {-5, -3, -2, 1, 2, 4, 7}          \* signed element types and float / double
LU  == {1, 2, 4, 7, 11, 250}             \* unsigned element types (250 + 7 leaves uint8_t; differences go negative)
Lat == IF LatN = "S" THEN LS ELSE LU
LatSeq == SetToSeq(Lat)
NL  == Len(LatSeq)
TS  == SetToSeq(DistinctVecs(Lat, N))   \* all operand tuples with pairwise distinct non-zero components
M   == Len(TS)
T3  == SetToSeq(DistinctVecs(Lat, 3))
M3  == Len(T3)
T2  == SetToSeq(DistinctVecs(Lat, 2))
M2  == Len(T2)
Mine(k) == k % NParts = Part

\* ---------------------------------------------------------------------------
\* which element types, which value
\* ---------------------------------------------------------------------------
OTys(ints) == {ty \in Types : AllInRange(ty, ints)}                   \* types that hold every operand
GExact(tys, r, ri) ==                                                 \* r is expected on the types whose window holds ri
  LET ok == {ty \in tys : AllInRange(ty, ri)} IN IF ok = {} THEN <<>> ELSE << [ty |-> SetToSeq(ok), v |-> r] >>
WrapSeq(tys, ri) == SetToSeq({ty \in tys \cap WrapTypes : ~AllInRange(ty, ri)})
\* chains of + - *: r (a record of vectors) exact where it fits, reduced modulo 2^8 / 2^16 on uint8_t / uint16_t
GRingV(tys, r, ri) ==
  GExact(tys, r, ri) \o LET ws == WrapSeq(tys, ri) IN [j \in DOMAIN ws |-> [ty |-> <<ws[j]>>, v |-> [k \in DOMAIN r |-> NarrowV(ws[j], r[k])]]]
\* the same for a record of scalars
GRingZ(tys, r, ri) ==
  GExact(tys, r, ri) \o LET ws == WrapSeq(tys, ri) IN [j \in DOMAIN ws |-> [ty |-> <<ws[j]>>, v |-> [k \in DOMAIN r |-> Narrow(ws[j], r[k])]]]
GAll(tys, r) == IF tys = {} THEN <<>> ELSE << [ty |-> SetToSeq(tys), v |-> r] >>     \* booleans, strings
Ints(r) == UNION {Rng(r[k]) : k \in DOMAIN r}                         \* all integers of a record of vectors
IntsZ(r) == {r[k] : k \in DOMAIN r}
RestrictRec(r, ks) == [k \in ks |-> r[k]]

\* ---------------------------------------------------------------------------
\* group "un": one vector
\* ---------------------------------------------------------------------------
PartialSums(v) == {FoldTo(AddS, v, n) : n \in 1..Len(v)}
PartialProds(v) == {FoldTo(MulS, v, n) : n \in 1..Len(v)}
UnExp(a) ==
  LET T == OTys(Rng(a))
      base == [ neg    |-> GRingV(T, [r |-> Neg(a)], Rng(Neg(a))),
                pos    |-> GExact(T, [r |-> Pos(a)], Rng(a)),
                abs    |-> GExact(T, [r |-> Abs(a)], Rng(Abs(a))),
                radd   |-> GRingZ(T, [r |-> ReduceAdd(a)], PartialSums(a)),
                rmul   |-> GRingZ(T, [r |-> ReduceMul(a)], PartialProds(a)),
                rmin   |-> GExact(T, [r |-> ReduceMin(a)], {ReduceMin(a)}),
                rmax   |-> GExact(T, [r |-> ReduceMax(a)], {ReduceMax(a)}),
                argmax |-> GAll(T, [r |-> ArgMax(a)]),
                idx    |-> GExact(T, [r |-> PointerView(a), w |-> [i \in DOMAIN a |-> SetIndex(a, i - 1, a[Len(a) + 1 - i] + 1)]], Rng(a) \cup {x + 1 : x \in Rng(a)}),
                eqself |-> GAll(T, [r |-> Eq(a, a)]),
                stream |-> GAll(T \ {"uc", "c"}, [r |-> Stream(a)]) \o GAll(T \cap {"uc", "c"}, [r |-> StreamBytes(a)]) ]
      lp   == IF \A i \in DOMAIN a : a[i] >= 0 THEN [lprod |-> GAll(T, [r |-> ReduceMul(a)])] ELSE << >>
      len  == IF Pythagorean(a) THEN [length |-> GExact(T, [r |-> Length(a)], {Dot(a, a), Length(a)} \cup {DotTo(a, a, n) : n \in 1..Len(a)})] ELSE << >>
  IN base @@ lp @@ len
\* byte values that character-oriented code mishandles (the 8-bit element types stream their components as characters): NUL,
\* newline, 0x7f, 0x80, 0xff at every position
ByteVals == IF LatN = "S" THEN {-128, -1, 0, 10, 127} ELSE {0, 10, 127, 128, 255}
UnCase(a) == [a |-> "Un", cls |-> (IF Rng(a) \subseteq ByteVals THEN "bytes" ELSE IF Distinct(a) THEN "distinct" ELSE "ties"), n |-> Len(a), ot |-> SetToSeq(OTys(Rng(a))),
              arg |-> [a |-> a, wv |-> [i \in DOMAIN a |-> a[Len(a) + 1 - i] + 1]], exp |-> UnExp(a)]
\* Pythagorean tuples (exact length) in every arrangement and sign pattern, next to the lattice tuples
PythBase == IF N = 2 THEN {<<3, 4>>, <<5, 12>>} ELSE IF N = 3 THEN {<<2, 3, 6>>, <<1, 4, 8>>} ELSE {<<2, 4, 5, 6>>, <<1, 2, 4, 10>>}
Arrangements(v) == {[i \in 1..Len(v) |-> sg[i] * v[p[i]]] : p \in {q \in [1..Len(v) -> 1..Len(v)] : Distinct(q)},
                                                           sg \in (IF LatN = "S" THEN [1..Len(v) -> {-1, 1}] ELSE {[i \in 1..Len(v) |-> 1]})}
PythSet == UNION {Arrangements(v) : v \in PythBase}
\* tuples with EQUAL components (the lattice tuples are pairwise distinct): ties of arg_max (first maximum), reductions,
\* comparisons of a vector with itself
TieVals == IF LatN = "S" THEN {-3, 2, 7} ELSE {1, 4, 11}
TieSet  == {t \in [1..N -> TieVals] : ~Distinct(t)}
ByteSet  == {t \in [1..N -> ByteVals] : N < 4 \/ ((t[1] + t[2] + t[3] + t[4]) % 3 = 0 /\ 0 \in Rng(t))}     \* (255^4 leaves TLC's integers)
UnCases == IF Group \notin {"un", "misc"} THEN <<>> ELSE
  LET ks == SetToSeq({k \in 1..M : Mine(k)})
      ps == IF Part = 0 THEN SetToSeq(PythSet) \o SetToSeq(TieSet) \o SetToSeq(ByteSet) ELSE <<>>
  IN [j \in DOMAIN ks |-> UnCase(TS[ks[j]])] \o [j \in DOMAIN ps |-> UnCase(ps[j])]

\* ---------------------------------------------------------------------------
\* group "bin": two vectors and a scalar
\* ---------------------------------------------------------------------------
NoZero(v) == \A i \in DOMAIN v : v[i] # 0
DivKinds(a, b, s) == [vv |-> Div(a, b), vs |-> VS(Div, a, s), sv |-> SV(Div, s, b)]
DivisibleKinds(a, b, s) == {k \in {"vv", "vs", "sv"} : CASE k = "vv" -> Divisible(a, b) [] k = "vs" -> Divisible(a, Splat(s, Len(a)))
                                                              [] k = "sv" -> Divisible(Splat(s, Len(b)), b)}
DivOk(b, s) == NoZero(b) /\ s # 0
BinExp(a, b, s) ==
  LET T  == OTys(Rng(a) \cup Rng(b) \cup {s})
      TI == T \cap IntTypes
      TF == T \cap FltTypes
      add == [vv |-> Add(a, b), vs |-> VS(Add, a, s), sv |-> SV(Add, s, b)]
      sub == [vv |-> Sub(a, b), vs |-> VS(Sub, a, s), sv |-> SV(Sub, s, b)]
      mul == [vv |-> Mul(a, b), vs |-> VS(Mul, a, s), sv |-> SV(Mul, s, b)]
      div == DivKinds(a, b, s)
      dk  == DivisibleKinds(a, b, s)
      mod == [vv |-> Mod(a, b), vs |-> VS(Mod, a, s), sv |-> SV(Mod, s, b)]
      dru == DivRoundUp(a, b)
      druI == Rng(dru) \cup Rng(Add(a, b)) \cup {a[i] + b[i] - 1 : i \in DOMAIN a}
      dotI == {DotTo(a, b, n) : n \in 1..Len(a)} \cup Rng(Mul(a, b))
      \* divisions only when no divisor is zero (b and s); a zero divisor is outside every scalar definition
      dvr  == IF ~DivOk(b, s) THEN << >> ELSE
              [ div |-> GExact(TI, div, Ints(div)) \o (IF dk = {} THEN <<>> ELSE GExact(TF, RestrictRec(div, dk), Ints(div))),
                mod |-> GExact(TI, mod, Ints(mod)),
                \* divRoundUp: positive operands only (the domain on which the scalar definition is determined, see VecAlgebra)
                dru |-> IF \E i \in DOMAIN a : a[i] <= 0 \/ b[i] <= 0 THEN <<>> ELSE
                          GExact(TI, [vv |-> dru], druI)
                          \o (IF \A i \in DOMAIN a : ModS(a[i] + b[i] - 1, b[i]) = 0 THEN GExact(TF, [vv |-> dru], druI) ELSE <<>>) ]
      base == [ add |-> GRingV(T, add, Ints(add)),
                sub |-> GRingV(T, sub, Ints(sub)),
                mul |-> GRingV(T, mul, Ints(mul)),
                min |-> GExact(T, [vv |-> MinV(a, b)], Rng(a) \cup Rng(b)),
                max |-> GExact(T, [vv |-> MaxV(a, b)], Rng(a) \cup Rng(b)),
                dot |-> GRingZ(T, [vv |-> Dot(a, b)], dotI),
                eq  |-> GAll(T, [vv |-> Eq(a, b)]),
                ne  |-> GAll(T, [vv |-> Ne(a, b)]),
                anylt |-> GAll(T, [vv |-> AnyLessThan(a, b)]),
                less  |-> GAll(T, [vv |-> Less(a, b)]) ]
      crs  == IF Len(a) = 3
              THEN [cross |-> GRingV(T, [vv |-> Cross(a, b)], Rng(Cross(a, b)) \cup {a[i] * b[j] : i, j \in 1..3})]
              ELSE << >>
  IN base @@ dvr @@ crs
BinCase(a, b, s) == [a |-> "Bin", cls |-> "lattice", n |-> Len(a), ot |-> SetToSeq(OTys(Rng(a) \cup Rng(b) \cup {s})),
                     arg |-> [a |-> a, b |-> b, s |-> s, nd |-> ~DivOk(b, s)], exp |-> BinExp(a, b, s)]
\* second operands: all of them (N = 2; every N in the thorough tier where affordable), otherwise J per first operand, chosen
\* so that every tuple also occurs as a second operand (k -> (P * k + Q * j) mod M is a bijection for every j: P is prime to M)
J == CASE N = 2 -> M
       [] N = 3 -> (IF Level = 0 THEN (IF LatN = "S" THEN 6 ELSE 4) ELSE M)
       [] N = 4 -> (IF Level = 0 THEN 2 ELSE (IF LatN = "S" THEN 40 ELSE 20))
P == 11      \* 42, 210, 840, 30, 120, 360 are all prime to 11
Second(k, j) == IF J = M THEN j ELSE ((P * k + 17 * j) % M) + 1
Scalar(k, j) == LatSeq[((k + 3 * j) % NL) + 1]
BinIdx == IF Group # "bin" THEN {} ELSE {<<k, j>> : k \in {x \in 1..M : Mine(x)}, j \in 1..J}
\* exact quotients for the floating-point element types: a = q * b component-wise (q, b lattice tuples)
QJ == IF N = 2 THEN 6 ELSE IF Level = 0 THEN 1 ELSE 4
QuotIdx == IF Group # "bin" THEN {} ELSE {<<k, j>> : k \in {x \in 1..M : Mine(x)}, j \in 1..QJ}
BinCases == IF Group # "bin" THEN <<>> ELSE
  LET ps == SetToSeq(BinIdx)
      qs == SetToSeq(QuotIdx)
  IN [i \in DOMAIN ps |-> LET k == ps[i][1]
                              j == ps[i][2]
                          IN BinCase(TS[k], TS[Second(k, j)], Scalar(k, j))]
     \o [i \in DOMAIN qs |-> LET k == qs[i][1]
                                 j == qs[i][2]
                                 b == TS[((P * k + 29 * j) % M) + 1]
                             IN BinCase(Mul(TS[k], b), b, b[((k + j) % N) + 1])]

\* ---------------------------------------------------------------------------
\* group "cmp": comparisons on operands that agree in some components: b = a changed by -1 / 0 / +1 steps per component,
\* every pattern of {-1, 0, 1}^N
\* ---------------------------------------------------------------------------
CmpExp(a, b) ==
  LET T == OTys(Rng(a) \cup Rng(b))
  IN [ eq |-> GAll(T, [vv |-> Eq(a, b)]), ne |-> GAll(T, [vv |-> Ne(a, b)]),
       anylt |-> GAll(T, [vv |-> AnyLessThan(a, b)]), less |-> GAll(T, [vv |-> Less(a, b)]),
       min |-> GExact(T, [vv |-> MinV(a, b)], Rng(a) \cup Rng(b)), max |-> GExact(T, [vv |-> MaxV(a, b)], Rng(a) \cup Rng(b)) ]
CmpCase(a, b) == [a |-> "Cmp", cls |-> "shifted-lattice", n |-> Len(a), ot |-> SetToSeq(OTys(Rng(a) \cup Rng(b))), arg |-> [a |-> a, b |-> b], exp |-> CmpExp(a, b)]
CmpBase == IF Group \notin {"cmp", "misc"} THEN {} ELSE {TS[k] : k \in {x \in 1..M : Mine(x) /\ (N = 2 \/ x % (IF Level = 1 THEN (IF N = 3 THEN 1 ELSE 4) ELSE (IF N = 3 THEN 5 ELSE 20)) = (IF Level = 1 /\ N = 3 THEN 0 ELSE 1))}}
CmpCases == IF Group \notin {"cmp", "misc"} THEN <<>> ELSE
  LET ps == SetToSeq(CmpBase \X [1..N -> {-1, 0, 1}])
  IN [i \in DOMAIN ps |-> LET a == ps[i][1]
                              d == ps[i][2]
                          IN CmpCase([x \in 1..N |-> a[x] + 8], [x \in 1..N |-> a[x] + 8 + d[x] * x])]

\* extremes of the element types (no arithmetic: comparisons, min / max only): for each family of element types the
\* components range over the bounds of the type (for the 32 / 64-bit types: of TLC's integers = INT32_MAX, for float:
\* of the window of exact integers), their neighbours and 0
ExtSets == << {-128, -127, -1, 0, 1, 126, 127}, {0, 1, 254, 255}, {-32768, -32767, 0, 32766, 32767}, {0, 1, 65534, 65535},
              {-2147483647, -2147483646, 0, 2147483646, 2147483647}, {-16777216, -16777215, 0, 16777215, 16777216} >>
ExtOn   == Group \in {"ext", "misc"} /\ LatN = "S" /\ Part = 0
ExtSeqs == [e \in DOMAIN ExtSets |-> IF ExtOn THEN SetToSeq([1..N -> ExtSets[e]]) ELSE <<>>]
ExtK    == IF N = 2 THEN 49 ELSE IF Level = 0 THEN 60 ELSE 300
ExtCases == IF ~ExtOn THEN <<>> ELSE
  LET ps == SetToSeq((DOMAIN ExtSets) \X (1..ExtK) \X (0..3))
  IN [i \in DOMAIN ps |-> LET sq == ExtSeqs[ps[i][1]]
                              ME == Len(sq)
                              k  == ps[i][2]
                              j  == ps[i][3]
                              a  == sq[((37 * k) % ME) + 1]
                          IN [CmpCase(a, IF j = 0 THEN a ELSE sq[((53 * k + 101 * j) % ME) + 1]) EXCEPT !.cls = "extremes"]]

\* ---------------------------------------------------------------------------
\* group "mca": compound assignment  a op= s  /  a op= b  where the right-hand side has ANOTHER arithmetic type u
\*   cls "float-rhs": integer element types, right-hand side of type float / double with fractional values p / q
\*                    (computed in the floating type, the result truncated: VecAlgebra!CAddQ ..), kinds vs (scalar) and vv
\*   cls "wide-int-rhs": right-hand side of type int32 / int64 with values outside the narrow element types
\*                    (computed in the wider type: x / 300 = 0 and x % 300 = x for a uint8_t x)
\* Results whose conversion back to T is undefined (truncated value outside T) are not emitted.
\* ---------------------------------------------------------------------------
Fractions  == << <<1, 2>>, <<5, 2>>, <<-3, 2>>, <<3, 4>>, <<7, 2>>, <<-1, 2>>, <<9, 4>>, <<3, 2>> >>          \* p / q, none integral
WideInts   == << 300, -300, 1000, 257, 70000, -70000, 65537, 256, 65536, 129, -129, 40000 >>
McaFloatExp(a, p, q, bp) ==
  LET T  == OTys(Rng(a)) \cap IntTypes
      sp == Splat(p, Len(a))
      add == [vs |-> CAddQ(a, sp, q), vv |-> CAddQ(a, bp, q)]
      sub == [vs |-> CSubQ(a, sp, q), vv |-> CSubQ(a, bp, q)]
      mul == [vs |-> CMulQ(a, sp, q), vv |-> CMulQ(a, bp, q)]
      div == [vs |-> CDivQ(a, sp, q), vv |-> CDivQ(a, bp, q)]
      \* every exact intermediate value must stay an exactly representable float: numerators below 2^24
      okI(x) == GExact(T, x, Ints(x) \cup {a[i] * q + AbsS(bp[i]) : i \in DOMAIN a} \cup {a[i] * q : i \in DOMAIN a})
  IN [add |-> okI(add), sub |-> okI(sub), mul |-> okI(mul), div |-> okI(div)]
McaIntExp(a, s) ==
  LET T0 == OTys(Rng(a)) \cap IntTypes
      T  == IF s < 0 THEN T0 \ {"ui", "ul"} ELSE T0          \* a negative right-hand side becomes a huge unsigned value: not decided
      add == [vs |-> VS(Add, a, s)]
      sub == [vs |-> VS(Sub, a, s)]
      mul == [vs |-> VS(Mul, a, s)]
      div == [vs |-> VS(Div, a, s)]
      mod == [vs |-> VS(Mod, a, s)]
  IN [add |-> GRingV(T, add, Ints(add)), sub |-> GRingV(T, sub, Ints(sub)), mul |-> GRingV(T, mul, Ints(mul)),
      div |-> GExact(T, div, Ints(div)), mod |-> GExact(T, mod, Ints(mod))]
McaFloatCase(a, f, bp, u) ==
  [a |-> "Mca", cls |-> "float-rhs", n |-> Len(a), ot |-> SetToSeq(OTys(Rng(a)) \cap IntTypes),
   arg |-> [a |-> a, u |-> u, sn |-> f[1], sd |-> f[2], bn |-> bp], exp |-> McaFloatExp(a, f[1], f[2], bp)]
McaIntCase(a, s, u) ==
  [a |-> "Mca", cls |-> "wide-int-rhs", n |-> Len(a), ot |-> SetToSeq(OTys(Rng(a)) \cap IntTypes),
   arg |-> [a |-> a, u |-> u, sn |-> s, sd |-> 1, bn |-> Splat(s, Len(a))], exp |-> McaIntExp(a, s)]
McaStep == IF Level = 1 \/ N < 4 THEN 1 ELSE 4
McaCases == IF Group # "mca" THEN <<>> ELSE
  LET ks == SetToSeq({k \in 1..M : Mine(k) /\ k % McaStep = 0})
      ks_set == {ks[x] : x \in DOMAIN ks}
      fs == SetToSeq(ks_set \X (DOMAIN Fractions))
      ws == SetToSeq(ks_set \X (DOMAIN WideInts))
  IN [i \in DOMAIN fs |-> LET k == fs[i][1]
                              j == fs[i][2]
                              \* numerators of the vector right-hand side: a lattice tuple made odd (2 x + 1: fractional for q = 2, 4)
                              bp == [x \in 1..N |-> 2 * TS[((P * k + 17 * j) % M) + 1][x] + 1]
                          IN McaFloatCase(TS[k], Fractions[j], bp, IF (k + j) % 2 = 0 THEN "f" ELSE "d")]
     \o [i \in DOMAIN ws |-> LET k == ws[i][1]
                                 j == ws[i][2]
                             IN McaIntCase(TS[k], WideInts[j], IF (k + j) % 2 = 0 THEN "i" ELSE "l")]

\* ---------------------------------------------------------------------------
\* group "deg": degenerate operands and aliasing operands
\*   cls "zeros"    components from {-2, 0, 1, 3}: zero components on either side (no division where a divisor is zero), the
\*                  zero vector on either side
\*   cls "parallel" b = m * a for m in {1, -1, 2, -2}: equal, anti-parallel, parallel operands (cross product = 0, dot = m |a|^2)
\*   action "Alias" operands that ARE the same object: a op a, a op= a, and a op= a.c / a op a.c where the scalar operand is
\*                  component c of the vector itself - the expected value is the lifting with the value the component had when
\*                  the operation was called (exp.vs is computed with s = a[c])
\* ---------------------------------------------------------------------------
LZ  == {-2, 0, 1, 3}
ZT  == IF Group = "deg" THEN SetToSeq(DistinctVecs(LZ, N)) ELSE <<>>
DegOn == Group = "deg"
ZeroPairs == IF ~DegOn \/ LatN # "S" THEN <<>> ELSE
  LET ps == SetToSeq((DOMAIN ZT) \X (DOMAIN ZT))
  IN [i \in DOMAIN ps |-> [BinCase(ZT[ps[i][1]], ZT[ps[i][2]], <<0, 2, -3>>[((ps[i][1] + ps[i][2]) % 3) + 1]) EXCEPT !.cls = "zeros"]]
ZeroVecs == IF ~DegOn THEN <<>> ELSE
  LET ks == SetToSeq({k \in 1..M : k % (IF N = 2 THEN 3 ELSE IF N = 3 THEN 15 ELSE 60) = 1})
  IN [j \in DOMAIN ks |-> [BinCase(Splat(0, N), TS[ks[j]], LatSeq[(j % NL) + 1]) EXCEPT !.cls = "zeros"]]
     \o [j \in DOMAIN ks |-> [BinCase(TS[ks[j]], Splat(0, N), 0) EXCEPT !.cls = "zeros"]]
Multiples == IF LatN = "S" THEN <<1, -1, 2, -2>> ELSE <<1, 2, 3>>
ParCases == IF ~DegOn THEN <<>> ELSE
  LET ks == SetToSeq({k \in 1..M : k % (IF N = 2 THEN 1 ELSE IF N = 3 THEN 4 ELSE 16) = 0})
      ps == SetToSeq({ks[x] : x \in DOMAIN ks} \X (DOMAIN Multiples))
  IN [i \in DOMAIN ps |-> LET a == TS[ps[i][1]]
                              m == Multiples[ps[i][2]]
                          IN [BinCase(a, VS(Mul, a, m), m) EXCEPT !.cls = "parallel"]]
AliasCase(a, c) == [a |-> "Alias", cls |-> "alias", n |-> Len(a), ot |-> SetToSeq(OTys(Rng(a))), arg |-> [a |-> a, k |-> c],
                    exp |-> LET e == BinExp(a, a, a[c + 1])
                            IN [op \in (DOMAIN e) \cap {"add", "sub", "mul", "div", "min", "max"} |-> e[op]]
                               @@ [pos |-> GExact(OTys(Rng(a)), [r |-> a], Rng(a))]]
AliasCases == IF ~DegOn THEN <<>> ELSE
  LET ks == SetToSeq({k \in 1..M : k % (IF N = 2 THEN 1 ELSE IF N = 3 THEN 3 ELSE 12) = 0})
      ps == SetToSeq({ks[x] : x \in DOMAIN ks} \X (0..(N - 1)))
  IN [i \in DOMAIN ps |-> AliasCase(TS[ps[i][1]], ps[i][2])]
DegCases == ZeroPairs \o ZeroVecs \o ParCases \o AliasCases

\* ---------------------------------------------------------------------------
\* group "tern": three vectors, a weight 3-vector, a lerp factor k / 4
\* ---------------------------------------------------------------------------
TernExp(a, b, c, f, k) ==
  LET T  == OTys(Rng(a) \cup Rng(b) \cup Rng(c) \cup Rng(f))
      ip == InterpolateUV(f, a, b, c)
      ipI == Rng(ip) \cup UNION {{f[1] * a[i], f[2] * b[i], f[3] * c[i], f[1] * a[i] + f[2] * b[i]} : i \in DOMAIN a}
      base == [ interp |-> GRingV(T, [r |-> ip], ipI),
                clamp  |-> GExact(T, [r |-> Clamp(a, b, c)], Rng(a) \cup Rng(b) \cup Rng(c)) ]
      mdI == Rng(Madd(a, b, c)) \cup Rng(Mul(a, b))
      md == IF Len(a) = 3 /\ AllInRange("f", mdI) THEN [madd |-> GExact(T, [r |-> Madd(a, b, c)], mdI)] ELSE << >>      \* scalar madd is float-only
      lp == IF LerpExact(k, a, b)
            THEN [lerp |-> GExact(T \cap FltTypes, [r |-> Lerp(k, a, b)], Rng(Lerp4(k, a, b)))]
            ELSE << >>
  IN base @@ md @@ lp
TernCase(a, b, c, f, k) == [a |-> "Tern", n |-> Len(a), ot |-> SetToSeq(OTys(Rng(a) \cup Rng(b) \cup Rng(c) \cup Rng(f))), arg |-> [a |-> a, b |-> b, c |-> c, f |-> f, k |-> k], exp |-> TernExp(a, b, c, f, k)]
TJ == IF Level = 0 THEN (IF N = 2 THEN 8 ELSE IF N = 3 THEN 3 ELSE 1) ELSE (IF N = 2 THEN 40 ELSE IF N = 3 THEN 24 ELSE 8)
TernIdx == IF Group \notin {"tern", "misc"} THEN {} ELSE {<<k, j>> : k \in {x \in 1..M : Mine(x)}, j \in 1..TJ}
TernCases == IF Group \notin {"tern", "misc"} THEN <<>> ELSE
  LET ps == SetToSeq(TernIdx)
  IN [i \in DOMAIN ps |-> LET k == ps[i][1]
                              j == ps[i][2]
                          IN TernCase(TS[k], TS[((P * k + 17 * j) % M) + 1], TS[((13 * k + 31 * j + 5) % M) + 1],
                                      T3[((7 * k + 3 * j) % M3) + 1], (k + j) % 5)]

\* ---------------------------------------------------------------------------
\* group "conv": constructors and conversions between shapes and element types (index maps)
\* ---------------------------------------------------------------------------
\* conversion of the value x from element type `from` to `to`: exact where it fits; an integer source is reduced modulo
\* 2^8 / 2^16 by a narrow unsigned target; everything else is not decided
ConvTargets(from, ints) == {to \in Types : AllInRange(to, ints) \/ (from \in IntTypes /\ to \in WrapTypes)}
ConvV(to, v) == IF AllInRange(to, Rng(v)) THEN v ELSE NarrowV(to, v)
ConvRec(from, v) == [to \in ConvTargets(from, Rng(v)) |-> ConvV(to, v)]
ConvExp(a, z, q) ==
  LET T == OTys(Rng(a) \cup {z} \cup Rng(q))
      srcI == T \cap IntTypes
      srcF == T \cap FltTypes
      base == [ splat |-> GExact(T, [r |-> Splat(z, Len(a))], {z}),
                conv  |-> (IF srcI = {} THEN <<>> ELSE << [ty |-> SetToSeq(srcI), v |-> ConvRec("i", a)] >>)
                            \o (IF srcF = {} THEN <<>> ELSE << [ty |-> SetToSeq(srcF), v |-> ConvRec("f", a)] >>) ]
      s2 == IF Len(a) = 2 THEN [v3from2 |-> GExact(T, [r |-> V3From2(a, z)], {z}), v4from22 |-> GExact(T, [r |-> V4From22(a, q)], {z})] ELSE << >>
      s3 == IF Len(a) = 3 THEN [v4from3 |-> GExact(T, [r |-> V4From3(a, z)], {z}), repad |-> GExact(T, [r |-> a], {z})] ELSE << >>
  IN base @@ s2 @@ s3
ConvCase(a, z, q) == [a |-> "Conv", cls |-> "lattice", n |-> Len(a), ot |-> SetToSeq(OTys(Rng(a) \cup {z} \cup Rng(q))), arg |-> [a |-> a, z |-> z, q |-> q], exp |-> ConvExp(a, z, q)]
\* values at the boundaries of the element types (conversions between element types, splat): one family of values per element
\* type width - the bounds of the type, their neighbours on both sides (which wrap / do not fit), 0; a tuple takes its components
\* from one family, so every element type gets tuples it can hold and tuples that only just do not fit
BoundFams == << <<-129, -128, -127, -1, 0, 1, 126, 127, 128>>, <<0, 1, 127, 128, 129, 254, 255, 256, 257>>,
                <<-32769, -32768, -32767, -129, 128, 255, 256, 32767, 32768>>, <<0, 255, 256, 257, 32768, 65534, 65535, 65536, 65537>>,
                <<-2147483647, -65537, -65536, -32769, 32768, 65536, 65537, 2147483646, 2147483647>>,
                <<0, 1, 65535, 65536, 65537, 16777215, 16777216, 2147483646, 2147483647>> >>
BoundCases == IF Part # 0 \/ LatN # "S" THEN <<>> ELSE
  LET ps == SetToSeq((DOMAIN BoundFams) \X (1..9))
  IN [x \in DOMAIN ps |-> LET F == BoundFams[ps[x][1]]
                              k == ps[x][2]
                              at(j) == F[((k + j) % 9) + 1]
                          IN [ConvCase([i \in 1..N |-> at(2 * (i - 1))], at(4), <<at(1), at(5)>>) EXCEPT !.cls = "boundaries"]]
ConvCases == IF Group \notin {"conv", "misc"} THEN <<>> ELSE
  LET ks == SetToSeq({k \in 1..M : Mine(k)})
  IN [j \in DOMAIN ks |-> LET k == ks[j] IN ConvCase(TS[k], LatSeq[(k % NL) + 1], T2[((5 * k) % M2) + 1])] \o BoundCases

\* ---------------------------------------------------------------------------
\* group "tol": inputs of the operations whose results are decided within a tolerance by VecTolValidate (rcp, rcp_safe,
\* normalize, safe_normalize, length) or as agreement with the scalar function on each component (sin, cos)
\* ---------------------------------------------------------------------------
TolCase(a) == [a |-> "Tol", n |-> Len(a), ot |-> SetToSeq(OTys(Rng(a)) \cap FltTypes), arg |-> [a |-> a], exp |-> << >>]
TolCases == IF Group \notin {"tol", "misc"} \/ LatN # "S" THEN <<>> ELSE      \* floating-point element types only: the signed lattice
  LET ks == SetToSeq({k \in 1..M : Mine(k)})
      ps == IF Part = 0 THEN SetToSeq(PythSet) ELSE <<>>
  IN [j \in DOMAIN ks |-> TolCase(TS[ks[j]])] \o [j \in DOMAIN ps |-> TolCase(ps[j])]

\* ---------------------------------------------------------------------------
\* group "meta": one case - the table of usual arithmetic conversions (result element type of mixed-type overloads),
\* and sin / cos at the exactly representable point 0
\* ---------------------------------------------------------------------------
TypeSeq == SetToSeq(Types)
MetaCases == IF Group # "meta" THEN <<>> ELSE
  << [a |-> "Meta", n |-> 0, ot |-> <<>>, arg |-> << >>,
      exp |-> [uac |-> [t \in Types |-> [u \in Types |-> UAC(t, u)]],
               inttypes |-> SetToSeq(IntTypes), flttypes |-> SetToSeq(FltTypes)]] >>
     \o [n \in 1..3 |-> [a |-> "Zero", n |-> n + 1, ot |-> SetToSeq(Types), arg |-> [a |-> Splat(0, n + 1)],
                         exp |-> [sin0 |-> GAll(Types, [r |-> Splat(0, n + 1)]), cos0 |-> GAll(Types, [r |-> Splat(1, n + 1)]),
                                  \* the zero vector: length 0; safe_normalize (the operand it exists for) returns the zero vector
                                  length0 |-> GAll(Types, [r |-> 0]), safenorm0 |-> GAll(FltTypes, [r |-> Splat(0, n + 1)])]]]

Cases == CASE Group = "un" -> UnCases
           [] Group = "bin" -> BinCases
           [] Group = "cmp" -> CmpCases
           [] Group = "tern" -> TernCases
           [] Group = "conv" -> ConvCases
           [] Group = "tol" -> TolCases
           [] Group = "meta" -> MetaCases
           [] Group = "mca" -> McaCases
           [] Group = "deg" -> DegCases
           [] Group = "misc" -> UnCases \o CmpCases \o ExtCases \o TernCases \o ConvCases \o TolCases
           [] Group = "ext" -> ExtCases

ASSUME ndJsonSerialize(OutFile, Cases)
ASSUME PrintT(<<"C04-CASES", Group, N, LatN, Part, Len(Cases)>>)
===============================================================================
