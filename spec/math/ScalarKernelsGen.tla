---------------------------- MODULE ScalarKernelsGen ----------------------------
(* Spec -> code for C07: TLC enumerates the boundary-heavy operand grids of    *)
(* the binary / ternary scalar kernels and emits one case per operand tuple.   *)
(*                                                                             *)
(*  * Cases with `exp`: the property determines the result uniquely and the    *)
(*    operands are dyadic lattice values k/8 (every intermediate value of the  *)
(*    float evaluation is exact, so the result is the exact rational number):  *)
(*      LatSign  exp.v = sign(k/8)                                             *)
(*      LatMadd  exp.v = (a/8)(b/8) + c/8 in 64ths                             *)
(*      LatLerp  exp.v = (1 - f/8)(a/8) + (f/8)(b/8) in 64ths                  *)
(*      LatDru   exp.q = DivRoundUpInt(a, b), after TLC has checked that it is *)
(*               THE solution of the property's definition                     *)
(*    The driver evaluates the real function and reports the result scaled to  *)
(*    an integer (and whether the scaling was exact); the orchestrator         *)
(*    compares for equality.                                                   *)
(*  * Cases without `exp` (the property is a law, not a function: clamp; wide  *)
(*    integers beyond TLC's 32 bits: divRoundUp; rounded results: madd, lerp,  *)
(*    deg2rad on bit patterns): the driver reports the result's bit pattern /  *)
(*    limbs and ScalarKernelsValidate judges it.                               *)
(* IOEnv.C07_LEVEL = 0 (quick) or 1 (thorough) selects the grid sizes.         *)
EXTENDS ScalarKernels, IOUtils, Json, SequencesExt, FiniteSets, TLC

Level == atoi(IOEnv.C07_LEVEL)

\* ---- dyadic lattice (eighths) ------------------------------------------------------------
Lat8  == IF Level = 0 THEN {-40, -12, -3, 0, 2, 8, 20, 56} ELSE {-40, -24, -12, -8, -3, -1, 0, 1, 2, 8, 12, 20, 56}
Fac8  == IF Level = 0 THEN {0, 2, 4, 8, 12, -4} ELSE {0, 1, 2, 4, 6, 8, 12, 16, -4, -8}
\* every lattice value, product and sum below is an integer multiple of 2^-6 of magnitude < 2^24: exact in binary32
ASSUME \A a \in Lat8 \cup Fac8, b \in Lat8, c \in Lat8 : a * b + 8 * c \in -16777215..16777215 /\ (8 - a) * b \in -16777215..16777215
Sgn(n) == IF n < 0 THEN -1 ELSE 1
LatSign == {[a |-> "LatSign", arg |-> [x |-> x], exp |-> [v |-> Sgn(x), exact |-> TRUE]] : x \in Lat8 \cup {-1, 1}}
LatMadd == {[a |-> "LatMadd", arg |-> [a |-> a, b |-> b, c |-> c], exp |-> [v |-> a * b + 8 * c, exact |-> TRUE]] : a \in Lat8, b \in Lat8, c \in Lat8}
LatLerp == {[a |-> "LatLerp", arg |-> [ty |-> ty, f |-> f, a |-> a, b |-> b], exp |-> [v |-> (8 - f) * a + f * b, exact |-> TRUE]] :
              ty \in {"f", "d"}, f \in Fac8, a \in Lat8, b \in Lat8}

\* ---- divRoundUp on integers TLC can compute with ---------------------------------------
IntTypes == {"i8", "u8", "i16", "u16", "i32", "u32", "i64", "u64"}
Bits(ty) == CASE ty \in {"i8", "u8"} -> 8 [] ty \in {"i16", "u16"} -> 16 [] ty \in {"i32", "u32"} -> 32 [] OTHER -> 64
Signed(ty) == ty \in {"i8", "i16", "i32", "i64"}
\* the largest value of the type if TLC can hold it, else the largest TLC integer
MaxInt(ty) == CASE ty = "i8" -> 127 [] ty = "u8" -> 255 [] ty = "i16" -> 32767 [] ty = "u16" -> 65535 [] OTHER -> 2147483647
HoldsMax(ty) == ty \in {"i8", "u8", "i16", "u16", "i32"}
DruA(ty) == {0, 1, 2, 3, 7, 8, 9, 63, 64, 65, 100} \cup {MaxInt(ty) - i : i \in 0..3} \cup {MaxInt(ty) \div 2 + i : i \in -1..1}
DruB(ty) == {1, 2, 3, 7, 8, 64, 100} \cup {MaxInt(ty) - i : i \in 0..2} \cup {MaxInt(ty) \div 2 + i : i \in 0..1}
\* does a + b - 1 exceed the type's largest value (no overflow in TLC: compare a with max - b + 1)
DruCls(ty, a, b) == IF HoldsMax(ty) /\ a > MaxInt(ty) - b + 1 THEN "a+b-1>max" ELSE "a+b-1<=max"
\* the closed form is THE solution of the definition (decided on limbs: q * b may exceed TLC's integers)
ASSUME \A ty \in IntTypes : \A a \in DruA(ty), b \in DruB(ty) :
          LET q == SDInt(DivRoundUpInt(a, b)) IN
             /\ IsDivRoundUp(SDInt(a), SDInt(b), q)
             /\ ~IsDivRoundUp(SDInt(a), SDInt(b), SDSub(q, SDOne)) /\ ~IsDivRoundUp(SDInt(a), SDInt(b), SDAdd(q, SDOne))
LatDru == {[a |-> "LatDru", cls |-> ty \o "," \o DruCls(ty, a, b), arg |-> [ty |-> ty, a |-> a, b |-> b], exp |-> [q |-> DivRoundUpInt(a, b)]] :
             ty \in IntTypes, a \in DruA("i8") \cup DruA("i16") \cup DruA("i32"), b \in DruB("i8") \cup DruB("i16") \cup DruB("i32")}
\* only operands the type can hold
LatDruOK == {c \in LatDru : c.arg.a <= MaxInt(c.arg.ty) /\ c.arg.b <= MaxInt(c.arg.ty)}

\* ---- integers of any width as sign + limbs ------------------------------------------------
Z(neg, m)  == [n |-> IF neg /\ m # Zero THEN 1 ELSE 0, m |-> m]
ZInt(k)    == IF k < 0 THEN Z(TRUE, FromInt(0 - k)) ELSE Z(FALSE, FromInt(k))
ZMaxL(ty)  == Sub(Pow2L(Bits(ty) - (IF Signed(ty) THEN 1 ELSE 0)), One)
ZTop(ty)   == {Z(FALSE, Sub(ZMaxL(ty), FromInt(i))) : i \in 0..2}                                 \* max, max-1, max-2
ZHalf(ty)  == {Z(FALSE, Add(Pow2L(Bits(ty) - (IF Signed(ty) THEN 2 ELSE 1)), FromInt(i))) : i \in 0..1} \cup
              {Z(FALSE, Sub(Pow2L(Bits(ty) - (IF Signed(ty) THEN 2 ELSE 1)), One))}              \* around max/2
ZBottom(ty) == IF Signed(ty) THEN {Z(TRUE, Pow2L(Bits(ty) - 1)), Z(TRUE, Sub(Pow2L(Bits(ty) - 1), One))} ELSE {ZInt(0)}   \* min, min+1
ZSmall     == {ZInt(k) : k \in {0, 1, 2, 3, 7, 100}}
\* neighbourhoods of the powers of two at which narrower types end (127/128, 255/256/257, 65535/65536/65537, 2^24, 2^31, 2^32 +- 1)
ZPow(ty)   == {z \in {Z(FALSE, Add(Sub(Pow2L(k), One), FromInt(d))) : k \in {7, 8, 15, 16, 24, 31, 32}, d \in 0..2} : LessEq(z.m, ZMaxL(ty))}
DruWide == UNION {{[a |-> "Dru", arg |-> [ty |-> ty, bits |-> Bits(ty), sgn |-> IF Signed(ty) THEN 1 ELSE 0, a |-> a, b |-> b]] :
                      a \in ZTop(ty) \cup ZHalf(ty) \cup ZSmall \cup ZPow(ty), b \in ZTop(ty) \cup ZHalf(ty) \cup (ZSmall \ {ZInt(0)}) \cup ZPow(ty)} : ty \in IntTypes}
ClampIVals(ty) == ZTop(ty) \cup ZBottom(ty) \cup {ZInt(k) : k \in {0, 1, 5, 100}} \cup (IF Signed(ty) THEN {ZInt(-1), ZInt(-100)} ELSE {})
                  \cup {z \in ZPow(ty) : z.m \in {Pow2L(8), Pow2L(16), Pow2L(31), Pow2L(32)}}
\* thorough: x also runs through every power-of-two neighbourhood
ClampIX(ty) == IF Level = 0 THEN ClampIVals(ty) ELSE ClampIVals(ty) \cup ZPow(ty)
ClampI == UNION {{[a |-> "ClampI", arg |-> [ty |-> ty, x |-> x, lo |-> lo, hi |-> hi]] : x \in ClampIX(ty), lo \in ClampIVals(ty), hi \in ClampIVals(ty)} :
                     ty \in IntTypes}

\* ---- binary32 patterns --------------------------------------------------------------------
Pat(s, e, f) == ToHalves([s |-> s, e |-> e, f |-> f])
BothSigns(e, f) == {Pat(0, e, f), Pat(1, e, f)}
FEdge == BothSigns(0, 0) \cup BothSigns(0, 1) \cup BothSigns(0, FRAC - 1) \cup BothSigns(1, 0) \cup BothSigns(BIAS, 0) \cup BothSigns(BIAS, 1)
         \cup BothSigns(BIAS - 1, 0) \cup BothSigns(BIAS - 1, FRAC - 1) \cup BothSigns(BIAS + 1, 0) \cup BothSigns(EALL - 1, FRAC - 1) \cup BothSigns(EALL, 0)
         \cup {Pat(0, BIAS - 2, 0), Pat(0, BIAS - 1, FRAC \div 2), Pat(0, EALL, 1)}
FBound == BothSigns(0, 0) \cup BothSigns(BIAS, 0) \cup BothSigns(0, 1) \cup BothSigns(EALL, 0) \cup BothSigns(EALL - 1, FRAC - 1)
          \cup {Pat(0, BIAS - 1, 0), Pat(0, BIAS + 1, 0), Pat(0, BIAS, 1), Pat(0, EALL, 1)}
ClampF == {[a |-> "ClampF", arg |-> [ty |-> ty, x |-> x, lo |-> lo, hi |-> hi]] : ty \in {"f", "d"}, x \in FEdge, lo \in FBound, hi \in FBound}
\* the lattice as patterns (law-judged twin of LatMadd / LatLerp: the result's bit pattern is recorded)
L8(k) == ToHalves(Encode(k < 0, IF k < 0 THEN 0 - k ELSE k, -3))
ASSUME \A k \in Lat8 \cup Fac8 : Representable(IF k < 0 THEN 0 - k ELSE k, -3)
MaddB == {[a |-> "Madd", arg |-> [a |-> L8(a), b |-> L8(b), c |-> L8(c)]] : a \in Lat8, b \in Lat8, c \in Lat8}
LerpB == {[a |-> "Lerp", arg |-> [f |-> L8(f), a |-> L8(a), b |-> L8(b)]] : f \in Fac8, a \in Lat8, b \in Lat8}
SignB == {[a |-> "Sign", arg |-> [x |-> x]] : x \in FEdge}
\* degrees: every multiple of 1/8 up to 45, every integer degree to 720, both signs, and the edge patterns
DegVals == {Encode(FALSE, k, -3) : k \in 0..360} \cup {Encode(FALSE, k, 0) : k \in 46..720} \cup {Encode(TRUE, k, 0) : k \in {1, 45, 90, 180, 360}}
Deg2Rad == {[a |-> "Deg2Rad", arg |-> [x |-> ToHalves(d)]] : d \in DegVals} \cup {[a |-> "Deg2Rad", arg |-> [x |-> x]] : x \in FEdge}

\* ---- lerp<T> for the integer types ----------------------------------------------------------
\* small operands, factors k/8: (8 - f) a + f b is an exact float; the conversion back to T truncates towards zero
TruncDiv8(n) == IF n >= 0 THEN n \div 8 ELSE 0 - ((0 - n) \div 8)
LatLerpI == UNION {{[a |-> "LatLerpI", arg |-> [ty |-> ty, f |-> f, a |-> a, b |-> b], exp |-> [v |-> TruncDiv8((8 - f) * a + f * b)]] :
                      f \in {0, 2, 4, 6, 8}, a \in IF Signed(ty) THEN {-100, -4, 0, 1, 8, 120} ELSE {0, 1, 4, 8, 100, 120},
                      b \in IF Signed(ty) THEN {-100, -4, 0, 1, 8, 120} ELSE {0, 1, 4, 8, 100, 120}} : ty \in IntTypes}
\* operands at the ends of the type and around 2^24 (where binary32 stops holding every integer): judged by LerpIntOk
LerpIVals(ty) == ZTop(ty) \cup ZBottom(ty) \cup {ZInt(0), ZInt(1)} \cup {z \in ZPow(ty) : z.m \in {Pow2L(24), Add(Pow2L(24), One), Pow2L(31)}}
LerpI == UNION {{[a |-> "LerpI", arg |-> [ty |-> ty, bits |-> Bits(ty), sgn |-> IF Signed(ty) THEN 1 ELSE 0, f |-> L8f, a |-> a, b |-> b]] :
                   L8f \in {ToHalves(Encode(FALSE, k, -3)) : k \in {0, 2, 4, 8}}, a \in LerpIVals(ty), b \in LerpIVals(ty)} : ty \in IntTypes}

\* ---- binary64 patterns (four 16-bit quarters) for the double instantiations ------------------------
DQ(sg, e, f4, q2, q3, q4) == <<sg * 32768 + e * 16 + f4, q2, q3, q4>>
DBoth(e, f4, q2, q3, q4) == {DQ(0, e, f4, q2, q3, q4), DQ(1, e, f4, q2, q3, q4)}
\* zeros, smallest / largest denormal, a denormal below the binary32 range, smallest normal, the ends of the binary32
\* range seen as doubles (2^-149, 2^-126, FLT_MAX, 2^128), 1, 1 + 2^-52, 1 - 2^-53, 0.5, 2, 3 (not a power of two), DBL_MAX
DFinite == DBoth(0, 0, 0, 0, 0) \cup DBoth(0, 0, 0, 0, 1) \cup DBoth(0, 15, 65535, 65535, 65535) \cup DBoth(0, 0, 1, 0, 0) \cup DBoth(1, 0, 0, 0, 0)
           \cup DBoth(874, 0, 0, 0, 0) \cup DBoth(897, 0, 0, 0, 0) \cup DBoth(1150, 15, 65535, 57344, 0) \cup DBoth(1151, 0, 0, 0, 0)
           \cup DBoth(1023, 0, 0, 0, 0) \cup {DQ(0, 1023, 0, 0, 0, 1), DQ(0, 1022, 15, 65535, 65535, 65535), DQ(0, 1022, 0, 0, 0, 0), DQ(0, 1024, 0, 0, 0, 0),
                                             DQ(0, 1024, 8, 0, 0, 0)} \cup DBoth(2046, 15, 65535, 65535, 65535)
DSpecial == DBoth(2047, 0, 0, 0, 0) \cup {DQ(0, 2047, 8, 0, 0, 0)}
DBound  == DBoth(0, 0, 0, 0, 0) \cup DBoth(1023, 0, 0, 0, 0) \cup DBoth(2046, 15, 65535, 65535, 65535) \cup {DQ(0, 0, 0, 0, 0, 1), DQ(0, 1023, 0, 0, 0, 1), DQ(0, 1150, 15, 65535, 57344, 0)}
\* the double k * 2^sh for 0 < k < 2^31
RECURSIVE DNorm(_, _)
DNorm(m, k) == IF m >= 1073741824 THEN <<m, k>> ELSE DNorm(2 * m, k - 1)
DOfInt(k, sh) == LET n == DNorm(k, sh) IN LET fr == n[1] - 1073741824 IN
                   DQ(0, n[2] + 30 + 1023, fr \div 67108864, (fr \div 1024) % 65536, (fr % 1024) * 64, 0)
ASSUME DOfInt(1, 0) = DQ(0, 1023, 0, 0, 0, 0) /\ DOfInt(3, -1) = DQ(0, 1023, 8, 0, 0, 0) /\ DOfInt(180, 0) = DQ(0, 1030, 6, 32768, 0, 0)
RcpSafeD == {[a |-> "RcpSafeD", arg |-> [x |-> x]] : x \in DFinite \cup DSpecial}
ClampD   == {[a |-> "ClampD", arg |-> [x |-> x, lo |-> lo, hi |-> hi]] : x \in DFinite, lo \in DBound, hi \in DBound}
Deg2RadD == {[a |-> "Deg2RadD", arg |-> [x |-> x]] : x \in DFinite \cup {DOfInt(k, -3) : k \in 1..360} \cup {DOfInt(k, 0) : k \in 46..720}}
LerpD    == {[a |-> "LerpD", arg |-> [f |-> L8(f), a |-> a, b |-> b]] : f \in {0, 2, 4, 8, 12, -4},
               a \in DBound \cup {DOfInt(3, 0), DOfInt(1, -30)}, b \in DBound \cup {DOfInt(3, 0), DOfInt(1, -30)}}

Cases == SetToSeq(LatSign) \o SetToSeq(LatMadd) \o SetToSeq(LatLerp) \o SetToSeq(LatDruOK) \o SetToSeq(DruWide) \o SetToSeq(ClampI)
         \o SetToSeq(ClampF) \o SetToSeq(MaddB) \o SetToSeq(LerpB) \o SetToSeq(SignB) \o SetToSeq(Deg2Rad)
         \o SetToSeq(LatLerpI) \o SetToSeq(LerpI) \o SetToSeq(RcpSafeD) \o SetToSeq(ClampD) \o SetToSeq(Deg2RadD) \o SetToSeq(LerpD)

ASSUME ndJsonSerialize(IOEnv.OUT, Cases)
ASSUME PrintT(<<"C07-CASES", Len(Cases)>>)
===============================================================================
