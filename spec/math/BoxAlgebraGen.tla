----------------------------- MODULE BoxAlgebraGen ----------------------------
(* Case generation from BoxAlgebra (constant level): every expected value is   *)
(* computed here by TLC with the operators whose agreement with the set        *)
(* semantics BoxAlgebraMC has checked.  One TLC run emits one group of cases   *)
(* for one dimension D over the axis values AXLO..AXHI:                        *)
(*    {"a": op, "cls": class, "arg": {...}, "exp": {...}}                      *)
(* Environment: OUT (file prefix), C05_GROUP, C05_D, C05_AXLO, C05_AXHI,       *)
(* C05_MODE (group "pair": "all" | "cover"; group "ray": "0" = all ray boxes,  *)
(* "k" = the k-th one), C05_LEVEL (size of the vector / map / ray families:    *)
(* 0 quick, 1 thorough).                                                       *)
EXTENDS BoxAlgebra, IOUtils, Json, SequencesExt

Group == IOEnv.C05_GROUP
D     == atoi(IOEnv.C05_D)
AXLO  == atoi(IOEnv.C05_AXLO)
AXHI  == atoi(IOEnv.C05_AXHI)
AX    == AXLO..AXHI
Mode  == IOEnv.C05_MODE
Level == atoi(IOEnv.C05_LEVEL)
OutFile == IOEnv.OUT \o "-" \o Group \o "-" \o IOEnv.C05_D \o "-" \o Mode

Box(b) == [lo |-> b.lo, hi |-> b.hi]
BoxClass(b) == IF IsCanonicalEmpty(b) THEN "empty-default"
               ELSE IF IsEmpty(b) THEN "inverted"
               ELSE IF \A i \in Ax(b) : b.lo[i] = b.hi[i] THEN "point"
               ELSE IF \E i \in Ax(b) : b.lo[i] = b.hi[i] THEN "flat"
               ELSE "solid"
PairClass(a, b) ==
  IF IsEmpty(a) /\ IsEmpty(b) THEN "both-empty"
  ELSE IF IsEmpty(a) THEN "a-empty"
  ELSE IF IsEmpty(b) THEN "b-empty"
  ELSE IF a = b THEN "equal"
  ELSE IF Disjoint(a, b) THEN "apart"
  ELSE IF Intersection(a, b) \in {a, b} THEN "nested"
  ELSE IF \E i \in Ax(a) : Size(Intersection(a, b))[i] = 0 THEN "touching"
  ELSE "overlapping"

AllB    == AllBoxes(D, AX) \cup {EmptyBox(D)}
NEB     == NEBoxes(D, AX)
ProperB == NEB \cup {EmptyBox(D)}

\* --------------------------------------------------------------------------
\* group "box": per-box observables, and the box against every point of the
\* lattice extended by one step on each side
\* --------------------------------------------------------------------------
\* (TLC evaluates every constant definition at start-up: each group guards its own)
PSeq == IF Group = "box" THEN SetToSeq(Tuples((AXLO - 1)..(AXHI + 1), D)) ELSE <<>>

UnaryExp(b) ==
  IF IsEmpty(b) THEN [empty |-> TRUE]
  ELSE IF D = 2 THEN [empty |-> FALSE, size |-> Size(b), area |-> Volume(b)]
  ELSE IF D = 3 THEN [empty |-> FALSE, size |-> Size(b), area |-> SurfaceArea3(b), volume |-> Volume(b)]
  ELSE [empty |-> FALSE, size |-> Size(b)]
UnaryCase(b) == [a |-> "Unary", cls |-> BoxClass(b), arg |-> Box(b), exp |-> UnaryExp(b)]
\* center: the member function and (vector boxes) the free function center(box) must both give the centre
CenterExp(b)  == IF D = 1 THEN [center2 |-> Center2(b)] ELSE [center2 |-> Center2(b), center2_free |-> Center2(b)]
CenterCase(b) == [a |-> "Center", cls |-> IF \A i \in Ax(b) : Center2(b)[i] % 2 = 0 THEN "even" ELSE "odd",
                  arg |-> Box(b), exp |-> CenterExp(b)]
PointsExp(b) ==
  LET cont == [k \in DOMAIN PSeq |-> ContainsPt(b, PSeq[k])]
      ext  == [k \in DOMAIN PSeq |-> Box(ExtendPt(b, PSeq[k]))]
      clp  == [k \in DOMAIN PSeq |-> Clamp(b, PSeq[k])]
  IN IF ~IsEmpty(b) THEN [contains |-> cont, extend |-> ext, clamp |-> clp]
     ELSE IF IsCanonicalEmpty(b) THEN [contains |-> cont, extend |-> ext]
     ELSE [contains |-> cont]
PointsCase(b) == [a |-> "Points", cls |-> BoxClass(b), arg |-> [lo |-> b.lo, hi |-> b.hi, pts |-> PSeq], exp |-> PointsExp(b)]

AllBSeq == IF Group = "box" THEN SetToSeq(AllB) ELSE <<>>
NEBSeq  == IF Group = "box" THEN SetToSeq(NEB) ELSE <<>>
BoxCases == [k \in DOMAIN AllBSeq |-> UnaryCase(AllBSeq[k])]
              \o [k \in DOMAIN NEBSeq |-> CenterCase(NEBSeq[k])]
              \o [k \in DOMAIN AllBSeq |-> PointsCase(AllBSeq[k])]

\* --------------------------------------------------------------------------
\* group "pair": two proper boxes (non-empty or default-constructed empty)
\* --------------------------------------------------------------------------
ResultBox(r) == IF IsEmpty(r) THEN [empty |-> TRUE] ELSE [empty |-> FALSE, lo |-> r.lo, hi |-> r.hi]
PairExp(a, b) ==
  IF D = 1 THEN [extend |-> ResultBox(ExtendBox(a, b))]
  ELSE IF D \in {2, 3}
  THEN [extend |-> ResultBox(ExtendBox(a, b)), inter |-> ResultBox(Intersection(a, b)),
        disjoint |-> Disjoint(a, b), touching |-> Touching(a, b)]
  ELSE [extend |-> ResultBox(ExtendBox(a, b)), inter |-> ResultBox(Intersection(a, b)), disjoint |-> Disjoint(a, b)]
PairCase(a, b) == [a |-> "Pair", cls |-> PairClass(a, b), arg |-> [a |-> Box(a), b |-> Box(b)], exp |-> PairExp(a, b)]

\* "all": every ordered pair.  "cover": for every two axes i < j every combination of an interval pair on
\* axis i with an interval pair on axis j (the other axes take interval pairs derived from the two indices),
\* plus the default-constructed empty box against every box that occurs.
IvPairs == SetToSeq({q \in Tuples(AX, 4) : q[1] <= q[2] /\ q[3] <= q[4]})      \* <<a.lo, a.hi, b.lo, b.hi>> on one axis
NIv     == Len(IvPairs)
CoverPair(i, j, u, v) ==
  LET pick(k) == IF k = i THEN IvPairs[u] ELSE IF k = j THEN IvPairs[v] ELSE IvPairs[((u + 7 * v + 13 * k) % NIv) + 1]
  IN << [lo |-> [k \in 1..D |-> pick(k)[1]], hi |-> [k \in 1..D |-> pick(k)[2]]],
        [lo |-> [k \in 1..D |-> pick(k)[3]], hi |-> [k \in 1..D |-> pick(k)[4]]] >>
CoverPairs == IF Group # "pair" \/ Mode # "cover" THEN {} ELSE
              {CoverPair(ij[1], ij[2], u, v) : ij \in {x \in (1..D) \X (1..D) : x[1] < x[2]}, u \in 1..NIv, v \in 1..NIv}
PairSet == IF Group # "pair" THEN {} ELSE IF Mode = "cover"
           THEN CoverPairs \cup {<<EmptyBox(D), pr[1]>> : pr \in CoverPairs} \cup {<<pr[2], EmptyBox(D)>> : pr \in CoverPairs}
                  \cup {<<EmptyBox(D), EmptyBox(D)>>}
           ELSE ProperB \X ProperB
PairSeq == SetToSeq(PairSet)
PairCases == [k \in DOMAIN PairSeq |-> PairCase(PairSeq[k][1], PairSeq[k][2])]

\* group "pairinv": an inverted operand - only what the set semantics says: no common point, the intersection is empty
InvB == {b \in AllBoxes(D, AX) : IsEmpty(b)}
PairInvSeq == IF Group # "pairinv" THEN <<>> ELSE SetToSeq((InvB \X ProperB) \cup (ProperB \X InvB) \cup (InvB \X InvB))
PairInvCases == [k \in DOMAIN PairInvSeq |->
                   [a |-> "PairInv", cls |-> "inverted-operand",
                    arg |-> [a |-> Box(PairInvSeq[k][1]), b |-> Box(PairInvSeq[k][2])], exp |-> [inter |-> [empty |-> TRUE]]]]

\* --------------------------------------------------------------------------
\* group "vec": scaling by non-negative factors, translation
\* --------------------------------------------------------------------------
ScaleVecs == IF (Level = 0 /\ D >= 3) \/ D >= 4 THEN {s \in Tuples(0..2, D) : SumTo(s, D) % 3 = 0} ELSE Tuples(0..2, D)
TransVecs == IF (Level = 0 /\ D >= 3) \/ D >= 4 THEN {v \in Tuples({-2, 0, 3}, D) : SumTo(v, D) % 2 = 1} ELSE Tuples({-2, 0, 3}, D)
ScaleSeq  == IF Group # "vec" THEN <<>> ELSE SetToSeq(NEB \X ScaleVecs)
TransSeq  == IF Group # "vec" THEN <<>> ELSE SetToSeq(NEB \X TransVecs)
VecCases  == [k \in DOMAIN ScaleSeq |->
                LET b == ScaleSeq[k][1]
                    s == ScaleSeq[k][2]
                IN [a |-> "Scale", cls |-> BoxClass(b), arg |-> [lo |-> b.lo, hi |-> b.hi, v |-> s],
                    exp |-> [r |-> Box(Scale(b, s)), l |-> Box(Scale(b, s))]]]
             \o [k \in DOMAIN TransSeq |->
                LET b == TransSeq[k][1]
                    v == TransSeq[k][2]
                IN [a |-> "Translate", cls |-> BoxClass(b), arg |-> [lo |-> b.lo, hi |-> b.hi, v |-> v],
                    exp |-> [r |-> Box(Translate(b, v)), l |-> Box(Translate(b, v))]]]

\* --------------------------------------------------------------------------
\* group "big": size and centre of integer boxes whose coordinates lie beyond 2^24 (exactly representable in the
\* integer element types and in double, not in float); all coordinates odd, so every centre is an integer
\* --------------------------------------------------------------------------
BigAxis == IF D = 1 THEN {-16777219, -16777217, 16777215, 16777217, 16777219, 16777221}
           ELSE IF D = 2 THEN {-16777217, 16777215, 16777217, 16777221}
           ELSE IF D = 3 THEN {-16777217, 16777217, 16777219}
           ELSE {16777217, 16777221}
BigSeq   == IF Group # "big" THEN <<>> ELSE SetToSeq(NEBoxes(D, BigAxis))
BigCases == [k \in DOMAIN BigSeq |->
               LET b == BigSeq[k] IN
               [a |-> "MeasureBig", cls |-> "beyond-2^24", arg |-> Box(b),
                exp |-> IF D = 1 THEN [size |-> Size(b), center2 |-> Center2(b)]
                        ELSE [size |-> Size(b), center2 |-> Center2(b), center2_free |-> Center2(b)]]]

\* --------------------------------------------------------------------------
\* group "emptyops": scaling by POSITIVE factors and translation of boxes without points, through both operand orders
\* (r = box op v, l = v op box).  Boxes: the default-constructed empty box; boxes inverted in the first / the last / every
\* axis; intersections of two boxes that are disjoint along the first / the last axis (all finite coordinates even, so the
\* factors 1/2 and 3/2 give integers).  Expected values are the definition (ScaleQ / TranslateB); the laws LawScaleEmpty /
\* LawTranslateEmpty / LawScalePair / LawTranslatePair say what they mean: still no points, still the identity of extend.
\* --------------------------------------------------------------------------
EvenInverted(S) == [lo |-> [i \in 1..D |-> IF i \in S THEN 4 ELSE -2], hi |-> [i \in 1..D |-> IF i \in S THEN -2 ELSE 2]]
\* two non-empty boxes separated along axis k (k = 0: along every axis), overlapping in the other axes
SepPair(k) == << [lo |-> [i \in 1..D |-> -4], hi |-> [i \in 1..D |-> IF i = k \/ k = 0 THEN -2 ELSE 2]],
                 [lo |-> [i \in 1..D |-> IF i = k \/ k = 0 THEN 2 ELSE -2], hi |-> [i \in 1..D |-> 4]] >>
\* ... and two that touch in the face x[1] = 0 (their intersection is flat, not empty)
TouchPair == << [lo |-> [i \in 1..D |-> -4], hi |-> [i \in 1..D |-> IF i = 1 THEN 0 ELSE 2]],
                [lo |-> [i \in 1..D |-> IF i = 1 THEN 0 ELSE -2], hi |-> [i \in 1..D |-> 4]] >>
EOBoxes == << [b |-> EmptyBox(D), cls |-> "empty-default"],
              [b |-> EvenInverted({1}), cls |-> "inverted"], [b |-> EvenInverted({D}), cls |-> "inverted"], [b |-> EvenInverted(1..D), cls |-> "inverted"],
              [b |-> Intersection(SepPair(1)[1], SepPair(1)[2]), cls |-> "disjoint-intersection"],
              [b |-> Intersection(SepPair(D)[1], SepPair(D)[2]), cls |-> "disjoint-intersection"],
              [b |-> Intersection(SepPair(0)[1], SepPair(0)[2]), cls |-> "disjoint-intersection"] >>
\* positive factors n / den: 1, 2, distinct per axis, large, 1/2, 3/2 and 1/2 mixed
EOFactors == << [n |-> [i \in 1..D |-> 1], den |-> 1], [n |-> [i \in 1..D |-> 2], den |-> 1], [n |-> [i \in 1..D |-> i], den |-> 1],
                [n |-> [i \in 1..D |-> 1000], den |-> 1], [n |-> [i \in 1..D |-> 1], den |-> 2],
                [n |-> [i \in 1..D |-> IF i % 2 = 1 THEN 3 ELSE 1], den |-> 2] >>
EOTrans   == << [i \in 1..D |-> 0], [i \in 1..D |-> 7], [i \in 1..D |-> -4], [i \in 1..D |-> IF i % 2 = 1 THEN -3 ELSE 5] >>
EOPts     == SetToSeq(Tuples({-2, 0, 3}, D))
EOResult(b, r) ==
  IF IsCanonicalEmpty(b)
  THEN [empty |-> TRUE, lo |-> r.lo, hi |-> r.hi, contains |-> [k \in DOMAIN EOPts |-> ContainsPt(r, EOPts[k])],
        extend |-> [k \in DOMAIN EOPts |-> Box(ExtendPt(r, EOPts[k]))]]
  ELSE [empty |-> IsEmpty(r), lo |-> r.lo, hi |-> r.hi, contains |-> [k \in DOMAIN EOPts |-> ContainsPt(r, EOPts[k])]]
ScaleEmptyCase(e, f) ==
  LET r == ScaleQ(e.b, f.n, f.den) IN
  [a |-> "ScaleEmpty", cls |-> e.cls, arg |-> [lo |-> e.b.lo, hi |-> e.b.hi, v |-> f.n, den |-> f.den, pts |-> EOPts],
   exp |-> [r |-> EOResult(e.b, r), l |-> EOResult(e.b, r)]]
TranslateEmptyCase(e, v) ==
  LET r == TranslateB(e.b, v) IN
  [a |-> "TranslateEmpty", cls |-> e.cls, arg |-> [lo |-> e.b.lo, hi |-> e.b.hi, v |-> v, den |-> 1, pts |-> EOPts],
   exp |-> [r |-> EOResult(e.b, r), l |-> EOResult(e.b, r)]]
EOPairs == << [p |-> SepPair(1), cls |-> "apart"], [p |-> SepPair(D), cls |-> "apart"], [p |-> SepPair(0), cls |-> "apart"],
              [p |-> TouchPair, cls |-> "touching"] >>
PairOut(x, y, img) == [inter_of_images_empty |-> IsEmpty(Intersection(x, y)), image_of_inter_empty |-> IsEmpty(img), disjoint_images |-> Disjoint(x, y)]
ScalePairCase(q, f) ==
  LET o == PairOut(ScaleQ(q.p[1], f.n, f.den), ScaleQ(q.p[2], f.n, f.den), ScaleQ(Intersection(q.p[1], q.p[2]), f.n, f.den)) IN
  [a |-> "ScalePair", cls |-> q.cls, arg |-> [a |-> Box(q.p[1]), b |-> Box(q.p[2]), v |-> f.n, den |-> f.den], exp |-> [r |-> o, l |-> o]]
TranslatePairCase(q, v) ==
  LET o == PairOut(TranslateB(q.p[1], v), TranslateB(q.p[2], v), TranslateB(Intersection(q.p[1], q.p[2]), v)) IN
  [a |-> "TranslatePair", cls |-> q.cls, arg |-> [a |-> Box(q.p[1]), b |-> Box(q.p[2]), v |-> v, den |-> 1], exp |-> [r |-> o, l |-> o]]
EOCases == IF Group # "emptyops" THEN <<>> ELSE
  [k \in 1..(Len(EOBoxes) * Len(EOFactors)) |-> ScaleEmptyCase(EOBoxes[((k - 1) \div Len(EOFactors)) + 1], EOFactors[((k - 1) % Len(EOFactors)) + 1])]
  \o [k \in 1..(Len(EOBoxes) * Len(EOTrans)) |-> TranslateEmptyCase(EOBoxes[((k - 1) \div Len(EOTrans)) + 1], EOTrans[((k - 1) % Len(EOTrans)) + 1])]
  \o (IF D = 1 THEN <<>> ELSE
      [k \in 1..(Len(EOPairs) * Len(EOFactors)) |-> ScalePairCase(EOPairs[((k - 1) \div Len(EOFactors)) + 1], EOFactors[((k - 1) % Len(EOFactors)) + 1])]
      \o [k \in 1..(Len(EOPairs) * Len(EOTrans)) |-> TranslatePairCase(EOPairs[((k - 1) \div Len(EOTrans)) + 1], EOTrans[((k - 1) % Len(EOTrans)) + 1])])
\* the laws on exactly the emitted inputs
EOLaws == /\ \A i \in DOMAIN EOBoxes : IsEmpty(EOBoxes[i].b)
          /\ \A i \in DOMAIN EOBoxes, j \in DOMAIN EOFactors :
                Divisible(EOBoxes[i].b, EOFactors[j].n, EOFactors[j].den)
                /\ LawScaleEmpty(EOBoxes[i].b, EOFactors[j].n, EOFactors[j].den, -6..6, {EOPts[k] : k \in DOMAIN EOPts})
          /\ \A i \in DOMAIN EOBoxes, j \in DOMAIN EOTrans : LawTranslateEmpty(EOBoxes[i].b, EOTrans[j], -6..6, {EOPts[k] : k \in DOMAIN EOPts})
          /\ \A i \in DOMAIN EOPairs, j \in DOMAIN EOFactors : LawScalePair(EOPairs[i].p[1], EOPairs[i].p[2], EOFactors[j].n, EOFactors[j].den)
          /\ \A i \in DOMAIN EOPairs, j \in DOMAIN EOTrans : LawTranslatePair(EOPairs[i].p[1], EOPairs[i].p[2], EOTrans[j])

\* --------------------------------------------------------------------------
\* group "xfm": xfmBounds must contain the image of every lattice point of the box
\* --------------------------------------------------------------------------
\* all sign matrices (entries +-1), signed and scaled permutations, and a deterministic family with entries in -2..2
SignMaps == {<<vx, vy, vz>> : vx \in Tuples({-1, 1}, 3), vy \in Tuples({-1, 1}, 3), vz \in Tuples({-1, 1}, 3)}
Entry(k, r) == ((k * (2 * r + 3) + (k \div 5) * r + r * r) % 5) - 2
FamMap(k) == << <<Entry(k, 1), Entry(k, 2), Entry(k, 3)>>, <<Entry(k, 4), Entry(k, 5), Entry(k, 6)>>, <<Entry(k, 7), Entry(k, 8), Entry(k, 9)>> >>
FamMaps == {FamMap(k) : k \in 1..(IF Level = 0 THEN 150 ELSE 400)}
DiagMaps == {<< <<x, 0, 0>>, <<0, y, 0>>, <<0, 0, z>> >> : x \in {-2, 1}, y \in {-1, 2}, z \in {-2, -1, 2}}
              \cup {<< <<0, x, 0>>, <<0, 0, y>>, <<z, 0, 0>> >> : x \in {-2, 1}, y \in {-1, 2}, z \in {-2, 2}}
\* degenerate maps (rank 0, 1, 2): containment of the images must hold all the same
SingMaps == { << <<0, 0, 0>>, <<0, 0, 0>>, <<0, 0, 0>> >>, << <<1, -1, 2>>, <<2, -2, 4>>, <<-1, 1, -2>> >>,
              << <<1, 0, 0>>, <<0, 1, 0>>, <<1, 1, 0>> >>, << <<1, 0, 0>>, <<0, 0, 0>>, <<0, 0, -2>> >>,
              << <<-2, 1, 1>>, <<1, -2, 1>>, <<1, 1, -2>> >> }
IsSingular(l) == Det3(<<l[1], l[2], l[3], <<0, 0, 0>> >>) = 0
LinMaps == IF Group # "xfm" THEN {} ELSE {l \in SignMaps \cup FamMaps \cup DiagMaps : ~IsSingular(l)} \cup SingMaps
XTrans  == {<<0, 0, 0>>, <<1, -2, 3>>}
XBoxes  == IF Group # "xfm" THEN {} ELSE IF Level = 0 THEN {b \in NEB : SumTo(b.lo, 3) % 2 = 0}
           ELSE {b \in NEB : SumTo(b.lo, 3) % 2 = 0 /\ SumTo(b.hi, 3) % 2 = 1}
XfmSeq  == IF Group # "xfm" THEN <<>> ELSE SetToSeq(LinMaps \X XTrans \X XBoxes)
XfmCase(l, t, b) ==
  LET m    == <<l[1], l[2], l[3], t>>
      imgs == SetToSeq(XfmImages(m, Pts(b, AX)))
  IN [a |-> "Xfm", cls |-> IF IsSingular(l) THEN "singular-map," \o BoxClass(b) ELSE BoxClass(b), arg |-> [m |-> m, lo |-> b.lo, hi |-> b.hi, imgs |-> imgs],
      exp |-> [contains |-> [k \in DOMAIN imgs |-> TRUE]],
      info |-> [hull |-> Box(Hull(XfmImages(m, CornerPts(b)), 3))]]
XfmCases == [k \in DOMAIN XfmSeq |-> XfmCase(XfmSeq[k][1], XfmSeq[k][2], XfmSeq[k][3])]

\* --------------------------------------------------------------------------
\* group "ray": inputs of intersectRayBox (the observed interval is validated by BoxRayValidate)
\* --------------------------------------------------------------------------
\* group "ray": C05_MODE = "0": all boxes, "k": only the k-th box (one TLC run per box)
RayBoxSeq == IF D = 2 THEN << [lo |-> <<0, 0>>, hi |-> <<2, 1>>], [lo |-> <<-1, 0>>, hi |-> <<1, 0>>],
                              [lo |-> <<1, 1>>, hi |-> <<1, 1>>], [lo |-> <<-2, -1>>, hi |-> <<3, 2>>] >>
             ELSE << [lo |-> <<0, 0, -1>>, hi |-> <<2, 1, 1>>], [lo |-> <<-1, 0, 0>>, hi |-> <<1, 0, 2>>],
                     [lo |-> <<-2, -1, 0>>, hi |-> <<3, 2, 1>> ],
                     [lo |-> <<1, 0, -1>>, hi |-> <<1, 0, -1>>], [lo |-> <<0, 1, 0>>, hi |-> <<2, 1, 0>>] >>   \* a point and a segment
RayBoxes == IF Group # "ray" THEN {} ELSE IF Mode = "0" THEN {RayBoxSeq[k] : k \in DOMAIN RayBoxSeq} ELSE {RayBoxSeq[atoi(Mode)]}
RayOrgs  == IF Group # "ray" THEN {} ELSE Tuples(AX, D)
DirVals  == IF Level = 0 /\ D = 3 THEN {{-2, 0, 1}, {-1, 0, 2}} ELSE {-2..2}
RayDirs  == UNION {{v \in Tuples(S, D) : \E i \in 1..D : v[i] # 0} : S \in DirVals}
\* default range [0, inf) for every ray; explicit ranges [1, 3] and [-2, 1/2] for the origins with even coordinate sum
RayRanges(o) == IF SumTo(o, D) % 2 = 0 THEN {<<0, INF>>, <<2, 6>>, <<-4, 1>>} ELSE {<<0, INF>>}
RaySet == IF Group # "ray" THEN {} ELSE UNION {{[org |-> o, dir |-> v, lo |-> b.lo, hi |-> b.hi, tlo2 |-> r[1], thi2 |-> r[2]] : r \in RayRanges(o)}
                   : o \in RayOrgs, v \in RayDirs, b \in RayBoxes}
RaySeq == SetToSeq(RaySet)
KProbe == 16
RayCases == [k \in DOMAIN RaySeq |-> [a |-> "Ray", cls |-> RayClass(RaySeq[k]), arg |-> RaySeq[k]]]
\* laws of the ray part, on exactly the cases that are emitted
RayLaws == \A c \in RaySet : LawRay(c, KProbe) /\ LawProbesDecided(c, KProbe)

\* group "rayempty": rays against boxes without points - the default-constructed empty box and boxes inverted in one,
\* in another and in every axis.  Every origin of the lattice, every direction (axis-parallel ones included), the default
\* range and the explicit ranges: the returned interval must be empty (RayAcceptEmptyBox, decided by BoxRayValidate).
InvertedIn(S) == [lo |-> [i \in 1..D |-> IF i \in S THEN 2 ELSE 0], hi |-> [i \in 1..D |-> IF i \in S THEN 0 ELSE 1]]
RayEmptyBoxes == {EmptyBox(D), InvertedIn({1}), InvertedIn({D}), InvertedIn(1..D)}
RayEmptySet == IF Group # "rayempty" THEN {}
               ELSE UNION {{[org |-> o, dir |-> v, lo |-> b.lo, hi |-> b.hi, tlo2 |-> r[1], thi2 |-> r[2]] : r \in RayRanges(o)}
                             : o \in Tuples(AX, D), v \in RayDirs, b \in RayEmptyBoxes}
RayEmptySeq == SetToSeq(RayEmptySet)
RayEmptyCases == [k \in DOMAIN RayEmptySeq |-> [a |-> "Ray", cls |-> RayClass(RayEmptySeq[k]), arg |-> RayEmptySeq[k]]]

Cases == CASE Group = "box" -> BoxCases
           [] Group = "pair" -> PairCases
           [] Group = "pairinv" -> PairInvCases
           [] Group = "vec" -> VecCases
           [] Group = "big" -> BigCases
           [] Group = "emptyops" -> EOCases
           [] Group = "rayempty" -> RayEmptyCases
           [] Group = "xfm" -> XfmCases
           [] Group = "ray" -> RayCases

ASSUME Group = "ray" => RayLaws
ASSUME Group = "emptyops" => EOLaws
ASSUME Group = "rayempty" => \A c \in RayEmptySet : RayBoxIsEmpty(c) /\ LawRayEmptyBox(c, KProbe)
ASSUME Group = "xfm" => \A k \in DOMAIN XfmSeq : LET x == XfmSeq[k] IN LawXfm(<<x[1][1], x[1][2], x[1][3], x[2]>>, x[3], AX)
ASSUME ndJsonSerialize(OutFile, Cases)
ASSUME PrintT(<<"C05-CASES", Group, D, Len(Cases)>>)
===============================================================================
