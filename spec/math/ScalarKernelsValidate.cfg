\* constant-level evaluation only (ASSUMEs): no behaviour specification
CONSTANTS
  MB = 23
  EB = 8
