--------------------------- MODULE TraceSessionsGen ---------------------------
(* Generation instance of TraceSessions: the complete state graph, exported    *)
(* edge by edge by TLC (one JSON line per transition, see TraceLogGen).        *)
EXTENDS TraceSessions, IOUtils, Json, CSV

Abs  == [rstate |-> rstate, rec |-> rec]
AbsN == [rstate |-> rstate', rec |-> rec']
GInit == Init /\ CSVWrite("%1$s", <<ToJson([init |-> Abs])>>, IOEnv.EDGES)
GNext == Next /\ CSVWrite("%1$s", <<ToJson([src |-> Abs, step |-> last', dst |-> AbsN])>>, IOEnv.EDGES)
GSpec == GInit /\ [][GNext]_vars
GView == <<rstate, rec>>

GSaveAgrees == [][last'.a = "RSave" =>
                   /\ UNCHANGED <<rstate, rec>> /\ rstate[last'.arg.r] = "open"
                   /\ Len(last'.exp.threads) = Cardinality(Active(rec[last'.arg.r]))
                   /\ \A t \in Active(rec[last'.arg.r]) : \E i \in DOMAIN last'.exp.threads : last'.exp.threads[i] = RenderSeq(rec[last'.arg.r][t])]_vars
GRecordAgrees == [][last'.a \in {"RMarker", "RCounter", "RBegin", "REnd"} =>
                   LET r == last'.arg.r
                       t == last'.arg.t IN
                   /\ rstate[r] = "open" /\ rstate' = rstate
                   /\ Len(rec'[r][t]) = Len(rec[r][t]) + 1
                   /\ last'.a # "REnd" => rec'[r][t][Len(rec'[r][t])].name = Text(last'.arg.src, r)
                   /\ \A o \in Recorders, u \in Threads : <<o, u>> # <<r, t>> => rec'[o][u] = rec[o][u]]_vars
===============================================================================
