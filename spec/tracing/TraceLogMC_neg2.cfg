SPECIFICATION Spec
CONSTANTS
  Threads = {1, 2}
  MaxEvents = 3
  MaxDepth = 2
  Ordered = FALSE
  Exits = TRUE
INVARIANTS OneTidPerThread
CHECK_DEADLOCK FALSE
