------------------------------- MODULE TraceLog -------------------------------
(* The per-thread trace recorder of rkcommon/tracing/Tracing.h and what         *)
(* saveLog() owes its caller (property C20, second sentence):                   *)
(*                                                                              *)
(*   "saveLog writes a well-formed JSON array that contains, for every          *)
(*    recording thread, every recorded begin, end, marker and counter event in  *)
(*    recording order with begin/end pairs properly nested, whatever the number *)
(*    of events or threads."                                                    *)
(*                                                                              *)
(* State: rec[t], the sequence of events thread t has recorded so far through   *)
(* beginEvent / endEvent / setMarker / setCounter.  An event is                 *)
(* [k, name, cat, val]: kind "B" | "E" | "i" | "C" (the letters of the Chrome   *)
(* trace format the log uses), the name and category strings that were passed   *)
(* ("" = none), the counter value.  endEvent is only called inside an open      *)
(* begin (API precondition: "must be paired"), so every rec[t] is a prefix of a *)
(* properly nested sequence.  SaveLog(pname) does not change rec.               *)
(*                                                                              *)
(* A written log is, once parsed, a sequence of entries [tid, ph, name, cat,    *)
(* val].  The log renumbers threads, so WHICH tid a thread gets is not          *)
(* constrained; time stamps, pid, cpu statistics are not constrained; metadata  *)
(* entries (ph = "M") and counters the recorder adds by itself (names no        *)
(* recorded counter uses: cpuUtilization, rkTrace...Mem_B) are allowed          *)
(* anywhere.  What remains - the *relevant* entries - must be, tid by tid,      *)
(* exactly the recorded sequences: Accepts(log, rec).                           *)
(*                                                                              *)
(* The ghost variable `last` = [a, arg, exp, cls] is what the conformance       *)
(* driver is compared with: for SaveLog, exp.json = "wellformed" and            *)
(* exp.threads = the recorded sequences of the threads that recorded anything   *)
(* (the driver reports the relevant entries grouped by tid; both lists are      *)
(* brought into one canonical order before they are compared, which decides     *)
(* exactly "there is a one-to-one assignment of tids to threads").              *)
EXTENDS TraceLogContract

CONSTANTS MaxEvents,    \* bound on the total number of recorded events (bounded instances)
          MaxDepth,     \* bound on the nesting depth of open begin events
          Ordered       \* BOOLEAN: symmetry reduction - thread t+1 records only after thread t did

VARIABLES rec, last
vars == <<rec, last>>

NoArg == <<>>
Depth(t)   == DepthOf(KindsOf(rec[t]))
Total == LET RECURSIVE Sum(_)
             Sum(S) == IF S = {} THEN 0 ELSE LET t == CHOOSE x \in S : TRUE IN Len(rec[t]) + Sum(S \ {t})
         IN Sum(Threads)

-------------------------------------------------------------------------------
\* Attributes of the next event of thread t in the bounded instances: a function of the thread and of the position,
\* with repeated and fresh names, events with and without category, small and 31-bit counter values.
Pos(t)     == Len(rec[t])
BNames     == <<"frame", "render", "frame">>
INames     == <<"mark", "tick">>
CNamesPool == <<"count", "bytes">>
BName(t)   == BNames[(Pos(t) % 3) + 1]
IName(t)   == INames[((Pos(t) + t) % 2) + 1]
CName(t)   == CNamesPool[(Pos(t) % 2) + 1]
CatOf(t)   == IF (Pos(t) + t) % 2 = 0 THEN "cat" ELSE ""
ValOf(t)   == IF Pos(t) = 2 THEN 2147483647 ELSE 1000 * t + Pos(t)

MayRecord(t) == /\ Total < MaxEvents
                /\ IF Ordered /\ t > 1 THEN rec[t - 1] # <<>> ELSE TRUE

Void == [ret |-> "void"]

Begin(t, name, cat) ==
  /\ MayRecord(t) /\ Depth(t) < MaxDepth
  /\ rec' = [rec EXCEPT ![t] = Append(@, Ev("B", name, cat, 0))]
  /\ last' = [a |-> "Begin", arg |-> [t |-> t, name |-> name, cat |-> cat], exp |-> Void, cls |-> ""]

End(t) ==
  /\ MayRecord(t) /\ Depth(t) > 0
  /\ rec' = [rec EXCEPT ![t] = Append(@, Ev("E", "", "", 0))]
  /\ last' = [a |-> "End", arg |-> [t |-> t], exp |-> Void, cls |-> ""]

Marker(t, name, cat) ==
  /\ MayRecord(t)
  /\ rec' = [rec EXCEPT ![t] = Append(@, Ev("i", name, cat, 0))]
  /\ last' = [a |-> "Marker", arg |-> [t |-> t, name |-> name, cat |-> cat], exp |-> Void, cls |-> ""]

Counter(t, name, val) ==
  /\ MayRecord(t)
  /\ rec' = [rec EXCEPT ![t] = Append(@, Ev("C", name, "", val))]
  /\ last' = [a |-> "Counter", arg |-> [t |-> t, name |-> name, val |-> val], exp |-> Void, cls |-> ""]

\* the recorded sequences of the threads that recorded anything, in thread order
Visible(r) == LET act == SelectSeq([t \in 1..Cardinality(Threads) |-> t], LAMBDA t : r[t] # <<>>)
              IN [i \in DOMAIN act |-> RenderSeq(r[act[i]])]

\* pname = "" stands for the null pointer (no process name)
SaveLog(pname) ==
  /\ rec' = rec
  /\ last' = [a |-> "SaveLog", arg |-> [pname |-> pname],
              exp |-> [json |-> "wellformed", threads |-> Visible(rec)],
              cls |-> (IF Active(rec) = {} THEN "log=empty" ELSE "log=nonempty") \o (IF pname = "" THEN ",pname=none" ELSE ",pname=given")]

Init == rec = [t \in Threads |-> <<>>] /\ last = [a |-> "Init", arg |-> NoArg, exp |-> Void, cls |-> ""]

Next ==
  \/ \E t \in Threads : Begin(t, BName(t), CatOf(t)) \/ End(t) \/ Marker(t, IName(t), CatOf(t)) \/ Counter(t, CName(t), ValOf(t))
  \/ \E pn \in {"", "proc"} : SaveLog(pn)

Spec == Init /\ [][Next]_vars

-------------------------------------------------------------------------------
TypeOK == \A t \in Threads : \A i \in DOMAIN rec[t] :
            /\ rec[t][i].k \in Kinds
            /\ rec[t][i].k = "E" => rec[t][i].name = ""
            /\ rec[t][i].k # "E" => rec[t][i].name # ""
RecNested == \A t \in Threads : Nested(KindsOf(rec[t])) /\ Depth(t) \in 0..MaxDepth
Bounded   == Total <= MaxEvents
SaveExpAgrees == last.a = "SaveLog" =>
                   /\ Len(last.exp.threads) = Cardinality(Active(rec))
                   /\ \A i \in DOMAIN last.exp.threads : \E t \in Active(rec) : last.exp.threads[i] = RenderSeq(rec[t])
===============================================================================
