------------------------------- MODULE TraceLog -------------------------------
(* The per-thread trace recorder of rkcommon/tracing/Tracing.h and what         *)
(* saveLog() owes its caller (property C20, second sentence):                   *)
(*                                                                              *)
(*   "saveLog writes a well-formed JSON array that contains, for every          *)
(*    recording thread, every recorded begin, end, marker and counter event in  *)
(*    recording order with begin/end pairs properly nested, whatever the number *)
(*    of events or threads."                                                    *)
(*                                                                              *)
(* State: rec[t], the sequence of events thread t has recorded so far through   *)
(* beginEvent / endEvent / setMarker / setCounter.  An event is                 *)
(* [k, name, cat, val]: kind "B" | "E" | "i" | "C" (the letters of the Chrome   *)
(* trace format the log uses), the name and category strings that were passed   *)
(* ("" = none), the counter value.  endEvent is only called inside an open      *)
(* begin (API precondition: "must be paired"), so every rec[t] is a prefix of a *)
(* properly nested sequence.  SaveLog(pname) does not change rec.               *)
(*                                                                              *)
(* Thread lifetimes: phase[t] is "new" (not created yet), "live" (created; only *)
(* a live thread records) or "done" (it has ended and was joined).  prec is the *)
(* relation "t had ended before u was created", extended when a thread is       *)
(* created.  Threads related by prec never coexisted and may share a tid in the *)
(* log (std::thread::id values are recycled); see TraceLogContract.             *)
(*                                                                              *)
(* A written log is, once parsed, a sequence of entries [tid, ph, name, cat,    *)
(* val].  The log renumbers threads, so WHICH tid a thread gets is not          *)
(* constrained; time stamps, pid, cpu statistics are not constrained; metadata  *)
(* entries (ph = "M") and counters the recorder adds by itself (names no        *)
(* recorded counter uses: cpuUtilization, rkTrace...Mem_B) are allowed          *)
(* anywhere.  What remains - the *relevant* entries - must be, tid by tid,      *)
(* exactly the recorded sequences: Accepts(log, rec).                           *)
(*                                                                              *)
(* The ghost variable `last` = [a, arg, exp, cls] is what the conformance       *)
(* driver is compared with: for SaveLog, exp.json = "wellformed" and            *)
(* exp.threads = the recorded sequences of the threads that recorded anything;  *)
(* exp.alt lists EVERY admissible content of the log (one list of per-tid       *)
(* sequences per partition of the recording threads into prec-chains; just      *)
(* exp.threads when no two recording threads are prec-related).  The driver     *)
(* reports the relevant entries grouped by tid; all lists are brought into one  *)
(* canonical order and the observation must equal one of the alternatives,      *)
(* which decides exactly Accepts.                                               *)
EXTENDS TraceLogContract, SequencesExt

CONSTANTS MaxEvents,    \* bound on the total number of recorded events (bounded instances)
          MaxDepth,     \* bound on the nesting depth of open begin events
          Ordered,      \* BOOLEAN: symmetry reduction - thread t+1 is created only after thread t was
          Exits,        \* BOOLEAN: threads may end before saveLog (FALSE: every thread lives until the end)
          Hard          \* BOOLEAN: the first event of every thread carries a name from HardPool (text that needs care in JSON,
                        \*          lengths around internal buffer sizes); the process name may be such a text as well

VARIABLES rec, phase, prec, last
vars == <<rec, phase, prec, last>>

NoArg == <<>>
Depth(t)   == DepthOf(KindsOf(rec[t]))
Total == LET RECURSIVE Sum(_)
             Sum(S) == IF S = {} THEN 0 ELSE LET t == CHOOSE x \in S : TRUE IN Len(rec[t]) + Sum(S \ {t})
         IN Sum(Threads)

-------------------------------------------------------------------------------
\* Attributes of the next event of thread t in the bounded instances: a function of the thread and of the position,
\* with names repeated inside a thread and different between threads (every begin, marker and counter event of a
\* history is distinguishable from the events of the other threads), events with and without category, small and
\* large (up to 2^64 - 1) counter values.
Pos(t)     == Len(rec[t])
Of(base, t) == base \o ToString(t)
BNames     == <<"frame", "render", "frame">>
INames     == <<"mark", "tick">>
CNamesPool == <<"count", "bytes">>
BName(t)   == Of(BNames[(Pos(t) % 3) + 1], t)
IName(t)   == Of(INames[((Pos(t) + t) % 2) + 1], t)
CName(t)   == Of(CNamesPool[(Pos(t) % 2) + 1], t)
CatOf(t)   == IF (Pos(t) + t) % 2 = 0 THEN "cat" ELSE ""
\* counter values: small ones and the neighbourhoods of 2^31, 2^32, 2^53 and 2^64 (numerals, see TraceLogContract!NoVal)
BigVals    == <<"2147483647", "2147483648", "4294967295", "4294967296", "4294967297", "1000001", "9007199254740993",
                "9223372036854775808", "18446744073709551615", "0", "65536">>
ValOf(t)   == IF (Pos(t) + t) % 3 = 0 THEN ToString(1000 * t + Pos(t)) ELSE BigVals[((4 * Pos(t) + 3 * t) % Len(BigVals)) + 1]

\* Names that need care.  The specification does not spell the texts (they would have to survive TLC's own JSON output): a
\* name "@..." is a SYMBOL, the driver maps it to the text and maps the text it finds in the log back (injective):
\*   @quote a"b   @quote-first "ab   @quote-last ab"   @backslash a\b   @winpath C:\temp\new   @trailing-backslash a\
\*   @newline a<LF>b   @tab a<TAB>b   @ctrl1 <0x01>   @del a<0x7f>   @utf8 caf<c3 a9>   @slash a/b
\*   @lenN   a text of exactly N characters
EscNames == {"@quote", "@quote-first", "@quote-last", "@backslash", "@winpath", "@trailing-backslash", "@newline", "@tab", "@ctrl1",
             "@del", "@utf8", "@slash"}
LenNames == {"@len15", "@len16", "@len17", "@len255", "@len256", "@len257", "@len1023", "@len1024", "@len1025", "@len4097", "@len65537"}
HardPool == EscNames \cup LenNames
Uses(S)  == \E t \in Threads : \E i \in DOMAIN rec[t] : rec[t][i].name \in S \/ rec[t][i].cat \in S

MayRecord(t) == phase[t] = "live" /\ Total < MaxEvents

Void == [ret |-> "void"]

\* a std::thread is created: everything that has ended by now precedes it
ThreadStart(t) ==
  /\ phase[t] = "new" /\ Total < MaxEvents
  /\ IF Ordered /\ t > 1 THEN phase[t - 1] # "new" ELSE TRUE
  /\ phase' = [phase EXCEPT ![t] = "live"]
  /\ prec' = prec \cup {<<u, t>> : u \in {v \in Threads : phase[v] = "done"}}
  /\ rec' = rec
  /\ last' = [a |-> "ThreadStart", arg |-> [t |-> t], exp |-> Void, cls |-> ""]

\* the thread ends and is joined (bounded instances: only threads that recorded something)
ThreadExit(t) ==
  /\ Exits /\ phase[t] = "live" /\ rec[t] # <<>>
  /\ phase' = [phase EXCEPT ![t] = "done"]
  /\ UNCHANGED <<rec, prec>>
  /\ last' = [a |-> "ThreadExit", arg |-> [t |-> t], exp |-> Void, cls |-> ""]

Begin(t, name, cat) ==
  /\ MayRecord(t) /\ Depth(t) < MaxDepth
  /\ rec' = [rec EXCEPT ![t] = Append(@, Ev("B", name, cat, NoVal))]
  /\ UNCHANGED <<phase, prec>>
  /\ last' = [a |-> "Begin", arg |-> [t |-> t, name |-> name, cat |-> cat], exp |-> Void, cls |-> ""]

End(t) ==
  /\ MayRecord(t) /\ Depth(t) > 0
  /\ rec' = [rec EXCEPT ![t] = Append(@, Ev("E", "", "", NoVal))]
  /\ UNCHANGED <<phase, prec>>
  /\ last' = [a |-> "End", arg |-> [t |-> t], exp |-> Void, cls |-> ""]

Marker(t, name, cat) ==
  /\ MayRecord(t)
  /\ rec' = [rec EXCEPT ![t] = Append(@, Ev("i", name, cat, NoVal))]
  /\ UNCHANGED <<phase, prec>>
  /\ last' = [a |-> "Marker", arg |-> [t |-> t, name |-> name, cat |-> cat], exp |-> Void, cls |-> ""]

Counter(t, name, val) ==
  /\ MayRecord(t)
  /\ rec' = [rec EXCEPT ![t] = Append(@, Ev("C", name, "", val))]
  /\ UNCHANGED <<phase, prec>>
  /\ last' = [a |-> "Counter", arg |-> [t |-> t, name |-> name, val |-> val], exp |-> Void, cls |-> ""]

\* the recorded sequences of the threads that recorded anything, in thread order
Visible(r) == LET act == SelectSeq([t \in 1..Cardinality(Threads) |-> t], LAMBDA t : r[t] # <<>>)
              IN [i \in DOMAIN act |-> RenderSeq(r[act[i]])]

\* pname = "" stands for the null pointer (no process name)
SaveLog(pname) ==
  /\ UNCHANGED <<rec, phase, prec>>
  /\ last' = [a |-> "SaveLog", arg |-> [pname |-> pname],
              exp |-> [json |-> "wellformed", threads |-> Visible(rec), alt |-> SetToSeq(Groupings(rec, prec))],
              cls |-> IF pname \in EscNames THEN "pname=escaping"
                      ELSE IF Uses(EscNames) THEN "names=escaping"
                      ELSE (IF Active(rec) = {} THEN "log=empty" ELSE "log=nonempty") \o (IF pname = "" THEN ",pname=none" ELSE ",pname=given")
                           \o (IF Sequential(rec, prec) THEN ",threads=sequential" ELSE "") \o (IF Uses(LenNames) THEN ",names=long" ELSE "")]

Init == /\ rec = [t \in Threads |-> <<>>] /\ phase = [t \in Threads |-> "new"] /\ prec = {}
        /\ last = [a |-> "Init", arg |-> NoArg, exp |-> Void, cls |-> ""]

Next ==
  \/ \E t \in Threads : ThreadStart(t) \/ ThreadExit(t)
  \/ \E t \in Threads : (~Hard \/ Pos(t) > 0) /\ (Begin(t, BName(t), CatOf(t)) \/ End(t) \/ Marker(t, IName(t), CatOf(t)) \/ Counter(t, CName(t), ValOf(t)))
  \/ \E t \in Threads, n \in HardPool : Hard /\ Pos(t) = 0 /\ (Marker(t, n, "") \/ Begin(t, n, n) \/ Counter(t, n, ValOf(t)))
  \/ \E pn \in {"", "proc"} \cup (IF Hard THEN {"@quote", "@winpath"} ELSE {}) : SaveLog(pn)

Spec == Init /\ [][Next]_vars

-------------------------------------------------------------------------------
TypeOK == /\ \A t \in Threads : \A i \in DOMAIN rec[t] :
               /\ rec[t][i].k \in Kinds
               /\ rec[t][i].k = "E" => rec[t][i].name = ""
               /\ rec[t][i].k # "E" => rec[t][i].name # ""
          /\ \A t \in Threads : phase[t] \in {"new", "live", "done"} /\ (phase[t] = "new" => rec[t] = <<>>)
RecNested == \A t \in Threads : Nested(KindsOf(rec[t])) /\ Depth(t) \in 0..MaxDepth
Bounded   == Total <= MaxEvents
\* prec is a strict partial order in which incomparability is "coexisted": an interval order (no 2+2), so every set of
\* pairwise comparable threads is a chain with a unique order - what ChainSeq relies on
PrecOK == /\ \A p \in prec : p[1] # p[2] /\ <<p[2], p[1]>> \notin prec /\ phase[p[1]] = "done" /\ phase[p[2]] # "new"
          /\ \A p, q \in prec : p[2] = q[1] => <<p[1], q[2]>> \in prec
          /\ \A p, q \in prec : <<p[1], q[2]>> \in prec \/ <<q[1], p[2]>> \in prec
          /\ ~Exits => prec = {}
SaveExpAgrees == last.a = "SaveLog" =>
                   /\ Len(last.exp.threads) = Cardinality(Active(rec))
                   /\ \A i \in DOMAIN last.exp.threads : \E t \in Active(rec) : last.exp.threads[i] = RenderSeq(rec[t])
                   /\ \E i \in DOMAIN last.exp.alt : last.exp.alt[i] = last.exp.threads       \* a tid per thread is always admissible
                   /\ (~Sequential(rec, prec)) => Len(last.exp.alt) = 1
===============================================================================
