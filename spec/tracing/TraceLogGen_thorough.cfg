SPECIFICATION GSpec
CONSTANTS
  Threads = {1, 2, 3}
  MaxEvents = 6
  MaxDepth = 3
  Ordered = TRUE
VIEW GView
INVARIANTS TypeOK RecNested Bounded
PROPERTIES GSaveAgrees GRecordAgrees
CHECK_DEADLOCK FALSE
