SPECIFICATION GSpec
CONSTANTS
  Threads = {1, 2, 3}
  MaxEvents = 6
  MaxDepth = 3
  Ordered = TRUE
  Exits = FALSE
  Hard = FALSE
VIEW GView
INVARIANTS TypeOK RecNested Bounded PrecOK
PROPERTIES GSaveAgrees GLifeAgrees GRecordAgrees
CHECK_DEADLOCK FALSE
