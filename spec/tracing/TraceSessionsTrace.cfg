SPECIFICATION TSpec
CONSTANTS
  Threads = {1, 2, 3}
  Recorders = {0, 1, 2, 3, 4}
POSTCONDITION Post
CHECK_DEADLOCK FALSE
