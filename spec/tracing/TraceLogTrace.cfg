SPECIFICATION TSpec
CONSTANTS
  Threads = {1, 2, 3, 4, 5, 6, 7, 8}
POSTCONDITION Post
CHECK_DEADLOCK FALSE
