SPECIFICATION Spec
CONSTANTS
  Threads = {1, 2}
  MaxEvents = 3
  MaxDepth = 2
  Ordered = FALSE
  Exits = TRUE
  Hard = FALSE
INVARIANTS RetagAlwaysRejected
CHECK_DEADLOCK FALSE
