SPECIFICATION GSpec
CONSTANTS
  Threads = {1}
  MaxEvents = 2
  MaxDepth = 3
  Ordered = TRUE
  Exits = FALSE
  Hard = TRUE
VIEW GView
INVARIANTS TypeOK RecNested Bounded PrecOK
PROPERTIES GSaveAgrees GLifeAgrees GRecordAgrees
CHECK_DEADLOCK FALSE
