------------------------------ MODULE TraceLogMC ------------------------------
(* Model-checking instance of TraceLog: in every reachable state of the        *)
(* bounded recorder (all event sequences up to MaxEvents events on the given   *)
(* threads, nesting depth <= MaxDepth, every way the threads' lifetimes can    *)
(* overlap or follow one another) TLC checks the laws of the contract itself,  *)
(* on a family of candidate logs built from the state.  A *layout* is a        *)
(* sequence of blocks, each block a sequence of recording threads: block i is  *)
(* written under tid i-1 and holds its threads' sequences one after the other. *)
(* A layout is valid when every block lists a prec-chain in prec order (the    *)
(* threads never coexisted and appear in the order they lived).                *)
(*                                                                             *)
(*   RefLog(layout, x)   the log written for a layout: a thread_name metadata  *)
(*        entry per block, optionally a process_name entry, a cpuUtilization   *)
(*        counter after end events and data on end entries (x = TRUE)          *)
(*   Mutants             every log that differs from a valid RefLog by one     *)
(*        deleted, duplicated, altered (name / category / value / kind) or,    *)
(*        inside one tid, swapped relevant entry, or by ALL entries of one     *)
(*        recording thread removed (the list of a thread that has ended is     *)
(*        lost when its id is handed to the next thread)                       *)
(*   Retags              one entry moved to another or to a fresh tid (may or  *)
(*        may not still be acceptable)                                         *)
(*                                                                             *)
(*   AcceptLaw   the contract accepts the RefLog of every valid layout: a tid  *)
(*               per thread, and every sharing of a tid by threads that never  *)
(*               coexisted, in the order they lived  (not over-strict)         *)
(*   RejectLaw   the contract rejects every mutant, and the RefLog of every    *)
(*               invalid layout: two threads that coexisted under one tid, or  *)
(*               a chain in the wrong order  (not vacuous)                     *)
(*   NestLaw     whatever the contract accepts has properly nested begin/end   *)
(*               pairs in every tid                                            *)
(*   EquivLaw    the incremental matcher that trace validation runs decides    *)
(*               exactly the declarative contract, on all of the above         *)
(*   AltLaw      the alternatives SaveLog's expectation lists are exactly the  *)
(*               per-tid contents of the valid layouts                         *)
EXTENDS TraceLog

Entry(tid, ph, name, cat, val) == [tid |-> tid, ph |-> ph, name |-> name, cat |-> cat, val |-> val]

Act == Active(rec)
NA  == Cardinality(Act)

\* all layouts of the recording threads: an order of the threads cut into consecutive blocks
Orders == {o \in [1..NA -> Act] : \A i, j \in 1..NA : o[i] = o[j] => i = j}
Cuts   == SUBSET (1..(NA - 1))                       \* a block ends after position c for every c in the cut
BlocksOf(o, cut) ==
  LET ends   == cut \cup {NA}
      starts == {1} \cup {c + 1 : c \in cut}
      nb     == Cardinality(ends)
      Nth(S, i) == CHOOSE x \in S : Cardinality({y \in S : y < x}) = i - 1
  IN [i \in 1..nb |-> SubSeq(o, Nth(starts, i), Nth(ends, i))]
Layouts == IF NA = 0 THEN {<<>>} ELSE {BlocksOf(o, c) : o \in Orders, c \in Cuts}
BlockValid(b) == \A i, j \in DOMAIN b : i < j => <<b[i], b[j]>> \in prec
Valid(lay)    == \A i \in DOMAIN lay : BlockValid(lay[i])

ThreadEntries(t, tid, x) ==
  Concat([i \in DOMAIN rec[t] |->
     LET ev == rec[t][i] IN
       <<Entry(tid, ev.k, ev.name, ev.cat, IF ev.k = "E" /\ x THEN "55" ELSE ev.val)>>
       \o (IF ev.k = "E" /\ x THEN <<Entry(tid, "C", "cpuUtilization", "builtin", "not-an-integer")>> ELSE <<>>)])

Block(b, tid, x) == <<Entry(tid, "M", "thread_name", "", NoVal)>> \o Concat([i \in DOMAIN b |-> ThreadEntries(b[i], tid, x)])

RefLog(lay, x) ==
  (IF x THEN <<Entry(0, "M", "process_name", "", NoVal)>> ELSE <<>>)
  \o Concat([i \in DOMAIN lay |-> Block(lay[i], i - 1, x)])
  \o (IF x THEN <<Entry(Len(lay), "M", "thread_name", "", NoVal)>> ELSE <<>>)          \* a registered thread that recorded nothing

GoodLogs == {RefLog(lay, x) : lay \in {l \in Layouts : Valid(l)}, x \in BOOLEAN}
BadLogs  == {RefLog(lay, x) : lay \in {l \in Layouts : ~Valid(l)}, x \in BOOLEAN}

Del(l, i)  == SubSeq(l, 1, i - 1) \o SubSeq(l, i + 1, Len(l))
Dup(l, i)  == SubSeq(l, 1, i) \o SubSeq(l, i, Len(l))
Swap(l, i, j) == [l EXCEPT ![i] = l[j], ![j] = l[i]]

RelIdx(l)  == {i \in DOMAIN l : Relevant(l[i], CNames(rec))}

MutantsOf(l) ==
  LET RI == RelIdx(l) IN
       {Del(l, i) : i \in RI}
  \cup {Dup(l, i) : i \in RI}
  \cup {Swap(l, p[1], p[2]) : p \in {q \in RI \X RI : q[1] < q[2] /\ l[q[1]].tid = l[q[2]].tid /\ Proj(l[q[1]]) # Proj(l[q[2]])}}
  \cup {[l EXCEPT ![i].name = "zz"] : i \in {j \in RI : l[j].ph # "E"}}
  \cup {[l EXCEPT ![i].cat = "zz"] : i \in {j \in RI : l[j].ph \in {"B", "i"}}}
  \cup {[l EXCEPT ![i].val = @ \o "0"] : i \in {j \in RI : l[j].ph = "C"}}
  \cup {[l EXCEPT ![i].ph = "X"] : i \in RI}
  \cup {[l EXCEPT ![i].ph = IF @ = "B" THEN "i" ELSE "B"] : i \in {j \in RI : l[j].ph \in {"B", "i"}}}

\* the log of a valid layout without the entries of thread t (all of them: its list was lost)
LostThreadLogs == {RefLog([i \in DOMAIN lay |-> SelectSeq(lay[i], LAMBDA u : u # t)], x) :
                     lay \in {l \in Layouts : Valid(l)}, x \in BOOLEAN, t \in Act}

RetagsOf(l) == {[l EXCEPT ![i].tid = g] : i \in RelIdx(l), g \in (0..(NA - 1)) \cup {99}}

Mutants == UNION {MutantsOf(l) : l \in GoodLogs}
Retags  == UNION {RetagsOf(l) : l \in GoodLogs}
Candidates == GoodLogs \cup BadLogs \cup Mutants \cup LostThreadLogs \cup Retags

AcceptLaw == \A l \in GoodLogs : Accepts(l, rec, prec) /\ LogNested(l, CNames(rec))
RejectLaw == \A l \in Mutants \cup BadLogs \cup LostThreadLogs : ~Accepts(l, rec, prec)
NestLaw   == \A l \in Candidates : Accepts(l, rec, prec) => LogNested(l, CNames(rec))
EquivLaw  == \A l \in Candidates : MatchLog(l, rec, prec) <=> Accepts(l, rec, prec)

\* SaveLog's alternatives = the per-tid contents of the valid layouts (as multisets of sequences: compared through Accepts)
AltLaw == last.a = "SaveLog" =>
            /\ \A i \in DOMAIN last.exp.alt :
                 Accepts(Concat([g \in DOMAIN last.exp.alt[i] |->
                           [k \in DOMAIN last.exp.alt[i][g] |-> LET e == last.exp.alt[i][g][k] IN Entry(g, e.ph, e.name, e.cat, e.val)]]), rec, prec)
            /\ Len(last.exp.alt) = Cardinality({{lay[i] : i \in DOMAIN lay} : lay \in {l \in Layouts : Valid(l)}})

\* the empty log: nothing recorded, the array may be empty or hold metadata only
EmptyLaw  == Act = {} => /\ Accepts(<<>>, rec, prec) /\ MatchLog(<<>>, rec, prec)
                         /\ ~Accepts(<<Entry(0, "B", "frame", "", NoVal)>>, rec, prec)

\* negative controls (each expected to be VIOLATED)
\* moving an entry to another tid is not always a rejection: tids are identified only up to renaming
RetagAlwaysRejected == \A l \in Retags : ~Accepts(l, rec, prec)
\* threads that never coexisted MAY share a tid: demanding a tid per thread would be over-strict
OneTidPerThread == \A l \in GoodLogs : Cardinality({l[i].tid : i \in RelIdx(l)}) = NA
===============================================================================
