------------------------------ MODULE TraceLogMC ------------------------------
(* Model-checking instance of TraceLog: in every reachable state of the        *)
(* bounded recorder (all event sequences up to MaxEvents events on the given   *)
(* threads, nesting depth <= MaxDepth) TLC checks the laws of the contract     *)
(* itself, on a family of candidate logs built from the state:                 *)
(*                                                                             *)
(*   RefLog(rec, ord, x)  the log a correct saveLog may write: threads in any  *)
(*        order `ord` (tids renumbered 0, 1, ...), a thread_name metadata      *)
(*        entry per thread, optionally a process_name entry, a cpuUtilization  *)
(*        counter after end events and data on end entries (x = TRUE)          *)
(*   Mutants              every log that differs from a RefLog by one deleted, *)
(*        duplicated, altered (name / category / value / kind) or, inside one  *)
(*        tid, swapped relevant entry, or by one entry moved to a fresh tid    *)
(*   Retags               one entry moved to another existing tid (may or may  *)
(*        not still be acceptable: tids are only identified up to renaming)    *)
(*                                                                             *)
(*   AcceptLaw   the contract accepts every RefLog  (not over-strict)          *)
(*   RejectLaw   the contract rejects every mutant  (not vacuous)              *)
(*   NestLaw     whatever the contract accepts has properly nested begin/end   *)
(*               pairs in every tid                                            *)
(*   EquivLaw    the incremental matcher that trace validation runs decides    *)
(*               exactly the declarative contract, on all of the above         *)
EXTENDS TraceLog

Entry(tid, ph, name, cat, val) == [tid |-> tid, ph |-> ph, name |-> name, cat |-> cat, val |-> val]

RECURSIVE ConcatAll(_)
ConcatAll(ss) == IF ss = <<>> THEN <<>> ELSE Head(ss) \o ConcatAll(Tail(ss))

N == Cardinality(Threads)
Orders == {o \in [1..N -> Threads] : \A i, j \in 1..N : o[i] = o[j] => i = j}

Block(r, t, tid, x) ==
  <<Entry(tid, "M", "thread_name", "", 0)>> \o
  ConcatAll([i \in DOMAIN r[t] |->
     LET ev == r[t][i] IN
       <<Entry(tid, ev.k, ev.name, ev.cat, IF ev.k = "E" /\ x THEN 55 ELSE ev.val)>>
       \o (IF ev.k = "E" /\ x THEN <<Entry(tid, "C", "cpuUtilization", "builtin", -1)>> ELSE <<>>)])

RefLog(r, ord, x) ==
  (IF x THEN <<Entry(0, "M", "process_name", "", 0)>> ELSE <<>>)
  \o ConcatAll([i \in 1..N |-> Block(r, ord[i], i - 1, x)])

RefLogs == {RefLog(rec, o, x) : o \in Orders, x \in BOOLEAN}

Del(l, i)  == SubSeq(l, 1, i - 1) \o SubSeq(l, i + 1, Len(l))
Dup(l, i)  == SubSeq(l, 1, i) \o SubSeq(l, i, Len(l))
Swap(l, i, j) == [l EXCEPT ![i] = l[j], ![j] = l[i]]

RelIdx(l)  == {i \in DOMAIN l : Relevant(l[i], CNames(rec))}
TidCount(l, g) == Cardinality({i \in RelIdx(l) : l[i].tid = g})

MutantsOf(l) ==
  LET RI == RelIdx(l) IN
       {Del(l, i) : i \in RI}
  \cup {Dup(l, i) : i \in RI}
  \cup {Swap(l, p[1], p[2]) : p \in {q \in RI \X RI : q[1] < q[2] /\ l[q[1]].tid = l[q[2]].tid /\ Proj(l[q[1]]) # Proj(l[q[2]])}}
  \cup {[l EXCEPT ![i].name = "zz"] : i \in {j \in RI : l[j].ph # "E"}}
  \cup {[l EXCEPT ![i].cat = "zz"] : i \in {j \in RI : l[j].ph \in {"B", "i"}}}
  \cup {[l EXCEPT ![i].val = @ - 1] : i \in {j \in RI : l[j].ph = "C"}}
  \cup {[l EXCEPT ![i].ph = "X"] : i \in RI}
  \cup {[l EXCEPT ![i].ph = IF @ = "B" THEN "i" ELSE "B"] : i \in {j \in RI : l[j].ph \in {"B", "i"}}}
  \cup {[l EXCEPT ![i].tid = 99] : i \in {j \in RI : TidCount(l, l[j].tid) >= 2}}

RetagsOf(l) == {[l EXCEPT ![i].tid = g] : i \in RelIdx(l), g \in 0..(N - 1)}

Mutants == UNION {MutantsOf(l) : l \in RefLogs}
Retags  == UNION {RetagsOf(l) : l \in RefLogs}

AcceptLaw == \A l \in RefLogs : Accepts(l, rec) /\ LogNested(l, CNames(rec))
RejectLaw == \A l \in Mutants : ~Accepts(l, rec)
NestLaw   == \A l \in RefLogs \cup Mutants \cup Retags : Accepts(l, rec) => LogNested(l, CNames(rec))
EquivLaw  == \A l \in RefLogs \cup Mutants \cup Retags : MatchLog(l, rec) <=> Accepts(l, rec)

\* the empty log: nothing recorded, the array may be empty or hold metadata only
EmptyLaw  == Active(rec) = {} => Accepts(<<>>, rec) /\ MatchLog(<<>>, rec) /\ ~Accepts(<<Entry(0, "B", "frame", "", 0)>>, rec)

\* negative control (expected to be VIOLATED): moving an entry to another existing tid is not always a rejection,
\* because tids are identified only up to renaming (thread A = <<x, y>>, thread B = <<x>>: move y from A to B)
RetagAlwaysRejected == \A l \in Retags : ~Accepts(l, rec)
===============================================================================
