----------------------------- MODULE TraceSessions -----------------------------
(* Recorder SESSIONS (property C20, trace log).  rkcommon/tracing/Tracing.h     *)
(* exports the classes TraceRecorder and ThreadEventList, not only the free     *)
(* functions: a user may create any number of recorders (one per frame, one per *)
(* session, a private one beside the global rkTrace API),                       *)
(*     TraceRecorder r;                                                         *)
(*     auto list = r.getThreadTraceList(std::this_thread::get_id());            *)
(*     list->setMarker("frame", nullptr); ...  r.saveLog(file, name);           *)
(* record into them from the same threads, save them and destroy them at        *)
(* different times.  The statement is about every such recorder: its saved log  *)
(* contains exactly the events recorded into THAT recorder, in recording order, *)
(* with the names they had when they were recorded - whatever was recorded into *)
(* other recorders by the same threads, and whether those still exist.          *)
(*                                                                              *)
(* State: rstate[r] in {"new", "open", "gone"}; rec[r][t], the events thread t  *)
(* recorded into recorder r.  The threads live through the whole history (their *)
(* lifetimes are the subject of TraceLog), so the per-recorder contract is      *)
(* TraceLogContract!Accepts with P = {}.                                        *)
(*                                                                              *)
(* Names.  The recorder caches names by POINTER, so where a name comes from     *)
(* matters as much as its text.  A recording action names a *source*:           *)
(*   "L1", "L2"  string literals shared by all sessions (the driver passes the  *)
(*               same `static const char *` objects: pointer-identical)         *)
(*   "D"         a string built at run time with the text of L1 at an address   *)
(*               of its own (equal content, different pointer)                  *)
(*   "BUF"       the calling thread's scratch buffer: ONE address, whose text   *)
(*               depends on the recorder ("buf<r>") - the same pointer with     *)
(*               different content in different recorders.  (Inside one         *)
(*               recorder a pointer always carries one text: the documented     *)
(*               precondition of the pointer-keyed cache.)                      *)
(* Text(src, r) is the text the event must show in the log of recorder r.       *)
EXTENDS TraceLogContract, SequencesExt

CONSTANTS Recorders,    \* 1..R
          MaxEvents,    \* bound on the total number of recorded events
          Ordered       \* BOOLEAN: recorder r+1 is created after recorder r was; thread t+1 records after thread t did

VARIABLES rstate, rec, last
vars == <<rstate, rec, last>>

Sources == {"L1", "L2", "D", "BUF"}
Text(src, r) == CASE src = "L1" -> "frame" [] src = "L2" -> "tick" [] src = "D" -> "frame" [] src = "BUF" -> "buf" \o ToString(r)

Total == LET RECURSIVE Sum(_)
             Sum(S) == IF S = {} THEN 0 ELSE LET p == CHOOSE x \in S : TRUE IN Len(rec[p[1]][p[2]]) + Sum(S \ {p})
         IN Sum(Recorders \X Threads)
Recorded(t) == \E r \in Recorders : rec[r][t] # <<>>

Void == [ret |-> "void"]
MayRecord(r, t) == /\ rstate[r] = "open" /\ Total < MaxEvents
                   /\ IF Ordered /\ t > 1 THEN Recorded(t - 1) ELSE TRUE

Create(r) ==
  /\ rstate[r] = "new" /\ Total < MaxEvents
  /\ IF Ordered /\ r > 1 THEN rstate[r - 1] # "new" ELSE TRUE
  /\ rstate' = [rstate EXCEPT ![r] = "open"] /\ rec' = rec
  /\ last' = [a |-> "RCreate", arg |-> [r |-> r], exp |-> Void, cls |-> ""]

\* the recorder and every list it handed out are destroyed (bounded instances: only after something was recorded into it)
Destroy(r) ==
  /\ rstate[r] = "open" /\ \E t \in Threads : rec[r][t] # <<>>
  /\ rstate' = [rstate EXCEPT ![r] = "gone"] /\ rec' = rec
  /\ last' = [a |-> "RDestroy", arg |-> [r |-> r], exp |-> Void, cls |-> ""]

Marker(r, t, src) ==
  /\ MayRecord(r, t)
  /\ rec' = [rec EXCEPT ![r][t] = Append(@, Ev("i", Text(src, r), "", NoVal))] /\ rstate' = rstate
  /\ last' = [a |-> "RMarker", arg |-> [r |-> r, t |-> t, src |-> src, csrc |-> ""], exp |-> Void, cls |-> ""]

Counter(r, t, src, val) ==
  /\ MayRecord(r, t)
  /\ rec' = [rec EXCEPT ![r][t] = Append(@, Ev("C", Text(src, r), "", val))] /\ rstate' = rstate
  /\ last' = [a |-> "RCounter", arg |-> [r |-> r, t |-> t, src |-> src, val |-> val], exp |-> Void, cls |-> ""]

\* begin with a category (the category goes through the same cache), end
Begin(r, t, src, csrc) ==
  /\ MayRecord(r, t)
  /\ rec' = [rec EXCEPT ![r][t] = Append(@, Ev("B", Text(src, r), Text(csrc, r), NoVal))] /\ rstate' = rstate
  /\ last' = [a |-> "RBegin", arg |-> [r |-> r, t |-> t, src |-> src, csrc |-> csrc], exp |-> Void, cls |-> ""]

End(r, t) ==
  /\ MayRecord(r, t) /\ DepthOf(KindsOf(rec[r][t])) > 0
  /\ rec' = [rec EXCEPT ![r][t] = Append(@, Ev("E", "", "", NoVal))] /\ rstate' = rstate
  /\ last' = [a |-> "REnd", arg |-> [r |-> r, t |-> t], exp |-> Void, cls |-> ""]

Visible(q) == LET T == Cardinality(Threads)
                  act == SelectSeq([t \in 1..T |-> t], LAMBDA t : q[t] # <<>>)
              IN [i \in DOMAIN act |-> RenderSeq(q[act[i]])]

SessionClass(r) == IF \E o \in Recorders \ {r} : rstate[o] = "gone" THEN "sessions=after-destroy"
                   ELSE IF \E o \in Recorders \ {r} : rstate[o] = "open" THEN "sessions=overlapping" ELSE "sessions=single"

Save(r) ==
  /\ rstate[r] = "open"
  /\ UNCHANGED <<rstate, rec>>
  /\ last' = [a |-> "RSave", arg |-> [r |-> r, pname |-> IF r % 2 = 0 THEN "" ELSE "proc"],
              exp |-> [json |-> "wellformed", threads |-> Visible(rec[r])],
              cls |-> (IF Active(rec[r]) = {} THEN "log=empty," ELSE "log=nonempty,") \o SessionClass(r)]

Init == /\ rstate = [r \in Recorders |-> "new"]
        /\ rec = [r \in Recorders |-> [t \in Threads |-> <<>>]]
        /\ last = [a |-> "Init", arg |-> <<>>, exp |-> Void, cls |-> ""]

\* bounded instances: markers from every source, one counter, one begin with category, end
Next ==
  \/ \E r \in Recorders : Create(r) \/ Destroy(r) \/ Save(r)
  \/ \E r \in Recorders, t \in Threads :
       \/ \E src \in Sources : Marker(r, t, src)
       \/ Counter(r, t, "L1", IF t = 1 THEN ToString(100 * r + t) ELSE "18446744073709551615")
       \/ Begin(r, t, "L2", "L1") \/ End(r, t)

Spec == Init /\ [][Next]_vars

-------------------------------------------------------------------------------
TypeOK == /\ \A r \in Recorders : rstate[r] \in {"new", "open", "gone"} /\ (rstate[r] = "new" => \A t \in Threads : rec[r][t] = <<>>)
          /\ \A r \in Recorders, t \in Threads : Nested(KindsOf(rec[r][t]))
Bounded == Total <= MaxEvents

\* the log a correct saveLog writes for recorder r (tids in thread order)
Entry(tid, ph, name, cat, val) == [tid |-> tid, ph |-> ph, name |-> name, cat |-> cat, val |-> val]
RefLog(r) == Concat([t \in 1..Cardinality(Threads) |->
                 <<Entry(t - 1, "M", "thread_name", "", NoVal)>> \o
                 [i \in DOMAIN rec[r][t] |-> LET e == rec[r][t][i] IN Entry(t - 1, e.k, e.name, e.cat, e.val)]])
\* what recorder o recorded, as far as recorder r's log is concerned: counters whose name r never recorded are indistinguishable
\* from the counters a recorder adds by itself and are ignored (TraceLogContract!Relevant)
Seen(r, o) == [t \in Threads |-> SelectSeq(rec[o][t], LAMBDA e : e.k # "C" \/ e.name \in CNames(rec[r]))]
SameContent(r, o) == \E m \in [Threads -> Threads] : (\A t, u \in Threads : m[t] = m[u] => t = u)
                                                  /\ \A t \in Threads : RenderSeq(rec[r][t]) = RenderSeq(Seen(r, o)[m[t]])

\* "exactly the events recorded into THAT recorder": a recorder's own reference log is accepted for it, another recorder's
\* log is accepted for it only when the two recorded the same things
SessionLaw == \A r \in Recorders :
                /\ Accepts(RefLog(r), rec[r], {}) /\ MatchLog(RefLog(r), rec[r], {})
                /\ \A o \in Recorders \ {r} : Accepts(RefLog(o), rec[r], {}) <=> SameContent(r, o)
\* a name from the per-thread buffer differs between recorders, the literal does not, and equal text from another address is equal text
ASSUME NameLaw == /\ \A r, o \in Recorders : r # o => Text("BUF", r) # Text("BUF", o)
           /\ \A r, o \in Recorders : Text("L1", r) = Text("L1", o) /\ Text("D", r) = Text("L1", r) /\ Text("L2", r) # Text("L1", r)
===============================================================================
