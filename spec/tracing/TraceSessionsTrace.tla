-------------------------- MODULE TraceSessionsTrace --------------------------
(* Trace specification (code -> spec) for recorder sessions, property C20: is   *)
(* what a real process did with several recorders, and found in the files their *)
(* saveLog() wrote, a behaviour of TraceSessions?                               *)
(*                                                                              *)
(*   {"e":"Create","r":r} / {"e":"Destroy","r":r}                               *)
(*   {"e":"Rec","r":r,"t":t,"k":k,"name":..,"cat":..,"val":..}   thread t       *)
(*        recorded into recorder r; name / cat are the TEXTS the driver passed  *)
(*        (wherever the pointer came from); recorder 0 is the global API and is *)
(*        open from the start                                                   *)
(*   {"e":"Save","r":r,"log":[[tid,ph,name,cat,val],...]}   recorder r was      *)
(*        saved and this is every element of the array in the file              *)
(* {"e":"malformed"}, {"e":"crash"} (a sanitizer report - e.g. a name that      *)
(* points into a recorder that no longer exists - ends the process),            *)
(* {"e":"timeout"} are not actions: rejected.  Executions are separated by      *)
(* {"e":"Reset"}.  The recorded sequences are short here, so rec is kept in the *)
(* state and every Save is decided by the declarative contract                  *)
(* TraceLogContract!Accepts (threads live throughout: P = {}).                  *)
EXTENDS TraceLogContract, Json, IOUtils, TLCExt

CONSTANT Recorders            \* 0..R, 0 = the global recorder

VARIABLES l, rstate, rec
tvars == <<l, rstate, rec>>

TraceLines == ndJsonDeserialize(IOEnv.TRACE)
N == Len(TraceLines)
Line == TraceLines[l]
E == Line.e

Fresh0 == [r \in Recorders |-> IF r = 0 THEN "open" ELSE "new"]
Empty0 == [r \in Recorders |-> [t \in Threads |-> <<>>]]
TInit == l = 1 /\ rstate = Fresh0 /\ rec = Empty0

Create  == E = "Create" /\ Line.r \in Recorders \ {0} /\ rstate[Line.r] = "new"
           /\ rstate' = [rstate EXCEPT ![Line.r] = "open"] /\ rec' = rec
Destroy == E = "Destroy" /\ Line.r \in Recorders \ {0} /\ rstate[Line.r] = "open"
           /\ rstate' = [rstate EXCEPT ![Line.r] = "gone"] /\ rec' = rec
Rec ==
  /\ E = "Rec" /\ Line.r \in Recorders /\ rstate[Line.r] = "open" /\ Line.t \in Threads /\ Line.k \in Kinds
  /\ IF Line.k = "E" THEN DepthOf(KindsOf(rec[Line.r][Line.t])) > 0 ELSE Line.name # ""
  /\ rec' = [rec EXCEPT ![Line.r][Line.t] = Append(@, Ev(Line.k, Line.name, IF Line.k \in {"B", "i"} THEN Line.cat ELSE "",
                                                       IF Line.k = "C" THEN Line.val ELSE NoVal))]
  /\ rstate' = rstate
LogOf(a) == [i \in DOMAIN a |-> [tid |-> a[i][1], ph |-> a[i][2], name |-> a[i][3], cat |-> a[i][4], val |-> a[i][5]]]
Save ==
  /\ E = "Save" /\ Line.r \in Recorders /\ rstate[Line.r] = "open"
  /\ LET log == LogOf(Line.log) IN Accepts(log, rec[Line.r], {}) /\ LogNested(log, CNames(rec[Line.r]))
  /\ UNCHANGED <<rstate, rec>>

Step  == l <= N /\ E # "Reset" /\ (Create \/ Destroy \/ Rec \/ Save) /\ l' = l + 1
Reset == l <= N /\ E = "Reset" /\ rstate' = Fresh0 /\ rec' = Empty0 /\ l' = l + 1
TNext == Step \/ Reset
TSpec == TInit /\ [][TNext]_tvars

Accepted == TLCGet("stats").diameter - 1 = N
Post == IF Accepted THEN TRUE
        ELSE /\ PrintT(<<"TRACE-REJECTED-AT-LINE", TLCGet("stats").diameter, "OF", N>>)
             /\ FALSE
===============================================================================
