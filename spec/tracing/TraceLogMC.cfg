SPECIFICATION Spec
CONSTANTS
  Threads = {1, 2}
  MaxEvents = 4
  MaxDepth = 2
  Ordered = FALSE
INVARIANTS TypeOK RecNested Bounded SaveExpAgrees AcceptLaw RejectLaw NestLaw EquivLaw EmptyLaw
CHECK_DEADLOCK FALSE
