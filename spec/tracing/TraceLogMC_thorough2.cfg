SPECIFICATION Spec
CONSTANTS
  Threads = {1, 2}
  MaxEvents = 4
  MaxDepth = 2
  Ordered = FALSE
  Exits = TRUE
  Hard = FALSE
INVARIANTS TypeOK RecNested Bounded PrecOK SaveExpAgrees AcceptLaw RejectLaw NestLaw EquivLaw AltLaw EmptyLaw
CHECK_DEADLOCK FALSE
