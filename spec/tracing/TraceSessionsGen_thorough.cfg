SPECIFICATION GSpec
CONSTANTS
  Threads = {1, 2}
  Recorders = {1, 2}
  MaxEvents = 4
  Ordered = TRUE
VIEW GView
INVARIANTS TypeOK Bounded SessionLaw
PROPERTIES GSaveAgrees GRecordAgrees
CHECK_DEADLOCK FALSE
