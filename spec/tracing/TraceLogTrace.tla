----------------------------- MODULE TraceLogTrace -----------------------------
(* Trace specification (code -> spec) for the trace recorder, property C20:    *)
(* is what a real process recorded and then found in the file saveLog() wrote  *)
(* a behaviour the contract of TraceLog allows?                                *)
(*                                                                             *)
(* One execution = one process (the recorder is a process-wide singleton):     *)
(*   {"e":"Start","threads":n}                                                 *)
(*   {"e":"Thread","t":t,"born":b,"died":d}   lifetime of thread t on the      *)
(*        logical clock of the driver's main thread, which performs every      *)
(*        creation and every join: b is taken just before the std::thread is   *)
(*        constructed, d just after join() returned (0: alive at saveLog).     *)
(*        "t had ended before u was created" (the relation P of the contract,  *)
(*        TraceLog's prec) is  died[t] > 0 /\ died[t] < born[u]                *)
(*   {"e":"Rec","t":t,"k":k,"name":..,"cat":..,"val":..}   every call thread t *)
(*        made (beginEvent / endEvent / setMarker / setCounter), as the thread *)
(*        itself logged it, in its program order; the lines of one thread are  *)
(*        contiguous (regrouping by thread is the only thing done outside TLC; *)
(*        there is no constraint across threads)                               *)
(*   {"e":"Save","pname":..}                       saveLog() was called        *)
(*   {"e":"Log","tid":..,"ph":..,"name":..,"cat":..,"val":..}   every element  *)
(*        of the JSON array in the file, in file order                         *)
(*   {"e":"End"}                                   end of the array            *)
(* {"e":"malformed"} (the file is not a well-formed JSON array of entries),    *)
(* {"e":"crash"}, {"e":"timeout"} are not actions of this specification: a     *)
(* trace containing one is rejected at that line.  Executions are separated by *)
(* {"e":"Reset"}.                                                              *)
(*                                                                             *)
(* The recorded sequences can be 10^5 events long, so they are NOT copied into *)
(* the state: rec[t] of TraceLog is represented by (start[t], cnt[t]), a       *)
(* window into the constant trace, and its nesting depth rdepth[t].  The Rec   *)
(* steps are TraceLog's Begin / End / Marker / Counter under that              *)
(* representation (End needs an open begin, names are non-empty, the thread    *)
(* was created); the Thread steps are TraceLog's ThreadStart / ThreadExit      *)
(* with prec represented by the two stamps; the Log                            *)
(* steps run the incremental matcher MStep of TraceLogContract (TraceLogMC     *)
(* shows it decides exactly Accepts) and, redundantly but explicitly, the      *)
(* begin/end nesting of every tid (a tid shared by threads that never          *)
(* coexisted holds their sequences one after the other, each nested in itself, *)
(* so the tid as a whole never closes more than it opened); End requires       *)
(* MDone: every recorded event of every thread was found.                      *)
EXTENDS TraceLogContract, Json, IOUtils, TLCExt

VARIABLES l, phase, nthreads, born, died, start, cnt, cur, rdepth, cn, ms, ldepth
tvars == <<l, phase, nthreads, born, died, start, cnt, cur, rdepth, cn, ms, ldepth>>

TraceLines == ndJsonDeserialize(IOEnv.TRACE)
N == Len(TraceLines)
Line == TraceLines[l]
E == Line.e

Zero == [t \in Threads |-> 0]
Fresh == /\ phase' = "idle" /\ nthreads' = 0 /\ born' = Zero /\ died' = Zero /\ start' = Zero /\ cnt' = Zero /\ cur' = 0 /\ rdepth' = Zero
         /\ cn' = {} /\ ms' = MInit /\ ldepth' = <<>>
TInit == /\ l = 1 /\ phase = "idle" /\ nthreads = 0 /\ born = Zero /\ died = Zero /\ start = Zero /\ cnt = Zero /\ cur = 0 /\ rdepth = Zero
         /\ cn = {} /\ ms = MInit /\ ldepth = <<>>

EvAt(i) == LET L == TraceLines[i] IN Ev(L.k, L.name, L.cat, L.val)

Start ==
  /\ E = "Start" /\ phase = "idle"
  /\ Line.threads \in 0..Cardinality(Threads)
  /\ phase' = "rec" /\ nthreads' = Line.threads
  /\ UNCHANGED <<born, died, start, cnt, cur, rdepth, cn, ms, ldepth>>

\* TraceLog!ThreadStart / ThreadExit: the lifetime of one thread (before any of its events)
Prec(t, u) == died[t] > 0 /\ died[t] < born[u]
Thread ==
  /\ E = "Thread" /\ phase = "rec"
  /\ Line.t \in 1..nthreads /\ born[Line.t] = 0 /\ cnt[Line.t] = 0
  /\ Line.born > 0 /\ (Line.died = 0 \/ Line.died > Line.born)
  /\ \A u \in Threads : born[u] > 0 => (born[u] # Line.born /\ (Line.died > 0 => died[u] # Line.died))   \* one clock
  /\ born' = [born EXCEPT ![Line.t] = Line.born]
  /\ died' = [died EXCEPT ![Line.t] = Line.died]
  /\ UNCHANGED <<phase, nthreads, start, cnt, cur, rdepth, cn, ms, ldepth>>

\* TraceLog!Begin / End / Marker / Counter on the windowed representation of rec
Rec ==
  /\ E = "Rec" /\ phase = "rec"
  /\ Line.t \in 1..nthreads /\ Line.k \in Kinds
  /\ born[Line.t] > 0                                         \* only a created thread records
  /\ Line.t = cur \/ cnt[Line.t] = 0                          \* one thread's lines are contiguous (else: rejected, not trusted)
  /\ IF Line.k = "E" THEN rdepth[Line.t] > 0 ELSE Line.name # ""
  /\ IF Line.k = "C" THEN Line.val # NoVal ELSE Line.val = NoVal
  /\ cur' = Line.t
  /\ start' = IF cnt[Line.t] = 0 THEN [start EXCEPT ![Line.t] = l] ELSE start
  /\ cnt' = [cnt EXCEPT ![Line.t] = @ + 1]
  /\ rdepth' = [rdepth EXCEPT ![Line.t] = @ + (IF Line.k = "B" THEN 1 ELSE IF Line.k = "E" THEN -1 ELSE 0)]
  /\ cn' = IF Line.k = "C" THEN cn \cup {Line.name} ELSE cn
  /\ UNCHANGED <<phase, nthreads, born, died, ms, ldepth>>

Save ==
  /\ E = "Save" /\ phase = "rec"
  /\ phase' = "log" /\ ms' = MInit /\ ldepth' = <<>>
  /\ UNCHANGED <<nthreads, born, died, start, cnt, cur, rdepth, cn>>

DepthOfTid(g) == IF g \in DOMAIN ldepth THEN ldepth[g] ELSE 0

Log ==
  /\ E = "Log" /\ phase = "log"
  /\ LET e == [tid |-> Line.tid, ph |-> Line.ph, name |-> Line.name, cat |-> Line.cat, val |-> Line.val] IN
       /\ \E s \in MStep(ms, e, cn, LAMBDA t : cnt[t], LAMBDA t, i : EvAt(start[t] + i - 1), Prec) : ms' = s
       /\ IF Relevant(e, cn) /\ e.ph \in {"B", "E"}
            THEN /\ e.ph = "E" => DepthOfTid(e.tid) > 0                                   \* properly nested in its tid
                 /\ ldepth' = (e.tid :> (DepthOfTid(e.tid) + (IF e.ph = "B" THEN 1 ELSE -1))) @@ ldepth
            ELSE ldepth' = ldepth
  /\ UNCHANGED <<phase, nthreads, born, died, start, cnt, cur, rdepth, cn>>

End ==
  /\ E = "End" /\ phase = "log"
  /\ MDone(ms, LAMBDA t : cnt[t])                               \* every recorded event of every thread is in the log
  /\ phase' = "done"
  /\ UNCHANGED <<nthreads, born, died, start, cnt, cur, rdepth, cn, ms, ldepth>>

Step  == l <= N /\ E # "Reset" /\ (Start \/ Thread \/ Rec \/ Save \/ Log \/ End) /\ l' = l + 1
Reset == l <= N /\ E = "Reset" /\ Fresh /\ l' = l + 1
TNext == Step \/ Reset
TSpec == TInit /\ [][TNext]_tvars

Accepted == TLCGet("stats").diameter - 1 = N
Post == IF Accepted THEN TRUE
        ELSE /\ PrintT(<<"TRACE-REJECTED-AT-LINE", TLCGet("stats").diameter, "OF", N>>)
             /\ FALSE
===============================================================================
