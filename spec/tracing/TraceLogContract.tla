--------------------------- MODULE TraceLogContract ---------------------------
(* The constant-level part of the trace-log specification (property C20): what  *)
(* a recorded event is, how it must appear in the written log, which entries of *)
(* a log are relevant, and the contract between a log and the recorded          *)
(* sequences - declaratively (Accepts) and as the incremental matcher that      *)
(* trace validation runs (MInit / MStep / MDone).  See TraceLog.tla for the     *)
(* state machine and the reading of the property; TraceLogMC checks the laws    *)
(* (Accepts is neither over-strict nor vacuous, MatchLog <=> Accepts).          *)
EXTENDS Integers, Sequences, FiniteSets, TLC

CONSTANT Threads      \* recording threads, 1..T

Kinds == {"B", "E", "i", "C"}

Ev(k, name, cat, val) == [k |-> k, name |-> name, cat |-> cat, val |-> val]

\* nesting depth of a sequence of events (recorded events use field k, log entries ph: pass the kinds)
RECURSIVE DepthOf(_)
DepthOf(ks) == IF ks = <<>> THEN 0
               ELSE DepthOf(SubSeq(ks, 1, Len(ks) - 1)) + (IF ks[Len(ks)] = "B" THEN 1 ELSE IF ks[Len(ks)] = "E" THEN -1 ELSE 0)
KindsOf(s) == [i \in DOMAIN s |-> s[i].k]
\* properly nested (as far as it goes): no prefix closes more than it opened
Nested(ks) == \A n \in 0..Len(ks) : DepthOf(SubSeq(ks, 1, n)) >= 0


-------------------------------------------------------------------------------
\* what an event looks like in the log (fields the contract does not constrain are normalised away)
Norm(ph, name, cat, val) ==
  CASE ph = "E" -> [ph |-> "E", name |-> "", cat |-> "", val |-> 0]            \* an end event carries no data of the caller
    [] ph = "C" -> [ph |-> "C", name |-> name, cat |-> "", val |-> val]
    [] OTHER    -> [ph |-> ph, name |-> name, cat |-> cat, val |-> 0]           \* B, i
Render(ev)    == Norm(ev.k, ev.name, ev.cat, ev.val)
RenderSeq(s)  == [i \in DOMAIN s |-> Render(s[i])]
Proj(e)       == Norm(e.ph, e.name, e.cat, e.val)

CNames(r)     == UNION {{r[t][i].name : i \in {j \in DOMAIN r[t] : r[t][j].k = "C"}} : t \in Threads}
Active(r)     == {t \in Threads : r[t] # <<>>}

\* relevant entries of a log, given the names of the recorded counters
Relevant(e, cn) == e.ph \in {"B", "E", "i"} \/ (e.ph = "C" /\ e.name \in cn)
KnownPh(e)      == e.ph \in Kinds \cup {"M"}

\* ---- the contract, declaratively -------------------------------------------
Accepts(log, r) ==
  LET cn   == CNames(r)
      rel  == SelectSeq(log, LAMBDA e : Relevant(e, cn))
      tids == {rel[i].tid : i \in DOMAIN rel}
      By(g) == LET s == SelectSeq(rel, LAMBDA e : e.tid = g) IN [i \in DOMAIN s |-> Proj(s[i])]
      act  == Active(r)
  IN /\ \A i \in DOMAIN log : KnownPh(log[i])
     /\ Cardinality(tids) = Cardinality(act)
     /\ \E m \in [act -> tids] :
          /\ \A t1, t2 \in act : m[t1] = m[t2] => t1 = t2
          /\ \A t \in act : By(m[t]) = RenderSeq(r[t])

\* per-tid begin/end nesting of the relevant entries of a log
LogNested(log, cn) ==
  LET rel == SelectSeq(log, LAMBDA e : Relevant(e, cn))
  IN \A g \in {rel[i].tid : i \in DOMAIN rel} :
       LET s == SelectSeq(rel, LAMBDA e : e.tid = g) IN Nested([i \in DOMAIN s |-> s[i].ph])

\* ---- the contract, incrementally (what trace validation runs; state of size O(threads)) ----
\* ms = [map: tid -> thread (a function on the tids met so far), pos: thread -> number of its events found so far].
\* RecLen(t) / RecAt(t, i) give access to the recorded sequences wherever they are kept.
MInit == [map |-> <<>>, pos |-> [t \in Threads |-> 0]]
MRange(ms) == {ms.map[g] : g \in DOMAIN ms.map}
MStep(ms, e, cn, RecLen(_), RecAt(_, _)) ==
  IF ~KnownPh(e) THEN {}
  ELSE IF ~Relevant(e, cn) THEN {ms}
  ELSE IF e.tid \in DOMAIN ms.map
    THEN LET t == ms.map[e.tid] IN
         IF ms.pos[t] < RecLen(t) /\ Proj(e) = Render(RecAt(t, ms.pos[t] + 1))
           THEN {[ms EXCEPT !.pos[t] = @ + 1]} ELSE {}
    ELSE {[map |-> (e.tid :> t) @@ ms.map, pos |-> [ms.pos EXCEPT ![t] = 1]] :
            t \in {u \in Threads \ MRange(ms) : RecLen(u) > 0 /\ Proj(e) = Render(RecAt(u, 1))}}
MDone(ms, RecLen(_)) == \A t \in Threads : ms.pos[t] = RecLen(t)

RECURSIVE MRun(_, _, _, _)
MRun(S, log, i, r) ==
  IF i > Len(log) THEN S
  ELSE MRun(UNION {MStep(ms, log[i], CNames(r), LAMBDA t : Len(r[t]), LAMBDA t, k : r[t][k]) : ms \in S}, log, i + 1, r)
MatchLog(log, r) == \E ms \in MRun({MInit}, log, 1, r) : MDone(ms, LAMBDA t : Len(r[t]))

===============================================================================
