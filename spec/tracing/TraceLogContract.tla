--------------------------- MODULE TraceLogContract ---------------------------
(* The constant-level part of the trace-log specification (property C20): what  *)
(* a recorded event is, how it must appear in the written log, which entries of *)
(* a log are relevant, and the contract between a log and the recorded          *)
(* sequences - declaratively (Accepts) and as the incremental matcher that      *)
(* trace validation runs (MInit / MStep / MDone).  See TraceLog.tla for the     *)
(* state machine and the reading of the property; TraceLogMC checks the laws    *)
(* (Accepts is neither over-strict nor vacuous, MatchLog <=> Accepts).          *)
(*                                                                              *)
(* Thread lifetimes.  The statement promises that the log "contains, for every  *)
(* recording thread, every recorded ... event in recording order"; it does not  *)
(* promise a tid of its own to every thread that ever recorded.  The recorder   *)
(* keys its lists by std::thread::id, and the OS hands the id of a thread that  *)
(* has ended to a thread created later, so two threads that never coexisted may *)
(* legitimately share a tid: the second one's events then follow the first      *)
(* one's.  P is the "ended before the other was created" relation on threads    *)
(* (a strict partial order; an interval order, so a set of pairwise comparable  *)
(* threads is a chain with a unique order).  The contract: the relevant entries *)
(* of one tid are the CONCATENATION, in P order, of the recorded sequences of a *)
(* P-chain of threads; every thread that recorded anything occurs in exactly    *)
(* one tid.  Threads whose lifetimes overlapped are P-incomparable and can      *)
(* therefore never share a tid; with P = {} this is the one-to-one contract.    *)
EXTENDS Integers, Sequences, FiniteSets, TLC

CONSTANT Threads      \* recording threads, 1..T

Kinds == {"B", "E", "i", "C"}

\* A counter value is a uint64_t; TLC's integers are 32 bit.  The contract only ever compares values for equality, so a value is
\* carried as its decimal numeral (a string of digits without leading zeros, "0" for zero), exactly, up to 2^64 - 1; events
\* without a value carry NoVal.  The drivers report the value in a log entry as the numeral of the NUMBER the JSON token denotes
\* (1e3 and 1000.0 are "1000"; a token that is not an integer is reported as such and equals no recorded value).
NoVal == ""
Ev(k, name, cat, val) == [k |-> k, name |-> name, cat |-> cat, val |-> val]

\* nesting depth of a sequence of events (recorded events use field k, log entries ph: pass the kinds)
RECURSIVE DepthOf(_)
DepthOf(ks) == IF ks = <<>> THEN 0
               ELSE DepthOf(SubSeq(ks, 1, Len(ks) - 1)) + (IF ks[Len(ks)] = "B" THEN 1 ELSE IF ks[Len(ks)] = "E" THEN -1 ELSE 0)
KindsOf(s) == [i \in DOMAIN s |-> s[i].k]
\* properly nested (as far as it goes): no prefix closes more than it opened
Nested(ks) == \A n \in 0..Len(ks) : DepthOf(SubSeq(ks, 1, n)) >= 0


-------------------------------------------------------------------------------
\* what an event looks like in the log (fields the contract does not constrain are normalised away)
Norm(ph, name, cat, val) ==
  CASE ph = "E" -> [ph |-> "E", name |-> "", cat |-> "", val |-> NoVal]            \* an end event carries no data of the caller
    [] ph = "C" -> [ph |-> "C", name |-> name, cat |-> "", val |-> val]
    [] OTHER    -> [ph |-> ph, name |-> name, cat |-> cat, val |-> NoVal]           \* B, i
Render(ev)    == Norm(ev.k, ev.name, ev.cat, ev.val)
RenderSeq(s)  == [i \in DOMAIN s |-> Render(s[i])]
Proj(e)       == Norm(e.ph, e.name, e.cat, e.val)

CNames(r)     == UNION {{r[t][i].name : i \in {j \in DOMAIN r[t] : r[t][j].k = "C"}} : t \in Threads}
Active(r)     == {t \in Threads : r[t] # <<>>}

\* relevant entries of a log, given the names of the recorded counters
Relevant(e, cn) == e.ph \in {"B", "E", "i"} \/ (e.ph = "C" /\ e.name \in cn)
KnownPh(e)      == e.ph \in Kinds \cup {"M"}

\* ---- thread lifetimes: P is a set of pairs <<t, u>>, "t had ended before u was created" ----
IsChain(S, P)  == \A t, u \in S : t # u => (<<t, u>> \in P \/ <<u, t>> \in P)
\* the threads of a chain in P order
ChainSeq(S, P) == [i \in 1..Cardinality(S) |-> CHOOSE t \in S : Cardinality({u \in S : <<u, t>> \in P}) = i - 1]
RECURSIVE Concat(_)
Concat(ss)     == IF ss = <<>> THEN <<>> ELSE Head(ss) \o Concat(Tail(ss))
\* what a tid shared by the chain S holds
ChainLog(S, P, r) == LET c == ChainSeq(S, P) IN Concat([i \in DOMAIN c |-> RenderSeq(r[c[i]])])
\* the threads that ended before another recording thread was created (only these can share a tid)
Sequential(r, P) == \E t, u \in Active(r) : <<t, u>> \in P

\* every admissible content of the log, as a list of per-tid sequences: one per partition of the recording threads into chains
Groupings(r, P) ==
  LET act == Active(r)
      T   == Cardinality(Threads)
      \* a partition, canonically: every thread points to the smallest thread of its block
      Reps == {f \in [act -> act] : \A t \in act : f[t] <= t /\ f[f[t]] = f[t]}
      Blk(f, b) == {t \in act : f[t] = b}
      ok  == {f \in Reps : \A b \in act : IsChain(Blk(f, b), P)}
  IN {SelectSeq([b \in 1..T |-> IF b \in act /\ f[b] = b THEN ChainLog(Blk(f, b), P, r) ELSE <<>>], LAMBDA q : q # <<>>) : f \in ok}

\* ---- the contract, declaratively -------------------------------------------
Accepts(log, r, P) ==
  LET cn   == CNames(r)
      rel  == SelectSeq(log, LAMBDA e : Relevant(e, cn))
      tids == {rel[i].tid : i \in DOMAIN rel}
      By(g) == LET s == SelectSeq(rel, LAMBDA e : e.tid = g) IN [i \in DOMAIN s |-> Proj(s[i])]
      act  == Active(r)
  IN /\ \A i \in DOMAIN log : KnownPh(log[i])
     /\ \E m \in [act -> tids] :
          \A g \in tids : LET S == {t \in act : m[t] = g} IN IsChain(S, P) /\ By(g) = ChainLog(S, P, r)

\* per-tid begin/end nesting of the relevant entries of a log
LogNested(log, cn) ==
  LET rel == SelectSeq(log, LAMBDA e : Relevant(e, cn))
  IN \A g \in {rel[i].tid : i \in DOMAIN rel} :
       LET s == SelectSeq(rel, LAMBDA e : e.tid = g) IN Nested([i \in DOMAIN s |-> s[i].ph])

\* ---- the contract, incrementally (what trace validation runs; state of size O(threads)) ----
\* ms = [map: tid -> the thread whose sequence is currently being found in that tid (a function on the tids met so far),
\*       pos: thread -> number of its events found so far (> 0: the thread has been placed)].
\* RecLen(t) / RecAt(t, i) give access to the recorded sequences wherever they are kept; Pr(t, u) is the relation P.
\* A relevant entry continues the current thread of its tid; only when that thread's sequence is complete may the tid go on
\* with a thread created after it had ended (P is transitive on a chain, so the last member is all that must be compared).
MInit == [map |-> <<>>, pos |-> [t \in Threads |-> 0]]
MStep(ms, e, cn, RecLen(_), RecAt(_, _), Pr(_, _)) ==
  IF ~KnownPh(e) THEN {}
  ELSE IF ~Relevant(e, cn) THEN {ms}
  ELSE LET fresh == {u \in Threads : ms.pos[u] = 0 /\ RecLen(u) > 0 /\ Proj(e) = Render(RecAt(u, 1))}
           Place(u) == [map |-> (e.tid :> u) @@ ms.map, pos |-> [ms.pos EXCEPT ![u] = 1]]
       IN IF e.tid \in DOMAIN ms.map
            THEN LET t == ms.map[e.tid] IN
                 IF ms.pos[t] < RecLen(t)
                   THEN IF Proj(e) = Render(RecAt(t, ms.pos[t] + 1)) THEN {[ms EXCEPT !.pos[t] = @ + 1]} ELSE {}
                   ELSE {Place(u) : u \in {v \in fresh : Pr(t, v)}}
            ELSE {Place(u) : u \in fresh}
MDone(ms, RecLen(_)) == \A t \in Threads : ms.pos[t] = RecLen(t)

RECURSIVE MRun(_, _, _, _, _)
MRun(S, log, i, r, P) ==
  IF i > Len(log) THEN S
  ELSE MRun(UNION {MStep(ms, log[i], CNames(r), LAMBDA t : Len(r[t]), LAMBDA t, k : r[t][k], LAMBDA t, u : <<t, u>> \in P) : ms \in S},
            log, i + 1, r, P)
MatchLog(log, r, P) == \E ms \in MRun({MInit}, log, 1, r, P) : MDone(ms, LAMBDA t : Len(r[t]))

===============================================================================
