------------------------------ MODULE TraceLogGen ------------------------------
(* Generation instance of TraceLog: the complete state graph of the bounded    *)
(* recorder, from which the check derives the histories replayed on the real   *)
(* recorder (one shortest path to every abstract state, then SaveLog; seeded   *)
(* random walks).                                                              *)
(*                                                                             *)
(* Export: the VIEW identifies states that differ only in the ghost `last`, so *)
(* every abstract state (tuple of per-thread event sequences) is expanded      *)
(* once; every transition TLC generates is appended to IOEnv.EDGES as one JSON *)
(* line {"src": rec, "step": last', "dst": rec'} (the initial state as         *)
(* {"init": rec}).  All values in the file are computed by TLC.                *)
EXTENDS TraceLog, IOUtils, Json, CSV

GInit == Init /\ CSVWrite("%1$s", <<ToJson([init |-> rec])>>, IOEnv.EDGES)
GNext == Next /\ CSVWrite("%1$s", <<ToJson([src |-> rec, step |-> last', dst |-> rec'])>>, IOEnv.EDGES)
GSpec == GInit /\ [][GNext]_vars
GView == rec

\* `last` agrees with the state it was computed in (action form: the VIEW hides `last`)
GSaveAgrees == [][last'.a = "SaveLog" =>
                   /\ rec' = rec
                   /\ last'.exp.json = "wellformed"
                   /\ Len(last'.exp.threads) = Cardinality(Active(rec))
                   /\ \A t \in Active(rec) : \E i \in DOMAIN last'.exp.threads : last'.exp.threads[i] = RenderSeq(rec[t])]_vars
GRecordAgrees == [][last'.a # "SaveLog" =>
                   \E t \in Threads : /\ rec'[t] = Append(rec[t], Ev(CASE last'.a = "Begin" -> "B" [] last'.a = "End" -> "E"
                                                                          [] last'.a = "Marker" -> "i" [] last'.a = "Counter" -> "C",
                                                                     IF last'.a = "End" THEN "" ELSE last'.arg.name,
                                                                     IF last'.a \in {"Begin", "Marker"} THEN last'.arg.cat ELSE "",
                                                                     IF last'.a = "Counter" THEN last'.arg.val ELSE 0))
                                      /\ last'.arg.t = t
                                      /\ \A u \in Threads \ {t} : rec'[u] = rec[u]]_vars
===============================================================================
