------------------------------ MODULE TraceLogGen ------------------------------
(* Generation instance of TraceLog: the complete state graph of the bounded    *)
(* recorder, from which the check derives the histories replayed on the real   *)
(* recorder (one shortest path to every abstract state, then SaveLog; seeded   *)
(* random walks).                                                              *)
(*                                                                             *)
(* Export: the VIEW identifies states that differ only in the ghost `last`, so *)
(* every abstract state (per-thread event sequences, thread phases, the        *)
(* ended-before-created relation) is expanded once; every transition TLC       *)
(* generates is appended to IOEnv.EDGES as one JSON line                       *)
(* {"src": state, "step": last', "dst": state'} (the initial state as          *)
(* {"init": state}).  All values in the file are computed by TLC.              *)
EXTENDS TraceLog, IOUtils, Json, CSV

Abs  == [rec |-> rec, phase |-> phase, prec |-> SetToSeq(prec)]
AbsN == [rec |-> rec', phase |-> phase', prec |-> SetToSeq(prec')]
GInit == Init /\ CSVWrite("%1$s", <<ToJson([init |-> Abs])>>, IOEnv.EDGES)
GNext == Next /\ CSVWrite("%1$s", <<ToJson([src |-> Abs, step |-> last', dst |-> AbsN])>>, IOEnv.EDGES)
GSpec == GInit /\ [][GNext]_vars
GView == <<rec, phase, prec>>

\* `last` agrees with the state it was computed in (action form: the VIEW hides `last`)
GSaveAgrees == [][last'.a = "SaveLog" =>
                   /\ rec' = rec /\ phase' = phase /\ prec' = prec
                   /\ \A i \in DOMAIN last'.exp.alt : \A g \in DOMAIN last'.exp.alt[i] : last'.exp.alt[i][g] # <<>>
                   /\ Len(last'.exp.alt) >= 1 /\ (Len(last'.exp.alt) > 1 <=> Sequential(rec, prec))
                   /\ last'.exp.json = "wellformed"
                   /\ Len(last'.exp.threads) = Cardinality(Active(rec))
                   /\ \A t \in Active(rec) : \E i \in DOMAIN last'.exp.threads : last'.exp.threads[i] = RenderSeq(rec[t])]_vars
GLifeAgrees == [][last'.a \in {"ThreadStart", "ThreadExit"} =>
                   /\ rec' = rec
                   /\ phase'[last'.arg.t] = (IF last'.a = "ThreadStart" THEN "live" ELSE "done")
                   /\ prec \subseteq prec']_vars
GRecordAgrees == [][last'.a \in {"Begin", "End", "Marker", "Counter"} =>
                   \E t \in Threads : /\ rec'[t] = Append(rec[t], Ev(CASE last'.a = "Begin" -> "B" [] last'.a = "End" -> "E"
                                                                          [] last'.a = "Marker" -> "i" [] last'.a = "Counter" -> "C",
                                                                     IF last'.a = "End" THEN "" ELSE last'.arg.name,
                                                                     IF last'.a \in {"Begin", "Marker"} THEN last'.arg.cat ELSE "",
                                                                     IF last'.a = "Counter" THEN last'.arg.val ELSE NoVal))
                                      /\ last'.arg.t = t /\ phase[t] = "live" /\ phase' = phase /\ prec' = prec
                                      /\ \A u \in Threads \ {t} : rec'[u] = rec[u]]_vars
===============================================================================
