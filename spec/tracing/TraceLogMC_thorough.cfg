SPECIFICATION Spec
CONSTANTS
  Threads = {1, 2, 3}
  MaxEvents = 3
  MaxDepth = 2
  Ordered = TRUE
  Exits = TRUE
  Hard = FALSE
INVARIANTS TypeOK RecNested Bounded PrecOK SaveExpAgrees AcceptLaw RejectLaw NestLaw EquivLaw AltLaw EmptyLaw
CHECK_DEADLOCK FALSE
