SPECIFICATION Spec
CONSTANTS
  MaxItems = 2
  UniverseName = "corewrap"
INVARIANTS TypeOK SizeLaw CursorInside CursorIsOffset EndExactly RoundTrip LastAgrees ByteModel BrokenOnlyAfterCompositeThrow
