---------------------------- MODULE FixedWriterBig -----------------------------
(* FixedBufferWriter at NUMERIC BOUNDARIES (property C15): capacities at and    *)
(* around 2^8 .. 2^16 (2^20 in the thorough tier), sizes that fill the buffer   *)
(* exactly / go one byte over, and size_t values around 2^64 - cursor, for      *)
(* which cursor + size wraps to 0, to exactly what is available, and to one     *)
(* more.  The content is kept as RUNS <<[b, n]>> (n bytes of value b), so a     *)
(* 64 KiB buffer is a few records; the decision function is FixedWriter!FitsN   *)
(* (the ASSUME below: the same as FixedWriter!Fits).  Also covered here:        *)
(*  - a view of the written part taken EARLY (getWrittenView() kept by the      *)
(*    caller) still shows those bytes after later writes and reservations;      *)
(*  - a reserved region is filled LATER, through the pointer reserve() returned, *)
(*    after other writes (the usual "reserve the header, write the body, fill   *)
(*    the header" use);                                                         *)
(*  - a TWIN writer of the same capacity used alternately with the first by the *)
(*    same thread behaves identically (no state shared between instances).      *)
(* One scripted history per capacity; TLC folds the step operators.             *)
EXTENDS FixedWriter, Json, IOUtils

ASSUME \A c \in 0..8 : \A used \in 0..c : \A n \in -3..10 :
          /\ FitsN(c, used, n) = Fits(c, Block(used, 0), n)
          /\ ClsN(c, used, n) = Cls(c, Block(used, 0), n)

BigCaps == {4, 5, 127, 128, 255, 256, 257, 511, 512, 513, 1023, 1024, 1025, 4095, 4096, 4097, 65535, 65536, 65537}
           \cup (IF IOEnv.TIER = "thorough" THEN {16383, 16384, 16385, 32767, 32768, 32769, 1048575, 1048576, 1048577, 16777217} ELSE {})

BObs(st) == [available |-> st.cap - st.cur, capacity |-> st.cap, wsize |-> st.cur, runs |-> st.runs]
\* the bytes an early view showed are still there after later writes, reservations and fills
EarlyObs(st) == IF st.early < 0 THEN "none" ELSE [n |-> st.earlyN, runs |-> SubSeq(st.runs, 1, st.early)]
Exp(st, ret) == [ret |-> ret, st |-> BObs(st), twin |-> BObs(st), early |-> EarlyObs(st)]

BNew(c) ==
  LET st == [cap |-> c, cur |-> 0, runs |-> <<>>, early |-> -1, earlyN |-> 0, res |-> 0] IN
  [s |-> st, last |-> [a |-> "New", arg |-> [cap |-> c], cls |-> "", ok |-> TRUE, exp |-> Exp(st, "ok")]]

BPut(st, op, n, b) ==
  LET f   == FitsN(st.cap, st.cur, n)
      st2 == IF f /\ n > 0
             THEN [st EXCEPT !.cur = @ + n, !.runs = Append(@, [b |-> b, n |-> n]),
                             !.res = IF op = "Reserve" THEN Len(st.runs) + 1 ELSE @]
             ELSE st IN
  [s |-> st2, last |-> [a |-> op, arg |-> [n |-> n, b |-> b], cls |-> ClsN(st.cap, st.cur, n), ok |-> f,
                        exp |-> Exp(st2, IF f THEN "ok" ELSE "throws")]]

\* the caller keeps getWrittenView()
BTakeView(st) ==
  LET st2 == [st EXCEPT !.early = Len(st.runs), !.earlyN = st.cur] IN
  [s |-> st2, last |-> [a |-> "TakeView", arg |-> <<>>, cls |-> "", ok |-> TRUE, exp |-> Exp(st2, "ok")]]

\* the caller fills the most recent reservation (again) through the pointer it got, with byte b
BRefill(st, b) ==
  LET st2 == [st EXCEPT !.runs[st.res].b = b] IN
  [s |-> st2, last |-> [a |-> "Refill", arg |-> [b |-> b], cls |-> "", ok |-> TRUE, exp |-> Exp(st2, "ok")]]

SizeCode(j) == -1073741824 - j     \* as Stream!SizeCode: 2^31, 2^31 + 1, 2^32 - 1, 2^32, 2^32 + 1, 2^63 for j = 0 .. 5
\* the script for capacity c >= 4 (reservations only for the huge sizes: a write needs a source of that size); size_t values are written as negative numbers: n < 0 stands for 2^64 + n
RECURSIVE Fold(_, _, _)
Fold(st, ops, acc) ==
  IF ops = <<>> THEN acc
  ELSE LET o == Head(ops)
           r == CASE o.a = "Put"  -> BPut(st, o.op, IF o.rel THEN o.n - st.cur ELSE o.n, o.b)
                  [] o.a = "View" -> BTakeView(st)
                  [] o.a = "Fill" -> BRefill(st, o.b)
       IN Fold(r.s, Tail(ops), Append(acc, r.last))
P(op, n, b) == [a |-> "Put", op |-> op, n |-> n, b |-> b, rel |-> FALSE]
R(op, n, b) == [a |-> "Put", op |-> op, n |-> n, b |-> b, rel |-> TRUE]      \* n - cursor, i.e. 2^64 + n - cursor
Script(c) ==
  LET n1 == c \div 2
      new == BNew(c) IN
  Fold(new.s,
       << P("Write", n1, 1),
          [a |-> "View"],                         \* the caller keeps a view of what is written so far
          P("Reserve", c - n1 - 1, 2),            \* fits, one byte is left
          P("Write", 2, 3),                       \* one byte over: throws
          R("Reserve", 0, 20),                    \* 2^64 - cursor: cursor + size wraps to 0
          R("Reserve", 1, 21),                    \* 2^64 - cursor + 1: wraps to exactly what is available
          R("Reserve", 2, 22),                    \* ... to one more
          P("Write", 1, 4),                       \* exact fit
          [a |-> "Fill", b |-> 9],                \* the reservation is filled after the buffer has been completed
          P("Write", 0, 5), P("Reserve", 0, 6),   \* nothing into a full buffer: fits
          P("Write", 1, 7), P("Reserve", 1, 8),   \* one over
          P("Reserve", -1, 10),
          \* 2^31, 2^31 + 1, 2^32 - 1, 2^32, 2^32 + 1, 2^63 (Stream!SizeCode): none fits
          P("Reserve", SizeCode(0), 11), P("Reserve", SizeCode(1), 12), P("Reserve", SizeCode(2), 13),
          P("Reserve", SizeCode(3), 14), P("Reserve", SizeCode(4), 15), P("Reserve", SizeCode(5), 16) >>,
       <<new.last>>)

RECURSIVE SortedSeq(_)
MinS(S) == CHOOSE x \in S : \A y \in S : x <= y
SortedSeq(S) == IF S = {} THEN <<>> ELSE <<MinS(S)>> \o SortedSeq(S \ {MinS(S)})
CapSeq == SortedSeq(BigCaps)
Cases == [i \in 1..Len(CapSeq) |-> [h |-> Script(CapSeq[i])]]
ASSUME ndJsonSerialize(IOEnv.OUT, Cases)
Stutter == UNCHANGED vars
===============================================================================
