------------------------------ MODULE StreamLive ------------------------------
(* Interleaved use of ONE shared buffer (property C15): BufferWriter::buffer is  *)
(* a shared array that grows in place while the writer appends, and any number  *)
(* of BufferReaders may be constructed over it AT ANY TIME - also while it is   *)
(* still empty - each with its own cursor.  The contract is the one of Stream,  *)
(* with "the written data" meaning what has been written SO FAR:                *)
(*   - a reader's available bytes are always (bytes written so far) - cursor;   *)
(*   - end() is true exactly when cursor = bytes written so far;                *)
(*   - reading in writing order returns the values written, also when they were *)
(*     written after the reader was constructed (and after the writer's storage *)
(*     has moved);                                                              *)
(*   - a read or view beyond what has been written so far throws and leaves the *)
(*     cursor where it was; it succeeds once the data has been written.         *)
(* Framing (EncLen), values (Val) and read modes are those of Stream.           *)
(* State s: items, bytes, readers = <<[cursor, idx, born]>> (born = bytes when   *)
(* the reader was constructed).  After every step the observables of ALL        *)
(* readers are reported (rs): a Write changes what every reader must say.       *)
EXTENDS Stream, StreamUniverse

CONSTANTS MaxItems, MaxReaders, LiveUniverseName

LiveSmall == <<
  [t |-> "u8",  v |-> 7],
  [t |-> "str", v |-> "ab"],
  [t |-> "raw", v |-> <<9, 8, 7>>] >>
LiveMore == LiveSmall \o <<
  [t |-> "vs",   v |-> <<"", "a", "">>],
  [t |-> "bstr", v |-> <<0, 97>>],
  [t |-> "AbstractArray<int>&", v |-> <<4, 5, 6>>] >>
LU == IF LiveUniverseName = "tiny" THEN SubSeq(LiveSmall, 1, 2) ELSE IF LiveUniverseName = "small" THEN LiveSmall ELSE LiveMore
LiveItems == {LU[i] : i \in DOMAIN LU}

LEmpty    == [items |-> <<>>, bytes |-> 0, readers |-> <<>>]
LInitLast == [a |-> "Init", arg |-> <<>>, cls |-> "", ok |-> TRUE, exp |-> [rs |-> <<>>]]

\* what every reader must report: its cursor, end(), and how many bytes it can still read
RS(st) == [i \in 1..Len(st.readers) |->
             [cursor |-> st.readers[i].cursor,
              end    |-> (st.readers[i].cursor = st.bytes),
              avail  |-> st.bytes - st.readers[i].cursor]]
LRem(st, r) == st.bytes - st.readers[r].cursor

\* ---- a reader over the writer's buffer as it is now
LNewReaderStep(st) ==
  LET st2 == [st EXCEPT !.readers = Append(@, [cursor |-> 0, idx |-> 0, born |-> st.bytes])] IN
  [s |-> st2,
   last |-> [a |-> "NewReader", arg |-> <<>>, cls |-> IF st.bytes = 0 THEN "on-empty-buffer" ELSE "on-written-buffer",
             ok |-> TRUE, exp |-> [rs |-> RS(st2)]]]

\* ---- the writer appends (to the BufferWriter and to a WriteSizeCalculator); readers may exist
LWriteStep(st, it) ==
  LET n   == EncLen(it)
      st2 == [st EXCEPT !.items = Append(@, it), !.bytes = @ + n] IN
  [s |-> st2,
   last |-> [a |-> "Write", arg |-> [item |-> it, cap |-> -1],
             cls |-> it.t \o (IF Len(st.readers) > 0 THEN ",readers-attached" ELSE ",no-reader"), ok |-> TRUE,
             exp |-> [len |-> n, total |-> st2.bytes, predicted |-> st2.bytes, rs |-> RS(st2)]]]

\* ---- reader r reads its next item (items are complete: what is written fits)
LReadEnabled(st, r) == r \in 1..Len(st.readers) /\ st.readers[r].idx < Len(st.items)
LReadStep(st, r, via) ==
  LET rd  == st.readers[r]
      it  == st.items[rd.idx + 1]
      st2 == [st EXCEPT !.readers[r].cursor = @ + EncLen(it), !.readers[r].idx = @ + 1] IN
  [s |-> st2,
   last |-> [a |-> "Read", arg |-> [r |-> r, t |-> it.t, via |-> via, n |-> IF it.t = "raw" THEN Len(it.v) ELSE 0, g |-> 0, dst |-> "fresh", pre |-> 0],
             cls |-> it.t \o ":" \o via \o (IF rd.cursor >= rd.born THEN ",written-after-reader" ELSE ",written-before-reader"),
             ok |-> TRUE, exp |-> [ret |-> Val(it), rs |-> RS(st2)]]]

\* ---- a typed POD read beyond what has been written so far: throws, nothing changes
LProbeEnabled(st, r, t) == r \in 1..Len(st.readers) /\ PodSize(t) > LRem(st, r)
LProbeStep(st, r, t) ==
  [s |-> st,
   last |-> [a |-> "Probe", arg |-> [r |-> r, t |-> t], cls |-> t \o ",beyond-written", ok |-> FALSE,
             exp |-> [ret |-> "throws", rs |-> RS(st)]]]

\* ---- getView<uint8_t>(n) (n < 0: 2^64 + n): beyond what is written: throws; n = 0: empty view;
\* n = everything written so far: the reader is at the end and at an item boundary again
LViewFits(st, r, n) == n >= 0 /\ n <= LRem(st, r)
LViewEnabled(st, r, n) == r \in 1..Len(st.readers) /\ (LViewFits(st, r, n) => n = 0 \/ n = LRem(st, r))
LViewStep(st, r, n) ==
  LET cl == IF n < 0 THEN "huge" ELSE IF n = 0 THEN "zero" ELSE IF n = LRem(st, r) THEN "all-written-so-far"
            ELSE IF n = LRem(st, r) + 1 THEN "one-over" ELSE "over" IN
  IF LViewFits(st, r, n)
  THEN LET st2 == IF n < LRem(st, r) THEN st     \* (n = 0: an empty view in front of unread bytes)
                  ELSE [st EXCEPT !.readers[r].cursor = st.bytes, !.readers[r].idx = Len(st.items)] IN   \* everything so far (also items of no bytes) is behind the reader
       [s |-> st2, last |-> [a |-> "View", arg |-> [r |-> r, n |-> n], cls |-> cl, ok |-> TRUE, exp |-> [ret |-> n, rs |-> RS(st2)]]]
  ELSE [s |-> st, last |-> [a |-> "View", arg |-> [r |-> r, n |-> n], cls |-> cl, ok |-> FALSE, exp |-> [ret |-> "throws", rs |-> RS(st)]]]

-------------------------------------------------------------------------------
LInit == s = LEmpty /\ last = LInitLast

LNewReader   == Take(LNewReaderStep(s))
LWrite(it)   == Take(LWriteStep(s, it))
LRead(r, via) == LReadEnabled(s, r) /\ via \in Vias(s.items[s.readers[r].idx + 1]) /\ Take(LReadStep(s, r, via))
LProbe(r, t) == LProbeEnabled(s, r, t) /\ Take(LProbeStep(s, r, t))
LView(r, n)  == LViewEnabled(s, r, n) /\ Take(LViewStep(s, r, n))

LNext ==
  \/ Len(s.readers) < MaxReaders /\ LNewReader
  \/ \E it \in LiveItems : Len(s.items) < MaxItems /\ LWrite(it)
  \/ \E r \in 1..Len(s.readers) :
       \/ \E via \in {"typed", "vec", "view", "read"} : LRead(r, via)
       \/ LProbe(r, "i32")
       \/ \E n \in {LRem(s, r), LRem(s, r) + 1} : LView(r, n)      \* (huge and empty views: Stream)
LSpec == LInit /\ [][LNext]_vars

-------------------------------------------------------------------------------
\* laws of the specification itself
LiveSizeLaw    == s.bytes = Total(s.items)
\* a reader's cursor is the encoded length of the items it has read (or skipped by a view of everything)
LiveCursorLaw  == \A r \in 1..Len(s.readers) :
                     /\ s.readers[r].cursor = Total(SubSeq(s.items, 1, s.readers[r].idx))
                     /\ s.readers[r].cursor <= s.bytes /\ s.readers[r].born <= s.bytes
\* what a reader can still read is exactly the items it has not read yet - whenever they were written;
\* end() exactly when nothing is left
LiveAvailLaw   == \A r \in 1..Len(s.readers) :
                     LET todo == Total(SubSeq(s.items, s.readers[r].idx + 1, Len(s.items))) IN
                     /\ RS(s)[r].avail = todo
                     /\ RS(s)[r].end <=> (todo = 0)
LiveLastAgrees == last.exp.rs = RS(s)
\* a Write changes no cursor and adds exactly its length to what every reader can read
LiveWriteLaw   == [][last'.a = "Write" =>
                       /\ Len(s'.readers) = Len(s.readers)
                       /\ \A r \in 1..Len(s.readers) :
                            /\ s'.readers[r] = s.readers[r]
                            /\ RS(s')[r].avail = RS(s)[r].avail + last'.exp.len]_vars
===============================================================================
