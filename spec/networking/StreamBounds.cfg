INIT Init
NEXT Stutter
