----------------------------- MODULE FixedWriter ------------------------------
(* rkcommon::networking::FixedBufferWriter (property C15, second half):        *)
(* a write stream over a buffer of fixed capacity.                             *)
(*                                                                             *)
(*   "accepts a write or reservation exactly when it fits in the remaining     *)
(*    capacity and otherwise throws without writing, with available() /        *)
(*    capacity() / getWrittenView() always describing exactly what was         *)
(*    written"                                                                 *)
(*                                                                             *)
(* State: cap (-1: not constructed yet), content = the bytes accepted so far,  *)
(* in order (the cursor is Len(content)).  A size n < 0 stands for a size_t    *)
(* value of 2^31 or more (TLC integers are 32 bit): 2^64 + n for n > -2^30,    *)
(* and 2^31, 2^31+1, 2^32-1, 2^32, 2^32+1, 2^63 for n = -2^30 - 0 .. 5.        *)
(* (such a size never fits).  Write(n, b) writes n bytes of    *)
(* value b; Reserve(n, b) reserves n bytes which the caller then fills with b  *)
(* through the returned pointer.                                               *)
EXTENDS Integers, Sequences, TLC

CONSTANTS Caps,      \* capacities
          Sizes      \* sizes of writes and reservations
HugeSizes == {-1}    \* size_t(-1): in the bounded instances reservations only (a write of that size needs a source)

VARIABLES cap, content, last
vars == <<cap, content, last>>

\* the decision in terms of the number of bytes used (FixedWriterBig works with lengths only)
FitsN(c, used, n) == n >= 0 /\ n <= c - used
ClsN(c, used, n) == IF n < 0 THEN "huge" ELSE IF n < c - used THEN "fits" ELSE IF n = c - used THEN "exact-fit"
                    ELSE IF n = c - used + 1 THEN "one-over" ELSE "over"
Avail(c, ct) == c - Len(ct)
Fits(c, ct, n) == FitsN(c, Len(ct), n)
Cls(c, ct, n) == ClsN(c, Len(ct), n)
Block(n, b) == [i \in 1..n |-> b]
Obs(c, ct) == [available |-> Avail(c, ct), capacity |-> c, written |-> ct]

Init == cap = -1 /\ content = <<>> /\ last = [a |-> "Init", arg |-> <<>>, cls |-> "", ok |-> TRUE, exp |-> [ret |-> "ok"]]

New(c) ==
  /\ cap = -1
  /\ cap' = c /\ content' = <<>>
  /\ last' = [a |-> "New", arg |-> [cap |-> c], cls |-> "", ok |-> TRUE, exp |-> [ret |-> "ok", st |-> Obs(c, <<>>)]]

\* write(mem, n) and reserve(n) have the same contract; they are different functions of the code
Put(op, n, b) ==
  /\ cap >= 0
  /\ cap' = cap
  /\ content' = IF Fits(cap, content, n) THEN content \o Block(n, b) ELSE content
  /\ last' = [a |-> op, arg |-> [n |-> n, b |-> b], cls |-> Cls(cap, content, n), ok |-> Fits(cap, content, n),
              exp |-> [ret |-> IF Fits(cap, content, n) THEN "ok" ELSE "throws", st |-> Obs(cap, content')]]

Write(n, b)   == n >= 0 /\ Put("Write", n, b)
Reserve(n, b) == Put("Reserve", n, b)

\* the byte value used by the bounded instances: tells the two operations apart
ByteFor(op, n) == IF op = "Write" THEN 1 ELSE 2

Next == \/ \E c \in Caps : New(c)
        \/ \E n \in Sizes : Write(n, ByteFor("Write", n)) \/ Reserve(n, ByteFor("Reserve", n))
        \/ \E n \in HugeSizes : Reserve(n, ByteFor("Reserve", n))
Spec == Init /\ [][Next]_vars

-------------------------------------------------------------------------------
Constructed   == cap >= 0
NeverOverfull == Constructed => Len(content) <= cap
LastAgrees    == Constructed => /\ last.exp.st.written = content
                                /\ last.exp.st.available + Len(content) = cap
                                /\ last.exp.st.capacity = cap
\* a step either appends exactly the block (and then it fitted) or changes nothing (and then it did not fit)
StepLaw == [][cap >= 0 =>
               LET n == last'.arg.n IN
               \/ /\ last'.ok /\ n >= 0 /\ n <= cap - Len(content)
                  /\ content' = content \o Block(n, last'.arg.b)
               \/ /\ ~last'.ok /\ (n < 0 \/ n > cap - Len(content))
                  /\ content' = content]_vars
===============================================================================
