--------------------------- MODULE FixedWriterTrace ----------------------------
(* Trace specification: is a recorded execution of the real FixedBufferWriter  *)
(* a behaviour of FixedWriter?  Each recorded line {a, arg, obs}: the next     *)
(* action with those arguments, observed result and state (available,          *)
(* capacity, written view) equal to what the specification computes.           *)
EXTENDS FixedWriter, Json, IOUtils, TLCExt

VARIABLE l
tvars == <<cap, content, last, l>>

TraceLines == ndJsonDeserialize(IOEnv.TRACE)
N == Len(TraceLines)
Line == TraceLines[l]

\* values are compared through their JSON text (a value of an unexpected kind is a mismatch, not an error)
ObsMatches == /\ ToJson(Line.obs.ret) = ToJson(last'.exp.ret)
              /\ "st" \in DOMAIN last'.exp =>
                    \A f \in {"available", "capacity", "written"} : ToJson(Line.obs.st[f]) = ToJson(last'.exp.st[f])

TInit == Init /\ l = 1

Dispatch ==
  \/ Line.a = "New"     /\ New(Line.arg.cap)
  \/ Line.a = "Write"   /\ Write(Line.arg.n, Line.arg.b)
  \/ Line.a = "Reserve" /\ Reserve(Line.arg.n, Line.arg.b)

TStep  == l <= N /\ Line.a # "Reset" /\ Dispatch /\ ObsMatches /\ l' = l + 1
TReset == l <= N /\ Line.a = "Reset" /\ cap' = -1 /\ content' = <<>>
          /\ last' = [a |-> "Init", arg |-> <<>>, cls |-> "", ok |-> TRUE, exp |-> [ret |-> "ok"]] /\ l' = l + 1
TNext  == TStep \/ TReset
TSpec  == TInit /\ [][TNext]_tvars

Accepted == TLCGet("stats").diameter - 1 = N
Post == IF Accepted THEN TRUE
        ELSE /\ PrintT(<<"TRACE-REJECTED-AT-LINE", TLCGet("stats").diameter, "OF", N>>)
             /\ FALSE
===============================================================================
