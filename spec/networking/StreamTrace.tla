------------------------------ MODULE StreamTrace ------------------------------
(* Trace specification: is a recorded execution of the real BufferWriter /     *)
(* WriteSizeCalculator / BufferReader a behaviour of Stream?  Each recorded    *)
(* line {a, arg, obs} must be the next action of the specification with those  *)
(* arguments, and every observable the specification computes for that step    *)
(* (last'.exp) must equal what was observed.  Values are compared through      *)
(* their JSON text (a value of an unexpected kind is a mismatch, not an error).*)
(* Executions are separated by {"a":"Reset"} lines.                            *)
EXTENDS Stream, Json, IOUtils, TLCExt

VARIABLE l
tvars == <<s, last, l>>

TraceLines == ndJsonDeserialize(IOEnv.TRACE)
N == Len(TraceLines)
Line == TraceLines[l]

Same(x, y) == ToJson(x) = ToJson(y)
ObsMatches == \A f \in DOMAIN last'.exp :
                 /\ f \in DOMAIN Line.obs
                 /\ IF f \in {"st", "xfixed"}
                    THEN \A g \in DOMAIN last'.exp[f] : g \in DOMAIN Line.obs[f] /\ Same(Line.obs[f][g], last'.exp[f][g])
                    ELSE Same(Line.obs[f], last'.exp[f])

TInit == Init /\ l = 1

Dispatch ==
  \/ Line.a = "Write" /\ Line.arg.item.t \in Tags /\ Write(Line.arg.item, Line.arg.cap)
  \/ Line.a = "Open"  /\ Open(Line.arg.k)
  \/ Line.a = "Read"  /\ Read(Line.arg.via, Line.arg.dst, Line.arg.pre) /\ Line.arg.t = last'.arg.t /\ Line.arg.n = last'.arg.n
  \/ Line.a = "OpenAll"  /\ OpenAll
  \/ Line.a = "OpenFrac" /\ OpenFrac(Line.arg.pm)
  \/ Line.a = "Probe" /\ Line.arg.t \in PodTags /\ Probe(Line.arg.t)
  \/ Line.a = "View"  /\ View(Line.arg.n)

TStep  == l <= N /\ Line.a # "Reset" /\ Dispatch /\ ObsMatches /\ l' = l + 1
TReset == l <= N /\ Line.a = "Reset" /\ s' = EmptyState /\ last' = InitLast /\ l' = l + 1
TNext  == TStep \/ TReset
TSpec  == TInit /\ [][TNext]_tvars

\* acceptance: the search reached the end of the trace (one state per line + the initial one)
Accepted == TLCGet("stats").diameter - 1 = N
Post == IF Accepted THEN TRUE
        ELSE /\ PrintT(<<"TRACE-REJECTED-AT-LINE", TLCGet("stats").diameter, "OF", N>>)
             /\ FALSE
===============================================================================
