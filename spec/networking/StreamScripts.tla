----------------------------- MODULE StreamScripts -----------------------------
(* Scripts over the step operators of Stream, shared by the case generators     *)
(* (StreamGen: every item sequence of a universe; StreamBounds: numeric         *)
(* boundaries, value classes, type variants):                                   *)
(*      Write* ; Open(k) ; Read in writing order until a read throws ;          *)
(*      boundary probes (one over, size_t wrap-around neighbours, 2^31 - 1,     *)
(*      exact rest, past-end typed reads)                                       *)
(* Array and raw items are read in both ways (mode "a": vector / read(mem,n);   *)
(* mode "b": getView); destination policies "fresh" / "reuse" / "short".        *)
EXTENDS Stream, StreamUniverse

RECURSIVE Writes(_, _, _)
Writes(st, q, acc) == IF q = <<>> THEN [s |-> st, hs |-> acc]
                      ELSE LET r == WriteStep(st, Head(q), EncLen(Head(q))) IN Writes(r.s, Tail(q), Append(acc, r.last))

ViaFor(it, mode) == IF it.t \in ArrLike THEN (IF mode = "a" THEN "vec" ELSE "view")
                    ELSE IF it.t \in RawLike THEN (IF mode = "a" THEN "read" ELSE "view")
                    ELSE "typed"

\* destination policies.  "fresh": every read goes into a newly constructed object.
\* "reuse": the harness' scratch object of the destination type is reused for every read of
\* the history; the first read of a type finds it pre-populated with a value longer than
\* anything in the universe, later reads find what the previous read of that type left
\* (longer, shorter or equally long, depending on the item sequence).
\* "short": every read finds its destination pre-populated with one (non-empty) element.
UsedBefore(st, T, mode) == \E j \in 1..st.idx : DstType(st.items[j], ViaFor(st.items[j], mode)) = T
DstFor(st, it, mode, pol) ==
  LET T == DstType(it, ViaFor(it, mode)) IN
  IF pol = "fresh" \/ T = "none" THEN [dst |-> "fresh", pre |-> 0]
  ELSE IF T = "pod" THEN [dst |-> "reused", pre |-> 0]
  ELSE IF pol = "short" THEN [dst |-> "prepop", pre |-> ShortPre(T)]
  ELSE IF UsedBefore(st, T, mode) THEN [dst |-> "reused", pre |-> 0]
  ELSE [dst |-> "prepop", pre |-> LongPre(T)]

RECURSIVE Reads(_, _, _, _)
Reads(st, mode, pol, acc) ==
  IF st.phase # "reading" \/ st.idx = Len(st.items) THEN [s |-> st, hs |-> acc]
  ELSE LET it == st.items[st.idx + 1]
           d  == DstFor(st, it, mode, pol)
           r  == ReadStep(st, ViaFor(it, mode), d.dst, d.pre) IN
       IF r.last.ok THEN Reads(r.s, mode, pol, Append(acc, r.last))
       ELSE [s |-> r.s, hs |-> Append(acc, r.last)]

\* boundary probes from a reader that is not broken
\* (ext: also the size_t values around 2^64 - cursor, 2^31, 2^32, 2^63 - used by StreamBounds)
Probes(st, ext) ==
  IF st.phase # "reading" THEN <<>>
  ELSE LET p1 == ViewStep(st, Rem(st) + 1)                  \* one byte over: throws
           p2 == ViewStep(p1.s, -1)                          \* size_t(-1): throws
           \* 2^64 - cursor and its neighbours (cursor + n wraps to 0, 1, 2^64 - 1), and 2^31 - 1: all throw
           pw == IF ext /\ st.cursor > 1 THEN <<ViewStep(p2.s, -st.cursor).last, ViewStep(p2.s, 1 - st.cursor).last, ViewStep(p2.s, -1 - st.cursor).last>> ELSE <<>>
           pm == IF ext THEN <<ViewStep(p2.s, 2147483647).last>> \o [j \in 1..6 |-> ViewStep(p2.s, SizeCode(j - 1)).last] ELSE <<>>   \* 2^31 - 1 .. 2^63
           p3 == IF Rem(st) < 4 THEN <<ProbeStep(p2.s, "i32").last>> ELSE <<>>   \* typed read over a partial rest
           p4 == ViewStep(p2.s, Rem(st))                     \* exactly the rest: fits
           p5 == ProbeStep(p4.s, "u8")                       \* at the end: throws
           p6 == ViewStep(p4.s, 0)                           \* empty view at the end: fits
       IN <<p1.last, p2.last>> \o pw \o pm \o p3 \o <<p4.last, p5.last, p6.last>>

ContP(st, k, mode, pol, ext) ==
  LET o == OpenStep(st, k)
      r == Reads(o.s, mode, pol, <<o.last>>)
  IN r.hs \o Probes(r.s, ext)
Cont(st, k, mode, pol) == ContP(st, k, mode, pol, FALSE)

HasAlt(q) == \E j \in DOMAIN q : q[j].t \in ArrLike \cup RawLike
===============================================================================
