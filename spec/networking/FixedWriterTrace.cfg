SPECIFICATION TSpec
CONSTANTS
  Caps = {0}
  Sizes = {0}
INVARIANTS NeverOverfull LastAgrees
POSTCONDITION Post
CHECK_DEADLOCK FALSE
