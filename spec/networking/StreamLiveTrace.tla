--------------------------- MODULE StreamLiveTrace ----------------------------
(* Trace specification: is a recorded interleaved execution - one BufferWriter, *)
(* BufferReaders constructed over its growing buffer at any time, writes and    *)
(* reads in any order - a behaviour of StreamLive?  Each recorded line          *)
(* {a, arg, obs}: the next action with those arguments; the observed result and *)
(* the observed state of EVERY reader (obs.rs) equal to what the specification  *)
(* computes.  Executions are separated by {"a":"Reset"} lines.                  *)
EXTENDS StreamLive, Json, IOUtils, TLCExt

VARIABLE l
tvars == <<s, last, l>>

TraceLines == ndJsonDeserialize(IOEnv.TRACE)
N == Len(TraceLines)
Line == TraceLines[l]

Same(x, y) == ToJson(x) = ToJson(y)
SameReaders(o, e) == /\ Len(o) = Len(e)
                     /\ \A i \in 1..Len(e) : \A g \in DOMAIN e[i] : g \in DOMAIN o[i] /\ Same(o[i][g], e[i][g])
ObsMatches == \A f \in DOMAIN last'.exp :
                 /\ f \in DOMAIN Line.obs
                 /\ IF f = "rs" THEN SameReaders(Line.obs.rs, last'.exp.rs) ELSE Same(Line.obs[f], last'.exp[f])

TInit == LInit /\ l = 1

Dispatch ==
  \/ Line.a = "NewReader" /\ LNewReader
  \/ Line.a = "Write" /\ Line.arg.item.t \in Tags /\ LWrite(Line.arg.item)
  \/ Line.a = "Read"  /\ LRead(Line.arg.r, Line.arg.via) /\ Line.arg.t = last'.arg.t /\ Line.arg.n = last'.arg.n
  \/ Line.a = "Probe" /\ Line.arg.t \in PodTags /\ LProbe(Line.arg.r, Line.arg.t)
  \/ Line.a = "View"  /\ LView(Line.arg.r, Line.arg.n)
  \* the harness asks for "everything written so far" / "one byte more": how much that is, is the specification's to say
  \/ Line.a = "ViewRest" /\ Line.arg.r \in 1..Len(s.readers) /\ LView(Line.arg.r, LRem(s, Line.arg.r))
  \/ Line.a = "ViewOver" /\ Line.arg.r \in 1..Len(s.readers) /\ LView(Line.arg.r, LRem(s, Line.arg.r) + 1)

TStep  == l <= N /\ Line.a # "Reset" /\ Dispatch /\ ObsMatches /\ l' = l + 1
TReset == l <= N /\ Line.a = "Reset" /\ s' = LEmpty /\ last' = LInitLast /\ l' = l + 1
TNext  == TStep \/ TReset
TSpec  == TInit /\ [][TNext]_tvars

Accepted == TLCGet("stats").diameter - 1 = N
Post == IF Accepted THEN TRUE
        ELSE /\ PrintT(<<"TRACE-REJECTED-AT-LINE", TLCGet("stats").diameter, "OF", N>>)
             /\ FALSE
===============================================================================
