SPECIFICATION TSpec
INVARIANTS CursorInside LastAgrees
POSTCONDITION Post
CHECK_DEADLOCK FALSE
