INIT Init
NEXT Stutter
