SPECIFICATION Spec
CONSTANTS
  MaxItems = 3
  UniverseName = "core"
INVARIANTS TypeOK SizeLaw CursorInside CursorIsOffset EndExactly RoundTrip LastAgrees ByteModel BrokenOnlyAfterCompositeThrow
