---------------------------- MODULE StreamUniverse ----------------------------
(* The item universes the bounded instances quantify over (property C15):      *)
(* arithmetic types, a POD struct, empty / short strings (also written from a  *)
(* C string), empty / non-empty vectors, a vector of strings with empty         *)
(* strings, a nested vector, a raw block, and one array per array wrapper type *)
(* (plus one through an AbstractArray<int>& and an empty one).                 *)
(* Model integers are mapped to concrete values by the driver (injectively).   *)
EXTENDS Integers, Sequences

Core == <<
  [t |-> "u8",   v |-> 7],
  [t |-> "i32",  v |-> -5],
  [t |-> "f64",  v |-> 9],
  [t |-> "pod",  v |-> <<-2, 5, 200>>],
  [t |-> "str",  v |-> ""],
  [t |-> "str",  v |-> "ab"],
  [t |-> "vi",   v |-> <<>>],
  [t |-> "vi",   v |-> <<1, -2, 3>>],
  [t |-> "vs",   v |-> <<"", "a", "">>],
  [t |-> "raw",  v |-> <<9, 8, 7>>],
  [t |-> "AbstractArray<int>&", v |-> <<4, 5, 6>>] >>

Wrappers == <<
  [t |-> "OwnedArray<int>", v |-> <<4, 5, 6>>],
  [t |-> "ArrayView<int>",  v |-> <<4, 5, 6>>],
  [t |-> "FixedArray<int>", v |-> <<4, 5, 6>>],
  [t |-> "FixedArrayView<uint8_t>", v |-> <<1, 2>>] >>

More == <<
  [t |-> "u64",  v |-> 3],
  [t |-> "cstr", v |-> "xyz"],
  [t |-> "vvi",  v |-> << <<1>>, <<>> >>],
  [t |-> "vs",   v |-> <<>>],
  [t |-> "raw",  v |-> <<>>],
  [t |-> "AbstractArray<int>&", v |-> <<>>],
  [t |-> "OwnedArray<int>", v |-> <<>>] >>

Full == Core \o Wrappers \o More

\* what a pre-populated destination holds: longer than (LongPre) / as short as possible but not empty
\* (ShortPre) compared with every value of its type in the universes
LongPre(T) ==
  CASE T = "str" -> "zzzzzzzz"
    [] T = "vi"  -> <<7, 7, 7, 7, 7>>
    [] T = "vb"  -> <<7, 7, 7, 7, 7>>
    [] T = "vs"  -> <<"qq", "qq", "qq", "qq">>
    [] T = "vvi" -> << <<9, 9>>, <<9, 9>>, <<9, 9>> >>
    [] OTHER     -> 0
ShortPre(T) ==
  CASE T = "str" -> "z"
    [] T = "vi"  -> <<7>>
    [] T = "vb"  -> <<7>>
    [] T = "vs"  -> <<"qq">>
    [] T = "vvi" -> << <<9, 9>> >>
    [] OTHER     -> 0
===============================================================================
