---------------------------- MODULE StreamUniverse ----------------------------
(* The item universes the bounded instances quantify over (property C15):      *)
(* arithmetic types, a POD struct, empty / short strings (also written from a  *)
(* C string), empty / non-empty vectors, a vector of strings with empty         *)
(* strings, a nested vector, a raw block, and one array per array wrapper type *)
(* (plus one through an AbstractArray<int>& and an empty one).                 *)
(* Model integers are mapped to concrete values by the driver (injectively).   *)
EXTENDS Integers, Sequences

Core == <<
  [t |-> "u8",   v |-> 7],
  [t |-> "i32",  v |-> -5],
  [t |-> "f64",  v |-> 9],
  [t |-> "pod",  v |-> <<-2, 5, 200>>],
  [t |-> "str",  v |-> ""],
  [t |-> "str",  v |-> "ab"],
  [t |-> "vi",   v |-> <<>>],
  [t |-> "vi",   v |-> <<1, -2, 3>>],
  [t |-> "vs",   v |-> <<"", "a", "">>],
  [t |-> "raw",  v |-> <<9, 8, 7>>],
  [t |-> "AbstractArray<int>&", v |-> <<4, 5, 6>>] >>

Wrappers == <<
  [t |-> "OwnedArray<int>", v |-> <<4, 5, 6>>],
  [t |-> "ArrayView<int>",  v |-> <<4, 5, 6>>],
  [t |-> "FixedArray<int>", v |-> <<4, 5, 6>>],
  [t |-> "FixedArrayView<uint8_t>", v |-> <<1, 2>>] >>

More == <<
  [t |-> "u64",  v |-> 3],
  [t |-> "cstr", v |-> "xyz"],
  [t |-> "vcs",  v |-> <<"p", "", "qr">>],
  [t |-> "vvi",  v |-> << <<1>>, <<>> >>],
  [t |-> "vs",   v |-> <<>>],
  [t |-> "raw",  v |-> <<>>],
  [t |-> "AbstractArray<int>&", v |-> <<>>],
  [t |-> "OwnedArray<int>", v |-> <<>>] >>

Full == Core \o Wrappers \o More

\* binary string payloads (character codes; 97 = 'a', 98 = 'b'): a NUL byte at the start, in the
\* middle, at the end, several in a row, the one-character string "\0"; bytes that C-string or
\* signed-char handling could mangle (0xFF, 0x80, '\n'); as scalars, inside a vector<string>, inside
\* nested vectors; the const char* overload on the same payloads (its contract is strlen); and a
\* few plain items to sit between them
Nul == <<
  [t |-> "bstr",  v |-> <<0, 97, 98>>],
  [t |-> "bstr",  v |-> <<97, 0, 98>>],
  [t |-> "bstr",  v |-> <<97, 98, 0>>],
  [t |-> "bstr",  v |-> <<97, 0, 0, 98>>],
  [t |-> "bstr",  v |-> <<0>>],
  [t |-> "bstr",  v |-> <<255, 128, 10, 97>>],
  [t |-> "bstr",  v |-> <<>>],
  [t |-> "vbs",   v |-> << <<0>>, <<>>, <<97, 0>>, <<98>> >>],
  [t |-> "vvbs",  v |-> << << <<0, 98>>, <<>> >>, <<>>, << <<255>> >> >>],
  [t |-> "cstrb", v |-> <<97, 0, 98>>],
  [t |-> "cstrb", v |-> <<0>>],
  [t |-> "cstrb", v |-> <<255, 128, 10>>],
  [t |-> "u8",    v |-> 7],
  [t |-> "str",   v |-> "ab"] >>

\* value classes and type variants the small universes above do not contain: arithmetic values named by a
\* string (the driver maps the name to the exact bit pattern and back), structs of 3 / 24 / 32 (alignas 32) bytes
Vals == <<
  [t |-> "f64x", v |-> "0.1"], [t |-> "f64x", v |-> "1/3"], [t |-> "f64x", v |-> "subnormal"], [t |-> "f64x", v |-> "max"],
  [t |-> "f64x", v |-> "min-normal"], [t |-> "f64x", v |-> "-inf"], [t |-> "f64x", v |-> "-1e300"],
  [t |-> "f32x", v |-> "0.1"], [t |-> "f32x", v |-> "subnormal"], [t |-> "f32x", v |-> "max"], [t |-> "f32x", v |-> "-inf"],
  [t |-> "u64x", v |-> "2^31"], [t |-> "u64x", v |-> "2^32-1"], [t |-> "u64x", v |-> "2^32"], [t |-> "u64x", v |-> "2^32+1"],
  [t |-> "u64x", v |-> "2^63"], [t |-> "u64x", v |-> "SIZE_MAX"], [t |-> "u64x", v |-> "SIZE_MAX/4"],
  [t |-> "i32x", v |-> "INT_MIN"], [t |-> "i32x", v |-> "INT_MAX"], [t |-> "i32x", v |-> "-1"],
  [t |-> "u8", v |-> 0], [t |-> "u8", v |-> 127], [t |-> "u8", v |-> 128], [t |-> "u8", v |-> 255],
  [t |-> "pod3", v |-> <<255, 0, 128>>], [t |-> "pod24", v |-> <<-9, 1, 17>>], [t |-> "pod32a", v |-> <<-7, 123456789>>] >>

\* what a pre-populated destination holds: longer than (LongPre) / as short as possible but not empty
\* (ShortPre) compared with every value of its type in the universes
LongPre(T) ==
  CASE T = "str" -> "zzzzzzzz"
    [] T = "vi"  -> <<7, 7, 7, 7, 7>>
    [] T = "vb"  -> <<7, 7, 7, 7, 7>>
    [] T = "vs"  -> <<"qq", "qq", "qq", "qq">>
    [] T = "vvi" -> << <<9, 9>>, <<9, 9>>, <<9, 9>> >>
    [] T = "vvs" -> << << "qq", "qq", "qq" >>, << "qq" >>, << "qq" >>, << "qq" >> >>
    [] OTHER     -> 0
ShortPre(T) ==
  CASE T = "str" -> "z"
    [] T = "vi"  -> <<7>>
    [] T = "vb"  -> <<7>>
    [] T = "vs"  -> <<"qq">>
    [] T = "vvi" -> << <<9, 9>> >>
    [] T = "vvs" -> << << "qq" >> >>
    [] OTHER     -> 0
===============================================================================
