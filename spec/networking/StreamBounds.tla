------------------------------ MODULE StreamBounds -----------------------------
(* Case generation for Stream at NUMERIC BOUNDARIES and for value classes and   *)
(* type variants (property C15; quantifier: "sizes that cross growth            *)
(* boundaries ... all truncation points").  Content of large items is defined   *)
(* by a formula (Stream!GByte), so a std::string / vector / array / raw block / *)
(* burst of 2^16 + 1 elements is one item for TLC.                              *)
(*  A. every formula-defined item kind x every length in Sizes, alone and       *)
(*     behind a one-byte item (odd offset), followed by a short string; readers *)
(*     over the whole stream and cut one byte before / exactly at the end of    *)
(*     the large item, after / inside its length prefix;                        *)
(*  B. every byte value at the first and at the last position of a string and   *)
(*     of a raw block;                                                          *)
(*  C. the named arithmetic values and the structs of StreamUniverse!Vals       *)
(*     between two bytes, every truncation point;                               *)
(*  D. the writer's own buffer written into itself.                             *)
(* Output: as StreamGen (one record [w, runs] per item sequence).               *)
EXTENDS StreamScripts, Json, IOUtils, FiniteSets

Thorough == IOEnv.TIER = "thorough"
Sizes == {0, 1, 2, 127, 128, 255, 256, 257, 511, 512, 513, 1023, 1024, 1025, 4095, 4096, 4097, 65535, 65536, 65537}
         \cup (IF Thorough THEN {3, 129, 16383, 16384, 16385, 32767, 32768, 32769, 131071, 131072, 131073} ELSE {})
BigTags == <<"gbstr", "gvi", "graw", "gvs", "gu8burst", "gvpod3", "gOwnedArray<int>">>

U8   == [t |-> "u8", v |-> 7]
Tail2 == [t |-> "str", v |-> "ab"]
G(n) == [n |-> n, k |-> 3, b |-> (n * 7 + 1) % 256]

RECURSIVE SortedSeq(_)
MinS(S) == CHOOSE x \in S : \A y \in S : x <= y
SortedSeq(S) == IF S = {} THEN <<>> ELSE <<MinS(S)>> \o SortedSeq(S \ {MinS(S)})

\* one record: the writes, and one continuation per (reader extent, read mode)
CaseFor(q, ks) ==
  LET w == Writes(EmptyState, q, <<>>)
      modes == IF HasAlt(q) THEN <<"a", "b">> ELSE <<"a">>
      kk == SortedSeq({k \in ks : k >= 0 /\ k <= w.s.bytes})
  IN [w |-> w.hs,
      runs |-> [x \in 1..(Len(modes) * Len(kk)) |-> ContP(w.s, kk[((x - 1) \div Len(modes)) + 1], modes[((x - 1) % Len(modes)) + 1], "fresh", TRUE)]]

\* A
BigCase(tag, n, pre) ==
  LET big == [t |-> tag, v |-> G(n)]
      q   == (IF pre THEN <<U8>> ELSE <<>>) \o <<big, Tail2>>
      off == IF pre THEN 1 ELSE 0
      e   == off + EncLen(big)
  IN CaseFor(q, {e + EncLen(Tail2), e + EncLen(Tail2) - 1, e, e - 1, off + 8, off + 7})
SizeSeq == SortedSeq(Sizes)
ACases == [x \in 1..(Len(BigTags) * Len(SizeSeq) * 2) |->
             BigCase(BigTags[((x - 1) % Len(BigTags)) + 1],
                     SizeSeq[(((x - 1) \div Len(BigTags)) % Len(SizeSeq)) + 1],
                     (x - 1) \div (Len(BigTags) * Len(SizeSeq)) = 1)]

\* B: three bytes b, b + 85, b + 170 (mod 256): every value first, every value last
BCases == [x \in 1..512 |->
             LET b == (x - 1) % 256
                 it == [t |-> IF x <= 256 THEN "gbstr" ELSE "graw", v |-> [n |-> 3, k |-> 85, b |-> b]]
             IN CaseFor(<<it>>, {EncLen(it)})]

\* C
CCases == [x \in 1..Len(Vals) |-> LET q == <<U8, Vals[x], U8>> IN CaseFor(q, 0..(2 + EncLen(Vals[x])))]

\* D: n bytes, then the buffer itself (8 + n + 8 bytes so far -> an array of that many bytes), then a byte
SelfCase(n) ==
  LET first == [t |-> "gbstr", v |-> G(n)]
      w1 == Writes(EmptyState, <<first>>, <<>>)
      self == [t |-> "selfbuf", v |-> [n |-> w1.s.bytes, k |-> 1, b |-> 0]]
      q == <<first, self, U8>>
      w == Writes(EmptyState, q, <<>>)
  IN [w |-> w.hs, runs |-> <<Cont(w.s, w.s.bytes, "a", "fresh")>>]
DCases == [x \in 1..4 |-> SelfCase(<<0, 1, 100, 5000>>[x])]

Which == IOEnv.WHICH
Cases == IF Which = "A" THEN ACases ELSE IF Which = "B" THEN BCases ELSE IF Which = "C" THEN CCases
         ELSE IF Which = "D" THEN DCases ELSE ACases \o BCases \o CCases \o DCases
ASSUME ndJsonSerialize(IOEnv.OUT, Cases)
Stutter == UNCHANGED vars
===============================================================================
