SPECIFICATION Spec
CONSTANTS
  MaxItems = 2
  UniverseName = "nul"
INVARIANTS TypeOK SizeLaw CursorInside CursorIsOffset EndExactly RoundTrip LastAgrees ByteModel BrokenOnlyAfterCompositeThrow
