------------------------------- MODULE StreamMC -------------------------------
(* Model-checking instance of Stream: every behaviour that writes at most      *)
(* MaxItems items of the universe, opens readers at every truncation point     *)
(* and reads / probes in every allowed way.  Checks the invariants of Stream   *)
(* and two things the contract-level specification rests on:                   *)
(*  - RawPartsLaw: the primitive read sizes of a typed read add up to EncLen   *)
(*    and "some primitive read extends past the data" is the same as "the      *)
(*    item extends past the data" (so a contract in terms of EncLen is the     *)
(*    same as one in terms of the primitive calls);                            *)
(*  - ByteModel: against an explicit stream of (item, offset) byte labels cut  *)
(*    at the truncation point: a read succeeds iff all the bytes of the item   *)
(*    are in the buffer, the items read so far are exactly the buffer's bytes  *)
(*    before the cursor, end() iff no byte is left.                            *)
EXTENDS Stream, StreamUniverse, FiniteSets

CONSTANTS MaxItems, UniverseName

U == IF UniverseName = "core" THEN Core ELSE IF UniverseName = "corewrap" THEN Core \o Wrappers
     ELSE IF UniverseName = "nul" THEN Nul ELSE Full
Items == {U[i] : i \in DOMAIN U}

Next ==
  \/ \E it \in Items : Len(s.items) < MaxItems /\ Write(it, EncLen(it))
  \/ \E k \in 0..s.bytes : s.phase \in {"writing", "broken"} /\ Open(k)   \* (re-opening from every reader state only repeats behaviours)
  \/ \E via \in {"typed", "vec", "view", "read"}, dst \in {"fresh", "reused", "prepop"} :
        s.phase = "reading" /\ s.idx < Len(s.items) /\
        \E pre \in (IF dst = "prepop" THEN {LongPre(DstType(s.items[s.idx + 1], via)), ShortPre(DstType(s.items[s.idx + 1], via))} ELSE {0}) :
           Read(via, dst, pre)
  \/ \E t \in ProbeTags : Probe(t)
  \/ \E n \in {-1, 0, Rem(s), Rem(s) + 1, Rem(s) + 2} : View(n)
Spec == Init /\ [][Next]_vars

TypeOK == /\ s.phase \in {"writing", "reading", "drained", "broken"}
          /\ s.idx \in 0..Len(s.items)
          /\ \A i \in DOMAIN s.items : s.items[i] \in Items

-------------------------------------------------------------------------------
RECURSIVE Sum(_)
Sum(q) == IF q = <<>> THEN 0 ELSE Head(q) + Sum(Tail(q))
SomePartPast(parts, rem) == \E j \in 1..Len(parts) : Sum(SubSeq(parts, 1, j)) > rem

RawPartsLaw ==
  \A it \in {Full[i] : i \in DOMAIN Full} \cup {Nul[i] : i \in DOMAIN Nul} : \A via \in Vias(it) :
     /\ Sum(RawParts(it, via)) = EncLen(it)
     /\ \A j \in 1..Len(RawParts(it, via)) : RawParts(it, via)[j] >= 0
     /\ \A rem \in 0..(EncLen(it) + 1) : SomePartPast(RawParts(it, via), rem) <=> (EncLen(it) > rem)
ASSUME RawPartsLaw

\* the two string contracts: a std::string is carried whole (NUL bytes included, 8 + size() bytes);
\* a const char* is carried up to its first NUL (8 + strlen() bytes)
StringContracts ==
  \A it \in {Nul[i] : i \in DOMAIN Nul} :
     /\ it.t = "bstr" => Val(it) = it.v /\ EncLen(it) = 8 + Len(it.v)
     /\ it.t = "cstrb" => LET p == Val(it) IN
           /\ ~NulIn(p) /\ Len(p) <= Len(it.v) /\ p = SubSeq(it.v, 1, Len(p))
           /\ (Len(p) < Len(it.v) => it.v[Len(p) + 1] = 0)
           /\ EncLen(it) = 8 + Len(p)
ASSUME StringContracts

\* explicit stream of byte labels <<item index, byte number>>
RECURSIVE Labels(_, _)
Labels(q, i) == IF i > Len(q) THEN <<>> ELSE [j \in 1..EncLen(q[i]) |-> <<i, j>>] \o Labels(q, i + 1)
Buffer == SubSeq(Labels(s.items, 1), 1, s.limit)           \* what the reader's buffer holds
InBuffer(lbl) == \E p \in DOMAIN Buffer : Buffer[p] = lbl

ByteModel ==
  s.phase = "reading" =>
     \* the bytes before the cursor are exactly the bytes of the items read, in order
     /\ SubSeq(Buffer, 1, s.cursor) = Labels(SubSeq(s.items, 1, s.idx), 1)
     \* the read just taken succeeded iff every byte of its item is in the buffer
     /\ last.a = "Read" /\ last.ok =>
           \A j \in 1..EncLen(s.items[s.idx]) : InBuffer(<<s.idx, j>>)
     /\ last.a = "Read" /\ ~last.ok =>
           \E j \in 1..EncLen(s.items[s.idx + 1]) : ~InBuffer(<<s.idx + 1, j>>)
     \* end() iff no byte is left
     /\ AtEnd(s) <=> (s.cursor = Len(Buffer))
BrokenOnlyAfterCompositeThrow ==
  s.phase = "broken" => Len(Buffer) < Len(Labels(s.items, 1))
===============================================================================
