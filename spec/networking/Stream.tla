-------------------------------- MODULE Stream --------------------------------
(* Typed serialisation through rkcommon::networking::WriteStream / BufferReader *)
(* (property C15, first half).                                                  *)
(*                                                                              *)
(* A written stream is a sequence of typed ITEMS.  The specification does not   *)
(* talk about byte values of encodings (endianness, padding) - the statement    *)
(* does not - only about how many bytes an item occupies (EncLen), which items  *)
(* come back, when end() is true and when a read must throw.                    *)
(*                                                                              *)
(*   item == [t |-> <type tag>, v |-> <value>]                                  *)
(*                                                                              *)
(* State s: what was written (items, bytes), what a WriteSizeCalculator fed     *)
(* with the same items has counted (calc), and a reader: the number of bytes    *)
(* of the written stream its buffer holds (limit: = bytes, or a truncation      *)
(* point), its cursor, and the index of the next item (idx).                    *)
(*                                                                              *)
(* Every action is  s' = Step(s, args).s /\ last' = Step(s, args).last  with    *)
(* pure step operators, so that model checking (StreamMC), case generation      *)
(* (StreamGen, folds the same operators over scripts) and trace validation      *)
(* (StreamTrace) are three uses of the same definitions.                        *)
EXTENDS Integers, Sequences, TLC

VARIABLES s, last
vars == <<s, last>>

-------------------------------------------------------------------------------
\* type tags
ProbeTags   == {"u8", "i32", "u64", "f64", "pod"}
\* written/read by the generic operator: sizeof(T) bytes.  Besides the five above: structs of 3, 24 and
\* (over-aligned, alignas(32)) 32 bytes, and arithmetic values NAMED by a string ("f64x": 0.1, 1/3, a
\* subnormal, DBL_MAX, DBL_MIN, -inf; "f32x"; "u64x": 2^31 .. SIZE_MAX; "i32x": INT_MIN, INT_MAX) -
\* values the integer mapping of "f64" / "u64" / "i32" cannot express
PodTags     == ProbeTags \cup {"pod3", "pod24", "pod32a", "f64x", "f32x", "u64x", "i32x"}
\* items whose content is DEFINED BY A FORMULA (v = [n, k, b]: n elements, element i is built from the byte
\* (i * k + b) % 256, k odd), so that lengths at and around 2^8 .. 2^16 cost TLC nothing:
\*   gbstr std::string of n bytes      gvi std::vector<int> of n ints      graw a raw block of n bytes
\*   gvs std::vector<std::string> of n strings, string i has i % 3 characters
\*   gu8burst n separate uint8_t writes (read back by n separate reads)
\*   gvpod3 std::vector<Pod3>          gOwnedArray<int> an OwnedArray<int> of n ints
\*   selfbuf: the writer's own buffer (an OwnedArray<uint8_t> of the n bytes written so far) written into itself
GenTags     == {"gbstr", "gvi", "graw", "gvs", "gu8burst", "gvpod3", "gOwnedArray<int>", "selfbuf"}
IntArrTags  == {"OwnedArray<int>", "ArrayView<int>", "FixedArray<int>", "AbstractArray<int>&"}
ByteArrTags == {"FixedArrayView<uint8_t>"}
ArrTags     == IntArrTags \cup ByteArrTags               \* the array wrapper types: size_t n, then n elements
\* strings: "str" / "cstr" carry a TLA+ string (no NUL byte; "cstr" is written from a const char*);
\* "bstr" / "cstrb" carry the list of their character codes 0..255 - binary payloads, NUL bytes
\* included - written from a std::string ("bstr") or from its c_str() ("cstrb");
\* "vbs" = std::vector<std::string>, "vvbs" = std::vector<std::vector<std::string>> of code lists
StrTags     == {"str", "cstr", "bstr"}
\* "vcs" = a std::vector<const char*> (argv-style list; every element goes through the const char* overload:
\* length, then strlen() bytes) - the same bytes as the std::vector<std::string> of the same strings, read back as one
VsTags      == {"vs", "vbs", "vcs"}
Tags        == PodTags \cup StrTags \cup VsTags \cup {"cstrb", "vvbs", "vi", "vvi", "raw"} \cup ArrTags \cup GenTags

\* The two string overloads have different contracts and both are pinned:
\*   operator<<(WriteStream&, const std::string&) writes size() bytes - every byte of the string;
\*   operator<<(WriteStream&, const char*)        writes strlen() bytes - up to the first NUL.
RECURSIVE CPrefix(_)
CPrefix(c) == IF c = <<>> \/ Head(c) = 0 THEN <<>> ELSE <<Head(c)>> \o CPrefix(Tail(c))
\* formula-defined content
GByte(i, g) == (i * g.k + g.b) % 256                    \* i = 0 .. ; period 256 in i, every byte value once per period
RECURSIVE GPSum(_, _)
GPSum(m, g) == IF m = 0 THEN 0 ELSE GByte(m - 1, g) + GPSum(m - 1, g)       \* sum of the first m < 256 bytes
GSumBytes(n, g) == (n \div 256) * 32640 + GPSum(n % 256, g)                  \* 32640 = 0 + 1 + ... + 255
GvsChars(n) == 3 * (n \div 3) + (IF n % 3 = 2 THEN 1 ELSE 0)                 \* lengths 0, 1, 2, 0, 1, 2, ...
None == -1000
\* what is compared for such an item: its length, whether the object read back equals the object written
\* (observed on the real objects: that is the statement's "yields equal values"), and projections of the
\* content computed here: first and last element, sum of all elements
GProj(it) ==
  LET g == it.v n == g.n IN
  CASE it.t \in {"gbstr", "graw", "gu8burst"} ->
         [n |-> n, eq |-> TRUE, first |-> IF n = 0 THEN None ELSE GByte(0, g), last |-> IF n = 0 THEN None ELSE GByte(n - 1, g), sum |-> GSumBytes(n, g)]
    [] it.t \in {"gvi", "gOwnedArray<int>"} ->
         [n |-> n, eq |-> TRUE, first |-> IF n = 0 THEN None ELSE GByte(0, g) - 128, last |-> IF n = 0 THEN None ELSE GByte(n - 1, g) - 128,
          sum |-> GSumBytes(n, g) - 128 * n]
    [] it.t = "gvpod3" ->
         [n |-> n, eq |-> TRUE, first |-> IF n = 0 THEN None ELSE GByte(0, g), last |-> IF n = 0 THEN None ELSE GByte(3 * n - 1, g), sum |-> GSumBytes(3 * n, g)]
    [] it.t = "gvs"     -> [n |-> n, eq |-> TRUE, chars |-> GvsChars(n)]
    [] it.t = "selfbuf" -> [n |-> n, eq |-> TRUE]
Val(it) == IF it.t = "cstrb" THEN CPrefix(it.v)             \* the value the stream carries for an item
           ELSE IF it.t \in GenTags THEN GProj(it) ELSE it.v
NulIn(c) == \E i \in DOMAIN c : c[i] = 0
HasNul(it) == CASE it.t \in {"bstr", "cstrb"} -> NulIn(it.v)
                [] it.t = "vbs"  -> \E i \in DOMAIN it.v : NulIn(it.v[i])
                [] it.t = "vvbs" -> \E i \in DOMAIN it.v : \E j \in DOMAIN it.v[i] : NulIn(it.v[i][j])
                [] OTHER -> FALSE

PodSize(t) == CASE t = "u8" -> 1 [] t = "i32" -> 4 [] t = "u64" -> 8 [] t = "f64" -> 8
                [] t = "pod" -> 12   \* struct { int32_t a; float b; uint8_t c; }: sizeof = 12
                [] t = "pod3" -> 3 [] t = "pod24" -> 24 [] t = "pod32a" -> 32
                [] t = "f64x" -> 8 [] t = "f32x" -> 4 [] t = "u64x" -> 8 [] t = "i32x" -> 4
ElemSize(t) == IF t \in ByteArrTags THEN 1 ELSE 4
SizeT == 8                                               \* every length prefix is a size_t

StrEnc(str) == SizeT + Len(str)
VecIntEnc(v) == SizeT + 4 * Len(v)
RECURSIVE SumStrEnc(_), SumVecIntEnc(_), SumVecStrEnc(_)
SumStrEnc(q)    == IF q = <<>> THEN 0 ELSE StrEnc(Head(q)) + SumStrEnc(Tail(q))
SumVecStrEnc(q) == IF q = <<>> THEN 0 ELSE (SizeT + SumStrEnc(Head(q))) + SumVecStrEnc(Tail(q))
SumVecIntEnc(q) == IF q = <<>> THEN 0 ELSE VecIntEnc(Head(q)) + SumVecIntEnc(Tail(q))

\* the framing: how many bytes an item occupies in the stream
EncLen(it) ==
  CASE it.t \in PodTags      -> PodSize(it.t)
    [] it.t \in StrTags      -> StrEnc(it.v)              \* size_t + size() bytes, NUL bytes included
    [] it.t = "cstrb"        -> StrEnc(CPrefix(it.v))     \* size_t + strlen() bytes
    [] it.t = "vi"           -> VecIntEnc(it.v)
    [] it.t \in VsTags       -> SizeT + SumStrEnc(it.v)
    [] it.t = "vvbs"         -> SizeT + SumVecStrEnc(it.v)
    [] it.t = "vvi"          -> SizeT + SumVecIntEnc(it.v)
    [] it.t = "raw"          -> Len(it.v)                 \* write(mem, n): no framing
    [] it.t \in ArrTags      -> SizeT + ElemSize(it.t) * Len(it.v)
    [] it.t \in {"gbstr", "selfbuf"} -> SizeT + it.v.n
    [] it.t \in {"gvi", "gOwnedArray<int>"} -> SizeT + 4 * it.v.n
    [] it.t \in {"graw", "gu8burst"} -> it.v.n
    [] it.t = "gvpod3"       -> SizeT + 3 * it.v.n
    [] it.t = "gvs"          -> SizeT + SizeT * it.v.n + GvsChars(it.v.n)

\* The sizes of the primitive read(mem, n) / getView(n) calls one typed read is
\* made of (the way any reader of this framing has to proceed: a length first,
\* then what the length announces).  Used for two things: the law RawPartsLaw
\* (StreamMC) and the notion of an ATOMIC read below.
RECURSIVE Flat(_)
Flat(qq) == IF qq = <<>> THEN <<>> ELSE Head(qq) \o Flat(Tail(qq))
StrParts(str) == <<SizeT, Len(str)>>
VecIntParts(v) == <<SizeT>> \o [i \in 1..Len(v) |-> 4]
VecStrParts(v) == <<SizeT>> \o Flat([i \in 1..Len(v) |-> StrParts(v[i])])
RawParts(it, via) ==
  CASE it.t \in PodTags      -> <<PodSize(it.t)>>
    [] it.t \in StrTags      -> StrParts(it.v)
    [] it.t = "cstrb"        -> StrParts(CPrefix(it.v))
    [] it.t = "vi"           -> VecIntParts(it.v)
    [] it.t \in VsTags       -> VecStrParts(it.v)
    [] it.t = "vvbs"         -> <<SizeT>> \o Flat([i \in 1..Len(it.v) |-> VecStrParts(it.v[i])])
    [] it.t = "vvi"          -> <<SizeT>> \o Flat([i \in 1..Len(it.v) |-> VecIntParts(it.v[i])])
    [] it.t = "raw"          -> <<Len(it.v)>>
    [] it.t \in ArrTags      -> IF via = "view" THEN <<SizeT, ElemSize(it.t) * Len(it.v)>>
                                ELSE <<SizeT>> \o [i \in 1..Len(it.v) |-> ElemSize(it.t)]
    [] it.t = "graw"         -> <<it.v.n>>
    [] it.t = "gu8burst"     -> IF it.v.n <= 1 THEN <<it.v.n>> ELSE <<1, it.v.n - 1>>   \* (the first read, the others)
    [] it.t \in GenTags      -> <<SizeT, EncLen(it) - SizeT>>                           \* (the length, what it announces)
Atomic(it, via) == Len(RawParts(it, via)) = 1

\* ways to read an item back
ArrLike == ArrTags \cup {"gOwnedArray<int>"}
RawLike == {"raw", "graw"}
Vias(it) == IF it.t \in ArrLike THEN {"vec", "view"}       \* std::vector<T> / size_t + getView
            ELSE IF it.t \in RawLike THEN {"read", "view"} \* read(mem, n) / getView<uint8_t>(n)
            ELSE {"typed"}                                 \* operator>> into the type written

-------------------------------------------------------------------------------
EmptyState == [items |-> <<>>, bytes |-> 0, calc |-> 0, phase |-> "writing", limit |-> 0, cursor |-> 0, idx |-> 0,
               scratch |-> [str |-> "", vi |-> <<>>, vb |-> <<>>, vs |-> <<>>, vvi |-> <<>>, vvs |-> <<>>]]   \* the harness' destination objects
InitLast   == [a |-> "Init", arg |-> <<>>, cls |-> "", ok |-> TRUE, exp |-> [len |-> 0, total |-> 0, predicted |-> 0]]

Rem(st)   == st.limit - st.cursor
AtEnd(st) == st.cursor = st.limit                          \* what end() must return
RdObs(st) == [cursor |-> st.cursor, end |-> AtEnd(st)]     \* the observable state of the reader

\* ---- writing: the item goes to a BufferWriter and to a WriteSizeCalculator and - when cap >= 0 -
\* also to a FixedBufferWriter of capacity cap on its own.  The byte count is EncLen: computed
\* here from the value, not taken from one of the writers.  cap = EncLen(it) is the exact fit: the
\* item is accepted and fills the buffer (cap = -1: that writer is not exercised).
WriteStep(st, it, cap) ==
  LET n == EncLen(it)
      \* (twin: a second BufferWriter / WriteSizeCalculator pair used alternately with the first by the same
      \* thread receives the same items: instances do not influence each other)
      e == [len |-> n, total |-> st.bytes + n, predicted |-> st.calc + n, twin |-> [total |-> st.bytes + n, predicted |-> st.calc + n]] IN
  [s    |-> [st EXCEPT !.items = Append(@, it), !.bytes = @ + n, !.calc = @ + n],
   last |-> [a |-> "Write", arg |-> [item |-> it, cap |-> cap], cls |-> it.t \o (IF HasNul(it) THEN ",nul" ELSE ""), ok |-> TRUE,
             exp |-> IF cap >= 0 THEN e @@ [xfixed |-> [ret |-> "ok", written |-> n, available |-> 0]] ELSE e]]

\* ---- a BufferReader over the first k bytes of what was written
OpenStep(st, k) ==
  [s    |-> [st EXCEPT !.phase = "reading", !.limit = k, !.cursor = 0, !.idx = 0],
   last |-> [a |-> "Open", arg |-> [k |-> k], cls |-> IF k = st.bytes THEN "full" ELSE "truncated", ok |-> TRUE,
             exp |-> [st |-> [size |-> k, cursor |-> 0, end |-> (k = 0)]]]]

\* what a reader has to know to read an item: its type, the way to read it and - for raw
\* blocks, which carry no framing - the number of bytes
ReadArg(it, via) == [t |-> it.t, via |-> via, n |-> IF it.t = "raw" THEN Len(it.v) ELSE 0]

\* ---- destinations.  operator>> reads INTO AN EXISTING OBJECT.  "read back ... yields equal
\* values" holds for every destination object, not only for a newly constructed one, so the
\* state of the destination is an input of Read (and part of its class), never of its result.
\* The harness keeps one scratch object per destination type (scratch[T] = what it holds):
\*   dst = "fresh"  : a newly constructed object
\*   dst = "reused" : the scratch object as the previous read of that type left it
\*   dst = "prepop" : the scratch object assigned the value `pre` beforehand
\* (the harness replaces a scratch object by a new one after a read into it has thrown).
DstType(it, via) ==
  CASE it.t \in PodTags                    -> "pod"      \* T x; buf >> x
    [] it.t \in StrTags \cup {"cstrb"}     -> "str"      \* std::string
    [] it.t = "vi"                         -> "vi"       \* std::vector<int>
    [] it.t \in VsTags                     -> "vs"       \* std::vector<std::string>
    [] it.t = "vvbs"                       -> "vvs"      \* std::vector<std::vector<std::string>>
    [] it.t = "vvi"                        -> "vvi"      \* std::vector<std::vector<int>>
    [] it.t \in IntArrTags /\ via = "vec"  -> "vi"
    [] it.t \in ByteArrTags /\ via = "vec" -> "vb"       \* std::vector<uint8_t>
    [] OTHER                               -> "none"     \* getView / read(mem, n): nothing to reuse
ScratchTypes == {"str", "vi", "vb", "vs", "vvi", "vvs"}
EmptyOf(T) == IF T = "str" THEN "" ELSE <<>>
EmptyScratch == [T \in ScratchTypes |-> EmptyOf(T)]
Dsts(it, via) == LET T == DstType(it, via) IN
                 IF T = "none" THEN {"fresh"} ELSE IF T = "pod" THEN {"fresh", "reused"} ELSE {"fresh", "reused", "prepop"}
Prior(st, T, dst, pre) == IF dst = "reused" THEN st.scratch[T] ELSE IF dst = "prepop" THEN pre ELSE EmptyOf(T)

\* the input class of a destination: how what it holds relates to what is read into it
MinOf2(a, b) == IF a < b THEN a ELSE b
DstCls(T, dst, prior, v) ==
  IF dst = "fresh" \/ T = "none" THEN "dst=fresh"
  ELSE IF T = "pod" THEN "dst=" \o dst
  ELSE LET common == 1..MinOf2(Len(prior), Len(v))
           nested == T \in {"vs", "vvi", "vvs"}
       IN "dst=" \o dst \o "-"
          \o (IF Len(prior) > Len(v) THEN "longer" ELSE IF Len(prior) < Len(v) THEN "shorter" ELSE "same-length")
          \o (IF Len(v) = 0 /\ Len(prior) > 0 THEN ",empty-into-nonempty" ELSE "")
          \o (IF nested /\ \E i \in common : Len(v[i]) = 0 /\ Len(prior[i]) > 0 THEN ",elem-empty-into-nonempty"
              ELSE IF nested /\ \E i \in common : Len(prior[i]) > Len(v[i]) THEN ",elem-longer" ELSE "")

\* ---- read the next item, in writing order, as its own type, into the destination dst
\* fits: the item comes back - whatever the destination held -, exactly EncLen bytes are consumed.
\* does not fit: throws; a single primitive read leaves the reader as it was;
\* for a read made of several primitive reads the statement says "throws" and no
\* more: the reader is left unconstrained ("broken": only a fresh Open follows).
ReadStep(st, via, dst, pre) ==
  LET it   == st.items[st.idx + 1]
      n    == EncLen(it)
      T    == DstType(it, via)
      cl   == it.t \o ":" \o via
      dc   == DstCls(T, dst, Prior(st, T, dst, pre), Val(it))
      arg  == [t |-> it.t, via |-> via, n |-> IF it.t = "raw" THEN Len(it.v) ELSE IF it.t = "graw" THEN it.v.n ELSE 0,
               g |-> IF it.t \in GenTags THEN it.v ELSE 0,      \* (the formula's parameters: the reader compares with the object written)
               dst |-> dst, pre |-> IF dst = "prepop" THEN pre ELSE 0]
      holds(x) == IF T \in ScratchTypes THEN [st.scratch EXCEPT ![T] = x] ELSE st.scratch
  IN IF n <= Rem(st)
     THEN LET st2 == [st EXCEPT !.cursor = @ + n, !.idx = @ + 1, !.scratch = holds(Val(it))] IN
          [s |-> st2,
           last |-> [a |-> "Read", arg |-> arg, cls |-> cl \o ",fits," \o dc, ok |-> TRUE,
                     exp |-> [ret |-> Val(it), st |-> RdObs(st2)]]]
     ELSE IF Atomic(it, via)
     THEN LET st2 == [st EXCEPT !.scratch = holds(EmptyOf(T))] IN
          [s |-> st2,
           last |-> [a |-> "Read", arg |-> arg, cls |-> cl \o ",past-end," \o dc, ok |-> FALSE,
                     exp |-> [ret |-> "throws", st |-> RdObs(st)]]]
     ELSE [s |-> [st EXCEPT !.phase = "broken", !.scratch = holds(EmptyOf(T))],
           last |-> [a |-> "Read", arg |-> arg, cls |-> cl \o ",past-end," \o dc, ok |-> FALSE,
                     exp |-> [ret |-> "throws"]]]

\* ---- a typed read of a POD type that extends past the data: throws, nothing changes
ProbeStep(st, t) ==
  [s |-> st,
   last |-> [a |-> "Probe", arg |-> [t |-> t], cls |-> t \o ",past-end", ok |-> FALSE,
             exp |-> [ret |-> "throws", st |-> RdObs(st)]]]
ProbeEnabled(st, t) == st.phase \in {"reading", "drained"} /\ PodSize(t) > Rem(st)

\* ---- getView<uint8_t>(n); n < 0 stands for a size_t value of 2^31 or more: 2^64 + n for n > -2^30, and
\* SizeCode(j) for 2^31, 2^31 + 1, 2^32 - 1, 2^32, 2^32 + 1, 2^63 (j = 0 .. 5); such a view never fits
SizeCode(j) == -1073741824 - j
\* past the data: throws, nothing changes.  n = 0: an empty view.  n = all the
\* rest: a view of exactly n bytes inside the buffer, the reader is at its end
\* ("drained": no more typed reads).  Other n would cut items: not specified.
ViewFits(st, n) == n >= 0 /\ n <= Rem(st)
ViewEnabled(st, n) == st.phase \in {"reading", "drained"} /\ (ViewFits(st, n) => n = 0 \/ n = Rem(st))
ViewCls(st, n) == IF n < 0 THEN "huge" ELSE IF n = 0 THEN "zero" ELSE IF n = Rem(st) THEN "exact-fit"
                  ELSE IF n = Rem(st) + 1 THEN "one-over" ELSE "over"
ViewStep(st, n) ==
  IF ViewFits(st, n)
  THEN LET st2 == IF n = 0 THEN st ELSE [st EXCEPT !.cursor = st.limit, !.phase = "drained"] IN
       [s |-> st2,
        last |-> [a |-> "View", arg |-> [n |-> n], cls |-> ViewCls(st, n), ok |-> TRUE,
                  exp |-> [ret |-> n, st |-> RdObs(st2)]]]
  ELSE [s |-> st,
        last |-> [a |-> "View", arg |-> [n |-> n], cls |-> ViewCls(st, n), ok |-> FALSE,
                  exp |-> [ret |-> "throws", st |-> RdObs(st)]]]

-------------------------------------------------------------------------------
\* the state machine
Take(r) == s' = r.s /\ last' = r.last

Init == s = EmptyState /\ last = InitLast

Write(it, cap) == s.phase = "writing" /\ (cap = -1 \/ cap = EncLen(it)) /\ Take(WriteStep(s, it, cap))
Open(k)    == k \in 0..s.bytes /\ Take(OpenStep(s, k))
OpenAll      == Open(s.bytes)                                   \* a reader over everything written
OpenFrac(pm) == pm \in 0..1000 /\ Open((s.bytes * pm) \div 1000)   \* ... over the first pm/1000 of it
Read(via, dst, pre) ==
              /\ s.phase = "reading" /\ s.idx < Len(s.items)
              /\ via \in Vias(s.items[s.idx + 1])
              /\ dst \in Dsts(s.items[s.idx + 1], via)
              /\ Take(ReadStep(s, via, dst, pre))
Probe(t)   == ProbeEnabled(s, t) /\ Take(ProbeStep(s, t))
View(n)    == ViewEnabled(s, n) /\ Take(ViewStep(s, n))

-------------------------------------------------------------------------------
\* invariants of the specification itself
RECURSIVE Total(_)
Total(q) == IF q = <<>> THEN 0 ELSE EncLen(Head(q)) + Total(Tail(q))
Prefix(q, n) == SubSeq(q, 1, n)

SizeLaw       == s.bytes = Total(s.items) /\ s.calc = s.bytes           \* WriteSizeCalculator predicts the byte count
CursorInside  == 0 <= s.cursor /\ s.cursor <= s.limit /\ s.limit <= s.bytes   \* never leaves the buffer
\* while items are read in order the cursor is exactly the encoded length of the items read
CursorIsOffset == s.phase = "reading" => s.cursor = Total(Prefix(s.items, s.idx))
\* with the whole stream in the buffer: everything read <=> every byte consumed <=> end()
\* (only one direction when the last items are empty raw blocks: they occupy no byte)
EndExactly    == (s.phase = "reading" /\ s.limit = s.bytes) =>
                    /\ (s.idx = Len(s.items) => AtEnd(s))
                    /\ (AtEnd(s) => Total(SubSeq(s.items, s.idx + 1, Len(s.items))) = 0)
\* a read that fits yields the value written, whatever the destination held; the destination holds it
RoundTrip     == last.a = "Read" /\ last.ok =>
                    LET it == s.items[s.idx] T == DstType(it, last.arg.via) IN
                    /\ last.exp.ret = Val(it)
                    /\ T \in ScratchTypes => s.scratch[T] = Val(it)
LastAgrees    == /\ "st" \in DOMAIN last.exp => last.exp.st.end = AtEnd(s) /\ last.exp.st.cursor = s.cursor
                 /\ "total" \in DOMAIN last.exp => last.exp.total = s.bytes /\ last.exp.predicted = s.calc
===============================================================================
