------------------------------- MODULE StreamGen -------------------------------
(* Case generation for Stream (spec -> code): for every sequence of items of   *)
(* the universe with exactly K items (environment: K, UNIVERSE) and every      *)
(* truncation point k in 0..bytes the history                                  *)
(*      Write* ; Open(k) ; Read in writing order until a read throws ;         *)
(*      boundary probes (one over, huge, exact rest, past-end typed reads)     *)
(* is produced by folding the step operators of Stream; each step carries the  *)
(* observables the specification computes (last.exp).  Array and raw items     *)
(* are read in both ways (mode "a": vector / read(mem,n); mode "b": getView).  *)
(* The complete stream (k = bytes) is also read with REUSED destinations.      *)
(* Output: one ndjson record per item sequence: the write steps once, and the  *)
(* continuation for every (k, mode).  PART/PARTS split the work over several   *)
(* TLC processes.                                                              *)
EXTENDS Stream, StreamUniverse, Json, IOUtils

K     == atoi(IOEnv.K)
PART  == atoi(IOEnv.PART)        \* 1..PARTS
PARTS == atoi(IOEnv.PARTS)
U == IF IOEnv.UNIVERSE = "core" THEN Core ELSE IF IOEnv.UNIVERSE = "corewrap" THEN Core \o Wrappers
     ELSE IF IOEnv.UNIVERSE = "nul" THEN Nul ELSE Full
N == Len(U)

RECURSIVE Pow(_, _)
Pow(b, e) == IF e = 0 THEN 1 ELSE b * Pow(b, e - 1)
\* the i-th (1-based) sequence of K items
ItemSeq(i) == [j \in 1..K |-> U[(((i - 1) \div Pow(N, j - 1)) % N) + 1]]

RECURSIVE Writes(_, _, _)
Writes(st, q, acc) == IF q = <<>> THEN [s |-> st, hs |-> acc]
                      ELSE LET r == WriteStep(st, Head(q), EncLen(Head(q))) IN Writes(r.s, Tail(q), Append(acc, r.last))

ViaFor(it, mode) == IF it.t \in ArrTags THEN (IF mode = "a" THEN "vec" ELSE "view")
                    ELSE IF it.t = "raw" THEN (IF mode = "a" THEN "read" ELSE "view")
                    ELSE "typed"

\* destination policies.  "fresh": every read goes into a newly constructed object.
\* "reuse": the harness' scratch object of the destination type is reused for every read of
\* the history; the first read of a type finds it pre-populated with a value longer than
\* anything in the universe, later reads find what the previous read of that type left
\* (longer, shorter or equally long, depending on the item sequence).
\* "short": every read finds its destination pre-populated with one (non-empty) element.
UsedBefore(st, T, mode) == \E j \in 1..st.idx : DstType(st.items[j], ViaFor(st.items[j], mode)) = T
DstFor(st, it, mode, pol) ==
  LET T == DstType(it, ViaFor(it, mode)) IN
  IF pol = "fresh" \/ T = "none" THEN [dst |-> "fresh", pre |-> 0]
  ELSE IF T = "pod" THEN [dst |-> "reused", pre |-> 0]
  ELSE IF pol = "short" THEN [dst |-> "prepop", pre |-> ShortPre(T)]
  ELSE IF UsedBefore(st, T, mode) THEN [dst |-> "reused", pre |-> 0]
  ELSE [dst |-> "prepop", pre |-> LongPre(T)]

RECURSIVE Reads(_, _, _, _)
Reads(st, mode, pol, acc) ==
  IF st.phase # "reading" \/ st.idx = Len(st.items) THEN [s |-> st, hs |-> acc]
  ELSE LET it == st.items[st.idx + 1]
           d  == DstFor(st, it, mode, pol)
           r  == ReadStep(st, ViaFor(it, mode), d.dst, d.pre) IN
       IF r.last.ok THEN Reads(r.s, mode, pol, Append(acc, r.last))
       ELSE [s |-> r.s, hs |-> Append(acc, r.last)]

\* boundary probes from a reader that is not broken
Probes(st) ==
  IF st.phase # "reading" THEN <<>>
  ELSE LET p1 == ViewStep(st, Rem(st) + 1)                  \* one byte over: throws
           p2 == ViewStep(p1.s, -1)                          \* size_t(-1): throws
           p3 == IF Rem(st) < 4 THEN <<ProbeStep(p2.s, "i32").last>> ELSE <<>>   \* typed read over a partial rest
           p4 == ViewStep(p2.s, Rem(st))                     \* exactly the rest: fits
           p5 == ProbeStep(p4.s, "u8")                       \* at the end: throws
           p6 == ViewStep(p4.s, 0)                           \* empty view at the end: fits
       IN <<p1.last, p2.last>> \o p3 \o <<p4.last, p5.last, p6.last>>

Cont(st, k, mode, pol) ==
  LET o == OpenStep(st, k)
      r == Reads(o.s, mode, pol, <<o.last>>)
  IN r.hs \o Probes(r.s)

HasAlt(q) == \E j \in DOMAIN q : q[j].t \in ArrTags \cup {"raw"}

Case(i) ==
  LET q == ItemSeq(i)
      w == Writes(EmptyState, q, <<>>)
      modes == IF HasAlt(q) THEN <<"a", "b">> ELSE <<"a">>
      nf == Len(modes) * (w.s.bytes + 1)          \* every truncation point, fresh destinations
  IN [w |-> w.hs,
      runs |-> [x \in 1..(nf + 2 * Len(modes)) |->   \* + the complete stream with reused / pre-populated destinations
                  IF x <= nf THEN Cont(w.s, (x - 1) \div Len(modes), modes[((x - 1) % Len(modes)) + 1], "fresh")
                  ELSE IF x <= nf + Len(modes) THEN Cont(w.s, w.s.bytes, modes[x - nf], "reuse")
                  ELSE Cont(w.s, w.s.bytes, modes[x - nf - Len(modes)], "short")]]

NSeqs == Pow(N, K)
Mine  == (NSeqs - PART + PARTS) \div PARTS           \* how many i in 1..NSeqs with i = PART (mod PARTS)
Cases == [m \in 1..Mine |-> Case((m - 1) * PARTS + PART)]

ASSUME ndJsonSerialize(IOEnv.OUT, Cases)

\* nothing to explore: the cases are produced while the ASSUME is evaluated
Stutter == UNCHANGED vars
===============================================================================
