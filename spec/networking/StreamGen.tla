------------------------------- MODULE StreamGen -------------------------------
(* Case generation for Stream (spec -> code): for every sequence of items of   *)
(* the universe with exactly K items (environment: K, UNIVERSE) and every      *)
(* truncation point k in 0..bytes the history                                  *)
(*      Write* ; Open(k) ; Read in writing order until a read throws ;         *)
(*      boundary probes (one over, huge, exact rest, past-end typed reads)     *)
(* is produced by folding the step operators of Stream; each step carries the  *)
(* observables the specification computes (last.exp).  Array and raw items     *)
(* are read in both ways (mode "a": vector / read(mem,n); mode "b": getView).  *)
(* The complete stream (k = bytes) is also read with REUSED destinations.      *)
(* Output: one ndjson record per item sequence: the write steps once, and the  *)
(* continuation for every (k, mode).  PART/PARTS split the work over several   *)
(* TLC processes.                                                              *)
EXTENDS StreamScripts, Json, IOUtils

K     == atoi(IOEnv.K)
PART  == atoi(IOEnv.PART)        \* 1..PARTS
PARTS == atoi(IOEnv.PARTS)
U == IF IOEnv.UNIVERSE = "core" THEN Core ELSE IF IOEnv.UNIVERSE = "corewrap" THEN Core \o Wrappers
     ELSE IF IOEnv.UNIVERSE = "nul" THEN Nul ELSE Full
N == Len(U)

RECURSIVE Pow(_, _)
Pow(b, e) == IF e = 0 THEN 1 ELSE b * Pow(b, e - 1)
\* the i-th (1-based) sequence of K items
ItemSeq(i) == [j \in 1..K |-> U[(((i - 1) \div Pow(N, j - 1)) % N) + 1]]


Case(i) ==
  LET q == ItemSeq(i)
      w == Writes(EmptyState, q, <<>>)
      modes == IF HasAlt(q) THEN <<"a", "b">> ELSE <<"a">>
      nf == Len(modes) * (w.s.bytes + 1)          \* every truncation point, fresh destinations
  IN [w |-> w.hs,
      runs |-> [x \in 1..(nf + 2 * Len(modes)) |->   \* + the complete stream with reused / pre-populated destinations
                  IF x <= nf THEN Cont(w.s, (x - 1) \div Len(modes), modes[((x - 1) % Len(modes)) + 1], "fresh")
                  ELSE IF x <= nf + Len(modes) THEN Cont(w.s, w.s.bytes, modes[x - nf], "reuse")
                  ELSE Cont(w.s, w.s.bytes, modes[x - nf - Len(modes)], "short")]]

NSeqs == Pow(N, K)
Mine  == (NSeqs - PART + PARTS) \div PARTS           \* how many i in 1..NSeqs with i = PART (mod PARTS)
Cases == [m \in 1..Mine |-> Case((m - 1) * PARTS + PART)]

ASSUME ndJsonSerialize(IOEnv.OUT, Cases)

\* nothing to explore: the cases are produced while the ASSUME is evaluated
Stutter == UNCHANGED vars
===============================================================================
