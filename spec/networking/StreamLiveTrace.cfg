SPECIFICATION TSpec
CONSTANTS
  MaxItems = 0
  MaxReaders = 0
  LiveUniverseName = "small"
INVARIANTS LiveLastAgrees
POSTCONDITION Post
CHECK_DEADLOCK FALSE
