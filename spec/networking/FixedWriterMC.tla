---------------------------- MODULE FixedWriterMC -----------------------------
(* Model-checking instance of FixedWriter with the history of calls: the       *)
(* content is what the declarative reading of the statement says - the         *)
(* concatenation, in call order, of the blocks of exactly those calls that     *)
(* fitted in what the earlier accepted calls had left.                         *)
EXTENDS FixedWriter

CONSTANT K
VARIABLE hist
varsH == <<cap, content, last, hist>>

InitH == Init /\ hist = <<>>
NextH == Next /\ hist' = IF last'.a = "New" THEN <<>> ELSE Append(hist, [n |-> last'.arg.n, b |-> last'.arg.b, ok |-> last'.ok])
SpecH == InitH /\ [][NextH]_varsH

RECURSIVE Ref(_, _)
\* reference content after the calls h, starting from content ct
Ref(h, ct) == IF h = <<>> THEN ct
              ELSE LET c == Head(h) IN
                   Ref(Tail(h), IF c.n >= 0 /\ c.n <= cap - Len(ct) THEN ct \o Block(c.n, c.b) ELSE ct)
RECURSIVE OkRef(_, _)
\* the accept / reject decisions the statement demands for the calls h
OkRef(h, ct) == IF h = <<>> THEN <<>>
                ELSE LET c == Head(h)
                         f == c.n >= 0 /\ c.n <= cap - Len(ct) IN
                     <<f>> \o OkRef(Tail(h), IF f THEN ct \o Block(c.n, c.b) ELSE ct)

AgreesWithHistory == Constructed => /\ content = Ref(hist, <<>>)
                                    /\ [i \in DOMAIN hist |-> hist[i].ok] = OkRef(hist, <<>>)
HistBound == Len(hist) <= K
===============================================================================
