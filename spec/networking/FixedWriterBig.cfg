INIT Init
NEXT Stutter
CONSTANTS
  Caps = {0}
  Sizes = {0}
