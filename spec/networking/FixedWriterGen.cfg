SPECIFICATION Spec
CONSTANTS
  Caps = {0, 1, 2, 3, 4, 5, 6, 7, 8}
  Sizes = {0, 1, 2, 3, 4, 5}
INVARIANTS NeverOverfull LastAgrees
