SPECIFICATION LSpec
CONSTANTS
  MaxItems = 3
  MaxReaders = 2
  LiveUniverseName = "tiny"
INVARIANTS LiveSizeLaw LiveCursorLaw LiveAvailLaw LiveLastAgrees
PROPERTIES LiveWriteLaw
