SPECIFICATION Spec
CONSTANTS
  Threads = {1, 2}
  Objs = {1}
  MaxOps = 2
  MaxOwn = 1
  InitOwn = 0
  CreatorRefs = 1
  IncMode = "fastpath"
INVARIANTS TypeOK NotWhileReferenced NoUseAfterFree
CHECK_DEADLOCK FALSE
