SPECIFICATION Spec
CONSTANTS
  Threads = {1, 2}
  Objs = {1}
  MaxOps = 3
  MaxOwn = 2
  Atomic = FALSE
INVARIANTS TypeOK NotWhileReferenced NoUseAfterFree
CHECK_DEADLOCK FALSE
