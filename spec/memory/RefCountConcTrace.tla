--------------------------- MODULE RefCountConcTrace ---------------------------
(* Trace specification for multi-threaded executions of the real IntrusivePtr  *)
(* (property C08, concurrent part).  It states, for a recorded burst, the       *)
(* contract that RefCountConc establishes for the atomic mechanism under all    *)
(* interleavings:                                                               *)
(*   conservation   at a quiescent point useCount() = the creator's reference   *)
(*                  + the handles the threads' own books say are live           *)
(*   destruction    an object all of whose references were released was         *)
(*                  destroyed exactly once (most derived destructor included),  *)
(*                  and its destructor ran after every release had begun (one   *)
(*                  global stamp counter); an object with a reference left was  *)
(*                  not destroyed and still reports exactly those references    *)
(* Events of one burst (see harness/drivers/refcount/conc.cpp):                 *)
(*   Start(objs, threads, types)                                                *)
(*   Books(t, acq, rel, live)       thread t (0 = main) after phase 1           *)
(*   Quiescent(use, destroyed)      main reads the counts, nobody is operating  *)
(*   CreatorDrop(n)                 the creator's refDec per object             *)
(*   Release(t, n, kept, maxstamp)  phase 2: thread t released n[o] handles,    *)
(*                                  keeps kept[o], largest stamp drawn before a *)
(*                                  release of o                                *)
(*   Final(destroyed, dstamp, derived, use)                                     *)
(* Events of one series of acquisition rounds (concurrent acquisition through   *)
(* one borrowed reference, the behaviours of RefCountConc with InitOwn = 0):    *)
(*   RoundsStart(threads k, start c, how)   per round a fresh object with count  *)
(*                                  c, held by the lender (main) only            *)
(*   Round(mid, destroyedMid, after, destroyedAfter, destroyedEnd, overlap, n)   *)
(*                                  n rounds with this outcome: count read while *)
(*                                  all k acquired references are alive, count   *)
(*                                  after the k releases, destructor runs seen   *)
(*                                  at those two quiescent points and at the end *)
(*   RoundsEnd(rounds, overlapping)                                              *)
(* Contract per round: mid = c + k (no reference is lost), after = c, nothing    *)
(* is destroyed before the lender's release, exactly one destruction at the end. *)
(* With lenderFirst = 1 the lender releases at the first quiescent point: the k   *)
(* concurrent releases start from a count of exactly k and contain the last one:  *)
(* the object is destroyed by them, exactly once.                                 *)
(* `race`, `crash`, `timeout`, `malformed` events are not actions of this       *)
(* specification: a trace containing one is rejected.                           *)
EXTENDS Integers, Sequences, FiniteSets, TLC, Json, IOUtils, TLCExt

VARIABLES l, phase, M, T, types, refs, liveOf, reported, released, creatorRefs, maxRel,
          rk, rstart, rseen, rover,    \* acquisition rounds: threads, start count, rounds judged so far, of which overlapping
          rlf, roverRel                \* lender releases first (0/1); rounds whose releases overlapped
tvars == <<l, phase, M, T, types, refs, liveOf, reported, released, creatorRefs, maxRel, rk, rstart, rseen, rover, rlf, roverRel>>

TraceLines == ndJsonDeserialize(IOEnv.TRACE)
N == Len(TraceLines)
Line == TraceLines[l]
E == Line.e
O == 1..M
Max(a, b) == IF a > b THEN a ELSE b
IsVec(v) == DOMAIN v = O

Idle == /\ phase = "idle" /\ M = 0 /\ T = 0 /\ types = <<>> /\ refs = <<>> /\ liveOf = <<>>
        /\ reported = {} /\ released = {} /\ creatorRefs = <<>> /\ maxRel = <<>>
        /\ rk = 0 /\ rstart = 0 /\ rseen = 0 /\ rover = 0 /\ rlf = 0 /\ roverRel = 0
IdleNext == /\ phase' = "idle" /\ M' = 0 /\ T' = 0 /\ types' = <<>> /\ refs' = <<>> /\ liveOf' = <<>>
            /\ reported' = {} /\ released' = {} /\ creatorRefs' = <<>> /\ maxRel' = <<>>
            /\ rk' = 0 /\ rstart' = 0 /\ rseen' = 0 /\ rover' = 0 /\ rlf' = 0 /\ roverRel' = 0
TInit == l = 1 /\ Idle

Start ==
  /\ E = "Start" /\ phase = "idle"
  /\ Line.objs \in 1..2 /\ Line.threads \in 1..64 /\ Len(Line.types) = Line.objs
  /\ phase' = "books" /\ M' = Line.objs /\ T' = Line.threads /\ types' = Line.types
  /\ refs' = [o \in 1..Line.objs |-> 1]              \* the creator's reference
  /\ creatorRefs' = [o \in 1..Line.objs |-> 1]
  /\ maxRel' = [o \in 1..Line.objs |-> 0]
  /\ liveOf' = <<>> /\ reported' = {} /\ released' = {}
  /\ UNCHANGED <<rk, rstart, rseen, rover, rlf, roverRel>>

\* a thread's own books balance: it holds what it acquired and did not release
Books ==
  /\ E = "Books" /\ phase = "books"
  /\ Line.t \in 0..T /\ Line.t \notin reported
  /\ IsVec(Line.acq) /\ IsVec(Line.rel) /\ IsVec(Line.live)
  /\ \A o \in O : Line.rel[o] >= 0 /\ Line.live[o] >= 0 /\ Line.live[o] = Line.acq[o] - Line.rel[o]
  /\ refs' = [o \in O |-> refs[o] + Line.live[o]]
  /\ liveOf' = (Line.t :> Line.live) @@ liveOf
  /\ reported' = reported \cup {Line.t}
  /\ UNCHANGED <<phase, M, T, types, released, creatorRefs, maxRel>>
  /\ UNCHANGED <<rk, rstart, rseen, rover, rlf, roverRel>>

\* conservation at the quiescent point; nothing may have been destroyed: every object is referenced
Quiescent ==
  /\ E = "Quiescent" /\ phase = "books" /\ reported = 0..T
  /\ IsVec(Line.use) /\ IsVec(Line.destroyed)
  /\ \A o \in O : Line.destroyed[o] = 0 /\ Line.use[o] = refs[o]
  /\ phase' = "release"
  /\ UNCHANGED <<M, T, types, refs, liveOf, reported, released, creatorRefs, maxRel>>
  /\ UNCHANGED <<rk, rstart, rseen, rover, rlf, roverRel>>

CreatorDrop ==
  /\ E = "CreatorDrop" /\ phase = "release"
  /\ IsVec(Line.n)
  /\ \A o \in O : Line.n[o] \in 0..creatorRefs[o]
  /\ creatorRefs' = [o \in O |-> creatorRefs[o] - Line.n[o]]
  /\ refs' = [o \in O |-> refs[o] - Line.n[o]]
  /\ UNCHANGED <<phase, M, T, types, liveOf, reported, released, maxRel>>
  /\ UNCHANGED <<rk, rstart, rseen, rover, rlf, roverRel>>

\* a thread releases handles it owns (never more), possibly keeping some
Release ==
  /\ E = "Release" /\ phase = "release"
  /\ Line.t \in 0..T /\ Line.t \notin released
  /\ IsVec(Line.n) /\ IsVec(Line.kept) /\ IsVec(Line.maxstamp)
  /\ \A o \in O : Line.n[o] >= 0 /\ Line.kept[o] >= 0 /\ Line.n[o] + Line.kept[o] = liveOf[Line.t][o]
  /\ refs' = [o \in O |-> refs[o] - Line.n[o]]
  /\ maxRel' = [o \in O |-> Max(maxRel[o], Line.maxstamp[o])]
  /\ released' = released \cup {Line.t}
  /\ UNCHANGED <<phase, M, T, types, liveOf, reported, creatorRefs>>
  /\ UNCHANGED <<rk, rstart, rseen, rover, rlf, roverRel>>

Final ==
  /\ E = "Final" /\ phase = "release" /\ released = 0..T
  /\ IsVec(Line.destroyed) /\ IsVec(Line.dstamp) /\ IsVec(Line.derived) /\ IsVec(Line.use)
  /\ \A o \in O :
       IF refs[o] = 0
       THEN /\ Line.destroyed[o] = 1                                  \* exactly once
            /\ Line.dstamp[o] > maxRel[o]                             \* only after every release had begun
            /\ Line.derived[o] = (IF types[o] = "Derived" THEN 1 ELSE 0)   \* the most derived destructor, once
       ELSE /\ Line.destroyed[o] = 0                                  \* never while a reference remains
            /\ Line.derived[o] = 0
            /\ Line.use[o] = refs[o]
  /\ l' = l + 1 /\ IdleNext

\* ---- acquisition rounds ----------------------------------------------------------------------
BurstVarsUnchanged == UNCHANGED <<M, T, types, refs, liveOf, reported, released, creatorRefs, maxRel>>
RoundsStart ==
  /\ E = "RoundsStart" /\ phase = "idle"
  /\ Line.threads \in 1..16 /\ Line.start \in 1..3
  /\ Line.lenderFirst \in {0, 1}
  /\ phase' = "rounds" /\ rk' = Line.threads /\ rstart' = Line.start /\ rseen' = 0 /\ rover' = 0
  /\ rlf' = Line.lenderFirst /\ roverRel' = 0
  /\ BurstVarsUnchanged
\* n rounds with one outcome: every one of them must be a behaviour of the atomic model
Round ==
  /\ E = "Round" /\ phase = "rounds" /\ Line.n >= 1 /\ Line.overlap \in {0, 1}
  /\ Line.destroyedMid = 0 /\ Line.mid = rstart + rk        \* creator's (lender's) references + the k acquired ones
  /\ Line.overlapRel \in {0, 1}
  /\ IF rlf = 0
     THEN Line.destroyedAfter = 0 /\ Line.after = rstart    \* not destroyed before the lender's release
     ELSE Line.destroyedAfter = 1 /\ Line.after = -1        \* the k racing releases contained the last one: destroyed by them, once
  /\ Line.destroyedEnd = 1                                  \* exactly once, at the last release
  /\ rseen' = rseen + Line.n /\ rover' = rover + Line.overlap * Line.n /\ roverRel' = roverRel + Line.overlapRel * Line.n
  /\ UNCHANGED <<phase, rk, rstart, rlf>>
  /\ BurstVarsUnchanged
RoundsEnd ==
  /\ E = "RoundsEnd" /\ phase = "rounds"
  /\ Line.rounds = rseen /\ Line.overlapping = rover /\ Line.overlappingRel = roverRel
  /\ l' = l + 1 /\ IdleNext

Step == /\ l <= N /\ E # "Reset"
        /\ \/ Final \/ RoundsEnd
           \/ (Start \/ Books \/ Quiescent \/ CreatorDrop \/ Release \/ RoundsStart \/ Round) /\ l' = l + 1
Reset == l <= N /\ E = "Reset" /\ l' = l + 1 /\ IdleNext
TNext == Step \/ Reset
TSpec == TInit /\ [][TNext]_tvars

RefsNonNegative == \A o \in DOMAIN refs : refs[o] >= 0

Accepted == TLCGet("stats").diameter - 1 = N
Post == IF Accepted THEN TRUE
        ELSE /\ PrintT(<<"TRACE-REJECTED-AT-LINE", TLCGet("stats").diameter, "OF", N>>)
             /\ FALSE
===============================================================================
