-------------------------------- MODULE Heap --------------------------------
(* Contract of an aligned heap: rkcommon::memory::alignedMalloc / alignedFree  *)
(* (property C14, first sentence).                                             *)
(*                                                                             *)
(* The client keeps blocks in slots 1..MaxLive.  `live[h]` is the block held   *)
(* in slot h: [base, size, align], or None.  The allocator's answer p to       *)
(* Alloc(size, align) is a PARAMETER of the action: the contract does not say  *)
(* which address is returned, only which answers are allowed:                  *)
(*                                                                             *)
(*   p is null,  or  p is a multiple of align, [p, p+size) does not wrap and   *)
(*   shares no address with a block that is live at the time of the call.      *)
(*                                                                             *)
(* Free is called only with the base of a live block and ends its life.        *)
(* Check(h) is the client reading back, over the full extent of the block in   *)
(* slot h, the pattern it wrote there after the allocation; the contract       *)
(* ("usable for the full size", "released without corrupting other             *)
(* allocations") allows exactly one answer: 0 bytes differ.                    *)
(*                                                                             *)
(* Address arithmetic is a parameter of the module, so that the same contract  *)
(* is model-checked over a small integer address space (HeapMC) and used to    *)
(* validate executions of the real allocator with 64-bit addresses written as  *)
(* limbs (HeapTrace + HeapLimbs).                                              *)
(*                                                                             *)
(* Every action is split into a state predicate XOK (is this call / answer     *)
(* allowed here?) and XEffect (what it does to `live`), X == XOK /\ XEffect;   *)
(* XWhy names the violated clause for the report.                              *)
EXTENDS Integers, Sequences, FiniteSets, TLC

CONSTANTS
  MaxLive,        \* slots are 1..MaxLive
  None,           \* content of an empty slot
  IsNull(_),      \* IsNull(p): p is the null address
  IsZero(_),      \* IsZero(s): the size s is 0
  Aligned(_, _),  \* Aligned(p, al): p is a multiple of al
  End(_, _),      \* End(p, s): p + s, as an "extended" address that cannot wrap
  InSpace(_),     \* InSpace(e): the block ending at extended address e lies inside the address space
  LEA(_, _),      \* LEA(e, p): extended address e <= address p
  ChurnSlackKb    \* see Churn

VARIABLE live

Handles  == 1..MaxLive
LiveSet  == {h \in Handles : live[h] # None}
Block(p, s, al) == [base |-> p, size |-> s, align |-> al]

\* [p1, p1+s1) and [p2, p2+s2) share no address (an empty range shares nothing)
Disjoint(p1, s1, p2, s2) ==
  \/ IsZero(s1) \/ IsZero(s2)
  \/ LEA(End(p1, s1), p2)
  \/ LEA(End(p2, s2), p1)

OverlapsLive(p, s) == \E g \in LiveSet : ~Disjoint(p, s, live[g].base, live[g].size)

\* is p an allowed answer to a request (size, align) in the current state?  (the first sentence of the property)
AnswerOK(size, align, p) ==
  \/ IsNull(p)
  \/ /\ Aligned(p, align)
     /\ InSpace(End(p, size))
     /\ ~OverlapsLive(p, size)

-------------------------------------------------------------------------------
\* Alloc into the empty slot h; p is what alignedMalloc(size, align) returned
AllocOK(h, size, align, p) == live[h] = None /\ AnswerOK(size, align, p)
AllocWhy(h, size, align, p) ==
  IF live[h] # None THEN "slot-in-use"
  ELSE IF IsNull(p) THEN "ok"
  ELSE IF ~Aligned(p, align) THEN "misaligned"
  ELSE IF ~InSpace(End(p, size)) THEN "wraps"
  ELSE IF OverlapsLive(p, size) THEN "overlaps-live-block"
  ELSE "ok"
AllocEffect(h, size, align, p) ==
  live' = IF IsNull(p) THEN live ELSE [live EXCEPT ![h] = Block(p, size, align)]
Alloc(h, size, align, p) == AllocOK(h, size, align, p) /\ AllocEffect(h, size, align, p)

\* alignedFree(p) where p is the base of the block in slot h
FreeOK(h, p)  == live[h] # None /\ p = live[h].base
FreeWhy(h, p) == IF live[h] = None THEN "free-of-empty-slot" ELSE IF p # live[h].base THEN "free-of-non-base" ELSE "ok"
FreeEffect(h) == live' = [live EXCEPT ![h] = None]
Free(h, p)    == FreeOK(h, p) /\ FreeEffect(h)

\* the client found `bad` bytes of the block in slot h different from what it wrote there
CheckOK(h, bad)  == live[h] # None /\ bad = 0
CheckWhy(h, bad) == IF live[h] = None THEN "check-of-empty-slot" ELSE IF bad # 0 THEN "corrupted" ELSE "ok"
Check(h, bad)    == CheckOK(h, bad) /\ UNCHANGED live

\* the client checked every block it holds: rep = <<h, bad>> pairs in increasing slot order
LiveList == SelectSeq([i \in 1..MaxLive |-> i], LAMBDA h : live[h] # None)
CheckAllOK(rep) ==
  /\ Len(rep) = Len(LiveList)
  /\ \A i \in 1..Len(rep) : rep[i][1] = LiveList[i] /\ rep[i][2] = 0
CheckAllWhy(rep) ==
  IF Len(rep) # Len(LiveList) \/ \E i \in 1..Len(rep) : rep[i][1] # LiveList[i] THEN "client-table-differs"
  ELSE IF \E i \in 1..Len(rep) : rep[i][2] # 0 THEN "corrupted" ELSE "ok"
CheckAll(rep) == CheckAllOK(rep) /\ UNCHANGED live

\* A burst: n requests (size, align) in a row, all blocks held at the same time, every one filled with its own
\* pattern; after the last request `bad` bytes (over all blocks of the burst) differ from what was written; then
\* all of them are freed.  ps = the non-null answers SORTED by address (sorting is the only thing done outside
\* the specification), nulls = the number of null answers.  For sorted answers "pairwise disjoint" is the same as
\* "every block ends before the next one starts" (HeapMC checks this equivalence), which keeps the check linear
\* for bursts of 65536 calls; each answer must also be allowed with respect to the blocks held in slots.
AdjacentDisjoint(ps, size) == \A i \in 1..(Len(ps) - 1) : LEA(End(ps[i], size), ps[i + 1])
PairwiseDisjointSeq(ps, size) == \A i, j \in 1..Len(ps) : i # j => Disjoint(ps[i], size, ps[j], size)
BurstAnswersOK(size, align, ps) ==
  /\ \A i \in 1..Len(ps) : ~IsNull(ps[i]) /\ AnswerOK(size, align, ps[i])
  /\ IsZero(size) \/ AdjacentDisjoint(ps, size)
BurstOK(n, size, align, ps, nulls, bad) ==
  /\ Len(ps) + nulls = n /\ nulls >= 0
  /\ BurstAnswersOK(size, align, ps)
  /\ bad = 0
BurstWhy(n, size, align, ps, nulls, bad) ==
  IF Len(ps) + nulls # n \/ nulls < 0 THEN "client-count-differs"
  ELSE IF \E i \in 1..Len(ps) : IsNull(ps[i]) THEN "client-count-differs"
  ELSE IF \E i \in 1..Len(ps) : ~Aligned(ps[i], align) THEN "misaligned"
  ELSE IF \E i \in 1..Len(ps) : ~InSpace(End(ps[i], size)) THEN "wraps"
  ELSE IF \E i \in 1..Len(ps) : OverlapsLive(ps[i], size) THEN "overlaps-live-block"
  ELSE IF ~IsZero(size) /\ ~AdjacentDisjoint(ps, size) THEN "overlaps-live-block"
  ELSE IF bad # 0 THEN "corrupted" ELSE "ok"
Burst(n, size, align, ps, nulls, bad) == BurstOK(n, size, align, ps, nulls, bad) /\ UNCHANGED live

\* the client skipped a call that its own discipline forbids (Alloc into a used slot, Free / Check of an empty one)
SkipOK(kind, h) == IF kind = "Alloc" THEN live[h] # None ELSE live[h] = None
Skip(kind, h)   == SkipOK(kind, h) /\ UNCHANGED live

\* "releases": observations about memory that was handed back with alignedFree.
\* leaked = 1: a leak detector found blocks that were freed (no client slot refers to them) but are still
\* allocated; 0: none; -1: no detector in this build.
LeakCheckOK(leaked)  == leaked # 1
LeakCheckWhy(leaked) == IF leaked = 1 THEN "freed-blocks-still-allocated" ELSE "ok"
LeakCheck(leaked)    == LeakCheckOK(leaked) /\ UNCHANGED live

\* `cycles` times alloc(sizeKb), touch every page, free; `nonnull` of them returned memory; the resident set
\* grew by retainedKb over the whole loop.  At most one block is live at any time, so an allocator that
\* releases keeps a bounded amount; one-sided and generous: a quarter of everything that was handed out plus a slack.
ChurnOK(sizeKb, cycles, nonnull, retainedKb) ==
  /\ nonnull \in 0..cycles
  /\ 4 * retainedKb <= nonnull * sizeKb + 4 * ChurnSlackKb
ChurnWhy(sizeKb, cycles, nonnull, retainedKb) ==
  IF ChurnOK(sizeKb, cycles, nonnull, retainedKb) THEN "ok" ELSE "freed-memory-retained"
Churn(sizeKb, cycles, nonnull, retainedKb) == ChurnOK(sizeKb, cycles, nonnull, retainedKb) /\ UNCHANGED live

Init == live = [h \in Handles |-> None]

-------------------------------------------------------------------------------
\* Invariants of the contract
PairwiseDisjoint ==
  \A g, h \in LiveSet : g # h => Disjoint(live[g].base, live[g].size, live[h].base, live[h].size)
AllAligned == \A h \in LiveSet : Aligned(live[h].base, live[h].align) /\ ~IsNull(live[h].base)
AllInSpace == \A h \in LiveSet : InSpace(End(live[h].base, live[h].size))
===============================================================================
