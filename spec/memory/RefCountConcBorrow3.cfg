SPECIFICATION Spec
CONSTANTS
  Threads = {1, 2, 3, 4}
  Objs = {1}
  MaxOps = 2
  MaxOwn = 2
  InitOwn = 0
  CreatorRefs = 3
  IncMode = "atomic"
INVARIANTS TypeOK Conservation SingleDestruction NotWhileReferenced DestroyedWhenUnreferenced NoUseAfterFree
CHECK_DEADLOCK FALSE
