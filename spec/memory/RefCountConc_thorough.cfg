SPECIFICATION Spec
CONSTANTS
  Threads = {1, 2, 3}
  Objs = {1, 2}
  MaxOps = 4
  MaxOwn = 3
  Atomic = TRUE
INVARIANTS TypeOK Conservation SingleDestruction NotWhileReferenced DestroyedWhenUnreferenced NoUseAfterFree
CHECK_DEADLOCK FALSE
