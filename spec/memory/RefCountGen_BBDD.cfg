SPECIFICATION GSpec
CONSTANTS
  NObj = 2
  ObjType <- GenObjType
  NSlot = 4
  SlotType <- GenSlotTypeBBDD
  MaxExplicit = 1
  Policy <- GenPolicy
  Layout <- GenLayout
  MemberTypes <- MembersNone
INVARIANTS TypeOK Conservation AliveIffReferenced NoDangling StaticTypes
PROPERTIES GLastAgrees
VIEW GView
