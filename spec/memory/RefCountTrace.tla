----------------------------- MODULE RefCountTrace -----------------------------
(* Trace specification: is a recorded execution of the real IntrusivePtr /     *)
(* RefCountedObject a behaviour of RefCount?  Each recorded line {a, arg, obs} *)
(* must be the next action of the specification with those arguments, and      *)
(* every observable the specification computes for that step (last'.exp: use   *)
(* counts, destructions in this step, what each handle holds, pairwise         *)
(* comparisons, return value) must equal what was observed.                    *)
(*                                                                             *)
(* Moved-from outcomes are left open (Policy = "any"): the observation selects *)
(* the outcome.  `seen` accumulates, per move code path, the outcomes that are *)
(* consistent with every move observed so far; the check reads it after a      *)
(* probe execution to instantiate the generation model (RefCountGen).          *)
(*                                                                             *)
(* A driver may refuse an action ({"skipped": true}) it cannot legally         *)
(* perform; the line is accepted only if the action's guard is false in the    *)
(* specification's current state.  Executions are separated by Reset lines.    *)
EXTENDS RefCount, Json, IOUtils, CSV, TLCExt

VARIABLES l, seen
tvars == <<st, count, creator, explicit, h, m, last, l, seen>>

TraceObjType  == <<"Base", "Derived", "Base", "Derived">>
TraceSlotType == <<"Base", "Base", "Base", "Derived", "Derived", "CBase">>
PolicyAny     == [mc |-> "any", ma |-> "any", sm |-> "any", cmc |-> "any", cma |-> "any"]
Kinds         == {"mc", "ma", "sm", "cmc", "cma"}
MembersDerived == {"Derived"}

TraceLines == ndJsonDeserialize(IOEnv.TRACE)
N == Len(TraceLines)
Line == TraceLines[l]
A == Line.a
Skipped == "skipped" \in DOMAIN Line.obs

ObsMatches == \A f \in DOMAIN last'.exp : f \in DOMAIN Line.obs /\ Line.obs[f] = last'.exp[f]

CopyNames == {"CopyCtor", "ConvCopyCtor"}
MoveCNames == {"MoveCtor", "ConvMoveCtor"}
CopyANames == {"CopyAssign", "ConvCopyAssign"}
MoveANames == {"MoveAssign", "ConvMoveAssign"}

Dispatch ==
  \/ A = "New" /\ New(Line.arg.o)
  \/ A = "CreatorDrop" /\ CreatorDrop(Line.arg.o)
  \/ A = "RefInc" /\ RefInc(Line.arg.o)
  \/ A = "RefDec" /\ RefDec(Line.arg.o)
  \/ A = "DefaultCtor" /\ DefaultCtor(Line.arg.s)
  \/ A = "RawCtor" /\ RawCtor(Line.arg.s, Line.arg.o)
  \/ A = "RawAssign" /\ RawAssign(Line.arg.s, Line.arg.o)
  \/ A \in CopyNames /\ CopyCtor(Line.arg.s, Line.arg.t)
  \/ A \in MoveCNames /\ MoveCtor(Line.arg.s, Line.arg.t)
  \/ A \in CopyANames /\ CopyAssign(Line.arg.s, Line.arg.t)
  \/ A \in MoveANames /\ MoveAssign(Line.arg.s, Line.arg.t)
  \/ A = "Dtor" /\ Dtor(Line.arg.s)
  \/ A = "Bool" /\ Bool(Line.arg.s)
  \/ A = "Arrow" /\ Arrow(Line.arg.s)
  \/ A = "Compare" /\ Compare(Line.arg.s, Line.arg.t)
  \/ A = "SetMember" /\ SetMember(Line.arg.o, Line.arg.t)
  \/ A = "ClearMember" /\ ClearMember(Line.arg.o)
  \/ A = "UnlinkNext" /\ UnlinkNext(Line.arg.o)
  \/ A = "UnlinkNextMove" /\ UnlinkNextMove(Line.arg.o)
  \/ A = "MoveCtorFromMember" /\ MoveCtorFromMember(Line.arg.s, Line.arg.t)
  \/ A = "CopyCtorFromMember" /\ CopyCtorFromMember(Line.arg.s, Line.arg.t)
  \/ A = "CopyAssignFromMember" /\ CopyAssignFromMember(Line.arg.s, Line.arg.t)
  \/ A = "MoveAssignFromMember" /\ MoveAssignFromMember(Line.arg.s, Line.arg.t)

\* the guard of the recorded action in the current state
InRange == /\ ("s" \in DOMAIN Line.arg => Line.arg.s \in Slots)
           /\ ("t" \in DOMAIN Line.arg => Line.arg.t \in Slots)
           /\ ("o" \in DOMAIN Line.arg => Line.arg.o \in Objs \cup {Null})
Guard ==
  /\ InRange
  /\ CASE A = "New" -> Line.arg.o \in Objs /\ CanNew(Line.arg.o)
       [] A = "CreatorDrop" -> Line.arg.o \in Objs /\ CanCreatorDrop(Line.arg.o)
       [] A = "RefInc" -> Line.arg.o \in Objs /\ CanRefInc(Line.arg.o)
       [] A = "RefDec" -> Line.arg.o \in Objs /\ CanRefDec(Line.arg.o)
       [] A = "DefaultCtor" -> CanDefaultCtor(Line.arg.s)
       [] A = "RawCtor" -> CanRawCtor(Line.arg.s, Line.arg.o)
       [] A = "RawAssign" -> CanRawAssign(Line.arg.s, Line.arg.o)
       [] A \in CopyNames \cup MoveCNames -> CanCopyCtor(Line.arg.s, Line.arg.t)
       [] A \in CopyANames \cup MoveANames -> CanAssign(Line.arg.s, Line.arg.t)
       [] A = "Dtor" -> CanDtor(Line.arg.s)
       [] A = "Bool" -> CanBool(Line.arg.s)
       [] A = "Arrow" -> CanArrow(Line.arg.s)
       [] A = "Compare" -> CanCompare(Line.arg.s, Line.arg.t)
       [] A = "SetMember" -> CanSetMember(Line.arg.o, Line.arg.t)
       [] A = "ClearMember" -> CanClearMember(Line.arg.o)
       [] A \in {"UnlinkNext", "UnlinkNextMove"} -> CanUnlink(Line.arg.o)
       [] A \in {"CopyCtorFromMember", "MoveCtorFromMember"} -> CanCopyCtorFromMember(Line.arg.s, Line.arg.t)
       [] A \in {"CopyAssignFromMember", "MoveAssignFromMember"} -> CanAssignFromMember(Line.arg.s, Line.arg.t)
       [] OTHER -> TRUE

\* outcomes of this move that produce exactly the step that was taken
IsMove == A \in MoveCNames \cup MoveANames
Kind == MoveKind(Line.arg.s, Line.arg.t, A \in MoveCNames)
Consistent == {out \in Outs(Kind) :
                 /\ MoveEff(Line.arg.s, Line.arg.t, out).hn = h'
                 /\ [o \in Objs |-> count[o] + MoveEff(Line.arg.s, Line.arg.t, out).d[o]] = count'}

\* at the end of the trace, hand `seen` to the check if it asked for it
Report == (l' = N + 1 /\ "RC_SEEN" \in DOMAIN IOEnv) => CSVWrite("%1$s", <<ToJson(seen')>>, IOEnv.RC_SEEN)

TInitVars ==
  /\ st = [o \in Objs |-> "unborn"]
  /\ count = Zero /\ creator = Zero /\ explicit = Zero
  /\ h = [s \in Slots |-> Unc]
  /\ m = [o \in Objs |-> Unc]
  /\ last = [a |-> "Init", arg |-> <<>>, cls |-> "", exp |-> [ret |-> "void", died |-> <<>>] @@ Proj(st, count, h, m)]
TInit == TInitVars /\ l = 1 /\ seen = [k \in Kinds |-> Outs(k)]

TStep == /\ l <= N /\ A # "Reset" /\ ~Skipped
         /\ Guard
         /\ Dispatch /\ last'.a = A /\ ObsMatches
         \* (a step that destroys an object changes counts by cascade as well: it is not used to narrow `seen`)
         /\ seen' = IF IsMove /\ last'.exp.died = <<>> THEN [seen EXCEPT ![Kind] = @ \cap Consistent] ELSE seen
         /\ l' = l + 1
         /\ Report
\* a refused action: legitimate only if the specification does not allow the action here
TSkip == /\ l <= N /\ A # "Reset" /\ Skipped
         /\ ~Guard
         /\ UNCHANGED <<st, count, creator, explicit, h, m, last, seen>>
         /\ l' = l + 1
         /\ Report
TReset == /\ l <= N /\ A = "Reset"
          /\ st' = [o \in Objs |-> "unborn"]
          /\ count' = Zero /\ creator' = Zero /\ explicit' = Zero
          /\ h' = [s \in Slots |-> Unc]
          /\ m' = [o \in Objs |-> Unc]
          /\ last' = [a |-> "Init", arg |-> <<>>, cls |-> "", exp |-> [ret |-> "void", died |-> <<>>] @@ Proj(st', count', h', m')]
          /\ UNCHANGED seen
          /\ l' = l + 1
          /\ Report
TNext == TStep \/ TSkip \/ TReset
TSpec == TInit /\ [][TNext]_tvars

\* acceptance: the search reached the end of the trace (one state per line + the initial one)
Accepted == TLCGet("stats").diameter - 1 = N
Post == IF Accepted THEN TRUE
        ELSE /\ PrintT(<<"TRACE-REJECTED-AT-LINE", TLCGet("stats").diameter, "OF", N>>)
             /\ FALSE
===============================================================================
