SPECIFICATION TSpec
CONSTANTS
  NObj = 4
  ObjType <- TraceObjType
  NSlot = 6
  SlotType <- TraceSlotType
  MaxExplicit = 3
  Policy <- PolicyAny
  Layout = "single"
  MemberTypes <- MembersDerived
INVARIANTS Conservation AliveIffReferenced NoDangling StaticTypes
POSTCONDITION Post
CHECK_DEADLOCK FALSE
