SPECIFICATION Spec
CONSTANTS
  Threads = {1, 2, 3}
  Objs = {1}
  MaxOps = 3
  MaxOwn = 2
  InitOwn = 1
  CreatorRefs = 1
  IncMode = "atomic"
INVARIANTS TypeOK Conservation SingleDestruction NotWhileReferenced DestroyedWhenUnreferenced NoUseAfterFree
CHECK_DEADLOCK FALSE
