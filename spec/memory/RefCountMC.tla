------------------------------ MODULE RefCountMC ------------------------------
(* Model-checking instance of RefCount (property C08).  Adds, as history       *)
(* variables, how often each model object was created and how often a step     *)
(* reported its destruction, and checks "destroyed exactly once": every        *)
(* incarnation that is no longer alive was reported destroyed once, every      *)
(* living one never.  All admitted moved-from outcomes are explored            *)
(* (Policy = "any" for every code path).                                       *)
EXTENDS RefCount

CONSTANT MaxBirths               \* bound on incarnations per model object
VARIABLES births, deaths
varsH == <<st, count, creator, explicit, h, m, last, births, deaths>>

MCObjType   == <<"Base", "Derived">>
MCObjTypeDD == <<"Derived", "Derived">>     \* both objects own a member handle: chains, 2-cycles, unlinking
MCSlotType4 == <<"Base", "Base", "Derived", "Derived">>
MCSlotType3 == <<"Base", "Base", "Derived">>
MCSlotTypeCBD == <<"CBase", "Base", "Derived">>
MembersDerived == {"Derived"}
MembersNone    == {}
PolicyAny   == [mc |-> "any", ma |-> "any", sm |-> "any", cmc |-> "any", cma |-> "any"]

InitH == Init /\ births = Zero /\ deaths = Zero
NextH ==
  /\ Next
  /\ births' = [o \in Objs |-> births[o] + (IF last'.a = "New" /\ last'.arg.o = o THEN 1 ELSE 0)]
  /\ deaths' = [o \in Objs |-> deaths[o] + Cardinality({i \in DOMAIN last'.exp.died : last'.exp.died[i].o = o})]
SpecH == InitH /\ [][NextH]_varsH

DestroyedExactlyOnce == \A o \in Objs : deaths[o] + (IF Alive(o) THEN 1 ELSE 0) = births[o]

\* Properties of the step record `last`, stated on transitions so that they are checked for
\* every transition although the VIEW below identifies states that differ only in `last`
\* (sound: no action reads `last`).
StepRecord ==
  [][/\ last'.exp.cnt = Cnt(st', count') /\ last'.exp.ptr = h' /\ last'.exp.same = Same(h') /\ last'.exp.mem = m'
     \* the most derived destructor runs: the reported type is the object's dynamic type
     /\ \A i \in DOMAIN last'.exp.died : last'.exp.died[i].t = ObjType[last'.exp.died[i].o]
     \* one operation releases one reference: a second death in the same step can only be a cascade through a member
     /\ (Len(last'.exp.died) > 1 => \E i \in DOMAIN last'.exp.died : m[last'.exp.died[i].o] \in Objs)]_varsH

BirthBound == \A o \in Objs : births[o] <= MaxBirths
View == <<st, count, creator, explicit, h, m, births, deaths>>
===============================================================================
