------------------------------ MODULE HeapLimbs ------------------------------
(* Fixed-width unsigned numbers (addresses, sizes) as limb sequences, because  *)
(* TLC integers are 32-bit and pointers / size_t are 64-bit.                   *)
(*                                                                             *)
(* A number is a sequence of NL limbs in base Base, MOST significant limb      *)
(* first: <<x1, ..., xNL>> stands for x1*Base^(NL-1) + ... + xNL.  Every       *)
(* intermediate value below is < 2*Base + 1, so Base = 2^16 is safe.           *)
(*                                                                             *)
(* An "extended" number has NL+1 limbs (one overflow limb in front); the sum   *)
(* of two numbers is extended, so the end of a block never wraps silently.     *)
(*                                                                             *)
(* The operators are the address arithmetic the Heap contract is instantiated  *)
(* with when it validates executions of the real allocator (HeapTrace);        *)
(* HeapLimbsMC checks them against plain integer arithmetic on a small base.   *)
EXTENDS Integers, Sequences

CONSTANTS Base,   \* limb base, a power of two
          NL      \* number of limbs of an address / size

IsNumL(x)  == DOMAIN x = 1..NL /\ \A i \in 1..NL : x[i] \in 0..(Base - 1)
IsZeroL(x) == \A i \in 1..NL : x[i] = 0

\* carry out of the limbs strictly below position i when adding a and b
RECURSIVE CarryInto(_, _, _)
CarryInto(a, b, i) == IF i = NL THEN 0
                      ELSE (a[i + 1] + b[i + 1] + CarryInto(a, b, i + 1)) \div Base

\* a + b as an extended number (NL+1 limbs, never wraps)
AddL(a, b) == [i \in 1..(NL + 1) |->
                 IF i = 1 THEN (a[1] + b[1] + CarryInto(a, b, 1)) \div Base
                 ELSE (a[i - 1] + b[i - 1] + CarryInto(a, b, i - 1)) % Base]

Widen(a) == [i \in 1..(NL + 1) |-> IF i = 1 THEN 0 ELSE a[i - 1]]

\* lexicographic <= on two limb sequences of the same length
RECURSIVE LexLE(_, _, _)
LexLE(a, b, i) == IF i > Len(a) THEN TRUE
                  ELSE IF a[i] < b[i] THEN TRUE
                  ELSE IF a[i] > b[i] THEN FALSE
                  ELSE LexLE(a, b, i + 1)

\* extended number e <= number a
LeEL(e, a) == LexLE(e, Widen(a), 1)

\* e <= Base^NL : [p, p+s) with end e lies inside the NL-limb address space
InSpaceL(e) == e[1] = 0 \/ (e[1] = 1 /\ \A i \in 2..(NL + 1) : e[i] = 0)

\* a is a multiple of al (al a power of two; Base a power of two)
RECURSIVE AlignedAt(_, _, _)
AlignedAt(a, al, i) == IF al = 1 \/ i = 0 THEN TRUE
                       ELSE IF al <= Base THEN a[i] % al = 0
                       ELSE a[i] = 0 /\ AlignedAt(a, al \div Base, i - 1)
AlignedL(a, al) == AlignedAt(a, al, NL)

\* --- conversion, only meaningful while Base^(NL+1) < 2^31 (used by HeapLimbsMC) ---
RECURSIVE Pow(_, _)
Pow(b, n) == IF n = 0 THEN 1 ELSE b * Pow(b, n - 1)
ValOf(x)  == LET n == Len(x)
                 RECURSIVE Go(_)
                 Go(i) == IF i > n THEN 0 ELSE x[i] * Pow(Base, n - i) + Go(i + 1)
             IN Go(1)
LimbsOf(v) == [i \in 1..NL |-> (v \div Pow(Base, NL - i)) % Base]
===============================================================================
