----------------------------- MODULE RefCountConc -----------------------------
(* Concurrent part of property C08: threads take references to shared          *)
(* reference-counted objects and drop them concurrently.  A thread may take a  *)
(* reference in two ways: by copying a reference it owns (Copy), or THROUGH A  *)
(* BORROWED REFERENCE (Acquire): it builds a handle from a raw pointer, copies *)
(* a handle somebody else owns, or calls refInc(), while the lender (the       *)
(* creating code) keeps its reference for the duration.  Several threads may   *)
(* acquire through the same borrowed reference at the same time, in particular *)
(* when the count is exactly 1.                                                *)
(*                                                                             *)
(* Mechanism modelled after RefCountedObject (rkcommon/memory/IntrusivePtr.h): *)
(*   refInc:  refCounter++                         one atomic read-modify-write *)
(*   refDec:  if (--refCounter == 0) delete this   one atomic read-modify-write *)
(*                                                 whose result decides        *)
(* IncMode = "atomic": the increment is a single step.  The other two modes    *)
(* are NEGATIVE CONTROLS which TLC must refute:                                *)
(*   "split"     a load followed by a store (a plain `long long` counter):     *)
(*               lost update, then destruction while a reference is held       *)
(*   "fastpath"  load; if the value is 1 ("sole owner, nobody else can be      *)
(*               touching the counter") store 2, otherwise an atomic increment:*)
(*               two threads acquiring through one borrowed reference both     *)
(*               read 1 and both store 2 - one reference is lost               *)
(*                                                                             *)
(* Contract (what the property states): at every quiescent point the count     *)
(* equals the creator's reference plus the references the threads own; the     *)
(* object is destroyed exactly once, by the release of the last reference, and *)
(* never while a reference remains; nobody touches a destroyed object.         *)
EXTENDS Integers, FiniteSets, TLC

CONSTANTS Threads,   \* thread ids
          Objs,      \* shared objects
          MaxOps,    \* operations per thread
          MaxOwn,    \* bound on references a thread owns per object
          InitOwn,   \* references every thread owns initially (0: threads start with a borrowed reference only)
          CreatorRefs, \* references the creating code holds initially (the count the acquiring threads find: 1, 2, 3)
          IncMode    \* "atomic" | "split" | "fastpath": how refInc() changes the counter

VARIABLES count,     \* count[o]: the counter word of object o
          destroyed, \* destroyed[o]: how often the destructor ran
          creator,   \* creator[o]: references the creating code (the lender) still holds
          own,       \* own[t][o]: references thread t owns
          ops,       \* ops[t]: operations thread t has started
          pc,        \* pc[t]: "idle", or "inc" between the load and the second step of a non-atomic increment
          tmp,       \* tmp[t] = [o, v]: object and value loaded by the non-atomic increment
          uaf        \* TRUE once a destroyed object was accessed
vars == <<count, destroyed, creator, own, ops, pc, tmp, uaf>>

Sum(f, S) == LET RECURSIVE Go(_)
                 Go(R) == IF R = {} THEN 0 ELSE LET x == CHOOSE x \in R : TRUE IN f[x] + Go(R \ {x})
             IN Go(S)
Owned(o) == creator[o] + Sum([t \in Threads |-> own[t][o]], Threads)

Init ==
  /\ count = [o \in Objs |-> CreatorRefs + InitOwn * Cardinality(Threads)]   \* creator's + the threads' initial references
  /\ destroyed = [o \in Objs |-> 0]
  /\ creator = [o \in Objs |-> CreatorRefs]
  /\ own = [t \in Threads |-> [o \in Objs |-> InitOwn]]
  /\ ops = [t \in Threads |-> 0]
  /\ pc = [t \in Threads |-> "idle"]
  /\ tmp = [t \in Threads |-> [o |-> CHOOSE o \in Objs : TRUE, v |-> 0]]
  /\ uaf = FALSE

Touch(o) == uaf' = (uaf \/ destroyed[o] > 0)     \* accessing the counter of a destroyed object

\* refDec: atomic pre-decrement; whoever sees 0 deletes
Decrement(o) ==
  /\ count' = [count EXCEPT ![o] = @ - 1]
  /\ destroyed' = IF count[o] - 1 = 0 THEN [destroyed EXCEPT ![o] = @ + 1] ELSE destroyed
  /\ Touch(o)

\* A thread may start taking a reference to o if it owns one (copy of its own handle: the object is alive by
\* contract) or if the creating code lends it one (raw pointer / shared handle / refInc(): the lender keeps its
\* reference until the acquisition is complete, see CreatorDrop).
MayTake(t, o) == own[t][o] >= 1 \/ creator[o] >= 1
CanStart(t, o) == pc[t] = "idle" /\ ops[t] < MaxOps /\ MayTake(t, o) /\ own[t][o] < MaxOwn

TakeAtomic(t, o) ==
  /\ IncMode = "atomic" /\ CanStart(t, o)
  /\ count' = [count EXCEPT ![o] = @ + 1]
  /\ own' = [own EXCEPT ![t][o] = @ + 1]
  /\ ops' = [ops EXCEPT ![t] = @ + 1]
  /\ Touch(o)
  /\ UNCHANGED <<destroyed, creator, pc, tmp>>

TakeLoad(t, o) ==
  /\ IncMode # "atomic" /\ CanStart(t, o)
  /\ tmp' = [tmp EXCEPT ![t] = [o |-> o, v |-> count[o]]]
  /\ pc' = [pc EXCEPT ![t] = "inc"]
  /\ ops' = [ops EXCEPT ![t] = @ + 1]
  /\ Touch(o)
  /\ UNCHANGED <<count, destroyed, creator, own>>

\* second step: "split" stores the loaded value + 1; "fastpath" stores 2 if it loaded 1, else increments atomically now
TakeFinish(t) ==
  /\ pc[t] = "inc"
  /\ LET o == tmp[t].o IN
       /\ count' = [count EXCEPT ![o] = IF IncMode = "split" THEN tmp[t].v + 1
                                        ELSE IF tmp[t].v = 1 THEN 2 ELSE @ + 1]
       /\ own' = [own EXCEPT ![t][o] = @ + 1]
       /\ Touch(o)
  /\ pc' = [pc EXCEPT ![t] = "idle"]
  /\ UNCHANGED <<destroyed, creator, ops, tmp>>

\* destroy a handle the thread owns
Drop(t, o) ==
  /\ pc[t] = "idle" /\ ops[t] < MaxOps /\ own[t][o] >= 1
  /\ own' = [own EXCEPT ![t][o] = @ - 1]
  /\ ops' = [ops EXCEPT ![t] = @ + 1]
  /\ Decrement(o)
  /\ UNCHANGED <<creator, pc, tmp>>

\* the creating code gives up one of its references - not while a thread is in the middle of taking one (a lender
\* keeps what it lends until the borrower is done)
CreatorDrop(o) ==
  /\ creator[o] >= 1
  /\ \A t \in Threads : pc[t] = "idle" \/ tmp[t].o # o
  /\ creator' = [creator EXCEPT ![o] = @ - 1]
  /\ Decrement(o)
  /\ UNCHANGED <<own, ops, pc, tmp>>

Next ==
  \/ \E t \in Threads, o \in Objs : TakeAtomic(t, o) \/ TakeLoad(t, o) \/ Drop(t, o)
  \/ \E t \in Threads : TakeFinish(t)
  \/ \E o \in Objs : CreatorDrop(o)

Spec == Init /\ [][Next]_vars

-------------------------------------------------------------------------------
Quiescent == \A t \in Threads : pc[t] = "idle"
TypeOK == /\ \A o \in Objs : destroyed[o] \in 0..3 /\ creator[o] \in 0..CreatorRefs
          /\ \A t \in Threads : ops[t] \in 0..MaxOps /\ \A o \in Objs : own[t][o] \in 0..MaxOwn
\* useCount() = creator's reference + references owned by the threads, whenever no operation is in flight
Conservation == Quiescent => \A o \in Objs : destroyed[o] = 0 => count[o] = Owned(o)
SingleDestruction == \A o \in Objs : destroyed[o] <= 1
NotWhileReferenced == \A o \in Objs : destroyed[o] > 0 => Owned(o) = 0
DestroyedWhenUnreferenced == Quiescent => \A o \in Objs : Owned(o) = 0 => destroyed[o] = 1
NoUseAfterFree == ~uaf
===============================================================================
