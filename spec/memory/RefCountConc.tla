----------------------------- MODULE RefCountConc -----------------------------
(* Concurrent part of property C08: threads that own references to shared      *)
(* reference-counted objects copy (refInc) and drop (refDec) them concurrently.*)
(*                                                                             *)
(* Mechanism modelled after RefCountedObject (rkcommon/memory/IntrusivePtr.h): *)
(*   refInc:  refCounter++                         one atomic read-modify-write *)
(*   refDec:  if (--refCounter == 0) delete this   one atomic read-modify-write *)
(*                                                 whose result decides        *)
(* With Atomic = TRUE each is a single step.  With Atomic = FALSE the          *)
(* increment is a load followed by a store (a plain `long long` counter): this *)
(* instance is the NEGATIVE CONTROL; TLC must refute it (lost update, then     *)
(* destruction while a thread still holds a reference).                        *)
(*                                                                             *)
(* Contract (what the property states): at every quiescent point the count     *)
(* equals the creator's reference plus the references the threads own; the     *)
(* object is destroyed exactly once, by the release of the last reference, and *)
(* never while a reference remains; nobody touches a destroyed object.         *)
EXTENDS Integers, FiniteSets, TLC

CONSTANTS Threads,   \* thread ids
          Objs,      \* shared objects
          MaxOps,    \* operations per thread
          MaxOwn,    \* bound on references a thread owns per object
          Atomic     \* TRUE: atomic increment; FALSE: load/store increment

VARIABLES count,     \* count[o]: the counter word of object o
          destroyed, \* destroyed[o]: how often the destructor ran
          creator,   \* creator[o]: 1 while the creating code holds its reference
          own,       \* own[t][o]: references thread t owns
          ops,       \* ops[t]: operations thread t has started
          pc,        \* pc[t]: "idle", or "inc" between the load and the store of a split increment
          tmp,       \* tmp[t] = [o, v]: object and value loaded by the split increment
          uaf        \* TRUE once a destroyed object was accessed
vars == <<count, destroyed, creator, own, ops, pc, tmp, uaf>>

Sum(f, S) == LET RECURSIVE Go(_)
                 Go(R) == IF R = {} THEN 0 ELSE LET x == CHOOSE x \in R : TRUE IN f[x] + Go(R \ {x})
             IN Go(S)
Owned(o) == creator[o] + Sum([t \in Threads |-> own[t][o]], Threads)

Init ==
  /\ count = [o \in Objs |-> 1 + Cardinality(Threads)]   \* creator + one reference per thread
  /\ destroyed = [o \in Objs |-> 0]
  /\ creator = [o \in Objs |-> 1]
  /\ own = [t \in Threads |-> [o \in Objs |-> 1]]
  /\ ops = [t \in Threads |-> 0]
  /\ pc = [t \in Threads |-> "idle"]
  /\ tmp = [t \in Threads |-> [o |-> CHOOSE o \in Objs : TRUE, v |-> 0]]
  /\ uaf = FALSE

Touch(o) == uaf' = (uaf \/ destroyed[o] > 0)     \* accessing the counter of a destroyed object

\* refDec: atomic pre-decrement; whoever sees 0 deletes
Decrement(o) ==
  /\ count' = [count EXCEPT ![o] = @ - 1]
  /\ destroyed' = IF count[o] - 1 = 0 THEN [destroyed EXCEPT ![o] = @ + 1] ELSE destroyed
  /\ Touch(o)

\* copy a handle the thread owns: needs an owned reference (so the object must be alive by contract)
CopyAtomic(t, o) ==
  /\ Atomic /\ pc[t] = "idle" /\ ops[t] < MaxOps /\ own[t][o] >= 1 /\ own[t][o] < MaxOwn
  /\ count' = [count EXCEPT ![o] = @ + 1]
  /\ own' = [own EXCEPT ![t][o] = @ + 1]
  /\ ops' = [ops EXCEPT ![t] = @ + 1]
  /\ Touch(o)
  /\ UNCHANGED <<destroyed, creator, pc, tmp>>

CopyLoad(t, o) ==
  /\ ~Atomic /\ pc[t] = "idle" /\ ops[t] < MaxOps /\ own[t][o] >= 1 /\ own[t][o] < MaxOwn
  /\ tmp' = [tmp EXCEPT ![t] = [o |-> o, v |-> count[o]]]
  /\ pc' = [pc EXCEPT ![t] = "inc"]
  /\ ops' = [ops EXCEPT ![t] = @ + 1]
  /\ Touch(o)
  /\ UNCHANGED <<count, destroyed, creator, own>>

CopyStore(t) ==
  /\ pc[t] = "inc"
  /\ LET o == tmp[t].o IN
       /\ count' = [count EXCEPT ![o] = tmp[t].v + 1]
       /\ own' = [own EXCEPT ![t][o] = @ + 1]
       /\ Touch(o)
  /\ pc' = [pc EXCEPT ![t] = "idle"]
  /\ UNCHANGED <<destroyed, creator, ops, tmp>>

\* destroy a handle the thread owns
Drop(t, o) ==
  /\ pc[t] = "idle" /\ ops[t] < MaxOps /\ own[t][o] >= 1
  /\ own' = [own EXCEPT ![t][o] = @ - 1]
  /\ ops' = [ops EXCEPT ![t] = @ + 1]
  /\ Decrement(o)
  /\ UNCHANGED <<creator, pc, tmp>>

\* the creating code gives up its reference
CreatorDrop(o) ==
  /\ creator[o] = 1
  /\ creator' = [creator EXCEPT ![o] = 0]
  /\ Decrement(o)
  /\ UNCHANGED <<own, ops, pc, tmp>>

Next ==
  \/ \E t \in Threads, o \in Objs : CopyAtomic(t, o) \/ CopyLoad(t, o) \/ Drop(t, o)
  \/ \E t \in Threads : CopyStore(t)
  \/ \E o \in Objs : CreatorDrop(o)

Spec == Init /\ [][Next]_vars

-------------------------------------------------------------------------------
Quiescent == \A t \in Threads : pc[t] = "idle"
TypeOK == /\ \A o \in Objs : destroyed[o] \in 0..3 /\ creator[o] \in {0, 1}
          /\ \A t \in Threads : ops[t] \in 0..MaxOps /\ \A o \in Objs : own[t][o] \in 0..MaxOwn
\* useCount() = creator's reference + references owned by the threads, whenever no operation is in flight
Conservation == Quiescent => \A o \in Objs : destroyed[o] = 0 => count[o] = Owned(o)
SingleDestruction == \A o \in Objs : destroyed[o] <= 1
NotWhileReferenced == \A o \in Objs : destroyed[o] > 0 => Owned(o) = 0
DestroyedWhenUnreferenced == Quiescent => \A o \in Objs : Owned(o) = 0 => destroyed[o] = 1
NoUseAfterFree == ~uaf
===============================================================================
