SPECIFICATION MSpec
CONSTANTS
  MaxLive = 3
  None = None
  IsNull <- IntIsNull
  IsZero <- IntIsZero
  Aligned <- IntAligned
  End <- IntEnd
  InSpace <- IntInSpace
  LEA <- IntLEA
  ChurnSlackKb = 0
  Top = 8
  Sizes = {0, 1, 2, 3}
  Aligns = {1, 2, 4}
  Policy = "overlap"
  Scribble = "zero"
INVARIANTS Intact
