------------------------------- MODULE RefCount -------------------------------
(* Reference counting with intrusive handles: the reference meaning of          *)
(* rkcommon::memory::RefCountedObject / IntrusivePtr<T> (property C08).        *)
(*                                                                             *)
(* Objects 1..NObj have a dynamic type ObjType[o] ("Base" or "Derived").       *)
(* Handle slots 1..NSlot are pieces of raw storage of static type              *)
(* IntrusivePtr<const Base> / IntrusivePtr<Base> / IntrusivePtr<Derived>       *)
(* (SlotType[s] = "CBase" / "Base" / "Derived"): the static type of a handle   *)
(* is part of its abstract state; constructing and destroying a handle are     *)
(* actions.  A handle converts to every "wider" type (Derived -> Base ->       *)
(* CBase).  Layout says whether the derived-to-base conversion changes the     *)
(* address ("multi": the ref-counted base is not the first base; "virtual":    *)
(* it is a virtual base) or not ("single"); it names input classes only: what  *)
(* handles designate and how they compare never depends on it.                 *)
(* Who holds a reference to object o:                                          *)
(*   creator[o]   the code that created o (1 until it calls refDec once)       *)
(*   h[s] = o     every constructed handle pointing at o                       *)
(*   explicit[o]  explicit refInc() calls not yet matched by a refDec()        *)
(*   m[x] = o     the member handle `next` (an IntrusivePtr<Base> embedded in    *)
(*                objects whose type is in MemberTypes) of a LIVE object x       *)
(* count[o] is the value useCount() reports.  Every action states its *net*    *)
(* effect on the counts (Delta); an object is destroyed by exactly the action  *)
(* whose net effect takes its count to 0; the member handle of a dying object  *)
(* is destroyed with it, which releases its pointee and may destroy further     *)
(* objects in the same step (cascade).  That the counts so maintained          *)
(* always equal the number of reference holders, and that destruction happens  *)
(* exactly at the last release, are invariants / action properties TLC checks  *)
(* (bottom of this module and RefCountMC).                                     *)
(*                                                                             *)
(* What a moved-from handle holds is not stated by the property.  The          *)
(* specification admits every choice that keeps the books: the source gives    *)
(* its reference up ("release": it is empty afterwards), keeps it ("retain":   *)
(* the move was a copy), or - plain move assignment only - receives the        *)
(* destination's previous pointee together with its reference ("swap").        *)
(* Policy[kind] fixes the choice per code path (generation instance) or leaves *)
(* it open ("any": model checking and trace validation).                       *)
(*                                                                             *)
(* The ghost variable `last` records the action just taken, its arguments, its *)
(* input class and every observable the contract constrains after the step.    *)
EXTENDS Integers, Sequences, FiniteSets, TLC

CONSTANTS NObj,         \* number of objects
          ObjType,      \* sequence over 1..NObj of "Base" / "Derived"
          NSlot,        \* number of handle slots
          SlotType,     \* sequence over 1..NSlot of "CBase" / "Base" / "Derived"
          Layout,       \* "single" / "multi" / "virtual": object layout of the Derived type (names input classes only)
          MaxExplicit,  \* bound on outstanding explicit refInc() per object
          MemberTypes,  \* object types that embed a member handle `next` (subset of {"Base", "Derived"})
          Policy        \* [mc, ma, sm, cmc, cma |-> "release" | "retain" | "swap" | "any"]

VARIABLES st,        \* st[o] \in {"unborn", "alive", "dead"}
          count,     \* count[o]: what useCount() returns while o is alive
          creator,   \* creator[o] \in {0, 1}
          explicit,  \* explicit[o] \in 0..MaxExplicit
          h,         \* h[s] \in Objs \cup {Null, Unc}
          m,         \* m[x] \in Objs \cup {Null, Unc}: member handle of object x (Unc: x not alive or has no member)
          last
vars == <<st, count, creator, explicit, h, m, last>>

Objs  == 1..NObj
Slots == 1..NSlot
Null  == 0           \* a constructed, empty handle
Unc   == -1          \* raw storage holding no handle

Alive(o) == st[o] = "alive"
Constructed(s) == h[s] # Unc
\* static typing: a Derived handle can only hold Derived objects; a Base / const Base handle holds anything
Fits(s, v) == v = Null \/ (v \in Objs /\ (SlotType[s] # "Derived" \/ ObjType[v] = "Derived"))
\* handle t is acceptable as source for handle s: same type, or a conversion to a wider type
\* (derived-to-base, non-const to const)
Rank(T) == CASE T = "Derived" -> 0 [] T = "Base" -> 1 [] T = "CBase" -> 2
Converts(s, t) == Rank(SlotType[s]) >= Rank(SlotType[t])
Conv(s, t) == IF SlotType[s] = SlotType[t] THEN "" ELSE "Conv"

HasMember(o) == ObjType[o] \in MemberTypes
HandlesAt(hh, o) == {s \in Slots : hh[s] = o}
MembersAt(mm, o) == {x \in Objs : mm[x] = o}       \* only live objects have a member handle (m[x] # Unc)
\* number of reference holders of o (the declarative side of the property)
RefsOf(hh, cc, ee, mm, o) == cc[o] + Cardinality(HandlesAt(hh, o)) + ee[o] + Cardinality(MembersAt(mm, o))
Refs(o) == RefsOf(h, creator, explicit, m, o)
\* somebody outside the object graph can reach x: the creator, a pool handle or an explicit reference
ExternallyHeld(x) == creator[x] = 1 \/ explicit[x] > 0 \/ HandlesAt(h, x) # {}

-------------------------------------------------------------------------------
\* Observables
Cnt(stt, cnt) == [o \in Objs |-> IF stt[o] = "alive" THEN cnt[o] ELSE -1]
SamePairs == {p \in Slots \X Slots : p[1] < p[2] /\ SlotType[p[1]] = SlotType[p[2]]}
PairLess(p, q) == p[1] < q[1] \/ (p[1] = q[1] /\ p[2] < q[2])
PairSeq == LET n == Cardinality(SamePairs)
           IN [i \in 1..n |-> CHOOSE p \in SamePairs : Cardinality({q \in SamePairs : PairLess(q, p)}) = i - 1]
\* "do these two handles compare equal": 1 / 0, or -1 where the statement says nothing
\* (a slot without a handle; two empty handles - they point at no object at all)
SameVal(a, b) == IF a = Unc \/ b = Unc \/ (a = Null /\ b = Null) THEN -1 ELSE IF a = b THEN 1 ELSE 0
Same(hh) == [i \in DOMAIN PairSeq |-> SameVal(hh[PairSeq[i][1]], hh[PairSeq[i][2]])]
Proj(stt, cnt, hh, mm) == [cnt |-> Cnt(stt, cnt), mem |-> mm, ptr |-> hh, same |-> Same(hh)]

SetToSeq(S) == LET n == Cardinality(S) IN [i \in 1..n |-> CHOOSE x \in S : Cardinality({y \in S : y < x}) = i - 1]
DiedSeq(D) == LET q == SetToSeq(D) IN [i \in DOMAIN q |-> [o |-> q[i], t |-> ObjType[q[i]]]]

-------------------------------------------------------------------------------
\* Net effects
Zero == [o \in Objs |-> 0]
\* one reference to p gained, one reference to q given up (Null / Unc: none)
D(p, q) == [o \in Objs |-> (IF o = p THEN 1 ELSE 0) - (IF o = q THEN 1 ELSE 0)]
Dying(delta) == {o \in Objs : Alive(o) /\ delta[o] # 0 /\ count[o] + delta[o] = 0}

\* Destroying an object destroys its member handle, which releases the member's pointee, which may
\* thereby lose its last reference, and so on.  mn: member map after the action's direct effect;
\* cnt: counts so far; dead: objects destroyed so far; todo: destroyed objects whose member is still to be released.
RECURSIVE Cascade(_, _, _, _)
Cascade(mn, cnt, dead, todo) ==
  IF todo = {} THEN [cnt |-> cnt, dead |-> dead]
  ELSE LET x == CHOOSE x \in todo : TRUE
           y == mn[x]
           cnt2 == IF y \in Objs THEN [cnt EXCEPT ![y] = @ - 1] ELSE cnt
           nd == IF y \in Objs /\ y \notin dead /\ cnt2[y] = 0 THEN {y} ELSE {}
       IN Cascade(mn, cnt2, dead \cup nd, (todo \ {x}) \cup nd)

\* the common tail of every action: new handle map, new member map, count deltas, new creator / explicit books
Commit(a, arg, cls, hn, mn, delta, cn, en, ret) ==
  LET d0 == Dying(delta)
      res == Cascade(mn, [o \in Objs |-> count[o] + delta[o]], d0, d0)
      dies == res.dead
  IN
  /\ h' = hn
  /\ m' = [o \in Objs |-> IF o \in dies THEN Unc ELSE mn[o]]
  /\ creator' = cn
  /\ explicit' = en
  /\ count' = res.cnt
  /\ st' = [o \in Objs |-> IF o \in dies THEN "dead" ELSE st[o]]
  /\ last' = [a |-> a, arg |-> arg, cls |-> IF dies = {} THEN cls ELSE cls \o ",kills",
              exp |-> ret @@ [died |-> DiedSeq(dies)] @@ Proj(st', count', h', m')]

HandleStep(a, arg, cls, hn, delta) == Commit(a, arg, cls, hn, m, delta, creator, explicit, [ret |-> "void"])
MemberStep(a, arg, cls, hn, mn, delta) == Commit(a, arg, cls, hn, mn, delta, creator, explicit, [ret |-> "void"])
Query(a, arg, cls, ret) == Commit(a, arg, cls, h, m, Zero, creator, explicit, [ret |-> ret])

V(x) == IF x = Null THEN "null" ELSE "obj"
\* input class of an operation taking handle t into handle s
HCls(s, t) == IF s = t THEN "self," \o V(h[s])
              ELSE "src=" \o V(h[t]) \o ",dst=" \o
                   (IF h[s] = Unc THEN "new" ELSE IF h[s] = Null THEN "null" ELSE IF h[s] = h[t] THEN "same" ELSE "obj")
RCls(s, v) == "arg=" \o V(v) \o ",dst=" \o
              (IF h[s] = Unc THEN "new" ELSE IF h[s] = Null THEN "null" ELSE IF h[s] = v THEN "same" ELSE "obj")
Old(s) == IF h[s] = Unc THEN Null ELSE h[s]

-------------------------------------------------------------------------------
\* Objects and explicit reference calls
CanNew(o) == ~Alive(o)
New(o) ==           \* new T: a fresh object (a new incarnation of model object o), count 1 owned by the creator
  /\ CanNew(o)
  /\ st' = [st EXCEPT ![o] = "alive"]
  /\ count' = [count EXCEPT ![o] = 1]
  /\ creator' = [creator EXCEPT ![o] = 1]
  /\ explicit' = [explicit EXCEPT ![o] = 0]
  /\ h' = h
  /\ m' = [m EXCEPT ![o] = IF HasMember(o) THEN Null ELSE Unc]      \* the member handle is default-constructed: empty
  /\ last' = [a |-> "New", arg |-> [o |-> o], cls |-> ObjType[o],
              exp |-> [ret |-> "void", died |-> <<>>] @@ Proj(st', count', h', m')]

CanCreatorDrop(o) == Alive(o) /\ creator[o] = 1
CreatorDrop(o) ==   \* the creating code releases its reference: obj->refDec()
  /\ CanCreatorDrop(o)
  /\ Commit("CreatorDrop", [o |-> o], IF count[o] = 1 THEN "last" ELSE "shared",
            h, m, D(Null, o), [creator EXCEPT ![o] = 0], explicit, [ret |-> "void"])

CanRefInc(o) == Alive(o) /\ explicit[o] < MaxExplicit
RefInc(o) ==        \* obj->refInc() by someone who holds a reference
  /\ CanRefInc(o)
  /\ Commit("RefInc", [o |-> o], "", h, m, D(o, Null), creator, [explicit EXCEPT ![o] = @ + 1], [ret |-> "void"])

CanRefDec(o) == Alive(o) /\ explicit[o] > 0
RefDec(o) ==        \* obj->refDec() matching an earlier explicit refInc() (never more than owned)
  /\ CanRefDec(o)
  /\ Commit("RefDec", [o |-> o], IF count[o] = 1 THEN "last" ELSE "shared",
            h, m, D(Null, o), creator, [explicit EXCEPT ![o] = @ - 1], [ret |-> "void"])

-------------------------------------------------------------------------------
\* Handle constructors
CanDefaultCtor(s) == h[s] = Unc
DefaultCtor(s) ==
  /\ CanDefaultCtor(s)
  /\ HandleStep("DefaultCtor", [s |-> s], SlotType[s], [h EXCEPT ![s] = Null], Zero)

CanRawCtor(s, v) == h[s] = Unc /\ Fits(s, v) /\ (v # Null => Alive(v))
RawCtor(s, v) ==    \* IntrusivePtr<T>(T*): v = 0 is the null pointer
  /\ CanRawCtor(s, v)
  /\ HandleStep("RawCtor", [s |-> s, o |-> v], RCls(s, v), [h EXCEPT ![s] = v], D(v, Null))

CanCopyCtor(s, t) == s # t /\ h[s] = Unc /\ Constructed(t) /\ Converts(s, t)
CopyCtor(s, t) ==   \* copy constructor, or the converting constructor IntrusivePtr<Base>(const IntrusivePtr<Derived>&)
  /\ CanCopyCtor(s, t)
  /\ HandleStep(Conv(s, t) \o "CopyCtor", [s |-> s, t |-> t], HCls(s, t), [h EXCEPT ![s] = h[t]], D(h[t], Null))

\* what moving handle t into handle s does, per admitted outcome
MoveEff(s, t, out) ==
  CASE out = "release" -> IF s = t THEN [hn |-> [h EXCEPT ![s] = Null], d |-> D(Null, h[s])]
                          ELSE [hn |-> [h EXCEPT ![s] = h[t], ![t] = Null], d |-> D(Null, Old(s))]
    [] out = "retain"  -> [hn |-> [h EXCEPT ![s] = h[t]], d |-> D(h[t], Old(s))]
    [] out = "swap"    -> [hn |-> [h EXCEPT ![s] = h[t], ![t] = h[s]], d |-> Zero]
MoveKind(s, t, ctor) == IF s = t THEN "sm"
                        ELSE IF SlotType[s] = SlotType[t] THEN (IF ctor THEN "mc" ELSE "ma")
                        ELSE (IF ctor THEN "cmc" ELSE "cma")
Outs(kind) == IF kind = "ma" THEN {"release", "retain", "swap"} ELSE {"release", "retain"}
Admitted(kind) == IF Policy[kind] = "any" THEN Outs(kind) ELSE {Policy[kind]}

CanMoveCtor(s, t) == CanCopyCtor(s, t)
MoveCtorOut(s, t, out) ==   \* IntrusivePtr(IntrusivePtr&&) / construction of a Base handle from an rvalue Derived handle
  /\ CanMoveCtor(s, t)
  /\ out \in Admitted(MoveKind(s, t, TRUE))
  /\ HandleStep(Conv(s, t) \o "MoveCtor", [s |-> s, t |-> t], HCls(s, t), MoveEff(s, t, out).hn, MoveEff(s, t, out).d)
MoveCtor(s, t) == \E out \in Outs(MoveKind(s, t, TRUE)) : MoveCtorOut(s, t, out)

-------------------------------------------------------------------------------
\* Assignment and destruction
CanAssign(s, t) == Constructed(s) /\ Constructed(t) /\ Converts(s, t)
CopyAssign(s, t) == \* operator=(const IntrusivePtr&), s = t is self-assignment; Base = Derived goes through a conversion
  /\ CanAssign(s, t)
  /\ HandleStep(Conv(s, t) \o "CopyAssign", [s |-> s, t |-> t], HCls(s, t), [h EXCEPT ![s] = h[t]], D(h[t], h[s]))

MoveAssignOut(s, t, out) ==
  /\ CanAssign(s, t)
  /\ out \in Admitted(MoveKind(s, t, FALSE))
  /\ HandleStep(Conv(s, t) \o "MoveAssign", [s |-> s, t |-> t], HCls(s, t), MoveEff(s, t, out).hn, MoveEff(s, t, out).d)
MoveAssign(s, t) == \E out \in Outs(MoveKind(s, t, FALSE)) : MoveAssignOut(s, t, out)

CanRawAssign(s, v) == Constructed(s) /\ Fits(s, v) /\ (v # Null => Alive(v))
RawAssign(s, v) ==  \* operator=(T*), v = 0 assigns nullptr
  /\ CanRawAssign(s, v)
  /\ HandleStep("RawAssign", [s |-> s, o |-> v], RCls(s, v), [h EXCEPT ![s] = v], D(v, h[s]))

CanDtor(s) == Constructed(s)
Dtor(s) ==
  /\ CanDtor(s)
  /\ HandleStep("Dtor", [s |-> s], V(h[s]), [h EXCEPT ![s] = Unc], D(Null, h[s]))

-------------------------------------------------------------------------------
\* Member handles: objects that own a handle (x.next).  The caller reaches x through a reference it holds.
NextCls(x) == IF m[x] = Null THEN "null" ELSE IF m[x] = x THEN "self" ELSE "obj"

CanSetMember(x, t) == x \in Objs /\ Alive(x) /\ HasMember(x) /\ ExternallyHeld(x) /\ Constructed(t) /\ SlotType[t] # "CBase"
SetMember(x, t) ==      \* x.next = handle t   (copy assignment into the member; a Derived handle converts)
  /\ CanSetMember(x, t)
  /\ MemberStep("SetMember", [o |-> x, t |-> t],
                "val=" \o (IF h[t] = Null THEN "null" ELSE IF h[t] = x THEN "self" ELSE "obj") \o ",old=" \o NextCls(x),
                h, [m EXCEPT ![x] = h[t]], D(h[t], m[x]))

CanClearMember(x) == x \in Objs /\ Alive(x) /\ HasMember(x) /\ ExternallyHeld(x)
ClearMember(x) ==       \* x.next = nullptr
  /\ CanClearMember(x)
  /\ MemberStep("ClearMember", [o |-> x], "old=" \o NextCls(x), h, [m EXCEPT ![x] = Null], D(Null, m[x]))

\* the source of the operation is the member handle of the object handle t designates: obj(t).next.
\* With h[s] = h[t] this is the chain walk `cur = cur->next`: the handle assigned FROM lives inside the
\* object the assignment may release.
MemberSource(t) == Constructed(t) /\ h[t] \in Objs /\ HasMember(h[t])
MCls(s, t) == IF h[s] = h[t]
              THEN "src=member-of-dst-target,next=" \o NextCls(h[t]) \o (IF count[h[t]] = 1 THEN ",last-ref" ELSE "")
              ELSE "src=member-of-other,next=" \o NextCls(h[t]) \o ",dst=" \o
                   (IF h[s] = Unc THEN "new" ELSE IF h[s] = Null THEN "null" ELSE IF h[s] = m[h[t]] THEN "same" ELSE "obj")

CanCopyCtorFromMember(s, t) == s # t /\ h[s] = Unc /\ SlotType[s] = "Base" /\ MemberSource(t)
CopyCtorFromMember(s, t) ==     \* IntrusivePtr<Base> s(obj(t).next)
  /\ CanCopyCtorFromMember(s, t)
  /\ MemberStep("CopyCtorFromMember", [s |-> s, t |-> t], MCls(s, t), [h EXCEPT ![s] = m[h[t]]], m, D(m[h[t]], Null))

CanAssignFromMember(s, t) == Constructed(s) /\ SlotType[s] = "Base" /\ MemberSource(t)
CopyAssignFromMember(s, t) ==   \* s = obj(t).next
  /\ CanAssignFromMember(s, t)
  /\ MemberStep("CopyAssignFromMember", [s |-> s, t |-> t], MCls(s, t), [h EXCEPT ![s] = m[h[t]]], m, D(m[h[t]], h[s]))

\* s = std::move(obj(t).next): same code path as a plain move assignment (kind "ma"), the source being a member
MoveEffM(s, x, out) ==
  CASE out = "release" -> [hn |-> [h EXCEPT ![s] = m[x]], mn |-> [m EXCEPT ![x] = Null], d |-> D(Null, h[s])]
    [] out = "retain"  -> [hn |-> [h EXCEPT ![s] = m[x]], mn |-> m, d |-> D(m[x], h[s])]
    [] out = "swap"    -> [hn |-> [h EXCEPT ![s] = m[x]], mn |-> [m EXCEPT ![x] = h[s]], d |-> Zero]
MoveAssignFromMemberOut(s, t, out) ==
  /\ CanAssignFromMember(s, t)
  /\ out \in Admitted("ma")
  /\ MemberStep("MoveAssignFromMember", [s |-> s, t |-> t], MCls(s, t),
                MoveEffM(s, h[t], out).hn, MoveEffM(s, h[t], out).mn, MoveEffM(s, h[t], out).d)
MoveAssignFromMember(s, t) == \E out \in Outs("ma") : MoveAssignFromMemberOut(s, t, out)

\* IntrusivePtr<Base> s(std::move(obj(t).next)): the move constructor with a source inside an object (kind "mc")
MoveCtorFromMemberOut(s, t, out) ==
  /\ CanCopyCtorFromMember(s, t)
  /\ out \in Admitted("mc")
  /\ LET x == h[t] IN
       MemberStep("MoveCtorFromMember", [s |-> s, t |-> t], MCls(s, t), [h EXCEPT ![s] = m[x]],
                  IF out = "release" THEN [m EXCEPT ![x] = Null] ELSE m,
                  IF out = "release" THEN Zero ELSE D(m[x], Null))
MoveCtorFromMember(s, t) == \E out \in Outs("mc") : MoveCtorFromMemberOut(s, t, out)

\* x.next = x.next->next: unlink the successor from a chain.  The DESTINATION is a member handle and the source is
\* the member of the object the destination designates: the assignment may release that object (and with it the
\* source).  z = m[x] is the successor, m[z] its successor; z = x (self loop) makes it a self-assignment.
CanUnlink(x) == x \in Objs /\ Alive(x) /\ HasMember(x) /\ ExternallyHeld(x) /\ m[x] \in Objs /\ HasMember(m[x])
UCls(x) == LET z == m[x] IN
           "next=" \o (IF z = x THEN "self" ELSE "obj") \o ",nextnext=" \o
           (IF m[z] = Null THEN "null" ELSE IF m[z] = x THEN "back" ELSE IF m[z] = z THEN "self" ELSE "obj") \o
           (IF z # x /\ count[z] = 1 THEN ",last-ref" ELSE "")
UnlinkNext(x) ==        \* copy assignment
  /\ CanUnlink(x)
  /\ LET z == m[x] IN
       MemberStep("UnlinkNext", [o |-> x], UCls(x), h, [m EXCEPT ![x] = m[z]], D(m[z], z))
UnlinkNextMoveOut(x, out) ==   \* x.next = std::move(x.next->next); with z = x a self-move of the member (kind "sm")
  /\ CanUnlink(x)
  /\ LET z == m[x] IN
       IF z = x
       THEN /\ out \in Admitted("sm")
            /\ MemberStep("UnlinkNextMove", [o |-> x], UCls(x), h,
                          IF out = "release" THEN [m EXCEPT ![x] = Null] ELSE m,
                          IF out = "release" THEN D(Null, x) ELSE Zero)
       ELSE /\ out \in Admitted("ma")
            /\ MemberStep("UnlinkNextMove", [o |-> x], UCls(x), h,
                          CASE out = "release" -> [m EXCEPT ![x] = m[z], ![z] = Null]
                            [] out = "retain"  -> [m EXCEPT ![x] = m[z]]
                            [] out = "swap"    -> [m EXCEPT ![x] = m[z], ![z] = z],
                          CASE out = "release" -> D(Null, z)
                            [] out = "retain"  -> D(m[z], z)
                            [] out = "swap"    -> Zero)
UnlinkNextMove(x) == \E out \in {"release", "retain", "swap"} : UnlinkNextMoveOut(x, out)

-------------------------------------------------------------------------------
\* Queries
CanBool(s) == Constructed(s)
Bool(s) ==          \* operator bool
  /\ CanBool(s)
  /\ Query("Bool", [s |-> s], V(h[s]), h[s] # Null)

CanArrow(s) == Constructed(s) /\ h[s] # Null
Arrow(s) ==         \* operator-> and operator*: the object the handle designates
  /\ CanArrow(s)
  /\ Query("Arrow", [s |-> s], SlotType[s], h[s])

\* a == b, a != b and a < b for two handles of the same or of different static types.
\*   eq / ne     equal exactly when both designate the same object
\*   unordered   neither a < b nor b < a: exactly when both designate the same object
\*   order       a < b and b < a agree with what two handles of ONE static type (const Base, to which every
\*               handle converts) onto the same two objects give: one order of objects for all handle types
\* Two empty handles: not constrained (no such action).
\* The class names the static types and, for a Derived handle against a Base / const Base one, whether the
\* two handles hold different addresses for the same object ("adjusted").
Adjusted(s, t) == Layout # "single" /\ ((SlotType[s] = "Derived") # (SlotType[t] = "Derived"))
\*   antisym     never both a < b and b < a
\*   consistent  a != b is the negation of a == b
\* For two EMPTY handles only `consistent` is constrained (they point at no object: whether they compare equal is
\* not stated).
CanCompare(s, t) == Constructed(s) /\ Constructed(t)
Compare(s, t) ==
  /\ CanCompare(s, t)
  /\ Query("Compare", [s |-> s, t |-> t],
           "types=" \o (IF SlotType[s] = SlotType[t] THEN "same" ELSE SlotType[s] \o "/" \o SlotType[t]) \o "," \o
           (IF h[s] = Null /\ h[t] = Null THEN "both-empty"
            ELSE IF h[s] = h[t] THEN "same-object" ELSE IF h[s] = Null \/ h[t] = Null THEN "one-empty" ELSE "different-objects") \o
           (IF Adjusted(s, t) THEN ",adjusted" ELSE ""),
           IF h[s] = Null /\ h[t] = Null THEN [consistent |-> TRUE]
           ELSE [eq |-> h[s] = h[t], ne |-> h[s] # h[t], unordered |-> h[s] = h[t], order |-> "as-base",
                 antisym |-> TRUE, consistent |-> TRUE])

-------------------------------------------------------------------------------
Init ==
  /\ st = [o \in Objs |-> "unborn"]
  /\ count = Zero /\ creator = Zero /\ explicit = Zero
  /\ h = [s \in Slots |-> Unc]
  /\ m = [o \in Objs |-> Unc]
  /\ last = [a |-> "Init", arg |-> <<>>, cls |-> "", exp |-> [ret |-> "void", died |-> <<>>] @@ Proj(st, count, h, m)]

Next ==
  \/ \E o \in Objs : New(o) \/ CreatorDrop(o) \/ RefInc(o) \/ RefDec(o)
  \/ \E s \in Slots : DefaultCtor(s) \/ Dtor(s) \/ Bool(s) \/ Arrow(s)
  \/ \E s \in Slots, v \in Objs \cup {Null} : RawCtor(s, v) \/ RawAssign(s, v)
  \/ \E s, t \in Slots : CopyCtor(s, t) \/ MoveCtor(s, t) \/ CopyAssign(s, t) \/ MoveAssign(s, t) \/ Compare(s, t)
  \/ \E x \in Objs : ClearMember(x) \/ UnlinkNext(x) \/ UnlinkNextMove(x) \/ \E t \in Slots : SetMember(x, t)
  \/ \E s, t \in Slots : CopyCtorFromMember(s, t) \/ MoveCtorFromMember(s, t) \/ CopyAssignFromMember(s, t) \/ MoveAssignFromMember(s, t)

Spec == Init /\ [][Next]_vars

-------------------------------------------------------------------------------
\* What TLC checks about the specification itself
TypeOK ==
  /\ st \in [Objs -> {"unborn", "alive", "dead"}]
  /\ creator \in [Objs -> {0, 1}]
  /\ explicit \in [Objs -> 0..MaxExplicit]
  /\ h \in [Slots -> Objs \cup {Null, Unc}]
  /\ m \in [Objs -> Objs \cup {Null, Unc}]
  /\ \A o \in Objs : (m[o] # Unc) <=> (Alive(o) /\ HasMember(o))
  /\ \A o \in Objs : count[o] \in 0..(1 + NSlot + MaxExplicit + NObj)

\* useCount() = creator's reference + live handles pointing at the object (pool handles and member handles of
\* live objects) + outstanding explicit references
Conservation == \A o \in Objs : Alive(o) => count[o] = Refs(o)
\* alive exactly while referenced: never destroyed while a reference remains, never kept without one
AliveIffReferenced == \A o \in Objs : (Alive(o) <=> Refs(o) > 0) /\ (Alive(o) => count[o] > 0)
\* no handle and no book entry designates a destroyed or never-created object
NoDangling == \A o \in Objs : ~Alive(o) => HandlesAt(h, o) = {} /\ MembersAt(m, o) = {} /\ creator[o] = 0 /\ explicit[o] = 0
StaticTypes == \A s \in Slots : Fits(s, IF h[s] = Unc THEN Null ELSE h[s])
LastAgrees == last.exp.cnt = Cnt(st, count) /\ last.exp.ptr = h /\ last.exp.mem = m

\* an object is destroyed by exactly the step that releases its last reference, and that step says so
DiesAtLastRelease ==
  [][\A o \in Objs :
       LET dead == Alive(o) /\ st'[o] = "dead"
           reported == \E i \in DOMAIN last'.exp.died : last'.exp.died[i].o = o
       IN /\ dead <=> (Alive(o) /\ Refs(o) > 0 /\ RefsOf(h', creator', explicit', m', o) = 0)
          /\ reported <=> dead
          /\ st[o] = "dead" => st'[o] = "dead" \/ last'.a = "New"]_vars
\* handles compare equal exactly when they designate the same object
EqualIffSameObject ==
  [][(last'.a = "Compare" /\ "eq" \in DOMAIN last'.exp.ret) =>
       /\ last'.exp.ret.eq = (h[last'.arg.s] = h[last'.arg.t])
       /\ last'.exp.ret.ne = ~last'.exp.ret.eq
       /\ UNCHANGED <<st, count, creator, explicit, h, m>>]_vars
===============================================================================
