SPECIFICATION SpecH
CONSTANTS
  NObj = 2
  ObjType <- MCObjTypeDD
  NSlot = 3
  SlotType <- MCSlotTypeCBD
  MaxExplicit = 1
  Policy <- PolicyAny
  Layout = "multi"
  MemberTypes <- MembersDerived
  MaxBirths = 2
INVARIANTS TypeOK Conservation AliveIffReferenced NoDangling StaticTypes DestroyedExactlyOnce
PROPERTIES DiesAtLastRelease EqualIffSameObject StepRecord
CONSTRAINT BirthBound
VIEW View
