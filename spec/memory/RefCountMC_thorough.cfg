SPECIFICATION SpecH
CONSTANTS
  NObj = 2
  ObjType <- MCObjType
  NSlot = 4
  SlotType <- MCSlotType4
  MaxExplicit = 2
  Policy <- PolicyAny
  Layout = "multi"
  MemberTypes <- MembersNone
  MaxBirths = 2
INVARIANTS TypeOK Conservation AliveIffReferenced NoDangling StaticTypes DestroyedExactlyOnce
PROPERTIES DiesAtLastRelease EqualIffSameObject StepRecord
CONSTRAINT BirthBound
VIEW View
