------------------------------ MODULE RefCountBig ------------------------------
(* Numeric boundaries of the reference counter (property C08): one object, the  *)
(* creator's reference, E outstanding explicit refInc() references and H live   *)
(* handles kept in a growing array, where E and H jump between the values at    *)
(* which a narrower or differently typed counter would misbehave                *)
(* (127/128, 255/256/257, 65535/65536/65537; with Big also 2^31-1, 2^31,        *)
(* 2^31+1, 2^32-1, 2^32, 2^32+1).  The jumps are MACRO actions: the driver      *)
(* performs the |target - current| individual refInc()/refDec() calls or handle *)
(* copies/destructions, TLC only computes where the count must be afterwards.   *)
(* Numbers are pairs [q, r] meaning q * 65536 + r, so that 2^32+1 stays inside  *)
(* TLC's 32-bit integers.                                                       *)
(* Contract (the same clauses as in RefCount): useCount() = creator + live      *)
(* handles + explicit references after every jump; the object is destroyed      *)
(* exactly by the jump / release that takes this sum to 0, never earlier.       *)
EXTENDS Integers, Sequences, FiniteSets, TLC, IOUtils, Json, CSV

CONSTANT Big            \* TRUE: explicit-reference targets around 2^31 and 2^32 as well

VARIABLES alive, creator, e, hn, last
vars == <<alive, creator, e, hn, last>>

B == 65536
V(q, r) == [q |-> q, r |-> r]
Zero == V(0, 0)
IsZero(v) == v.q = 0 /\ v.r = 0
Add(a, b) == LET s == a.r + b.r IN IF s < B THEN V(a.q + b.q, s) ELSE V(a.q + b.q + 1, s - B)
Less(a, b) == a.q < b.q \/ (a.q = b.q /\ a.r < b.r)

SmallT == {V(0, 0), V(0, 1), V(0, 2), V(0, 127), V(0, 128), V(0, 255), V(0, 256), V(0, 257), V(0, 65535), V(1, 0), V(1, 1)}
BigT   == {V(32767, 65535), V(32768, 0), V(32768, 1), V(65535, 65535), V(65536, 0), V(65536, 1)}
ETargets == IF Big THEN SmallT \cup BigT ELSE SmallT
HTargets == {V(0, 0), V(0, 1), V(0, 255), V(0, 256), V(0, 257), V(0, 65535), V(1, 0), V(1, 1)}

Name(v) == CASE v = V(32767, 65535) -> "2^31-1" [] v = V(32768, 0) -> "2^31" [] v = V(32768, 1) -> "2^31+1"
             [] v = V(65535, 65535) -> "2^32-1" [] v = V(65536, 0) -> "2^32" [] v = V(65536, 1) -> "2^32+1"
             [] OTHER -> ToString(v.q * B + v.r)

Use(cr, ee, hh) == Add(Add(ee, hh), V(0, cr))
Obs(al, cr, ee, hh) == IF al THEN <<Use(cr, ee, hh).q, Use(cr, ee, hh).r>> ELSE <<-1, -1>>

Init == /\ alive = FALSE /\ creator = 0 /\ e = Zero /\ hn = Zero
        /\ last = [a |-> "Init", arg |-> <<>>, cls |-> "", exp |-> [use |-> Obs(FALSE, 0, Zero, Zero), died |-> FALSE]]

Step(a, arg, cls, cr, ee, hh) ==
  LET stays == ~IsZero(Use(cr, ee, hh)) IN
  /\ creator' = cr /\ e' = ee /\ hn' = hh
  /\ alive' = stays
  /\ last' = [a |-> a, arg |-> arg, cls |-> IF stays THEN cls ELSE cls \o ",kills",
              exp |-> [use |-> Obs(stays, cr, ee, hh), died |-> ~stays]]

New ==
  /\ ~alive
  /\ alive' = TRUE /\ creator' = 1 /\ e' = Zero /\ hn' = Zero
  /\ last' = [a |-> "New", arg |-> <<>>, cls |-> "", exp |-> [use |-> Obs(TRUE, 1, Zero, Zero), died |-> FALSE]]
CreatorDrop == alive /\ creator = 1 /\ Step("CreatorDrop", <<>>, "", 0, e, hn)
\* the caller makes refInc() / refDec() calls until it holds exactly t explicit references
ExplicitTo(t) ==
  /\ alive /\ t # e
  /\ Step("ExplicitTo", [q |-> t.q, r |-> t.r], "from=" \o Name(e) \o ",to=" \o Name(t), creator, t, hn)
\* the caller copies / destroys handles until exactly t of them are alive (the first from the raw pointer)
HandlesTo(t) ==
  /\ alive /\ t # hn
  /\ Step("HandlesTo", [q |-> t.q, r |-> t.r], "from=" \o Name(hn) \o ",to=" \o Name(t), creator, e, t)

Next == New \/ CreatorDrop \/ (\E t \in ETargets : ExplicitTo(t)) \/ (\E t \in HTargets : HandlesTo(t))
Spec == Init /\ [][Next]_vars

\* what TLC checks about the macro model itself
Normal(v) == v.q >= 0 /\ v.r \in 0..(B - 1)
TypeOK == Normal(e) /\ Normal(hn) /\ creator \in {0, 1} /\ alive \in BOOLEAN
AliveIffReferenced == alive <=> ~IsZero(Use(creator, e, hn))
LastAgrees == last.exp.use = Obs(alive, creator, e, hn)
\* a jump of the explicit references moves the count by exactly the difference of the targets
JumpIsExact == [][(last'.a = "ExplicitTo" /\ alive') =>
                   Add(V(last'.exp.use[1], last'.exp.use[2]), e) = Add(V(last.exp.use[1], last.exp.use[2]), e')]_vars

\* export of the complete graph (see RefCountGen)
GInit == Init /\ CSVWrite("%1$s", <<ToJson([init |-> [alive |-> alive, creator |-> creator, e |-> e, hn |-> hn]])>>, IOEnv.RC_EDGES)
GNext == Next /\ CSVWrite("%1$s", <<ToJson([src |-> [alive |-> alive, creator |-> creator, e |-> e, hn |-> hn], step |-> last',
                                           dst |-> [alive |-> alive', creator |-> creator', e |-> e', hn |-> hn']])>>, IOEnv.RC_EDGES)
GSpec == GInit /\ [][GNext]_vars
GView == <<alive, creator, e, hn>>
GLastAgrees == [][last'.exp.use = Obs(alive', creator', e', hn')]_vars
===============================================================================
