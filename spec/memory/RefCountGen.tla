------------------------------ MODULE RefCountGen ------------------------------
(* Generation instance of RefCount: the complete state graph of the bounded    *)
(* universe, from which the check derives the histories replayed on the real   *)
(* IntrusivePtr.  The moved-from policy is the one TLC determined from a       *)
(* recorded probe execution of the real code (RefCountTrace, variable `seen`); *)
(* it is handed over in the environment.                                       *)
(*                                                                             *)
(* Export: the VIEW identifies states that differ only in the ghost `last`, so *)
(* every abstract state is expanded once; every transition TLC generates is    *)
(* appended to the file IOEnv.RC_EDGES as one JSON line                        *)
(*   {"src": <abstract state>, "step": <last'>, "dst": <abstract state'>}      *)
(* (the initial state as {"init": ...}).  All values in the file are computed  *)
(* by TLC.                                                                     *)
EXTENDS RefCount, IOUtils, Json, CSV

GenObjType  == <<"Base", "Derived">>
GenSlotTypeBBD  == <<"Base", "Base", "Derived">>
GenSlotTypeBDD  == <<"Base", "Derived", "Derived">>
GenSlotTypeBBDD == <<"Base", "Base", "Derived", "Derived">>
GenSlotTypeBB   == <<"Base", "Base">>
GenSlotTypeCBD  == <<"CBase", "Base", "Derived">>
GenLayout       == IOEnv.RC_LAYOUT
GenObjTypeDD    == <<"Derived", "Derived">>      \* chain universe: both objects own a member handle
MembersNone     == {}
MembersDerived  == {"Derived"}
GenPolicy   == [mc |-> IOEnv.RC_MC, ma |-> IOEnv.RC_MA, sm |-> IOEnv.RC_SM, cmc |-> IOEnv.RC_CMC, cma |-> IOEnv.RC_CMA]
ASSUME \A k \in DOMAIN GenPolicy : GenPolicy[k] \in Outs(k)
ASSUME GenLayout \in {"single", "multi", "virtual"}

Abs  == [st |-> st, count |-> count, creator |-> creator, explicit |-> explicit, h |-> h, m |-> m]
AbsN == [st |-> st', count |-> count', creator |-> creator', explicit |-> explicit', h |-> h', m |-> m']

GInit == Init /\ CSVWrite("%1$s", <<ToJson([init |-> Abs])>>, IOEnv.RC_EDGES)
GNext == Next /\ CSVWrite("%1$s", <<ToJson([src |-> Abs, step |-> last', dst |-> AbsN])>>, IOEnv.RC_EDGES)
GSpec == GInit /\ [][GNext]_vars
GView == <<st, count, creator, explicit, h, m>>
\* `last` agrees with the state it was computed for (action form: the VIEW hides `last`)
GLastAgrees == [][last'.exp.cnt = Cnt(st', count') /\ last'.exp.ptr = h' /\ last'.exp.same = Same(h') /\ last'.exp.mem = m']_vars
===============================================================================
