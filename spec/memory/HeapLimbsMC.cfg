SPECIFICATION Spec
CONSTANTS
  Base = 4
  NL = 3
