SPECIFICATION GSpec
CONSTANTS
  NObj = 2
  ObjType <- GenObjTypeDD
  NSlot = 3
  SlotType <- GenSlotTypeCBD
  MaxExplicit = 1
  Policy <- GenPolicy
  Layout <- GenLayout
  MemberTypes <- MembersNone
INVARIANTS TypeOK Conservation AliveIffReferenced NoDangling StaticTypes
PROPERTIES GLastAgrees
VIEW GView
