----------------------------- MODULE HeapLimbsMC -----------------------------
(* Laws of the limb arithmetic, checked by TLC against plain integers on a     *)
(* small base (Base = 4, NL = 3: all 64 numbers, all 4096 pairs, alignments    *)
(* 1..64 including alignments larger than one limb).  The definitions are the  *)
(* same ones HeapTrace uses with Base = 2^16, NL = 4.                          *)
EXTENDS HeapLimbs, TLC

Top   == Pow(Base, NL) - 1
Nums  == 0..Top
Pows2 == {1, 2, 4, 8, 16, 32, 64}

ASSUME RoundTrip == \A v \in Nums : IsNumL(LimbsOf(v)) /\ ValOf(LimbsOf(v)) = v
ASSUME ZeroLaw   == \A v \in Nums : IsZeroL(LimbsOf(v)) <=> v = 0
ASSUME AddLaw    == \A a, b \in Nums : ValOf(AddL(LimbsOf(a), LimbsOf(b))) = a + b
ASSUME LeLaw     == \A a, s, b \in {0, 1, 2, 3, 4, 5, 15, 16, 17, 31, 32, 47, 48, 62, 63} :
                       LeEL(AddL(LimbsOf(a), LimbsOf(s)), LimbsOf(b)) <=> (a + s <= b)
ASSUME LeLawAll  == \A a, b \in Nums : LeEL(Widen(LimbsOf(a)), LimbsOf(b)) <=> (a <= b)
ASSUME SpaceLaw  == \A a, b \in Nums : InSpaceL(AddL(LimbsOf(a), LimbsOf(b))) <=> (a + b <= Top + 1)
ASSUME AlignLaw  == \A a \in Nums, al \in Pows2 : AlignedL(LimbsOf(a), al) <=> (a % al = 0)

\* a few spot checks at the production base (values chosen so that no integer conversion is needed)
P == INSTANCE HeapLimbs WITH Base <- 65536, NL <- 4
ASSUME Spot1 == P!AddL(<<0, 32767, 65535, 65535>>, <<0, 0, 0, 1>>) = <<0, 0, 32768, 0, 0>>
ASSUME Spot2 == P!AddL(<<65535, 65535, 65535, 65535>>, <<0, 0, 0, 1>>) = <<1, 0, 0, 0, 0>>
ASSUME Spot3 == P!InSpaceL(<<1, 0, 0, 0, 0>>) /\ ~P!InSpaceL(<<1, 0, 0, 0, 1>>)
ASSUME Spot4 == P!AlignedL(<<0, 24832, 17, 4096>>, 4096) /\ ~P!AlignedL(<<0, 24832, 17, 4160>>, 4096)
                /\ P!AlignedL(<<0, 24832, 17, 4160>>, 64) /\ P!AlignedL(<<0, 0, 0, 0>>, 4096)
ASSUME Spot5 == P!LeEL(<<0, 0, 1, 0, 0>>, <<0, 1, 0, 0>>) /\ ~P!LeEL(<<0, 0, 1, 0, 1>>, <<0, 1, 0, 0>>)
                /\ ~P!LeEL(<<1, 0, 0, 0, 0>>, <<65535, 65535, 65535, 65535>>)

VARIABLE dummy
Init == dummy = 0
Next == UNCHANGED dummy
Spec == Init /\ [][Next]_dummy
===============================================================================
