------------------------------ MODULE HeapTrace ------------------------------
(* Trace specification: is a recorded execution of the real alignedMalloc /    *)
(* alignedFree a behaviour of the Heap contract?                               *)
(*                                                                             *)
(* One line per call of the driver, {a, arg, obs}; executions are separated by *)
(* {"a":"Reset"} lines.  Addresses and sizes are 64-bit and therefore written  *)
(* as 4 limbs of base 2^16, most significant first; the contract's address     *)
(* arithmetic is instantiated with the limb operators of HeapLimbs.            *)
(*                                                                             *)
(*   Alloc     arg {h, size, align}      obs {skipped, p, thrown}              *)
(*             (arg.es / arg.via select the typed overload or aligned_allocator<T>::allocate; thrown = "" or the *)
(*             exception allocate threw - bad_alloc counts as a null answer; arg.t = the calling thread, which    *)
(*             the contract does not depend on)                                *)
(*             arg.via = "alloc": aligned_allocator<Elem<es>>::allocate(size / es); arg.via = "rebind": the same call  *)
(*             on std::allocator_traits<aligned_allocator<Elem<4>>>::rebind_alloc<Elem<es>> (the allocator a container *)
(*             derives for ANOTHER type: es = 1, 63, 65, 72, 96, 127, 129, 160, 200 ...).  Both are judged by the     *)
(*             alignedMalloc contract with align = 64 whatever es is, and - being requests to the allocator, whose    *)
(*             small requests must succeed (AllocGuard!SmallRequest) - may not fail below SmallBytes;                 *)
(*             obs.route = the route the driver took ("malloc" / "alloc" / "rebind")                                  *)
(*   Burst     arg {n, size, align}      obs {ps, nulls, bad}   ps sorted by address *)
(*   Free      arg {h}                   obs {skipped, p}   p = address passed to alignedFree *)
(*   Check     arg {h}                   obs {skipped, bad} bad = bytes differing from the pattern *)
(*   CheckAll  arg {}                    obs {blocks: <<<<h, bad>>, ...>>}     *)
(*   LeakCheck arg {}                    obs {leaked}                          *)
(*   Churn     arg {size_kb, cycles}     obs {nonnull, retained_kb}            *)
(*                                                                             *)
(* A line is consumed iff the contract allows that call with that answer in    *)
(* the current state (XOK); otherwise the violated clause is printed and the   *)
(* search stops there (any other line, e.g. a crash event, is never allowed).  *)
EXTENDS Heap, Json, IOUtils, TLCExt

L == INSTANCE HeapLimbs WITH Base <- 65536, NL <- 4

LIsNull(p)      == L!IsZeroL(p)
LIsZero(s)      == L!IsZeroL(s)
LAligned(p, al) == L!AlignedL(p, al)
LEnd(p, s)      == L!AddL(p, s)
LInSpace(e)     == L!InSpaceL(e)
LLEA(e, p)      == L!LeEL(e, p)

VARIABLE l
tvars == <<live, l>>

TraceLines == ndJsonDeserialize(IOEnv.TRACE)
N    == Len(TraceLines)
Line == TraceLines[l]

Slotted == {"Alloc", "Free", "Check"}
Skipped(ln) == ln.a \in Slotted /\ ln.obs.skipped

\* a request of at most AllocGuard!SmallBytes = 256 * 2^16 bytes (and not 0) made through an allocator must be answered
SmallL(sz)    == sz[1] = 0 /\ sz[2] = 0 /\ (sz[3] < 256 \/ (sz[3] = 256 /\ sz[4] = 0)) /\ ~LIsZero(sz)
ViaAllocator(ln) == "via" \in DOMAIN ln.arg /\ ln.obs.route \in {"alloc", "rebind"}
RouteOK(ln)   == ln.obs.route = (IF "via" \in DOMAIN ln.arg /\ "es" \in DOMAIN ln.arg THEN ln.arg.via ELSE "malloc")
AnsweredOK(ln) == ViaAllocator(ln) /\ SmallL(ln.arg.size) => ~LIsNull(ln.obs.p) /\ ln.arg.align = 64

\* the recorded numbers must be well-formed limb sequences (otherwise the recording is broken, not the code)
WellFormed(ln) ==
  /\ (ln.a \in Slotted => ln.arg.h \in Handles)
  /\ (ln.a = "Alloc" => L!IsNumL(ln.arg.size) /\ ln.arg.align \in {1, 2, 4, 8, 16, 32, 64, 128, 256, 512, 1024, 2048, 4096})
  /\ (ln.a \in {"Alloc", "Free"} /\ ~Skipped(ln) => L!IsNumL(ln.obs.p))
  /\ (ln.a = "Alloc" /\ ~Skipped(ln) => RouteOK(ln))      \* the driver took the route the plan names
  /\ (ln.a = "Burst" => L!IsNumL(ln.arg.size) /\ \A i \in 1..Len(ln.obs.ps) : L!IsNumL(ln.obs.ps[i]))

\* requests made through aligned_allocator<T>::allocate are all within max_size(): the only exception the property
\* allows is bad_alloc (no memory = the null answer); length_error here would be the guard firing on a legal request
ThrownOK(ln) == ln.obs.thrown = "" \/ (ln.obs.thrown = "bad_alloc" /\ LIsNull(ln.obs.p))

Ok(ln) ==
  CASE Skipped(ln)        -> SkipOK(ln.a, ln.arg.h)
    [] ln.a = "Alloc"     -> AllocOK(ln.arg.h, ln.arg.size, ln.arg.align, ln.obs.p) /\ ThrownOK(ln) /\ AnsweredOK(ln)
    [] ln.a = "Free"      -> FreeOK(ln.arg.h, ln.obs.p)
    [] ln.a = "Check"     -> CheckOK(ln.arg.h, ln.obs.bad)
    [] ln.a = "CheckAll"  -> CheckAllOK(ln.obs.blocks)
    [] ln.a = "Burst"     -> BurstOK(ln.arg.n, ln.arg.size, ln.arg.align, ln.obs.ps, ln.obs.nulls, ln.obs.bad)
    [] ln.a = "LeakCheck" -> LeakCheckOK(ln.obs.leaked)
    [] ln.a = "Churn"     -> ChurnOK(ln.arg.size_kb, ln.arg.cycles, ln.obs.nonnull, ln.obs.retained_kb)
    [] OTHER              -> FALSE

Why(ln) ==
  CASE Skipped(ln)        -> "client-skipped-a-legal-call"
    [] ln.a = "Alloc"     -> IF ~ThrownOK(ln) THEN "threw-" \o ln.obs.thrown
                             ELSE IF ~AnsweredOK(ln) THEN "small-request-failed"
                             ELSE AllocWhy(ln.arg.h, ln.arg.size, ln.arg.align, ln.obs.p)
    [] ln.a = "Free"      -> FreeWhy(ln.arg.h, ln.obs.p)
    [] ln.a = "Check"     -> CheckWhy(ln.arg.h, ln.obs.bad)
    [] ln.a = "CheckAll"  -> CheckAllWhy(ln.obs.blocks)
    [] ln.a = "Burst"     -> BurstWhy(ln.arg.n, ln.arg.size, ln.arg.align, ln.obs.ps, ln.obs.nulls, ln.obs.bad)
    [] ln.a = "LeakCheck" -> LeakCheckWhy(ln.obs.leaked)
    [] ln.a = "Churn"     -> ChurnWhy(ln.arg.size_kb, ln.arg.cycles, ln.obs.nonnull, ln.obs.retained_kb)
    [] OTHER              -> ln.a

Effect(ln) ==
  CASE Skipped(ln)    -> UNCHANGED live
    [] ln.a = "Alloc" -> AllocEffect(ln.arg.h, ln.arg.size, ln.arg.align, ln.obs.p)
    [] ln.a = "Free"  -> FreeEffect(ln.arg.h)
    [] OTHER          -> UNCHANGED live

TInit  == Init /\ l = 1
TStep  == /\ l <= N /\ Line.a # "Reset"
          /\ Assert(WellFormed(Line), <<"malformed trace line", l, Line>>)
          /\ IF Ok(Line) THEN Effect(Line)
             ELSE PrintT(<<"C14-REASON", l, Why(Line)>>) /\ FALSE
          /\ l' = l + 1
TReset == l <= N /\ Line.a = "Reset" /\ live' = [h \in Handles |-> None] /\ l' = l + 1
TNext  == TStep \/ TReset
TSpec  == TInit /\ [][TNext]_tvars

\* acceptance: the search reached the end of the trace (one state per line + the initial one)
Accepted == TLCGet("stats").diameter - 1 = N
Post == IF Accepted THEN TRUE
        ELSE /\ PrintT(<<"TRACE-REJECTED-AT-LINE", TLCGet("stats").diameter, "OF", N>>)
             /\ FALSE
===============================================================================
