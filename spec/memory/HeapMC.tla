------------------------------- MODULE HeapMC -------------------------------
(* Model-checking instance of the Heap contract over a small integer address   *)
(* space 1..Top (0 = null), with an explicit memory `mem` (one tag per cell)   *)
(* and a nondeterministic allocator.                                           *)
(*                                                                             *)
(* The client writes its slot number into every cell of a block right after    *)
(* the allocation and never writes anywhere else; Free clears the freed block  *)
(* (or, with Scribble = "either", may leave the stale content).                *)
(* What TLC establishes for Policy = "contract":                               *)
(* for EVERY allocator whose answers satisfy Heap!AllocOK, under every         *)
(* interleaving of allocations and frees over Sizes x Aligns, the live blocks  *)
(* stay pairwise disjoint, aligned and inside the address space, every live    *)
(* block reads back intact over its full extent (Check can only answer 0), and *)
(* a step changes only cells of the block it allocates or frees.               *)
(*                                                                             *)
(* Configurations:                                                             *)
(*   HeapMC.cfg / HeapMC_thorough.cfg   the theorem above (Free clears cells)  *)
(*   HeapMC_why.cfg      the same with Free leaving stale content at will, and *)
(*                       the clause names of reports (XWhy) agreeing with XOK  *)
(* Negative controls (each must be refuted by TLC):                            *)
(*   HeapMC_neg_noalign    answers ignore the alignment argument -> AllAligned *)
(*   HeapMC_neg_overlap    answers ignore the live blocks        -> Intact     *)
(*   HeapMC_neg_underalloc only size-1 bytes are reserved        -> Intact     *)
(*   HeapMC_neg_header     a bookkeeping word is written at p-1                *)
(*                         without being reserved                -> Intact     *)
(* Positive control (must be refuted as well):                                 *)
(*   HeapMC_reuse          NoReuseStep, "a new block never lies on cells that  *)
(*                         were used before": Free really makes addresses      *)
(*                         available again in the contract.                    *)
EXTENDS Heap

CONSTANTS Top, Sizes, Aligns, Policy,
          Scribble   \* "zero": Free clears the freed cells; "either": Free clears them or leaves the stale content
VARIABLE mem
mvars == <<live, mem>>

\* integer address arithmetic
IntIsNull(p)      == p = 0
IntIsZero(s)      == s = 0
IntAligned(p, al) == p % al = 0
IntEnd(p, s)      == p + s
IntInSpace(e)     == e <= Top + 1
IntLEA(e, p)      == e <= p

Addrs    == 1..Top
Cells(b) == b.base..(b.base + b.size - 1)

\* which answers the allocator under test may give
Placement(h, size, align, p) ==
  CASE Policy = "contract"   -> AllocOK(h, size, align, p)
    [] Policy = "header"     -> AllocOK(h, size, align, p)
    [] Policy = "noalign"    -> AllocOK(h, size, 1, p)
    [] Policy = "underalloc" -> AllocOK(h, IF size > 0 THEN size - 1 ELSE 0, align, p) /\ p + size <= Top + 1
    [] Policy = "overlap"    -> live[h] = None /\ (p = 0 \/ (p % align = 0 /\ p + size <= Top + 1))

MAlloc(h, size, align, p) ==
  /\ Placement(h, size, align, p)
  /\ AllocEffect(h, size, align, p)
  /\ mem' = [a \in Addrs |->
               IF p # 0 /\ a \in p..(p + size - 1) THEN h
               ELSE IF Policy = "header" /\ p # 0 /\ a = p - 1 THEN -1
               ELSE mem[a]]

MFree(h) ==
  /\ live[h] # None
  /\ Free(h, live[h].base)
  /\ \/ Scribble = "either" /\ mem' = mem
     \/ mem' = [a \in Addrs |-> IF a \in Cells(live[h]) THEN 0 ELSE mem[a]]

MInit == Init /\ mem = [a \in Addrs |-> 0]
MNext == \/ \E h \in Handles, s \in Sizes, al \in Aligns, p \in 0..Top : MAlloc(h, s, al, p)
         \/ \E h \in Handles : MFree(h)
MSpec == MInit /\ [][MNext]_mvars

-------------------------------------------------------------------------------
BadCount(h) == Cardinality({a \in Cells(live[h]) : mem[a] # h})

TypeOK ==
  /\ live \in [Handles -> {None} \cup [base : Addrs, size : Sizes, align : Aligns]]
  /\ mem \in [Addrs -> -1..MaxLive]
Intact           == \A h \in LiveSet : BadCount(h) = 0
CheckAnswersZero == \A h \in LiveSet : CheckOK(h, BadCount(h))
CheckAllAnswers  == CheckAllOK([i \in 1..Len(LiveList) |-> <<LiveList[i], BadCount(LiveList[i])>>])

\* the clause names used in reports (XWhy) say "ok" exactly when the contract allows the call / answer (XOK)
WhyAgrees ==
  /\ \A h \in Handles, s \in Sizes, al \in Aligns, p \in 0..Top : (AllocWhy(h, s, al, p) = "ok") <=> AllocOK(h, s, al, p)
  /\ \A h \in Handles, p \in 0..Top : (FreeWhy(h, p) = "ok") <=> FreeOK(h, p)
  /\ \A h \in Handles, bad \in 0..2 : (CheckWhy(h, bad) = "ok") <=> CheckOK(h, bad)

\* the linear formulation used for bursts: for answers sorted by address, "each block ends before the next one starts"
\* is pairwise disjointness (all sequences of up to 3 non-null answers, every size)
SortedSeqs == {ps \in UNION {[1..k -> Addrs] : k \in 0..3} : \A i \in 1..(Len(ps) - 1) : ps[i] <= ps[i + 1]}
ASSUME BurstLaw == \A ps \in SortedSeqs, s \in Sizes \ {0} : AdjacentDisjoint(ps, s) <=> PairwiseDisjointSeq(ps, s)
\* a burst is allowed exactly when its answers, given one after the other with all earlier ones still held, are allowed
BurstAgrees ==
  \A s \in Sizes, al \in Aligns : \A ps \in {q \in SortedSeqs : Len(q) = 2} :
     BurstAnswersOK(s, al, ps) <=>
        /\ AnswerOK(s, al, ps[1]) /\ AnswerOK(s, al, ps[2]) /\ ps[1] # 0 /\ ps[2] # 0
        /\ Disjoint(ps[1], s, ps[2], s)

\* a step touches only cells of the block it allocates or frees
Touched == UNION ({Cells(live'[h]) : h \in LiveSet' \ LiveSet} \cup {Cells(live[h]) : h \in LiveSet \ LiveSet'})
FrameOK == [][\A a \in Addrs : mem'[a] # mem[a] => a \in Touched]_mvars

\* positive control (must be refuted): new blocks only on cells never used before
NoReuseStep == [][\A h \in LiveSet' \ LiveSet : \A a \in Cells(live'[h]) : mem[a] = 0]_mvars
===============================================================================
