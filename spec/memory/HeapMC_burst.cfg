SPECIFICATION MSpec
CONSTANTS
  MaxLive = 2
  None = None
  IsNull <- IntIsNull
  IsZero <- IntIsZero
  Aligned <- IntAligned
  End <- IntEnd
  InSpace <- IntInSpace
  LEA <- IntLEA
  ChurnSlackKb = 0
  Top = 5
  Sizes = {0, 1, 2}
  Aligns = {1, 2, 4}
  Policy = "contract"
  Scribble = "zero"
INVARIANTS TypeOK BurstAgrees
