SPECIFICATION GSpec
CONSTANTS
  NObj = 2
  ObjType <- GenObjTypeDD
  NSlot = 2
  SlotType <- GenSlotTypeBB
  MaxExplicit = 0
  Policy <- GenPolicy
  Layout <- GenLayout
  MemberTypes <- MembersDerived
INVARIANTS TypeOK Conservation AliveIffReferenced NoDangling StaticTypes
PROPERTIES GLastAgrees
VIEW GView
