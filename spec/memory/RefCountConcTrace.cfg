SPECIFICATION TSpec
INVARIANTS RefsNonNegative
POSTCONDITION Post
CHECK_DEADLOCK FALSE
