SPECIFICATION SpecH
CONSTANTS
  NObj = 2
  ObjType <- MCObjType
  NSlot = 3
  SlotType <- MCSlotType3
  MaxExplicit = 1
  Policy <- PolicyAny
  Layout = "multi"
  MemberTypes <- MembersNone
  MaxBirths = 2
INVARIANTS TypeOK Conservation AliveIffReferenced NoDangling StaticTypes DestroyedExactlyOnce
PROPERTIES DiesAtLastRelease EqualIffSameObject StepRecord
CONSTRAINT BirthBound
VIEW View
