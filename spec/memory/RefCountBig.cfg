SPECIFICATION Spec
CONSTANTS
  Big = TRUE
INVARIANTS TypeOK AliveIffReferenced LastAgrees
PROPERTIES JumpIsExact
