SPECIFICATION TSpec
CONSTANTS
  MaxLive = 32
  None = None
  IsNull <- LIsNull
  IsZero <- LIsZero
  Aligned <- LAligned
  End <- LEnd
  InSpace <- LInSpace
  LEA <- LLEA
  ChurnSlackKb = 65536
INVARIANTS AllAligned
POSTCONDITION Post
CHECK_DEADLOCK FALSE
