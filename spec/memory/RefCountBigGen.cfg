SPECIFICATION GSpec
CONSTANTS
  Big = FALSE
INVARIANTS TypeOK AliveIffReferenced
PROPERTIES GLastAgrees
VIEW GView
