SPECIFICATION GSpec
CONSTANTS
  Big = TRUE
INVARIANTS TypeOK AliveIffReferenced
PROPERTIES GLastAgrees
VIEW GView
