SPECIFICATION SpecD
CONSTANTS
  NW = 2
  NV = 1
  NA = 0
  Kinds = {"ArrayView", "OwnedArray", "FixedArray", "FixedArrayView"}
  Modes = {"default", "src", "ptr", "wptr", "size", "copy", "move", "fview"}
  Acts = {"Construct", "Assign", "Reset", "ResetPtr", "Resize", "Write", "Destroy", "SrcMake", "SrcWrite", "SrcResize", "SrcDestroy"}
  Sizes = {0, 1, 2}
  MaxLen = 2
  ArrLen = 2
  PtrSel = "few"
  Palettes = {0}
  Sym = TRUE
  Excl = {}
  Variant = "owned_copy_aliases"
  K = 5
INVARIANTS TypeOK InBounds OwningNeverDangles OwnedExclusive FixedIndependent LiveBlocksOwned LastAgrees
PROPERTIES OwnersUntouchedBySources OwnersUntouchedByOthers
CONSTRAINT DepthBound
