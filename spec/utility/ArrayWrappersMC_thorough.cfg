SPECIFICATION SpecD
CONSTANTS
  NW = 2
  NV = 1
  NA = 1
  Kinds = {"ArrayView", "OwnedArray", "FixedArray", "FixedArrayView"}
  Modes = {"default", "src", "ptr", "wptr", "size", "copy", "move", "fview"}
  Acts = {"Construct", "Assign", "Reset", "ResetPtr", "Resize", "Write", "Destroy", "SrcMake", "SrcWrite", "SrcResize", "SrcDestroy", "SelfAssign", "SelfPtr", "SelfVal", "EdgeEmpty"}
  Sizes = {0, 1, 2}
  MaxLen = 2
  ArrLen = 2
  PtrSel = "all"
  Palettes = {0}
  Sym = TRUE
  Excl = {}
  Variant = "contract"
  K = 4
INVARIANTS TypeOK InBounds OwningNeverDangles OwnedExclusive FixedIndependent LiveBlocksOwned LastAgrees
PROPERTIES OwnersUntouchedBySources OwnersUntouchedByOthers
CONSTRAINT DepthBound
