CONSTANTS
  AllBytes = FALSE
