----------------------------- MODULE ObserversMC -----------------------------
(* Model-checking instance of Observers: adds the history of all calls and    *)
(* checks, after every history up to length K, that the operational state is  *)
(* what the DECLARATIVE reading of property C19 says:                         *)
(*                                                                            *)
(*   wasNotified() of a living observer b is TRUE  iff  b's observable has    *)
(*   not been destroyed since b was created, and there is a Notify of that    *)
(*   observable later than both b's creation and b's latest poll.             *)
(*                                                                            *)
(* The reading is a predicate over the history alone; the state variables of  *)
(* Observers are not used in it.                                              *)
EXTENDS Observers

CONSTANT K                      \* history length bound
VARIABLE hist
varsH == <<oalive, balive, att, pending, last, hist>>

InitH == Init /\ hist = <<>>
NextH == Next /\ hist' = Append(hist, [a |-> last'.a, arg |-> last'.arg])
SpecH == InitH /\ [][NextH]_varsH

MaxOf(S) == CHOOSE x \in S : \A y \in S : y <= x

\* ---- declarative reading over a history h ---------------------------------
Creations(h, b) == {i \in DOMAIN h : h[i].a = "CreateObserver" /\ h[i].arg.b = b}
Born(h, b)      == MaxOf(Creations(h, b))
Target(h, b)    == h[Born(h, b)].arg.o
AliveNow(h, b)  == /\ Creations(h, b) # {}
                   /\ ~\E i \in DOMAIN h : i > Born(h, b) /\ (h[i].a = "Teardown" \/ (h[i].a = "DestroyObserver" /\ h[i].arg.b = b))
PollsOf(h, b)   == {i \in DOMAIN h : i > Born(h, b) /\ (h[i].a = "PollAll" \/ (h[i].a = "Poll" /\ h[i].arg.b = b))}
Since(h, b)     == IF PollsOf(h, b) = {} THEN Born(h, b) ELSE MaxOf(PollsOf(h, b))
Orphaned(h, b)  == \E i \in DOMAIN h : i > Born(h, b) /\ (h[i].a = "Teardown" \/ (h[i].a = "DestroyObservable" /\ h[i].arg.o = Target(h, b)))
ShouldReport(h, b) ==
  /\ AliveNow(h, b)
  /\ ~Orphaned(h, b)
  /\ \E i \in DOMAIN h : i > Since(h, b) /\ h[i].a = "Notify" /\ h[i].arg.o = Target(h, b)

SubjectAlive(h, o) ==
  LET C == {i \in DOMAIN h : h[i].a = "CreateObservable" /\ h[i].arg.o = o} IN
  /\ C # {}
  /\ ~\E i \in DOMAIN h : i > MaxOf(C) /\ (h[i].a = "Teardown" \/ (h[i].a = "DestroyObservable" /\ h[i].arg.o = o))

Front(h) == SubSeq(h, 1, Len(h) - 1)

\* ---- invariants -----------------------------------------------------------
\* the operational model agrees with the declarative reading after every history
AgreesWithHistory ==
  /\ \A o \in Subjects : oalive[o] = SubjectAlive(hist, o)
  /\ \A b \in Watchers : balive[b] = AliveNow(hist, b)
  /\ \A b \in Watchers : balive[b] => (Reports(b) = ShouldReport(hist, b))

\* what a poll returned is what the history before it demands
PollReturnsDeclared ==
  /\ last.a = "Poll" => last.exp.ret = ShouldReport(Front(hist), last.arg.b)
  /\ last.a = "PollAll" =>
       \A b \in Watchers : last.exp.ret[b] = (IF ~AliveNow(Front(hist), b) THEN -1
                                               ELSE IF ShouldReport(Front(hist), b) THEN 1 ELSE 0)

\* independently per observer: a poll of b changes what no other observer is going to report;
\* a second poll without a notification in between reports FALSE (each notification is seen once)
Independent ==
  [][ /\ last'.a = "Poll" => \A c \in Watchers \ {last'.arg.b} : balive[c] => (Reports(c)' = Reports(c))
      /\ last'.a \in {"Poll", "PollAll"} => \A c \in Watchers : balive[c] /\ (last'.a = "PollAll" \/ c = last'.arg.b) => ~Reports(c)'
    ]_varsH

HistBound == Len(hist) <= K
View == <<oalive, balive, att, pending, hist>>
===============================================================================
