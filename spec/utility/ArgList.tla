------------------------------- MODULE ArgList -------------------------------
(* Reference meaning of rkcommon::utility::ArgumentList, ArgumentsParser::    *)
(* parseAndRemove and rkcommon::removeArgs (property C18, fourth sentence):   *)
(* after any sequence of removals / parser passes the list holds exactly the  *)
(* unconsumed arguments in their original order.                              *)
(*                                                                            *)
(* State: args, the argument vector still in the list (argv[0] already        *)
(* dropped).  A parser is given by cnt: symbol -> number of arguments it      *)
(* consumes when tryConsume() is called on an argument equal to that symbol   *)
(* (0 = not one of ours; the count includes the flag itself and is clipped to *)
(* what is left in the list, a parser cannot consume what is not there).      *)
(* `last` carries the action, its arguments and the observables after it.     *)
EXTENDS Integers, Sequences, FiniteSets, TLC

CONSTANTS Syms,       \* argument universe (strings)
          MaxLen,     \* longest argument vector constructed
          MaxCnt,     \* largest count a parser returns
          ReConstruct \* TRUE: a new list may be constructed at any time (trace validation)

VARIABLES args, made, last
vars == <<args, made, last>>

Proj(v) == [size |-> Len(v), empty |-> (Len(v) = 0), items |-> v]
Vectors == UNION {[1..k -> Syms] : k \in 0..MaxLen}
Parsers == [Syms -> 0..MaxCnt]

Min2(a, b) == IF a <= b THEN a ELSE b

\* Declarative reading of one parser pass over the ORIGINAL vector v: scan left
\* to right; an argument the parser recognises consumes itself and the next
\* cnt-1 arguments, scanning resumes behind them; everything else is kept.
RECURSIVE Kept(_, _, _)
Kept(v, cnt, i) ==
  IF i > Len(v) THEN <<>>
  ELSE LET c == Min2(cnt[v[i]], Len(v) - i + 1) IN
       IF c = 0 THEN <<v[i]>> \o Kept(v, cnt, i + 1) ELSE Kept(v, cnt, i + c)

\* positions of v consumed by that pass (for the laws)
RECURSIVE ConsumedPos(_, _, _)
ConsumedPos(v, cnt, i) ==
  IF i > Len(v) THEN {}
  ELSE LET c == Min2(cnt[v[i]], Len(v) - i + 1) IN
       IF c = 0 THEN ConsumedPos(v, cnt, i + 1) ELSE (i..(i + c - 1)) \cup ConsumedPos(v, cnt, i + c)

\* the largest number of arguments one tryConsume() call of that pass consumes (0: nothing is consumed)
RECURSIVE MaxTaken(_, _, _)
MaxTaken(v, cnt, i) ==
  IF i > Len(v) THEN 0
  ELSE LET c == Min2(cnt[v[i]], Len(v) - i + 1)
           r == MaxTaken(v, cnt, IF c = 0 THEN i + 1 ELSE i + c)
       IN IF c > r THEN c ELSE r

\* input classes (signatures): one finding covers one family of calls
RemoveCls(h)      == IF h = 0 THEN "h=0" ELSE IF h = 1 THEN "h=1" ELSE "h>1"
ParseCls(v, cnt)  == LET t == MaxTaken(v, cnt, 1) IN IF t = 0 THEN "taken=0" ELSE IF t = 1 THEN "taken=1" ELSE "taken>1"

RemoveAt(v, w, h) == SubSeq(v, 1, w) \o SubSeq(v, w + h + 1, Len(v))    \* w is 0-based

Init == args = <<>> /\ made = FALSE /\ last = [a |-> "Init", arg |-> <<>>, cls |-> "", exp |-> Proj(<<>>)]

\* ArgumentList(ac, av) with av = <<program name>> \o v
Construct(v) ==
  /\ ReConstruct \/ ~made
  /\ args' = v /\ made' = TRUE
  /\ last' = [a |-> "Construct", arg |-> [v |-> v], cls |-> "", exp |-> Proj(v)]

\* operator[](i), 0-based, in range
Get(i) ==
  /\ made /\ i < Len(args)
  /\ UNCHANGED <<args, made>>
  /\ last' = [a |-> "Get", arg |-> [i |-> i], cls |-> "", exp |-> [ret |-> args[i + 1]] @@ Proj(args)]

\* remove(where, howMany) / removeArgs(ac, av, where, howMany), in range
Remove(w, h) ==
  /\ made /\ w + h <= Len(args)
  /\ args' = RemoveAt(args, w, h) /\ UNCHANGED made
  /\ last' = [a |-> "Remove", arg |-> [w |-> w, h |-> h], cls |-> RemoveCls(h),
              \* remove(where) is remove(where, 1): the driver performs the one-argument call on a copy
              exp |-> (IF h = 1 THEN [items_default |-> args'] ELSE <<>>) @@ Proj(args')]

\* parseAndRemove(list) with the parser cnt
ParseAndRemove(cnt) ==
  /\ made
  /\ args' = Kept(args, cnt, 1) /\ UNCHANGED made
  /\ last' = [a |-> "ParseAndRemove", arg |-> [cnt |-> cnt], cls |-> ParseCls(args, cnt), exp |-> Proj(args')]

Next ==
  \/ \E v \in Vectors : Construct(v)
  \/ \E i \in 0..(MaxLen - 1) : Get(i)
  \/ \E w \in 0..MaxLen, h \in 0..MaxLen : Remove(w, h)
  \/ \E cnt \in Parsers : ParseAndRemove(cnt)

Spec == Init /\ [][Next]_vars

TypeOK     == args \in Seq(Syms) /\ Len(args) <= MaxLen
LastAgrees == last.exp.items = args /\ last.exp.size = Len(args) /\ last.exp.empty = (args = <<>>)
===============================================================================
