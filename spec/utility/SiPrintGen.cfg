
