----------------------------- MODULE SiPrintGen -----------------------------
(* Law checking and input generation for SiPrint (property C18).              *)
(* prettyDouble: +/- m * 10^e with m from a digit set (incl. mantissas just   *)
(* below / at / above the 999.95 rounding point) and every e for which the    *)
(* magnitude lies in 1e-15 .. 1e21: every decade, both sides of every suffix  *)
(* boundary, both signs; +0 and -0.                                           *)
(* prettyNumber: counts over the whole size_t range as base-10^9 limbs: 0,    *)
(* the small ones, 10^k - 1 / 10^k / 10^k + 1 for every suffix boundary, the  *)
(* m * 10^e grid, powers of two up to SIZE_MAX.                               *)
(* The results are specified by a law, so no expected value is emitted: the   *)
(* driver's observations go back to TLC (C18Validate).                        *)
EXTENDS SiPrint, TLC, Json, IOUtils, SequencesExt

Mants == {1, 2, 5, 15, 25, 999, 1001, 9999, 99994, 99995, 99996, 99994999, 99995001}
Exps  == -24..21
Mags  == {p \in Mants \X Exps : InRange(p[1], p[2])}
Inputs == {Inp(n, p[1], p[2]) : n \in BOOLEAN, p \in Mags}
Zeros  == {Inp(FALSE, 0, 0), Inp(TRUE, 0, 0)}

Nines(k) == P10(k) - 1
Counts ==
     {<<0, 0, c>> : c \in {0, 1, 2, 9, 10, 99, 100, 999, 1000, 1001, 999949, 999950, 999999, 1000000, 1000001,
                           Nines(9),
                           127, 128, 129, 255, 256, 257, 511, 512, 513, 1023, 1024, 1025, 4095, 4096, 4097,     \* widths of hidden counters
                           32767, 32768, 32769, 65535, 65536, 65537, 16777215, 16777216, 16777217}}              \* ... 2^15, 2^16, 2^24 (float)
\cup {<<0, 1, 0>>, <<0, 1, 1>>, <<0, 2, 147483647>>, <<0, 2, 147483648>>, <<0, 4, 294967295>>, <<0, 4, 294967296>>,        \* 10^9, 10^9+1, 2^31, 2^32-1, 2^32
      <<0, 2, 147483649>>, <<0, 4, 294967297>>,                                                        \* 2^31+1, 2^32+1
      <<0, 9007199, 254740991>>, <<0, 9007199, 254740992>>, <<0, 9007199, 254740993>>,                \* 2^53-1, 2^53, 2^53+1 (double)
      <<0, 999, Nines(9)>>, <<0, 1000, 0>>, <<0, 1000, 1>>,                                           \* around 10^12
      <<0, 999999, Nines(9)>>, <<0, 1000000, 0>>, <<0, 1000000, 1>>,                                  \* around 10^15
      <<0, Nines(9), Nines(9)>>, <<1, 0, 0>>, <<1, 0, 1>>,                                            \* around 10^18
      <<0, 999949999, Nines(9)>>, <<0, 999950000, 0>>,                                                \* 999.95 P rounding point
      <<9, 223372036, 854775807>>, <<9, 223372036, 854775808>>,                                       \* 2^63 - 1, 2^63
      <<10, 0, 0>>, <<18, 0, 0>>, <<18, 446744073, 709551614>>, <<18, 446744073, 709551615>>}         \* 10^19 ... SIZE_MAX
\cup {ToLimbs(p[1], p[2]) : p \in {q \in Mags : q[1] < 1000000 /\ q[2] >= 0 /\ Decade(q[1], q[2]) <= 18}}

ASSUME LawsSi == \A x \in Inputs : SiLaws(x)
ASSUME EveryBand == \A i \in DOMAIN Sufs, n \in BOOLEAN : \E x \in Inputs : BandIdx(x.m, x.e) = i /\ x.neg = n
ASSUME CountsValid == \A L \in Counts : ValidCount(L)
\* Lead keeps value and band: a count of at most nine digits is exact, and printing in the own band is admissible
ASSUME LawsCount == \A L \in Counts :
          LET x == Lead(L) IN
          /\ (L[1] = 0 /\ L[2] = 0 => x.m = L[3] /\ x.e = 0 /\ ~x.more)
          /\ (x.m # 0 => x.m >= 100000000 \/ x.e = 0)
          /\ (x.m # 0 => Admissible(x, RefObs(x, OwnBand(x))) \/ Admissible(x, RefObs(x, OwnBand(x) + 1)))
ASSUME ToLimbsRoundTrip == \A p \in {q \in Mags : q[1] < 1000000 /\ q[2] >= 0 /\ Decade(q[1], q[2]) <= 18} :
          LET x == Lead(ToLimbs(p[1], p[2])) IN ~x.more /\ Decade(x.m, x.e) = Decade(p[1], p[2])

NoExp == [ran |-> TRUE]
Cases ==
     {[a |-> "PrettyDouble", arg |-> [neg |-> x.neg, m |-> x.m, e |-> x.e], cls |-> Class(x), exp |-> NoExp] : x \in Inputs \cup Zeros}
\cup {[a |-> "PrettyNumber", arg |-> [limbs |-> L], cls |-> Class(Lead(L)), exp |-> NoExp] : L \in Counts}

ASSUME Emit == ndJsonSerialize(IOEnv.OUT, SetToSeq(Cases))
===============================================================================
