----------------------------- MODULE SiPrintGen -----------------------------
(* Law checking and input generation for SiPrint (property C18).              *)
(* Inputs m * 10^e with m from a digit set and every e for which the value    *)
(* lies in 1e-15 .. 1e21 (prettyDouble) resp. is an integer below 1e19        *)
(* (prettyNumber): every decade, both sides of every suffix boundary.  The    *)
(* results are specified by a law, so no expected value is emitted: the       *)
(* driver's observations go back to TLC (C18Validate).                        *)
EXTENDS SiPrint, TLC, Json, IOUtils, SequencesExt

Mants == {1, 2, 5, 15, 999, 1001, 9999, 99994, 99996}
Exps  == -20..21
Inputs == {p \in Mants \X Exps : InRange(p[1], p[2])}

ASSUME LawsSi == \A p \in Inputs : SiLaws(p[1], p[2])
ASSUME EveryBand == \A i \in DOMAIN Sufs : \E p \in Inputs : BandIdx(p[1], p[2]) = i

NoExp == [ran |-> TRUE]
Cases ==
     {[a |-> "PrettyDouble", arg |-> [m |-> p[1], e |-> p[2]], cls |-> Class(p[1], p[2]), exp |-> NoExp] : p \in Inputs}
\cup {[a |-> "PrettyNumber", arg |-> [m |-> p[1], e |-> p[2]], cls |-> Class(p[1], p[2]), exp |-> NoExp]
        : p \in {q \in Inputs : IsCount(q[1], q[2])}}

ASSUME Emit == ndJsonSerialize(IOEnv.OUT, SetToSeq(Cases))
===============================================================================
