SPECIFICATION SpecS
CONSTANTS
  NT = 3
  NU = 1
  NA = 2
  Throwing = FALSE
  WithMake = TRUE
  Vals = {1, 2, 3}
  L = 200
INVARIANTS Emit
CHECK_DEADLOCK FALSE
