INIT Init
NEXT Stop
CONSTANTS
  Syms = {"a", "b", "c"}
  MaxLen = 4
  MaxCnt = 3
  ReConstruct = FALSE
  Sizes = {85, 86, 128, 342}
  BigSizes = {127, 128, 2048}
