--------------------------- MODULE StampCellsTrace ---------------------------
(* Trace specification: is a recorded single-threaded execution of real       *)
(* TimeStamp objects a behaviour of StampCells, AND do the values the objects *)
(* really carried realise it?  Each line {a, arg, obs} must be the next       *)
(* action of the specification with those arguments; obs.ranks / obs.newmax   *)
(* must equal what the specification computes; and the logged values          *)
(* obs.vals (size_t as two limbs, base 2^30; <<-1,0>> for a cell that is not  *)
(* read) must satisfy the statement literally:                                *)
(*   creation / renewal   the cell's value is above `hi`, the largest value   *)
(*                        seen so far in this execution (so it is new and     *)
(*                        larger than every value obtained before)            *)
(*   copy / move          the destination's value is the value the source     *)
(*                        carried before the step                             *)
(*   always               every other readable cell carries what it carried   *)
(* A refused action ({"skipped": true}) is accepted only if the action's      *)
(* guard is false in the specification's state.                               *)
EXTENDS StampCells, Json, IOUtils, TLCExt

VARIABLES l, hi, conc
tvars == <<cell, n, last, l, hi, conc>>

TraceLines == ndJsonDeserialize(IOEnv.TRACE)
NL == Len(TraceLines)
Line == TraceLines[l]
A == Line.a
Skipped == "skipped" \in DOMAIN Line.obs

Base == 1073741824
Below == <<-1, 0>>
IsValue(v) == DOMAIN v = 1..2 /\ v[1] >= 0 /\ v[2] >= 0 /\ v[2] < Base
Less(a, b) == a[1] < b[1] \/ (a[1] = b[1] /\ a[2] < b[2])

ObsMatches == \A f \in DOMAIN last'.exp : f \in DOMAIN Line.obs /\ Line.obs[f] = last'.exp[f]

Dispatch ==
  \/ A = "Create" /\ Create(Line.arg.s)
  \/ A = "Renew" /\ Renew(Line.arg.s)
  \/ A = "Destroy" /\ Destroy(Line.arg.s)
  \/ A = "CopyCtor" /\ CopyCtor(Line.arg.s, Line.arg.t)
  \/ A = "MoveCtor" /\ MoveCtor(Line.arg.s, Line.arg.t)
  \/ A = "CopyAssign" /\ CopyAssign(Line.arg.s, Line.arg.t)
  \/ A = "MoveAssign" /\ MoveAssign(Line.arg.s, Line.arg.t)

Guard ==
  CASE A = "Create" -> CanCreate(Line.arg.s)
    [] A = "Renew" -> CanRenew(Line.arg.s)
    [] A = "Destroy" -> CanDestroy(Line.arg.s)
    [] A \in {"CopyCtor", "MoveCtor"} -> CanCopyCtor(Line.arg.s, Line.arg.t)
    [] A \in {"CopyAssign", "MoveAssign"} -> CanAssign(Line.arg.s, Line.arg.t)
    [] OTHER -> TRUE

Vals == Line.obs.vals
ValuesRealise ==
  /\ DOMAIN Vals = Cells
  /\ \A u \in Cells : IF cell'[u] > 0 THEN IsValue(Vals[u]) ELSE Vals[u] = Below
  /\ IF A \in {"Create", "Renew"}
       THEN /\ Less(hi, Vals[Line.arg.s]) /\ hi' = Vals[Line.arg.s]
            /\ \A u \in Cells \ {Line.arg.s} : cell'[u] > 0 => Vals[u] = conc[u]
       ELSE /\ hi' = hi
            /\ IF A \in {"CopyCtor", "MoveCtor", "CopyAssign", "MoveAssign"}
                 THEN /\ cell'[Line.arg.s] > 0 => Vals[Line.arg.s] = conc[Line.arg.t]
                      /\ \A u \in Cells \ {Line.arg.s} : cell'[u] > 0 => Vals[u] = conc[u]
                 ELSE \A u \in Cells : cell'[u] > 0 => Vals[u] = conc[u]
  /\ conc' = [u \in Cells |-> IF cell'[u] > 0 THEN Vals[u] ELSE Below]

TInit == Init /\ l = 1 /\ hi = Below /\ conc = [u \in Cells |-> Below]

TStep  == l <= NL /\ A # "Reset" /\ ~Skipped /\ Dispatch /\ last'.a = A /\ ObsMatches /\ ValuesRealise /\ l' = l + 1
TSkip  == l <= NL /\ A # "Reset" /\ Skipped /\ ~Guard /\ UNCHANGED <<cell, n, last, hi, conc>> /\ l' = l + 1
\* a new execution (possibly another process): nothing is known about earlier values
TReset == /\ l <= NL /\ A = "Reset"
          /\ cell' = [s \in Cells |-> Empty] /\ n' = 0
          /\ last' = [a |-> "Init", arg |-> <<>>, cls |-> "", exp |-> [newmax |-> FALSE] @@ Proj([s \in Cells |-> Empty])]
          /\ conc' = [u \in Cells |-> Below] /\ hi' = Below
          /\ l' = l + 1
TNext  == TStep \/ TSkip \/ TReset
TSpec  == TInit /\ [][TNext]_tvars

Accepted == TLCGet("stats").diameter - 1 = NL
Post == IF Accepted THEN TRUE
        ELSE /\ PrintT(<<"TRACE-REJECTED-AT-LINE", TLCGet("stats").diameter, "OF", NL>>)
             /\ FALSE
===============================================================================
