---------------------------- MODULE FileNamesGen ----------------------------
(* Law checking and case generation for FileNames (property C18).             *)
(* All paths of length <= N over {a, ".", "/"}: dots in directories, hidden   *)
(* files, trailing separators, no extension.                                  *)
(* Expected values are emitted for inputs without trailing separator (the     *)
(* file name is then the input itself); what the constructor makes of a       *)
(* trailing separator is not stated, those inputs are run and checked through *)
(* the observed str() by C18Validate.                                         *)
EXTENDS FileNames, TLC, Json, IOUtils, SequencesExt

CONSTANT N

Paths  == StrUpTo({"a", DOT, SEP}, N)
Exts   == {<<>>, <<DOT, "a">>}
\* right operands of operator+: plain, with dots, hidden, with a directory; empty, separator only, leading / trailing separator
Others == {<<"a">>, <<"a", DOT, "a">>, <<"a", SEP, "a">>, <<DOT, "a">>,
           <<>>, <<SEP>>, <<SEP, "a">>, <<"a", SEP>>}
\* ... whose joined result is determined by the statement (the others depend on how separators are normalised:
\* they are executed, and judged through the observed strings by C18Validate)
ExactRight(g) == g # <<>> /\ g[1] # SEP /\ g[Len(g)] # SEP

ASSUME LawsFile == \A f \in Paths : FileLaws(f)

Normal(f) == StripSep(f) = f
NoExp == [ran |-> TRUE]     \* nothing constrained: the case is only executed
J(s) == Join(s)

\* both overloads (FileName / std::string right operand) give JoinNames; path() / base() are those of the result
PlusExp(f, g) ==
  IF Normal(f) /\ ExactRight(g)
  THEN LET r == JoinNames(f, g) IN [res_fn |-> J(r), res_str |-> J(r), path |-> J(PathOf(r)), base |-> J(BaseOf(r)),
                                    eq |-> (f = g), ne |-> (f # g)]            \* == and != of the two operands: equality of the names
  ELSE NoExp

CasesOf(f) ==
  LET b == BaseOf(f)
      c == Cls(f) \o (IF Normal(f) THEN "" ELSE ",trailsep")
      det == Normal(f) /\ ~Special(b)       \* name / ext determined by the statement
  IN
     {[a |-> "FnSplit", arg |-> [s |-> J(f)], cls |-> c,
       exp |-> IF Normal(f) THEN [str |-> J(f), str_c |-> J(f), conv |-> J(f), cstr |-> J(f),      \* both constructors, both conversions
                                  streamed |-> J(f), eq_self |-> TRUE, ne_self |-> FALSE,        \* operator<<, ==, != on two constructions
                                  path |-> J(PathOf(f)), base |-> J(b)] ELSE NoExp]}
\cup {[a |-> "FnNameExt", arg |-> [s |-> J(f)], cls |-> c,
       exp |-> IF det THEN [name |-> J(NameOf(f)), ext |-> J(ExtOf(f))] ELSE NoExp]}
\cup {[a |-> "FnDropExt", arg |-> [s |-> J(f)], cls |-> c,
       exp |-> IF det THEN [res |-> J(DropExt(f))] ELSE NoExp]}
\cup {[a |-> "FnSetExt", arg |-> [s |-> J(f), x |-> J(x)], cls |-> c,
       exp |-> IF ~det THEN NoExp
               ELSE IF x = <<>> THEN [res |-> J(SetExt(f, x)), res_default |-> J(SetExt(f, x))]      \* setExt() = setExt("")
               ELSE [res |-> J(SetExt(f, x))]] : x \in Exts}
\cup {[a |-> "FnAddExt", arg |-> [s |-> J(f), x |-> J(x)], cls |-> c,
       exp |-> IF ~Normal(f) THEN NoExp
               ELSE IF x = <<>> THEN [res |-> J(AddExt(f, x)), res_default |-> J(AddExt(f, x))]      \* addExt() = addExt("")
               ELSE [res |-> J(AddExt(f, x))]] : x \in Exts}
\cup {[a |-> "FnPlus", arg |-> [s |-> J(f), o |-> J(g)], cls |-> PlusCls(StripSep(f), g), exp |-> PlusExp(f, g)] : g \in Others}
\cup {[a |-> "FnRecompose", arg |-> [s |-> J(f)], cls |-> RecomposeCls(StripSep(f)),
       \* FileName(path()) + base(), with either overload, is the name again
       \* (names with separator runs or directly under the root: judged up to SameName by C18Validate)
       exp |-> IF Normal(f) /\ Collapse(f) = f /\ RecomposeCls(f) # "path=root" THEN [res_fn |-> J(f), res_str |-> J(f)] ELSE NoExp]}

\* the default-constructed (empty) name as left operand
DefaultLeft == {[a |-> "FnPlus", arg |-> [s |-> "", o |-> J(g), dflt |-> TRUE], cls |-> PlusCls(<<>>, g), exp |-> PlusExp(<<>>, g)] : g \in Others}

Cases == UNION {CasesOf(f) : f \in Paths} \cup DefaultLeft

\* vacuity: the case set contains empty left operands (by "", by separators only) and single-component names
ASSUME \E f \in Paths : f = <<>>
ASSUME \E f \in Paths : f # <<>> /\ AllSeps(f)
ASSUME \E f \in Paths : Normal(f) /\ f # <<>> /\ PathOf(f) = <<>> /\ Special(BaseOf(f))

ASSUME Emit == ndJsonSerialize(IOEnv.OUT, SetToSeq(Cases))
===============================================================================
