---------------------------- MODULE FileNamesGen ----------------------------
(* Law checking and case generation for FileNames (property C18).             *)
(* All paths of length <= N over {a, ".", "/"}: dots in directories, hidden   *)
(* files, trailing separators, no extension.                                  *)
(* Expected values are emitted for inputs without trailing separator (the     *)
(* file name is then the input itself); what the constructor makes of a       *)
(* trailing separator is not stated, those inputs are run and checked through *)
(* the observed str() by C18Validate.                                         *)
EXTENDS FileNames, TLC, Json, IOUtils, SequencesExt

CONSTANT N

Paths  == StrUpTo({"a", DOT, SEP}, N)
Exts   == {<<>>, <<DOT, "a">>}
Others == {<<"a">>, <<"a", DOT, "a">>, <<"a", SEP, "a">>}

ASSUME LawsFile == \A f \in Paths : FileLaws(f)

Normal(f) == StripSep(f) = f
NoExp == [ran |-> TRUE]     \* nothing constrained: the case is only executed
J(s) == Join(s)

CasesOf(f) ==
  LET b == BaseOf(f)
      c == Cls(f) \o (IF Normal(f) THEN "" ELSE ",trailsep")
      det == Normal(f) /\ ~Special(b)       \* name / ext determined by the statement
  IN
     {[a |-> "FnSplit", arg |-> [s |-> J(f)], cls |-> c,
       exp |-> IF Normal(f) THEN [str |-> J(f), path |-> J(PathOf(f)), base |-> J(b)] ELSE NoExp]}
\cup {[a |-> "FnNameExt", arg |-> [s |-> J(f)], cls |-> c,
       exp |-> IF det THEN [name |-> J(NameOf(f)), ext |-> J(ExtOf(f))] ELSE NoExp]}
\cup {[a |-> "FnDropExt", arg |-> [s |-> J(f)], cls |-> c,
       exp |-> IF det THEN [res |-> J(DropExt(f))] ELSE NoExp]}
\cup {[a |-> "FnSetExt", arg |-> [s |-> J(f), x |-> J(x)], cls |-> c,
       exp |-> IF det THEN [res |-> J(SetExt(f, x))] ELSE NoExp] : x \in Exts}
\cup {[a |-> "FnAddExt", arg |-> [s |-> J(f), x |-> J(x)], cls |-> c,
       exp |-> IF Normal(f) THEN [res |-> J(AddExt(f, x))] ELSE NoExp] : x \in Exts}
\cup {[a |-> "FnPlus", arg |-> [s |-> J(f), o |-> J(g)], cls |-> c,
       exp |-> IF Normal(f) /\ f # <<>>
               THEN [res |-> J(Plus(f, g)), path |-> J(f \o <<SEP>> \o PathOf(g)), base |-> J(BaseOf(g))] ELSE NoExp] : g \in Others}

Cases == UNION {CasesOf(f) : f \in Paths}

ASSUME Emit == ndJsonSerialize(IOEnv.OUT, SetToSeq(Cases))
===============================================================================
