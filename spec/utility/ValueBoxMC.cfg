SPECIFICATION SpecH
CONSTANTS
  NT = 2
  NU = 1
  NA = 1
  Vals = {1, 2}
  K = 3
INVARIANTS TypeOK WellFormed LastAgrees AgreesWithHistory Conservation
PROPERTIES RefProtocolLegalH IndependenceH CopiesEqualSourceH
CONSTRAINT HistBound
VIEW View
