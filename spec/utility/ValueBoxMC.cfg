SPECIFICATION SpecH
CONSTANTS
  NT = 2
  NU = 1
  NA = 1
  Throwing = TRUE
  WithMake = TRUE
  Vals = {1, 2}
  K = 3
INVARIANTS TypeOK WellFormed LastAgrees AgreesWithHistory Conservation
PROPERTIES RefProtocolLegalH IndependenceH CopiesEqualSourceH NothingGivenByThrowH
CONSTRAINT HistBound
VIEW View
