------------------------------ MODULE ImageWriters ------------------------------
(* Reference meaning of the image writers of rkcommon/utility/SaveImage.h       *)
(* (property C20, first sentence):                                              *)
(*                                                                              *)
(*   "For every image size and pixel content, writePPM, writePGM and each       *)
(*    writePFM variant produce a file with a correct header whose decoded       *)
(*    pixels equal the input (the channels that format selects; rows bottom-up  *)
(*    for PPM/PGM, as given for PFM), reading only the width x height pixels    *)
(*    they were given."                                                         *)
(*                                                                              *)
(* An input image is what the caller hands over: W*H pixels in memory order     *)
(* (row 0 first), every pixel PixComp(w) components; the specification works on *)
(* the flat 0-based component index  (r*W + c)*PixComp + k.  A written file is  *)
(* a header and a payload of W*H*OutComp(w) samples in file order (row 0 of the *)
(* file first); its flat 0-based sample index is (row*W + col)*OutComp + ch.    *)
(* The writer is specified by the *index map* from payload positions to input   *)
(* components:                                                                  *)
(*                                                                              *)
(*     decoded[row][col][ch] = input[SrcRow(row)][col][Sel(ch)]                 *)
(*                                                                              *)
(*   SrcRow  PPM / PGM store the image top-down while the caller's rows are     *)
(*           bottom-up, so file row `row` is input row H-1-row; PFM rows are    *)
(*           written as given.                                                  *)
(*   Sel     a three- or four-channel file takes components 0..OutComp-1 of the *)
(*           pixel; a one-channel file takes the LAST component of the pixel    *)
(*           (alpha of an RGBA8 pixel for PGM, the only component of a float    *)
(*           pixel for the one-channel PFM).                                    *)
(*                                                                              *)
(* Component values are integer *codes* (TLC has no bytes or floats): for the   *)
(* uint32 RGBA8 formats a code is the byte value of component k of the pixel,   *)
(* (pixel >> 8k) & 255; for float formats code c stands for the float           *)
(* (c - 100) / 4, exactly representable.  The drivers' mapping is injective.    *)
EXTENDS Integers, Sequences, FiniteSets, TLC

Writers == {"writePPM", "writePGM", "writePFM_float", "writePFM_vec3f", "writePFM_vec3fa", "writePFM_vec4f"}

IsPNM(w) == w \in {"writePPM", "writePGM"}

\* components per input pixel as laid out in memory (vec3fa: x, y, z and one padding float)
PixComp(w) == CASE w = "writePPM" -> 4 [] w = "writePGM" -> 4 [] w = "writePFM_float" -> 1
                [] w = "writePFM_vec3f" -> 3 [] w = "writePFM_vec3fa" -> 4 [] w = "writePFM_vec4f" -> 4

\* samples per pixel in the file
OutComp(w) == CASE w = "writePPM" -> 3 [] w = "writePGM" -> 1 [] w = "writePFM_float" -> 1
                [] w = "writePFM_vec3f" -> 3 [] w = "writePFM_vec3fa" -> 3 [] w = "writePFM_vec4f" -> 4

Magic(w) == CASE w = "writePPM" -> "P6" [] w = "writePGM" -> "P5" [] w = "writePFM_float" -> "Pf"
              [] w = "writePFM_vec3f" -> "PF" [] w = "writePFM_vec3fa" -> "PF" [] w = "writePFM_vec4f" -> "PF4"

\* channels a reader derives from the magic number: must be what the writer stores per pixel
ChannelsOfMagic(mg) == CASE mg = "P5" -> 1 [] mg = "P6" -> 3 [] mg = "Pf" -> 1 [] mg = "PF" -> 3 [] mg = "PF4" -> 4

Sel(w, ch) == IF OutComp(w) = 1 THEN PixComp(w) - 1 ELSE ch
SelSet(w)  == {Sel(w, ch) : ch \in 0..(OutComp(w) - 1)}
SrcRow(w, H, row) == IF IsPNM(w) THEN H - 1 - row ELSE row

\* flat 0-based indices
InIdx(w, W, r, c, k)      == (r * W + c) * PixComp(w) + k
OutIdx(w, W, row, col, ch) == (row * W + col) * OutComp(w) + ch
SrcIdx(w, W, H, row, col, ch) == InIdx(w, W, SrcRow(w, H, row), col, Sel(w, ch))

InLen(w, W, H)  == W * H * PixComp(w)
OutLen(w, W, H) == W * H * OutComp(w)

Positions(w, W, H) == (0..(H - 1)) \X (0..(W - 1)) \X (0..(OutComp(w) - 1))

\* the decoded image the file must contain, for an input given as the flat sequence inp (1-based)
Decoded(w, W, H, inp) ==
  [row \in 1..H |-> [col \in 1..W |-> [ch \in 1..OutComp(w) |-> inp[SrcIdx(w, W, H, row - 1, col - 1, ch - 1) + 1]]]]

Header(w, W, H) ==
  IF IsPNM(w) THEN [magic |-> Magic(w), width |-> W, height |-> H, maxval |-> 255]
              ELSE [magic |-> Magic(w), width |-> W, height |-> H]

\* what the independent reader must find: the file is decodable (header tokens parse, the payload holds all
\* W*H*channels samples), the header fields, and the decoded samples (PFM samples decoded the way the header's
\* scale token says: byte order from its sign, multiplied by its magnitude)
Expected(w, W, H, inp) == [decodable |-> TRUE, pix |-> Decoded(w, W, H, inp)] @@ Header(w, W, H)

-------------------------------------------------------------------------------
\* Laws of the index map (checked by TLC for every writer and size before a case is emitted)

\* "reading only the width x height pixels they were given": every source index lies inside the input
InBounds(w, W, H) == \A p \in Positions(w, W, H) : SrcIdx(w, W, H, p[1], p[2], p[3]) \in 0..(InLen(w, W, H) - 1)

\* the payload linearisation is a bijection between positions and 0..OutLen-1
PayloadBijective(w, W, H) ==
  /\ \A p, q \in Positions(w, W, H) : OutIdx(w, W, p[1], p[2], p[3]) = OutIdx(w, W, q[1], q[2], q[3]) => p = q
  /\ {OutIdx(w, W, p[1], p[2], p[3]) : p \in Positions(w, W, H)} = 0..(OutLen(w, W, H) - 1)

\* "decoded pixels equal the input (the channels that format selects)": the index map is a bijection between the
\* payload positions and the selected components of the W x H input pixels - nothing selected is dropped, nothing
\* is stored twice, nothing else is stored
Selected(w, W, H) == {InIdx(w, W, r, c, k) : r \in 0..(H - 1), c \in 0..(W - 1), k \in SelSet(w)}
IndexMapBijective(w, W, H) ==
  /\ \A p, q \in Positions(w, W, H) : SrcIdx(w, W, H, p[1], p[2], p[3]) = SrcIdx(w, W, H, q[1], q[2], q[3]) => p = q
  /\ {SrcIdx(w, W, H, p[1], p[2], p[3]) : p \in Positions(w, W, H)} = Selected(w, W, H)

\* rows: bottom-up <-> top-down is an involution that maps the last input row to the first file row; PFM keeps rows
RowLaw(w, H) ==
  /\ \A r \in 0..(H - 1) : SrcRow(w, H, r) \in 0..(H - 1) /\ SrcRow(w, H, SrcRow(w, H, r)) = r
  /\ IsPNM(w)  => SrcRow(w, H, 0) = H - 1
  /\ ~IsPNM(w) => \A r \in 0..(H - 1) : SrcRow(w, H, r) = r

\* the header announces as many channels as the payload holds per pixel
HeaderLaw(w) == ChannelsOfMagic(Magic(w)) = OutComp(w) /\ SelSet(w) \subseteq 0..(PixComp(w) - 1)

IndexLaws(w, W, H) == InBounds(w, W, H) /\ PayloadBijective(w, W, H) /\ IndexMapBijective(w, W, H) /\ RowLaw(w, H) /\ HeaderLaw(w)

\* Negative control: the component selection as SaveImage.h writes it today (`N_COMP == 1 ? 3 : c`, i.e. component 3
\* whenever the file has one channel, whatever the pixel type).  It is the specified selection for RGBA8 -> PGM but not
\* for a one-component float pixel, where it leaves the input (InBounds fails) and shifts the data.
CodeSel(w, ch) == IF OutComp(w) = 1 THEN 3 ELSE ch
CodeSrcIdx(w, W, H, row, col, ch) == InIdx(w, W, SrcRow(w, H, row), col, CodeSel(w, ch))
CodeInBounds(w, W, H) == \A p \in Positions(w, W, H) : CodeSrcIdx(w, W, H, p[1], p[2], p[3]) \in 0..(InLen(w, W, H) - 1)
CodeAgrees(w, W, H)   == \A p \in Positions(w, W, H) : CodeSrcIdx(w, W, H, p[1], p[2], p[3]) = SrcIdx(w, W, H, p[1], p[2], p[3])

-------------------------------------------------------------------------------
\* Large images (sizes around internal block / buffer boundaries).  The pixel content is not shipped as a list: it is the
\* function Pix(pat, x, y, k) - the code of component k of the input pixel in column x of input row y - and a case carries only
\* the pattern id.  Strides are co-prime to the modulus and a second term changes every 251 columns / rows, so that a shift by
\* any number of columns, rows or channels changes values (PixLaws).  Codes stay in 0..250 (a byte; the float (c - 100) / 4).
\* Pattern 3 works modulo 256, so that every byte value 251..255 occurs as well.  Patterns 100 + v (v in 0..255) are the
\* *sweep* patterns for tiny images: component 0 of the first input pixel is v, so that over all v every byte value occurs at the
\* first and at the last position of rows and of the payload, whatever the flip and the channel selection.
Coef == << <<7, 13, 5, 3, 11, 0, 251>>, <<29, 3, 17, 1, 7, 100, 251>>, <<7, 13, 5, 3, 11, 0, 256>> >>
Patterns == DOMAIN Coef
SweepPatterns == 100..355
Pix(pat, x, y, k) ==
  IF pat \in SweepPatterns THEN ((pat - 100) + 64 * (x + 2 * y) + 13 * k) % 256
  ELSE LET a == Coef[pat] IN (a[1] * x + a[2] * y + a[3] * k + a[4] * (x \div 251) + a[5] * (y \div 251) + a[6]) % a[7]

\* the input as the flat component index sees it, and the decoded file through the SAME index map as for small images
InPix(w, W, pat, i) == Pix(pat, (i \div PixComp(w)) % W, i \div (PixComp(w) * W), i % PixComp(w))
DecodedAt(w, W, H, pat, row, col, ch) == InPix(w, W, pat, SrcIdx(w, W, H, row, col, ch))

\* a shift by one, by a block of 256 / 512 / 768 / 1024 / 2048 / 2049 columns or rows, or to another channel is visible
PixLaws == \A pat \in Patterns :
  /\ \A x \in 0..1100, y \in 0..2, k \in 0..3 : Pix(pat, x, y, k) \in 0..(Coef[pat][7] - 1)
  /\ \A d \in {1, 2, 3, 255, 256, 257, 512, 768, 1023, 1024, 1025, 2048, 2049} : \A x \in 0..2100 :
        /\ Pix(pat, x + d, 0, 0) # Pix(pat, x, 0, 0)
        /\ Pix(pat, 0, x + d, 0) # Pix(pat, 0, x, 0)
  /\ \A x \in 0..600, k1, k2 \in 0..3 : k1 # k2 => Pix(pat, x, 1, k1) # Pix(pat, x, 1, k2)
  /\ \A x \in 0..120, y \in 0..120 : x # y => Pix(pat, x, y, 0) # Pix(pat, y, x, 0)                     \* rows are not columns

\* positions compared sample by sample: both sides of every block boundary and both ends
Near(n) == {i \in (0..2) \cup (127..129) \cup (255..257) \cup (511..513) \cup (767..769) \cup (1022..1026) \cup (2046..2050) \cup (4094..4098)
                 \cup (65534..65538) \cup ((n - 3)..(n - 1)) : i >= 0 /\ i < n}
SampleRows(H) == IF H <= 3 THEN 0..(H - 1) ELSE Near(H)
SampleCols(W) == IF W <= 3 THEN 0..(W - 1) ELSE Near(W)

\* aggregates in which EVERY sample of a file row takes part: the sum and a position-weighted sum of the row's samples in file
\* order, modulo the prime 65521 (all intermediate values stay below 2^31)
Prime == 65521
RowVals(w, W, H, pat, row) == [i \in 1..(W * OutComp(w)) |-> DecodedAt(w, W, H, pat, row, (i - 1) \div OutComp(w), (i - 1) % OutComp(w))]
\* sweep patterns: the first input component runs through every byte value, and two sweep patterns never agree anywhere
SweepLaws == /\ \A v \in 0..255 : Pix(100 + v, 0, 0, 0) = v
             /\ \A x \in 0..1, y \in 0..1, k \in 0..3 : {Pix(100 + v, x, y, k) : v \in 0..255} = 0..255
             /\ \A p \in {<<x, y, k>> : x \in 0..1, y \in 0..1, k \in 0..3}, q \in {<<x, y, k>> : x \in 0..1, y \in 0..1, k \in 0..3} :
                   p # q => Pix(100, p[1], p[2], p[3]) # Pix(100, q[1], q[2], q[3])
===============================================================================
