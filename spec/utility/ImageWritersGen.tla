---------------------------- MODULE ImageWritersGen ----------------------------
(* Law checking and case generation for ImageWriters (property C20, images).   *)
(*                                                                             *)
(* Domain: all six writers x all sizes 1..3 x 1..3, 5x2, 1x7, 7x1 (plus a few  *)
(* larger sizes when Large = TRUE) x two ways of handing over the pixels       *)
(* (buf = exact: a heap block of exactly W*H pixels, so that any read outside  *)
(* the image is a sanitizer event; buf = padded: the image followed by guard   *)
(* pixels holding the code Sentinel, so that the decoded values are observable *)
(* even for a writer that reads outside the image).  The input holds pairwise  *)
(* distinct component codes, so a wrong row, column or channel is visible in   *)
(* every sample.  TLC first checks the laws of the index map on the whole      *)
(* domain, then emits one case per (writer, size, buf) with the header and the *)
(* decoded image the specification requires.                                   *)
EXTENDS ImageWriters, Json, IOUtils, SequencesExt

CONSTANT Large          \* BOOLEAN: add the larger sizes

Small  == ((1..3) \X (1..3)) \cup {<<5, 2>>, <<1, 7>>, <<7, 1>>}       \* <<width, height>>
Bigger == {<<16, 9>>, <<2, 33>>, <<33, 2>>, <<64, 3>>}
Sizes  == IF Large THEN Small \cup Bigger ELSE Small
Bufs   == {"exact", "padded"}
Sentinel == 255                                  \* code of the guard pixels' components; never an input code

\* input codes: injective on 0..250 (37 is a unit modulo the prime 251), bytes above 127 and negative floats included
Val(i) == (i * 37 + 11) % 251
Input(w, W, H) == [i \in 1..InLen(w, W, H) |-> Val(i - 1)]

ASSUME LawsHold == \A w \in Writers, s \in Sizes : IndexLaws(w, s[1], s[2])

\* the inputs discriminate: pairwise distinct codes (small sizes), never the sentinel
ASSUME InputsDistinct ==
  \A w \in Writers, s \in Small :
     LET inp == Input(w, s[1], s[2]) IN
       /\ \A i, j \in DOMAIN inp : inp[i] = inp[j] => i = j
       /\ \A i \in DOMAIN inp : inp[i] \in 0..250 /\ inp[i] # Sentinel
ASSUME \A w \in Writers, s \in Sizes : \A i \in 1..InLen(w, s[1], s[2]) : Val(i - 1) \in 0..250

\* hence the expected decoded image determines the index map: two different maps give two different images
ASSUME ExpectedDiscriminates ==
  \A w \in Writers, s \in Small :
     LET inp == Input(w, s[1], s[2])
         d == Decoded(w, s[1], s[2], inp)
     IN \A p \in Positions(w, s[1], s[2]) : \A i \in DOMAIN inp :
          d[p[1] + 1][p[2] + 1][p[3] + 1] = inp[i] <=> i = SrcIdx(w, s[1], s[2], p[1], p[2], p[3]) + 1

\* negative control (the law is selective, and it is the lead for the suspected defect): the selection as written in
\* SaveImage.h today agrees with the specified one for every writer except the one-channel float writer, where it
\* leaves the input for every size
ASSUME CodeSelectionLead ==
  \A s \in Sizes :
     /\ \A w \in Writers \ {"writePFM_float"} : CodeAgrees(w, s[1], s[2]) /\ CodeInBounds(w, s[1], s[2])
     /\ ~CodeInBounds("writePFM_float", s[1], s[2])
     /\ ~CodeAgrees("writePFM_float", s[1], s[2])

Shape(W, H) == IF W = 1 /\ H = 1 THEN "1x1" ELSE IF H = 1 THEN "row" ELSE IF W = 1 THEN "column" ELSE "rect"

\* Float values that generic code mishandles: the index map treats a component as an opaque value, so the same map must carry
\* -0.0, subnormals, FLT_MAX, infinities, NaNs with payload and non-dyadic values bit for bit.  Codes 1000 + i name them (the
\* driver holds the table of bit patterns and identifies a decoded float by its bits).
NSpecial == 16
SpecialInput(w, W, H) == [i \in 1..InLen(w, W, H) |-> 1000 + ((i * 5 + W) % NSpecial)]
SpecialSizes == {<<2, 2>>, <<3, 1>>, <<1, 3>>, <<4, 2>>}
FloatWriters == Writers \ {"writePPM", "writePGM"}
ASSUME SpecialsAllUsed == \A c \in 1000..(1000 + NSpecial - 1) : \E w \in FloatWriters, s \in SpecialSizes :
                            \E i \in 1..InLen(w, s[1], s[2]) : SpecialInput(w, s[1], s[2])[i] = c
SpecialCases ==
  {[a |-> w,
    arg |-> [w |-> s[1], h |-> s[2], buf |-> "exact", pix |-> SpecialInput(w, s[1], s[2]), pixcomp |-> PixComp(w), sentinel |-> Sentinel],
    cls |-> "buf=exact,values=special",
    shape |-> Shape(s[1], s[2]),
    exp |-> Expected(w, s[1], s[2], SpecialInput(w, s[1], s[2]))] : w \in FloatWriters, s \in SpecialSizes}

Cases == SpecialCases \cup
  {[a |-> w,
    arg |-> [w |-> s[1], h |-> s[2], buf |-> b, pix |-> Input(w, s[1], s[2]), pixcomp |-> PixComp(w), sentinel |-> Sentinel],
    cls |-> "buf=" \o b,
    shape |-> Shape(s[1], s[2]),
    exp |-> Expected(w, s[1], s[2], Input(w, s[1], s[2]))] : w \in Writers, s \in Sizes, b \in Bufs}

ASSUME Emit == ndJsonSerialize(IOEnv.OUT, SetToSeq(Cases))
===============================================================================
