CONSTANTS
  Large = FALSE
