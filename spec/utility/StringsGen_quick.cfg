CONSTANTS
  N = 6
  NP = 4
