---------------------------- MODULE PseudoUrlGen ----------------------------
(* Law checking and case generation for PseudoUrl (property C18).             *)
(* All URLs from <= MaxParams parameters over small alphabets of types, file  *)
(* names, names and values that include one-character and (for values) empty  *)
(* strings and duplicate names.  Every case queries every name of the         *)
(* alphabet plus one name that is never given.                                *)
EXTENDS PseudoUrl, TLC, Json, IOUtils, SequencesExt

CONSTANT MaxParams

Types  == {<<>>, <<"t">>, <<"t", "y">>}
Files  == {<<"f">>, <<"f", "i">>, <<"d", "/", "f", ".", "e">>}
Names  == {<<"n">>, <<"n", "m">>}
Values == {<<>>, <<"v">>, <<"v", "w">>}
Absent == <<"x">>
Query  == <<Absent, <<"n">>, <<"n", "m">>, Absent>>      \* an absent name first and last: a getValue() that threw must not disturb later queries

ParamSeqs == UNION {[1..k -> Names \X Values] : k \in 0..MaxParams}

ASSUME LawRoundTrip == \A t \in Types, f \in Files, ps \in ParamSeqs : RoundTrip(t, f, ps)
ASSUME LawLastWins  == \A ps \in ParamSeqs, n \in Names :
                          HasName(ps, n) => \E i \in DOMAIN ps : /\ ps[i] = <<n, LastValue(ps, n)>>
                                                                 /\ \A j \in (i + 1)..Len(ps) : ps[j][1] # n

HasDup(ps) == \E i, j \in DOMAIN ps : i < j /\ ps[i][1] = ps[j][1]
Cls(f) == IF Len(f) = 1 THEN "filelen=1" ELSE "filelen>1"

Answer(ps, n) == [n |-> Join(n), has |-> HasName(ps, n), throws |-> ~HasName(ps, n),
                  val |-> IF HasName(ps, n) THEN Join(LastValue(ps, n)) ELSE ""]

Cases ==
  {[a |-> "UrlParse",
    arg |-> [u |-> Join(Assemble(t, f, ps)), q |-> JoinAll(Query)],
    cls |-> Cls(f),
    info |-> [nparams |-> Len(ps), dup |-> HasDup(ps)],
    exp |-> [type |-> Join(t), fileName |-> Join(f), params |-> [i \in DOMAIN Query |-> Answer(ps, Query[i])]]]
   : t \in Types, f \in Files, ps \in ParamSeqs}

ASSUME Emit == ndJsonSerialize(IOEnv.OUT, SetToSeq(Cases))
===============================================================================
