-------------------------------- MODULE Stamps --------------------------------
(* rkcommon::utility::TimeStamp under concurrency (property C19, second       *)
(* sentence): every TimeStamp freshly created or renewed, on any thread,      *)
(* carries a value distinct from all others and larger than every value its   *)
(* thread obtained before; copies carry their source's value.                 *)
(*                                                                            *)
(* Mechanism modelled after TimeStamp.h / TimeStamp.cpp:                      *)
(*   static std::atomic<size_t> global;   nextValue() { return global++; }    *)
(*   TimeStamp()            value{nextValue()}                                *)
(*   renew()                value = nextValue()                               *)
(*   TimeStamp(const&)      value{nextValue()} (member initialiser, the value *)
(*                          drawn is overwritten at once), then value = other *)
(* With Atomic = TRUE `global++` is one step (fetch-and-add).  With Atomic =  *)
(* FALSE it is a load followed by a store (a plain size_t counter): the       *)
(* NEGATIVE CONTROL, which TLC must refute.                                   *)
(*                                                                            *)
(* Each thread owns one stamp `mine` (created, then renewed) and one copy     *)
(* `dup` of it (copy-constructed again and again).  got[t] is the sequence of *)
(* values thread t's stamp carried after a creation / renewal, in program     *)
(* order - exactly what the conformance driver logs.                          *)
EXTENDS Integers, Sequences, FiniteSets, TLC

CONSTANTS Threads,   \* thread ids
          MaxOps,    \* operations per thread
          Atomic     \* TRUE: fetch-and-add; FALSE: load, then store

NoStamp == -1

VARIABLES g,         \* TimeStamp::global
          pc,        \* pc[t]: "idle", or the operation whose increment is between load and store
          tmp,       \* tmp[t]: value loaded by the split increment
          mine,      \* mine[t]: value of thread t's stamp (NoStamp before it is created)
          dup,       \* dup[t]: value of thread t's latest copy (NoStamp if none)
          got,       \* got[t]: values obtained by creation / renewal, in program order
          copylog,   \* copylog[t]: <<value of the source when copied, value of the copy>>
          ops        \* ops[t]: operations started
vars == <<g, pc, tmp, mine, dup, got, copylog, ops>>

Init ==
  /\ g = 0
  /\ pc = [t \in Threads |-> "idle"] /\ tmp = [t \in Threads |-> 0]
  /\ mine = [t \in Threads |-> NoStamp] /\ dup = [t \in Threads |-> NoStamp]
  /\ got = [t \in Threads |-> <<>>] /\ copylog = [t \in Threads |-> <<>>]
  /\ ops = [t \in Threads |-> 0]

\* effect of having drawn value v for operation `what`
Deliver(t, what, v) ==
  IF what = "fresh"
    THEN /\ mine' = [mine EXCEPT ![t] = v]                       \* TimeStamp() / renew()
         /\ got' = [got EXCEPT ![t] = Append(@, v)]
         /\ UNCHANGED <<dup, copylog>>
    ELSE /\ dup' = [dup EXCEPT ![t] = mine[t]]                   \* copy constructor: v is overwritten by the source's value
         /\ copylog' = [copylog EXCEPT ![t] = Append(@, <<mine[t], mine[t]>>)]
         /\ UNCHANGED <<mine, got>>

CanStart(t, what) == pc[t] = "idle" /\ ops[t] < MaxOps /\ (what = "copy" => mine[t] # NoStamp)

\* global++ as one atomic read-modify-write
FetchAdd(t, what) ==
  /\ Atomic /\ CanStart(t, what)
  /\ g' = g + 1
  /\ Deliver(t, what, g)
  /\ ops' = [ops EXCEPT ![t] = @ + 1]
  /\ UNCHANGED <<pc, tmp>>

\* global++ as load ; store
Load(t, what) ==
  /\ ~Atomic /\ CanStart(t, what)
  /\ tmp' = [tmp EXCEPT ![t] = g]
  /\ pc' = [pc EXCEPT ![t] = what]
  /\ ops' = [ops EXCEPT ![t] = @ + 1]
  /\ UNCHANGED <<g, mine, dup, got, copylog>>

Store(t) ==
  /\ pc[t] # "idle"
  /\ g' = tmp[t] + 1
  /\ Deliver(t, pc[t], tmp[t])
  /\ pc' = [pc EXCEPT ![t] = "idle"]
  /\ UNCHANGED <<tmp, ops>>

Next == \E t \in Threads : \/ \E what \in {"fresh", "copy"} : FetchAdd(t, what) \/ Load(t, what)
                           \/ Store(t)

Spec == Init /\ [][Next]_vars

-------------------------------------------------------------------------------
Range(s) == {s[i] : i \in DOMAIN s}

TypeOK == /\ g \in Nat /\ \A t \in Threads : ops[t] \in 0..MaxOps /\ pc[t] \in {"idle", "fresh", "copy"}

\* distinct from all others: no value was handed to two creations / renewals, on whatever threads
Unique == \A t, u \in Threads : \A i \in DOMAIN got[t], j \in DOMAIN got[u] :
             (t # u \/ i # j) => got[t][i] # got[u][j]

\* larger than every value its thread obtained before
IncreasingPerThread == \A t \in Threads : \A i, j \in DOMAIN got[t] : i < j => got[t][i] < got[t][j]

\* copies carry their source's value (and therefore a value that was handed out to the source)
CopiesCarry == \A t \in Threads :
                 /\ \A i \in DOMAIN copylog[t] : copylog[t][i][1] = copylog[t][i][2]
                 /\ dup[t] # NoStamp => dup[t] \in Range(got[t])

\* why it holds for the atomic counter: everything handed out is below the counter
BelowCounter == \A t \in Threads : \A i \in DOMAIN got[t] : got[t][i] < g
===============================================================================
