-------------------------------- MODULE Stamps --------------------------------
(* rkcommon::utility::TimeStamp under concurrency (property C19, second       *)
(* sentence): every TimeStamp freshly created or renewed, on any thread,      *)
(* carries a value distinct from all others and larger than every value its   *)
(* thread obtained before; copies carry their source's value.                 *)
(*                                                                            *)
(* Mechanism modelled after TimeStamp.h / TimeStamp.cpp:                      *)
(*   static std::atomic<size_t> global;   nextValue() { return global++; }    *)
(*   TimeStamp()            value{nextValue()}                                *)
(*   renew()                value = nextValue()                               *)
(*   TimeStamp(const&)      value{nextValue()} (member initialiser, the value *)
(*                          drawn is overwritten at once), then value = other *)
(* With Atomic = TRUE `global++` is one step (fetch-and-add).  With Atomic =  *)
(* FALSE it is a load followed by a store (a plain size_t counter): the       *)
(* NEGATIVE CONTROL, which TLC must refute.                                   *)
(*                                                                            *)
(* The law the observers rest on when a history's steps are performed by      *)
(* DIFFERENT threads with a hand-over in between (implied by the statement    *)
(* for synchronised histories - an observable's notification drawn on thread  *)
(* A after an observer's stamp was drawn on thread B must compare as later):  *)
(*   HappensBeforeOrdered   if draw A is complete before draw B begins (any   *)
(*                          threads), value(A) < value(B)                     *)
(* In this interleaving model "complete before it begins" is the order of     *)
(* steps; on the real code it is only known at synchronisation points, which  *)
(* is where StampsRelayTrace checks it - never for free-running draws.        *)
(* Block > 1 is a second NEGATIVE CONTROL: every thread takes Block values at *)
(* once from the shared counter and hands them out locally.  It keeps Unique  *)
(* and IncreasingPerThread (TLC confirms) and TLC must refute                 *)
(* HappensBeforeOrdered for it.  Block = 1 is the fetch-and-add of            *)
(* TimeStamp.cpp.                                                             *)
(*                                                                            *)
(* Each thread owns one stamp `mine` (created, then renewed) and one copy     *)
(* `dup` of it (copy-constructed again and again).  got[t] is the sequence of *)
(* values thread t's stamp carried after a creation / renewal, in program     *)
(* order - exactly what the conformance driver logs.                          *)
EXTENDS Integers, Sequences, FiniteSets, TLC

CONSTANTS Threads,   \* thread ids
          MaxOps,    \* operations per thread
          Atomic,    \* TRUE: fetch-and-add; FALSE: load, then store
          Block      \* values a thread takes from the shared counter at once (1: TimeStamp.cpp; > 1: negative control)

NoStamp == -1

VARIABLES g,         \* TimeStamp::global
          pc,        \* pc[t]: "idle", or the operation whose increment is between load and store
          tmp,       \* tmp[t]: value loaded by the split increment
          mine,      \* mine[t]: value of thread t's stamp (NoStamp before it is created)
          dup,       \* dup[t]: value of thread t's latest copy (NoStamp if none)
          got,       \* got[t]: values obtained by creation / renewal, in program order
          copylog,   \* copylog[t]: <<value of the source when copied, value of the copy>>
          ops,       \* ops[t]: operations started
          nxt, bend, \* nxt[t] / bend[t]: next value and end of thread t's block (Block = 1: always equal before a draw)
          order,     \* ghost: the completed creations / renewals of all threads in the order of their completion:
                     \*        [t, v, since] with since = number of entries of `order` when the draw began
          began      \* ghost: began[t] = Len(order) when thread t's running (split) draw began
vars == <<g, pc, tmp, mine, dup, got, copylog, ops, nxt, bend, order, began>>

Init ==
  /\ g = 0
  /\ pc = [t \in Threads |-> "idle"] /\ tmp = [t \in Threads |-> 0]
  /\ mine = [t \in Threads |-> NoStamp] /\ dup = [t \in Threads |-> NoStamp]
  /\ got = [t \in Threads |-> <<>>] /\ copylog = [t \in Threads |-> <<>>]
  /\ ops = [t \in Threads |-> 0]
  /\ nxt = [t \in Threads |-> 0] /\ bend = [t \in Threads |-> 0]
  /\ order = <<>> /\ began = [t \in Threads |-> 0]

\* effect of having drawn value v for operation `what`
\* (the draw began when `order` had `since` entries)
Deliver(t, what, v, since) ==
  IF what = "fresh"
    THEN /\ mine' = [mine EXCEPT ![t] = v]                       \* TimeStamp() / renew()
         /\ got' = [got EXCEPT ![t] = Append(@, v)]
         /\ order' = Append(order, [t |-> t, v |-> v, since |-> since])
         /\ UNCHANGED <<dup, copylog>>
    ELSE /\ dup' = [dup EXCEPT ![t] = mine[t]]                   \* copy constructor: v is overwritten by the source's value
         /\ copylog' = [copylog EXCEPT ![t] = Append(@, <<mine[t], mine[t]>>)]
         /\ UNCHANGED <<mine, got, order>>

CanStart(t, what) == pc[t] = "idle" /\ ops[t] < MaxOps /\ (what = "copy" => mine[t] # NoStamp)

\* global++ as one atomic read-modify-write (Block = 1); Block > 1: global.fetch_add(Block) when the thread's block is used up
FetchAdd(t, what) ==
  /\ Atomic /\ CanStart(t, what)
  /\ LET refill == nxt[t] = bend[t]
         v == IF refill THEN g ELSE nxt[t]
     IN /\ g' = IF refill THEN g + Block ELSE g
        /\ bend' = [bend EXCEPT ![t] = IF refill THEN g + Block ELSE @]
        /\ nxt' = [nxt EXCEPT ![t] = v + 1]
        /\ Deliver(t, what, v, Len(order))
  /\ ops' = [ops EXCEPT ![t] = @ + 1]
  /\ UNCHANGED <<pc, tmp, began>>

\* global++ as load ; store
Load(t, what) ==
  /\ ~Atomic /\ CanStart(t, what)
  /\ tmp' = [tmp EXCEPT ![t] = g]
  /\ pc' = [pc EXCEPT ![t] = what]
  /\ ops' = [ops EXCEPT ![t] = @ + 1]
  /\ began' = [began EXCEPT ![t] = Len(order)]
  /\ UNCHANGED <<g, mine, dup, got, copylog, nxt, bend, order>>

Store(t) ==
  /\ pc[t] # "idle"
  /\ g' = tmp[t] + 1
  /\ Deliver(t, pc[t], tmp[t], began[t])
  /\ pc' = [pc EXCEPT ![t] = "idle"]
  /\ UNCHANGED <<tmp, ops, nxt, bend, began>>

Next == \E t \in Threads : \/ \E what \in {"fresh", "copy"} : FetchAdd(t, what) \/ Load(t, what)
                           \/ Store(t)

Spec == Init /\ [][Next]_vars

-------------------------------------------------------------------------------
Range(s) == {s[i] : i \in DOMAIN s}

TypeOK == /\ g \in Nat /\ \A t \in Threads : ops[t] \in 0..MaxOps /\ pc[t] \in {"idle", "fresh", "copy"}

\* distinct from all others: no value was handed to two creations / renewals, on whatever threads
Unique == \A t, u \in Threads : \A i \in DOMAIN got[t], j \in DOMAIN got[u] :
             (t # u \/ i # j) => got[t][i] # got[u][j]

\* larger than every value its thread obtained before
IncreasingPerThread == \A t \in Threads : \A i, j \in DOMAIN got[t] : i < j => got[t][i] < got[t][j]

\* copies carry their source's value (and therefore a value that was handed out to the source)
CopiesCarry == \A t \in Threads :
                 /\ \A i \in DOMAIN copylog[t] : copylog[t][i][1] = copylog[t][i][2]
                 /\ dup[t] # NoStamp => dup[t] \in Range(got[t])

\* a draw that is complete before another one begins - on whatever threads - carries the smaller value
\* (what a hand-over between threads relies on: thread A draws, hands over, thread B draws => A's value < B's value)
HappensBeforeOrdered == \A j \in DOMAIN order : \A i \in 1..order[j].since : order[i].v < order[j].v
\* the ghost is complete: every value obtained is in `order`
OrderComplete == Len(order) = Cardinality({<<t, i>> \in Threads \X (1..MaxOps) : i \in DOMAIN got[t]})

\* why it holds for the atomic counter: everything handed out is below the counter
BelowCounter == \A t \in Threads : \A i \in DOMAIN got[t] : got[t][i] < g
===============================================================================
