--------------------------- MODULE ObserversRelay ---------------------------
(* Property C19, first sentence, for histories whose steps are executed by    *)
(* DIFFERENT threads.  The statement quantifies over EVERY history of         *)
(* creating / destroying / notifying / polling; it does not say which thread  *)
(* performs a step.  A history stays a (totally ordered) history when each    *)
(* step is handed to one of several long-lived threads that run ONE step at a *)
(* time while everybody else waits (hand-over by mutex + condition variable:  *)
(* every step happens-before the next one).  So the contract of Observers.tla *)
(* is the judge, unchanged; what is new is                                    *)
(*                                                                            *)
(*   by      the thread that performs the step - an argument of EVERY action, *)
(*           on which no action's effect or answer depends (Step(t) below is  *)
(*           the contract's Next, whatever t is; ObserversRelayMC has TLC     *)
(*           check the declarative reading, which knows no thread, over all   *)
(*           thread assignments);                                             *)
(*   Warm    the start state: before anything is created, thread t has drawn  *)
(*           pre[t] time stamps for unrelated purposes (0 = the thread never  *)
(*           drew one; 1, 63, 64, 65, 300: it drew some EARLIER than the      *)
(*           creation of every observable / observer of the history);         *)
(*   Draw    thread t draws n unrelated time stamps in the middle of the      *)
(*           history.                                                         *)
(* Warm and Draw touch no observable and no observer: nothing changes for any *)
(* observer (as Advance in Observers.tla).                                    *)
(*                                                                            *)
(* The contract is instantiated with its ghost renamed (olast); the ghost of  *)
(* this module, `last` = [a, arg, by, cls, exp], is the contract's plus `by`. *)
EXTENDS Integers, Sequences, FiniteSets, TLC

CONSTANTS Subjects, Watchers,
          Workers,      \* thread ids 1..NT
          PreCounts,    \* numbers of stamps a thread may have drawn before the history starts
          DrawCounts    \* numbers of unrelated stamps a thread may draw inside the history

VARIABLES oalive, balive, att, pending, olast,
          warmed,       \* the start state has been set up
          last
cvars == <<oalive, balive, att, pending, olast>>
vars == <<oalive, balive, att, pending, olast, warmed, last>>

O == INSTANCE Observers WITH last <- olast

NoThread == 0

\* ---- start states ----------------------------------------------------------
\* Not the full product PreCounts^Workers: nobody drew; exactly one thread drew c; and the rotations of the
\* ascending sequence of PreCounts over the threads (every count at every thread, neighbours differing).
SortedPre == CHOOSE s \in [1..Cardinality(PreCounts) -> PreCounts] :
               /\ \A i, j \in DOMAIN s : i < j => s[i] < s[j]
NP == Cardinality(PreCounts)
PreVectors ==
  {[t \in Workers |-> 0]}
  \cup {[t \in Workers |-> IF t = u THEN c ELSE 0] : u \in Workers, c \in PreCounts \ {0}}
  \cup {[t \in Workers |-> SortedPre[((i + 2 * (t - 1)) % NP) + 1]] : i \in 0..(NP - 1)}

PreCls(pre) == IF \A t \in Workers : pre[t] = 0 THEN "nobody-drew"
               ELSE IF \E t \in Workers : pre[t] = 0 THEN "some-drew" ELSE "all-drew"

Init ==
  /\ O!Init
  /\ warmed = FALSE
  /\ last = [a |-> "Init", arg |-> <<>>, by |-> NoThread, cls |-> "", exp |-> O!Void]

\* threads 1, 2, ... one after the other (hand-over in between) draw pre[t] stamps
Warm(pre) ==
  /\ ~warmed /\ pre \in PreVectors
  /\ warmed' = TRUE
  /\ UNCHANGED cvars
  /\ last' = [a |-> "Warm", arg |-> [pre |-> pre], by |-> NoThread, cls |-> PreCls(pre), exp |-> O!Void]

\* thread t draws n stamps nobody looks at
Draw(t, n) ==
  /\ warmed /\ t \in Workers /\ n \in DrawCounts
  /\ UNCHANGED <<oalive, balive, att, pending, olast, warmed>>
  /\ last' = [a |-> "Draw", arg |-> [n |-> n], by |-> t, cls |-> "", exp |-> O!Void]

\* thread t performs the next call of the history: the contract's step, whatever t is
Step(t) ==
  /\ warmed /\ t \in Workers
  /\ O!Next
  /\ UNCHANGED warmed
  /\ last' = [a |-> olast'.a, arg |-> olast'.arg, by |-> t, cls |-> olast'.cls, exp |-> olast'.exp]

Next ==
  \/ \E pre \in PreVectors : Warm(pre)
  \/ \E t \in Workers : Step(t)
  \/ \E t \in Workers, n \in DrawCounts : Draw(t, n)

Spec == Init /\ [][Next]_vars

-------------------------------------------------------------------------------
TypeOK == O!TypeOK /\ warmed \in BOOLEAN /\ last.by \in Workers \cup {NoThread}
NothingDangles == O!NothingDangles
OrphanSilent == O!OrphanSilent

\* whoever performs a call, what it returns is what the contract says: the answer does not depend on `by`
AnswerIgnoresThread ==
  last.a \notin {"Init", "Warm", "Draw"} =>
     /\ last.a = olast.a /\ last.arg = olast.arg /\ last.exp = olast.exp /\ last.cls = olast.cls
     /\ last.by \in Workers
\* Warm / Draw change nothing for any observer
UnrelatedDrawsInvisible ==
  [][last'.a \in {"Warm", "Draw"} => UNCHANGED cvars]_vars
===============================================================================
