---------------------------- MODULE ObserversMech ----------------------------
(* Mechanism of rkcommon/utility/Observer.h, shaped like the code, and the    *)
(* proof obligation that ties the two halves of property C19 together: the    *)
(* observers are implemented WITH time stamps, and they meet their contract   *)
(* (Observers.tla) because fresh / renewed stamps are unique and increasing.  *)
(*                                                                            *)
(*   Observable:  TimeStamp lastNotified;  std::vector<Observer*> observers   *)
(*   Observer:    TimeStamp lastObserved;  Observable *observee               *)
(*   notifyObservers():  lastNotified.renew()                                 *)
(*   wasNotified():      if (!observee) return false;                         *)
(*                       n = lastObserved < observee->lastNotified;           *)
(*                       if (n) lastObserved.renew();  return n               *)
(*   Observer(o):        lastObserved = fresh; observee = &o; o.observers.push_back(this) *)
(*   ~Observer():        if (observee) observee->observers.erase(this)        *)
(*   ~Observable():      for (p : observers) p->observee = nullptr            *)
(*                                                                            *)
(* The global counter g hands out stamps (TimeStamp::nextValue, Stamps.tla).  *)
(* TLC checks (a) refinement: every step of the mechanism is a step of the    *)
(* contract under the mapping  pending[b] == observee # null /\ lastObserved  *)
(* < observee->lastNotified, including the value wasNotified() returns;       *)
(* (b) pointer hygiene: the registration list and the observee pointers       *)
(* mirror each other and no destructor touches a dead object.                 *)
(* Unregister / Orphan = FALSE drop the corresponding destructor duty: the    *)
(* NEGATIVE CONTROLS, which TLC must refute.                                  *)
EXTENDS Integers, Sequences, FiniteSets, TLC

CONSTANTS Subjects, Watchers,
          MaxG,        \* bound on stamps handed out (state constraint)
          Unregister,  \* TRUE: ~Observer removes itself from the list (the code)
          Orphan       \* TRUE: ~Observable nulls its observers' observee (the code)

VARIABLES g,        \* TimeStamp::global
          oAlive, oStamp, oList,     \* per observable slot: constructed, lastNotified, observers
          bAlive, bStamp, bPtr,      \* per observer slot: constructed, lastObserved, observee (0 = nullptr)
          uaf,      \* TRUE once a destructor or a poll touched an object that is not alive
          last
mvars == <<g, oAlive, oStamp, oList, bAlive, bStamp, bPtr, uaf, last>>

NW == Cardinality(Watchers)
InList(b, o) == \E i \in DOMAIN oList[o] : oList[o][i] = b
Without(s, b) == SelectSeq(s, LAMBDA x : x # b)

\* refinement mapping
PendingBar == [b \in Watchers |-> bAlive[b] /\ bPtr[b] # 0 /\ bStamp[b] < oStamp[bPtr[b]]]
C == INSTANCE Observers WITH oalive <- oAlive, balive <- bAlive, att <- bPtr, pending <- PendingBar

Init ==
  /\ g = 0
  /\ oAlive = [o \in Subjects |-> FALSE] /\ oStamp = [o \in Subjects |-> 0] /\ oList = [o \in Subjects |-> <<>>]
  /\ bAlive = [b \in Watchers |-> FALSE] /\ bStamp = [b \in Watchers |-> 0] /\ bPtr = [b \in Watchers |-> 0]
  /\ uaf = FALSE
  /\ last = [a |-> "Init", arg |-> <<>>, cls |-> "", exp |-> [ret |-> "void"]]

Void == [ret |-> "void"]

CreateObservable(o) ==
  /\ ~oAlive[o]
  /\ oAlive' = [oAlive EXCEPT ![o] = TRUE]
  /\ oStamp' = [oStamp EXCEPT ![o] = g] /\ g' = g + 1          \* member initialiser: value{nextValue()}
  /\ oList' = [oList EXCEPT ![o] = <<>>]
  /\ UNCHANGED <<bAlive, bStamp, bPtr, uaf>>
  /\ last' = [a |-> "CreateObservable", arg |-> [o |-> o], cls |-> "", exp |-> Void]

CreateObserver(b, o) ==
  /\ ~bAlive[b] /\ oAlive[o]
  /\ bAlive' = [bAlive EXCEPT ![b] = TRUE]
  /\ bStamp' = [bStamp EXCEPT ![b] = g] /\ g' = g + 1
  /\ bPtr' = [bPtr EXCEPT ![b] = o]
  /\ oList' = [oList EXCEPT ![o] = Append(@, b)]
  /\ UNCHANGED <<oAlive, oStamp, uaf>>
  /\ last' = [a |-> "CreateObserver", arg |-> [b |-> b, o |-> o],
              cls |-> IF C!AttachedTo(o) = {} THEN "first" ELSE "further", exp |-> Void]

Notify(o) ==
  /\ oAlive[o]
  /\ oStamp' = [oStamp EXCEPT ![o] = g] /\ g' = g + 1          \* lastNotified.renew()
  /\ UNCHANGED <<oAlive, oList, bAlive, bStamp, bPtr, uaf>>
  /\ last' = [a |-> "Notify", arg |-> [o |-> o],
              cls |-> IF C!AttachedTo(o) = {} THEN "unobserved" ELSE "observed", exp |-> Void]

\* wasNotified() as the code computes it
Notified(b, st) == bPtr[b] # 0 /\ st[b] < oStamp[bPtr[b]]

Poll(b) ==
  /\ bAlive[b]
  /\ IF Notified(b, bStamp)
       THEN bStamp' = [bStamp EXCEPT ![b] = g] /\ g' = g + 1    \* lastObserved.renew()
       ELSE UNCHANGED <<bStamp, g>>
  /\ uaf' = (uaf \/ (bPtr[b] # 0 /\ ~oAlive[bPtr[b]]))          \* reads observee->lastNotified
  /\ UNCHANGED <<oAlive, oStamp, oList, bAlive, bPtr>>
  /\ last' = [a |-> "Poll", arg |-> [b |-> b], cls |-> C!PollCls(b), exp |-> [ret |-> Notified(b, bStamp)]]

RECURSIVE PollFold(_, _, _, _)
PollFold(b, gg, st, rets) ==
  IF b > NW THEN [g |-> gg, st |-> st, rets |-> rets]
  ELSE IF ~bAlive[b] THEN PollFold(b + 1, gg, st, Append(rets, -1))
  ELSE IF Notified(b, st) THEN PollFold(b + 1, gg + 1, [st EXCEPT ![b] = gg], Append(rets, 1))
  ELSE PollFold(b + 1, gg, st, Append(rets, 0))

PollAll ==
  /\ \E b \in Watchers : bAlive[b]
  /\ LET r == PollFold(1, g, bStamp, <<>>) IN
       /\ g' = r.g /\ bStamp' = r.st
       /\ last' = [a |-> "PollAll", arg |-> <<>>, cls |-> "", exp |-> [ret |-> r.rets]]
  /\ uaf' = (uaf \/ \E b \in Watchers : bAlive[b] /\ bPtr[b] # 0 /\ ~oAlive[bPtr[b]])
  /\ UNCHANGED <<oAlive, oStamp, oList, bAlive, bPtr>>

\* The two destructors as functions on the part of the state they touch
\*   m = [oAlive, oStamp, oList, bAlive, bStamp, bPtr, uaf]
Cur == [oAlive |-> oAlive, oStamp |-> oStamp, oList |-> oList, bAlive |-> bAlive, bStamp |-> bStamp, bPtr |-> bPtr, uaf |-> uaf]
ListHas(m, b, o) == \E i \in DOMAIN m.oList[o] : m.oList[o][i] = b

\* ~Observable():  for (p : observers) p->observee = nullptr
DSubject(m, o) ==
  [m EXCEPT !.oAlive[o] = FALSE, !.oStamp[o] = 0, !.oList[o] = <<>>,
            !.bPtr = IF Orphan THEN [b \in Watchers |-> IF ListHas(m, b, o) THEN 0 ELSE m.bPtr[b]] ELSE m.bPtr,
            !.uaf = m.uaf \/ (Orphan /\ \E b \in Watchers : ListHas(m, b, o) /\ ~m.bAlive[b])]     \* writes p->observee

\* ~Observer():  if (observee) observee->removeObserver(*this)
DWatcher(m, b) ==
  [m EXCEPT !.bAlive[b] = FALSE, !.bStamp[b] = 0, !.bPtr[b] = 0,
            !.oList = IF Unregister /\ m.bPtr[b] # 0 THEN [m.oList EXCEPT ![m.bPtr[b]] = Without(@, b)] ELSE m.oList,
            !.uaf = m.uaf \/ (Unregister /\ m.bPtr[b] # 0 /\ ~m.oAlive[m.bPtr[b]])]                  \* calls observee->removeObserver

Install(m) ==
  /\ oAlive' = m.oAlive /\ oStamp' = m.oStamp /\ oList' = m.oList
  /\ bAlive' = m.bAlive /\ bStamp' = m.bStamp /\ bPtr' = m.bPtr /\ uaf' = m.uaf

DestroyObservable(o) ==
  /\ oAlive[o]
  /\ Install(DSubject(Cur, o))
  /\ UNCHANGED g
  /\ last' = [a |-> "DestroyObservable", arg |-> [o |-> o],
              cls |-> IF C!AttachedTo(o) = {} THEN "unobserved" ELSE "observed", exp |-> Void]

DestroyObserver(b) ==
  /\ bAlive[b]
  /\ Install(DWatcher(Cur, b))
  /\ UNCHANGED g
  /\ last' = [a |-> "DestroyObserver", arg |-> [b |-> b],
              cls |-> IF bPtr[b] = 0 THEN "orphaned" ELSE "attached", exp |-> Void]

\* end of a scope: every living object is destroyed, slot by slot, observers first or observables first
RECURSIVE AllWatchers(_, _), AllSubjects(_, _)
AllWatchers(m, b) == IF b > NW THEN m ELSE AllWatchers(IF m.bAlive[b] THEN DWatcher(m, b) ELSE m, b + 1)
AllSubjects(m, o) == IF o > Cardinality(Subjects) THEN m ELSE AllSubjects(IF m.oAlive[o] THEN DSubject(m, o) ELSE m, o + 1)

Teardown(order) ==
  /\ (\E b \in Watchers : bAlive[b]) \/ (\E o \in Subjects : oAlive[o])
  /\ Install(IF order = "observers_first" THEN AllSubjects(AllWatchers(Cur, 1), 1) ELSE AllWatchers(AllSubjects(Cur, 1), 1))
  /\ UNCHANGED g
  /\ last' = [a |-> "Teardown", arg |-> [order |-> order],
              cls |-> IF \E b \in Watchers : bPtr[b] # 0 THEN "attached" ELSE "detached", exp |-> Void]

Next ==
  \/ \E o \in Subjects : CreateObservable(o) \/ Notify(o) \/ DestroyObservable(o)
  \/ \E b \in Watchers : Poll(b) \/ DestroyObserver(b)
  \/ \E b \in Watchers, o \in Subjects : CreateObserver(b, o)
  \/ PollAll
  \/ \E order \in {"observers_first", "observables_first"} : Teardown(order)

Spec == Init /\ [][Next]_mvars

-------------------------------------------------------------------------------
StampBound == g <= MaxG

\* (a) the mechanism implements the contract, return values included
Refines == C!Spec

\* (b) pointer hygiene: list entries and observee pointers mirror each other, all of them between living objects
NoDangling ==
  /\ \A o \in Subjects : ~oAlive[o] => oList[o] = <<>>
  /\ \A o \in Subjects : \A i \in DOMAIN oList[o] : bAlive[oList[o][i]] /\ bPtr[oList[o][i]] = o
  /\ \A o \in Subjects : \A i, j \in DOMAIN oList[o] : oList[o][i] = oList[o][j] => i = j
  /\ \A b \in Watchers : bPtr[b] # 0 => bAlive[b] /\ oAlive[bPtr[b]] /\ InList(b, bPtr[b])
NoUseAfterFree == ~uaf

\* why it works: every living object's stamp was handed out (is below the counter), and living stamps are distinct
StampsHandedOut ==
  /\ \A o \in Subjects : oAlive[o] => oStamp[o] < g
  /\ \A b \in Watchers : bAlive[b] => bStamp[b] < g
  /\ \A o \in Subjects, b \in Watchers : oAlive[o] /\ bAlive[b] => oStamp[o] # bStamp[b]
===============================================================================
