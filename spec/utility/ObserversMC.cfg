SPECIFICATION SpecH
CONSTANTS
  Subjects = {1, 2}
  Watchers = {1, 2, 3}
  K = 5
INVARIANTS TypeOK NothingDangles OrphanSilent AgreesWithHistory PollReturnsDeclared
PROPERTY Independent
CONSTRAINT HistBound
VIEW View
CHECK_DEADLOCK FALSE
