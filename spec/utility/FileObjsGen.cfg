SPECIFICATION Spec
CONSTANTS
  Seeds <- SeedsV
  Exts <- ExtsV
  MaxLen = 7
INVARIANTS LawsHold LastAgrees
