CONSTANTS
  Widths = {65537}
  Shorts = {1}
  Part = "huge"
  SweepVals = {}
