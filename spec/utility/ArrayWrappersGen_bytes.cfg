SPECIFICATION SpecG
CONSTANTS
  NW = 2
  NV = 1
  NA = 0
  Kinds = {"ArrayView", "OwnedArray", "FixedArray"}
  Modes = {"src", "ptr", "copy"}
  Acts = {"Construct", "Assign", "Resize", "Write", "Destroy", "SrcMake", "SrcWrite", "SrcDestroy"}
  Sizes = {3}
  MaxLen = 3
  ArrLen = 3
  PtrSel = "few"
  Palettes = {1, 2, 3, 4, 5, 6, 7, 8, 9, 10, 11, 12, 13, 14, 15, 16, 17, 18, 19, 20, 21, 22, 23, 24, 25, 26, 27, 28, 29, 30, 31, 32, 33, 34, 35, 36, 37, 38, 39, 40, 41, 42, 43, 44, 45, 46, 47, 48, 49, 50, 51, 52, 53, 54, 55, 56, 57, 58, 59, 60, 61, 62, 63, 64, 65, 66, 67, 68, 69, 70, 71, 72, 73, 74, 75, 76, 77, 78, 79, 80, 81, 82, 83, 84, 85, 86, 87, 88, 89, 90, 91, 92, 93, 94, 95, 96, 97, 98, 99, 100, 101, 102, 103, 104, 105, 106, 107, 108, 109, 110, 111, 112, 113, 114, 115, 116, 117, 118, 119, 120, 121, 122, 123, 124, 125, 126, 127, 128, 129, 130, 131, 132, 133, 134, 135, 136, 137, 138, 139, 140, 141, 142, 143, 144, 145, 146, 147, 148, 149, 150, 151, 152, 153, 154, 155, 156, 157, 158, 159, 160, 161, 162, 163, 164, 165, 166, 167, 168, 169, 170, 171, 172, 173, 174, 175, 176, 177, 178, 179, 180, 181, 182, 183, 184, 185, 186, 187, 188, 189, 190, 191, 192, 193, 194, 195, 196, 197, 198, 199, 200, 201, 202, 203, 204, 205, 206, 207, 208, 209, 210, 211, 212, 213, 214, 215, 216, 217, 218, 219, 220, 221, 222, 223, 224, 225, 226, 227, 228, 229, 230, 231, 232, 233, 234, 235, 236, 237, 238, 239, 240, 241, 242, 243, 244, 245, 246, 247, 248, 249, 250, 251, 252, 253, 254, 255, 256}
  Sym = TRUE
  Excl = {}
  Variant = "contract"
  Prefix = "none"
