SPECIFICATION SpecBadMoveCtor
CONSTANTS
  NT = 2
  NU = 0
  NA = 0
  Throwing = FALSE
  WithMake = FALSE
  Vals = {1, 2}
  K = 3
PROPERTIES RefProtocolLegalH
CONSTRAINT HistBound
VIEW View
