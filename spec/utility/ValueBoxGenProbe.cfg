SPECIFICATION Spec
CONSTANTS
  NT = 1
  NU = 0
  NA = 0
  Vals = {1, 2}
INVARIANTS TypeOK WellFormed LastAgrees
