SPECIFICATION Spec
CONSTANTS
  NT = 1
  NU = 0
  NA = 0
  Throwing = FALSE
  WithMake = TRUE
  Vals = {1, 2}
INVARIANTS TypeOK WellFormed LastAgrees
