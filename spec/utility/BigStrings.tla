------------------------------ MODULE BigStrings ------------------------------
(* Block algebra for LONG strings (property C18, boundary audit).             *)
(*                                                                            *)
(* The helpers of C18 must behave the same on a 65 537-character token as on  *)
(* a 3-character one (no hidden 8- / 16-bit counter, no fixed buffer, nothing *)
(* special at the 15/16-character small-string boundary).  TLC cannot handle  *)
(* such strings character by character, so a long string is given by BLOCKS   *)
(* <<c, n>> (the character c repeated n times; adjacent blocks carry distinct *)
(* characters: the run-length encoding of the string, which is unique) and    *)
(* every operation of Strings / FileNames is re-stated on blocks.  BlockLaws  *)
(* proves on ALL small block lists that the block operations are the          *)
(* character operations:  Expand(BOp(B)) = Op(Expand(B)).  The drivers expand *)
(* the blocks, call the real function and run-length encode what it returns.  *)
EXTENDS FileNames

Blk(c, n) == <<c, n>>
Expand(B) == Concat([i \in DOMAIN B |-> [k \in 1..B[i][2] |-> B[i][1]]])
BLen(B)   == IF B = <<>> THEN 0 ELSE LET S[i \in 0..Len(B)] == IF i = 0 THEN 0 ELSE S[i - 1] + B[i][2] IN S[Len(B)]

\* canonical form: no empty block, adjacent characters distinct
RECURSIVE Canon(_)
Canon(B) == IF B = <<>> THEN <<>>
            ELSE IF B[1][2] = 0 THEN Canon(Tail(B))
            ELSE IF Len(B) = 1 THEN B
            ELSE IF B[2][2] = 0 THEN Canon(<<B[1]>> \o Tail(Tail(B)))
            ELSE IF B[1][1] = B[2][1] THEN Canon(<<Blk(B[1][1], B[1][2] + B[2][2])>> \o Tail(Tail(B)))
            ELSE <<B[1]>> \o Canon(Tail(B))
IsCanon(B) == /\ \A i \in DOMAIN B : B[i][2] >= 1
              /\ \A i \in 1..(Len(B) - 1) : B[i][1] # B[i + 1][1]

\* ---- split / tokenize / prefix on blocks -----------------------------------
\* the maximal delimiter-free runs: maximal groups of consecutive non-delimiter blocks
BTokens(B, D)   == MaxRuns(B, {B[i] : i \in {j \in DOMAIN B : B[j][1] \in D}})
BNonDelim(B, D) == Canon(SelectSeq(B, LAMBDA b : b[1] \notin D))

RECURSIVE BLcp(_, _)
BLcp(A, B) == IF A = <<>> \/ B = <<>> \/ A[1][1] # B[1][1] THEN <<>>
              ELSE IF A[1][2] = B[1][2] THEN <<A[1]>> \o BLcp(Tail(A), Tail(B))
              ELSE <<Blk(A[1][1], Min2(A[1][2], B[1][2]))>>
BIsPrefixOf(P, S) == BLcp(S, P) = P

\* ---- file names on blocks ---------------------------------------------------
BLastIdx(B, c) == LET P == {i \in DOMAIN B : B[i][1] = c} IN IF P = {} THEN 0 ELSE CHOOSE i \in P : \A j \in P : j <= i
BPathOf(B) == SubSeq(B, 1, BLastIdx(B, SEP))
BBaseOf(B) == SubSeq(B, BLastIdx(B, SEP) + 1, Len(B))
\* name / extension of a last component b: split at its last dot (the last character of its last dot block)
BNameOfBase(b) == LET j == BLastIdx(b, DOT) IN
                  IF j = 0 THEN b ELSE SubSeq(b, 1, j - 1) \o (IF b[j][2] > 1 THEN <<Blk(DOT, b[j][2] - 1)>> ELSE <<>>)
BExtOfBase(b)  == LET j == BLastIdx(b, DOT) IN IF j = 0 THEN <<>> ELSE SubSeq(b, j + 1, Len(b))
BNameOf(B)  == BNameOfBase(BBaseOf(B))
BExtOf(B)   == BExtOfBase(BBaseOf(B))
BDropExt(B) == Canon(BPathOf(B) \o BNameOf(B))
BSetExt(B, X) == Canon(BDropExt(B) \o X)
BAddExt(B, X) == Canon(B \o X)
BJoin(F, G)   == IF F = <<>> THEN G ELSE Canon(F \o <<Blk(SEP, 1)>> \o G)

-------------------------------------------------------------------------------
\* many tokens: the unit u (a character sequence holding exactly one token and
\* ending in a delimiter) repeated n times, then tail.  Its tokens, with equal
\* neighbours merged: <<token, how many times in a row>>.
UnitOk(u, D) == u # <<>> /\ u[1] \notin D /\ u[Len(u)] \in D /\ Len(MaxRuns(u, D)) = 1
RECURSIVE MergeCounted(_)
MergeCounted(T) == IF Len(T) < 2 THEN T
                   ELSE IF T[1][1] = T[2][1] THEN MergeCounted(<<<<T[1][1], T[1][2] + T[2][2]>>>> \o Tail(Tail(T)))
                   ELSE <<T[1]>> \o MergeCounted(Tail(T))
RepTokens(u, n, tail, D) ==
  LET tt == MaxRuns(tail, D) IN
  MergeCounted((IF n = 0 THEN <<>> ELSE <<<<MaxRuns(u, D)[1], n>>>>) \o [i \in DOMAIN tt |-> <<tt[i], 1>>])
Rep(u, n) == Concat([i \in 1..n |-> u])
ExpandCounted(T) == Concat([i \in DOMAIN T |-> [k \in 1..T[i][2] |-> T[i][1]]])

-------------------------------------------------------------------------------
\* Laws: block operations are the character operations
BlockLawsTok(B, D) ==
  /\ [i \in DOMAIN BTokens(B, D) |-> Expand(BTokens(B, D)[i])] = MaxRuns(Expand(B), D)
  /\ \A i \in DOMAIN BTokens(B, D) : IsCanon(BTokens(B, D)[i])
  /\ Expand(BNonDelim(B, D)) = NonDelim(Expand(B), D) /\ IsCanon(BNonDelim(B, D))
BlockLawsPrefix(A, B) ==
  /\ Expand(BLcp(A, B)) = LCP(Expand(A), Expand(B)) /\ IsCanon(BLcp(A, B))
  /\ BIsPrefixOf(B, A) = IsPrefixOf(Expand(B), Expand(A))
BlockLawsFile(B, X, G) ==
  LET f == Expand(B) IN
  /\ Expand(BPathOf(B)) = PathOf(f) /\ Expand(BBaseOf(B)) = BaseOf(f)
  /\ Expand(BNameOf(B)) = NameOf(f) /\ Expand(BExtOf(B)) = ExtOf(f)
  /\ Expand(BDropExt(B)) = DropExt(f) /\ IsCanon(BDropExt(B))
  /\ Expand(BSetExt(B, X)) = SetExt(f, Expand(X)) /\ IsCanon(BSetExt(B, X))
  /\ Expand(BAddExt(B, X)) = AddExt(f, Expand(X)) /\ IsCanon(BAddExt(B, X))
  /\ Expand(BJoin(B, G)) = JoinNames(f, Expand(G)) /\ IsCanon(BJoin(B, G))
  /\ BLen(B) = Len(f)
RepLaw(u, n, tail, D) == ExpandCounted(RepTokens(u, n, tail, D)) = MaxRuns(Rep(u, n) \o tail, D)
===============================================================================
