----------------------------- MODULE ArgListTrace -----------------------------
(* Trace specification: is a recorded execution of the real ArgumentList /    *)
(* parseAndRemove (or of removeArgs on a raw argc/argv) a behaviour of        *)
(* ArgList?  Each recorded line {a, arg, obs} must be the next action of the  *)
(* specification with those arguments and every observable the specification  *)
(* computes for that step must equal what was observed.                       *)
EXTENDS ArgList, Json, IOUtils, TLCExt

VARIABLE l
tvars == <<args, made, last, l>>

TraceLines == ndJsonDeserialize(IOEnv.TRACE)
NL == Len(TraceLines)
Line == TraceLines[l]

ObsMatches == \A f \in DOMAIN last'.exp : f \in DOMAIN Line.obs /\ Line.obs[f] = last'.exp[f]

TInit == Init /\ l = 1

Dispatch ==
  \/ Line.a = "Construct" /\ Construct(Line.arg.v)
  \/ Line.a = "Get" /\ Get(Line.arg.i)
  \/ Line.a = "Remove" /\ Remove(Line.arg.w, Line.arg.h)
  \/ Line.a = "ParseAndRemove" /\ ParseAndRemove(Line.arg.cnt)
  \* record mode: the driver reduced random arguments into the range the real object reported and logged the ones it used
  \/ Line.a = "RemoveMod" /\ Remove(Line.obs.w, Line.obs.h)
  \/ Line.a = "GetMod" /\ ~Line.obs.skip /\ Get(Line.obs.i)
  \/ Line.a = "GetMod" /\ Line.obs.skip /\ made /\ args = <<>> /\ UNCHANGED <<args, made>>      \* nothing to get from an empty list
        /\ last' = [a |-> "Skip", arg |-> <<>>, cls |-> "", exp |-> Proj(args)]

TStep  == l <= NL /\ Line.a # "Reset" /\ Dispatch /\ ObsMatches /\ l' = l + 1
TReset == l <= NL /\ Line.a = "Reset" /\ args' = <<>> /\ made' = FALSE
          /\ last' = [a |-> "Init", arg |-> <<>>, cls |-> "", exp |-> Proj(<<>>)] /\ l' = l + 1
TNext  == TStep \/ TReset
TSpec  == TInit /\ [][TNext]_tvars

Accepted == TLCGet("stats").diameter - 1 = NL
Post == IF Accepted THEN TRUE
        ELSE /\ PrintT(<<"TRACE-REJECTED-AT-LINE", TLCGet("stats").diameter, "OF", NL>>)
             /\ FALSE
===============================================================================
