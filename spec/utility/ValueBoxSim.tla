------------------------------ MODULE ValueBoxSim ------------------------------
(* Random-walk generator: TLC in simulation mode (-simulate num=.., -depth L+1, *)
(* -seed S) walks the specification over a larger universe; every walk of L    *)
(* steps is written as one JSON file (sequence of [a, arg, cls]).  The walks   *)
(* are executed by the driver and the recorded observations are validated by   *)
(* ValueBoxTrace (code -> spec).  The stateless layout probes are left out of the walks.      *)
EXTENDS ValueBox, Json, IOUtils, TLCExt

CONSTANT L
VARIABLE hist
svars == <<st, last, hist>>

InitS == Init /\ hist = <<>>
NextS == NextCore /\ hist' = Append(hist, [a |-> last'.a, arg |-> last'.arg, cls |-> last'.cls])
SpecS == InitS /\ [][NextS]_svars

Emit == Len(hist) = L =>
          JsonSerialize(IOEnv.OUT \o "-" \o ToString(TLCGet("stats").traces) \o ".json", hist)
===============================================================================
