------------------------------- MODULE UrlObjs -------------------------------
(* Several PseudoURL OBJECTS used interleaved (property C18, boundary audit,  *)
(* class "history"): what one parsed URL answers must not depend on another   *)
(* URL parsed before or after it, on an earlier getValue() that threw, or on  *)
(* the object having been copied / assigned (also onto itself).  State: two   *)
(* slots holding the parts of a URL or nothing; after every action both       *)
(* objects are asked for everything again.                                    *)
EXTENDS PseudoUrl, TLC

VARIABLES pu, last
vars == <<pu, last>>
Slots == {1, 2}

\* the URLs: <<type, file, params>>
Urls == << <<<<"t">>, <<"f", "1">>, <<<<<<"n">>, <<"v">>>>, <<<<"n">>, <<"w">>>>>>>>,
           <<<<>>, <<"d", "/", "g">>, <<<<<<"m">>, <<>>>>>>>>,
           <<<<"t", "y">>, <<"h">>, <<>>>>,
           <<<<"u">>, <<"f", "1">>, <<<<<<"m">>, <<"x">>>>, <<<<"n">>, <<"y">>>>, <<<<"m">>, <<"z", "z">>>>>>>> >>
Query == <<<<"q">>, <<"n">>, <<"m">>, <<"q">>>>          \* an absent name first and last

ASSUME \A k \in DOMAIN Urls : RoundTrip(Urls[k][1], Urls[k][2], Urls[k][3])

Text(k) == Join(Assemble(Urls[k][1], Urls[k][2], Urls[k][3]))
Ans(k, n) == LET ps == Urls[k][3] IN
             [n |-> Join(n), has |-> HasName(ps, n), throws |-> ~HasName(ps, n), val |-> IF HasName(ps, n) THEN Join(LastValue(ps, n)) ELSE ""]
Obs(k) == IF k = 0 THEN [set |-> FALSE]
          ELSE [set |-> TRUE, type |-> Join(Urls[k][1]), fileName |-> Join(Urls[k][2]), params |-> [i \in DOMAIN Query |-> Ans(k, Query[i])]]
Proj(P) == [u1 |-> Obs(P[1]), u2 |-> Obs(P[2])]

Init == pu = [i \in Slots |-> 0] /\ last = [a |-> "Init", arg |-> <<>>, exp |-> Proj([i \in Slots |-> 0])]

New(d, k)  == pu' = [pu EXCEPT ![d] = k] /\ last' = [a |-> "PuNew", arg |-> [d |-> d, u |-> Text(k)], exp |-> Proj(pu')]
\* copy construction (empty destination) or copy assignment (d = s: onto itself)
Copy(d, s) == pu[s] # 0 /\ pu' = [pu EXCEPT ![d] = pu[s]] /\ last' = [a |-> "PuCopy", arg |-> [d |-> d, s |-> s], exp |-> Proj(pu')]
\* a single query (possibly throwing), then everything is asked again
Ask(d, i)  == pu[d] # 0 /\ UNCHANGED pu
              /\ last' = [a |-> "PuAsk", arg |-> [d |-> d, n |-> Join(Query[i])], exp |-> [ret |-> Ans(pu[d], Query[i])] @@ Proj(pu)]
Drop(d)    == pu[d] # 0 /\ pu' = [pu EXCEPT ![d] = 0] /\ last' = [a |-> "PuDrop", arg |-> [d |-> d], exp |-> Proj(pu')]

Next == \/ \E d \in Slots, k \in DOMAIN Urls : New(d, k)
        \/ \E d \in Slots, s \in Slots : Copy(d, s)
        \/ \E d \in Slots, i \in DOMAIN Query : Ask(d, i)
        \/ \E d \in Slots : Drop(d)
Spec == Init /\ [][Next]_vars
LastAgrees == \A f \in DOMAIN Proj(pu) : last.exp[f] = Proj(pu)[f]
===============================================================================
