-------------------------------- MODULE FarGap --------------------------------
(* "Far stamps" (property C19): TimeStamp values are size_t, so the statement *)
(* also covers histories in which the process-wide counter moves by 2^31,     *)
(* 2^32 or more between two things the contract relates - an observer's       *)
(* previous poll and the next notification, two stamps that are compared.     *)
(* In the specifications stamps stay abstract (a pending bit, ordinals), so    *)
(* such a gap changes NOTHING in the contract; it is an action of the history *)
(* alphabet, Advance(cls), that only says how far the counter moves:          *)
(*                                                                            *)
(*   after Advance(cls) the next value handed out lies exactly Dist(cls)      *)
(*   above the last value handed out before it (Dist(cls) - 1 values are      *)
(*   drawn and thrown away in between).                                       *)
(*                                                                            *)
(* Distances are beyond TLC's integers: they are written as two limbs,        *)
(* base 2^30 (value = hi * 2^30 + lo), and never as one number.               *)
EXTENDS Integers, Sequences

FarBase == 1073741824                                   \* 2^30
FarClasses == {"below-2^31", "at-2^31", "above-2^31", "at-2^32", "above-2^32"}
FarDist(cls) == CASE cls = "below-2^31" -> <<1, FarBase - 1>>     \* 2^31 - 1
                  [] cls = "at-2^31"    -> <<2, 0>>               \* 2^31
                  [] cls = "above-2^31" -> <<2, 1>>               \* 2^31 + 1
                  [] cls = "at-2^32"    -> <<4, 0>>               \* 2^32
                  [] cls = "above-2^32" -> <<4, 1>>               \* 2^32 + 1

LimbSucc(v) == IF v[2] + 1 = FarBase THEN <<v[1] + 1, 0>> ELSE <<v[1], v[2] + 1>>
\* the table is what the names say: 2^31 = 2 * 2^30, 2^32 = 4 * 2^30, and the neighbours are neighbours
ASSUME /\ LimbSucc(FarDist("below-2^31")) = FarDist("at-2^31") /\ LimbSucc(FarDist("at-2^31")) = FarDist("above-2^31")
       /\ LimbSucc(FarDist("at-2^32")) = FarDist("above-2^32")
       /\ FarDist("at-2^31") = <<2, 0>> /\ FarDist("at-2^32") = <<2 * 2, 0>> /\ FarBase = 32768 * 32768
===============================================================================
