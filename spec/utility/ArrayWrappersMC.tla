---------------------------- MODULE ArrayWrappersMC ----------------------------
(* Model-checking instance of ArrayWrappers: every history of at most K steps  *)
(* (K from the .cfg) over all wrapper kinds; the invariants and action         *)
(* properties of ArrayWrappers are what property C11 states about ownership.   *)
EXTENDS ArrayWrappers

CONSTANT K
VARIABLE depth
varsD == <<wr, src, bufs, last, depth>>

InitD == Init /\ depth = 0
NextD == Next /\ depth' = depth + 1
SpecD == InitD /\ [][NextD]_varsD
DepthBound == depth < K
===============================================================================
