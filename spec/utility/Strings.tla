------------------------------- MODULE Strings -------------------------------
(* Reference meaning of the string helpers of rkcommon/utility/StringManip.h   *)
(* and of PseudoURL's tokenize (property C18, first sentence).                 *)
(*                                                                             *)
(* A string is a sequence of one-character strings (<<"a", ":", "b">>), a      *)
(* delimiter set is a set of one-character strings.  The property talks about  *)
(*   - the maximal delimiter-free runs of a string (what split / tokenize must *)
(*     return once empty tokens are dropped, one-character runs included),     *)
(*   - the longest common prefix and the prefix relation.                      *)
(* MaxRuns / LCP are written declaratively (from the statement); Tokens is an  *)
(* operational left-to-right scan.  StringsGen checks that they agree and that *)
(* the decomposition laws hold on the whole bounded domain before any expected *)
(* value is handed to the conformance driver.                                  *)
EXTENDS Integers, Sequences, FiniteSets

Min2(a, b) == IF a <= b THEN a ELSE b

\* all strings of length <= n over alphabet A
StrUpTo(A, n) == UNION {[1..k -> A] : k \in 0..n}

\* TLC string of a character sequence (for JSON output) -------------------------
RECURSIVE Join(_)
Join(s) == IF s = <<>> THEN "" ELSE s[1] \o Join(Tail(s))
JoinAll(ts) == [i \in 1..Len(ts) |-> Join(ts[i])]

RECURSIVE Concat(_)
Concat(ss) == IF ss = <<>> THEN <<>> ELSE ss[1] \o Concat(Tail(ss))

NonDelim(s, D) == SelectSeq(s, LAMBDA c : c \notin D)

-------------------------------------------------------------------------------
\* Declarative: the maximal delimiter-free runs of s, in order of occurrence.
RunIntervals(s, D) ==
  {p \in (1..Len(s)) \X (1..Len(s)) :
     /\ p[1] <= p[2]
     /\ \A k \in p[1]..p[2] : s[k] \notin D                \* delimiter-free
     /\ (p[1] = 1 \/ s[p[1] - 1] \in D)                    \* not extendable to the left
     /\ (p[2] = Len(s) \/ s[p[2] + 1] \in D)}              \* not extendable to the right

MaxRuns(s, D) ==
  LET I == RunIntervals(s, D)
      nth(k) == CHOOSE p \in I : Cardinality({q \in I : q[1] < p[1]}) = k - 1
  IN [k \in 1..Cardinality(I) |-> SubSeq(s, nth(k)[1], nth(k)[2])]

\* Operational: one left-to-right scan (used for long recorded inputs; proved
\* equal to MaxRuns on the bounded domain by StringsGen).
RECURSIVE Scan(_, _, _, _)
Scan(s, D, i, cur) ==
  LET flush == IF cur = <<>> THEN <<>> ELSE <<cur>> IN
  IF i > Len(s) THEN flush
  ELSE IF s[i] \in D THEN flush \o Scan(s, D, i + 1, <<>>)
  ELSE Scan(s, D, i + 1, Append(cur, s[i]))
Tokens(s, D) == Scan(s, D, 1, <<>>)

\* input class of a split / tokenize call: the shortest token it must return
TokClass(toks) ==
  IF toks = <<>> THEN "notok"
  ELSE IF \E i \in DOMAIN toks : Len(toks[i]) = 1 THEN "mintok=1"
  ELSE "mintok>1"

-------------------------------------------------------------------------------
IsPrefixOf(p, s) == Len(p) <= Len(s) /\ SubSeq(s, 1, Len(p)) = p

\* the longest string that is a prefix of both
LCP(a, b) ==
  LET K == {k \in 0..Min2(Len(a), Len(b)) : SubSeq(a, 1, k) = SubSeq(b, 1, k)}
      n == CHOOSE k \in K : \A j \in K : j <= k
  IN SubSeq(a, 1, n)

\* operational twin of LCP for long inputs
RECURSIVE LcpLen(_, _, _)
LcpLen(a, b, i) == IF i > Len(a) \/ i > Len(b) \/ a[i] # b[i] THEN i - 1 ELSE LcpLen(a, b, i + 1)
LcpScan(a, b) == SubSeq(a, 1, LcpLen(a, b, 1))

-------------------------------------------------------------------------------
\* Laws of the specification itself (checked by TLC over a bounded domain)
RunLaws(s, D) ==
  LET r == MaxRuns(s, D) IN
  /\ Concat(r) = NonDelim(s, D)                                   \* re-joining gives the non-delimiter content in order
  /\ \A i \in DOMAIN r : r[i] # <<>> /\ \A k \in DOMAIN r[i] : r[i][k] \notin D
  /\ Len(r) = Cardinality({i \in DOMAIN s : s[i] \notin D /\ (i = 1 \/ s[i - 1] \in D)})   \* one run per run start: maximality
  /\ Tokens(s, D) = r                                             \* scan = declarative
  /\ (\A c \in D :                                                \* joining the runs with one delimiter and splitting again is the identity
        LET j == Concat([i \in DOMAIN r |-> IF i = 1 THEN r[i] ELSE <<c>> \o r[i]]) IN MaxRuns(j, D) = r)

PrefixLaws(a, b) ==
  LET p == LCP(a, b) IN
  /\ IsPrefixOf(p, a) /\ IsPrefixOf(p, b)
  /\ (Len(p) = Len(a) \/ Len(p) = Len(b) \/ a[Len(p) + 1] # b[Len(p) + 1])   \* not extendable
  /\ p = LCP(b, a)
  /\ p = LcpScan(a, b)
  /\ (IsPrefixOf(b, a) <=> p = b)
===============================================================================
