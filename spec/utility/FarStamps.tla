------------------------------ MODULE FarStamps ------------------------------
(* Far-stamp histories of property C19: the process-wide TimeStamp counter    *)
(* moves by 2^31 - 1 .. 2^32 + 1 (FarGap.tla) between an observer's previous  *)
(* poll / creation and the next notification, between two notifications, and  *)
(* between TimeStamp values that are then compared, copied and renewed.       *)
(*                                                                            *)
(* Nothing changes in the contract: this module is the PRODUCT of the two     *)
(* contract specifications - Observers (through ObserversMC, so that the      *)
(* declarative reading over the history is checked along the way) and         *)
(* StampCells - driven by a script, plus the action Advance(cls) that leaves  *)
(* both untouched.  TLC computes what every call of the script must return    *)
(* (`last`, taken from whichever component acts) and checks the invariants    *)
(* and action properties of both components on these histories; the           *)
(* conformance driver performs the script on the real objects, drawing the    *)
(* Dist(cls) - 1 values of the Advance from the real counter.                 *)
(*                                                                            *)
(* The script (one history per far class, chosen in Init) places, exactly     *)
(* Dist(cls) after the stamp of observer 2's last poll, a notification of its *)
(* observable; observers 1 (never polled) and 3 (a notification pending from  *)
(* before the gap) are a few stamps further away; observer 4 is created       *)
(* after the gap.  Each notification must be reported exactly once.  Stamps   *)
(* A, its copy and C are created before the gap and renewed / copied /        *)
(* compared after it.                                                         *)
EXTENDS ObserversMC

CONSTANTS Cells, MaxFresh,
          Classes          \* the far classes to produce a history for

VARIABLES cell, n, lastC,  \* the StampCells component (its `last` is lastC)
          pc, far          \* position in the script, far class of this history
fvars == <<oalive, balive, att, pending, last, hist, cell, n, lastC, pc, far>>

SC == INSTANCE StampCells WITH last <- lastC

E(a, arg) == [a |-> a, arg |-> arg]
Script(cls) == <<
  \* before the gap: three stamps ...
  E("Create", [s |-> 1]), E("CopyCtor", [s |-> 2, t |-> 1]), E("Create", [s |-> 3]),
  \* ... two observables, three observers; observer 2 has polled, observer 3 has a notification pending, observer 1 neither
  E("CreateObservable", [o |-> 1]), E("CreateObservable", [o |-> 2]),
  E("CreateObserver", [b |-> 1, o |-> 1]), E("CreateObserver", [b |-> 3, o |-> 2]), E("CreateObserver", [b |-> 2, o |-> 2]),
  E("Notify", [o |-> 2]), E("Poll", [b |-> 2]),
  \* the gap: the next stamp lies exactly Dist(cls) above the one observer 2 took in its poll
  E("Advance", [cls |-> cls]),
  E("Notify", [o |-> 2]), E("Notify", [o |-> 1]),
  \* stamps across the gap: renew, copy, compare (ranks), move
  E("Renew", [s |-> 3]), E("CopyAssign", [s |-> 1, t |-> 3]), E("Renew", [s |-> 2]), E("CopyAssign", [s |-> 3, t |-> 1]),
  \* every observer sees the notification across the gap, once
  E("Poll", [b |-> 2]), E("Poll", [b |-> 2]), E("Poll", [b |-> 1]), E("Poll", [b |-> 1]), E("Poll", [b |-> 3]), E("Poll", [b |-> 3]),
  \* an observer created after the gap has seen everything; then business as usual
  E("CreateObserver", [b |-> 4, o |-> 1]), E("Poll", [b |-> 4]), E("Notify", [o |-> 1]), E("PollAll", <<>>), E("PollAll", <<>>),
  E("MoveAssign", [s |-> 2, t |-> 1]), E("Destroy", [s |-> 3]), E("Renew", [s |-> 2]),
  E("DestroyObservable", [o |-> 2]), E("Poll", [b |-> 3]), E("Teardown", [order |-> "observers_first"]) >>

Cur == Script(far)[pc]

ObserverStep(e) ==
  /\ \/ e.a = "CreateObservable" /\ CreateObservable(e.arg.o)
     \/ e.a = "CreateObserver" /\ CreateObserver(e.arg.b, e.arg.o)
     \/ e.a = "Notify" /\ Notify(e.arg.o)
     \/ e.a = "Poll" /\ Poll(e.arg.b)
     \/ e.a = "PollAll" /\ PollAll
     \/ e.a = "DestroyObservable" /\ DestroyObservable(e.arg.o)
     \/ e.a = "DestroyObserver" /\ DestroyObserver(e.arg.b)
     \/ e.a = "Teardown" /\ Teardown(e.arg.order)
     \/ e.a = "Advance" /\ Advance(e.arg.cls)
  /\ hist' = Append(hist, [a |-> last'.a, arg |-> last'.arg])
  /\ UNCHANGED <<cell, n, lastC>>

CellNames == {"Create", "Renew", "Destroy", "CopyCtor", "MoveCtor", "CopyAssign", "MoveAssign"}
CellStep(e) ==
  /\ \/ e.a = "Create" /\ SC!Create(e.arg.s)
     \/ e.a = "Renew" /\ SC!Renew(e.arg.s)
     \/ e.a = "Destroy" /\ SC!Destroy(e.arg.s)
     \/ e.a = "CopyCtor" /\ SC!CopyCtor(e.arg.s, e.arg.t)
     \/ e.a = "MoveCtor" /\ SC!MoveCtor(e.arg.s, e.arg.t)
     \/ e.a = "CopyAssign" /\ SC!CopyAssign(e.arg.s, e.arg.t)
     \/ e.a = "MoveAssign" /\ SC!MoveAssign(e.arg.s, e.arg.t)
  /\ last' = lastC'                     \* the record of this step is the acting component's
  /\ UNCHANGED <<oalive, balive, att, pending, hist>>

FInit == /\ InitH /\ SC!Init
         /\ pc = 1 /\ far \in Classes

FNext == /\ pc <= Len(Script(far))
         /\ IF Cur.a \in CellNames THEN CellStep(Cur) ELSE ObserverStep(Cur)
         /\ last'.a = Cur.a             \* the script is executable: no step is refused
         /\ pc' = pc + 1 /\ far' = far

FSpec == FInit /\ [][FNext]_fvars

-------------------------------------------------------------------------------
\* the StampCells component's own invariants and action properties (names usable in a .cfg)
CellsTypeOK == SC!TypeOK
CellsRanksFaithful == SC!RanksFaithful
CellsFreshIsLargest == SC!FreshIsLargest
CellsCopiesCarry == SC!CopiesCarry

ClassesOK == Classes \subseteq FarClasses /\ Classes # {}
ASSUME ClassesOK

\* the whole script is performed (otherwise the run deadlocks early and this is violated at the last state reached)
Finished == pc = Len(Script(far)) + 1
\* across the gap each notification is reported exactly once: the polls of the script that follow the gap
\* (checked here explicitly, in addition to PollReturnsDeclared)
SeenOnceAcrossGap ==
  Finished =>
    LET polls(b) == SelectSeq(hist, LAMBDA x : x.a = "Poll" /\ x.arg.b = b) IN
    /\ Len(polls(1)) = 2 /\ Len(polls(2)) = 3 /\ Len(polls(3)) = 3
===============================================================================
