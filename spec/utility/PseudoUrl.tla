------------------------------ MODULE PseudoUrl ------------------------------
(* Reference meaning of rkcommon::utility::PseudoURL (property C18, second    *)
(* sentence): a pseudo-URL  <type>://<filename>[:name=value]*  assembled from *)
(* a type, a file name and name=value pairs parses back into exactly those    *)
(* parts, the last duplicate of a name winning; a name that was not given has *)
(* no value (hasParam false, getValue throws).                                *)
(*                                                                            *)
(* Assemble is the syntax of PseudoURL.h; Parse is a reference parser written *)
(* from that syntax with the run decomposition of Strings.  PseudoUrlGen      *)
(* checks Parse(Assemble(parts)) = parts on the bounded domain, so that the   *)
(* expectations handed to the driver (the parts themselves) are consistent    *)
(* with the documented syntax.                                                *)
EXTENDS Strings


SchemeSep == <<":", "/", "/">>

\* params: a sequence of <<name, value>> pairs (character sequences)
Assemble(type, file, params) ==
  (IF type = <<>> THEN <<>> ELSE type \o SchemeSep)
  \o file
  \o Concat([i \in DOMAIN params |-> <<":">> \o params[i][1] \o <<"=">> \o params[i][2]])

\* position of the first "://" in u (0 if none)
SchemePos(u) ==
  LET P == {i \in 1..(Len(u) - 2) : SubSeq(u, i, i + 2) = SchemeSep}
  IN IF P = {} THEN 0 ELSE CHOOSE i \in P : \A j \in P : i <= j

FirstIdx(s, c) ==
  LET P == {i \in DOMAIN s : s[i] = c} IN IF P = {} THEN 0 ELSE CHOOSE i \in P : \A j \in P : i <= j

Parse(u) ==
  LET sp   == SchemePos(u)
      type == IF sp = 0 THEN <<>> ELSE SubSeq(u, 1, sp - 1)
      rest == IF sp = 0 THEN u ELSE SubSeq(u, sp + 3, Len(u))
      comp == MaxRuns(rest, {":"})
      kv(t) == LET e == FirstIdx(t, "=") IN
               IF e = 0 THEN <<t, <<>>>> ELSE <<SubSeq(t, 1, e - 1), SubSeq(t, e + 1, Len(t))>>
  IN [type   |-> type,
      file   |-> IF comp = <<>> THEN <<>> ELSE comp[1],
      params |-> IF comp = <<>> THEN <<>> ELSE [i \in 1..(Len(comp) - 1) |-> kv(comp[i + 1])]]

\* the last duplicate wins
HasName(params, n) == \E i \in DOMAIN params : params[i][1] = n
LastValue(params, n) ==
  LET P == {i \in DOMAIN params : params[i][1] = n}
  IN params[CHOOSE i \in P : \A j \in P : j <= i][2]

RoundTrip(type, file, params) ==
  Parse(Assemble(type, file, params)) = [type |-> type, file |-> file, params |-> params]
===============================================================================
