SPECIFICATION FSpec
CONSTANTS
  Subjects = {1, 2}
  Watchers = {1, 2, 3, 4}
  K = 100
  Cells = {1, 2, 3}
  MaxFresh = 100
  Classes = {"below-2^31", "at-2^31", "above-2^31", "at-2^32", "above-2^32"}
INVARIANTS TypeOK NothingDangles OrphanSilent AgreesWithHistory PollReturnsDeclared SeenOnceAcrossGap CellsTypeOK CellsRanksFaithful
PROPERTIES Independent CellsFreshIsLargest CellsCopiesCarry
CHECK_DEADLOCK FALSE
