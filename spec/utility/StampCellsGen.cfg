SPECIFICATION Spec
CONSTANTS
  Cells = {1, 2, 3}
  MaxFresh = 4
INVARIANTS TypeOK RanksFaithful
PROPERTIES FreshIsLargest CopiesCarry
CHECK_DEADLOCK FALSE
