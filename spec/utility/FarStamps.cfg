SPECIFICATION FSpec
CONSTANTS
  Subjects = {1, 2}
  Watchers = {1, 2, 3, 4}
  K = 100
  Cells = {1, 2, 3}
  MaxFresh = 100
  Classes = {"above-2^31"}
INVARIANTS TypeOK NothingDangles OrphanSilent AgreesWithHistory PollReturnsDeclared SeenOnceAcrossGap CellsTypeOK CellsRanksFaithful
PROPERTIES Independent CellsFreshIsLargest CellsCopiesCarry
CHECK_DEADLOCK FALSE
