CONSTANTS
  Lens = {15, 16, 17, 255, 256, 257, 4095, 4096, 4097}
