------------------------------ MODULE ArgListMC ------------------------------
(* Model-checking instance of ArgList.  Every constructed argument is tagged  *)
(* with its original position (ghost `alive`: the original positions still in *)
(* the list); a second, mechanism-shaped definition of the parser pass (the   *)
(* in-place loop of ArgumentList.h: index, tryConsume, remove) is compared    *)
(* with the declarative Kept.  Invariants = the property statement:           *)
(*   the list is exactly the subsequence of the original vector at the        *)
(*   positions never consumed, in original order.                             *)
EXTENDS ArgList

VARIABLES orig, alive, consumed
varsG == <<args, made, last, orig, alive, consumed>>

\* the loop of parseAndRemove, literally: for (id = 0; id < size;) { n = tryConsume(id); n == 0 ? ++id : remove(id, n) }
RECURSIVE Loop(_, _, _)
Loop(v, cnt, id) ==
  IF id >= Len(v) THEN v
  ELSE LET n == Min2(cnt[v[id + 1]], Len(v) - id) IN
       IF n = 0 THEN Loop(v, cnt, id + 1) ELSE Loop(RemoveAt(v, id, n), cnt, id)

\* positions (indices into the current list) consumed by a pass
KeptIdx(v, cnt) == {i \in DOMAIN v : i \notin ConsumedPos(v, cnt, 1)}
SubAt(s, I) == LET n == Cardinality(I)
                   nth(k) == CHOOSE i \in I : Cardinality({j \in I : j < i}) = k - 1
               IN [k \in 1..n |-> s[nth(k)]]

InitG == Init /\ orig = <<>> /\ alive = <<>> /\ consumed = {}

NextG ==
  \/ \E v \in Vectors : Construct(v) /\ orig' = v /\ alive' = [i \in DOMAIN v |-> i] /\ consumed' = {}
  \/ \E i \in 0..(MaxLen - 1) : Get(i) /\ UNCHANGED <<orig, alive, consumed>>
  \/ \E w \in 0..MaxLen, h \in 0..MaxLen :
        /\ Remove(w, h)
        /\ consumed' = consumed \cup {alive[k] : k \in (w + 1)..(w + h)}
        /\ alive' = SubAt(alive, DOMAIN alive \ ((w + 1)..(w + h)))
        /\ UNCHANGED orig
  \/ \E cnt \in Parsers :
        /\ ParseAndRemove(cnt)
        /\ consumed' = consumed \cup {alive[k] : k \in ConsumedPos(args, cnt, 1)}
        /\ alive' = SubAt(alive, KeptIdx(args, cnt))
        /\ UNCHANGED orig

SpecG == InitG /\ [][NextG]_varsG

\* exactly the unconsumed arguments, in their original order
KeepsUnconsumed ==
  /\ args = [k \in DOMAIN alive |-> orig[alive[k]]]
  /\ \A j, k \in DOMAIN alive : j < k => alive[j] < alive[k]
  /\ {alive[k] : k \in DOMAIN alive} = DOMAIN orig \ consumed

\* the in-place loop computes the declarative pass (checked in every reachable state for every parser)
LoopIsKept == \A cnt \in Parsers : Loop(args, cnt, 0) = Kept(args, cnt, 1)

PassLaws == \A cnt \in Parsers :
  LET C == ConsumedPos(args, cnt, 1) IN
  /\ Kept(args, cnt, 1) = SubAt(args, DOMAIN args \ C)
  /\ Len(Kept(args, cnt, 1)) + Cardinality(C) = Len(args)
  /\ \A i \in DOMAIN args \ C : cnt[args[i]] = 0                 \* a kept argument was declined by the parser
  /\ \A i \in C : \E h \in C : h <= i /\ cnt[args[h]] > 0 /\ i < h + cnt[args[h]]   \* a consumed one belongs to a recognised head
  /\ (\A s \in Syms : cnt[s] = 0) => C = {}
===============================================================================
