SPECIFICATION SpecG
CONSTANTS
  NW = 2
  NV = 1
  NA = 0
  Kinds = {"ArrayView", "OwnedArray", "FixedArray", "FixedArrayView"}
  Modes = {"src", "ptr", "size", "copy", "fview"}
  Acts = {"Construct", "Assign", "Reset", "ResetPtr", "Resize", "Write", "Destroy", "SrcMake", "SrcWrite", "SrcResize", "SrcDestroy"}
  Sizes = {0, 257, 65536}
  MaxLen = 65536
  ArrLen = 3
  PtrSel = "big"
  Palettes = {0}
  Sym = TRUE
  Excl = {}
  Variant = "contract"
  Prefix = "vec"
