CONSTANTS
  N = 5
