------------------------------ MODULE StampCells ------------------------------
(* rkcommon::utility::TimeStamp as a value type on one thread (property C19,  *)
(* second sentence, sequential reading): a stamp freshly created or renewed   *)
(* carries a value larger than every value obtained before (hence distinct    *)
(* from all others); copies carry their source's value.                       *)
(*                                                                            *)
(* State: cells Cells, each empty, or holding a TimeStamp object.  The        *)
(* statement does not say WHICH numbers are handed out (the real copy         *)
(* constructor, for one, draws a value and throws it away), only how they     *)
(* compare.  So a cell holds the ordinal of the creation / renewal its value  *)
(* stems from: cell[s] = k means "the k-th value handed out in this history". *)
(* The contract is: the real values are a strictly increasing function of     *)
(* these ordinals.  What is compared with the real objects is therefore       *)
(*   ranks   the dense rank of each cell's value among the live cells         *)
(*           (0 = empty cell), read with operator size_t and <                *)
(*   newmax  whether the cell written by this step now carries a value above  *)
(*           every value seen earlier in the history                          *)
(* and, in recorded traces, the values themselves (StampCellsTrace).          *)
(*                                                                            *)
(* Moves: the statement speaks of copies; a move is a copy whose source may   *)
(* be given up.  The destination must carry the source's value; the source    *)
(* afterwards is left unconstrained (Moved: not read until it is assigned,    *)
(* renewed or destroyed).                                                     *)
EXTENDS Integers, Sequences, FiniteSets, TLC, FarGap

CONSTANTS Cells,      \* 1..NC
          MaxFresh    \* bound on values handed out (model checking / generation)

Empty == 0
Moved == -1

VARIABLES cell,       \* cell[s] \in {Empty, Moved} \cup 1..n
          n,          \* values handed out so far
          last
vars == <<cell, n, last>>

Holds(s)   == cell[s] # Empty                       \* an object lives in the cell (possibly moved-from)
Readable(s) == cell[s] > 0
Rank(c, s) == IF c[s] <= 0 THEN c[s] ELSE 1 + Cardinality({c[t] : t \in {u \in Cells : c[u] > 0 /\ c[u] < c[s]}})
Proj(c)    == [ranks |-> [s \in Cells |-> Rank(c, s)]]

Init == cell = [s \in Cells |-> Empty] /\ n = 0
        /\ last = [a |-> "Init", arg |-> <<>>, cls |-> "", exp |-> [newmax |-> FALSE] @@ Proj([s \in Cells |-> Empty])]

TypeOK == cell \in [Cells -> {Empty, Moved} \cup 1..n] /\ n \in 0..MaxFresh

CanCreate(s)        == s \in Cells /\ ~Holds(s) /\ n < MaxFresh
CanRenew(s)         == s \in Cells /\ Holds(s) /\ n < MaxFresh
CanCopyCtor(s, t)   == s \in Cells /\ t \in Cells /\ ~Holds(s) /\ Readable(t)
CanAssign(s, t)     == s \in Cells /\ t \in Cells /\ Holds(s) /\ Readable(t)
CanDestroy(s)       == s \in Cells /\ Holds(s)

SrcCls(s, t) == IF s = t THEN "self" ELSE IF cell[s] = Moved THEN "dst=moved-from" ELSE "other"

\* TimeStamp(): a fresh value
Create(s) ==
  /\ CanCreate(s)
  /\ n' = n + 1 /\ cell' = [cell EXCEPT ![s] = n + 1]
  /\ last' = [a |-> "Create", arg |-> [s |-> s], cls |-> "", exp |-> [newmax |-> TRUE] @@ Proj(cell')]

\* renew(): a fresh value (also revives a moved-from stamp)
Renew(s) ==
  /\ CanRenew(s)
  /\ n' = n + 1 /\ cell' = [cell EXCEPT ![s] = n + 1]
  /\ last' = [a |-> "Renew", arg |-> [s |-> s], cls |-> IF cell[s] = Moved THEN "moved-from" ELSE "",
              exp |-> [newmax |-> TRUE] @@ Proj(cell')]

\* TimeStamp(const TimeStamp&): the source's value, nothing new
CopyCtor(s, t) ==
  /\ CanCopyCtor(s, t)
  /\ n' = n /\ cell' = [cell EXCEPT ![s] = cell[t]]
  /\ last' = [a |-> "CopyCtor", arg |-> [s |-> s, t |-> t], cls |-> "", exp |-> [newmax |-> FALSE] @@ Proj(cell')]

\* TimeStamp(TimeStamp&&)
MoveCtor(s, t) ==
  /\ CanCopyCtor(s, t)
  /\ n' = n /\ cell' = [cell EXCEPT ![s] = cell[t], ![t] = Moved]
  /\ last' = [a |-> "MoveCtor", arg |-> [s |-> s, t |-> t], cls |-> "", exp |-> [newmax |-> FALSE] @@ Proj(cell')]

\* operator=(const TimeStamp&), self-assignment included
CopyAssign(s, t) ==
  /\ CanAssign(s, t)
  /\ n' = n /\ cell' = [cell EXCEPT ![s] = cell[t]]
  /\ last' = [a |-> "CopyAssign", arg |-> [s |-> s, t |-> t], cls |-> SrcCls(s, t), exp |-> [newmax |-> FALSE] @@ Proj(cell')]

\* operator=(TimeStamp&&); a self-move leaves the object unconstrained
MoveAssign(s, t) ==
  /\ CanAssign(s, t)
  /\ n' = n /\ cell' = IF s = t THEN [cell EXCEPT ![s] = Moved] ELSE [cell EXCEPT ![s] = cell[t], ![t] = Moved]
  /\ last' = [a |-> "MoveAssign", arg |-> [s |-> s, t |-> t], cls |-> SrcCls(s, t), exp |-> [newmax |-> FALSE] @@ Proj(cell')]

Destroy(s) ==
  /\ CanDestroy(s)
  /\ n' = n /\ cell' = [cell EXCEPT ![s] = Empty]
  /\ last' = [a |-> "Destroy", arg |-> [s |-> s], cls |-> "", exp |-> [newmax |-> FALSE] @@ Proj(cell')]

\* far stamps (FarGap.tla): values are handed out elsewhere, far more than 2^31 of them; no cell changes, the
\* ordinals (and so every comparison between cells, before and after) stay what they are.  Not part of Next.
Advance(cls) ==
  /\ cls \in FarClasses
  /\ n' = n /\ cell' = cell
  /\ last' = [a |-> "Advance", arg |-> [cls |-> cls, dist |-> FarDist(cls)], cls |-> cls, exp |-> [newmax |-> FALSE] @@ Proj(cell)]

Next ==
  \/ \E s \in Cells : Create(s) \/ Renew(s) \/ Destroy(s)
  \/ \E s, t \in Cells : CopyCtor(s, t) \/ MoveCtor(s, t) \/ CopyAssign(s, t) \/ MoveAssign(s, t)

Spec == Init /\ [][Next]_vars

-------------------------------------------------------------------------------
\* Invariants / action properties of the contract itself
\* a creation / renewal yields a value above everything handed out before; nothing else hands out anything
FreshIsLargest ==
  [][ IF last'.a \in {"Create", "Renew"}
        THEN /\ cell'[last'.arg.s] = n' /\ n' = n + 1
             /\ \A t \in Cells : cell[t] < cell'[last'.arg.s]
        ELSE n' = n
    ]_vars
\* copies (and moves) carry their source's value and leave every other cell alone
CopiesCarry ==
  [][ last'.a \in {"CopyCtor", "MoveCtor", "CopyAssign", "MoveAssign"} =>
        /\ (last'.arg.s # last'.arg.t => cell'[last'.arg.s] = cell[last'.arg.t])
        /\ \A u \in Cells \ {last'.arg.s, last'.arg.t} : cell'[u] = cell[u]
        /\ (last'.a \in {"CopyCtor", "CopyAssign"} => cell'[last'.arg.t] = cell[last'.arg.t])
    ]_vars
\* two cells carry the same value only if one is (transitively) a copy of the other: never two creations / renewals.
\* (ordinals are unique per creation / renewal by construction; this checks the projection)
RanksFaithful ==
  \A s, t \in Cells : Readable(s) /\ Readable(t) =>
     /\ (last.exp.ranks[s] = last.exp.ranks[t]) = (cell[s] = cell[t])
     /\ (last.exp.ranks[s] < last.exp.ranks[t]) = (cell[s] < cell[t])
===============================================================================
