--------------------------- MODULE StampsRelayTrace ---------------------------
(* Trace specification for SYNCHRONISED cross-thread relays of the real       *)
(* TimeStamp (property C19; harness/drivers/stamps/conc.cpp, action Relay).   *)
(* It states the law Stamps.tla establishes as HappensBeforeOrdered:          *)
(*                                                                            *)
(*   if draw A happens-before draw B - on whatever threads - then             *)
(*   value(A) < value(B)                                                      *)
(*                                                                            *)
(* and only where happens-before is KNOWN: a relay is a plan of segments      *)
(* <<t, n>>: thread t creates / renews n stamps, then hands over to the       *)
(* thread of the next segment (atomic turn counter, release / acquire), which *)
(* starts only then.  So all draws of a relay form one happens-before chain,  *)
(* in the order they were logged (k = 1, 2, ...), and each value must be      *)
(* strictly above the previous one (by transitivity: above all earlier ones,  *)
(* which also makes them distinct).  Nothing is said here about free-running  *)
(* concurrent draws (StampsTrace: distinct, increasing per thread).           *)
(* The first segments of a plan are the start state: threads that drew 0, 1,  *)
(* 63, 64, 65, 300 stamps before the others' first draw.                      *)
(*                                                                            *)
(* Events: Start(threads, segs)   segs = the plan, <<t, n>> each              *)
(*         Draw(k, seg, t, op, v) k-th draw of the relay, in segment seg      *)
(*         End(draws)                                                         *)
(* The list must follow the plan exactly (thread of each segment, number of   *)
(* draws per segment, segments in order, nothing lost).  Values are size_t:   *)
(* two limbs, base 2^30.  `race`, `crash`, `timeout`, `malformed` events are  *)
(* not actions of this specification: a trace containing one is rejected.     *)
EXTENDS Integers, Sequences, FiniteSets, TLC, Json, IOUtils, TLCExt

VARIABLES l, phase, T, plan, prev, cur, done, k
tvars == <<l, phase, T, plan, prev, cur, done, k>>

TraceLines == ndJsonDeserialize(IOEnv.TRACE)
N == Len(TraceLines)
Line == TraceLines[l]
E == Line.e

Base == 1073741824                       \* 2^30
IsValue(v) == DOMAIN v = 1..2 /\ v[1] >= 0 /\ v[2] >= 0 /\ v[2] < Base
Less(a, b) == a[1] < b[1] \/ (a[1] = b[1] /\ a[2] < b[2])
Below == <<-1, 0>>                       \* below every value

ASSUME /\ Less(<<0, Base - 1>>, <<1, 0>>) /\ ~Less(<<1, 0>>, <<0, Base - 1>>) /\ ~Less(<<3, 7>>, <<3, 7>>)
       /\ Less(<<3, 7>>, <<3, 8>>) /\ Less(Below, <<0, 0>>) /\ ~Less(<<2, 5>>, <<1, 9>>)

IdleNext == phase' = "idle" /\ T' = 0 /\ plan' = <<>> /\ prev' = Below /\ cur' = 0 /\ done' = 0 /\ k' = 0
TInit == l = 1 /\ phase = "idle" /\ T = 0 /\ plan = <<>> /\ prev = Below /\ cur = 0 /\ done = 0 /\ k = 0

Start ==
  /\ E = "Start" /\ phase = "idle" /\ Line.threads \in 1..64
  /\ \A i \in DOMAIN Line.segs : Line.segs[i][1] \in 1..Line.threads /\ Line.segs[i][2] \in Nat
  /\ phase' = "run" /\ T' = Line.threads /\ plan' = Line.segs
  /\ prev' = Below /\ cur' = 0 /\ done' = 0 /\ k' = 0

\* segments between cur and s (exclusive) that the plan leaves empty
AllEmpty(a, b) == \A i \in (a + 1)..(b - 1) : plan[i][2] = 0

Draw ==
  /\ E = "Draw" /\ phase = "run"
  /\ Line.k = k + 1                                   \* the hand-over order, nothing lost
  /\ Line.seg \in DOMAIN plan /\ Line.t = plan[Line.seg][1] /\ Line.op \in {"create", "renew"} /\ IsValue(Line.v)
  /\ \/ Line.seg = cur /\ done < plan[cur][2] /\ done' = done + 1 /\ cur' = cur
     \/ /\ Line.seg > cur /\ (cur > 0 => done = plan[cur][2]) /\ AllEmpty(cur, Line.seg) /\ plan[Line.seg][2] > 0
        /\ cur' = Line.seg /\ done' = 1
  /\ Less(prev, Line.v)                               \* HappensBeforeOrdered along the chain
  /\ prev' = Line.v /\ k' = k + 1
  /\ UNCHANGED <<phase, T, plan>>

End ==
  /\ E = "End" /\ phase = "run"
  /\ Line.draws = k
  /\ (cur > 0 => done = plan[cur][2]) /\ AllEmpty(cur, Len(plan) + 1)
  /\ IdleNext

Step  == l <= N /\ E # "Reset" /\ (Start \/ Draw \/ End) /\ l' = l + 1
Reset == l <= N /\ E = "Reset" /\ phase = "idle" /\ IdleNext /\ l' = l + 1
TNext == Step \/ Reset
TSpec == TInit /\ [][TNext]_tvars

Accepted == TLCGet("stats").diameter - 1 = N
Post == IF Accepted THEN TRUE
        ELSE /\ PrintT(<<"TRACE-REJECTED-AT-LINE", TLCGet("stats").diameter, "OF", N>>)
             /\ FALSE
===============================================================================
