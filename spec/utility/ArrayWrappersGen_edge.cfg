SPECIFICATION SpecG
CONSTANTS
  NW = 2
  NV = 1
  NA = 3
  Kinds = {"ArrayView", "OwnedArray", "FixedArray", "FixedArrayView"}
  Modes = {"src", "ptr", "wptr", "fview"}
  Acts = {"Construct", "Assign", "Reset", "ResetPtr", "Resize", "Write", "Destroy", "SrcMake", "SrcWrite", "SrcResize", "SrcDestroy", "EdgeEmpty"}
  Sizes = {0, 1, 3}
  MaxLen = 3
  ArrLen = 3
  PtrSel = "few"
  Palettes = {0}
  Sym = TRUE
  Excl = {}
  Variant = "contract"
  Prefix = "none"
