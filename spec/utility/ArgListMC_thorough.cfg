SPECIFICATION SpecG
CONSTANTS
  Syms = {"a", "b", "c"}
  MaxLen = 5
  MaxCnt = 3
  ReConstruct = FALSE
INVARIANTS TypeOK LastAgrees KeepsUnconsumed LoopIsKept PassLaws
