
