----------------------------- MODULE StringsGen -----------------------------
(* Law checking and case generation for Strings (property C18).               *)
(* 1. TLC checks RunLaws on ALL strings of length <= N over {a, b, delims}    *)
(*    and PrefixLaws on ALL pairs of strings of length <= NP over {a, b}.     *)
(* 2. It then writes one case per input: what split (both forms), tokenize,   *)
(*    longestBeginningMatch and beginsWith must return.                       *)
EXTENDS Strings, TLC, Json, IOUtils, SequencesExt

CONSTANTS N,    \* maximal length of the strings that are split
          NP    \* maximal length of the strings whose prefixes are compared

Letters == {"a", "b"}
One(c)  == StrUpTo(Letters \cup {c}, N)          \* one delimiter
Two     == StrUpTo(Letters \cup {",", ";"}, N)   \* a set of two delimiters
Pairs   == StrUpTo(Letters, NP) \X StrUpTo(Letters, NP)

ASSUME LawsOneDelim == \A s \in One(",") : RunLaws(s, {","})
ASSUME LawsTwoDelim == \A s \in Two : RunLaws(s, {",", ";"})
ASSUME LawsNoDelim  == \A s \in One(",") : MaxRuns(s, {}) = (IF s = <<>> THEN <<>> ELSE <<s>>)
ASSUME LawsPrefix   == \A p \in Pairs : PrefixLaws(p[1], p[2])

SplitExp(s, D) == LET r == MaxRuns(s, D) IN [tokens |-> JoinAll(r), tokens_joined |-> Join(NonDelim(s, D))]

\* split(s, d) and split(s, d, false) are the same call
SplitExp2(s, D) == SplitExp(s, D) @@ [tokens_explicit |-> JoinAll(MaxRuns(s, D))]

Cases ==
     {[a |-> "SplitChar", arg |-> [s |-> Join(s), d |-> ","], cls |-> TokClass(MaxRuns(s, {","})),
       exp |-> SplitExp(s, {","})] : s \in One(",")}
\cup {[a |-> "SplitSet", arg |-> [s |-> Join(s), d |-> ",;"], cls |-> TokClass(MaxRuns(s, {",", ";"})),
       exp |-> SplitExp2(s, {",", ";"})] : s \in Two}
\* the empty delimiter set: the whole (non-empty) string is the only token
\cup {[a |-> "SplitSet", arg |-> [s |-> Join(s), d |-> ""], cls |-> "nodelim", exp |-> SplitExp2(s, {})] : s \in One(",")}
\* the output vector of tokenize used for two calls in a row (an earlier, possibly longer, input): what the first call
\* returns is determined; after the second call the vector holds the second call's tokens, preceded or not by the first
\* call's (judged by C18Validate)
\cup {[a |-> "TokenizeReuse", arg |-> [s1 |-> Join(p[1]), s2 |-> Join(p[2]), d |-> ":"], cls |-> "",
       exp |-> [first |-> JoinAll(MaxRuns(p[1], {":"}))]] : p \in StrUpTo({"a", ":"}, 4) \X StrUpTo({"a", ":"}, 3)}
\cup {[a |-> "Tokenize", arg |-> [s |-> Join(s), d |-> ":"], cls |-> TokClass(MaxRuns(s, {":"})),
       exp |-> SplitExp(s, {":"})] : s \in One(":")}
\cup {[a |-> "Lcp", arg |-> [x |-> Join(p[1]), y |-> Join(p[2])], cls |-> "",
       exp |-> [lcp |-> Join(LCP(p[1], p[2]))]] : p \in Pairs}
\cup {[a |-> "BeginsWith", arg |-> [x |-> Join(p[1]), y |-> Join(p[2])], cls |-> "",
       exp |-> [ret |-> IsPrefixOf(p[2], p[1])]] : p \in Pairs}

ASSUME Emit == ndJsonSerialize(IOEnv.OUT, SetToSeq(Cases))
===============================================================================
