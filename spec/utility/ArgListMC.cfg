SPECIFICATION SpecG
CONSTANTS
  Syms = {"a", "b", "c"}
  MaxLen = 4
  MaxCnt = 2
  ReConstruct = FALSE
INVARIANTS TypeOK LastAgrees KeepsUnconsumed LoopIsKept PassLaws
