SPECIFICATION SpecH
CONSTANTS
  NT = 2
  NU = 1
  NA = 1
  Throwing = FALSE
  WithMake = FALSE
  Vals = {1, 2}
  K = 4
INVARIANTS TypeOK WellFormed LastAgrees AgreesWithHistory Conservation
PROPERTIES RefProtocolLegalH IndependenceH CopiesEqualSourceH NothingGivenByThrowH
CONSTRAINT HistBound
VIEW View
