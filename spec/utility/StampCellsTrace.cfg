SPECIFICATION TSpec
CONSTANTS
  Cells = {1, 2, 3, 4, 5}
  MaxFresh = 1000000
INVARIANTS RanksFaithful
POSTCONDITION Post
CHECK_DEADLOCK FALSE
