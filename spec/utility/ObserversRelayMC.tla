-------------------------- MODULE ObserversRelayMC --------------------------
(* Model-checking instance of ObserversRelay: over ALL assignments of the     *)
(* steps of every history up to length K to the threads (and all start states *)
(* / unrelated draws in between), the answers are the ones the DECLARATIVE    *)
(* reading of property C19 (ObserversMC: a predicate over the history of      *)
(* calls alone - it knows no thread) demands.  Hence: the thread that         *)
(* performs a step is an argument no effect and no answer depends on.         *)
EXTENDS ObserversRelay

CONSTANT K
VARIABLES ohist,       \* the calls made so far (contract actions only), as ObserversMC keeps them
          whos         \* who made them
varsH == <<oalive, balive, att, pending, olast, warmed, last, ohist, whos>>

M == INSTANCE ObserversMC WITH last <- olast, hist <- ohist

InitH == Init /\ ohist = <<>> /\ whos = <<>>
NextH ==
  \/ (\E pre \in PreVectors : Warm(pre)) /\ UNCHANGED <<ohist, whos>>
  \/ (\E t \in Workers, n \in DrawCounts : Draw(t, n)) /\ UNCHANGED <<ohist, whos>>
  \/ \E t \in Workers : /\ Step(t)
                        /\ ohist' = Append(ohist, [a |-> olast'.a, arg |-> olast'.arg])
                        /\ whos' = Append(whos, t)
SpecH == InitH /\ [][NextH]_varsH

AgreesWithHistory == M!AgreesWithHistory
\* what a poll performed by thread last.by returned is what the thread-free history before it demands
PollReturnsDeclared ==
  last.a \in {"Poll", "PollAll"} => /\ M!PollReturnsDeclared
                                    /\ last.exp = olast.exp
\* the instance is not vacuous about threads: histories with the notifier, the poller and the creator on different threads
\* are among the checked ones (TLC must REFUTE `NeverThreeThreads` in the negative-control configuration)
NeverCrossThread ==
  ~(/\ last.a = "Poll" /\ last.exp.ret = TRUE /\ Len(whos) >= 3
    /\ \E i, j \in DOMAIN ohist : /\ i < j /\ j < Len(ohist)
                                  /\ ohist[i].a = "CreateObserver" /\ ohist[j].a = "Notify"
                                  /\ whos[i] # whos[j] /\ whos[j] # whos[Len(whos)])

HistBound == Len(ohist) <= K
\* `last` of a Warm / Draw step is not part of the view: these steps change nothing the invariants look at
View == <<oalive, balive, att, pending, olast, warmed, ohist, whos, IF last.a \in {"Warm", "Draw"} THEN 0 ELSE last.by>>
===============================================================================
