SPECIFICATION SpecD
CONSTANTS
  NW = 3
  NV = 2
  NA = 1
  Kinds = {"ArrayView", "OwnedArray", "FixedArray", "FixedArrayView"}
  Modes = {"default", "src", "ptr", "wptr", "size", "copy", "fview"}
  Acts = {"Construct", "Assign", "Reset", "ResetPtr", "Resize", "Write", "Destroy", "SrcMake", "SrcWrite", "SrcResize", "SrcDestroy"}
  MaxLen = 2
  ArrLen = 2
  PtrSel = "few"
  Sym = TRUE
  Excl = {}
  Variant = "contract"
  K = 4
INVARIANTS TypeOK InBounds OwningNeverDangles OwnedExclusive FixedIndependent LiveBlocksOwned LastAgrees
PROPERTIES OwnersUntouchedBySources OwnersUntouchedByOthers
CONSTRAINT DepthBound
