------------------------------ MODULE ValueBoxEnv ------------------------------
(* getEnvVar<T>(name) returns an Optional<T> (anchor of property C09): it holds *)
(* a value exactly when the environment variable is set, and then the value the *)
(* text denotes (int: decimal numeral; float: decimal fraction, compared in     *)
(* 1/1000; std::string: the text itself).  Functional specification: the cases  *)
(* are written as one-step histories for the value_box driver.                  *)
EXTENDS Integers, Sequences, FiniteSets, TLC, Json, IOUtils, SequencesExt

\* <<text, denoted value>>
IntTexts   == {<<"0", 0>>, <<"42", 42>>, <<"-7", -7>>, <<"2147483647", 2147483647>>, <<"-2147483647", -2147483647>>, <<"007", 7>>}
FloatTexts == {<<"0", 0>>, <<"1.5", 1500>>, <<"-2", -2000>>, <<"0.25", 250>>, <<"1024.125", 1024125>>, <<"3", 3000>>}
StrTexts   == {"", "x", "hello world", "a-value-long-enough-to-be-allocated-on-the-heap-0123456789-0123456789"}

Case(t, set, text, v) ==
  [a |-> "GetEnv", cls |-> "type=" \o t \o (IF set THEN ",set" ELSE ",unset"),
   arg |-> [t |-> t, set |-> set, text |-> text],
   exp |-> [done |-> "returned", ret |-> [has |-> set, v |-> v]]]

Cases ==
  {Case("int", TRUE, p[1], p[2]) : p \in IntTexts} \cup {Case("int", FALSE, "", 0)}
  \cup {Case("float", TRUE, p[1], p[2]) : p \in FloatTexts} \cup {Case("float", FALSE, "", 0)}
  \cup {Case("string", TRUE, s, s) : s \in StrTexts} \cup {Case("string", FALSE, "", "")}

\* laws of the table itself: engaged exactly when set; one case per (type, text); every type has both classes
ASSUME \A c \in Cases : c.exp.ret.has = c.arg.set
ASSUME \A c, e \in Cases : (c.arg = e.arg) => (c = e)
ASSUME \A t \in {"int", "float", "string"} : \E c, e \in Cases : c.arg.t = t /\ e.arg.t = t /\ c.arg.set /\ ~e.arg.set

ASSUME ndJsonSerialize(IOEnv.OUT, SetToSeq(Cases))
===============================================================================
