SPECIFICATION SpecG
CONSTANTS
  NW = 3
  NV = 1
  NA = 0
  Kinds = {"FixedArray", "FixedArrayView"}
  Modes = {"src", "size", "copy", "fview"}
  Acts = {"Construct", "Assign", "Reset", "ResetPtr", "Resize", "Write", "Destroy", "SrcMake", "SrcWrite", "SrcResize", "SrcDestroy"}
  Sizes = {0, 1, 2, 3}
  MaxLen = 3
  ArrLen = 3
  PtrSel = "few"
  Palettes = {0}
  Sym = TRUE
  Excl = {}
  Variant = "contract"
  Prefix = "vec"
