SPECIFICATION SpecG
CONSTANTS
  NW = 3
  NV = 1
  NA = 0
  Kinds = {"FixedArray", "FixedArrayView"}
  Modes = {"src", "size", "copy", "fview"}
  Acts = {"Construct", "Assign", "Reset", "ResetPtr", "Resize", "Write", "Destroy", "SrcMake", "SrcWrite", "SrcResize", "SrcDestroy"}
  MaxLen = 3
  ArrLen = 3
  PtrSel = "few"
  Sym = TRUE
  Excl = {}
  Variant = "contract"
  Prefix = "vec"
