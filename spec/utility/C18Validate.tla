----------------------------- MODULE C18Validate -----------------------------
(* Code -> spec direction for the functional parts of property C18.           *)
(* The driver ran the REAL rkcommon functions on inputs (seeded random long   *)
(* ones, and the inputs whose result is specified by a law rather than by a   *)
(* value) and recorded  {id, a, arg, obs}  lines; strings are sequences of    *)
(* one-character strings.  TLC evaluates the specification on every line and  *)
(* writes a verdict  {id, ok, field, cls, exp}: `field` names the first       *)
(* observable the specification rejects.  Nothing is decided outside TLC.     *)
EXTENDS Strings, TLC, Json, IOUtils, SequencesExt

LOCAL U == INSTANCE PseudoUrl
LOCAL F == INSTANCE FileNames
LOCAL S == INSTANCE SiPrint

Lines == ndJsonDeserialize(IOEnv.OBS)

\* first field of `fields` on which obs differs from exp ("" = none)
FirstBad(fields, exp, obs) ==
  LET B == {i \in DOMAIN fields : fields[i] \notin DOMAIN obs \/ obs[fields[i]] # exp[fields[i]]}
  IN IF B = {} THEN "" ELSE fields[CHOOSE i \in B : \A j \in B : i <= j]

SetOf(seq) == {seq[i] : i \in DOMAIN seq}
\* (field lists are in alphabetical order: the order in which the replay direction compares the fields of a case)

V(field, cls, exp) == [field |-> field, cls |-> cls, exp |-> exp]

\* ---- split / tokenize / prefix -------------------------------------------
SplitV(L) ==
  LET D == SetOf(L.arg.d)
      t == Tokens(L.arg.s, D)
      e == [tokens |-> t, tokens_joined |-> NonDelim(L.arg.s, D)]
  IN IF L.a = "SplitSet"
     THEN V(FirstBad(<<"tokens", "tokens_explicit", "tokens_joined">>, e @@ [tokens_explicit |-> t], L.obs), TokClass(t), e)
     ELSE V(FirstBad(<<"tokens", "tokens_joined">>, e, L.obs), TokClass(t), e)

\* the output vector of tokenize used twice: the second call's tokens are at the end, in order; whether the first
\* call's tokens are still in front of them is not stated
ReuseV(L) ==
  LET D  == SetOf(L.arg.d)
      t1 == Tokens(L.arg.s1, D)
      t2 == Tokens(L.arg.s2, D)
      e  == [first |-> t1, after |-> t1 \o t2]
  IN V(IF L.obs.first # t1 THEN "first" ELSE IF L.obs.after = t1 \o t2 \/ L.obs.after = t2 THEN "" ELSE "after", "", e)

LcpV(L) == LET e == [lcp |-> LcpScan(L.arg.x, L.arg.y)] IN V(FirstBad(<<"lcp">>, e, L.obs), "", e)
BeginsV(L) == LET e == [ret |-> IsPrefixOf(L.arg.y, L.arg.x)] IN V(FirstBad(<<"ret">>, e, L.obs), "", e)

\* ---- pseudo URL: arg = [t, f, ps, u, q] ------------------------------------
UrlV(L) ==
  LET ps == L.arg.ps
      ans(n) == [n |-> n, has |-> U!HasName(ps, n), throws |-> ~U!HasName(ps, n),
                 val |-> IF U!HasName(ps, n) THEN U!LastValue(ps, n) ELSE <<>>]
      e == [type |-> L.arg.t, fileName |-> L.arg.f, params |-> [i \in DOMAIN L.arg.q |-> ans(L.arg.q[i])]]
      cls == IF Len(L.arg.f) = 1 THEN "filelen=1" ELSE "filelen>1"
  IN IF L.arg.u # U!Assemble(L.arg.t, L.arg.f, ps) \/ ~U!RoundTrip(L.arg.t, L.arg.f, ps)
     THEN V("bad-input", cls, e)           \* the orchestrator's random generator is wrong, not the code
     ELSE V(FirstBad(<<"fileName", "params", "type">>, e, L.obs), cls, e)

\* ---- file names: every law is stated about the OBSERVED str() --------------
Eq(a, b) == F!StripSep(a) = F!StripSep(b)      \* results pass through the constructor again
NoBsl(s) == [i \in DOMAIN s |-> IF s[i] = "\\" THEN F!SEP ELSE s[i]]

FnV(L) ==
  LET f   == L.obs.str
      b   == F!BaseOf(f)
      sp  == F!Special(b)
      cls == IF L.a = "FnPlus" THEN F!PlusCls(f, L.arg.o)
             ELSE IF L.a = "FnRecompose" THEN F!RecomposeCls(f)
             ELSE F!Cls(f)                    \* the class of the file name, whatever the constructor was given
      bad ==
        IF ~Eq(f, NoBsl(L.arg.s)) THEN "str"   \* the file name is the argument with '\' spelled '/', up to trailing separators
        ELSE IF L.a = "FnSplit" THEN           \* both constructors, both conversions, the decomposition
             FirstBad(<<"base", "conv", "cstr", "eq_self", "ne_self", "path", "str_c", "streamed">>,
                      [path |-> F!PathOf(f), base |-> b, str_c |-> f, conv |-> f, cstr |-> f, streamed |-> f,
                       eq_self |-> TRUE, ne_self |-> FALSE], L.obs)
        ELSE IF L.a = "FnNameExt" THEN
             IF sp /\ L.obs.name = b /\ L.obs.ext = <<>> THEN ""
             ELSE FirstBad(<<"ext", "name">>, [name |-> F!NameOf(f), ext |-> F!ExtOf(f)], L.obs)
        ELSE IF L.a = "FnDropExt" THEN
             IF sp /\ L.obs.res = f THEN ""
             ELSE IF (IF sp THEN Eq(L.obs.res, F!DropExt(f)) ELSE L.obs.res = F!DropExt(f)) THEN "" ELSE "res"
        ELSE IF L.a = "FnSetExt" THEN
             IF L.arg.x = <<>> /\ L.obs.res_default # L.obs.res THEN "res_default"        \* setExt() = setExt("")
             ELSE IF sp /\ L.obs.res = f \o L.arg.x THEN ""
             ELSE IF (IF sp THEN Eq(L.obs.res, F!SetExt(f, L.arg.x)) ELSE L.obs.res = F!SetExt(f, L.arg.x)) THEN "" ELSE "res"
        ELSE IF L.a = "FnAddExt" THEN
             IF L.arg.x = <<>> /\ L.obs.res_default # L.obs.res THEN "res_default"        \* addExt() = addExt("")
             ELSE IF L.obs.res = F!AddExt(f, L.arg.x) THEN "" ELSE "res"
        ELSE IF L.a = "FnPlus" THEN
             \* both overloads name JoinNames(left name, right operand); obs.ostr is str() of the right operand
             LET j == F!JoinNames(f, L.arg.o) IN
             IF ~Eq(L.obs.ostr, L.arg.o) THEN "ostr"
             ELSE IF ~F!SameName(L.obs.res_fn, j) THEN "res_fn"
             ELSE IF ~F!SameName(L.obs.res_str, j) THEN "res_str"
             ELSE IF L.obs.res_fn # L.obs.res_str THEN "overloads-agree"
             ELSE FirstBad(<<"base", "eq", "ne", "path">>,
                           [path |-> F!PathOf(L.obs.res_fn), base |-> F!BaseOf(L.obs.res_fn),
                            eq |-> (f = L.obs.ostr), ne |-> (f # L.obs.ostr)], L.obs)          \* == / != : equality of the names
        ELSE \* FnRecompose: FileName(path()) + base() names the file again, with either overload
             IF ~F!SameName(L.obs.res_fn, f) THEN "res_fn"
             ELSE IF ~F!SameName(L.obs.res_str, f) THEN "res_str"
             ELSE IF L.obs.res_fn # L.obs.res_str THEN "overloads-agree"
             ELSE ""
  IN V(bad, cls,
       IF L.a = "FnPlus" THEN [left |-> f, right |-> L.arg.o, both_overloads_name |-> F!JoinNames(f, L.arg.o)]
       ELSE IF L.a = "FnRecompose" THEN [str |-> f, path |-> F!PathOf(f), base |-> b, both_overloads_name |-> f]
       ELSE [str |-> f, path |-> F!PathOf(f), base |-> b, name |-> F!NameOf(f), ext |-> F!ExtOf(f), dropExt |-> F!DropExt(f)])

\* ---- SI printing ----------------------------------------------------------
SiV(L) ==
  IF L.a = "PrettyNumber"
  THEN \* arg.limbs: the count a * 10^18 + b * 10^9 + c
       IF ~S!ValidCount(L.arg.limbs) THEN V("bad-input", "", <<>>)
       ELSE LET x == S!Lead(L.arg.limbs) IN V(S!Verdict(x, L.obs), S!Class(x), IF x.m = 0 THEN <<>> ELSE S!RefObs(x, S!OwnBand(x)))
  ELSE \* arg = [neg, m, e]: the double nearest to (-1)^neg * m * 10^e
       LET x == S!Inp(L.arg.neg, L.arg.m, L.arg.e) IN
       IF ~(x.m = 0 \/ S!InRange(x.m, x.e)) THEN V("bad-input", "", <<>>)
       ELSE V(S!Verdict(x, L.obs), S!Class(x), IF x.m = 0 THEN <<>> ELSE S!RefObs(x, S!OwnBand(x)))

Verdict(L) ==
  LET v == IF "unexpected_exception" \in DOMAIN L.obs THEN V("unexpected_exception", "", <<>>)
           ELSE IF L.a \in {"SplitChar", "SplitSet", "Tokenize"} THEN SplitV(L)
           ELSE IF L.a = "TokenizeReuse" THEN ReuseV(L)
           ELSE IF L.a = "Lcp" THEN LcpV(L)
           ELSE IF L.a = "BeginsWith" THEN BeginsV(L)
           ELSE IF L.a = "UrlParse" THEN UrlV(L)
           ELSE IF L.a \in {"FnSplit", "FnNameExt", "FnDropExt", "FnSetExt", "FnAddExt", "FnPlus", "FnRecompose"} THEN FnV(L)
           ELSE IF L.a \in {"PrettyDouble", "PrettyNumber"} THEN SiV(L)
           ELSE V("unknown-action", "", <<>>)
  IN [id |-> L.id, ok |-> (v.field = ""), field |-> v.field, cls |-> v.cls,
      exp |-> IF v.field = "" THEN <<>> ELSE v.exp]

ASSUME Emit == ndJsonSerialize(IOEnv.OUT, [i \in DOMAIN Lines |-> Verdict(Lines[i])])
===============================================================================
