CONSTANTS
  Widths = {1023, 1024, 1025, 2049, 2600}
  Shorts = {1, 3}
  Part = "tall"
  SweepVals = {}
