SPECIFICATION Spec
CONSTANTS
  Threads = {1, 2, 3}
  MaxOps = 3
  Atomic = TRUE
  Block = 2
INVARIANTS TypeOK Unique IncreasingPerThread CopiesCarry BelowCounter OrderComplete
CHECK_DEADLOCK FALSE
