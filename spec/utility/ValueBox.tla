------------------------------- MODULE ValueBox -------------------------------
(* Optional<T> and Any as value types (property C09).                          *)
(*                                                                             *)
(* A world of wrapper slots: NT slots that can hold an Optional<T>, NU slots   *)
(* for Optional<U> (U convertible to T) and NA slots for Any.  A slot is raw   *)
(* memory; constructing and destroying the wrapper in it are actions of the    *)
(* history.  Per slot the abstract state is                                    *)
(*     s  : "none" (no wrapper constructed) | "empty" | "engaged" | "moved"    *)
(*     ty : type tag of the value held by an Any ("T" or "X"), "-" otherwise   *)
(*     v  : the value held (an element of Vals), 0 otherwise                   *)
(* "moved" is a constructed wrapper that was the engaged source of a move: the *)
(* property statement says nothing about what it reports until the next        *)
(* operation gives it a definite state, so nothing about it is constrained     *)
(* (has_value, value, whether its payload storage still holds a live object).  *)
(*                                                                             *)
(* Lifetime ghost: the payload storage of an Optional slot is "live" exactly   *)
(* when the slot is engaged, "raw" when it is none/empty, "any" when moved.    *)
(* Payload lifetime events (ctor / dtor / assign / read on the storage of slot *)
(* w) are legal only as: ctor on raw, everything else on live (operator        *)
(* Legal).  Every action carries a reference event sequence `ev` - what a      *)
(* minimal correct implementation does to the payload storages - and the       *)
(* model-checking instance checks that this protocol is legal and conserves    *)
(* constructions = destructions; the trace specification applies the same      *)
(* Legal to the events the instrumented payload type recorded on the real code.*)
(*                                                                             *)
(* Ghost `last` = [a, arg, cls, ev, exp]: action, arguments, argument class    *)
(* (for finding signatures), reference events, and every observable the        *)
(* statement constrains after the step:                                        *)
(*   done  "returned" | "throws"            ret    return value, only where    *)
(*   dst / src  observables of the target / source wrapper    the statement    *)
(*   world      observables of every slot (independence)      fixes it         *)
(*   life       dead  = payload operations applied to storage without a live   *)
(*                      object, dup = constructions over a live object,        *)
(*              outside = live payload objects outside Optional storage        *)
(*                      (= engaged Anys; temporaries must be gone),            *)
(*              total = live payload objects (= constructions - destructions)  *)
(* Comparisons and printing of wrappers are constrained by `done` only, plus   *)
(* the value semantics of comparing two engaged wrappers.                      *)
(*                                                                             *)
(* Throwing payload operations (Throwing = TRUE, lifetime-instrumented payload *)
(* only).  A payload object can be "poisoned" (field p): every construction or *)
(* assignment that takes its value FROM a poisoned object throws, whichever    *)
(* way the wrapper transfers the value (copy / move construction, default      *)
(* construction + assignment).  Value-taking actions have an argument t: the   *)
(* value is handed over in a poisoned temporary; Poison(d) poisons the payload *)
(* held by a wrapper through the reference value() / get<T>() returns, so that *)
(* copies / moves / conversions FROM that wrapper throw.  After a step that    *)
(* threw, the statement fixes: no payload object is live that was not          *)
(* successfully constructed, every constructed payload is destroyed exactly    *)
(* once, and has_value() is true exactly if the storage holds a live payload   *)
(* (observable hl = has_value - live objects in the storage = 0, for every     *)
(* constructed Optional including unspecified ones).  Hence: a failed          *)
(* constructor leaves the slot raw; a failed emplace leaves the wrapper empty  *)
(* (the old payload is gone, none was given); a failed assignment leaves an    *)
(* empty target empty and an engaged target unspecified (old value or empty -  *)
(* state "moved", which stands for "unspecified but lifetime-consistent");     *)
(* the source of a failed copy is untouched, of a failed move unspecified.     *)
EXTENDS Integers, Sequences, FiniteSets, TLC

CONSTANTS NT,     \* number of Optional<T> slots   (slots 1..NT)
          NU,     \* number of Optional<U> slots   (slots NT+1..NT+NU)
          NA,     \* number of Any slots           (slots NT+NU+1..N)
          Throwing, \* BOOLEAN: payload operations that throw are part of the histories
          WithMake, \* BOOLEAN: make_optional<T>() is part of the histories (it doubles the value constructions)
          Vals    \* payload values: positive integers; drivers map them injectively
                  \* and monotonically to int / double / std::string / std::vector<int> / ...

N      == NT + NU + NA
Slots  == 1..N
TSlots == 1..NT
USlots == (NT + 1)..(NT + NU)
OSlots == 1..(NT + NU)
ASlots == (NT + NU + 1)..N
Kind(w) == IF w \in TSlots THEN "T" ELSE IF w \in USlots THEN "U" ELSE "A"
AnyTypes == {"T", "X"}       \* an Any holds a T or a value of an unrelated type X

VARIABLES st, last
vars == <<st, last>>

None    == [s |-> "none",  ty |-> "-", v |-> 0, p |-> FALSE]
Empty   == [s |-> "empty", ty |-> "-", v |-> 0, p |-> FALSE]
Moved   == [s |-> "moved", ty |-> "-", v |-> 0, p |-> FALSE]     \* moved-from, or target of a failed assignment: unspecified
Eng(ty, v) == [s |-> "engaged", ty |-> ty, v |-> v, p |-> FALSE]

Constructed(x) == x.s # "none"
Usable(x)      == x.s \in {"empty", "engaged"}      \* its observables are defined
IsEng(x)       == x.s = "engaged"
Poisoned(x)    == IsEng(x) /\ x.p                    \* taking the value from its payload throws
AfterFailedAssign(x) == IF IsEng(x) THEN Moved ELSE x   \* empty stays empty; engaged: old value or empty

TypeOK == st \in [Slots -> [s : {"none", "empty", "engaged", "moved"}, ty : {"-", "T", "X"}, v : Vals \cup {0}, p : BOOLEAN]]
WellFormed == \A w \in Slots :
                /\ IsEng(st[w]) <=> st[w].v \in Vals
                /\ (st[w].ty # "-") => (w \in ASlots /\ IsEng(st[w]))
                /\ (w \in ASlots /\ IsEng(st[w])) => st[w].ty \in AnyTypes
                /\ st[w].p => (IsEng(st[w]) /\ Throwing)

-------------------------------------------------------------------------------
\* Lifetime ghost of the Optional payload storages

StoreOf(x) == IF x.s = "engaged" THEN "live" ELSE IF x.s = "moved" THEN "any" ELSE "raw"
Store(s)   == [w \in OSlots |-> StoreOf(s[w])]

E(k, w) == [k |-> k, w |-> w]

\* one lifetime event on the storage of slot e.w; "any" (moved-from) is resolved by the first event
ApplyEv(r, e) ==
  IF ~r.ok THEN r
  ELSE LET cur == r.s[e.w] IN
       IF e.k = "ctor" THEN (IF cur = "live" THEN [r EXCEPT !.ok = FALSE] ELSE [r EXCEPT !.s[e.w] = "live"])
       ELSE IF e.k = "dtor" THEN (IF cur = "raw" THEN [r EXCEPT !.ok = FALSE] ELSE [r EXCEPT !.s[e.w] = "raw"])
       ELSE (IF cur = "raw" THEN [r EXCEPT !.ok = FALSE] ELSE [r EXCEPT !.s[e.w] = "live"])   \* assign, read

RECURSIVE RunEv(_, _)
RunEv(r, evs) == IF evs = <<>> THEN r ELSE RunEv(ApplyEv(r, Head(evs)), Tail(evs))

\* the events are legal from storage state s0 and end in a state compatible with s1
Legal(s0, evs, s1) ==
  LET r == RunEv([ok |-> TRUE, s |-> s0], evs)
  IN  r.ok /\ \A w \in DOMAIN s1 : s1[w] = "any" \/ r.s[w] = "any" \/ r.s[w] = s1[w]

-------------------------------------------------------------------------------
\* Observables

ObsSlot(w, x) ==
  IF w \in OSlots THEN
       IF x.s = "none" THEN [c |-> FALSE, live |-> 0]
       ELSE IF x.s = "moved" THEN [c |-> TRUE, hl |-> 0]
       ELSE [c |-> TRUE, has |-> IsEng(x), v |-> x.v, live |-> IF IsEng(x) THEN 1 ELSE 0, hl |-> 0]
  ELSE IF x.s = "none" THEN [c |-> FALSE]
       ELSE IF x.s = "moved" THEN [c |-> TRUE]
       ELSE [c |-> TRUE, has |-> IsEng(x), ty |-> x.ty, v |-> x.v]

World(s) == [w \in Slots |-> ObsSlot(w, s[w])]

EngCount(s, S) == Cardinality({w \in S : IsEng(s[w])})
HasMoved(s, S) == \E w \in S : s[w].s = "moved"

Life(s) ==
  IF HasMoved(s, ASlots) THEN [dead |-> 0, dup |-> 0]
  ELSE IF HasMoved(s, Slots) THEN [dead |-> 0, dup |-> 0, outside |-> EngCount(s, ASlots)]
  ELSE [dead |-> 0, dup |-> 0, outside |-> EngCount(s, ASlots), total |-> EngCount(s, Slots)]

Base(s)  == [done |-> "returned", world |-> World(s), life |-> Life(s)]
Threw(s) == [done |-> "throws", world |-> World(s), life |-> Life(s)]
Dst(s, d) == [dst |-> ObsSlot(d, s[d])]
Src(s, w) == [src |-> ObsSlot(w, s[w])]
Ret(r)    == [ret |-> r]

Step(a, arg, cls, s1, ev, exp) ==
  /\ st' = s1
  /\ last' = [a |-> a, arg |-> arg, cls |-> cls, ev |-> ev, exp |-> exp]

Init == /\ st = [w \in Slots |-> None]
        /\ last = [a |-> "Init", arg |-> <<>>, cls |-> "", ev |-> <<>>, exp |-> Base([w \in Slots |-> None])]

-------------------------------------------------------------------------------
\* Optional: constructors (placement-new into a slot that holds no wrapper)

OptVal(v) == Eng("-", v)

DefaultCtor(d) ==
  /\ d \in OSlots /\ st[d].s = "none"
  /\ LET s1 == [st EXCEPT ![d] = Empty]
     IN Step("DefaultCtor", [d |-> d], "", s1, <<>>, Dst(s1, d) @@ Base(s1))

\* Optional<T>(value) / make_optional<T>(value); t: the value comes in a poisoned temporary (the payload
\* constructor throws): no wrapper is constructed, the slot stays raw
ValueCtorLike(name, d, v, t) ==
  /\ d \in OSlots /\ st[d].s = "none" /\ (t => Throwing)
  /\ IF t THEN Step(name, [d |-> d, v |-> v, t |-> t], "throws", st, <<>>, Dst(st, d) @@ Threw(st))
     ELSE LET s1 == [st EXCEPT ![d] = OptVal(v)]
          IN Step(name, [d |-> d, v |-> v, t |-> t], "", s1, <<E("ctor", d)>>, Dst(s1, d) @@ Base(s1))

ValueCtor(d, v, t)    == ValueCtorLike("ValueCtor", d, v, t)
MakeOptional(d, v, t) == WithMake /\ ValueCtorLike("MakeOptional", d, v, t)

\* what a wrapper receives from source wrapper x (copy, move, converting or not)
Given(x) == IF IsEng(x) THEN Eng(x.ty, x.v) ELSE Empty

\* copy / move construction of slot d from the wrapper in slot s
CtorFrom(name, d, s, move) ==
  /\ st[d].s = "none" /\ s # d /\ Usable(st[s])
  /\ IF Poisoned(st[s])
     THEN \* the payload copy / move throws: no wrapper is constructed
          LET s1 == [st EXCEPT ![s] = IF move THEN Moved ELSE @]
          IN Step(name, [d |-> d, s |-> s], "src=engaged,throws", s1, <<E("read", s)>>, Dst(s1, d) @@ Src(s1, s) @@ Threw(s1))
     ELSE LET s1 == [st EXCEPT ![d] = Given(st[s]), ![s] = IF move /\ IsEng(st[s]) THEN Moved ELSE @]
              ev == IF IsEng(st[s]) THEN <<E("read", s), E("ctor", d)>> ELSE <<>>
          IN Step(name, [d |-> d, s |-> s], "src=" \o st[s].s, s1, ev, Dst(s1, d) @@ Src(s1, s) @@ Base(s1))

SameKind(d, s) == d \in OSlots /\ s \in OSlots /\ Kind(d) = Kind(s)
Converts(d, s) == d \in TSlots /\ s \in USlots          \* Optional<T> from Optional<U>

CopyCtor(d, s)     == SameKind(d, s) /\ CtorFrom("CopyCtor", d, s, FALSE)
MoveCtor(d, s)     == SameKind(d, s) /\ CtorFrom("MoveCtor", d, s, TRUE)
ConvCopyCtor(d, s) == Converts(d, s) /\ CtorFrom("ConvCopyCtor", d, s, FALSE)
ConvMoveCtor(d, s) == Converts(d, s) /\ CtorFrom("ConvMoveCtor", d, s, TRUE)

\* Optional: assignments (into a constructed wrapper: empty, engaged or moved-from)

AssignValue(d, v, t) ==
  /\ d \in OSlots /\ Constructed(st[d]) /\ (t => Throwing)
  /\ IF t THEN LET s1 == [st EXCEPT ![d] = AfterFailedAssign(@)]
               IN Step("AssignValue", [d |-> d, v |-> v, t |-> t], "dst=" \o st[d].s \o ",throws", s1, <<>>, Dst(s1, d) @@ Threw(s1))
     ELSE LET s1 == [st EXCEPT ![d] = OptVal(v)]
              ev == IF st[d].s = "empty" THEN <<E("ctor", d)>> ELSE <<E("assign", d)>>
          IN Step("AssignValue", [d |-> d, v |-> v, t |-> t], "dst=" \o st[d].s, s1, ev, Dst(s1, d) @@ Base(s1))

AssignFrom(name, d, s, move) ==
  /\ Constructed(st[d]) /\ Usable(st[s]) /\ (move => s # d)
  /\ IF Poisoned(st[s])
     THEN /\ s # d
          /\ LET s1  == [st EXCEPT ![d] = AfterFailedAssign(@), ![s] = IF move THEN Moved ELSE @]
                 cls == "src=engaged,dst=" \o st[d].s \o ",throws"
             IN Step(name, [d |-> d, s |-> s], cls, s1, <<E("read", s)>>, Dst(s1, d) @@ Src(s1, s) @@ Threw(s1))
     ELSE LET s1  == [st EXCEPT ![d] = Given(st[s]), ![s] = IF move /\ IsEng(st[s]) THEN Moved ELSE @]
              ev  == IF IsEng(st[s])
                     THEN <<E("read", s), IF st[d].s = "empty" THEN E("ctor", d) ELSE E("assign", d)>>
                     ELSE IF st[d].s = "empty" THEN <<>> ELSE <<E("dtor", d)>>
              cls == (IF s = d THEN "src=self" ELSE "src=" \o st[s].s) \o ",dst=" \o st[d].s
          IN Step(name, [d |-> d, s |-> s], cls, s1, ev, Dst(s1, d) @@ Src(s1, s) @@ Base(s1))

CopyAssign(d, s)     == SameKind(d, s) /\ AssignFrom("CopyAssign", d, s, FALSE)      \* s = d: self-assignment
MoveAssign(d, s)     == SameKind(d, s) /\ AssignFrom("MoveAssign", d, s, TRUE)
ConvCopyAssign(d, s) == Converts(d, s) /\ AssignFrom("ConvCopyAssign", d, s, FALSE)
ConvMoveAssign(d, s) == Converts(d, s) /\ AssignFrom("ConvMoveAssign", d, s, TRUE)

\* t: the payload constructor throws inside emplace(): the old payload is gone, none was given
Emplace(d, v, t) ==
  /\ d \in OSlots /\ Constructed(st[d]) /\ (t => Throwing)
  /\ IF t THEN LET s1 == [st EXCEPT ![d] = Empty]
                   ev == IF st[d].s = "empty" THEN <<>> ELSE <<E("dtor", d)>>
               IN Step("Emplace", [d |-> d, v |-> v, t |-> t], "dst=" \o st[d].s \o ",throws", s1, ev, Dst(s1, d) @@ Threw(s1))
     ELSE LET s1 == [st EXCEPT ![d] = OptVal(v)]
              ev == IF st[d].s = "empty" THEN <<E("ctor", d)>> ELSE <<E("dtor", d), E("ctor", d)>>
          IN Step("Emplace", [d |-> d, v |-> v, t |-> t], "dst=" \o st[d].s, s1, ev, Ret(v) @@ Dst(s1, d) @@ Base(s1))

\* Optional::reset()  (named ResetValue: "Reset" is the execution separator of recorded traces)
ResetValue(d) ==
  /\ d \in OSlots /\ Constructed(st[d])
  /\ LET s1 == [st EXCEPT ![d] = Empty]
         ev == IF st[d].s = "empty" THEN <<>> ELSE <<E("dtor", d)>>
     IN Step("ResetValue", [d |-> d], "dst=" \o st[d].s, s1, ev, Dst(s1, d) @@ Base(s1))

\* explicit destructor call; the slot is raw memory again
Destroy(d) ==
  /\ d \in OSlots /\ Constructed(st[d])
  /\ LET s1 == [st EXCEPT ![d] = None]
         ev == IF st[d].s = "empty" THEN <<>> ELSE <<E("dtor", d)>>
     IN Step("Destroy", [d |-> d], "dst=" \o st[d].s, s1, ev, Dst(s1, d) @@ Base(s1))

\* write through the reference returned by value() / operator*
Mutate(d, v) ==
  /\ d \in OSlots /\ IsEng(st[d])
  /\ LET s1 == [st EXCEPT ![d] = OptVal(v)]
     IN Step("Mutate", [d |-> d, v |-> v], "", s1, <<E("assign", d)>>, Dst(s1, d) @@ Base(s1))

\* poison the held payload through the reference returned by value(): taking its value throws from now on
Poison(d) ==
  /\ Throwing /\ d \in OSlots /\ IsEng(st[d]) /\ ~st[d].p
  /\ LET s1 == [st EXCEPT ![d].p = TRUE]
     IN Step("Poison", [d |-> d], "", s1, <<>>, Dst(s1, d) @@ Base(s1))

\* Optional: observers (state unchanged)

\* value_or returns a copy of the payload: it throws if that copy throws
ValueOr(d, x) ==
  /\ d \in OSlots /\ Usable(st[d])
  /\ IF Poisoned(st[d])
     THEN Step("ValueOr", [d |-> d, v |-> x], "a=engaged,throws", st, <<E("read", d)>>, Threw(st))
     ELSE Step("ValueOr", [d |-> d, v |-> x], "a=" \o st[d].s, st, IF IsEng(st[d]) THEN <<E("read", d)>> ELSE <<>>,
               Ret(IF IsEng(st[d]) THEN st[d].v ELSE x) @@ Base(st))

\* has_value(), operator bool, and for an engaged wrapper value(), operator*, operator->; toString() returns
Observe(d) ==
  /\ d \in OSlots /\ Usable(st[d])
  /\ LET r == IF IsEng(st[d])
              THEN [has |-> TRUE, bool |-> TRUE, value |-> st[d].v, deref |-> st[d].v, arrow |-> st[d].v]
              ELSE [has |-> FALSE, bool |-> FALSE]
     IN Step("Observe", [d |-> d], "a=" \o st[d].s, st, IF IsEng(st[d]) THEN <<E("read", d)>> ELSE <<>>, Ret(r) @@ Base(st))

\* the six comparison operators between two Optionals (T/T or T/U).  The statement only says
\* they return normally; for two engaged wrappers the results follow the payload values.
Compare(a, b) ==
  /\ a \in TSlots /\ b \in OSlots /\ Usable(st[a]) /\ Usable(st[b])
  /\ LET x == st[a].v  y == st[b].v
         both == IsEng(st[a]) /\ IsEng(st[b])
         r == [eq |-> x = y, ne |-> x # y, lt |-> x < y, le |-> x <= y, gt |-> x > y, ge |-> x >= y]
         ev == (IF IsEng(st[a]) THEN <<E("read", a)>> ELSE <<>>) \o (IF IsEng(st[b]) THEN <<E("read", b)>> ELSE <<>>)
     IN Step("Compare", [a |-> a, b |-> b], "lhs=" \o st[a].s \o ",rhs=" \o st[b].s, st, IF both THEN ev ELSE <<>>,
             IF both THEN Ret(r) @@ Base(st) ELSE Base(st))

\* alignment clause: alignof(Optional<T>) is a multiple of alignof(T); the contained value's address
\* is a multiple of alignof(T) in an aligned slot, as a struct member after a char, as 2nd array element
Layout ==
  /\ NT > 0
  /\ Step("Layout", <<>>, "", st, <<>>,
          Ret([wrapper_align_mod |-> 0, in_slot_mod |-> 0, after_char_mod |-> 0, in_array_mod |-> 0]) @@ Base(st))

\* use an Optional<T> that is a struct member after a char: emplace v, read it back, reset
PackedUse(v) ==
  /\ NT > 0
  /\ Step("PackedUse", [v |-> v], "", st, <<>>, Ret(v) @@ Base(st))

-------------------------------------------------------------------------------
\* Any

AnyDefaultCtor(d) ==
  /\ d \in ASlots /\ st[d].s = "none"
  /\ LET s1 == [st EXCEPT ![d] = Empty]
     IN Step("AnyDefaultCtor", [d |-> d], "", s1, <<>>, Dst(s1, d) @@ Base(s1))

AnyValueCtor(d, ty, v, t) ==
  /\ d \in ASlots /\ st[d].s = "none" /\ (t => Throwing)
  /\ IF t THEN Step("AnyValueCtor", [d |-> d, ty |-> ty, v |-> v, t |-> t], "throws", st, <<>>, Dst(st, d) @@ Threw(st))
     ELSE LET s1 == [st EXCEPT ![d] = Eng(ty, v)]
          IN Step("AnyValueCtor", [d |-> d, ty |-> ty, v |-> v, t |-> t], "", s1, <<>>, Dst(s1, d) @@ Base(s1))

AnyCtorFrom(name, d, s, move) ==
  /\ d \in ASlots /\ s \in ASlots /\ st[d].s = "none" /\ s # d /\ Usable(st[s])
  /\ IF Poisoned(st[s])
     THEN LET s1 == [st EXCEPT ![s] = IF move THEN Moved ELSE @]
          IN Step(name, [d |-> d, s |-> s], "src=engaged,throws", s1, <<>>, Dst(s1, d) @@ Src(s1, s) @@ Threw(s1))
     ELSE LET s1 == [st EXCEPT ![d] = Given(st[s]), ![s] = IF move /\ IsEng(st[s]) THEN Moved ELSE @]
          IN Step(name, [d |-> d, s |-> s], "src=" \o st[s].s, s1, <<>>, Dst(s1, d) @@ Src(s1, s) @@ Base(s1))

AnyCopyCtor(d, s) == AnyCtorFrom("AnyCopyCtor", d, s, FALSE)
AnyMoveCtor(d, s) == AnyCtorFrom("AnyMoveCtor", d, s, TRUE)       \* Any(std::move(src))

AnyAssignValue(d, ty, v, t) ==
  /\ d \in ASlots /\ Constructed(st[d]) /\ (t => Throwing)
  /\ IF t THEN LET s1 == [st EXCEPT ![d] = AfterFailedAssign(@)]
               IN Step("AnyAssignValue", [d |-> d, ty |-> ty, v |-> v, t |-> t], "dst=" \o st[d].s \o ",throws", s1, <<>>,
                       Dst(s1, d) @@ Threw(s1))
     ELSE LET s1 == [st EXCEPT ![d] = Eng(ty, v)]
          IN Step("AnyAssignValue", [d |-> d, ty |-> ty, v |-> v, t |-> t], "dst=" \o st[d].s, s1, <<>>, Dst(s1, d) @@ Base(s1))

AnyAssignFrom(name, d, s, move) ==
  /\ d \in ASlots /\ s \in ASlots /\ Constructed(st[d]) /\ Usable(st[s]) /\ (move => s # d)
  /\ IF Poisoned(st[s])
     THEN /\ s # d
          /\ LET s1 == [st EXCEPT ![d] = AfterFailedAssign(@), ![s] = IF move THEN Moved ELSE @]
             IN Step(name, [d |-> d, s |-> s], "src=engaged,dst=" \o st[d].s \o ",throws", s1, <<>>,
                     Dst(s1, d) @@ Src(s1, s) @@ Threw(s1))
     ELSE LET s1  == [st EXCEPT ![d] = Given(st[s]), ![s] = IF move /\ IsEng(st[s]) THEN Moved ELSE @]
              cls == (IF s = d THEN "src=self" ELSE "src=" \o st[s].s) \o ",dst=" \o st[d].s
          IN Step(name, [d |-> d, s |-> s], cls, s1, <<>>, Dst(s1, d) @@ Src(s1, s) @@ Base(s1))

AnyCopyAssign(d, s) == AnyAssignFrom("AnyCopyAssign", d, s, FALSE)
AnyMoveAssign(d, s) == AnyAssignFrom("AnyMoveAssign", d, s, TRUE)

AnyDestroy(d) ==
  /\ d \in ASlots /\ Constructed(st[d])
  /\ LET s1 == [st EXCEPT ![d] = None]
     IN Step("AnyDestroy", [d |-> d], "dst=" \o st[d].s, s1, <<>>, Dst(s1, d) @@ Base(s1))

\* poison the held object through the reference get<ty>() returns
AnyPoison(d) ==
  /\ Throwing /\ d \in ASlots /\ IsEng(st[d]) /\ ~st[d].p
  /\ LET s1 == [st EXCEPT ![d].p = TRUE]
     IN Step("AnyPoison", [d |-> d], "", s1, <<>>, Dst(s1, d) @@ Base(s1))

TypeCls(x, ty) == IF ~IsEng(x) THEN "a=empty" ELSE IF x.ty = ty THEN "a=engaged,type=right" ELSE "a=engaged,type=wrong"

\* get<ty>() (const and non-const): the value for exactly the stored type, otherwise throws
AnyGet(d, ty) ==
  /\ d \in ASlots /\ Usable(st[d])
  /\ LET hit == IsEng(st[d]) /\ st[d].ty = ty
     IN Step("AnyGet", [d |-> d, ty |-> ty], TypeCls(st[d], ty), st, <<>>,
             IF hit THEN Ret(st[d].v) @@ Base(st) ELSE [done |-> "throws"] @@ Base(st))

\* get<ty>() = v : write through the returned reference (mutating a copy must not reach its source)
AnySet(d, ty, v) ==
  /\ d \in ASlots /\ Usable(st[d])
  /\ LET hit == IsEng(st[d]) /\ st[d].ty = ty
         s1  == IF hit THEN [st EXCEPT ![d] = Eng(ty, v)] ELSE st
     IN Step("AnySet", [d |-> d, ty |-> ty, v |-> v], TypeCls(st[d], ty), s1, <<>>,
             IF hit THEN Dst(s1, d) @@ Base(s1) ELSE [done |-> "throws"] @@ Dst(s1, d) @@ Base(s1))

\* valid(), is<T>(), is<X>()
AnyObserve(d) ==
  /\ d \in ASlots /\ Usable(st[d])
  /\ Step("AnyObserve", [d |-> d], "a=" \o st[d].s, st, <<>>,
          Ret([valid |-> IsEng(st[d]), isT |-> IsEng(st[d]) /\ st[d].ty = "T", isX |-> IsEng(st[d]) /\ st[d].ty = "X"]) @@ Base(st))

\* operator== and operator!= : must return; two engaged Anys are equal iff same type and value
AnyEquals(a, b) ==
  /\ a \in ASlots /\ b \in ASlots /\ Usable(st[a]) /\ Usable(st[b])
  /\ LET both == IsEng(st[a]) /\ IsEng(st[b])
         same == st[a].ty = st[b].ty /\ st[a].v = st[b].v
     IN Step("AnyEquals", [a |-> a, b |-> b], "lhs=" \o st[a].s \o ",rhs=" \o st[b].s, st, <<>>,
             IF both THEN Ret([eq |-> same, ne |-> ~same]) @@ Base(st) ELSE Base(st))

\* toString() must return
AnyToString(d) ==
  /\ d \in ASlots /\ Usable(st[d])
  /\ Step("AnyToString", [d |-> d], "a=" \o st[d].s, st, <<>>, Base(st))

-------------------------------------------------------------------------------
\* destroy every constructed wrapper: afterwards constructions = destructions
Teardown ==
  LET s1 == [w \in Slots |-> None]
      \* Optionals that (may) hold a payload object, in reverse slot order, as scoped objects would be destroyed
      HasObj == {w \in OSlots : st[w].s \in {"engaged", "moved"}}
      ev == [i \in 1..Cardinality(HasObj) |-> E("dtor", CHOOSE w \in HasObj : Cardinality({u \in HasObj : u > w}) = i - 1)]
  IN Step("Teardown", <<>>, "", s1, ev, Base(s1))

\* everything except the two stateless layout probes
NextCore ==
  \/ \E d \in OSlots :
        \/ DefaultCtor(d) \/ ResetValue(d) \/ Destroy(d) \/ Observe(d) \/ Poison(d)
        \/ \E v \in Vals : \/ Mutate(d, v) \/ ValueOr(d, v)
                            \/ \E t \in BOOLEAN : ValueCtor(d, v, t) \/ MakeOptional(d, v, t) \/ AssignValue(d, v, t) \/ Emplace(d, v, t)
        \/ \E s \in OSlots : \/ CopyCtor(d, s) \/ MoveCtor(d, s) \/ ConvCopyCtor(d, s) \/ ConvMoveCtor(d, s)
                             \/ CopyAssign(d, s) \/ MoveAssign(d, s) \/ ConvCopyAssign(d, s) \/ ConvMoveAssign(d, s)
                             \/ Compare(d, s)
  \/ \E d \in ASlots :
        \/ AnyDefaultCtor(d) \/ AnyDestroy(d) \/ AnyObserve(d) \/ AnyToString(d) \/ AnyPoison(d)
        \/ \E ty \in AnyTypes : \/ AnyGet(d, ty)
                                \/ \E v \in Vals : \/ AnySet(d, ty, v)
                                                    \/ \E t \in BOOLEAN : AnyValueCtor(d, ty, v, t) \/ AnyAssignValue(d, ty, v, t)
        \/ \E s \in ASlots : AnyCopyCtor(d, s) \/ AnyMoveCtor(d, s) \/ AnyCopyAssign(d, s) \/ AnyMoveAssign(d, s) \/ AnyEquals(d, s)
  \/ Teardown

Next == NextCore \/ Layout \/ (\E v \in Vals : PackedUse(v))

Spec == Init /\ [][Next]_vars
SpecCore == Init /\ [][NextCore]_vars

-------------------------------------------------------------------------------
\* Properties of the specification itself

\* the reference lifetime protocol of every step is legal from the storage ghost of the state it was
\* taken in and ends in the storage ghost of the new state (checked as an action property)
RefProtocolLegal == [][Legal(Store(st), last'.ev, Store(st'))]_vars

\* a step changes only its target and (for a move from an engaged wrapper) marks the source
Touched(l) == IF l.a = "Teardown" THEN Slots
              ELSE {l.arg[f] : f \in (DOMAIN l.arg) \cap {"d", "s"}}
Independence == [][\A w \in Slots \ Touched(last') : st'[w] = st[w]]_vars

\* a copy equals its source and leaves the source untouched
CopyActions == {"CopyCtor", "ConvCopyCtor", "CopyAssign", "ConvCopyAssign", "AnyCopyCtor", "AnyCopyAssign"}
CopyOK(s0, s1, l) == l.a \in CopyActions =>
                          /\ s1[l.arg.s] = s0[l.arg.s]                       \* also when the copy throws
                          /\ l.exp.done = "returned" =>
                               /\ s1[l.arg.d].s = s0[l.arg.s].s /\ s1[l.arg.d].v = s0[l.arg.s].v
                               /\ s1[l.arg.d].ty = s0[l.arg.s].ty
CopiesEqualSource == [][CopyOK(st, st', last')]_vars

\* after a step that threw, nothing new is held: no wrapper came into existence, no wrapper became engaged,
\* and no value changed
NothingGivenByThrow ==
  [][last'.exp.done = "throws" =>
       \A w \in Slots : /\ (st[w].s = "none" => st'[w].s = "none")
                        /\ (IsEng(st'[w]) => st'[w] = st[w])]_vars

\* the observables published in `last` are those of the current state
LastAgrees == last.exp.world = World(st) /\ last.exp.life = Life(st)
===============================================================================
