SPECIFICATION Spec
CONSTANTS
  Syms = {"a", "b", "c"}
  MaxLen = 4
  MaxCnt = 3
  ReConstruct = FALSE
INVARIANTS TypeOK LastAgrees
