---------------------------- MODULE ArrayWrappersGen ----------------------------
(* History generation from ArrayWrappers: `hist` is the sequence of `last`     *)
(* records of the behaviour.  After a forced prefix (sources that every        *)
(* history of the family needs) EVERY history of K further steps is a distinct *)
(* TLC state; the ones of full length are printed as JSON (one line each).     *)
(* The same module, run with `tlc -simulate`, yields seeded random long        *)
(* behaviours over the large instance.                                         *)
EXTENDS ArrayWrappers, Json, IOUtils

CONSTANTS Prefix    \* name of the forced prefix
K == atoi(IOEnv.GEN_K)      \* steps after the prefix (environment: the tiers differ in nothing else)
VARIABLES hist, done
varsG == <<wr, src, bufs, last, hist, done>>

MkSrc(s, n) == [a |-> "SrcMake", arg |-> [s |-> s, sk |-> IF IsVec(s) THEN "vec" ELSE "arr", runs |-> PalCont(0, s, n)]]
PrefixSteps ==
  CASE Prefix = "none"   -> <<>>
    [] Prefix = "vec"    -> <<MkSrc(1, MaxLen)>>
    [] Prefix = "arr"    -> <<MkSrc(NV + 1, ArrLen)>>
    [] Prefix = "vecarr" -> <<MkSrc(1, MaxLen), MkSrc(NV + 1, ArrLen)>>
P == Len(PrefixSteps)

InitG == Init /\ hist = <<>> /\ done = FALSE
Step  == /\ Len(hist) < P + K
         /\ Next
         /\ Len(hist) < P => last'.a = PrefixSteps[Len(hist) + 1].a /\ last'.arg = PrefixSteps[Len(hist) + 1].arg
         /\ hist' = Append(hist, last')
         /\ done' = FALSE
\* a behaviour of full length is written out exactly once, when it is left (so that in
\* simulation mode only the behaviour actually taken is printed, not every candidate successor)
Finish == /\ Len(hist) = P + K /\ ~done
          /\ PrintT("@H@" \o ToJson(hist))
          /\ done' = TRUE
          /\ UNCHANGED <<wr, src, bufs, last, hist>>
NextG == Step \/ Finish
SpecG == InitG /\ [][NextG]_varsG
\* (run with -deadlock: behaviours end after P + K steps)
===============================================================================
