------------------------------ MODULE FileNames ------------------------------
(* Reference meaning of rkcommon::FileName (property C18, third sentence):    *)
(*   str()  = path() \o base()                                                *)
(*   base() = name() \o "." \o ext(), ext() taken from the LAST COMPONENT only *)
(*   dropExt / setExt / addExt / operator+ recompose accordingly.             *)
(*                                                                            *)
(* f is the file name string (str()); SEP separates components.  Everything   *)
(* is defined from the statement: the last component is what follows the last *)
(* separator, the extension is what follows the last dot OF THAT COMPONENT.   *)
(* A second, component-list based definition (split f at every separator,     *)
(* take the last element, split it at its last dot) is proved equal by        *)
(* FileNamesGen on the bounded domain.                                        *)
(*                                                                            *)
(* Not constrained (the statement does not say):                              *)
(*   - how the constructor normalises its argument beyond dropping trailing   *)
(*     separators (the laws are about str(), see FileNamesGen / C18Validate); *)
(*   - name()/ext() of a last component whose only dot is its first character *)
(*     (".a": hidden file - extension "a" or no extension?) and of ".."       *)
(*     (class "special"): both readings satisfy base = name.ext;              *)
(*   - whether a run of separators is kept or collapsed where operator+ joins *)
(*     its operands ("a" + "/b"), operator-, canonical.                       *)
(* operator+ (both overloads) follows ONE rule, JoinNames: an empty left name *)
(* returns the right operand, otherwise "this/other".  With it a name must    *)
(* recompose from its parts: FileName(path()) + base() names the same file.   *)
EXTENDS Strings

SEP == "/"
DOT == "."

LastIdx(s, c) ==
  LET P == {i \in DOMAIN s : s[i] = c} IN IF P = {} THEN 0 ELSE CHOOSE i \in P : \A j \in P : j <= i

Has(s, c) == \E i \in DOMAIN s : s[i] = c

RECURSIVE StripSep(_)
StripSep(s) == IF s # <<>> /\ s[Len(s)] = SEP THEN StripSep(SubSeq(s, 1, Len(s) - 1)) ELSE s

PathOf(f) == SubSeq(f, 1, LastIdx(f, SEP))                 \* through the last separator ("" if none)
BaseOf(f) == SubSeq(f, LastIdx(f, SEP) + 1, Len(f))        \* the last component

NameOfBase(b) == IF Has(b, DOT) THEN SubSeq(b, 1, LastIdx(b, DOT) - 1) ELSE b
ExtOfBase(b)  == IF Has(b, DOT) THEN SubSeq(b, LastIdx(b, DOT) + 1, Len(b)) ELSE <<>>

NameOf(f)  == NameOfBase(BaseOf(f))
ExtOf(f)   == ExtOfBase(BaseOf(f))
DropExt(f) == PathOf(f) \o NameOf(f)
SetExt(f, x) == DropExt(f) \o x
AddExt(f, x) == f \o x
\* operator+, either overload: f is the left name (str()), g the right operand.
\* An empty left name contributes nothing - in particular no separator, a relative
\* name must not become absolute - otherwise "this/other".
JoinNames(f, g) == IF f = <<>> THEN g ELSE f \o <<SEP>> \o g

\* two strings name the same file: equal up to collapsing runs of separators and
\* dropping trailing ones (a LEADING separator is significant: "/a" is not "a")
RECURSIVE Collapse(_)
Collapse(s) == IF Len(s) < 2 THEN s
               ELSE IF s[1] = SEP /\ s[2] = SEP THEN Collapse(Tail(s)) ELSE <<s[1]>> \o Collapse(Tail(s))
SameName(x, y) == StripSep(Collapse(x)) = StripSep(Collapse(y))
AllSeps(s) == \A i \in DOMAIN s : s[i] = SEP

\* input classes of operator+ and of the recomposition FileName(path()) + base()
PlusCls(f, g) == (IF f = <<>> THEN "left=empty" ELSE "left=name") \o
                 (IF AllSeps(g) THEN ",right=empty"                  \* "" or separators only
                  ELSE IF g[1] = SEP THEN ",right=leadsep"
                  ELSE IF g[Len(g)] = SEP THEN ",right=trailsep" ELSE ",right=name")
RecomposeCls(f) == IF PathOf(f) = <<>> THEN "path=empty" ELSE IF AllSeps(PathOf(f)) THEN "path=root" ELSE "path=dir"

\* a last component whose decomposition the statement leaves open
Special(b) == (b # <<>> /\ b[1] = DOT /\ LastIdx(b, DOT) = 1) \/ b = <<DOT, DOT>>

Cls(f) == (IF Has(PathOf(f), DOT) THEN "dirdot=1" ELSE "dirdot=0") \o
          (IF Has(BaseOf(f), DOT) THEN ",basedot=1" ELSE ",basedot=0") \o
          (IF Special(BaseOf(f)) THEN ",special" ELSE "")

-------------------------------------------------------------------------------
\* component-list reading: f = c1 SEP c2 SEP ... SEP cn (components may be empty)
RECURSIVE Comps(_, _)
Comps(s, cur) == IF s = <<>> THEN <<cur>>
                 ELSE IF s[1] = SEP THEN <<cur>> \o Comps(Tail(s), <<>>)
                 ELSE Comps(Tail(s), Append(cur, s[1]))
Components(f) == Comps(f, <<>>)
LastComp(f)   == Components(f)[Len(Components(f))]

FileLaws(f) ==
  LET b == BaseOf(f) IN
  /\ PathOf(f) \o b = f
  /\ ~Has(b, SEP)
  /\ (PathOf(f) = <<>> \/ PathOf(f)[Len(PathOf(f))] = SEP)
  /\ b = LastComp(f)                                                   \* "the last component"
  /\ Concat([i \in DOMAIN Components(f) |-> IF i = 1 THEN Components(f)[i] ELSE <<SEP>> \o Components(f)[i]]) = f
  /\ (Has(b, DOT)  => b = NameOf(f) \o <<DOT>> \o ExtOf(f))            \* base = name.ext
  /\ (~Has(b, DOT) => NameOf(f) = b /\ ExtOf(f) = <<>>)
  /\ ~Has(ExtOf(f), DOT) /\ ~Has(ExtOf(f), SEP)
  /\ (Has(b, DOT) => DropExt(f) \o <<DOT>> \o ExtOf(f) = f)            \* recomposition
  /\ (~Has(b, DOT) => DropExt(f) = f)
  /\ PathOf(DropExt(f)) = PathOf(f)                                    \* the directory part is never touched
  /\ \A d \in {<<>>, <<"a", DOT, "a", SEP>>} : ExtOf(d \o b) = ExtOf(b) /\ NameOf(d \o b) = NameOf(b)   \* last component only
  \* recomposition with the join rule: directory part (without its trailing separator) joined with the last component
  /\ (PathOf(f) = <<>> => JoinNames(PathOf(f), b) = f)                     \* single component: nothing is prepended
  /\ (~AllSeps(PathOf(f)) => SameName(JoinNames(StripSep(PathOf(f)), b), f))
  /\ SameName(JoinNames(f, <<>>), f)                                      \* an empty right operand adds nothing
  /\ (b # <<>> => BaseOf(JoinNames(PathOf(f), b)) = b)
===============================================================================
