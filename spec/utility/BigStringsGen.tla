---------------------------- MODULE BigStringsGen ----------------------------
(* Boundary cases for the string / path / URL helpers (property C18):         *)
(* lengths and counts around 15/16/17 (small-string boundary), 255/256/257,   *)
(* 4095/4096/4097 and 65535/65536/65537 - long tokens, long delimiter runs,   *)
(* long path components, long common prefixes, many tokens, many parameters.  *)
(* 1. TLC proves the block algebra of BigStrings equal to the character-level *)
(*    definitions on all small block lists, and the many-tokens formula on    *)
(*    small repetition counts.                                                *)
(* 2. It emits the cases; strings travel as blocks [[c, n], ...].             *)
EXTENDS BigStrings, TLC, Json, IOUtils, SequencesExt

CONSTANT Lens      \* lengths / counts to probe

\* ---- laws -------------------------------------------------------------------
RECURSIVE CanonLists(_, _, _)
\* all canonical block lists with at most k blocks over alphabet A, counts 1..c
CanonLists(A, k, c) ==
  IF k = 0 THEN {<<>>}
  ELSE LET S == CanonLists(A, k - 1, c) IN
       S \cup UNION {{<<Blk(x, n)>> \o B : n \in 1..c, B \in {Y \in S : Len(Y) = k - 1 /\ (Y = <<>> \/ Y[1][1] # x)}} : x \in A}

TokLists  == CanonLists({"a", "b", ":"}, 4, 2)
FileLists == CanonLists({"a", DOT, SEP}, 4, 2)
ASSUME LawTok    == \A B \in TokLists : BlockLawsTok(B, {":"}) /\ BlockLawsTok(B, {":", "b"})
ASSUME LawPrefix == \A A \in CanonLists({"a", "b"}, 3, 3), B \in CanonLists({"a", "b"}, 3, 3) : BlockLawsPrefix(A, B)
ASSUME LawFile   == \A B \in FileLists : \A X \in {<<>>, <<Blk(DOT, 1), Blk("a", 2)>>}, G \in {<<Blk("a", 1)>>, <<Blk("a", 2), Blk(DOT, 1), Blk("a", 1)>>} :
                        BlockLawsFile(B, X, G)
Units == {<<"a", ":">>, <<"a", "b", ":">>, <<"a", ":", ":">>}
Tails == {<<>>, <<"a">>, <<"b">>, <<"a", "b">>}
ASSUME LawRep    == \A u \in Units, n \in 0..4, t \in Tails : UnitOk(u, {":"}) /\ RepLaw(u, n, t, {":"})

\* ---- cases --------------------------------------------------------------------
\* input classes (signatures): the boundary a length / count lies at
Bucket(n) == IF n <= 2 THEN "<=2" ELSE IF n <= 24 THEN "~16" ELSE IF n <= 129 THEN "~128" ELSE IF n <= 257 THEN "~256"
             ELSE IF n <= 4097 THEN "~4096" ELSE "~65536"
R(B)  == B                                   \* a block list is emitted as it is: [["a", 4096], [":", 1]]
RS(T) == [i \in DOMAIN T |-> T[i]]
A(n) == Blk("a", n)
Bb(n) == Blk("b", n)
Cc(n) == Blk("c", n)

SplitTemplates(d, L) ==
  {<<A(L)>>, <<A(L), Blk(d, 1), Bb(1)>>, <<Bb(1), Blk(d, 1), A(L)>>, <<A(1), Blk(d, L), Bb(1)>>,
   <<Blk(d, 1), A(L), Blk(d, 1)>>, <<A(L), Blk(d, 1), Bb(L), Blk(d, 1), A(L - 1)>>, <<Blk(d, L)>>}

SplitCase(op, B, ds) ==
  LET D == {ds[i] : i \in DOMAIN ds} IN
  [a |-> op, arg |-> [s |-> R(B), d |-> Join(ds), rle |-> TRUE], cls |-> "len" \o Bucket(BLen(B)),
   exp |-> [tokens |-> RS(BTokens(B, D)), tokens_joined |-> R(BNonDelim(B, D))]]

PrefixPairs(L) ==
  {<<<<A(L), Bb(1)>>, <<A(L), Cc(1)>>>>, <<<<A(L)>>, <<A(L + 1)>>>>, <<<<A(L + 1)>>, <<A(L)>>>>,
   <<<<A(L), Bb(1)>>, <<A(L)>>>>, <<<<A(L - 1), Bb(1), A(1)>>, <<A(L)>>>>, <<<<A(L)>>, <<A(L)>>>>}

FileTemplates(L) ==
  {<<A(L), Blk(SEP, 1), Bb(L), Blk(DOT, 1), Cc(L)>>,          \* long directory, name and extension
   <<A(L), Blk(DOT, 1), A(1), Blk(SEP, 1), Bb(L)>>,            \* dot only in the (long) directory
   <<Bb(L), Blk(DOT, 1), Cc(1)>>, <<A(L)>>,                    \* single components
   <<A(1), Blk(SEP, 1), Bb(1), Blk(DOT, 1), Cc(L)>>,           \* long extension
   <<A(L), Blk(SEP, 1), Bb(1), Blk(DOT, 2), Cc(1)>>}           \* two dots
FileCases(B, L) ==
  LET c == "len" \o Bucket(BLen(B))
      X == <<Blk(DOT, 1), Blk("d", L)>>
      G == <<Bb(L), Blk(DOT, 1), Cc(1)>>
      arg(extra) == [s |-> R(B), rle |-> TRUE] @@ extra
  IN {[a |-> "FnSplit", arg |-> arg(<<>>), cls |-> c,
       exp |-> [str |-> R(B), str_c |-> R(B), conv |-> R(B), cstr |-> R(B), path |-> R(BPathOf(B)), base |-> R(BBaseOf(B))]],
      [a |-> "FnNameExt", arg |-> arg(<<>>), cls |-> c, exp |-> [name |-> R(BNameOf(B)), ext |-> R(BExtOf(B))]],
      [a |-> "FnDropExt", arg |-> arg(<<>>), cls |-> c, exp |-> [res |-> R(BDropExt(B))]],
      [a |-> "FnSetExt", arg |-> arg([x |-> R(X)]), cls |-> c, exp |-> [res |-> R(BSetExt(B, X))]],
      [a |-> "FnAddExt", arg |-> arg([x |-> R(X)]), cls |-> c, exp |-> [res |-> R(BAddExt(B, X))]],
      [a |-> "FnPlus", arg |-> arg([o |-> R(G)]), cls |-> c,
       exp |-> LET r == BJoin(B, G) IN [res_fn |-> R(r), res_str |-> R(r), path |-> R(BPathOf(r)), base |-> R(BBaseOf(r))]],
      [a |-> "FnRecompose", arg |-> arg(<<>>), cls |-> c, exp |-> [res_fn |-> R(B), res_str |-> R(B)]]}

\* many tokens: unit^n tail
RepCase(op, u, n, t, ds) ==
  LET D == {ds[i] : i \in DOMAIN ds}
      T == RepTokens(u, n, t, D)
  IN [a |-> op, arg |-> [u |-> Join(u), n |-> n, tail |-> Join(t), d |-> Join(ds)], cls |-> "ntok" \o Bucket(n),
      exp |-> [tokens_counted |-> [i \in DOMAIN T |-> [tok |-> Join(T[i][1]), count |-> T[i][2]]]]]

\* many parameters: names[(i-1) % p + 1] = "v<i>" for i = 1..n; the last duplicate wins
\* index of the last of the n parameters that is called x (0: none): closed form, proved equal to the search below for small n
LastI(names, n, x) == LET p == Len(names)
                          S == {n - ((n - j) % p) : j \in {k \in DOMAIN names : names[k] = x /\ k <= n}}
                      IN IF S = {} THEN 0 ELSE CHOOSE i \in S : \A j \in S : j <= i
LastISearch(names, n, x) == LET S == {i \in 1..n : names[((i - 1) % Len(names)) + 1] = x}
                            IN IF S = {} THEN 0 ELSE CHOOSE i \in S : \A j \in S : j <= i
NamePatterns == {<<"k">>, <<"k", "m">>, <<"a", "k", "k">>, <<"m", "a", "a", "a", "a", "a", "a">>}
RepQuery == <<"zz", "k", "m", "zz">>        \* an absent name first and last: a throwing getValue must not disturb the next query
UrlRepCase(names, n) ==
  [a |-> "UrlParseRep", arg |-> [t |-> "ty", f |-> "dir/f.e", names |-> names, n |-> n, q |-> RepQuery], cls |-> "nparams" \o Bucket(n),
   exp |-> [type |-> "ty", fileName |-> "dir/f.e",
            params |-> [i \in DOMAIN RepQuery |->
                          LET l == LastI(names, n, RepQuery[i]) IN
                          [n |-> RepQuery[i], has |-> (l > 0), throws |-> (l = 0), val |-> IF l = 0 THEN "" ELSE "v" \o ToString(l)]]]]

ASSUME LawLastI == \A names \in NamePatterns, n \in 0..20, x \in {"k", "m", "a", "zz"} : LastI(names, n, x) = LastISearch(names, n, x)

Counts == Lens \cup {0, 1, 2, 127, 128, 129}
Cases ==
     UNION {{SplitCase("SplitChar", B, <<",">>) : B \in SplitTemplates(",", L)} : L \in Lens}
\cup UNION {{SplitCase("Tokenize", B, <<":">>) : B \in SplitTemplates(":", L)} : L \in Lens}
\cup UNION {{SplitCase("SplitSet", B, <<",", ";">>) : B \in SplitTemplates(",", L) \cup SplitTemplates(";", L)} : L \in Lens}
\cup UNION {{[a |-> "Lcp", arg |-> [x |-> R(p[1]), y |-> R(p[2]), rle |-> TRUE], cls |-> "len" \o Bucket(L),
              exp |-> [lcp |-> R(BLcp(p[1], p[2]))]] : p \in PrefixPairs(L)} : L \in Lens}
\cup UNION {{[a |-> "BeginsWith", arg |-> [x |-> R(p[1]), y |-> R(p[2]), rle |-> TRUE], cls |-> "len" \o Bucket(L),
              exp |-> [ret |-> BIsPrefixOf(p[2], p[1])]] : p \in PrefixPairs(L)} : L \in Lens}
\cup UNION {UNION {FileCases(B, L) : B \in FileTemplates(L)} : L \in Lens}
\cup {RepCase(op, u, n, t, <<":">>) : op \in {"SplitCharRep", "TokenizeRep", "SplitSetRep"}, u \in Units, n \in Counts, t \in Tails}
\cup {UrlRepCase(names, n) : names \in NamePatterns, n \in Counts}

ASSUME Emit == ndJsonSerialize(IOEnv.OUT, SetToSeq(Cases))
===============================================================================
