--------------------------- MODULE ImageWritersBigGen ---------------------------
(* Case generation for LARGE images (property C20, images): every writer on    *)
(* wide images (widths around 1024 / 2048 / 4096 x heights 1..3), on their     *)
(* transposes (tall images) and on one mid-size image, so that sizes around    *)
(* internal block / buffer boundaries of a writer are inside the checked       *)
(* domain.  A case carries (writer, w, h, pattern id) and the sampled rows and *)
(* columns; the input is Pix(pat, x, y, k) of ImageWriters.  TLC computes from *)
(* the index map                                                               *)
(*   samples   the decoded samples at the sampled rows x columns (both sides   *)
(*             of every block boundary, both ends; all rows / columns of the   *)
(*             short side),                                                    *)
(*   rowsum, rowwsum   for EVERY file row the sum and the position-weighted    *)
(*             sum of all its samples modulo 65521 - every sample of the file  *)
(*             takes part in the verdict,                                      *)
(*   spots     a few input values Pix(...) that the driver's own fill must     *)
(*             reproduce (harness self-check, not a verdict).                  *)
(* Laws: PixLaws; the index laws on one large size per writer and orientation  *)
(* (in-bounds, and bijective onto the selected components by counting).        *)
EXTENDS ImageWriters, Json, IOUtils, SequencesExt, FiniteSetsExt

CONSTANTS Widths,       \* the large dimension
          Shorts,       \* the small dimension
          Part,         \* "wide" | "tall" | "mid" | "huge" | "sweep": which cases this run emits (runs are independent)
          SweepVals     \* byte values for the sweep part

\* the laws of the patterns are checked by the run that emits the mid-size cases (resp. the sweep cases); the runs are parts of one check
ASSUME LawsPix == IF Part = "sweep" THEN SweepLaws ELSE IF Part = "mid" THEN PixLaws ELSE TRUE

\* the index laws on large sizes, by counting (the pairwise formulation is quadratic)
BigLaw(w, W, H) ==
  LET img == {SrcIdx(w, W, H, p[1], p[2], p[3]) : p \in Positions(w, W, H)}
  IN /\ InBounds(w, W, H)
     /\ Cardinality(img) = OutLen(w, W, H)                 \* injective
     /\ img = Selected(w, W, H)                            \* onto exactly the selected components
     /\ RowLaw(w, H) /\ HeaderLaw(w)
ASSUME LawsBig == \A w \in Writers : IF Part = "wide" THEN BigLaw(w, 1025, 2) ELSE IF Part = "tall" THEN BigLaw(w, 2, 1025)
                                      ELSE IF Part = "huge" THEN BigLaw(w, 255, 257) ELSE BigLaw(w, 40, 30)

\* huge: one dimension around 2^16 (a 16-bit size or index somewhere), and images of about 2^16 pixels
Sizes == IF Part = "wide" THEN Widths \X Shorts
         ELSE IF Part = "tall" THEN Shorts \X Widths
         ELSE IF Part = "huge" THEN (Widths \X Shorts) \cup (Shorts \X Widths) \cup (IF 2 \in Shorts THEN {<<256, 256>>, <<255, 257>>} ELSE {})
         ELSE IF Part = "sweep" THEN {<<2, 2>>, <<2, 1>>, <<1, 2>>}
         ELSE {<<300, 200>>}

PatOf(W, H) == 1 + ((W + H) % 3)
Sorted(S) == SetToSortSeq(S, <)

RowSum(vals)  == FoldSet(LAMBDA i, acc : (acc + vals[i]) % Prime, 0, DOMAIN vals)
RowWSum(vals) == FoldSet(LAMBDA i, acc : (acc + (((i - 1) % 251) + 1) * vals[i]) % Prime, 0, DOMAIN vals)

CaseOf(w, W, H, pat) ==
  LET
      rows == Sorted(SampleRows(H))
      cols == Sorted(SampleCols(W))
      rv   == [row \in 1..H |-> RowVals(w, W, H, pat, row - 1)]
      spotsAt == {<<0, 0, 0>>, <<W - 1, 0, PixComp(w) - 1>>, <<0, H - 1, 0>>, <<W - 1, H - 1, PixComp(w) - 1>>, <<W \div 2, H \div 2, 0>>,
                  <<(W * 3) \div 4, H \div 3, PixComp(w) - 1>>}
  IN [a |-> w,
      arg |-> [w |-> W, h |-> H, buf |-> "exact", pat |-> pat, pixcomp |-> PixComp(w), rows |-> rows, cols |-> cols,
               spots |-> SetToSeq({<<s[1], s[2], s[3], Pix(pat, s[1], s[2], s[3])>> : s \in spotsAt})],
      cls |-> "buf=exact" \o (IF W > 1024 THEN ",width>1024" ELSE "") \o (IF H > 1024 THEN ",height>1024" ELSE ""),
      exp |-> Header(w, W, H) @@
              [decodable |-> TRUE,
               samples |-> [i \in DOMAIN rows |-> [j \in DOMAIN cols |-> [ch \in 1..OutComp(w) |->
                              DecodedAt(w, W, H, pat, rows[i], cols[j], ch - 1)]]],
               rowsum  |-> [row \in 1..H |-> RowSum(rv[row])],
               rowwsum |-> [row \in 1..H |-> RowWSum(rv[row])]]]

Cases == IF Part = "sweep"
         THEN {CaseOf(w, s[1], s[2], 100 + v) : w \in {"writePPM", "writePGM", "writePFM_vec3fa"}, s \in Sizes, v \in SweepVals}
         ELSE {CaseOf(w, s[1], s[2], PatOf(s[1], s[2])) : w \in Writers, s \in Sizes}

ASSUME Emit == ndJsonSerialize(IOEnv.OUT, SetToSeq(Cases))
===============================================================================
