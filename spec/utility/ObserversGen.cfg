SPECIFICATION Spec
CONSTANTS
  Subjects = {1, 2}
  Watchers = {1, 2, 3}
INVARIANTS TypeOK NothingDangles OrphanSilent
