CONSTANTS
  ESizes = {1, 2, 4, 8, 12}
  MaxExtra = 3
  Bases = {0, 1, 3, 4, 8}
  NMax = 4
