SPECIFICATION TSpec
CONSTANTS
  Syms = {"a", "b", "c", "d", "e", "f"}
  MaxLen = 16
  MaxCnt = 4
  ReConstruct = TRUE
INVARIANTS LastAgrees
POSTCONDITION Post
CHECK_DEADLOCK FALSE
