------------------------------ MODULE DataViewIdx ------------------------------
(* rkcommon::utility::DataView<T> (property C11, functional part):             *)
(*   DataView<T>(p, stride)[i]  designates the sizeof(T) bytes at byte offset  *)
(*   i * stride from p - nothing else; the default stride is sizeof(T).        *)
(* A layout is (element size, stride - any number of bytes: larger than the    *)
(* element incl. non-multiples, equal to it, smaller (elements overlap) or 0   *)
(* (every index reads the same element) - start offset of the view inside the  *)
(* byte buffer, number of elements); the                                       *)
(* buffer holds a position-revealing byte pattern and is exactly as long as    *)
(* the layout needs (the driver allocates exactly that much: any other read is *)
(* a sanitizer report).                                                        *)
EXTENDS Integers, Sequences, FiniteSets, TLC, Json, IOUtils, SequencesExt

CONSTANTS ESizes,    \* element sizes in bytes (the driver has a T for 1, 2, 4, 8, 12)
          MaxExtra,  \* strides 0 .. 2*esz + MaxExtra
          Bases,     \* byte offsets of the view's start within the buffer
          NMax       \* number of elements of a layout: 1..NMax

Align(e) == IF e = 12 THEN 4 ELSE e            \* alignof of the driver's element type
Pat(k)   == (k * 7 + 3) % 256                  \* byte stored at buffer position k (0-based)

Layouts == {[esz |-> e, stride |-> st, base |-> b, n |-> n] :
              e \in ESizes, st \in 0..(2 * 12 + MaxExtra), b \in Bases, n \in 1..NMax}
Good(l)  == l.esz \in ESizes /\ l.stride >= 0 /\ l.stride <= 2 * l.esz + MaxExtra
BufLen(l) == l.base + (l.n - 1) * l.stride + l.esz
Buf(l)   == [k \in 1..BufLen(l) |-> Pat(k - 1)]
Aligned(l) == l.base % Align(l.esz) = 0 /\ l.stride % Align(l.esz) = 0

\* the reference meaning: element i = bytes [i*stride, i*stride + esz) counted from the view's start
ByteRange(l, i) == {l.base + i * l.stride + k : k \in 0..(l.esz - 1)}      \* buffer positions (0-based)
Elem(l, i) == [k \in 1..l.esz |-> Buf(l)[l.base + i * l.stride + k]]

GoodLayouts == {l \in Layouts : Good(l)}

\* Laws of the reference (checked by TLC before any case is written)
ASSUME PatternRevealsPosition == \A j, k \in 0..255 : Pat(j) = Pat(k) => j = k
ASSUME BuffersFitPattern == \A l \in GoodLayouts : BufLen(l) <= 256
ASSUME ElementsInBounds == \A l \in GoodLayouts : \A i \in 0..(l.n - 1) : \A p \in ByteRange(l, i) : p >= l.base /\ p < BufLen(l)
ASSUME LastElementEndsBuffer == \A l \in GoodLayouts : \E p \in ByteRange(l, l.n - 1) : p = BufLen(l) - 1
ASSUME ElementsDisjoint == \A l \in GoodLayouts : l.stride >= l.esz => \A i, j \in 0..(l.n - 1) : i # j => ByteRange(l, i) \cap ByteRange(l, j) = {}
ASSUME ElementsDistinct == \A l \in GoodLayouts : l.stride > 0 => \A i, j \in 0..(l.n - 1) : i # j => Elem(l, i) # Elem(l, j)
ASSUME Broadcast        == \A l \in GoodLayouts : l.stride = 0 => \A i \in 0..(l.n - 1) : Elem(l, i) = Elem(l, 0) /\ BufLen(l) = l.base + l.esz
ASSUME Overlapping      == \A l \in GoodLayouts : l.stride > 0 /\ l.stride < l.esz /\ l.n >= 2 =>
                              ByteRange(l, 0) \cap ByteRange(l, 1) = (l.base + l.stride)..(l.base + l.esz - 1)
ASSUME DenseIsArray == \A l \in GoodLayouts : l.stride = l.esz => \A i \in 0..(l.n - 1) : ByteRange(l, i) = (l.base + i * l.esz)..(l.base + (i + 1) * l.esz - 1)

Ops(l) == {"ctor", "reset", "copy"} \cup (IF l.stride = l.esz THEN {"ctor_default_stride", "reset_default_stride"} ELSE {})

CaseOf(l, i, op) ==
  [a |-> "DataView",
   arg |-> [esz |-> l.esz, stride |-> l.stride, base |-> l.base, n |-> l.n, i |-> i, op |-> op,
            al |-> Aligned(l), buf |-> Buf(l)],
   cls |-> (IF l.stride = l.esz THEN "dense" ELSE IF l.stride > l.esz THEN "strided" ELSE IF l.stride = 0 THEN "broadcast" ELSE "overlapping")
           \o (IF Aligned(l) THEN ",aligned" ELSE ",unaligned"),
   exp |-> [off |-> i * l.stride, bytes |-> Elem(l, i)]]
Cases == UNION {{CaseOf(l, i, op) : i \in 0..(l.n - 1), op \in Ops(l)} : l \in GoodLayouts}

ASSUME Emit == ndJsonSerialize(IOEnv.OUT, SetToSeq(Cases))
===============================================================================
