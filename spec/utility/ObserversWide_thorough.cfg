SPECIFICATION Spec
CONSTANTS
  Sizes = {1, 2, 3, 127, 128, 129, 255, 256, 257, 511, 512, 513, 1023, 1024, 1025, 4095, 4096, 4097, 65535, 65536, 65537}
  Shapes = {1, 2, 3}
  DeclMax = 1100
INVARIANTS NothingDangles AgreesWithHistory
CHECK_DEADLOCK FALSE
