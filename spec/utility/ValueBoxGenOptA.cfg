SPECIFICATION SpecCore
CONSTANTS
  NT = 3
  NU = 0
  NA = 0
  Throwing = FALSE
  WithMake = FALSE
  Vals = {1, 2}
INVARIANTS TypeOK WellFormed LastAgrees
PROPERTIES RefProtocolLegal Independence CopiesEqualSource
