CONSTANTS
  N = 7
  NP = 5
