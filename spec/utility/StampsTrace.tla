----------------------------- MODULE StampsTrace -----------------------------
(* Trace specification for multi-threaded executions of the real TimeStamp    *)
(* (property C19, second sentence).  It states, for the values the threads    *)
(* logged, the contract Stamps.tla establishes for the atomic counter under   *)
(* all interleavings:                                                         *)
(*   Unique               no value was carried by two freshly created /       *)
(*                        renewed stamps, on whatever threads                 *)
(*   IncreasingPerThread  a thread's fresh values grow in its program order   *)
(*   CopiesCarry          a copy carries the value its source carried, which  *)
(*                        is a value that was handed out                      *)
(*                                                                            *)
(* Events of one burst (harness/drivers/stamps/conc.cpp), thread 0 = main:    *)
(*   Start(threads)                                                           *)
(*   Fresh(t, seq, op, v)       op = create | renew; seq = position in t's    *)
(*                              program order; v = the stamp's value after it *)
(*   Copy(t, seq, how, v, src)  v = value of the copy, src = value read from  *)
(*                              the source (own or immutable, so unambiguous) *)
(*   End(fresh, copies)         number of Fresh events per thread / Copy      *)
(*                              events in total, as counted by the threads    *)
(* The events between Start and End are handed over SORTED BY VALUE (Fresh    *)
(* before Copy for equal values) - sorting is the only thing done outside     *)
(* TLC; it keeps every state of this specification of size O(threads):        *)
(*   prev      the value of the latest Fresh event                            *)
(*   lastSeq   per thread, the seq of its latest Fresh event in value order   *)
(* Unique  <=>  each Fresh value is strictly above prev.  IncreasingPerThread *)
(* <=> along increasing values each thread's seq increases.  An unsorted      *)
(* list is rejected, not trusted.  Values are size_t: two limbs, base 2^30.   *)
(* `race` (ThreadSanitizer report), `crash`, `timeout`, `malformed` events    *)
(* are not actions of this specification: a trace containing one is rejected. *)
EXTENDS Integers, Sequences, FiniteSets, TLC, Json, IOUtils, TLCExt

VARIABLES l, phase, T, prev, lastSeq, nfresh, ncopy
tvars == <<l, phase, T, prev, lastSeq, nfresh, ncopy>>

TraceLines == ndJsonDeserialize(IOEnv.TRACE)
N == Len(TraceLines)
Line == TraceLines[l]
E == Line.e

Base == 1073741824                       \* 2^30
IsValue(v) == DOMAIN v = 1..2 /\ v[1] >= 0 /\ v[2] >= 0 /\ v[2] < Base
Less(a, b) == a[1] < b[1] \/ (a[1] = b[1] /\ a[2] < b[2])
Below == <<-1, 0>>                       \* below every value

\* the limb order is the order of the numbers it stands for
ASSUME /\ Less(<<0, Base - 1>>, <<1, 0>>) /\ ~Less(<<1, 0>>, <<0, Base - 1>>) /\ ~Less(<<3, 7>>, <<3, 7>>)
       /\ Less(<<3, 7>>, <<3, 8>>) /\ Less(Below, <<0, 0>>) /\ ~Less(<<2, 5>>, <<1, 9>>)

IdleNext == phase' = "idle" /\ T' = 0 /\ prev' = Below /\ lastSeq' = <<>> /\ nfresh' = <<>> /\ ncopy' = 0
TInit == l = 1 /\ phase = "idle" /\ T = 0 /\ prev = Below /\ lastSeq = <<>> /\ nfresh = <<>> /\ ncopy = 0

Start ==
  /\ E = "Start" /\ phase = "idle" /\ Line.threads \in 1..64
  /\ phase' = "run" /\ T' = Line.threads /\ prev' = Below
  /\ lastSeq' = [t \in 0..Line.threads |-> -1] /\ nfresh' = [t \in 0..Line.threads |-> 0] /\ ncopy' = 0

Fresh ==
  /\ E = "Fresh" /\ phase = "run"
  /\ Line.t \in 0..T /\ Line.op \in {"create", "renew"} /\ IsValue(Line.v)
  /\ Less(prev, Line.v)                              \* Unique (and the list is sorted)
  /\ Line.seq > lastSeq[Line.t]                      \* IncreasingPerThread
  /\ prev' = Line.v
  /\ lastSeq' = [lastSeq EXCEPT ![Line.t] = Line.seq]
  /\ nfresh' = [nfresh EXCEPT ![Line.t] = @ + 1]
  /\ UNCHANGED <<phase, T, ncopy>>

Copy ==
  /\ E = "Copy" /\ phase = "run"
  /\ Line.t \in 0..T /\ IsValue(Line.v) /\ IsValue(Line.src)
  /\ Line.v = Line.src                               \* CopiesCarry
  /\ Line.v = prev                                   \* ... a value that was handed out to a creation / renewal
  /\ ncopy' = ncopy + 1
  /\ UNCHANGED <<phase, T, prev, lastSeq, nfresh>>

\* nothing was lost on the way: the threads' own counts
End ==
  /\ E = "End" /\ phase = "run"
  /\ DOMAIN Line.fresh = 1..(T + 1)
  /\ \A t \in 0..T : Line.fresh[t + 1] = nfresh[t]
  /\ Line.copies = ncopy
  /\ IdleNext

Step  == l <= N /\ E # "Reset" /\ (Start \/ Fresh \/ Copy \/ End) /\ l' = l + 1
Reset == l <= N /\ E = "Reset" /\ phase = "idle" /\ IdleNext /\ l' = l + 1
TNext == Step \/ Reset
TSpec == TInit /\ [][TNext]_tvars

Accepted == TLCGet("stats").diameter - 1 = N
Post == IF Accepted THEN TRUE
        ELSE /\ PrintT(<<"TRACE-REJECTED-AT-LINE", TLCGet("stats").diameter, "OF", N>>)
             /\ FALSE
===============================================================================
