SPECIFICATION SpecH
CONSTANTS
  Cells = {1, 2, 3}
  MaxFresh = 5
  K = 5
INVARIANTS TypeOK RanksFaithful AgreesWithHistory DistinctOrigins
PROPERTIES FreshIsLargest CopiesCarry
CONSTRAINT HistBound
VIEW View
CHECK_DEADLOCK FALSE
