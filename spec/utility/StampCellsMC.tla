----------------------------- MODULE StampCellsMC -----------------------------
(* Model-checking instance of StampCells: adds the history of all calls and   *)
(* checks after every history up to length K that each cell carries what the  *)
(* declarative reading of the statement says: the value handed out by the     *)
(* latest creation / renewal one reaches from the cell by following copies    *)
(* (and moves) backwards - "copies carry their source's value" - where the    *)
(* k-th creation / renewal of the history hands out the k-th, hence a larger  *)
(* and different, value.                                                      *)
EXTENDS StampCells

CONSTANT K
VARIABLE hist
varsH == <<cell, n, last, hist>>

InitH == Init /\ hist = <<>>
NextH == Next /\ hist' = Append(hist, [a |-> last'.a, arg |-> last'.arg])
SpecH == InitH /\ [][NextH]_varsH

Front(h) == SubSeq(h, 1, Len(h) - 1)
FreshCount(h) == Cardinality({i \in DOMAIN h : h[i].a \in {"Create", "Renew"}})
Copies == {"CopyCtor", "CopyAssign"}
Moves  == {"MoveCtor", "MoveAssign"}

RECURSIVE ValueOf(_, _)
ValueOf(h, s) ==
  IF h = <<>> THEN Empty
  ELSE LET e == h[Len(h)] IN
       IF e.a \in {"Create", "Renew"} /\ e.arg.s = s THEN FreshCount(h)
       ELSE IF e.a = "Destroy" /\ e.arg.s = s THEN Empty
       ELSE IF e.a \in Moves /\ e.arg.t = s THEN Moved                    \* given up (a self-move too)
       ELSE IF e.a \in Copies \cup Moves /\ e.arg.s = s THEN ValueOf(Front(h), e.arg.t)
       ELSE ValueOf(Front(h), s)

AgreesWithHistory == /\ \A s \in Cells : cell[s] = ValueOf(hist, s)
                     /\ n = FreshCount(hist)

\* distinct from all others: two readable cells carry the same value only if the same creation / renewal is their origin
DistinctOrigins ==
  \A s, t \in Cells : Readable(s) /\ Readable(t) /\ cell[s] = cell[t] /\ s # t =>
     \E i \in DOMAIN hist : hist[i].a \in Copies \cup Moves

HistBound == Len(hist) <= K
View == <<cell, n, hist>>
===============================================================================
