SPECIFICATION Spec
CONSTANTS
  Subjects = {1, 2}
  Watchers = {1, 2, 3}
  Workers = {1, 2, 3}
  PreCounts = {0, 1, 63, 64, 65, 300}
  DrawCounts = {1, 64}
INVARIANTS TypeOK NothingDangles OrphanSilent AnswerIgnoresThread
