CONSTANTS
  MaxParams = 2
