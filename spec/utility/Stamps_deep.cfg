SPECIFICATION Spec
CONSTANTS
  Threads = {1, 2}
  MaxOps = 6
  Atomic = TRUE
INVARIANTS TypeOK Unique IncreasingPerThread CopiesCarry BelowCounter
CHECK_DEADLOCK FALSE
