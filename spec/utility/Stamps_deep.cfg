SPECIFICATION Spec
CONSTANTS
  Threads = {1, 2}
  MaxOps = 6
  Atomic = TRUE
  Block = 1
INVARIANTS TypeOK Unique IncreasingPerThread CopiesCarry BelowCounter HappensBeforeOrdered OrderComplete
CHECK_DEADLOCK FALSE
