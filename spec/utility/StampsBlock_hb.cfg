SPECIFICATION Spec
CONSTANTS
  Threads = {1, 2}
  MaxOps = 3
  Atomic = TRUE
  Block = 2
INVARIANTS TypeOK HappensBeforeOrdered
CHECK_DEADLOCK FALSE
