SPECIFICATION SpecCore
CONSTANTS
  NT = 3
  NU = 1
  NA = 0
  Throwing = FALSE
  WithMake = TRUE
  Vals = {1, 2}
INVARIANTS TypeOK WellFormed LastAgrees
