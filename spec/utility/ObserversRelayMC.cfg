SPECIFICATION SpecH
CONSTANTS
  Subjects = {1, 2}
  Watchers = {1, 2}
  Workers = {1, 2}
  PreCounts = {0, 1}
  DrawCounts = {1}
  K = 4
INVARIANTS TypeOK NothingDangles OrphanSilent AnswerIgnoresThread AgreesWithHistory PollReturnsDeclared
PROPERTY UnrelatedDrawsInvisible
CONSTRAINT HistBound
VIEW View
CHECK_DEADLOCK FALSE
