------------------------------ MODULE ValueBoxMC ------------------------------
(* Model-checking instance of ValueBox.  Adds the history of state-changing    *)
(* operations and per-storage construction / destruction counters, and checks  *)
(* over all histories up to length K that                                      *)
(*  - AgreesWithHistory: every wrapper is in the state the *declarative*       *)
(*    reading of property C09 gives it: it holds a value exactly when the last *)
(*    operation that touched it gave it one (directly, or through a chain of   *)
(*    copies / moves / conversions from what the source held at that moment),  *)
(*    and then holds exactly that value;                                       *)
(*  - Conservation: under the reference lifetime protocol, constructions minus *)
(*    destructions on a payload storage is 1 exactly while the wrapper holds a *)
(*    payload object and 0 otherwise; after Teardown constructions =           *)
(*    destructions for every storage;                                          *)
(*  - the action properties of ValueBox (RefProtocolLegal, Independence,       *)
(*    CopiesEqualSource, NothingGivenByThrow).  With Throwing = TRUE the        *)
(*    histories include payload operations that throw; a failed operation is   *)
(*    read as "nothing was given".                                             *)
EXTENDS ValueBox

CONSTANT K
VARIABLES hist, nct, ndt
varsH == <<st, last, hist, nct, ndt>>

ValueOps == {"ValueCtor", "MakeOptional", "AssignValue", "Emplace", "Mutate", "AnyValueCtor", "AnyAssignValue", "AnySet"}
CtorOps  == {"ValueCtor", "MakeOptional", "CopyCtor", "MoveCtor", "ConvCopyCtor", "ConvMoveCtor", "AnyValueCtor", "AnyCopyCtor", "AnyMoveCtor"}
PoisonOps == {"Poison", "AnyPoison"}
EmptyOps == {"DefaultCtor", "ResetValue", "AnyDefaultCtor"}
KillOps  == {"Destroy", "AnyDestroy"}
MoveOps  == {"MoveCtor", "ConvMoveCtor", "MoveAssign", "ConvMoveAssign", "AnyMoveCtor", "AnyMoveAssign"}
Mutators == ValueOps \cup EmptyOps \cup KillOps \cup MoveOps \cup CopyActions \cup PoisonOps \cup {"Teardown"}

\* recorded with their outcome; a get<wrong type>() = v that threw did nothing
IsMut(l) == l.a \in Mutators /\ ~(l.a = "AnySet" /\ l.exp.done = "throws")
CountEv(evs, k, w) == Cardinality({i \in DOMAIN evs : evs[i].k = k /\ evs[i].w = w})

InitH == Init /\ hist = <<>> /\ nct = [w \in OSlots |-> 0] /\ ndt = [w \in OSlots |-> 0]
\* a step Nx of the specification, with the history and the counters updated from `last'`
HStep(Nx) == /\ Nx
             /\ hist' = IF IsMut(last') THEN Append(hist, [a |-> last'.a, arg |-> last'.arg, done |-> last'.exp.done]) ELSE hist
             /\ nct' = [w \in OSlots |-> nct[w] + CountEv(last'.ev, "ctor", w)]
             /\ ndt' = [w \in OSlots |-> ndt[w] + CountEv(last'.ev, "dtor", w)]
NextH == HStep(Next)
SpecH == InitH /\ [][NextH]_varsH

MaxOf(S) == CHOOSE x \in S : \A y \in S : y <= x

\* operation op gives slot w a new state / takes the value out of slot w
Targets(op, w) == op.a = "Teardown" \/ op.arg.d = w
Drains(op, w)  == op.a \in MoveOps /\ op.arg.s = w

RECURSIVE After(_, _)
\* the state of w after the first i operations, read off the history backwards
After(w, i) ==
  LET T == {j \in 1..i : Targets(hist[j], w) \/ Drains(hist[j], w)} IN
  IF T = {} THEN None
  ELSE LET j == MaxOf(T)  op == hist[j] IN
       IF op.a = "Teardown" THEN None
       ELSE IF op.arg.d = w
            THEN IF op.done = "throws"
                 THEN \* the statement's reading of a failed operation: nothing was given
                      IF op.a = "Emplace" THEN Empty                         \* old payload gone, none given
                      ELSE IF op.a \in CtorOps THEN None                     \* no wrapper came into existence
                      ELSE AfterFailedAssign(After(w, j - 1))                \* old value or empty
                 ELSE IF op.a \in PoisonOps THEN [After(w, j - 1) EXCEPT !.p = TRUE]
                 ELSE IF op.a \in ValueOps THEN Eng(IF w \in ASlots THEN op.arg.ty ELSE "-", op.arg.v)
                 ELSE IF op.a \in EmptyOps THEN Empty
                 ELSE IF op.a \in KillOps THEN None
                 ELSE Given(After(op.arg.s, j - 1))                \* copy / move: what the source held just before
            ELSE IF IsEng(After(w, j - 1)) THEN Moved ELSE After(w, j - 1)   \* source of a move

AgreesWithHistory == \A w \in Slots : st[w] = After(w, Len(hist))

Conservation ==
  /\ \A w \in OSlots : nct[w] - ndt[w] = IF st[w].s \in {"engaged", "moved"} THEN 1 ELSE 0
  /\ last.a = "Teardown" => \A w \in OSlots : nct[w] = ndt[w]

RefProtocolLegalH == [][Legal(Store(st), last'.ev, Store(st'))]_varsH
IndependenceH == [][\A w \in Slots \ Touched(last') : st'[w] = st[w]]_varsH
CopiesEqualSourceH == [][CopyOK(st, st', last')]_varsH
NothingGivenByThrowH ==
  [][last'.exp.done = "throws" =>
       \A w \in Slots : /\ (st[w].s = "none" => st'[w].s = "none")
                        /\ (IsEng(st'[w]) => st'[w] = st[w])]_varsH

HistBound == Len(hist) <= K
View == <<st, hist>>
===============================================================================
