---------------------------- MODULE ObserversTrace ----------------------------
(* Trace specification: is a recorded execution of the real Observable /      *)
(* Observer objects a behaviour of Observers?  Each recorded line             *)
(* {a, arg, obs} must be the next action of the specification with those      *)
(* arguments, and what the specification says the call returns (last'.exp)    *)
(* must equal what was observed.                                              *)
(*                                                                            *)
(* The driver refuses an action it cannot legally perform on the real objects *)
(* (a slot that is occupied / empty): {"skipped": true}.  Such a line is      *)
(* accepted only if the action's guard is false in the specification's        *)
(* current state, so the driver's bookkeeping of slots is checked as well.    *)
(* `crash` / `timeout` lines are not actions of this specification: a trace   *)
(* containing one is rejected.  Executions are separated by Reset lines.      *)
EXTENDS Observers, Json, IOUtils, TLCExt

VARIABLE l
tvars == <<oalive, balive, att, pending, last, l>>

TraceLines == ndJsonDeserialize(IOEnv.TRACE)
N == Len(TraceLines)
Line == TraceLines[l]
A == Line.a
Skipped == "skipped" \in DOMAIN Line.obs

ObsMatches == \A f \in DOMAIN last'.exp : f \in DOMAIN Line.obs /\ Line.obs[f] = last'.exp[f]

Dispatch ==
  \/ A = "CreateObservable" /\ CreateObservable(Line.arg.o)
  \/ A = "CreateObserver" /\ CreateObserver(Line.arg.b, Line.arg.o)
  \/ A = "Notify" /\ Notify(Line.arg.o)
  \/ A = "Poll" /\ Poll(Line.arg.b)
  \/ A = "PollAll" /\ PollAll
  \/ A = "DestroyObservable" /\ DestroyObservable(Line.arg.o)
  \/ A = "DestroyObserver" /\ DestroyObserver(Line.arg.b)
  \/ A = "Teardown" /\ Teardown(Line.arg.order)

Guard ==
  CASE A = "CreateObservable" -> CanCreateObservable(Line.arg.o)
    [] A = "CreateObserver" -> CanCreateObserver(Line.arg.b, Line.arg.o)
    [] A = "Notify" -> CanNotify(Line.arg.o)
    [] A = "Poll" -> CanPoll(Line.arg.b)
    [] A = "PollAll" -> CanPollAll
    [] A = "DestroyObservable" -> CanDestroyObservable(Line.arg.o)
    [] A = "DestroyObserver" -> CanDestroyObserver(Line.arg.b)
    [] A = "Teardown" -> CanTeardown(Line.arg.order)
    [] OTHER -> TRUE

TInit == Init /\ l = 1

TStep  == l <= N /\ A # "Reset" /\ ~Skipped /\ Dispatch /\ last'.a = A /\ ObsMatches /\ l' = l + 1
TSkip  == l <= N /\ A # "Reset" /\ Skipped /\ ~Guard /\ UNCHANGED vars /\ l' = l + 1
TReset == /\ l <= N /\ A = "Reset"
          /\ oalive' = [o \in Subjects |-> FALSE]
          /\ balive' = [b \in Watchers |-> FALSE]
          /\ att' = [b \in Watchers |-> None]
          /\ pending' = [b \in Watchers |-> FALSE]
          /\ last' = [a |-> "Init", arg |-> <<>>, cls |-> "", exp |-> Void]
          /\ l' = l + 1
TNext  == TStep \/ TSkip \/ TReset
TSpec  == TInit /\ [][TNext]_tvars

\* acceptance: the search reached the end of the trace (one state per line + the initial one)
Accepted == TLCGet("stats").diameter - 1 = N
Post == IF Accepted THEN TRUE
        ELSE /\ PrintT(<<"TRACE-REJECTED-AT-LINE", TLCGet("stats").diameter, "OF", N>>)
             /\ FALSE
===============================================================================
