------------------------- MODULE ObserversRelayTrace -------------------------
(* Trace specification for recorded executions of the relay driver            *)
(* (harness/drivers/observers/relay.cpp): every line {a, arg, by, obs} was    *)
(* performed by worker thread `by`, one step at a time with a hand-over in    *)
(* between, so the lines form a history.  The judge is ObserversTrace, i.e.   *)
(* the contract Observers.tla: `by` is an argument no action's effect depends *)
(* on (ObserversRelay.tla) - it must name a worker and is otherwise ignored.  *)
(* Warm / Draw lines (threads drawing time stamps nobody looks at) change     *)
(* nothing.                                                                   *)
EXTENDS ObserversTrace

CONSTANTS Workers, MaxDraw

ByOk == "by" \in DOMAIN Line /\ Line.by \in Workers
Void2 == "ret" \in DOMAIN Line.obs /\ Line.obs.ret = "void"

RStep == l <= N /\ A \notin {"Warm", "Draw", "Reset"} /\ ByOk /\ (TStep \/ TSkip)
RWarm == /\ l <= N /\ A = "Warm" /\ ~Skipped /\ Void2
         /\ DOMAIN Line.arg.pre = Workers /\ \A t \in Workers : Line.arg.pre[t] \in 0..MaxDraw
         /\ UNCHANGED vars /\ l' = l + 1
RDraw == /\ l <= N /\ A = "Draw" /\ ~Skipped /\ Void2 /\ ByOk /\ Line.arg.n \in 0..MaxDraw
         /\ UNCHANGED vars /\ l' = l + 1
RNext == RStep \/ RWarm \/ RDraw \/ TReset
RSpec == TInit /\ [][RNext]_tvars
===============================================================================
