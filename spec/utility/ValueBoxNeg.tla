------------------------------ MODULE ValueBoxNeg ------------------------------
(* Negative controls: two faulty implementations written as extra actions.  TLC *)
(* must report a violation for each, which shows that the invariants of        *)
(* ValueBoxMC are not vacuous.                                                 *)
(*  BadCopyAssign: assignment from an empty Optional reads the source's payload *)
(*    storage, assigns it over the destination's payload and leaves the        *)
(*    destination engaged               -> AgreesWithHistory, RefProtocolLegal *)
(*  BadMoveCtor: the move constructor move-assigns into the new wrapper's      *)
(*    unconstructed payload storage                        -> RefProtocolLegal *)
EXTENDS ValueBoxMC

BadCopyAssign(d, s) ==
  /\ SameKind(d, s) /\ s # d /\ st[d].s = "engaged" /\ st[s].s = "empty"
  /\ Step("CopyAssign", [d |-> d, s |-> s], "negative-control", st, <<E("read", s), E("assign", d)>>, Base(st))

BadMoveCtor(d, s) ==
  /\ SameKind(d, s) /\ s # d /\ st[d].s = "none" /\ IsEng(st[s])
  /\ LET s1 == [st EXCEPT ![d] = Given(st[s]), ![s] = Moved]
     IN Step("MoveCtor", [d |-> d, s |-> s], "negative-control", s1, <<E("read", s), E("assign", d)>>, Base(s1))

SpecBadAssign   == InitH /\ [][HStep(Next \/ \E d, s \in OSlots : BadCopyAssign(d, s))]_varsH
SpecBadMoveCtor == InitH /\ [][HStep(Next \/ \E d, s \in OSlots : BadMoveCtor(d, s))]_varsH
===============================================================================
