CONSTANTS
  ESizes = {1, 2, 4, 8, 12}
  MaxExtra = 1
  Bases = {0, 1, 8}
  NMax = 3
