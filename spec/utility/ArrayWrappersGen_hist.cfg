SPECIFICATION SpecG
CONSTANTS
  NW = 2
  NV = 1
  NA = 0
  Kinds = {"OwnedArray", "FixedArray", "FixedArrayView"}
  Modes = {"src", "wptr", "copy", "move", "fview"}
  Acts = {"Construct", "Assign", "Reset", "ResetPtr", "Resize", "Write", "Destroy", "SrcMake", "SrcWrite", "SrcResize", "SrcDestroy", "SelfAssign", "SelfPtr", "SelfVal"}
  Sizes = {0, 1, 2, 3}
  MaxLen = 3
  ArrLen = 3
  PtrSel = "few"
  Palettes = {0}
  Sym = TRUE
  Excl = {}
  Variant = "contract"
  Prefix = "vec"
