CONSTANTS
  Widths = {}
  Shorts = {}
  Part = "sweep"
  SweepVals = {0, 1, 9, 10, 13, 26, 27, 31, 32, 34, 92, 126, 127, 128, 129, 159, 160, 254, 255}
