--------------------------- MODULE ArrayWrappersTrace ---------------------------
(* Trace specification: is a recorded execution of the real wrappers a         *)
(* behaviour of ArrayWrappers?  Every recorded line {a, arg, obs} must be the  *)
(* next action of the specification with exactly those arguments (including    *)
(* the values written), the action must be enabled, and what the driver        *)
(* observed on every wrapper slot and every source after the step must equal   *)
(* what the specification computes (last'.exp) - including which slots the     *)
(* specification regards as dangling.  Executions are separated by             *)
(* {"sep":"Reset"} lines ("Reset" is also the name of a wrapper action); a     *)
(* "crash" line is not an action of the specification and is therefore         *)
(* rejected.                                                                   *)
EXTENDS ArrayWrappers, Json, IOUtils, TLCExt

VARIABLE l
tvars == <<wr, src, bufs, last, l>>

TraceLines == ndJsonDeserialize(IOEnv.TRACE)
N == Len(TraceLines)
Line == TraceLines[l]
A == Line.arg
IsSep == "sep" \in DOMAIN Line

ObsMatches == /\ "driver_error" \notin DOMAIN Line.obs
              /\ \A f \in DOMAIN last'.exp : f \in DOMAIN Line.obs /\ Line.obs[f] = last'.exp[f]

TInit == Init /\ l = 1

Dispatch ==
  \/ Line.a = "Construct"  /\ Construct(A.w, A.kind, A.m, A.x, A.off, A.len)
  \/ Line.a = "Assign"     /\ Assign(A.w, A.m, A.x)
  \/ Line.a = "Reset"      /\ Reset(A.w)
  \/ Line.a = "ResetPtr"   /\ ResetPtr(A.w, A.m, A.x, A.off, A.len)
  \/ Line.a = "Resize"     /\ Resize(A.w, A.n, A.self)
  \/ Line.a = "Write"      /\ Write(A.w, A.i)
  \/ Line.a = "Destroy"    /\ Destroy(A.w)
  \/ Line.a = "SrcMake"    /\ \E p \in Palettes : SrcMake(A.s, CLen(A.runs), p)
  \/ Line.a = "SrcWrite"   /\ SrcWrite(A.s, A.i)
  \/ Line.a = "SrcResize"  /\ SrcResize(A.s, A.n)
  \/ Line.a = "SrcDestroy" /\ SrcDestroy(A.s)

TStep  == l <= N /\ ~IsSep /\ Dispatch /\ last'.arg = A /\ ObsMatches /\ l' = l + 1
TReset == /\ l <= N /\ IsSep /\ l' = l + 1
          /\ wr' = [w \in Slots |-> DeadW] /\ src' = [s \in Srcs |-> DeadS] /\ bufs' = [b \in Bufs |-> Free]
          /\ last' = InitLast
TNext  == TStep \/ TReset
TSpec  == TInit /\ [][TNext]_tvars

\* acceptance: the search reached the end of the trace (one state per line + the initial one)
Accepted == TLCGet("stats").diameter - 1 = N
Post == IF Accepted THEN TRUE
        ELSE /\ PrintT(<<"TRACE-REJECTED-AT-LINE", TLCGet("stats").diameter, "OF", N>>)
             /\ FALSE
===============================================================================
