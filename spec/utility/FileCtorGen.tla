----------------------------- MODULE FileCtorGen -----------------------------
(* Construction of a FileName (property C18): what the constructors make of   *)
(* their argument.  Normalise: every '\' and every '/' becomes the separator, *)
(* then trailing separators are dropped - except that a name consisting of    *)
(* separators only is the root.  Both constructors (std::string and C string)    *)
(* must produce Normalise(s), hence agree; the decomposition / recomposition  *)
(* laws are then checked on the constructed name.                             *)
(* All strings of length <= N over {a, ".", "/", "\"}: mixed separator        *)
(* spellings in leading, inner and trailing position, runs of separators, the *)
(* root in every spelling.                                                    *)
EXTENDS FileNames, TLC, Json, IOUtils, SequencesExt

CONSTANT N

BSL == "\\"
Inputs == StrUpTo({"a", DOT, SEP, BSL}, N)

MapSep(s) == [i \in DOMAIN s |-> IF s[i] = BSL THEN SEP ELSE s[i]]
Normalise(s) == LET m == MapSep(s) IN IF m # <<>> /\ AllSeps(m) THEN <<SEP>> ELSE StripSep(m)

\* laws of the normal form
NormLaws(s) ==
  LET f == Normalise(s) IN
  /\ ~Has(f, BSL)
  /\ (f = <<>> \/ f = <<SEP>> \/ f[Len(f)] # SEP)                 \* no trailing separator but the root
  /\ Normalise(f) = f                                               \* idempotent
  /\ SelectSeq(f, LAMBDA c : c # SEP) = SelectSeq(s, LAMBDA c : c # SEP /\ c # BSL)     \* nothing but separators is touched
  /\ (f = <<>> <=> s = <<>>)
  /\ FileLaws(f)
ASSUME LawsNorm == \A s \in Inputs : NormLaws(s)
ASSUME Roots == \A r \in {<<SEP>>, <<BSL>>, <<SEP, SEP>>, <<BSL, BSL>>, <<SEP, BSL>>, <<BSL, SEP>>} : r \in Inputs /\ Normalise(r) = <<SEP>>

\* input class: where the foreign separator sits
CtorCls(s) == "ctor=" \o
  (IF s # <<>> /\ AllSeps(MapSep(s)) THEN (IF Has(s, BSL) THEN "root-bslash" ELSE "root-slash")
   ELSE IF s # <<>> /\ s[Len(s)] = BSL THEN "trail-bslash"
   ELSE IF Has(s, BSL) THEN "inner-bslash"
   ELSE IF s # <<>> /\ s[Len(s)] = SEP THEN "trail-slash" ELSE "plain")

\* operator+ as the code joins: nothing after an empty name, no second separator after the root
JoinCode(f, g) == IF f = <<>> THEN g ELSE IF f[Len(f)] = SEP THEN f \o g ELSE f \o <<SEP>> \o g

J(s) == Join(s)
CasesOf(s) ==
  LET f == Normalise(s)
      b == BaseOf(f)
      c == CtorCls(s)
      det == ~Special(b)
      x == <<DOT, "b">>
      g == <<"a">>
      r == JoinCode(f, g)
      arg(extra) == [s |-> J(s)] @@ extra
  IN {[a |-> "FnSplit", arg |-> arg(<<>>), cls |-> c,                \* str: std::string constructor, str_c: const char* constructor
       exp |-> [str |-> J(f), str_c |-> J(f), conv |-> J(f), cstr |-> J(f), streamed |-> J(f), eq_self |-> TRUE, ne_self |-> FALSE,
                path |-> J(PathOf(f)), base |-> J(b)]],
      [a |-> "FnAddExt", arg |-> arg([x |-> J(x)]), cls |-> c, exp |-> [str |-> J(f), res |-> J(Normalise(AddExt(f, x)))]],
      [a |-> "FnPlus", arg |-> arg([o |-> J(g)]), cls |-> c,
       exp |-> [str |-> J(f), res_fn |-> J(r), res_str |-> J(r), path |-> J(PathOf(r)), base |-> J(BaseOf(r))]]}
     \cup (IF det THEN
            {[a |-> "FnNameExt", arg |-> arg(<<>>), cls |-> c, exp |-> [str |-> J(f), name |-> J(NameOf(f)), ext |-> J(ExtOf(f))]],
             [a |-> "FnDropExt", arg |-> arg(<<>>), cls |-> c, exp |-> [str |-> J(f), res |-> J(Normalise(DropExt(f)))]],
             [a |-> "FnSetExt", arg |-> arg([x |-> J(x)]), cls |-> c, exp |-> [str |-> J(f), res |-> J(Normalise(SetExt(f, x)))]]}
           ELSE {})
     \cup (IF Collapse(f) = f THEN
            {[a |-> "FnRecompose", arg |-> arg(<<>>), cls |-> c, exp |-> [str |-> J(f), res_fn |-> J(f), res_str |-> J(f)]]}
           ELSE {})

Cases == UNION {CasesOf(s) : s \in Inputs}
ASSUME Emit == ndJsonSerialize(IOEnv.OUT, SetToSeq(Cases))
===============================================================================
