SPECIFICATION Spec
CONSTANTS
  Threads = {1, 2}
  MaxOps = 3
  Atomic = FALSE
INVARIANTS TypeOK IncreasingPerThread
CHECK_DEADLOCK FALSE
