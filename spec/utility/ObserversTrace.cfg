SPECIFICATION TSpec
CONSTANTS
  Subjects = {1, 2, 3}
  Watchers = {1, 2, 3, 4, 5, 6}
INVARIANTS NothingDangles OrphanSilent
POSTCONDITION Post
CHECK_DEADLOCK FALSE
