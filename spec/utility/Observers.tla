------------------------------ MODULE Observers ------------------------------
(* Contract of rkcommon::utility::Observable / Observer (property C19, first  *)
(* sentence), written from the statement, not from the implementation:        *)
(*                                                                            *)
(*   an observer's wasNotified() returns TRUE exactly when its observable has *)
(*   notified since that observer's previous poll (or since its creation) and *)
(*   FALSE otherwise, independently per observer; after its observable is     *)
(*   destroyed it returns FALSE; nothing dangles in either destruction order. *)
(*                                                                            *)
(* State: observable slots Subjects (an observable lives in a slot between    *)
(* its construction and its destruction; a slot can be used again), observer  *)
(* slots Watchers.  Per observer: the observable it is attached to (None once *)
(* that observable has been destroyed - a later observable in the same slot   *)
(* is a different object) and one bit `pending`.  Repeated notifications      *)
(* between two polls collapse into that one bit.                              *)
(*                                                                            *)
(* Destruction comes in both orders as single actions (DestroyObservable with *)
(* observers attached, DestroyObserver before or after its observable) and as *)
(* Teardown(order): everything alive goes, observers first or observables     *)
(* first, as at the end of a scope.                                           *)
(*                                                                            *)
(* The ghost variable `last` = [a, arg, cls, exp] carries the action just     *)
(* taken, its arguments, its input class (for signatures) and what the        *)
(* contract says the call returns.  The only observable of the real API is    *)
(* the return value of wasNotified(), and observing it changes the state.     *)
EXTENDS Integers, Sequences, FiniteSets, TLC, FarGap

CONSTANTS Subjects,   \* observable slots, 1..NS
          Watchers    \* observer slots, 1..NW

None == 0

VARIABLES oalive,     \* oalive[o]: an observable is constructed in slot o
          balive,     \* balive[b]: an observer is constructed in slot b
          att,        \* att[b]: slot of the (living) observable b looks at, None if b is dead or orphaned
          pending,    \* pending[b]: b's observable notified since b's previous poll / creation
          last
vars == <<oalive, balive, att, pending, last>>

Void == [ret |-> "void"]
AttachedTo(o) == {b \in Watchers : balive[b] /\ att[b] = o}
\* what wasNotified() of a living observer reports now
Reports(b) == att[b] # None /\ pending[b]

Init ==
  /\ oalive = [o \in Subjects |-> FALSE]
  /\ balive = [b \in Watchers |-> FALSE]
  /\ att = [b \in Watchers |-> None]
  /\ pending = [b \in Watchers |-> FALSE]
  /\ last = [a |-> "Init", arg |-> <<>>, cls |-> "", exp |-> Void]

TypeOK ==
  /\ oalive \in [Subjects -> BOOLEAN] /\ balive \in [Watchers -> BOOLEAN]
  /\ att \in [Watchers -> Subjects \cup {None}] /\ pending \in [Watchers -> BOOLEAN]

-------------------------------------------------------------------------------
\* guards (also used by the trace specification to judge refused actions)
CanCreateObservable(o)  == o \in Subjects /\ ~oalive[o]
CanCreateObserver(b, o) == b \in Watchers /\ o \in Subjects /\ ~balive[b] /\ oalive[o]
CanNotify(o)            == o \in Subjects /\ oalive[o]
CanPoll(b)              == b \in Watchers /\ balive[b]
CanDestroyObservable(o) == o \in Subjects /\ oalive[o]
CanDestroyObserver(b)   == b \in Watchers /\ balive[b]
CanPollAll              == \E b \in Watchers : balive[b]
CanTeardown(order)      == /\ order \in {"observers_first", "observables_first"}
                           /\ (\E b \in Watchers : balive[b]) \/ (\E o \in Subjects : oalive[o])

PollCls(b) == IF att[b] = None THEN "orphaned" ELSE IF pending[b] THEN "notified" ELSE "not-notified"

CreateObservable(o) ==
  /\ CanCreateObservable(o)
  /\ oalive' = [oalive EXCEPT ![o] = TRUE]
  /\ UNCHANGED <<balive, att, pending>>
  /\ last' = [a |-> "CreateObservable", arg |-> [o |-> o], cls |-> "", exp |-> Void]

\* an observer created now has seen everything that happened before: it starts un-notified
CreateObserver(b, o) ==
  /\ CanCreateObserver(b, o)
  /\ balive' = [balive EXCEPT ![b] = TRUE]
  /\ att' = [att EXCEPT ![b] = o]
  /\ pending' = [pending EXCEPT ![b] = FALSE]
  /\ UNCHANGED oalive
  /\ last' = [a |-> "CreateObserver", arg |-> [b |-> b, o |-> o],
              cls |-> IF AttachedTo(o) = {} THEN "first" ELSE "further", exp |-> Void]

\* notifyObservers(): every observer attached to o has something to see; repeated calls collapse
Notify(o) ==
  /\ CanNotify(o)
  /\ pending' = [b \in Watchers |-> IF b \in AttachedTo(o) THEN TRUE ELSE pending[b]]
  /\ UNCHANGED <<oalive, balive, att>>
  /\ last' = [a |-> "Notify", arg |-> [o |-> o],
              cls |-> IF AttachedTo(o) = {} THEN "unobserved" ELSE "observed", exp |-> Void]

\* wasNotified(): report and clear - this observer only
Poll(b) ==
  /\ CanPoll(b)
  /\ pending' = [pending EXCEPT ![b] = FALSE]
  /\ UNCHANGED <<oalive, balive, att>>
  /\ last' = [a |-> "Poll", arg |-> [b |-> b], cls |-> PollCls(b), exp |-> [ret |-> Reports(b)]]

\* wasNotified() of every living observer, in slot order: 1 / 0, -1 for an empty slot
PollAll ==
  /\ CanPollAll
  /\ pending' = [b \in Watchers |-> FALSE]
  /\ UNCHANGED <<oalive, balive, att>>
  /\ last' = [a |-> "PollAll", arg |-> <<>>, cls |-> "",
              exp |-> [ret |-> [b \in Watchers |-> IF ~balive[b] THEN -1 ELSE IF Reports(b) THEN 1 ELSE 0]]]

\* the observable goes first: its observers are orphaned, a notification not yet polled is gone
DestroyObservable(o) ==
  /\ CanDestroyObservable(o)
  /\ oalive' = [oalive EXCEPT ![o] = FALSE]
  /\ att' = [b \in Watchers |-> IF b \in AttachedTo(o) THEN None ELSE att[b]]
  /\ pending' = [b \in Watchers |-> IF b \in AttachedTo(o) THEN FALSE ELSE pending[b]]
  /\ UNCHANGED balive
  /\ last' = [a |-> "DestroyObservable", arg |-> [o |-> o],
              cls |-> IF AttachedTo(o) = {} THEN "unobserved" ELSE "observed", exp |-> Void]

\* the observer goes first (or after its observable: then it is an orphan)
DestroyObserver(b) ==
  /\ CanDestroyObserver(b)
  /\ balive' = [balive EXCEPT ![b] = FALSE]
  /\ att' = [att EXCEPT ![b] = None]
  /\ pending' = [pending EXCEPT ![b] = FALSE]
  /\ UNCHANGED oalive
  /\ last' = [a |-> "DestroyObserver", arg |-> [b |-> b],
              cls |-> IF att[b] = None THEN "orphaned" ELSE "attached", exp |-> Void]

\* everything that is alive is destroyed: all observers then all observables, or the other way round
\* (the end of a scope; a composite of the two actions above, so both orders are taken from every state)
Teardown(order) ==
  /\ CanTeardown(order)
  /\ oalive' = [o \in Subjects |-> FALSE]
  /\ balive' = [b \in Watchers |-> FALSE]
  /\ att' = [b \in Watchers |-> None]
  /\ pending' = [b \in Watchers |-> FALSE]
  /\ last' = [a |-> "Teardown", arg |-> [order |-> order],
              cls |-> IF \E b \in Watchers : att[b] # None THEN "attached" ELSE "detached", exp |-> Void]

\* far stamps (FarGap.tla): the process-wide stamp counter moves far ahead; no observable is touched and nothing
\* changes for any observer.  Not part of Next (an Advance takes the real code tens of seconds): the far-stamp
\* histories are the scripts of FarStamps.tla.
Advance(cls) ==
  /\ cls \in FarClasses
  /\ UNCHANGED <<oalive, balive, att, pending>>
  /\ last' = [a |-> "Advance", arg |-> [cls |-> cls, dist |-> FarDist(cls)], cls |-> cls, exp |-> Void]

Next ==
  \/ \E o \in Subjects : CreateObservable(o) \/ Notify(o) \/ DestroyObservable(o)
  \/ \E b \in Watchers : Poll(b) \/ DestroyObserver(b)
  \/ \E b \in Watchers, o \in Subjects : CreateObserver(b, o)
  \/ PollAll
  \/ \E order \in {"observers_first", "observables_first"} : Teardown(order)

Spec == Init /\ [][Next]_vars

-------------------------------------------------------------------------------
\* Invariants of the contract itself
\* nothing dangles: a living observer looks at a living observable or at nothing; an empty slot at nothing
NothingDangles ==
  /\ \A b \in Watchers : att[b] # None => balive[b] /\ oalive[att[b]]
  /\ \A b \in Watchers : ~balive[b] => att[b] = None /\ ~pending[b]
\* an orphan has nothing left to see
OrphanSilent == \A b \in Watchers : att[b] = None => ~pending[b]
===============================================================================
