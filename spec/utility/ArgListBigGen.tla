---------------------------- MODULE ArgListBigGen ----------------------------
(* Boundary histories for ArgumentList / parseAndRemove / removeArgs          *)
(* (property C18, boundary audit): argument vectors and removal counts around *)
(* 255/256/257, 1023/1024/1025, 4095/4096/4097 (and 65535/65536/65537 for     *)
(* single removals), a copy of the list taken BEFORE it is modified, and the  *)
(* default argument of remove().                                              *)
(* The vectors are formula-defined (a pattern repeated n times, then a tail), *)
(* the parser pass is evaluated with an iterative fold (KeptFold) that TLC    *)
(* first proves equal to the recursive definition Kept of ArgList on all      *)
(* small vectors.  Each case is a whole history {h: [steps]}.                 *)
EXTENDS ArgList, Json, IOUtils
SX == INSTANCE SequencesExt

CONSTANTS Sizes,     \* repetition counts for parser passes
          BigSizes   \* repetition counts for single removals

RepVec(pat, n, tail) == [i \in 1..(n * Len(pat)) |-> pat[((i - 1) % Len(pat)) + 1]] \o tail

KeptFold(v, cnt) ==
  SX!FoldLeft(LAMBDA st, i : IF st.skip > 0 THEN [st EXCEPT !.skip = @ - 1]
                          ELSE LET c == Min2(cnt[v[i]], Len(v) - i + 1) IN
                               IF c = 0 THEN [st EXCEPT !.acc = Append(@, v[i])] ELSE [st EXCEPT !.skip = c - 1],
           [skip |-> 0, acc |-> <<>>], [i \in 1..Len(v) |-> i]).acc

ASSUME LawFold == \A v \in Vectors, cnt \in Parsers : KeptFold(v, cnt) = Kept(v, cnt, 1)
ASSUME LawRep  == /\ RepVec(<<"a", "b">>, 0, <<"c">>) = <<"c">>
                  /\ RepVec(<<"a", "b">>, 2, <<"c">>) = <<"a", "b", "a", "b", "c">>
                  /\ \A n \in 0..5 : Len(RepVec(<<"a", "b", "c">>, n, <<>>)) = 3 * n

\* steps (the same shapes as the `last` records of ArgList; Snapshot / CheckSnapshot: a copy made before a modification)
SConstruct(pat, n, tail) == [a |-> "ConstructRep", arg |-> [pat |-> pat, n |-> n, tail |-> tail], cls |-> "", exp |-> Proj(RepVec(pat, n, tail))]
SSnapshot(v)     == [a |-> "Snapshot", arg |-> <<>>, cls |-> "", exp |-> Proj(v)]
SCheckSnap(v, s) == [a |-> "CheckSnapshot", arg |-> <<>>, cls |-> "", exp |-> [snapshot |-> s] @@ Proj(v)]
SRemove(v, w, h) == [a |-> "Remove", arg |-> [w |-> w, h |-> h], cls |-> RemoveCls(h) \o ",big",
                     exp |-> (IF h = 1 THEN [items_default |-> RemoveAt(v, w, h)] ELSE <<>>) @@ Proj(RemoveAt(v, w, h))]
SParse(v, cnt)   == [a |-> "ParseAndRemove", arg |-> [cnt |-> cnt], cls |-> "big", exp |-> Proj(KeptFold(v, cnt))]
SGet(v, i)       == [a |-> "Get", arg |-> [i |-> i], cls |-> "", exp |-> [ret |-> v[i + 1]] @@ Proj(v)]

RemoveHist(pat, n, tail, w, h) ==
  LET v == RepVec(pat, n, tail)
      r == RemoveAt(v, w, h)
  IN <<SConstruct(pat, n, tail), SSnapshot(v), SRemove(v, w, h), SCheckSnap(r, v)>>
     \o (IF r = <<>> THEN <<>> ELSE <<SGet(r, 0), SGet(r, Len(r) - 1)>>)
     \o (IF w < Len(r) THEN <<SGet(r, w)>> ELSE <<>>)

ParseHist(pat, n, tail, cnt) ==
  LET v == RepVec(pat, n, tail)
      r == KeptFold(v, cnt)
  IN <<SConstruct(pat, n, tail), SSnapshot(v), SParse(v, cnt), SCheckSnap(r, v)>>
     \o (IF r = <<>> THEN <<>> ELSE <<SGet(r, 0), SGet(r, Len(r) - 1)>>)

ABC == <<"a", "b", "c">>
BigCnts == {[a |-> 2, b |-> 0, c |-> 0], [a |-> 1, b |-> 0, c |-> 0], [a |-> 3, b |-> 0, c |-> 0], [a |-> 0, b |-> 0, c |-> 1],
            [a |-> 0, b |-> 0, c |-> 0], [a |-> 257, b |-> 0, c |-> 0], [a |-> 0, b |-> 256, c |-> 0], [a |-> 1, b |-> 1, c |-> 1]}

Hists ==
     {ParseHist(ABC, n, t, cnt) : n \in Sizes, t \in {<<>>, <<"a">>}, cnt \in BigCnts}
\cup {RemoveHist(<<"a", "b">>, q[1], <<"c">>, q[2], q[3]) :
         q \in {x \in (Sizes \cup BigSizes) \X {0, 1, 255, 256} \X {0, 1, 2, 255, 256, 257} : x[2] + x[3] <= 2 * x[1] + 1}}
\cup {RemoveHist(<<"a", "b">>, q[1], <<"c">>, 2 * q[1] + 1 - q[2], q[2]) :
         q \in {x \in (Sizes \cup BigSizes) \X {1, 255, 256, 257} : x[2] <= 2 * x[1] + 1}}                                \* at the very end
\cup {RemoveHist(<<"a", "b">>, n, <<"c">>, 0, 2 * n + 1) : n \in Sizes \cup BigSizes}                                    \* everything

\* (ArgList has variables: a one-state behaviour keeps TLC content; everything here is constant-level)
Stop == UNCHANGED vars

ASSUME Emit == ndJsonSerialize(IOEnv.OUT, SX!SetToSeq({[h |-> x] : x \in Hists}))
===============================================================================
