CONSTANTS
  Large = TRUE
