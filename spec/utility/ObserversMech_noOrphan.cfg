SPECIFICATION Spec
CONSTANTS
  Subjects = {1, 2}
  Watchers = {1, 2, 3}
  MaxG = 6
  Unregister = TRUE
  Orphan = FALSE
INVARIANTS NoDangling NoUseAfterFree StampsHandedOut
PROPERTY Refines
CONSTRAINT StampBound
CHECK_DEADLOCK FALSE
