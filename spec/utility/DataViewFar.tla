------------------------------ MODULE DataViewFar ------------------------------
(* Far offsets (property C11): DataView<T>[i] for indices whose byte offset    *)
(* i * stride lies just below, at and just above 2^31 and 2^32, and            *)
(* ArrayView<uint8_t> over 2^31 - 1 .. 2^32 + 1 elements.  size(), the index   *)
(* of at() and the byte offset are size_t quantities: nothing may be truncated *)
(* to 31 / 32 bits.  The driver maps 2^32 + 2^20 bytes without reserving       *)
(* memory and writes the position-revealing pattern only around the offsets    *)
(* listed in `fills` (the true offset and the offsets a truncation would        *)
(* reach).  Numbers beyond TLC's 32-bit integers are limb pairs <<hi, lo>> =   *)
(* hi * 65536 + lo.                                                            *)
EXTENDS Integers, Sequences, FiniteSets, TLC, Json, IOUtils, SequencesExt

CONSTANTS ESizes   \* element sizes (the driver has a T for 1, 2, 4, 8, 12)

B == 65536
Nrm(hi, lo) == IF lo >= 0 THEN <<hi + lo \div B, lo % B>> ELSE <<hi - 1, lo + B>>      \* -B <= lo
Add(x, k) == Nrm(x[1], x[2] + k)                       \* |k| < 65536
Mul(x, m) == Nrm(x[1] * m, x[2] * m)                   \* m < 64, x < 2^33
Div(x, m) == LET r1 == x[1] % m IN <<x[1] \div m, (r1 * B + x[2]) \div m>>
Less(x, y) == x[1] < y[1] \/ (x[1] = y[1] /\ x[2] < y[2])
P31 == <<32768, 0>>
P32 == <<65536, 0>>
Mod32(x) == <<x[1] % 65536, x[2]>>
Mod31(x) == <<x[1] % 32768, x[2]>>
Align(e) == IF e = 12 THEN 4 ELSE e
\* byte stored at position p: depends on the low byte of the position and on which 64 KiB page it is in
Pat(p) == ((p[2] % 256) * 7 + 3 + 89 * (p[1] % 251)) % 256
Bytes(p, n) == [k \in 1..n |-> Pat(Add(p, k - 1))]

Strides(e) == {e, e + 1, 2 * e}
Idxs(st) == {Add(Div(bd, st), d) : bd \in {P31, P32}, d \in {-1, 0, 1}}
DvCase(e, st, i) ==
  LET off == Mul(i, st) IN
  [a |-> "DataViewFar",
   arg |-> [esz |-> e, stride |-> st, i |-> i, al |-> (st % Align(e) = 0),
            fills |-> <<off, Mod32(off), Mod31(off), Mul(Mod32(i), st), Mul(<<0, i[2]>>, st)>>],
   cls |-> (IF Less(off, P32) THEN "offset-near-2^31" ELSE "offset-near-2^32") \o (IF st % Align(e) = 0 THEN ",aligned" ELSE ",unaligned"),
   exp |-> [off |-> off, bytes |-> Bytes(off, e)]]
DvCases == UNION {{DvCase(e, st, i) : i \in Idxs(st)} : <<e, st>> \in {p \in ESizes \X (1..24) : p[2] \in Strides(p[1])}}

Ns == {Add(bd, d) : bd \in {P31, P32}, d \in {-1, 0, 1}}
Inside(n) == {k \in {<<0, 0>>, Add(P31, -1), P31, Add(P32, -1), P32} : Less(k, n)} \cup {Add(n, -1)}
AscSeqL(S) == SetToSortSeq(S, Less)
AvCase(n, how) ==
  LET ks == AscSeqL(Inside(n)) IN
  [a |-> "ViewFar",
   arg |-> [n |-> n, how |-> how, inside |-> ks, fills |-> ks \o <<Mod32(Add(n, -1)), Mod31(Add(n, -1))>>],
   cls |-> (IF Less(n, Add(P32, -1)) THEN "size-near-2^31" ELSE "size-near-2^32") \o "," \o how,
   exp |-> [size |-> n, len |-> n, nonempty |-> TRUE, atn |-> "throws",
            inside |-> [j \in 1..Len(ks) |-> [off |-> ks[j], v |-> Pat(ks[j])]]]]
AvCases == {AvCase(n, how) : n \in Ns, how \in {"ctor", "make", "reset", "copy"}}

\* Laws
ASSUME LimbArithmetic ==
  /\ Mul(Div(P32, 3), 3) = Add(P32, -1) /\ Div(P31, 4) = <<8192, 0>> /\ Add(P32, -1) = <<65535, 65535>>
  /\ \A st \in 1..24 : LET q == Div(P32, st) IN ~Less(P32, Mul(q, st)) /\ Less(P32, Mul(Add(q, 1), st))
\* every offset is reached: below, at-or-below and above each boundary
ASSUME OffsetsStraddle ==
  \A e \in ESizes, st \in 1..24 : st \in Strides(e) =>
     \A bd \in {P31, P32} : /\ Less(Mul(Add(Div(bd, st), -1), st), bd)
                            /\ ~Less(bd, Mul(Div(bd, st), st))
                            /\ Less(bd, Mul(Add(Div(bd, st), 1), st))
\* a truncated offset reads different bytes: the pattern at the true offset differs from the pattern at every alias
ASSUME AliasesRevealed ==
  \A c \in DvCases : \A k \in 2..Len(c.arg.fills) :
     c.arg.fills[k] # c.arg.fills[1] => Bytes(c.arg.fills[k], c.arg.esz) # c.exp.bytes
ASSUME ViewAliasesRevealed ==
  \A c \in AvCases : LET l == Add(c.arg.n, -1) IN
     /\ (Mod32(l) # l => Pat(Mod32(l)) # Pat(l)) /\ (Mod31(l) # l => Pat(Mod31(l)) # Pat(l))
     /\ c.exp.inside[Len(c.exp.inside)].off = l

ASSUME Emit == ndJsonSerialize(IOEnv.OUT, SetToSeq(DvCases \cup AvCases))
===============================================================================
