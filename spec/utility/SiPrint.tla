------------------------------- MODULE SiPrint -------------------------------
(* Reference meaning of rkcommon::prettyNumber / prettyDouble (property C18,  *)
(* last sentence): the printed text is a mantissa between 1 and 1000 followed *)
(* by the SI suffix that multiplies it back to the input within the printed   *)
(* precision.                                                                 *)
(*                                                                            *)
(* Inputs are exact decimal numbers  m * 10^e  (m, e integers, m >= 1).  An   *)
(* observation is what was printed, read back by the driver:                  *)
(*    digits : number of decimals printed        ("12.3k" -> 1, "150" -> 0)   *)
(*    mant   : the printed mantissa in units of 10^-digits ("12.3k" -> 123)   *)
(*    suf    : the text behind the number        ("k", "" when none)          *)
(*    neg    : a minus sign was printed                                       *)
(* The result is specified by a LAW (Admissible), not by a function: at a     *)
(* suffix boundary 999.96e3 may print as 1000.0k or 1.0M, 1 as 1.0 or 1000.0m *)
(* - both ends of [1, 1000] are admitted, and the mantissa may be off by one  *)
(* unit of its last printed digit (rounding direction, float constants) plus  *)
(* a relative 2^-18 (the six-decimal form prints a float).                    *)
(* All arithmetic is exact integer arithmetic that saturates at Big so that   *)
(* it stays inside TLC's 32-bit integers.                                     *)
EXTENDS Integers, Sequences, FiniteSets

Sufs   == <<"f", "p", "n", "u", "m", "", "k", "M", "G", "T", "P", "E">>
SufExp(i) == 3 * i - 18                     \* Sufs[1] = femto = 10^-15 ... Sufs[12] = exa = 10^18
SufIdx(s) == CHOOSE i \in DOMAIN Sufs : Sufs[i] = s
IsSuf(s)  == \E i \in DOMAIN Sufs : Sufs[i] = s
BandName(i) == IF Sufs[i] = "" THEN "unit" ELSE Sufs[i]

Big == 2000000000
RECURSIVE P10(_)
P10(k) == IF k = 0 THEN 1 ELSE 10 * P10(k - 1)          \* k in 0..9
\* x * 10^k, saturating at Big (x >= 0, k >= 0)
Mul10(x, k) == IF x = 0 THEN 0 ELSE IF k > 9 THEN Big ELSE IF x > Big \div P10(k) THEN Big ELSE x * P10(k)

NDigits(m) == CHOOSE d \in 1..10 : P10(d - 1) <= m /\ (d = 10 \/ m < P10(d))
Decade(m, e) == e + NDigits(m) - 1                       \* floor(log10(m * 10^e))
FloorDiv3(x) == IF x >= 0 THEN x \div 3 ELSE -((-x + 2) \div 3)
BandIdx(m, e) == FloorDiv3(Decade(m, e)) + 6             \* index into Sufs of the band the input lies in

\* the quantifier of the property: 1e-15 <= m * 10^e <= 1e21
InRange(m, e) == Decade(m, e) >= -15 /\ (Decade(m, e) <= 20 \/ (m = 1 /\ e = 21))
\* an input prettyNumber can take: a non-negative integer that fits 64 bits (conservatively < 10^19)
IsCount(m, e) == e >= 0 /\ Decade(m, e) <= 18

Class(m, e) == "band=" \o (IF BandIdx(m, e) > 12 THEN "E-top" ELSE BandName(BandIdx(m, e)))

\* units of the last printed digit by which the mantissa may differ from the exact quotient
Tol(o) == IF o.digits = 0 THEN 0 ELSE 1 + o.mant \div 262144

\* which conjunct fails ("" = admissible)
Verdict(m, e, o) ==
  IF o.neg THEN "sign"
  ELSE IF ~IsSuf(o.suf) THEN "suffix"
  ELSE IF o.digits < 0 \/ o.digits > 6 THEN "mantissa-range"
  ELSE IF o.mant < P10(o.digits) \/ o.mant > 1000 * P10(o.digits) THEN "mantissa-range"   \* 1 <= mantissa <= 1000
  ELSE LET k  == SufExp(SufIdx(o.suf)) - o.digits - e      \* mant * 10^k  ~  m
           lo == o.mant - Tol(o)
           hi == o.mant + Tol(o)
       IN IF k >= 0
          THEN IF Mul10(lo, k) <= m /\ m <= Mul10(hi, k) THEN "" ELSE "multiplies-back"
          ELSE IF lo <= Mul10(m, -k) /\ Mul10(m, -k) <= hi /\ Mul10(m, -k) < Big THEN "" ELSE "multiplies-back"

Admissible(m, e, o) == Verdict(m, e, o) = ""

-------------------------------------------------------------------------------
\* A reference printer (one decimal, suffix of the input's band, round half up):
\* used only to show that the law is satisfiable and selective.
RoundDiv(x, d) == (2 * x + d) \div (2 * d)
\* round(m * 10^e / 10^se * 10)
Mant1(m, e, se) == LET x == e - se + 1 IN IF x >= 0 THEN Mul10(m, x) ELSE IF -x > 9 THEN 0 ELSE RoundDiv(m, P10(-x))
RefObs(m, e, i) == [digits |-> 1, mant |-> Mant1(m, e, SufExp(i)), suf |-> Sufs[i], neg |-> FALSE]
AdmSufs(m, e)   == {i \in DOMAIN Sufs : Admissible(m, e, RefObs(m, e, i))}

SiLaws(m, e) ==
  LET b == BandIdx(m, e) IN
  /\ (b <= 12 => b \in AdmSufs(m, e))                         \* printing in the input's own band is admissible
  /\ AdmSufs(m, e) \subseteq {b - 1, b, b + 1}                \* only a neighbouring suffix can be admissible as well ...
  /\ Cardinality(AdmSufs(m, e)) \in {1, 2}                    \* ... and only one of them (at a boundary)
  /\ (Cardinality(AdmSufs(m, e)) = 2 =>                       \* which happens only when the mantissa prints as 1.0 / 1000.0
        \E i \in AdmSufs(m, e) : Mant1(m, e, SufExp(i)) \in {10, 10000})
  /\ \A i \in DOMAIN Sufs : ~Admissible(m, e, [RefObs(m, e, i) EXCEPT !.mant = 0])
===============================================================================
