------------------------------- MODULE SiPrint -------------------------------
(* Reference meaning of rkcommon::prettyNumber / prettyDouble (property C18,  *)
(* last sentence): the printed text is a mantissa between 1 and 1000 followed *)
(* by the SI suffix that multiplies it back to the input within the printed   *)
(* precision; the printed sign is the sign of the input.                      *)
(*                                                                            *)
(* An input is a record x = [neg, m, e, more]: the value is (-1)^neg * v with *)
(*    v = m * 10^e exactly                       when ~more,                  *)
(*    m * 10^e < v < (m + 1) * 10^e              when more                    *)
(* (m, e integers, 0 <= m < 10^9).  `more` is how 64-bit counts that do not   *)
(* fit TLC's 32-bit integers are handled: a count is given by three base-10^9 *)
(* limbs and Lead() keeps its nine leading digits.                            *)
(* An observation is what was printed, read back by the driver:               *)
(*    digits : number of decimals printed        ("12.3k" -> 1, "150" -> 0)   *)
(*    mant   : the printed mantissa in units of 10^-digits ("12.3k" -> 123)   *)
(*    suf    : the text behind the number        ("k", "" when none)          *)
(*    neg    : a minus sign was printed                                       *)
(* The result is specified by a LAW (Verdict / Admissible), not by a function:*)
(* at a suffix boundary 999.96e3 may print as 1000.0k or 1.0M, 1 as 1.0 or    *)
(* 1000.0m - both ends of [1, 1000] are admitted, and the mantissa may be off *)
(* by one unit of its last printed digit (rounding direction, float           *)
(* constants) plus a relative 2^-18 (the six-decimal form prints a float).    *)
(* Mantissa range + multiplying back determine the suffix: it is the one      *)
(* whose range contains |x| (or its neighbour exactly at a boundary).         *)
(* Zero has no mantissa in [1, 1000]: it must print a zero mantissa (with any *)
(* known suffix; the sign of a zero is not constrained).                      *)
(* All arithmetic is exact integer arithmetic that saturates at Big so that   *)
(* it stays inside TLC's 32-bit integers.                                     *)
EXTENDS Integers, Sequences, FiniteSets

Sufs   == <<"f", "p", "n", "u", "m", "", "k", "M", "G", "T", "P", "E">>
SufExp(i) == 3 * i - 18                     \* Sufs[1] = femto = 10^-15 ... Sufs[12] = exa = 10^18
SufIdx(s) == CHOOSE i \in DOMAIN Sufs : Sufs[i] = s
IsSuf(s)  == \E i \in DOMAIN Sufs : Sufs[i] = s
BandName(i) == IF Sufs[i] = "" THEN "unit" ELSE Sufs[i]

Big == 2000000000
RECURSIVE P10(_)
P10(k) == IF k = 0 THEN 1 ELSE 10 * P10(k - 1)          \* k in 0..9
\* x * 10^k, saturating at Big (x >= 0, k >= 0)
Mul10(x, k) == IF x = 0 THEN 0 ELSE IF k > 9 THEN Big ELSE IF x > Big \div P10(k) THEN Big ELSE x * P10(k)

NDigits(m) == CHOOSE d \in 1..10 : P10(d - 1) <= m /\ (d = 10 \/ m < P10(d))
Decade(m, e) == e + NDigits(m) - 1                       \* floor(log10(m * 10^e))
FloorDiv3(x) == IF x >= 0 THEN x \div 3 ELSE -((-x + 2) \div 3)
BandIdx(m, e) == FloorDiv3(Decade(m, e)) + 6             \* index into Sufs of the band the input lies in

\* the quantifier of the property: 1e-15 <= |x| <= 1e21 (or x = 0)
InRange(m, e) == Decade(m, e) >= -15 /\ (Decade(m, e) <= 20 \/ (m = 1 /\ e = 21))

Inp(neg, m, e) == [neg |-> neg, m |-> m, e |-> e, more |-> FALSE]

\* 64-bit counts as limbs <<a, b, c>>: a * 10^18 + b * 10^9 + c
Giga == 1000000000
ValidCount(L) == /\ Len(L) = 3 /\ \A i \in 1..3 : L[i] >= 0 /\ L[i] < Giga
                 /\ (L[1] < 18 \/ (L[1] = 18 /\ (L[2] < 446744073 \/ (L[2] = 446744073 /\ L[3] <= 709551615))))
\* the nine leading digits of a count (exact when the count has at most nine digits)
Lead(L) ==
  LET a == L[1]  b == L[2]  c == L[3] IN
  IF a > 0 THEN LET n == NDigits(a) IN
       [neg |-> FALSE, m |-> a * P10(9 - n) + b \div P10(n), e |-> 9 + n, more |-> (b % P10(n) # 0 \/ c # 0)]
  ELSE IF b > 0 THEN LET n == NDigits(b) IN
       [neg |-> FALSE, m |-> b * P10(9 - n) + c \div P10(n), e |-> n, more |-> (c % P10(n) # 0)]
  ELSE [neg |-> FALSE, m |-> c, e |-> 0, more |-> FALSE]
\* m * 10^e as limbs (m < 10^6, 0 <= e <= 18, the product a valid count)
ToLimbs(m, e) ==
  LET q  == e \div 9
      r  == e % 9
      hi == m \div P10(9 - r)                 \* m * 10^r = hi * 10^9 + lo
      lo == (m % P10(9 - r)) * P10(r)
  IN IF q = 0 THEN <<0, hi, lo>> ELSE IF q = 1 THEN <<hi, lo, 0>> ELSE <<lo, 0, 0>>

Class(x) == IF x.m = 0 THEN "zero"
            ELSE "band=" \o (IF BandIdx(x.m, x.e) > 12 THEN "E-top" ELSE BandName(BandIdx(x.m, x.e)))
                 \o (IF x.neg THEN ",neg" ELSE "")

\* units of the last printed digit by which the mantissa may differ from the exact quotient
Tol(o) == IF o.digits = 0 THEN 0 ELSE 1 + o.mant \div 262144

\* which conjunct fails ("" = admissible)
Verdict(x, o) ==
  LET mHi == IF x.more THEN x.m + 1 ELSE x.m IN         \* m * 10^e <= |x| <= mHi * 10^e
  IF ~IsSuf(o.suf) THEN "suffix"
  ELSE IF x.m = 0 THEN (IF o.mant = 0 THEN "" ELSE "multiplies-back")        \* zero prints a zero mantissa
  ELSE IF o.neg # x.neg THEN "sign"                                           \* sign(printed) = sign(x)
  ELSE IF o.digits < 0 \/ o.digits > 6 THEN "mantissa-range"
  ELSE IF o.mant < P10(o.digits) \/ o.mant > 1000 * P10(o.digits) THEN "mantissa-range"   \* 1 <= |mantissa| <= 1000
  ELSE LET k  == SufExp(SufIdx(o.suf)) - o.digits - x.e      \* mant * 10^k  ~  m
           lo == o.mant - Tol(o)
           hi == o.mant + Tol(o)
       IN IF k >= 0
          THEN IF Mul10(lo, k) <= mHi /\ x.m <= Mul10(hi, k) THEN "" ELSE "multiplies-back"
          ELSE IF lo <= Mul10(mHi, -k) /\ Mul10(x.m, -k) <= hi /\ Mul10(x.m, -k) < Big THEN "" ELSE "multiplies-back"

Admissible(x, o) == Verdict(x, o) = ""

-------------------------------------------------------------------------------
\* A reference printer (one decimal, suffix of the input's band, round half up):
\* used only to show that the law is satisfiable and selective.
RoundDiv(x, d) == (2 * x + d) \div (2 * d)
\* round(m * 10^e / 10^se * 10)
Mant1(m, e, se) == LET x == e - se + 1 IN IF x >= 0 THEN Mul10(m, x) ELSE IF -x > 9 THEN 0 ELSE RoundDiv(m, P10(-x))
RefObs(x, i) == [digits |-> 1, mant |-> Mant1(x.m, x.e, SufExp(i)), suf |-> Sufs[i], neg |-> x.neg]
AdmSufs(x)   == {i \in DOMAIN Sufs : Admissible(x, RefObs(x, i))}
OwnBand(x)   == IF BandIdx(x.m, x.e) > 12 THEN 12 ELSE BandIdx(x.m, x.e)

\* x: an exact non-zero input
SiLaws(x) ==
  LET b == BandIdx(x.m, x.e) IN
  /\ (b <= 12 => b \in AdmSufs(x))                            \* printing in the input's own band is admissible
  /\ AdmSufs(x) \subseteq {b - 1, b, b + 1}                   \* only a neighbouring suffix can be admissible as well ...
  /\ Cardinality(AdmSufs(x)) \in {1, 2}                       \* ... and only one of them (at a boundary)
  /\ (Cardinality(AdmSufs(x)) = 2 =>                          \* which happens only when the mantissa prints as 1.0 / 1000.0
        \E i \in AdmSufs(x) : Mant1(x.m, x.e, SufExp(i)) \in {10, 10000})
  /\ \A i \in DOMAIN Sufs : ~Admissible(x, [RefObs(x, i) EXCEPT !.mant = 0])
  /\ \A i \in AdmSufs(x) : Verdict(x, [RefObs(x, i) EXCEPT !.neg = ~x.neg]) = "sign"     \* a lost / spurious sign is rejected
  /\ Admissible([x EXCEPT !.m = 0], [RefObs(x, 1) EXCEPT !.mant = 0])                    \* zero: "0.0f" and "-0.0f"
  /\ ~Admissible([x EXCEPT !.m = 0], RefObs(x, OwnBand(x)))
===============================================================================
