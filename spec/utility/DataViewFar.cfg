CONSTANTS
  ESizes = {1, 4, 8, 12}
