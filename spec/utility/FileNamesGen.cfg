CONSTANTS
  N = 7
