CONSTANTS
  N = 6
