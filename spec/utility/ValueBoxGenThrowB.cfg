SPECIFICATION SpecCore
CONSTANTS
  NT = 1
  NU = 1
  NA = 0
  Throwing = TRUE
  WithMake = TRUE
  Vals = {1, 2}
INVARIANTS TypeOK WellFormed LastAgrees
PROPERTIES RefProtocolLegal Independence CopiesEqualSource NothingGivenByThrow
