SPECIFICATION Spec
INVARIANTS LastAgrees
