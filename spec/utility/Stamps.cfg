SPECIFICATION Spec
CONSTANTS
  Threads = {1, 2, 3}
  MaxOps = 3
  Atomic = TRUE
  Block = 1
INVARIANTS TypeOK Unique IncreasingPerThread CopiesCarry BelowCounter HappensBeforeOrdered OrderComplete
CHECK_DEADLOCK FALSE
