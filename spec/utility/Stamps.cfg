SPECIFICATION Spec
CONSTANTS
  Threads = {1, 2, 3}
  MaxOps = 3
  Atomic = TRUE
INVARIANTS TypeOK Unique IncreasingPerThread CopiesCarry BelowCounter
CHECK_DEADLOCK FALSE
