------------------------------- MODULE FileObjs -------------------------------
(* Several FileName OBJECTS used one after the other and interleaved          *)
(* (property C18, boundary audit, class "history"): the decomposition and     *)
(* recomposition laws are about values, so what one object returns must not   *)
(* depend on what was done to another object before, on an earlier longer     *)
(* name, or on an operand being the destination (f = f, f = f + f,            *)
(* f = g.setExt(x) with g == f).  State: two slots holding names; after every *)
(* action BOTH objects are decomposed again.                                  *)
EXTENDS FileNames, TLC

CONSTANTS Seeds,    \* names given to the constructor (character sequences without trailing separator)
          Exts,     \* extensions for setExt
          MaxLen    \* bound on the length of a name (bounds the state graph)

VARIABLES fn, last
vars == <<fn, last>>
Slots == {1, 2}

Obs(f) == [str |-> Join(f), path |-> Join(PathOf(f)), base |-> Join(BaseOf(f)), name |-> Join(NameOf(f)), ext |-> Join(ExtOf(f))]
Proj(F) == [f1 |-> Obs(F[1]), f2 |-> Obs(F[2])]

Init == fn = [i \in Slots |-> <<>>] /\ last = [a |-> "Init", arg |-> <<>>, cls |-> "", exp |-> Proj([i \in Slots |-> <<>>])]

Put(d, v, a, arg, cls) ==
  /\ Len(v) <= MaxLen
  /\ ~Special(BaseOf(v))                     \* (hidden files: name / ext left open by the statement)
  /\ fn' = [fn EXCEPT ![d] = v]
  /\ last' = [a |-> a, arg |-> arg, cls |-> cls, exp |-> Proj(fn')]

\* input classes: which operands are the same object
Alias2(d, s)    == IF d = s THEN "self" ELSE "other"
Alias3(d, l, r) == IF d = l /\ l = r THEN "d=l=r" ELSE IF d = l THEN "d=l" ELSE IF d = r THEN "d=r" ELSE IF l = r THEN "l=r" ELSE "distinct"

New(d, s)        == Put(d, s, "FoNew", [d |-> d, s |-> Join(s)], "")
Assign(d, s)     == Put(d, fn[s], "FoAssign", [d |-> d, s |-> s], Alias2(d, s))                              \* d = s: self-assignment
\* dst = left + right with the FileName / std::string overload; any two of the three may be the same object
Plus(d, l, r, ov) == fn[r] # <<>> /\ Put(d, JoinNames(fn[l], fn[r]), "FoPlus", [d |-> d, l |-> l, r |-> r, ov |-> ov], Alias3(d, l, r))
SetExtInto(d, s, x) == Put(d, SetExt(fn[s], x), "FoSetExt", [d |-> d, s |-> s, x |-> Join(x)], Alias2(d, s))
DropExtInto(d, s)   == Put(d, DropExt(fn[s]), "FoDropExt", [d |-> d, s |-> s], Alias2(d, s))

Next ==
  \/ \E d \in Slots, s \in Seeds : New(d, s)
  \/ \E d \in Slots, s \in Slots : Assign(d, s) \/ DropExtInto(d, s)
  \/ \E d \in Slots, l \in Slots, r \in Slots, ov \in {"fn", "str"} : Plus(d, l, r, ov)
  \/ \E d \in Slots, s \in Slots, x \in Exts : SetExtInto(d, s, x)

Spec == Init /\ [][Next]_vars

\* the decomposition laws hold for whatever the slots hold
LawsHold == \A i \in Slots : FileLaws(fn[i])
LastAgrees == last.exp = Proj(fn)
===============================================================================
