SPECIFICATION Spec
CONSTANTS
  Threads = {1, 2, 3, 4}
  MaxOps = 2
  Atomic = TRUE
INVARIANTS TypeOK Unique IncreasingPerThread CopiesCarry BelowCounter
CHECK_DEADLOCK FALSE
