----------------------------- MODULE ArrayWrappers -----------------------------
(* Array wrappers of rkcommon/utility (property C11): ArrayView, OwnedArray,   *)
(* FixedArray, FixedArrayView over the common AbstractArray interface.         *)
(*                                                                             *)
(* The model is about WHICH STORAGE a wrapper designates and WHO keeps that    *)
(* storage alive:                                                              *)
(*   bufs   storage blocks with identity: [live, cont].  A block is created    *)
(*          by a source container (std::vector / std::array), by an owning     *)
(*          wrapper that copies its input, and dies when its owner lets go.    *)
(*          `cont` is a RUN LIST (constant runs and runs of the arithmetic      *)
(*          pattern (b + o + j) % 251): contents of 65 537 elements cost as    *)
(*          much as contents of 3, so sizes around internal boundaries (256,   *)
(*          4096, 65 536 elements or bytes) are ordinary sizes of the model.   *)
(*   src    source containers the harness builds, mutates, resizes, destroys   *)
(*          (1..NV are std::vector-like, NV+1..NV+NA std::array-like).         *)
(*   wr     wrapper slots [st, kind, buf, off, len]: the wrapper designates    *)
(*          elements off+1 .. off+len of block buf (buf = 0 when len = 0).     *)
(*                                                                             *)
(* Ownership as the property states it:                                        *)
(*   ArrayView       aliases: never creates, never keeps alive.  It may be     *)
(*                   left DANGLING by its source (block dead); then nothing    *)
(*                   may be read through it - only re-seat / destroy it.       *)
(*   OwnedArray      exclusive owner of a private copy (also when it is a      *)
(*                   copy of another OwnedArray).                              *)
(*   FixedArray      co-owner of a private copy; copies of a FixedArray share  *)
(*                   the block (the header documents shared ownership).        *)
(*   FixedArrayView  co-owner of the block of the FixedArray it was made onto. *)
(* A block of the Fixed family lives as long as any FixedArray / FixedArrayView*)
(* designating it is alive.                                                    *)
(*                                                                             *)
(* Ghost variable `last` = [a, arg, cls, ns, dang, moved, pos, probes, exp]:   *)
(* action, arguments, signature class, number of sources, which slots are      *)
(* dangling (the driver must not read through those), which are moved-from,    *)
(* the element positions sampled on large wrappers / sources, the out-of-range *)
(* indices at() is probed with, and every observable the statement constrains  *)
(* after the step, for EVERY slot and source.                                  *)
(*                                                                             *)
(* Variant # "contract" are negative controls shaped like the real headers     *)
(* (see ArrayWrappersNeg*.cfg): TLC must find the invariants violated there.   *)
EXTENDS Integers, Sequences, FiniteSets, TLC

CONSTANTS NW,       \* number of wrapper slots
          NV,       \* number of std::vector-like sources (ids 1..NV)
          NA,       \* number of std::array-like sources (ids NV+1..NV+NA; sizes ArrLen, 1, 0, 0, ...)
          Kinds,    \* wrapper kinds that may be constructed in this instance
          Modes,    \* construction / assignment modes enabled in this instance
          Acts,     \* action names enabled in this instance (+ "SelfAssign", "SelfPtr", "SelfVal", "EdgeEmpty")
          Sizes,    \* vector sizes, resize targets, FixedArray(size) sizes
          MaxLen,   \* largest element of Sizes
          ArrLen,   \* size of the first std::array source
          PtrSel,   \* "all": every (offset, length) for pointer+size inputs; "few" / "some" / "big": fixed selections
          Palettes, \* {0}: sources start with the arithmetic pattern; p > 0: byte p-1 first, byte 256-p last
          Sym,      \* TRUE: construct only into the lowest dead slot (slots are interchangeable)
          Excl,     \* generation only: "kind,mode" inputs and "FixedArray,reassign-fviewed" left out of
                    \* random walks (so that long walks get past histories with listed findings); {} otherwise
          Variant   \* "contract" | "owned_copy_aliases" | "fixed_assign_frees_viewed"

AV  == "ArrayView"
OA  == "OwnedArray"
FA  == "FixedArray"
FAV == "FixedArrayView"
AllKinds == {AV, OA, FA, FAV}
Owning   == {OA, FA, FAV}
Fixed    == {FA, FAV}
PtrKinds == {AV, OA, FA}           \* kinds constructible from vector / std::array / pointer+size

Slots == 1..NW
Srcs  == 1..(NV + NA)
IsVec(s) == s <= NV
ArrLenOf(s) == IF s = NV + 1 THEN ArrLen ELSE IF s = NV + 2 THEN 1 ELSE 0
Bufs  == 1..(NW + NV + NA + 1)
Explicit == 8                      \* wrappers / sources of at most this many elements are observed element by element

VARIABLES wr, src, bufs, last
vars == <<wr, src, bufs, last>>

Free  == [live |-> FALSE, cont |-> <<>>]
DeadW == [st |-> "dead", kind |-> "none", buf |-> 0, off |-> 0, len |-> 0]
DeadS == [st |-> "dead", buf |-> 0]
Mk(k, b, o, n) == IF n = 0 THEN [st |-> "live", kind |-> k, buf |-> 0, off |-> 0, len |-> 0]
                           ELSE [st |-> "live", kind |-> k, buf |-> b, off |-> o, len |-> n]
MovedW(k) == [st |-> "moved", kind |-> k, buf |-> 0, off |-> 0, len |-> 0]

-------------------------------------------------------------------------------
\* Contents as run lists.  A run is n elements: constant b ("c"), or (b + o + j) % 251, j = 0..n-1 ("p").
Modulus == 251
Run(t, b, o, n) == [t |-> t, b |-> b, o |-> o, n |-> n]
CConst(n, v) == IF n = 0 THEN <<>> ELSE <<Run("c", v, 0, n)>>
CPat(b, o, n) == IF n = 0 THEN <<>>
                 ELSE IF n = 1 THEN <<Run("c", (b + o) % Modulus, 0, 1)>>
                 ELSE <<Run("p", b % Modulus, o % Modulus, n)>>
RunVal(r, j) == IF r.t = "c" THEN r.b ELSE (r.b + r.o + j) % Modulus
SubRun(r, off, k) == IF r.t = "c" THEN Run("c", r.b, 0, k)
                     ELSE IF k = 1 THEN Run("c", RunVal(r, off), 0, 1)
                     ELSE Run("p", r.b, (r.o + off) % Modulus, k)
Min2(a, b) == IF a <= b THEN a ELSE b

RECURSIVE CLen(_)
CLen(c) == IF c = <<>> THEN 0 ELSE Head(c).n + CLen(Tail(c))

\* merge neighbouring runs that continue each other
Continues(r1, r2) == \/ r1.t = "c" /\ r2.t = "c" /\ r1.b = r2.b
                     \/ r1.t = "p" /\ r2.t = "p" /\ r1.b = r2.b /\ r2.o = (r1.o + r1.n) % Modulus
RECURSIVE CNorm(_)
CNorm(c) == IF Len(c) < 2 THEN c
            ELSE IF Continues(c[1], c[2])
                 THEN CNorm(<<Run(c[1].t, c[1].b, c[1].o, c[1].n + c[2].n)>> \o Tail(Tail(c)))
                 ELSE <<c[1]>> \o CNorm(Tail(c))

\* elements off .. off+n-1 (0-based)
RECURSIVE CSliceRaw(_, _, _)
CSliceRaw(c, off, n) ==
  IF n = 0 \/ c = <<>> THEN <<>>
  ELSE LET r == Head(c) IN
       IF off >= r.n THEN CSliceRaw(Tail(c), off - r.n, n)
       ELSE LET k == Min2(n, r.n - off) IN <<SubRun(r, off, k)>> \o CSliceRaw(Tail(c), 0, n - k)
CSlice(c, off, n) == CNorm(CSliceRaw(c, off, n))
CCat(a, b) == CNorm(a \o b)
CSet(c, i, v) == CNorm(CSliceRaw(c, 0, i) \o CConst(1, v) \o CSliceRaw(c, i + 1, CLen(c) - i - 1))
CResize(c, n, v) == IF n <= CLen(c) THEN CSlice(c, 0, n) ELSE CCat(c, CConst(n - CLen(c), v))
RECURSIVE CAt(_, _)
CAt(c, i) == IF i < Head(c).n THEN RunVal(Head(c), i) ELSE CAt(Tail(c), i - Head(c).n)
CExpand(c) == [i \in 1..CLen(c) |-> CAt(c, i - 1)]

\* sum of all elements (at most 65 538 * 255 < 2^31)
\* sum of (a + j) % 251 for j < r <= 250: an arithmetic series, continued from 0 after the wrap
Tri(k) == (k * (k - 1)) \div 2
SumUpTo(a, r) == LET a0 == a % Modulus
                     k == Modulus - a0                      \* elements before the wrap
                 IN IF r <= k THEN r * a0 + Tri(r) ELSE k * a0 + Tri(k) + Tri(r - k)
RunSum(r) == IF r.t = "c" THEN r.n * r.b
             ELSE (r.n \div Modulus) * ((Modulus * (Modulus - 1)) \div 2) + SumUpTo(r.b + r.o, r.n % Modulus)
RECURSIVE CSum(_)
CSum(c) == IF c = <<>> THEN 0 ELSE RunSum(Head(c)) + CSum(Tail(c))

\* positions sampled on a large wrapper: both ends and the neighbourhood of every power-of-two /
\* 65 536-byte boundary of the element types the driver uses (1, 3, 4, 8, 12, 24 bytes)
Marks == {256, 2731, 4096, 5461, 8192, 16384, 21845, 32768, 65536}
SampSet(n) == {p \in {0, 1, n - 2, n - 1} \cup UNION {{k - 1, k, k + 1} : k \in Marks} : p >= 0 /\ p < n}
RECURSIVE AscSeq(_)
AscSeq(S) == IF S = {} THEN <<>> ELSE LET m == CHOOSE x \in S : \A y \in S : x <= y IN <<m>> \o AscSeq(S \ {m})
SampPos(n) == IF n <= Explicit THEN <<>> ELSE AscSeq(SampSet(n))

\* values: everything the harness writes is chosen here and handed over in `arg`
PalCont(p, s, n) == IF p = 0 \/ n < 2 THEN CPat(10 * s, 1, n)                   \* initial contents of source s
                    ELSE CNorm(CConst(1, p - 1) \o CPat(10 * s, 2, n - 2) \o CConst(1, 256 - p))
SrcMark(s)    == 40 + s                          \* written into a source element
WMark(w)      == 50 + w                          \* written through wrapper slot w
Fill(n)       == CPat(60, 1, n)                  \* harness fill after FixedArray(size)
ResizeVal(w)  == 70 + w                          \* OwnedArray::resize(n, val)
SrcGrowVal(s) == 80 + s                          \* vector::resize(n, val)

\* out-of-range indices at() is probed with: r*size() + c*2^p + d (mod 2^64); every one is >= size()
\* for the sizes of the model (size() itself and its successor, indices that fall into range when
\* truncated to 31 / 32 bits or when multiplied by an element size, SIZE_MAX)
Probes == << <<1, 0, 0, 0>>, <<1, 0, 0, 1>>, <<0, 1, 31, 0>>, <<1, 1, 31, 0>>, <<0, 1, 32, 0>>, <<1, 1, 32, -1>>,
             <<1, 1, 32, 0>>, <<0, 1, 60, 0>>, <<0, 1, 61, 0>>, <<0, 1, 62, 0>>, <<0, 1, 63, 0>>, <<1, 1, 63, 0>>,
             <<0, 1, 64, -1>> >>

-------------------------------------------------------------------------------
\* state functions, parameterised so that they can be applied to the next state
LiveW(W) == {w \in Slots : W[w].st = "live"}
LiveS(S) == {s \in Srcs : S[s].st = "live"}
Dangling(W, B, w) == W[w].st = "live" /\ W[w].len > 0 /\ ~B[W[w].buf].live
Usable(W, B, w)   == W[w].st = "live" /\ ~Dangling(W, B, w)
ContOf(W, B, w)   == IF W[w].len = 0 THEN <<>> ELSE CSlice(B[W[w].buf].cont, W[w].off, W[w].len)
Refd(W, S) == {W[w].buf : w \in {x \in LiveW(W) : W[x].len > 0}} \cup {S[s].buf : s \in LiveS(S)}
SrcLen(s)  == CLen(bufs[src[s].buf].cont)

Overlap(W, B, i, j) ==
  /\ i # j /\ Usable(W, B, i) /\ Usable(W, B, j)
  /\ W[i].len > 0 /\ W[j].len > 0 /\ W[i].buf = W[j].buf
  /\ W[i].off < W[j].off + W[j].len /\ W[j].off < W[i].off + W[i].len

\* where data() points: inside live source s at element offset off; s = 0: storage of no
\* source; s = -1: empty wrapper (data() of an empty wrapper is not constrained)
Loc(W, S, w) ==
  IF W[w].len = 0 THEN [s |-> -1, off |-> 0]
  ELSE IF \E s \in LiveS(S) : S[s].buf = W[w].buf
       THEN [s |-> CHOOSE s \in LiveS(S) : S[s].buf = W[w].buf, off |-> W[w].off]
       ELSE [s |-> 0, off |-> 0]

\* contents as observed: element by element (at(i) and begin()..end()), or - on large wrappers - the
\* number of elements the iteration covers, the sums over at(i) and over the iteration, sampled positions
ContObs(c) ==
  IF CLen(c) <= Explicit THEN [items |-> CExpand(c), iter |-> CExpand(c)]
  ELSE [iterlen |-> CLen(c), sum |-> CSum(c), isum |-> CSum(c),
        samp |-> [k \in 1..Len(SampPos(CLen(c))) |-> CAt(c, SampPos(CLen(c))[k])]]

\* observables of one wrapper slot: size(), operator bool, contents, at(i) for the out-of-range probes,
\* redundant accessors agree (`same`), data() relative to the sources, element ranges shared with other slots
WObs(W, S, B, w) ==
  IF W[w].st = "dead" THEN [st |-> "dead"]
  ELSE IF W[w].st = "moved" THEN [st |-> "moved", valid |-> TRUE]
  ELSE IF Dangling(W, B, w) THEN [st |-> "dangling"]
  ELSE [st |-> "live", kind |-> W[w].kind, size |-> W[w].len, nonempty |-> (W[w].len > 0),
        oob |-> "throws", same |-> "ok",
        loc |-> Loc(W, S, w), ovl |-> [j \in Slots |-> Overlap(W, B, w, j)]] @@ ContObs(ContOf(W, B, w))
SObs(S, B, s) == IF S[s].st = "dead" THEN [st |-> "dead"] ELSE [st |-> "live"] @@ ContObs(B[S[s].buf].cont)
Obs(W, S, B) == [w |-> [i \in Slots |-> WObs(W, S, B, i)], s |-> [j \in Srcs |-> SObs(S, B, j)]]
PosOf(W, S, B) == [w |-> [i \in Slots |-> IF Usable(W, B, i) THEN SampPos(W[i].len) ELSE <<>>],
                   s |-> [j \in Srcs |-> IF S[j].st = "live" THEN SampPos(CLen(B[S[j].buf].cont)) ELSE <<>>]]

\* smallest block id nobody refers to (a block a dangling view still refers to keeps its id)
FreshBuf == CHOOSE b \in Bufs \ Refd(wr, src) : \A c \in Bufs \ Refd(wr, src) : b <= c

Ghost(W, S, B, a, arg, cls) ==
  [a |-> a, arg |-> arg, cls |-> cls, ns |-> NV + NA,
   dang |-> [w \in Slots |-> Dangling(W, B, w)], moved |-> [w \in Slots |-> W[w].st = "moved"],
   pos |-> PosOf(W, S, B), probes |-> Probes, exp |-> Obs(W, S, B)]

Commit(W, S, B, a, arg, cls) ==
  LET B2 == [b \in Bufs |-> IF b \in Refd(W, S) /\ B[b].live THEN B[b] ELSE Free] IN
  /\ wr' = W /\ src' = S /\ bufs' = B2
  /\ last' = Ghost(W, S, B2, a, arg, cls)

InitLast == Ghost([w \in Slots |-> DeadW], [s \in Srcs |-> DeadS], [b \in Bufs |-> Free], "Init", <<>>, "")
Init ==
  /\ wr = [w \in Slots |-> DeadW] /\ src = [s \in Srcs |-> DeadS] /\ bufs = [b \in Bufs |-> Free]
  /\ last = InitLast

-------------------------------------------------------------------------------
\* what wrapper slot w lets go of when it is destroyed / re-seated; W2 = the slot table afterwards
Holders(W, b, ks) == {x \in LiveW(W) : W[x].len > 0 /\ W[x].buf = b /\ W[x].kind \in ks}
DropRec(B, W2, o, assigning) ==
  LET keep == IF Variant = "fixed_assign_frees_viewed" /\ assigning THEN {FA} ELSE Fixed
  IN IF o.st # "live" \/ o.len = 0 THEN B
     ELSE IF o.kind = OA THEN [B EXCEPT ![o.buf] = Free]
     ELSE IF o.kind \in Fixed /\ Holders(W2, o.buf, keep) = {} THEN [B EXCEPT ![o.buf] = Free]
     ELSE B
Drop(B, W2, w, assigning) == DropRec(B, W2, wr[w], assigning)

\* who else designates elements of w's block (signature classes only)
Sharers(w) == {wr[x].kind : x \in {y \in LiveW(wr) \ {w} : wr[w].len > 0 /\ wr[y].len > 0 /\ wr[y].buf = wr[w].buf}}
Ctx(w) == IF wr[w].st = "moved" THEN "moved"
          ELSE IF Sharers(w) = {} THEN "sole" ELSE IF FAV \in Sharers(w) THEN "fviewed"
          ELSE IF AV \in Sharers(w) THEN "viewed" ELSE "shared"
SrcCtx(s) == (IF IsVec(s) THEN "vec" ELSE "arr") \o
             (IF \E x \in LiveW(wr) : wr[x].len > 0 /\ wr[x].buf = src[s].buf THEN ",viewed" ELSE ",unviewed")
Seated(w) == wr[w].st \in {"live", "moved"}       \* the slot holds an object (possibly moved-from)

\* (offset, length) a pointer+size input may take inside L elements: a non-empty range, or - "EdgeEmpty" -
\* no elements at the first position or one past the last
RangeOK(off, len, L) == \/ off >= 0 /\ len >= 1 /\ off + len <= L
                        \/ len = 0 /\ off \in {0, L} /\ (off = 0 \/ "EdgeEmpty" \in Acts)

\* admissible ways to (re)build a wrapper of kind k in slot w
Adm(w, k, m, x, off, len) ==
  /\ m \in Modes /\ (k \o "," \o m) \notin Excl
  /\ CASE m = "default" -> x = 0 /\ off = 0 /\ len = 0
       [] m = "src"     -> k \in PtrKinds /\ x \in LiveS(src) /\ off = 0 /\ len = 0
       [] m = "ptr"     -> /\ k \in PtrKinds
                           /\ \/ x = 0 /\ off = 0 /\ len = 0                       \* (nullptr, 0)
                              \/ x \in LiveS(src) /\ RangeOK(off, len, SrcLen(x)) /\ (len > 0 \/ "EdgeEmpty" \in Acts)
       [] m = "wptr"    -> /\ k \in PtrKinds /\ x \in Slots /\ (x # w \/ "SelfPtr" \in Acts) /\ Usable(wr, bufs, x)
                           /\ RangeOK(off, len, wr[x].len) /\ (len > 0 \/ "EdgeEmpty" \in Acts)
       [] m = "size"    -> k = FA /\ x = 0 /\ off = 0 /\ len \in Sizes
       [] m = "copy"    -> x \in Slots \ {w} /\ Usable(wr, bufs, x) /\ wr[x].kind = k
       [] m = "move"    -> k \in Owning /\ x \in Slots \ {w} /\ Usable(wr, bufs, x) /\ wr[x].kind = k
       [] m = "fview"   -> /\ k = FAV /\ x \in Slots \ {w} /\ wr[x].st = "live" /\ wr[x].kind = FA
                           /\ RangeOK(off, len, wr[x].len)
       [] OTHER -> FALSE

\* the element range <<block, off, len>> the input designates
Region(m, x, off, len) ==
  CASE m = "src"   -> <<src[x].buf, 0, SrcLen(x)>>
    [] m = "ptr"   -> IF x = 0 THEN <<0, 0, 0>> ELSE <<src[x].buf, off, len>>
    [] m = "wptr"  -> <<wr[x].buf, wr[x].off + off, len>>
    [] m = "size"  -> <<0, 0, len>>
    [] m \in {"copy", "move"} -> <<wr[x].buf, wr[x].off, wr[x].len>>
    [] m = "fview" -> IF len = 0 THEN <<0, 0, 0>> ELSE <<wr[x].buf, wr[x].off + off, len>>
    [] OTHER       -> <<0, 0, 0>>

\* slot w becomes a wrapper of kind k built from the input; returns <<slot table, blocks>>.
\* Moving (construction / assignment from an rvalue) gives the target what copying gives it; the
\* source is afterwards "moved": valid but unspecified - it may only be re-seated or destroyed.
Rebuild(w, k, m, x, off, len, assigning) ==
  LET r == Region(m, x, off, len)
      aliasing == \/ k = AV
                  \/ k \in Fixed /\ m \in {"copy", "move", "fview"}
                  \/ k = OA /\ m = "copy" /\ Variant = "owned_copy_aliases"
      c == IF m = "size" THEN Fill(len)
           ELSE IF r[3] = 0 THEN <<>> ELSE CSlice(bufs[r[1]].cont, r[2], r[3])
      f == FreshBuf
      W1 == [wr EXCEPT ![w] = IF aliasing THEN Mk(k, r[1], r[2], r[3]) ELSE Mk(k, f, 0, CLen(c))]
      W  == IF m = "move" THEN [W1 EXCEPT ![x] = MovedW(k)] ELSE W1
      B0 == Drop(bufs, W, w, assigning)
      B1 == IF m = "move" THEN DropRec(B0, W, wr[x], FALSE) ELSE B0
      B2 == IF aliasing \/ CLen(c) = 0 THEN B1 ELSE [B1 EXCEPT ![f] = [live |-> TRUE, cont |-> c]]
  IN <<W, B2>>

End0(m, off, len) == IF len = 0 /\ off > 0 THEN ",end0" ELSE ""     \* class: no elements, one past the last
BuildArg(w, k, m, x, off, len) ==
  [w |-> w, kind |-> k, m |-> m, x |-> x, off |-> off, len |-> len,
   runs |-> IF m = "size" THEN Fill(len) ELSE <<>>]

-------------------------------------------------------------------------------
\* wrapper actions
Construct(w, k, m, x, off, len) ==
  /\ "Construct" \in Acts /\ k \in Kinds /\ wr[w].st = "dead" /\ Adm(w, k, m, x, off, len)
  /\ LET r == Rebuild(w, k, m, x, off, len, FALSE)
     IN Commit(r[1], src, r[2], "Construct", BuildArg(w, k, m, x, off, len), k \o "," \o m \o End0(m, off, len))

\* operator=(std::vector&) / operator=(std::array&) / copy assignment / assignment from an rvalue /
\* self-assignment (x = w, m = "copy": nothing changes)
Assign(w, m, x) ==
  /\ "Assign" \in Acts /\ Seated(w) /\ m \in {"src", "copy", "move"}
  /\ ~(wr[w].kind = FA /\ Ctx(w) = "fviewed" /\ "FixedArray,reassign-fviewed" \in Excl)
  /\ IF m = "copy" /\ x = w
     THEN /\ "SelfAssign" \in Acts /\ Usable(wr, bufs, w)
          /\ Commit(wr, src, bufs, "Assign", [w |-> w, m |-> m, x |-> x], wr[w].kind \o ",self," \o Ctx(w))
     ELSE /\ Adm(w, wr[w].kind, m, x, 0, 0)
          /\ LET r == Rebuild(w, wr[w].kind, m, x, 0, 0, TRUE)
             IN Commit(r[1], src, r[2], "Assign", [w |-> w, m |-> m, x |-> x],
                       wr[w].kind \o "," \o m \o "," \o Ctx(w))

Reset(w) ==
  /\ "Reset" \in Acts /\ Seated(w) /\ wr[w].kind \in {AV, OA}
  /\ LET W == [wr EXCEPT ![w] = Mk(wr[w].kind, 0, 0, 0)]
     IN Commit(W, src, Drop(bufs, W, w, FALSE), "Reset", [w |-> w], wr[w].kind \o "," \o Ctx(w))

\* reset(ptr, n); with "SelfPtr" the pointer may point into the wrapper's own elements
ResetPtr(w, m, x, off, len) ==
  /\ "ResetPtr" \in Acts /\ Seated(w) /\ wr[w].kind \in {AV, OA} /\ m \in {"ptr", "wptr"}
  /\ Adm(w, wr[w].kind, m, x, off, len)
  /\ LET r == Rebuild(w, wr[w].kind, m, x, off, len, FALSE)
     IN Commit(r[1], src, r[2], "ResetPtr", [w |-> w, m |-> m, x |-> x, off |-> off, len |-> len],
               wr[w].kind \o "," \o m \o End0(m, off, len) \o (IF x = w /\ m = "wptr" THEN ",self," ELSE ",") \o Ctx(w))

\* OwnedArray::resize(n, val): the contract lets the elements move to a new block (the old
\* one is dead afterwards: views onto it dangle).  self: val is a reference to the array's own first element.
Resize(w, n, self) ==
  /\ "Resize" \in Acts /\ wr[w].st = "live" /\ wr[w].kind = OA /\ Usable(wr, bufs, w) /\ n \in Sizes \cup {MaxLen + 1}
  /\ self => "SelfVal" \in Acts /\ wr[w].len > 0
  /\ LET old == ContOf(wr, bufs, w)
         v == IF self THEN CAt(old, 0) ELSE ResizeVal(w)
         c == CResize(old, n, v)
         f == FreshBuf
         W == [wr EXCEPT ![w] = Mk(OA, f, 0, n)]
         B1 == Drop(bufs, W, w, FALSE)
         B2 == IF n = 0 THEN B1 ELSE [B1 EXCEPT ![f] = [live |-> TRUE, cont |-> c]]
     IN Commit(W, src, B2, "Resize", [w |-> w, n |-> n, v |-> v, self |-> self],
               (IF n > wr[w].len THEN "grow" ELSE IF n < wr[w].len THEN "shrink" ELSE "same") \o
               (IF self THEN ",selfval," ELSE ",") \o Ctx(w))

\* at(i) = v through the wrapper (i is 0-based)
Write(w, i) ==
  /\ "Write" \in Acts /\ Usable(wr, bufs, w) /\ i >= 0 /\ i < wr[w].len
  /\ Commit(wr, src, [bufs EXCEPT ![wr[w].buf].cont = CSet(@, wr[w].off + i, WMark(w))],
            "Write", [w |-> w, i |-> i, v |-> WMark(w)], wr[w].kind \o "," \o Ctx(w))

Destroy(w) ==
  /\ "Destroy" \in Acts /\ Seated(w)
  /\ LET W == [wr EXCEPT ![w] = DeadW]
     IN Commit(W, src, Drop(bufs, W, w, FALSE), "Destroy", [w |-> w], wr[w].kind \o "," \o Ctx(w))

\* source actions
SrcMake(s, n, p) ==
  /\ "SrcMake" \in Acts /\ src[s].st = "dead" /\ p \in Palettes
  /\ IF IsVec(s) THEN n \in Sizes ELSE n = ArrLenOf(s)
  /\ LET f == FreshBuf
         c == PalCont(p, s, n)
     IN Commit(wr, [src EXCEPT ![s] = [st |-> "live", buf |-> f]],
               [bufs EXCEPT ![f] = [live |-> TRUE, cont |-> c]],
               "SrcMake", [s |-> s, sk |-> IF IsVec(s) THEN "vec" ELSE "arr", runs |-> c],
               (IF IsVec(s) THEN "vec" ELSE "arr") \o (IF p # 0 /\ n >= 2 THEN ",bytes" ELSE ""))

SrcWrite(s, i) ==
  /\ "SrcWrite" \in Acts /\ src[s].st = "live" /\ i >= 0 /\ i < SrcLen(s)
  /\ Commit(wr, src, [bufs EXCEPT ![src[s].buf].cont = CSet(@, i, SrcMark(s))],
            "SrcWrite", [s |-> s, i |-> i, v |-> SrcMark(s)], SrcCtx(s))

\* vector::resize with reallocation: every view onto the old elements dangles afterwards
SrcResize(s, n) ==
  /\ "SrcResize" \in Acts /\ src[s].st = "live" /\ IsVec(s) /\ n \in Sizes /\ n # SrcLen(s)
  /\ LET c == CResize(bufs[src[s].buf].cont, n, SrcGrowVal(s))
         f == FreshBuf
     IN Commit(wr, [src EXCEPT ![s] = [st |-> "live", buf |-> f]],
               [bufs EXCEPT ![src[s].buf] = Free, ![f] = [live |-> TRUE, cont |-> c]],
               "SrcResize", [s |-> s, n |-> n, v |-> SrcGrowVal(s)], SrcCtx(s))

SrcDestroy(s) ==
  /\ "SrcDestroy" \in Acts /\ src[s].st = "live"
  /\ Commit(wr, [src EXCEPT ![s] = DeadS], [bufs EXCEPT ![src[s].buf] = Free],
            "SrcDestroy", [s |-> s], SrcCtx(s))

\* parameter choices of the next-state relation (the actions themselves accept any admissible value)
OffLen == IF PtrSel = "few" THEN {<<1, 2>>, <<0, 1>>}
          ELSE IF PtrSel = "some" THEN {<<0, 1>>, <<1, 2>>, <<2, 2>>, <<1, 3>>}
          ELSE IF PtrSel = "big" THEN {<<1, 255>>, <<1, 256>>, <<255, 2>>, <<256, 1>>, <<1, 65535>>, <<1, 65536>>,
                                      <<65535, 2>>, <<65536, 1>>, <<4095, 61441>>}
          ELSE {p \in (0..MaxLen) \X (1..MaxLen) : p[1] + p[2] <= MaxLen}
EmptyAt == {<<o, 0>> : o \in (Sizes \cup {MaxLen + 1}) \ {0}}                 \* one past the last element, no elements
Idx == IF PtrSel = "big" THEN {0, 1, 254, 255, 256, 257, 65534, 65535, 65536} ELSE 0..(MaxLen - 1)
LowestDead(w) == \A x \in Slots : wr[x].st = "dead" => w <= x
Next ==
  \/ \E w \in {x \in Slots : Sym => LowestDead(x)}, k \in Kinds :
       \/ Construct(w, k, "default", 0, 0, 0)
       \/ Construct(w, k, "ptr", 0, 0, 0)
       \/ \E s \in Srcs : Construct(w, k, "src", s, 0, 0)
       \/ \E s \in Srcs, p \in OffLen \cup EmptyAt \cup {<<0, 0>>} : Construct(w, k, "ptr", s, p[1], p[2])
       \/ \E x \in Slots, p \in OffLen \cup EmptyAt \cup {<<0, 0>>} : Construct(w, k, "wptr", x, p[1], p[2])
       \/ \E n \in Sizes : Construct(w, k, "size", 0, 0, n)
       \/ \E x \in Slots : Construct(w, k, "copy", x, 0, 0) \/ Construct(w, k, "move", x, 0, 0)
       \/ \E x \in Slots, p \in OffLen \cup EmptyAt \cup {<<0, 0>>} : Construct(w, k, "fview", x, p[1], p[2])
  \/ \E w \in Slots :
       \/ \E s \in Srcs : Assign(w, "src", s)
       \/ \E x \in Slots : Assign(w, "copy", x) \/ Assign(w, "move", x)
       \/ Reset(w)
       \/ ResetPtr(w, "ptr", 0, 0, 0)
       \/ \E s \in Srcs, p \in OffLen \cup EmptyAt \cup {<<0, 0>>} : ResetPtr(w, "ptr", s, p[1], p[2])
       \/ \E x \in Slots, p \in OffLen \cup EmptyAt \cup {<<0, 0>>} : ResetPtr(w, "wptr", x, p[1], p[2])
       \/ \E n \in Sizes \cup {MaxLen + 1}, self \in BOOLEAN : Resize(w, n, self)   \* MaxLen + 1: growth beyond every source
       \/ \E i \in Idx : Write(w, i)
       \/ Destroy(w)
  \/ \E s \in Srcs, p \in Palettes :
       \/ \E n \in Sizes \cup {ArrLenOf(s)} : SrcMake(s, n, p)
  \/ \E s \in Srcs :
       \/ \E i \in Idx : SrcWrite(s, i)
       \/ \E n \in Sizes : SrcResize(s, n)
       \/ SrcDestroy(s)

Spec == Init /\ [][Next]_vars

-------------------------------------------------------------------------------
\* What the property states, as invariants of the model.
TypeOK ==
  /\ \A w \in Slots : \/ wr[w] = DeadW
                      \/ wr[w].st = "moved" /\ wr[w] = MovedW(wr[w].kind) /\ wr[w].kind \in Owning
                      \/ /\ wr[w].st = "live" /\ wr[w].kind \in AllKinds /\ wr[w].len \in 0..(MaxLen + 1)
                         /\ wr[w].off \in 0..MaxLen
                         /\ IF wr[w].len = 0 THEN wr[w].buf = 0 /\ wr[w].off = 0 ELSE wr[w].buf \in Bufs
  /\ \A s \in Srcs : src[s] = DeadS \/ (src[s].st = "live" /\ src[s].buf \in Bufs /\ bufs[src[s].buf].live)
  /\ \A b \in Bufs : bufs[b].live \/ bufs[b] = Free

\* every wrapper that may be read designates len elements of a live block
InBounds == \A w \in Slots : Usable(wr, bufs, w) /\ wr[w].len > 0 =>
               bufs[wr[w].buf].live /\ wr[w].off + wr[w].len <= CLen(bufs[wr[w].buf].cont)

\* only a non-owning view can be left dangling; owning arrays (and copies, and FixedArrayViews) stay valid
OwningNeverDangles == \A w \in Slots : Dangling(wr, bufs, w) => wr[w].kind = AV

\* an OwnedArray's block is nobody else's: no source, no other owning wrapper
OwnedExclusive == \A w \in Slots : wr[w].st = "live" /\ wr[w].kind = OA /\ wr[w].len > 0 =>
                     /\ \A s \in LiveS(src) : src[s].buf # wr[w].buf
                     /\ \A x \in LiveW(wr) \ {w} : wr[x].kind \in Owning /\ wr[x].len > 0 => wr[x].buf # wr[w].buf
                     /\ wr[w].off = 0 /\ wr[w].len = CLen(bufs[wr[w].buf].cont)

\* the Fixed family never shares a block with a source or an OwnedArray
FixedIndependent == \A w \in Slots : wr[w].st = "live" /\ wr[w].kind \in Fixed /\ wr[w].len > 0 =>
                     \A s \in LiveS(src) : src[s].buf # wr[w].buf

\* a live block has an owner (a source or an owning wrapper): nothing leaks, and a usable
\* ArrayView therefore aliases storage of something that is alive
LiveBlocksOwned == \A b \in Bufs : bufs[b].live =>
                     \/ \E s \in LiveS(src) : src[s].buf = b
                     \/ \E w \in LiveW(wr) : wr[w].kind \in Owning /\ wr[w].len > 0 /\ wr[w].buf = b

LastAgrees == last.exp = Obs(wr, src, bufs)

\* Action properties: independence.  A step of a source never changes what an owning wrapper
\* holds; a step on wrapper slot t changes another owning wrapper only by a Write through a
\* wrapper that shares its block (a view onto it, or the Fixed family's shared block), or by moving from it.
Cont(W, B, w) == CExpand(ContOf(W, B, w))
SrcActs == {"SrcMake", "SrcWrite", "SrcResize", "SrcDestroy"}
OwnersUntouchedBySources ==
  [][last'.a \in SrcActs =>
       \A w \in Slots : wr[w].st = "live" /\ wr[w].kind \in Owning =>
           wr'[w] = wr[w] /\ Cont(wr', bufs', w) = Cont(wr, bufs, w) /\ ~Dangling(wr', bufs', w)]_vars
OwnersUntouchedByOthers ==
  [][last'.a \notin SrcActs =>
       \A w \in Slots : wr[w].st = "live" /\ wr[w].kind \in Owning /\ w # last'.arg.w =>
           \/ wr'[w].st = "moved" /\ last'.arg.m = "move" /\ last'.arg.x = w
           \/ /\ ~Dangling(wr', bufs', w)
              /\ \/ Cont(wr', bufs', w) = Cont(wr, bufs, w)
                 \/ last'.a = "Write" /\ wr[w].len > 0 /\ wr[last'.arg.w].buf = wr[w].buf
                    /\ (wr[w].kind = OA => wr[last'.arg.w].kind = AV)]_vars
===============================================================================
