----------------------------- MODULE ArrayWrappers -----------------------------
(* Array wrappers of rkcommon/utility (property C11): ArrayView, OwnedArray,   *)
(* FixedArray, FixedArrayView over the common AbstractArray interface.         *)
(*                                                                             *)
(* The model is about WHICH STORAGE a wrapper designates and WHO keeps that    *)
(* storage alive:                                                              *)
(*   bufs   storage blocks with identity: [live, cont].  A block is created    *)
(*          by a source container (std::vector / std::array), by an owning     *)
(*          wrapper that copies its input, and dies when its owner lets go.    *)
(*   src    source containers the harness builds, mutates, resizes, destroys   *)
(*          (1..NV are std::vector-like, NV+1..NV+NA std::array-like).         *)
(*   wr     wrapper slots [st, kind, buf, off, len]: the wrapper designates    *)
(*          elements off+1 .. off+len of block buf (buf = 0 when len = 0).     *)
(*                                                                             *)
(* Ownership as the property states it:                                        *)
(*   ArrayView       aliases: never creates, never keeps alive.  It may be     *)
(*                   left DANGLING by its source (block dead); then nothing    *)
(*                   may be read through it - only re-seat / destroy it.       *)
(*   OwnedArray      exclusive owner of a private copy (also when it is a      *)
(*                   copy of another OwnedArray).                              *)
(*   FixedArray      co-owner of a private copy; copies of a FixedArray share  *)
(*                   the block (the header documents shared ownership).        *)
(*   FixedArrayView  co-owner of the block of the FixedArray it was made onto. *)
(* A block of the Fixed family lives as long as any FixedArray / FixedArrayView*)
(* designating it is alive.                                                    *)
(*                                                                             *)
(* Ghost variable `last` = [a, arg, cls, ns, dang, exp]: action, arguments,    *)
(* signature class, number of sources, which slots are dangling (the driver    *)
(* must not read through those), and every observable the statement constrains *)
(* after the step, for EVERY slot and source.                                  *)
(*                                                                             *)
(* Variant # "contract" are negative controls shaped like the real headers     *)
(* (see ArrayWrappersNeg*.cfg): TLC must find the invariants violated there.   *)
EXTENDS Integers, Sequences, FiniteSets, TLC

CONSTANTS NW,       \* number of wrapper slots
          NV,       \* number of std::vector-like sources (ids 1..NV)
          NA,       \* number of std::array-like sources (ids NV+1..NV+NA)
          Kinds,    \* wrapper kinds that may be constructed in this instance
          Modes,    \* construction / assignment modes enabled in this instance
          Acts,     \* action names enabled in this instance
          MaxLen,   \* largest vector size / resize size
          ArrLen,   \* size of the std::array sources
          PtrSel,   \* "all": every (offset, length) for pointer+size inputs; "few" / "some": fixed selections
          Sym,      \* TRUE: construct only into the lowest dead slot (slots are interchangeable)
          Excl,     \* generation only: "kind,mode" inputs and "FixedArray,reassign-fviewed" left out of
                    \* random walks (so that long walks get past histories with listed findings); {} otherwise
          Variant   \* "contract" | "owned_copy_aliases" | "fixed_assign_frees_viewed"

AV  == "ArrayView"
OA  == "OwnedArray"
FA  == "FixedArray"
FAV == "FixedArrayView"
AllKinds == {AV, OA, FA, FAV}
Owning   == {OA, FA, FAV}
Fixed    == {FA, FAV}
PtrKinds == {AV, OA, FA}           \* kinds constructible from vector / std::array / pointer+size

Slots == 1..NW
Srcs  == 1..(NV + NA)
IsVec(s) == s <= NV
Bufs  == 1..(NW + NV + NA + 1)

VARIABLES wr, src, bufs, last
vars == <<wr, src, bufs, last>>

Free  == [live |-> FALSE, cont |-> <<>>]
DeadW == [st |-> "dead", kind |-> "none", buf |-> 0, off |-> 0, len |-> 0]
DeadS == [st |-> "dead", buf |-> 0]
Mk(k, b, o, n) == IF n = 0 THEN [st |-> "live", kind |-> k, buf |-> 0, off |-> 0, len |-> 0]
                           ELSE [st |-> "live", kind |-> k, buf |-> b, off |-> o, len |-> n]

\* values: everything the harness writes is chosen here and handed over in `arg`
Fresh(s, n)   == [i \in 1..n |-> 10 * s + i]     \* initial contents of source s
SrcMark(s)    == 40 + s                          \* written into a source element
WMark(w)      == 50 + w                          \* written through wrapper slot w
Fill(n)       == [i \in 1..n |-> 60 + i]         \* harness fill after FixedArray(size)
ResizeVal(w)  == 70 + w                          \* OwnedArray::resize(n, val)
SrcGrowVal(s) == 80 + s                          \* vector::resize(n, val)

-------------------------------------------------------------------------------
\* state functions, parameterised so that they can be applied to the next state
LiveW(W) == {w \in Slots : W[w].st = "live"}
LiveS(S) == {s \in Srcs : S[s].st = "live"}
Dangling(W, B, w) == W[w].st = "live" /\ W[w].len > 0 /\ ~B[W[w].buf].live
Usable(W, B, w)   == W[w].st = "live" /\ ~Dangling(W, B, w)
ContOf(W, B, w)   == IF W[w].len = 0 THEN <<>>
                     ELSE SubSeq(B[W[w].buf].cont, W[w].off + 1, W[w].off + W[w].len)
Refd(W, S) == {W[w].buf : w \in {x \in LiveW(W) : W[x].len > 0}} \cup {S[s].buf : s \in LiveS(S)}
SrcLen(s)  == Len(bufs[src[s].buf].cont)

Overlap(W, B, i, j) ==
  /\ i # j /\ Usable(W, B, i) /\ Usable(W, B, j)
  /\ W[i].len > 0 /\ W[j].len > 0 /\ W[i].buf = W[j].buf
  /\ W[i].off < W[j].off + W[j].len /\ W[j].off < W[i].off + W[i].len

\* where data() points: inside live source s at element offset off; s = 0: storage of no
\* source; s = -1: empty wrapper (data() of an empty wrapper is not constrained)
Loc(W, S, w) ==
  IF W[w].len = 0 THEN [s |-> -1, off |-> 0]
  ELSE IF \E s \in LiveS(S) : S[s].buf = W[w].buf
       THEN [s |-> CHOOSE s \in LiveS(S) : S[s].buf = W[w].buf, off |-> W[w].off]
       ELSE [s |-> 0, off |-> 0]

\* observables of one wrapper slot: size(), operator bool, at(i) for i < size(), begin()..end(),
\* at(i) for i >= size(), data() relative to the sources, element ranges shared with other slots
WObs(W, S, B, w) ==
  IF W[w].st = "dead" THEN [st |-> "dead"]
  ELSE IF Dangling(W, B, w) THEN [st |-> "dangling"]
  ELSE [st |-> "live", kind |-> W[w].kind, size |-> W[w].len, nonempty |-> (W[w].len > 0),
        items |-> ContOf(W, B, w), iter |-> ContOf(W, B, w), oob |-> "throws",
        loc |-> Loc(W, S, w), ovl |-> [j \in Slots |-> Overlap(W, B, w, j)]]
SObs(S, B, s) == IF S[s].st = "dead" THEN [st |-> "dead"] ELSE [st |-> "live", items |-> B[S[s].buf].cont]
Obs(W, S, B) == [w |-> [i \in Slots |-> WObs(W, S, B, i)], s |-> [j \in Srcs |-> SObs(S, B, j)]]

\* smallest block id nobody refers to (a block a dangling view still refers to keeps its id)
FreshBuf == CHOOSE b \in Bufs \ Refd(wr, src) : \A c \in Bufs \ Refd(wr, src) : b <= c

Commit(W, S, B, a, arg, cls) ==
  LET B2 == [b \in Bufs |-> IF b \in Refd(W, S) /\ B[b].live THEN B[b] ELSE Free] IN
  /\ wr' = W /\ src' = S /\ bufs' = B2
  /\ last' = [a |-> a, arg |-> arg, cls |-> cls, ns |-> NV + NA,
              dang |-> [w \in Slots |-> Dangling(W, B2, w)], exp |-> Obs(W, S, B2)]

Init ==
  /\ wr = [w \in Slots |-> DeadW] /\ src = [s \in Srcs |-> DeadS] /\ bufs = [b \in Bufs |-> Free]
  /\ last = [a |-> "Init", arg |-> <<>>, cls |-> "", ns |-> NV + NA, dang |-> [w \in Slots |-> FALSE],
             exp |-> Obs([w \in Slots |-> DeadW], [s \in Srcs |-> DeadS], [b \in Bufs |-> Free])]

-------------------------------------------------------------------------------
\* what wrapper slot w lets go of when it is destroyed / re-seated; W2 = the slot table afterwards
Holders(W, b, ks) == {x \in LiveW(W) : W[x].len > 0 /\ W[x].buf = b /\ W[x].kind \in ks}
Drop(B, W2, w, assigning) ==
  LET o == wr[w]
      keep == IF Variant = "fixed_assign_frees_viewed" /\ assigning THEN {FA} ELSE Fixed
  IN IF o.st # "live" \/ o.len = 0 THEN B
     ELSE IF o.kind = OA THEN [B EXCEPT ![o.buf] = Free]
     ELSE IF o.kind \in Fixed /\ Holders(W2, o.buf, keep) = {} THEN [B EXCEPT ![o.buf] = Free]
     ELSE B

\* who else designates elements of w's block (signature classes only)
Sharers(w) == {wr[x].kind : x \in {y \in LiveW(wr) \ {w} : wr[w].len > 0 /\ wr[y].len > 0 /\ wr[y].buf = wr[w].buf}}
Ctx(w) == IF Sharers(w) = {} THEN "sole" ELSE IF FAV \in Sharers(w) THEN "fviewed"
          ELSE IF AV \in Sharers(w) THEN "viewed" ELSE "shared"
SrcCtx(s) == (IF IsVec(s) THEN "vec" ELSE "arr") \o
             (IF \E x \in LiveW(wr) : wr[x].len > 0 /\ wr[x].buf = src[s].buf THEN ",viewed" ELSE ",unviewed")

\* admissible ways to (re)build a wrapper of kind k in slot w
Adm(w, k, m, x, off, len) ==
  /\ m \in Modes /\ (k \o "," \o m) \notin Excl
  /\ CASE m = "default" -> x = 0 /\ off = 0 /\ len = 0
       [] m = "src"     -> k \in PtrKinds /\ x \in LiveS(src) /\ off = 0 /\ len = 0
       [] m = "ptr"     -> /\ k \in PtrKinds
                           /\ \/ x = 0 /\ off = 0 /\ len = 0                       \* (nullptr, 0)
                              \/ x \in LiveS(src) /\ off >= 0 /\ len >= 1 /\ off + len <= SrcLen(x)
       [] m = "wptr"    -> /\ k \in PtrKinds /\ x \in Slots \ {w} /\ Usable(wr, bufs, x)
                           /\ off >= 0 /\ len >= 1 /\ off + len <= wr[x].len
       [] m = "size"    -> k = FA /\ x = 0 /\ off = 0 /\ len \in 0..MaxLen
       [] m = "copy"    -> x \in Slots \ {w} /\ Usable(wr, bufs, x) /\ wr[x].kind = k
       [] m = "fview"   -> /\ k = FAV /\ x \in Slots \ {w} /\ wr[x].st = "live" /\ wr[x].kind = FA
                           /\ \/ off = 0 /\ len = 0
                              \/ off >= 0 /\ len >= 1 /\ off + len <= wr[x].len
       [] OTHER -> FALSE

\* the element range <<block, off, len>> the input designates
Region(m, x, off, len) ==
  CASE m = "src"   -> <<src[x].buf, 0, SrcLen(x)>>
    [] m = "ptr"   -> IF x = 0 THEN <<0, 0, 0>> ELSE <<src[x].buf, off, len>>
    [] m = "wptr"  -> <<wr[x].buf, wr[x].off + off, len>>
    [] m = "size"  -> <<0, 0, len>>
    [] m = "copy"  -> <<wr[x].buf, wr[x].off, wr[x].len>>
    [] m = "fview" -> IF len = 0 THEN <<0, 0, 0>> ELSE <<wr[x].buf, wr[x].off + off, len>>
    [] OTHER       -> <<0, 0, 0>>

\* slot w becomes a wrapper of kind k built from the input; returns <<slot table, blocks>>
Rebuild(w, k, m, x, off, len, assigning) ==
  LET r == Region(m, x, off, len)
      aliasing == \/ k = AV
                  \/ k \in Fixed /\ m \in {"copy", "fview"}
                  \/ k = OA /\ m = "copy" /\ Variant = "owned_copy_aliases"
      c == IF m = "size" THEN Fill(len)
           ELSE IF r[3] = 0 THEN <<>> ELSE SubSeq(bufs[r[1]].cont, r[2] + 1, r[2] + r[3])
      f == FreshBuf
      W == [wr EXCEPT ![w] = IF aliasing THEN Mk(k, r[1], r[2], r[3]) ELSE Mk(k, f, 0, Len(c))]
      B1 == Drop(bufs, W, w, assigning)
      B2 == IF aliasing \/ Len(c) = 0 THEN B1 ELSE [B1 EXCEPT ![f] = [live |-> TRUE, cont |-> c]]
  IN <<W, B2>>

BuildArg(w, k, m, x, off, len) ==
  [w |-> w, kind |-> k, m |-> m, x |-> x, off |-> off, len |-> len,
   vals |-> IF m = "size" THEN Fill(len) ELSE <<>>]

-------------------------------------------------------------------------------
\* wrapper actions
Construct(w, k, m, x, off, len) ==
  /\ "Construct" \in Acts /\ k \in Kinds /\ wr[w].st = "dead" /\ Adm(w, k, m, x, off, len)
  /\ LET r == Rebuild(w, k, m, x, off, len, FALSE)
     IN Commit(r[1], src, r[2], "Construct", BuildArg(w, k, m, x, off, len), k \o "," \o m)

\* operator=(std::vector&) / operator=(std::array&) / copy assignment
Assign(w, m, x) ==
  /\ "Assign" \in Acts /\ wr[w].st = "live" /\ m \in {"src", "copy"}
  /\ ~(wr[w].kind = FA /\ Ctx(w) = "fviewed" /\ "FixedArray,reassign-fviewed" \in Excl)
  /\ Adm(w, wr[w].kind, m, x, 0, 0)
  /\ LET r == Rebuild(w, wr[w].kind, m, x, 0, 0, TRUE)
     IN Commit(r[1], src, r[2], "Assign", [w |-> w, m |-> m, x |-> x],
               wr[w].kind \o "," \o m \o "," \o Ctx(w))

Reset(w) ==
  /\ "Reset" \in Acts /\ wr[w].st = "live" /\ wr[w].kind \in {AV, OA}
  /\ LET W == [wr EXCEPT ![w] = Mk(wr[w].kind, 0, 0, 0)]
     IN Commit(W, src, Drop(bufs, W, w, FALSE), "Reset", [w |-> w], wr[w].kind \o "," \o Ctx(w))

\* reset(ptr, n)
ResetPtr(w, m, x, off, len) ==
  /\ "ResetPtr" \in Acts /\ wr[w].st = "live" /\ wr[w].kind \in {AV, OA} /\ m \in {"ptr", "wptr"}
  /\ Adm(w, wr[w].kind, m, x, off, len)
  /\ LET r == Rebuild(w, wr[w].kind, m, x, off, len, FALSE)
     IN Commit(r[1], src, r[2], "ResetPtr", [w |-> w, m |-> m, x |-> x, off |-> off, len |-> len],
               wr[w].kind \o "," \o m \o "," \o Ctx(w))

\* OwnedArray::resize(n, val): the contract lets the elements move to a new block (the old
\* one is dead afterwards: views onto it dangle)
Resize(w, n) ==
  /\ "Resize" \in Acts /\ wr[w].st = "live" /\ wr[w].kind = OA /\ Usable(wr, bufs, w) /\ n \in 0..(MaxLen + 1)
  /\ LET old == ContOf(wr, bufs, w)
         c == IF n <= Len(old) THEN SubSeq(old, 1, n) ELSE old \o [i \in 1..(n - Len(old)) |-> ResizeVal(w)]
         f == FreshBuf
         W == [wr EXCEPT ![w] = Mk(OA, f, 0, n)]
         B1 == Drop(bufs, W, w, FALSE)
         B2 == IF n = 0 THEN B1 ELSE [B1 EXCEPT ![f] = [live |-> TRUE, cont |-> c]]
     IN Commit(W, src, B2, "Resize", [w |-> w, n |-> n, v |-> ResizeVal(w)],
               (IF n > wr[w].len THEN "grow" ELSE IF n < wr[w].len THEN "shrink" ELSE "same") \o "," \o Ctx(w))

\* at(i) = v through the wrapper (i is 0-based)
Write(w, i) ==
  /\ "Write" \in Acts /\ Usable(wr, bufs, w) /\ i >= 0 /\ i < wr[w].len
  /\ Commit(wr, src, [bufs EXCEPT ![wr[w].buf].cont[wr[w].off + i + 1] = WMark(w)],
            "Write", [w |-> w, i |-> i, v |-> WMark(w)], wr[w].kind \o "," \o Ctx(w))

Destroy(w) ==
  /\ "Destroy" \in Acts /\ wr[w].st = "live"
  /\ LET W == [wr EXCEPT ![w] = DeadW]
     IN Commit(W, src, Drop(bufs, W, w, FALSE), "Destroy", [w |-> w], wr[w].kind \o "," \o Ctx(w))

\* source actions
SrcMake(s, n) ==
  /\ "SrcMake" \in Acts /\ src[s].st = "dead" /\ (IF IsVec(s) THEN n \in 0..MaxLen ELSE n = ArrLen)
  /\ LET f == FreshBuf
     IN Commit(wr, [src EXCEPT ![s] = [st |-> "live", buf |-> f]],
               [bufs EXCEPT ![f] = [live |-> TRUE, cont |-> Fresh(s, n)]],
               "SrcMake", [s |-> s, sk |-> IF IsVec(s) THEN "vec" ELSE "arr", vals |-> Fresh(s, n)],
               IF IsVec(s) THEN "vec" ELSE "arr")

SrcWrite(s, i) ==
  /\ "SrcWrite" \in Acts /\ src[s].st = "live" /\ i >= 0 /\ i < SrcLen(s)
  /\ Commit(wr, src, [bufs EXCEPT ![src[s].buf].cont[i + 1] = SrcMark(s)],
            "SrcWrite", [s |-> s, i |-> i, v |-> SrcMark(s)], SrcCtx(s))

\* vector::resize with reallocation: every view onto the old elements dangles afterwards
SrcResize(s, n) ==
  /\ "SrcResize" \in Acts /\ src[s].st = "live" /\ IsVec(s) /\ n \in 0..MaxLen /\ n # SrcLen(s)
  /\ LET old == bufs[src[s].buf].cont
         c == IF n <= Len(old) THEN SubSeq(old, 1, n) ELSE old \o [i \in 1..(n - Len(old)) |-> SrcGrowVal(s)]
         f == FreshBuf
     IN Commit(wr, [src EXCEPT ![s] = [st |-> "live", buf |-> f]],
               [bufs EXCEPT ![src[s].buf] = Free, ![f] = [live |-> TRUE, cont |-> c]],
               "SrcResize", [s |-> s, n |-> n, v |-> SrcGrowVal(s)], SrcCtx(s))

SrcDestroy(s) ==
  /\ "SrcDestroy" \in Acts /\ src[s].st = "live"
  /\ Commit(wr, [src EXCEPT ![s] = DeadS], [bufs EXCEPT ![src[s].buf] = Free],
            "SrcDestroy", [s |-> s], SrcCtx(s))

OffLen == IF PtrSel = "few" THEN {<<1, 2>>, <<0, 1>>}
          ELSE IF PtrSel = "some" THEN {<<0, 1>>, <<1, 2>>, <<2, 2>>, <<1, 3>>}
          ELSE {p \in (0..MaxLen) \X (1..MaxLen) : p[1] + p[2] <= MaxLen}
LowestDead(w) == \A x \in Slots : wr[x].st = "dead" => w <= x
Next ==
  \/ \E w \in {x \in Slots : Sym => LowestDead(x)}, k \in Kinds :
       \/ Construct(w, k, "default", 0, 0, 0)
       \/ Construct(w, k, "ptr", 0, 0, 0)
       \/ \E s \in Srcs : Construct(w, k, "src", s, 0, 0)
       \/ \E s \in Srcs, p \in OffLen : Construct(w, k, "ptr", s, p[1], p[2])
       \/ \E x \in Slots, p \in OffLen : Construct(w, k, "wptr", x, p[1], p[2])
       \/ \E n \in 0..MaxLen : Construct(w, k, "size", 0, 0, n)
       \/ \E x \in Slots : Construct(w, k, "copy", x, 0, 0)
       \/ \E x \in Slots : Construct(w, k, "fview", x, 0, 0)
       \/ \E x \in Slots, p \in OffLen : Construct(w, k, "fview", x, p[1], p[2])
  \/ \E w \in Slots :
       \/ \E s \in Srcs : Assign(w, "src", s)
       \/ \E x \in Slots : Assign(w, "copy", x)
       \/ Reset(w)
       \/ ResetPtr(w, "ptr", 0, 0, 0)
       \/ \E s \in Srcs, p \in OffLen : ResetPtr(w, "ptr", s, p[1], p[2])
       \/ \E x \in Slots, p \in OffLen : ResetPtr(w, "wptr", x, p[1], p[2])
       \/ \E n \in 0..(MaxLen + 1) : Resize(w, n)      \* one beyond the largest source: growth
       \/ \E i \in 0..(MaxLen - 1) : Write(w, i)
       \/ Destroy(w)
  \/ \E s \in Srcs :
       \/ \E n \in 0..MaxLen : SrcMake(s, n)
       \/ SrcMake(s, ArrLen)
       \/ \E i \in 0..(MaxLen - 1) : SrcWrite(s, i)
       \/ \E n \in 0..MaxLen : SrcResize(s, n)
       \/ SrcDestroy(s)

Spec == Init /\ [][Next]_vars

-------------------------------------------------------------------------------
\* What the property states, as invariants of the model.
TypeOK ==
  /\ \A w \in Slots : \/ wr[w] = DeadW
                      \/ /\ wr[w].st = "live" /\ wr[w].kind \in AllKinds /\ wr[w].len \in 0..(MaxLen + 1)
                         /\ wr[w].off \in 0..MaxLen
                         /\ IF wr[w].len = 0 THEN wr[w].buf = 0 /\ wr[w].off = 0 ELSE wr[w].buf \in Bufs
  /\ \A s \in Srcs : src[s] = DeadS \/ (src[s].st = "live" /\ src[s].buf \in Bufs /\ bufs[src[s].buf].live)
  /\ \A b \in Bufs : bufs[b].live \/ bufs[b] = Free

\* every wrapper that may be read designates len elements of a live block
InBounds == \A w \in Slots : Usable(wr, bufs, w) /\ wr[w].len > 0 =>
               bufs[wr[w].buf].live /\ wr[w].off + wr[w].len <= Len(bufs[wr[w].buf].cont)

\* only a non-owning view can be left dangling; owning arrays (and copies, and FixedArrayViews) stay valid
OwningNeverDangles == \A w \in Slots : Dangling(wr, bufs, w) => wr[w].kind = AV

\* an OwnedArray's block is nobody else's: no source, no other owning wrapper
OwnedExclusive == \A w \in Slots : wr[w].st = "live" /\ wr[w].kind = OA /\ wr[w].len > 0 =>
                     /\ \A s \in LiveS(src) : src[s].buf # wr[w].buf
                     /\ \A x \in LiveW(wr) \ {w} : wr[x].kind \in Owning /\ wr[x].len > 0 => wr[x].buf # wr[w].buf
                     /\ wr[w].off = 0 /\ wr[w].len = Len(bufs[wr[w].buf].cont)

\* the Fixed family never shares a block with a source or an OwnedArray
FixedIndependent == \A w \in Slots : wr[w].st = "live" /\ wr[w].kind \in Fixed /\ wr[w].len > 0 =>
                     \A s \in LiveS(src) : src[s].buf # wr[w].buf

\* a live block has an owner (a source or an owning wrapper): nothing leaks, and a usable
\* ArrayView therefore aliases storage of something that is alive
LiveBlocksOwned == \A b \in Bufs : bufs[b].live =>
                     \/ \E s \in LiveS(src) : src[s].buf = b
                     \/ \E w \in LiveW(wr) : wr[w].kind \in Owning /\ wr[w].len > 0 /\ wr[w].buf = b

LastAgrees == last.exp = Obs(wr, src, bufs)

\* Action properties: independence.  A step of a source never changes what an owning wrapper
\* holds; a step on wrapper slot t changes another owning wrapper only by a Write through a
\* wrapper that shares its block (a view onto it, or the Fixed family's shared block).
SrcActs == {"SrcMake", "SrcWrite", "SrcResize", "SrcDestroy"}
OwnersUntouchedBySources ==
  [][last'.a \in SrcActs =>
       \A w \in Slots : wr[w].st = "live" /\ wr[w].kind \in Owning =>
           wr'[w] = wr[w] /\ ContOf(wr', bufs', w) = ContOf(wr, bufs, w) /\ ~Dangling(wr', bufs', w)]_vars
OwnersUntouchedByOthers ==
  [][last'.a \notin SrcActs =>
       \A w \in Slots : wr[w].st = "live" /\ wr[w].kind \in Owning /\ w # last'.arg.w =>
           /\ ~Dangling(wr', bufs', w)
           /\ \/ ContOf(wr', bufs', w) = ContOf(wr, bufs, w)
              \/ last'.a = "Write" /\ wr[w].len > 0 /\ wr[last'.arg.w].buf = wr[w].buf
                 /\ (wr[w].kind = OA => wr[last'.arg.w].kind = AV)]_vars
===============================================================================
