INIT Init
NEXT Stop
CONSTANTS
  Syms = {"a", "b", "c"}
  MaxLen = 4
  MaxCnt = 3
  ReConstruct = FALSE
  Sizes = {85, 86, 128, 341, 342, 1365, 1366}
  BigSizes = {127, 128, 2047, 2048, 32767, 32768}
