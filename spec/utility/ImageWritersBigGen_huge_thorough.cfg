CONSTANTS
  Widths = {65535, 65536, 65537}
  Shorts = {1, 2}
  Part = "huge"
  SweepVals = {}
