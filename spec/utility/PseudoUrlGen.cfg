CONSTANTS
  MaxParams = 3
