---------------------------- MODULE ArrayWrappersLaws ----------------------------
(* Laws of the run-list content algebra of ArrayWrappers against plain         *)
(* sequences, checked by TLC as assumptions over every run list of up to three *)
(* runs drawn from a small alphabet (including pattern runs that wrap around   *)
(* the modulus), and - for the closed-form sum and the sampling - on lengths   *)
(* around 251, 256 and 65 536.  The wrapper model computes every expected      *)
(* content, sum and sample through these operators.                            *)
EXTENDS ArrayWrappers

RunAlphabet == {Run("c", v, 0, n) : v \in {0, 7, 255}, n \in 1..3}
          \cup {Run("p", b, o, n) : b \in {0, 10, 250}, o \in {0, 1, 249, 250}, n \in 2..3}
Lists == {<<>>} \cup {<<r>> : r \in RunAlphabet} \cup {<<r1, r2>> : r1, r2 \in RunAlphabet}
         \cup {<<r1, r2, r3>> : r1, r2 \in {Run("c", 7, 0, 1), Run("p", 250, 249, 2), Run("c", 7, 0, 2), Run("p", 0, 0, 3)}, r3 \in RunAlphabet}
Exp(c) == CExpand(c)
LOCAL SE == INSTANCE SequencesExt
SeqSum(e) == SE!FoldLeft(LAMBDA a, x : a + x, 0, e)

ASSUME LenLaw      == \A c \in Lists : Len(Exp(c)) = CLen(c)
ASSUME NormLaw     == \A c \in Lists : Exp(CNorm(c)) = Exp(c) /\ CNorm(CNorm(c)) = CNorm(c)
                                        /\ \A i \in 1..(Len(CNorm(c)) - 1) : ~Continues(CNorm(c)[i], CNorm(c)[i + 1])
ASSUME SumLaw      == \A c \in Lists : CSum(c) = SeqSum(Exp(c))
ASSUME SliceLaw    == \A c \in Lists : \A o \in 0..CLen(c), n \in 0..CLen(c) :
                         o + n <= CLen(c) => Exp(CSlice(c, o, n)) = SubSeq(Exp(c), o + 1, o + n)
ASSUME SetLaw      == \A c \in Lists : \A i \in 0..(CLen(c) - 1) : Exp(CSet(c, i, 99)) = [Exp(c) EXCEPT ![i + 1] = 99]
ASSUME ResizeLaw   == \A c \in Lists : \A n \in 0..(CLen(c) + 2) :
                         Exp(CResize(c, n, 98)) = IF n <= CLen(c) THEN SubSeq(Exp(c), 1, n)
                                                  ELSE Exp(c) \o [i \in 1..(n - CLen(c)) |-> 98]
ASSUME CatLaw      == \A c1, c2 \in {c \in Lists : Len(c) <= 1} : Exp(CCat(c1, c2)) = Exp(c1) \o Exp(c2)
ASSUME PatLaw      == \A b \in {0, 10, 60, 250}, o \in {1, 2, 250}, n \in 0..4 :
                         Exp(CPat(b, o, n)) = [i \in 1..n |-> (b + o + i - 1) % Modulus]
\* closed-form sum and sampled values on long runs
ASSUME LongSumLaw  == \A n \in {250, 251, 252, 255, 256, 257, 502, 503, 65535, 65536, 65537} :
                         \A b \in {10, 60} : CSum(CPat(b, 1, n)) = SeqSum(Exp(CPat(b, 1, n)))
ASSUME LongEditLaw == LET c == CResize(CSet(CSet(CPat(10, 1, 65537), 65536, 51), 255, 41), 65538, 71)
                          e == Exp(c) IN
                      /\ CLen(c) = 65538 /\ e[256] = 41 /\ e[65537] = 51 /\ e[65538] = 71 /\ e[1] = 11 /\ e[257] = (10 + 257) % Modulus
                      /\ CSum(c) = SeqSum(e)
                      /\ \A k \in 1..Len(SampPos(65538)) : CAt(c, SampPos(65538)[k]) = e[SampPos(65538)[k] + 1]
ASSUME SampLaw     == \A n \in {9, 255, 256, 257, 258, 65535, 65536, 65537, 65538} :
                         LET P == SampPos(n) IN
                         /\ \A k \in 1..(Len(P) - 1) : P[k] < P[k + 1]
                         /\ P[1] = 0 /\ P[Len(P)] = n - 1
                         /\ \A m \in Marks : m < n => \E k \in 1..Len(P) : P[k] = m
\* every probe index is out of range for every size of the model: r*size + c*2^p + d >= size because c = 1 and
\* d >= -1 whenever p > 0 (2^p - 1 >= 0), and d >= 0 when c = 0
ASSUME ProbeLaw    == \A k \in 1..Len(Probes) : LET q == Probes[k] IN
                         /\ q[1] \in {0, 1} /\ q[2] \in {0, 1} /\ q[3] \in 0..64 /\ q[4] \in {-1, 0, 1}
                         /\ (q[2] = 0 => q[1] = 1 /\ q[4] >= 0) /\ (q[2] = 1 => q[3] >= 31)
                         /\ (q[1] = 0 => q[3] >= 31)
\* (the module has the variables of ArrayWrappers: the .cfg names Spec and cuts the search at the initial state)
NoSearch == last.a # "Init"
===============================================================================
