CONSTANTS
  AllBytes = TRUE
