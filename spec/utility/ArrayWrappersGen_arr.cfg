SPECIFICATION SpecG
CONSTANTS
  NW = 2
  NV = 0
  NA = 1
  Kinds = {"ArrayView", "OwnedArray", "FixedArray"}
  Modes = {"src", "ptr", "copy"}
  Acts = {"Construct", "Assign", "Reset", "ResetPtr", "Resize", "Write", "Destroy", "SrcMake", "SrcWrite", "SrcResize", "SrcDestroy"}
  Sizes = {0, 1, 2, 3}
  MaxLen = 3
  ArrLen = 3
  PtrSel = "few"
  Palettes = {0}
  Sym = TRUE
  Excl = {}
  Variant = "contract"
  Prefix = "arr"
