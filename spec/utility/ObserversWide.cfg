SPECIFICATION Spec
CONSTANTS
  Sizes = {1, 2, 127, 128, 255, 256, 257, 4096, 65536}
  Shapes = {1, 2, 3}
  DeclMax = 300
INVARIANTS NothingDangles AgreesWithHistory
CHECK_DEADLOCK FALSE
