SPECIFICATION SpecG
CONSTANTS
  NW = 3
  NV = 2
  NA = 1
  Kinds = {"ArrayView", "OwnedArray", "FixedArray", "FixedArrayView"}
  Modes = {"default", "src", "ptr", "wptr", "size", "copy", "fview"}
  Acts = {"Construct", "Assign", "Reset", "ResetPtr", "Resize", "Write", "Destroy", "SrcMake", "SrcWrite", "SrcResize", "SrcDestroy"}
  MaxLen = 4
  ArrLen = 3
  PtrSel = "some"
  Sym = FALSE
  Excl = {}
  Variant = "contract"
  Prefix = "none"
