SPECIFICATION Spec
CONSTANTS
  Subjects = {1, 2}
  Watchers = {1, 2, 3}
  MaxG = 7
  Unregister = TRUE
  Orphan = TRUE
INVARIANTS NoDangling NoUseAfterFree StampsHandedOut
PROPERTY Refines
CONSTRAINT StampBound
CHECK_DEADLOCK FALSE
