SPECIFICATION TSpec
CONSTANTS
  NT = 3
  NU = 1
  NA = 2
  Throwing = TRUE
  WithMake = TRUE
  Vals = {1, 2, 3}
INVARIANTS WellFormed LastAgrees
POSTCONDITION Post
CHECK_DEADLOCK FALSE
