---------------------------- MODULE ObserversWide ----------------------------
(* Wide and bursty histories of the observer contract (property C19).  The    *)
(* statement quantifies over every history; an implementation that keeps the  *)
(* number of registered observers, the number of pending notifications or an  *)
(* index into its registration list in a narrow integer, or whose list        *)
(* handling is wrong only beyond some capacity, fails only when a COUNT hits  *)
(* 2^7, 2^8, 2^9, 2^10, 2^12 or 2^16.  So the counts below sit on, just below *)
(* and just above those boundaries:                                           *)
(*   n observers on one observable, n notifications between two polls,        *)
(*   n polls between two notifications, n short-lived observers coming and    *)
(*   going while others stay (registration churn).                            *)
(*                                                                            *)
(* The contract is the one of Observers.tla, written for many observers: an   *)
(* observer is an id, the state is kept as two functions over the id range (what *)
(* an id is attached to, whether it has something to report), and one step of a history is a MACRO       *)
(* action over a range of ids or a number of repetitions - TLC takes a dozen  *)
(* steps per history, the driver performs the thousands of real calls.        *)
(*   CreateRange(lo, hi, o)      observers lo..hi, in this order, on o        *)
(*   Notify(o), NotifyMany(o, k) k notifications in a row collapse into one   *)
(*   PollRange(lo, hi)           wasNotified() of lo..hi in order: the ids    *)
(*                               that reported TRUE, how many slots are empty *)
(*   PollMany(b, k)              k polls of b: how many TRUE (0 or 1), and    *)
(*                               whether the TRUE came first                  *)
(*   DestroySel(lo, hi, m, r)    the observers lo..hi with id % m = r, in     *)
(*                               ascending order (oldest first: not LIFO)     *)
(*   Churn(o, k)                 k times: create an observer on o, destroy it *)
(*   DestroyObservable(o), Teardown(order)                                    *)
(* Per-observer declarative reading (as in ObserversMC) is checked by TLC     *)
(* along every history for the sizes up to DeclMax; the set-level invariants  *)
(* for all sizes.  The finished history is written as one ndjson line.        *)
EXTENDS Integers, Sequences, FiniteSets, TLC, Json, IOUtils, SequencesExt

CONSTANTS Sizes,      \* the counts n to build histories for
          Shapes,     \* which scripts (1..3)
          DeclMax     \* largest n for which the per-observer declarative reading is evaluated

Subjects == {1, 2}
Dead == 0
Orphan == 3
VARIABLES oalive,     \* oalive[o]
          at,         \* at[i]: Dead, the observable (1, 2) the living observer i is attached to, or Orphan
          pend,       \* pend[i]: observer i has a notification to report
          last, hist, pc, cs
vars == <<oalive, at, pend, last, hist, pc, cs>>
\* (functions over the id range rather than sets of ids: TLC builds them in one linear pass)

Ids == 1..(2 * cs.n + 1)
AttachedTo(o) == {i \in Ids : at[i] = o}
Void == [ret |-> "void"]
E(a, arg) == [a |-> a, arg |-> arg]

\* ---- scripts ---------------------------------------------------------------
Script(n, k) ==
  CASE k = 1 ->   \* fan-out of exactly n; n notifications between polls; every other observer leaves, oldest first
    << E("CreateObservable", [o |-> 1]), E("CreateRange", [lo |-> 1, hi |-> n, o |-> 1]),
       E("PollRange", [lo |-> 1, hi |-> n]), E("Notify", [o |-> 1]), E("PollRange", [lo |-> 1, hi |-> n]), E("PollRange", [lo |-> 1, hi |-> n]),
       E("NotifyMany", [o |-> 1, k |-> n]), E("PollRange", [lo |-> 1, hi |-> n]), E("PollRange", [lo |-> 1, hi |-> n]),
       E("DestroySel", [lo |-> 1, hi |-> n, m |-> 2, r |-> 1]), E("Notify", [o |-> 1]), E("PollRange", [lo |-> 1, hi |-> n]),
       E("CreateRange", [lo |-> n + 1, hi |-> n + 1, o |-> 1]), E("Notify", [o |-> 1]), E("PollRange", [lo |-> 1, hi |-> n + 1]),
       E("DestroyObservable", [o |-> 1]), E("PollRange", [lo |-> 1, hi |-> n + 1]), E("Teardown", [order |-> "observers_first"]) >>
    [] k = 2 ->   \* the n-th observer arrives after a notification; churn of n; n polls; the n-1 oldest leave in creation order
    << E("CreateObservable", [o |-> 1]), E("CreateObservable", [o |-> 2]),
       E("CreateRange", [lo |-> 1, hi |-> n - 1, o |-> 1]), E("Notify", [o |-> 1]),
       E("CreateRange", [lo |-> n, hi |-> n, o |-> 1]), E("CreateRange", [lo |-> n + 1, hi |-> n + 1, o |-> 2]),
       E("PollRange", [lo |-> 1, hi |-> n + 1]),
       E("Churn", [o |-> 1, k |-> n]), E("Notify", [o |-> 2]), E("PollMany", [b |-> n + 1, k |-> n]), E("PollMany", [b |-> n, k |-> n]),
       E("Notify", [o |-> 1]), E("Churn", [o |-> 1, k |-> 3]),
       E("DestroySel", [lo |-> 1, hi |-> n - 1, m |-> 1, r |-> 0]), E("PollRange", [lo |-> 1, hi |-> n + 1]),
       E("Notify", [o |-> 1]), E("PollRange", [lo |-> 1, hi |-> n + 1]), E("Teardown", [order |-> "observables_first"]) >>
    [] k = 3 ->   \* n observers on each of two observables, interleaved ids; one observable goes while notifications are pending
    << E("CreateObservable", [o |-> 1]), E("CreateObservable", [o |-> 2]),
       E("CreateRange", [lo |-> 1, hi |-> n, o |-> 1]), E("CreateRange", [lo |-> n + 1, hi |-> 2 * n, o |-> 2]),
       E("NotifyMany", [o |-> 2, k |-> n + 1]), E("Notify", [o |-> 1]),
       E("DestroySel", [lo |-> 1, hi |-> 2 * n, m |-> 3, r |-> 0]),
       E("DestroyObservable", [o |-> 1]), E("PollRange", [lo |-> 1, hi |-> 2 * n]),
       E("CreateObservable", [o |-> 1]), E("CreateRange", [lo |-> 2 * n + 1, hi |-> 2 * n + 1, o |-> 1]), E("Notify", [o |-> 1]),
       E("PollRange", [lo |-> 1, hi |-> 2 * n + 1]), E("Teardown", [order |-> "observers_first"]) >>

Cases == {[n |-> n, shape |-> k] : n \in Sizes, k \in Shapes}
Cur == Script(cs.n, cs.shape)[pc]

\* ---- the macro actions -------------------------------------------------------
Hit(e, i) == i >= e.arg.lo /\ i <= e.arg.hi /\ i % e.arg.m = e.arg.r          \* DestroySel selects i
In(e, i) == i >= e.arg.lo /\ i <= e.arg.hi
Rec(e, cls, exp) == [a |-> e.a, arg |-> e.arg, cls |-> cls, exp |-> exp]
Observed(o) == \E i \in Ids : at[i] = o

Do(e) ==
  CASE e.a = "CreateObservable" ->
         /\ ~oalive[e.arg.o]
         /\ oalive' = [oalive EXCEPT ![e.arg.o] = TRUE] /\ UNCHANGED <<at, pend>>
         /\ last' = Rec(e, "", Void)
    [] e.a = "CreateRange" ->
         /\ oalive[e.arg.o] /\ \A i \in e.arg.lo..e.arg.hi : at[i] = Dead
         /\ at' = [i \in Ids |-> IF In(e, i) THEN e.arg.o ELSE at[i]] /\ UNCHANGED <<oalive, pend>>
         /\ last' = Rec(e, IF e.arg.hi < e.arg.lo THEN "none" ELSE IF Observed(e.arg.o) THEN "further" ELSE "first", Void)
    [] e.a \in {"Notify", "NotifyMany"} ->
         /\ oalive[e.arg.o] /\ (e.a = "NotifyMany" => e.arg.k >= 1)
         /\ pend' = [i \in Ids |-> pend[i] \/ at[i] = e.arg.o] /\ UNCHANGED <<oalive, at>>
         /\ last' = Rec(e, IF Observed(e.arg.o) THEN "observed" ELSE "unobserved", Void)
    [] e.a = "PollRange" ->
         LET T == {i \in e.arg.lo..e.arg.hi : pend[i]}
             L == {i \in e.arg.lo..e.arg.hi : at[i] # Dead} IN
         /\ pend' = [i \in Ids |-> pend[i] /\ ~In(e, i)] /\ UNCHANGED <<oalive, at>>
         /\ last' = Rec(e, IF T = {} THEN "none-notified" ELSE IF \A i \in L : pend[i] \/ at[i] = Orphan THEN "all-notified" ELSE "some-notified",
                        [trues |-> SetToSeq(T), empty |-> (e.arg.hi - e.arg.lo + 1) - Cardinality(L), polled |-> Cardinality(L)])
    [] e.a = "PollMany" ->
         /\ at[e.arg.b] # Dead /\ e.arg.k >= 1
         /\ pend' = [pend EXCEPT ![e.arg.b] = FALSE] /\ UNCHANGED <<oalive, at>>
         /\ last' = Rec(e, IF at[e.arg.b] = Orphan THEN "orphaned" ELSE IF pend[e.arg.b] THEN "notified" ELSE "not-notified",
                        [trues |-> IF pend[e.arg.b] THEN 1 ELSE 0, first |-> pend[e.arg.b]])
    [] e.a = "DestroySel" ->
         /\ at' = [i \in Ids |-> IF Hit(e, i) THEN Dead ELSE at[i]]
         /\ pend' = [i \in Ids |-> pend[i] /\ ~Hit(e, i)] /\ UNCHANGED oalive
         /\ last' = Rec(e, IF ~\E i \in e.arg.lo..e.arg.hi : Hit(e, i) /\ at[i] # Dead THEN "none"
                           ELSE IF \E i \in e.arg.lo..e.arg.hi : Hit(e, i) /\ at[i] \in Subjects THEN "attached" ELSE "orphaned", Void)
    [] e.a = "Churn" ->
         /\ oalive[e.arg.o] /\ e.arg.k >= 1
         /\ UNCHANGED <<oalive, at, pend>>
         /\ last' = Rec(e, IF Observed(e.arg.o) THEN "beside-others" ELSE "alone", Void)
    [] e.a = "DestroyObservable" ->
         /\ oalive[e.arg.o]
         /\ oalive' = [oalive EXCEPT ![e.arg.o] = FALSE]
         /\ at' = [i \in Ids |-> IF at[i] = e.arg.o THEN Orphan ELSE at[i]]
         /\ pend' = [i \in Ids |-> pend[i] /\ at[i] # e.arg.o]
         /\ last' = Rec(e, IF Observed(e.arg.o) THEN "observed" ELSE "unobserved", Void)
    [] e.a = "Teardown" ->
         /\ oalive' = [o \in Subjects |-> FALSE] /\ at' = [i \in Ids |-> Dead] /\ pend' = [i \in Ids |-> FALSE]
         /\ last' = Rec(e, IF \E i \in Ids : at[i] \in Subjects THEN "attached" ELSE "detached", Void)

Init ==
  /\ cs \in Cases
  /\ oalive = [o \in Subjects |-> FALSE] /\ at = [i \in Ids |-> Dead] /\ pend = [i \in Ids |-> FALSE]
  /\ last = [a |-> "Init", arg |-> <<>>, cls |-> "", exp |-> Void]
  /\ hist = <<>> /\ pc = 1

Emit == pc' > Len(Script(cs.n, cs.shape)) =>
          ndJsonSerialize(IOEnv.OUT \o "-" \o ToString(cs.n) \o "-" \o ToString(cs.shape),
                          <<[n |-> cs.n, shape |-> cs.shape, h |-> hist']>>)

Next ==
  /\ pc <= Len(Script(cs.n, cs.shape))
  /\ Do(Cur)
  /\ hist' = Append(hist, last')
  /\ pc' = pc + 1 /\ cs' = cs
  /\ Emit

Spec == Init /\ [][Next]_vars

\* ---- invariants ----------------------------------------------------------------
\* NothingDangles / OrphanSilent of Observers.tla for the id range
NothingDangles ==
  /\ \A i \in Ids : at[i] \in Subjects => oalive[at[i]]
  /\ \A i \in Ids : pend[i] => at[i] \in Subjects

\* per-observer declarative reading over the history of macro calls (ids up to DeclMax only)
Covers(x, i) ==            \* does the recorded call x create / poll / destroy observer i ?
  CASE x.a \in {"CreateRange", "PollRange"} -> i \in x.arg.lo..x.arg.hi
    [] x.a = "PollMany" -> i = x.arg.b
    [] x.a = "DestroySel" -> i >= x.arg.lo /\ i <= x.arg.hi /\ i % x.arg.m = x.arg.r
    [] OTHER -> FALSE
MaxOf(S) == CHOOSE x \in S : \A y \in S : y <= x
Born(i) == MaxOf({j \in DOMAIN hist : hist[j].a = "CreateRange" /\ Covers(hist[j], i)})
Target(i) == hist[Born(i)].arg.o
Created(i) == \E j \in DOMAIN hist : hist[j].a = "CreateRange" /\ Covers(hist[j], i)
Gone(i) == \E j \in DOMAIN hist : j > Born(i) /\ (hist[j].a = "Teardown" \/ (hist[j].a = "DestroySel" /\ Covers(hist[j], i)))
Orphaned(i) == \E j \in DOMAIN hist : j > Born(i) /\ (hist[j].a = "Teardown" \/ (hist[j].a = "DestroyObservable" /\ hist[j].arg.o = Target(i)))
Since(i) == LET P == {j \in DOMAIN hist : j > Born(i) /\ hist[j].a \in {"PollRange", "PollMany"} /\ Covers(hist[j], i)}
            IN IF P = {} THEN Born(i) ELSE MaxOf(P)
ShouldReport(i) == /\ Created(i) /\ ~Gone(i) /\ ~Orphaned(i)
                   /\ \E j \in DOMAIN hist : j > Since(i) /\ hist[j].a \in {"Notify", "NotifyMany"} /\ hist[j].arg.o = Target(i)
AgreesWithHistory ==
  cs.n <= DeclMax =>
    \A i \in Ids : /\ (at[i] # Dead) = (Created(i) /\ ~Gone(i))
                   /\ pend[i] = ShouldReport(i)
===============================================================================
