SPECIFICATION SpecCore
CONSTANTS
  NT = 0
  NU = 0
  NA = 2
  Throwing = TRUE
  WithMake = TRUE
  Vals = {1, 2}
INVARIANTS TypeOK WellFormed LastAgrees
PROPERTIES RefProtocolLegal Independence CopiesEqualSource NothingGivenByThrow
