SPECIFICATION SpecH
CONSTANTS
  Subjects = {1, 2}
  Watchers = {1, 2}
  Workers = {1, 2}
  PreCounts = {0, 1}
  DrawCounts = {1}
  K = 4
INVARIANTS NeverCrossThread
CONSTRAINT HistBound
CHECK_DEADLOCK FALSE
