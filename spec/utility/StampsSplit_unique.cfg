SPECIFICATION Spec
CONSTANTS
  Threads = {1, 2}
  MaxOps = 2
  Atomic = FALSE
INVARIANTS TypeOK Unique
CHECK_DEADLOCK FALSE
