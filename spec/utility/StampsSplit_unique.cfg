SPECIFICATION Spec
CONSTANTS
  Threads = {1, 2}
  MaxOps = 2
  Atomic = FALSE
  Block = 1
INVARIANTS TypeOK Unique
CHECK_DEADLOCK FALSE
