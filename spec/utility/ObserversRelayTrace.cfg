SPECIFICATION RSpec
CONSTANTS
  Subjects = {1, 2, 3}
  Watchers = {1, 2, 3, 4, 5, 6}
  Workers = {1, 2, 3}
  MaxDraw = 1000
INVARIANTS NothingDangles OrphanSilent
POSTCONDITION Post
CHECK_DEADLOCK FALSE
