SPECIFICATION TSpec
POSTCONDITION Post
CHECK_DEADLOCK FALSE
