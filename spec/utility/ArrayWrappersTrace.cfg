SPECIFICATION TSpec
CONSTANTS
  NW = 3
  NV = 2
  NA = 2
  Kinds = {"ArrayView", "OwnedArray", "FixedArray", "FixedArrayView"}
  Modes = {"default", "src", "ptr", "wptr", "size", "copy", "move", "fview"}
  Acts = {"Construct", "Assign", "Reset", "ResetPtr", "Resize", "Write", "Destroy", "SrcMake", "SrcWrite", "SrcResize", "SrcDestroy", "SelfAssign", "SelfPtr", "SelfVal", "EdgeEmpty"}
  Sizes = {0, 1, 2, 3, 4}
  MaxLen = 4
  ArrLen = 3
  PtrSel = "all"
  Palettes = {0}
  Sym = FALSE
  Excl = {}
  Variant = "contract"
INVARIANTS InBounds OwningNeverDangles OwnedExclusive FixedIndependent LiveBlocksOwned LastAgrees
POSTCONDITION Post
CHECK_DEADLOCK FALSE
