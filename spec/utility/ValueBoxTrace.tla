----------------------------- MODULE ValueBoxTrace -----------------------------
(* Trace specification: is a recorded execution of real Optional / Any objects *)
(* a behaviour of ValueBox?  Each recorded line {a, arg, obs} must be the next *)
(* action of the specification with those arguments; every observable the      *)
(* specification computes for that step must be contained in what was observed *)
(* (fields the specification leaves out - a moved-from wrapper, the result of  *)
(* comparing an empty wrapper - are unconstrained); and, for the lifetime-     *)
(* instrumented payload (TRACKED = 1), the payload lifetime events the real    *)
(* code produced during the step must be Legal from the storage ghost of the   *)
(* current state and end in the storage ghost of the next state: construction  *)
(* only on raw storage, destruction / assignment / read only on live storage.  *)
(* Executions are separated by {"a":"Reset"} lines.                            *)
EXTENDS ValueBox, Json, IOUtils, TLCExt

VARIABLE l
tvars == <<st, last, l>>

TraceLines == ndJsonDeserialize(IOEnv.TRACE)
NLines == Len(TraceLines)
Line == TraceLines[l]
A == Line.arg
TrackedRun == IOEnv.TRACKED = "1"

\* the instrumentation-only fields of the specification's observables
LifeOnly == IF TrackedRun THEN {} ELSE {"live", "life", "hl"}

SubRec(e, o) == \A f \in (DOMAIN e) \ LifeOnly : f \in DOMAIN o /\ o[f] = e[f]

\* events on storage outside the Optional slots (temporaries, Any's heap cell) carry the registry's
\* verdict "an object was live at this address"; events inside a slot are judged against the ghost
EventsLegal(o) ==
  LET evs == o.ev
      inSlots == SelectSeq(evs, LAMBDA x : x.w \in OSlots)
  IN /\ \A i \in DOMAIN evs : evs[i].w = 0 => ((evs[i].k = "ctor") <=> ~evs[i].live)
     /\ Legal(Store(st), inSlots, Store(st'))

ObsMatches ==
  LET e == last'.exp
      o == Line.obs
  IN /\ o.done = e.done
     /\ "ret" \in DOMAIN e => "ret" \in DOMAIN o /\ o.ret = e.ret
     /\ "dst" \in DOMAIN e => "dst" \in DOMAIN o /\ SubRec(e.dst, o.dst)
     /\ "src" \in DOMAIN e => "src" \in DOMAIN o /\ SubRec(e.src, o.src)
     /\ Len(o.world) = N /\ \A w \in Slots : SubRec(e.world[w], o.world[w])
     /\ TrackedRun => SubRec(e.life, o.life) /\ EventsLegal(o)

TInit == Init /\ l = 1

Dispatch ==
  \/ Line.a = "DefaultCtor" /\ DefaultCtor(A.d)
  \/ Line.a = "ValueCtor" /\ ValueCtor(A.d, A.v, A.t)
  \/ Line.a = "MakeOptional" /\ MakeOptional(A.d, A.v, A.t)
  \/ Line.a = "Poison" /\ Poison(A.d)
  \/ Line.a = "AnyPoison" /\ AnyPoison(A.d)
  \/ Line.a = "CopyCtor" /\ CopyCtor(A.d, A.s)
  \/ Line.a = "MoveCtor" /\ MoveCtor(A.d, A.s)
  \/ Line.a = "ConvCopyCtor" /\ ConvCopyCtor(A.d, A.s)
  \/ Line.a = "ConvMoveCtor" /\ ConvMoveCtor(A.d, A.s)
  \/ Line.a = "AssignValue" /\ AssignValue(A.d, A.v, A.t)
  \/ Line.a = "CopyAssign" /\ CopyAssign(A.d, A.s)
  \/ Line.a = "MoveAssign" /\ MoveAssign(A.d, A.s)
  \/ Line.a = "ConvCopyAssign" /\ ConvCopyAssign(A.d, A.s)
  \/ Line.a = "ConvMoveAssign" /\ ConvMoveAssign(A.d, A.s)
  \/ Line.a = "Emplace" /\ Emplace(A.d, A.v, A.t)
  \/ Line.a = "ResetValue" /\ ResetValue(A.d)
  \/ Line.a = "Destroy" /\ Destroy(A.d)
  \/ Line.a = "Mutate" /\ Mutate(A.d, A.v)
  \/ Line.a = "ValueOr" /\ ValueOr(A.d, A.v)
  \/ Line.a = "Observe" /\ Observe(A.d)
  \/ Line.a = "Compare" /\ Compare(A.a, A.b)
  \/ Line.a = "Layout" /\ Layout
  \/ Line.a = "PackedUse" /\ PackedUse(A.v)
  \/ Line.a = "AnyDefaultCtor" /\ AnyDefaultCtor(A.d)
  \/ Line.a = "AnyValueCtor" /\ AnyValueCtor(A.d, A.ty, A.v, A.t)
  \/ Line.a = "AnyCopyCtor" /\ AnyCopyCtor(A.d, A.s)
  \/ Line.a = "AnyMoveCtor" /\ AnyMoveCtor(A.d, A.s)
  \/ Line.a = "AnyAssignValue" /\ AnyAssignValue(A.d, A.ty, A.v, A.t)
  \/ Line.a = "AnyCopyAssign" /\ AnyCopyAssign(A.d, A.s)
  \/ Line.a = "AnyMoveAssign" /\ AnyMoveAssign(A.d, A.s)
  \/ Line.a = "AnyDestroy" /\ AnyDestroy(A.d)
  \/ Line.a = "AnyGet" /\ AnyGet(A.d, A.ty)
  \/ Line.a = "AnySet" /\ AnySet(A.d, A.ty, A.v)
  \/ Line.a = "AnyObserve" /\ AnyObserve(A.d)
  \/ Line.a = "AnyEquals" /\ AnyEquals(A.a, A.b)
  \/ Line.a = "AnyToString" /\ AnyToString(A.d)
  \/ Line.a = "Teardown" /\ Teardown

InitLast == [a |-> "Init", arg |-> <<>>, cls |-> "", ev |-> <<>>, exp |-> Base([w \in Slots |-> None])]

TStep  == l <= NLines /\ Line.a # "Reset" /\ Dispatch /\ ObsMatches /\ l' = l + 1
TReset == l <= NLines /\ Line.a = "Reset" /\ st' = [w \in Slots |-> None] /\ last' = InitLast /\ l' = l + 1
TNext  == TStep \/ TReset
TSpec  == TInit /\ [][TNext]_tvars

\* acceptance: the search reached the end of the trace (one state per line + the initial one)
Accepted == TLCGet("stats").diameter - 1 = NLines
Post == IF Accepted THEN TRUE
        ELSE /\ PrintT(<<"TRACE-REJECTED-AT-LINE", TLCGet("stats").diameter, "OF", NLines>>)
             /\ FALSE
===============================================================================
