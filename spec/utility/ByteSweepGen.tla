----------------------------- MODULE ByteSweepGen -----------------------------
(* Every byte value at the FIRST and LAST position of every field (property   *)
(* C18, boundary audit): NUL, control characters, bytes >= 0x80 (negative as  *)
(* signed char), punctuation - in tokens, common prefixes, path components,   *)
(* names, extensions, URL types / file names / parameter names / values.      *)
(*                                                                            *)
(* The specification is indifferent to which character a non-structural       *)
(* character is, so the cases are written with the placeholder "X"; a case    *)
(* carries the byte value b it is to be run with, the driver substitutes X    *)
(* by that byte on the way in and back on the way out (an injective renaming, *)
(* b ranges over all byte values that are not otherwise used by the case).    *)
EXTENDS FileNames, PseudoUrl, TLC, Json, IOUtils, SequencesExt

CONSTANT AllBytes      \* TRUE: every byte value; FALSE: the boundaries of every class (quick tier)
Bytes == IF AllBytes THEN 0..255
         ELSE (0..47) \cup {57, 58, 59, 60, 61, 62, 63, 64, 90, 91, 92, 93, 96, 123, 126, 127, 128, 129, 159, 160, 191, 192, 223, 224, 254, 255}
Code(c) == CASE c = "a" -> 97 [] c = "b" -> 98 [] c = "c" -> 99 [] c = "d" -> 100 [] c = "f" -> 102 [] c = "n" -> 110 [] c = "t" -> 116
             [] c = "v" -> 118 [] c = "z" -> 122 [] c = "X" -> 88 [] c = "," -> 44 [] c = ";" -> 59 [] c = ":" -> 58 [] c = "=" -> 61
             [] c = "/" -> 47 [] c = "." -> 46 [] c = "\\" -> 92
Codes(S) == {Code(c) : c \in S}
ByteCls(b) == IF b = 0 THEN "byte=nul" ELSE IF b < 32 \/ b = 127 THEN "byte=ctl" ELSE IF b >= 128 THEN "byte=high" ELSE "byte=ascii"

\* the placeholder is an ordinary character for the specification
SplitT(d) == {<<"X", "a", d, "b", "X">>, <<"X", d, "X">>, <<"a", "X", d, "X", "b", d, "X">>, <<"X">>, <<d, "X", d>>, <<"X", "X", d, d, "X">>}
SplitExp(s, D) == [tokens |-> JoinAll(MaxRuns(s, D)), tokens_joined |-> Join(NonDelim(s, D))]
SplitCases(op, ds) ==
  LET D == {ds[i] : i \in DOMAIN ds} IN
  {[a |-> op, arg |-> [s |-> Join(s), d |-> Join(ds), byte |-> b], cls |-> ByteCls(b), exp |-> SplitExp(s, D)]
     : s \in UNION {SplitT(d) : d \in D}, b \in Bytes \ Codes({"a", "b", "X"} \cup D)}

PrefixT == {<<<<"X", "a", "X">>, <<"X", "a", "b">>>>, <<<<"a", "X">>, <<"a", "X", "X">>>>, <<<<"X">>, <<"X">>>>, <<<<"X", "a">>, <<"a", "X">>>>,
            <<<<"a", "X", "b">>, <<"a", "X">>>>}
PrefixCases ==
  {[a |-> "Lcp", arg |-> [x |-> Join(p[1]), y |-> Join(p[2]), byte |-> b], cls |-> ByteCls(b), exp |-> [lcp |-> Join(LCP(p[1], p[2]))]]
     : p \in PrefixT, b \in Bytes \ Codes({"a", "b", "X"})}
  \cup
  {[a |-> "BeginsWith", arg |-> [x |-> Join(p[1]), y |-> Join(p[2]), byte |-> b], cls |-> ByteCls(b), exp |-> [ret |-> IsPrefixOf(p[2], p[1])]]
     : p \in PrefixT, b \in Bytes \ Codes({"a", "b", "X"})}

\* file names: X first and last in a directory, in the name and in the extension
FileT == {<<"X", "a", "X", SEP, "X", "b", "X", DOT, "X", "c", "X">>, <<"X", SEP, "X", DOT, "X">>, <<"a", "X", DOT, "X", "a", SEP, "X", "b">>,
          <<"X">>, <<"X", "b", DOT, "c", "X">>}
FileBytes == Bytes \ Codes({"a", "b", "c", "d", "X", SEP, DOT, "\\"})       \* '\' is turned into the separator by the constructor
J(s) == Join(s)
FileCases ==
  UNION {
    LET X == <<DOT, "d", "X">>
        G == <<"X", "b", DOT, "X">>
        r == JoinNames(f, G)
    IN {[a |-> "FnSplit", arg |-> [s |-> J(f), byte |-> b], cls |-> ByteCls(b),
         \* (with a NUL byte the const char* constructor and c_str() see a shorter C string: not compared)
         exp |-> (IF b = 0 THEN <<>> ELSE [str_c |-> J(f), cstr |-> J(f)]) @@ [str |-> J(f), conv |-> J(f), path |-> J(PathOf(f)), base |-> J(BaseOf(f))]],
        [a |-> "FnNameExt", arg |-> [s |-> J(f), byte |-> b], cls |-> ByteCls(b), exp |-> [name |-> J(NameOf(f)), ext |-> J(ExtOf(f))]],
        [a |-> "FnDropExt", arg |-> [s |-> J(f), byte |-> b], cls |-> ByteCls(b), exp |-> [res |-> J(DropExt(f))]],
        [a |-> "FnSetExt", arg |-> [s |-> J(f), x |-> J(X), byte |-> b], cls |-> ByteCls(b), exp |-> [res |-> J(SetExt(f, X))]],
        [a |-> "FnAddExt", arg |-> [s |-> J(f), x |-> J(X), byte |-> b], cls |-> ByteCls(b), exp |-> [res |-> J(AddExt(f, X))]],
        [a |-> "FnPlus", arg |-> [s |-> J(f), o |-> J(G), byte |-> b], cls |-> ByteCls(b),
         exp |-> [res_fn |-> J(r), res_str |-> J(r), path |-> J(PathOf(r)), base |-> J(BaseOf(r))]],
        [a |-> "FnRecompose", arg |-> [s |-> J(f), byte |-> b], cls |-> ByteCls(b), exp |-> [res_fn |-> J(f), res_str |-> J(f)]]}
    : f \in FileT, b \in FileBytes}

\* pseudo URLs: X first and last in the type, the file name, a parameter name and a value
UrlBytes == Bytes \ Codes({"t", "f", "n", "v", "z", "X", ":", "="})
UType == <<"X", "t", "X">>
UFile == <<"X", "f", "X">>
UParams == <<<<<<"X", "n", "X">>, <<"X", "v", "X">>>>, <<<<"n">>, <<"X">>>>, <<<<"X", "n", "X">>, <<"v", "X">>>>>>
UQuery == <<<<"z", "z">>, <<"X", "n", "X">>, <<"n">>, <<"X">>, <<"z", "z">>>>
ASSUME UrlOk == RoundTrip(UType, UFile, UParams)
UAnswer(n) == [n |-> Join(n), has |-> HasName(UParams, n), throws |-> ~HasName(UParams, n),
               val |-> IF HasName(UParams, n) THEN Join(LastValue(UParams, n)) ELSE ""]
UrlCases ==
  {[a |-> "UrlParse", arg |-> [u |-> Join(Assemble(UType, UFile, UParams)), q |-> JoinAll(UQuery), byte |-> b], cls |-> ByteCls(b),
    exp |-> [type |-> Join(UType), fileName |-> Join(UFile), params |-> [i \in DOMAIN UQuery |-> UAnswer(UQuery[i])]]] : b \in UrlBytes}

Cases == SplitCases("SplitChar", <<",">>) \cup SplitCases("Tokenize", <<":">>) \cup SplitCases("SplitSet", <<",", ";">>)
         \cup PrefixCases \cup FileCases \cup UrlCases

\* vacuity: NUL, control, high and ASCII bytes all occur
ASSUME \A c \in {"byte=nul", "byte=ctl", "byte=high", "byte=ascii"} : \E x \in Cases : x.cls = c

ASSUME Emit == ndJsonSerialize(IOEnv.OUT, SetToSeq(Cases))
===============================================================================
