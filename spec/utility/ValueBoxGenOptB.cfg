SPECIFICATION SpecCore
CONSTANTS
  NT = 2
  NU = 1
  NA = 0
  Vals = {1, 2}
INVARIANTS TypeOK WellFormed LastAgrees
PROPERTIES RefProtocolLegal Independence CopiesEqualSource
