CONSTANTS
  Widths = {1023, 1024, 1025, 2047, 2048, 2049, 2600, 4097}
  Shorts = {1, 2, 3}
  Part = "wide"
  SweepVals = {}
