SPECIFICATION Spec
