---------------------------- MODULE AsyncLoopTSO ----------------------------
(* The stop() / loop-body handshake of rkcommon/tasking/AsyncLoop.h under an    *)
(* x86-TSO memory model (per-thread FIFO store buffers, loads see the own       *)
(* buffer first).  AsyncLoop.tla assumes sequentially consistent atomics; this  *)
(* module shows what that assumption carries: the handshake is Dekker-shaped    *)
(*                                                                              *)
(*     loop thread                      stop()                                  *)
(*       insideLoopBody := TRUE           shouldBeRunning := FALSE              *)
(*       if shouldBeRunning: body         spin until ~insideLoopBody; return    *)
(*                                                                              *)
(* and is only correct if neither store can still sit in a store buffer when    *)
(* the following load is performed.  The header's std::atomic assignments are   *)
(* seq_cst stores (xchg on x86: the buffer is drained before the instruction    *)
(* completes).  SC_L / SC_S = FALSE model memory_order_release (or relaxed)     *)
(* stores at the loop side / the stop side: a plain mov that enters the buffer  *)
(* and is flushed at some later time.  TLC must verify NoBodyAfterStop for      *)
(* SC_L = SC_S = TRUE and refute it when either is FALSE (negative controls).   *)
(*                                                                              *)
(* This is why the C03 check also runs a free-running stress plan on a build    *)
(* WITHOUT hook points: the callbacks of the hook points are full fences, so no *)
(* execution of the instrumented build can show a store-buffer reordering.      *)
EXTENDS Naturals, Sequences, TLC
CONSTANTS SC_L,      \* loop thread's stores to insideLoopBody are seq_cst
          SC_S,      \* stop()'s store to shouldBeRunning is seq_cst
          RECHECK,   \* the loop re-reads shouldBeRunning after publishing insideLoopBody
          MaxIter    \* loop iterations explored

Thr == {"L", "S"}
VARIABLES mem,       \* [var -> BOOLEAN] : shared memory
          buf,       \* [Thr -> Seq(<<var, val>>)] : store buffers
          pcL, pcS,  \* program counters
          r,         \* loop thread's register (value of the last load of shouldBeRunning)
          iter,      \* iterations started
          stopped,   \* stop() has returned
          late       \* a body began after stop() had returned
vars == <<mem, buf, pcL, pcS, r, iter, stopped, late>>

Load(t, v) ==
  LET idx == {i \in 1..Len(buf[t]) : buf[t][i][1] = v}
  IN  IF idx = {} THEN mem[v] ELSE buf[t][CHOOSE i \in idx : \A j \in idx : j <= i][2]

\* a store: seq_cst = drain the own buffer, then write memory (one atomic step, like xchg);
\* otherwise the store enters the buffer
Store(t, v, val, sc) ==
  IF sc THEN /\ mem' = [x \in DOMAIN mem |->
                          IF x = v THEN val
                          ELSE LET idx == {i \in 1..Len(buf[t]) : buf[t][i][1] = x}
                               IN IF idx = {} THEN mem[x] ELSE buf[t][CHOOSE i \in idx : \A j \in idx : j <= i][2]]
             /\ buf' = [buf EXCEPT ![t] = <<>>]
        ELSE /\ buf' = [buf EXCEPT ![t] = Append(@, <<v, val>>)]
             /\ mem' = mem

Flush(t) == /\ buf[t] # <<>>
            /\ mem' = [mem EXCEPT ![buf[t][1][1]] = buf[t][1][2]]
            /\ buf' = [buf EXCEPT ![t] = Tail(@)]
            /\ UNCHANGED <<pcL, pcS, r, iter, stopped, late>>

Init == /\ mem = [shouldBeRunning |-> TRUE, insideLoopBody |-> FALSE]   \* the loop is running
        /\ buf = [t \in Thr |-> <<>>]
        /\ pcL = "L_chk" /\ pcS = "S_clr" /\ r = FALSE /\ iter = 0 /\ stopped = FALSE /\ late = FALSE

\* ---- loop thread (labels = hook points of the header)
L_chk == /\ pcL = "L_chk" /\ iter < MaxIter
         /\ IF Load("L", "shouldBeRunning") THEN pcL' = "L_pub" /\ iter' = iter + 1
                                            ELSE pcL' = "L_idle" /\ iter' = iter
         /\ UNCHANGED <<mem, buf, pcS, r, stopped, late>>
L_pub == /\ pcL = "L_pub"
         /\ Store("L", "insideLoopBody", TRUE, SC_L)
         /\ pcL' = "L_re"
         /\ UNCHANGED <<pcS, r, iter, stopped, late>>
L_re  == /\ pcL = "L_re"
         /\ r' = (IF RECHECK THEN Load("L", "shouldBeRunning") ELSE TRUE)
         /\ pcL' = (IF r' THEN "L_body" ELSE "L_clr")
         /\ late' = (late \/ (r' /\ stopped))
         /\ UNCHANGED <<mem, buf, pcS, iter, stopped>>
L_body == /\ pcL = "L_body"
          /\ pcL' = "L_clr"
          /\ UNCHANGED <<mem, buf, pcS, r, iter, stopped, late>>
L_clr == /\ pcL = "L_clr"
         /\ Store("L", "insideLoopBody", FALSE, SC_L)
         /\ pcL' = "L_chk"
         /\ UNCHANGED <<pcS, r, iter, stopped, late>>

\* ---- stop()
S_clr  == /\ pcS = "S_clr"
          /\ Store("S", "shouldBeRunning", FALSE, SC_S)
          /\ pcS' = "S_spin"
          /\ UNCHANGED <<pcL, r, iter, stopped, late>>
S_spin == /\ pcS = "S_spin"
          /\ ~Load("S", "insideLoopBody")
          /\ pcS' = "S_ret" /\ stopped' = TRUE
          /\ UNCHANGED <<mem, buf, pcL, r, iter, late>>

Next == L_chk \/ L_pub \/ L_re \/ L_body \/ L_clr \/ S_clr \/ S_spin \/ Flush("L") \/ Flush("S")
Spec == Init /\ [][Next]_vars /\ WF_vars(Next)

TypeOK == /\ mem \in [{"shouldBeRunning", "insideLoopBody"} -> BOOLEAN]
          /\ pcL \in {"L_chk", "L_pub", "L_re", "L_body", "L_clr", "L_idle"}
          /\ pcS \in {"S_clr", "S_spin", "S_ret"}
\* the first clause of C03: no body begins, and none is still executing, once stop() has returned
NoBodyAfterStop == ~late /\ ~(stopped /\ pcL = "L_body")
\* the buffers drain, so stop() returns and the loop goes idle
StopReturns == <>(pcS = "S_ret")
=============================================================================
