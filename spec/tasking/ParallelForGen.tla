---------------------------- MODULE ParallelForGen ----------------------------
(* Scenario space for the parallel-loop contract (the quantifier of C01):       *)
(* all accepted index types with task counts that are negative, 0, 1, fewer     *)
(* than / equal to / far more than the thread count T, non-multiples of the     *)
(* block size, the maximum of the small index types; flat and nested calls;     *)
(* uniform and index-dependent body cost; the calling thread's task queue       *)
(* pre-filled.  Emitted as ndjson for the recorder; the verdict on each         *)
(* recorded execution is TLC's (ParallelForTrace).                              *)
EXTENDS Integers, Sequences, FiniteSets, TLC, Json, IOUtils, SequencesExt

T == 4
NoNest == [api |-> "none", n |-> 0, B |-> 0]
Sc(api, type, n, B, nest, cost, prefill) ==
  [api |-> api, type |-> type, n |-> n, B |-> B, nest |-> nest, cost |-> cost, prefill |-> prefill, pre |-> "none"]

SignedNs   == {-3, -1, 0, 1, 2, T - 1, T, T + 1, 2 * T + 1, 63, 64, 65, 255, 256, 257, 1000, 32767, 65535, 65536, 65537}
UnsignedNs == {0, 1, 2, T, 2 * T + 1, 64, 255, 256, 257, 1000, 65535, 65536, 65537}
TypeNs ==
  [u8 |-> {0, 1, 2, 7, 255}, i16 |-> {-3, -1, 0, 1, 2, 17, 32767}, i32 |-> SignedNs, u32 |-> UnsignedNs,
   i64 |-> {-1, 0, 1, T + 1, 1000}, ll |-> {-1, 0, 3, 1000}, ull |-> {0, 3, 1000}, sz |-> {0, 1, T + 1, 1000, 32767}]
Types == DOMAIN TypeNs
Wide == {"i32", "u32", "i64", "ll", "ull", "sz"}

Flat ==
  {Sc("for", t, n, 1, NoNest, c, 0) : t \in Types, n \in UNION {TypeNs[tt] : tt \in Types}, c \in {"none", "skew"}}
Flat2 == {s \in Flat : s.n \in TypeNs[s.type]}
Foreach == {Sc(a, "sz", n, 1, NoNest, "none", 0) : a \in {"foreach", "foreach_it"}, n \in {0, 1, 2, T + 1, 64, 1000}}
Blocks ==
  {Sc("blocks", t, n, B, NoNest, c, 0) : t \in Wide, n \in {-3, 0, 1, 2, 3, 4, 15, 16, 17, 47, 48, 49, 1000}, B \in {1, 3, 16}, c \in {"none", "skew"}}
Blocks2 == {s \in Blocks : s.n >= 0 \/ s.type \in {"i32", "i64", "ll"}}
Nested ==
  {Sc(a, "i32", n, B, [api |-> ia, n |-> in, B |-> 3], c, 0) :
     a \in {"for", "blocks"}, n \in {1, 2, T + 1, 17}, B \in {3}, ia \in {"for", "blocks", "foreach"}, in \in {0, 1, 3, 17, 100}, c \in {"none", "skew"}}
Prefilled ==
  {Sc(a, "i32", n, 3, NoNest, "none", pf) : a \in {"for", "blocks"}, n \in {1, 5, 7, 64, 300}, pf \in {200, 300, 600}}

\* history: an earlier, unrelated loop of the same process failed (its body threw and the caller caught the exception) or
\* was cancelled; the loop under observation must be unaffected.  Only the back ends that let an exception leave a loop
\* take these (the checker selects them); the failed loop itself is history, not an observed call.
AfterFailure ==
  {[s EXCEPT !.pre = p] : s \in {x \in Flat2 \cup Foreach \cup Blocks2 \cup Nested : x.type \in {"i32", "sz"} /\ x.n \in {1, 5, 17, 64, 1000} /\ x.cost = "none"},
                          p \in {"throw", "cancel"}}

Scenarios == Flat2 \cup Foreach \cup Blocks2 \cup Nested \cup Prefilled \cup AfterFailure

ASSUME PrintT(<<"SCENARIOS", Cardinality(Scenarios)>>)
ASSUME ndJsonSerialize(IOEnv.OUT, SetToSeq(Scenarios))

VARIABLE x
Init == x = 0
Next == x' = x
Spec == Init /\ [][Next]_x
===============================================================================
