----------------------------- MODULE TaskingInitMC -----------------------------
(* Model-checking instance of TaskingInit.                                      *)
(*                                                                             *)
(* 1. Loops are unfolded into single body entries and exits (BeginLoop, Enter, *)
(*    Exit, EndLoop) with a counter `inside` of the threads that are inside    *)
(*    bodies right now and a monitor `over` that latches when, at some moment, *)
(*    more threads are inside than the count in force.  TLC checks that the    *)
(*    summary rule of the contract (LoopOK over the recorded order of entries  *)
(*    and exits - the rule recorded executions of the real code are validated  *)
(*    with) rejects exactly the loops in which such a moment exists.           *)
(* 2. The history of initialisation arguments is kept and the state of the     *)
(*    contract is compared with the declarative reading of the statement       *)
(*    ("the latest positive argument is in force, a non-positive one selects   *)
(*    the default, before any initialisation nothing is configured").          *)
(* 3. Laws of the allowed observations: the reported count is unique whenever  *)
(*    a positive count is in force, it is never exceeded by an allowed loop,   *)
(*    the serial backend allows one thread, before initialisation the only     *)
(*    allowed answer is 0, with the default every allowed answer is positive.  *)
EXTENDS TaskingInit, FiniteSets, IOUtils

CONSTANTS K,        \* bound on the number of completed actions (Init / Query / Loop)
          MaxBodies \* bound on body entries per unfolded loop

VARIABLES inits,    \* arguments of the initialisations so far
          phase,    \* "idle" | "loop"
          inside,   \* threads inside bodies now
          seen,     \* largest value `inside` had in the current loop
          run,      \* entries (+1) and exits (-1) of the current loop, in order
          over,     \* at some moment of the current loop: a positive count in force and more threads inside
          who,      \* <<from, shape>> of the current loop
          steps
varsMC == <<inited, limit, reinit, last, inits, phase, inside, seen, run, over, who, steps>>

Base == <<inited, limit, reinit>>
Idle == phase = "idle" /\ steps < K

InitMC == /\ Init /\ inits = <<>> /\ phase = "idle" /\ inside = 0 /\ seen = 0 /\ run = <<>>
          /\ over = FALSE /\ who = <<"init-thread", "flat">> /\ steps = 0

DoInit(n) == /\ Idle /\ InitSys(n) /\ inits' = Append(inits, n) /\ steps' = steps + 1
             /\ UNCHANGED <<phase, inside, seen, run, over, who>>
\* a burst of re-initialisations is one macro step of the contract; the history records its single arguments
DoBurst(b) == /\ Idle /\ InitBurst(b) /\ inits' = inits \o [i \in 1..b.cnt |-> BurstArg(b, i)] /\ steps' = steps + 1
              /\ UNCHANGED <<phase, inside, seen, run, over, who>>
DoQuery(f, r) == /\ Idle /\ Query(f, r) /\ steps' = steps + 1
                 /\ UNCHANGED <<inits, phase, inside, seen, run, over, who>>
BeginLoop(f, s) == /\ Idle /\ phase' = "loop" /\ inside' = 0 /\ seen' = 0 /\ run' = <<>> /\ over' = FALSE /\ who' = <<f, s>>
                   /\ UNCHANGED <<inited, limit, reinit, last, inits, steps>>
Enter == /\ phase = "loop" /\ Len(SelectSeq(run, LAMBDA x : x = 1)) < MaxBodies
         /\ inside' = inside + 1
         /\ seen' = IF inside + 1 > seen THEN inside + 1 ELSE seen
         /\ run' = Append(run, 1)
         /\ over' = (over \/ (limit > 0 /\ inside + 1 > Cap(limit)))
         /\ UNCHANGED <<inited, limit, reinit, last, inits, phase, who, steps>>
Exit  == /\ phase = "loop" /\ inside > 0
         /\ inside' = inside - 1 /\ run' = Append(run, -1)
         /\ UNCHANGED <<inited, limit, reinit, last, inits, phase, seen, over, who, steps>>
\* the loop returns when every body has returned; the contract accepts it (takes its Loop step) or not
EndLoop == /\ phase = "loop" /\ inside = 0
           /\ phase' = "idle" /\ steps' = steps + 1
           /\ IF LoopOK(run) THEN Loop(who[1], who[2], run)
                             ELSE UNCHANGED <<inited, limit, reinit, last>>
           /\ UNCHANGED <<inits, inside, seen, run, over, who>>

NextMC == \/ \E n \in Ns : DoInit(n)
          \/ \E b \in BurstOpts : DoBurst(b)
          \/ \E f \in Froms, r \in RSet : DoQuery(f, r)
          \/ \E f \in Froms, s \in Shapes : BeginLoop(f, s)
          \/ Enter \/ Exit \/ EndLoop
SpecMC == InitMC /\ [][NextMC]_varsMC

-------------------------------------------------------------------------------
\* 1. summary rule = moment-by-moment rule
SummaryIsMomentary == (phase = "loop") => /\ Peak(run) = seen
                                          /\ Scan(run)[1] = inside
                                          /\ Scan(run)[3] = 0
                                          /\ (over <=> ~LoopOK(run))
ReturnedLoopsWellFormed == (phase = "loop" /\ inside = 0) => WellFormed(run)

AtRest == phase = "idle"      \* laws that do not mention the unfolded loop are evaluated between actions only
\* laws that depend on <<inited, limit, reinit>> only: every value of the triple occurs right after an initialisation
LawPoint == AtRest /\ last.a \in {"Start", "Init", "InitBurst"}

\* 2. declarative reading of the statement over the history of initialisations
LastInit == inits[Len(inits)]
Declarative == /\ inited <=> (inits # <<>>)
               /\ limit = (IF inits # <<>> /\ LastInit > 0 THEN LastInit ELSE 0)
               /\ reinit <=> (Len(inits) >= 2)

\* 2b. the macro actions are what they abbreviate
MCBursts == {[cnt |-> c, n |-> n, cyc |-> y] : c \in 1..5, n \in {-1, 0, 2}, y \in {<<1, 2, 3>>, <<3>>, <<0, 4>>}}
MCBurstOpts == {[cnt |-> 2, n |-> 0, cyc |-> <<1, 2, 3>>], [cnt |-> 4, n |-> 2, cyc |-> <<1, 2, 3>>]}
RECURSIVE Iterate(_, _, _)
Iterate(st, b, i) == IF i > b.cnt THEN st ELSE Iterate(AfterInit(st, BurstArg(b, i)), b, i + 1)
BurstIsIteration == LawPoint => \A b \in MCBursts : BurstEffect(<<inited, limit, reinit>>, b) = Iterate(<<inited, limit, reinit>>, b, 1)
\* the recording of several loops in a row (each ending with nobody inside) is judged like its parts
ConcatLaw == LawPoint => \A d1, d2 \in DSet : (WellFormed(d1) /\ WellFormed(d2)) =>
                          /\ WellFormed(d1 \o d2)
                          /\ Peak(d1 \o d2) = Max2(Peak(d1), Peak(d2))
                          /\ (LoopOK(d1 \o d2) <=> (LoopOK(d1) /\ LoopOK(d2)))
\* size classes are ordered around the count in force and narrow index types cap the task count
SizeLaws == LawPoint => /\ SizeK("zero") = 0 /\ SizeK("one") = 1
                      /\ SizeK("below") < SizeK("equal") /\ SizeK("equal") = LoopBase /\ SizeK("above") = LoopBase + 1
                      /\ SizeK("x4") >= 4 * LoopBase /\ SizeK("x4p1") = SizeK("x4") + 1
                      /\ (limit > 0 => SizeK("above") > Cap(limit))
                      /\ WithK([size |-> "b1025", api |-> "for:u8"]).k = 255 /\ WithK([size |-> "b1025", api |-> "for:int"]).k = 1025

\* 3. laws of the allowed observations
Allowed == {r \in RSet : QueryOK(r)}
ReportedLaws == AtRest =>
  /\ (inits = <<>>) => Allowed = {0}                                      \* before initialisation: 0
  /\ (inits # <<>> /\ LastInit > 0) =>                                     \* latest positive argument is reported ...
        Allowed = {IF Serial THEN 1 ELSE LastInit}                         \* ... (1 under the serial backend), also after re-initialisation
  /\ (inits # <<>> /\ LastInit <= 0) => (Allowed # {} /\ \A r \in Allowed : r >= 1)   \* default: positive
NeverExceeded ==
  (LawPoint /\ inits # <<>> /\ LastInit > 0) =>
     \A d \in DSet : (WellFormed(d) /\ LoopOK(d)) => \A r \in Allowed : Peak(d) <= r /\ Peak(d) <= LastInit
SerialIsOne == (LawPoint /\ Serial /\ limit > 0) => \A d \in DSet : (WellFormed(d) /\ LoopOK(d)) => Peak(d) <= 1
\* where nothing is stated nothing is demanded: every well-formed loop is allowed while no positive count is in force
OpenWhereUnstated == (LawPoint /\ limit = 0) => \A d \in DSet : WellFormed(d) => LoopOK(d)
\* and the rule is monotone: a loop with a smaller peak than an allowed one is allowed
Monotone == LawPoint => \A d1, d2 \in DSet : (LoopOK(d1) /\ Peak(d2) <= Peak(d1)) => LoopOK(d2)

\* bounded instance (the backend kind comes from the environment so that one cfg serves the four backends)
MCBackend == IF "BACKEND" \in DOMAIN IOEnv THEN IOEnv.BACKEND ELSE "TBB"
MCNs   == {0, 1, 2, 3}
MCRSet == 0..4
MCDSet == {<<>>, <<1, -1>>, <<1, 1, -1, -1>>, <<1, -1, 1, -1>>, <<1, 1, 1, -1, -1, -1>>, <<1, 1, -1, 1, -1, -1>>,
           <<1, 1, 1, 1, -1, -1, -1, -1>>, <<-1, 1>>, <<1>>, <<1, 2, -3>>}
===============================================================================
