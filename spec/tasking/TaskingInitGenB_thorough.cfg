SPECIFICATION Spec
CONSTANTS
  Backend <- GenBackend
  Ns = {}
  Froms <- BFroms
  Shapes = {}
  RSet <- BRSet
  DSet <- BDSet
  HW <- GenHW
  InitOpts <- BInitOpts
  BurstOpts <- BBurstOptsTh
  LoopOpts <- BLoopOptsTh
  LBurstOpts <- BLBurstOptsTh
  PairOpts <- BPairOpts
INVARIANTS TypeOK
