SPECIFICATION Spec
CONSTANTS SC_L = TRUE
          SC_S = TRUE
          RECHECK = TRUE
          MaxIter = 3
INVARIANTS TypeOK NoBodyAfterStop
PROPERTY StopReturns
