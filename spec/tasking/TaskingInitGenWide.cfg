SPECIFICATION Spec
CONSTANTS
  Backend <- GenBackend
  Ns <- GenNsWide
  Froms = {"init-thread", "second-thread"}
  Shapes = {"flat", "nested"}
  RSet <- GenRSetWide
  DSet <- GenDSet
  HW <- GenHW
  InitOpts = {}
  BurstOpts = {}
  LoopOpts = {}
  LBurstOpts = {}
  PairOpts = {}
INVARIANTS TypeOK
