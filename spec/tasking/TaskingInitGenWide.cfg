SPECIFICATION Spec
CONSTANTS
  Backend <- GenBackend
  Ns <- GenNsWide
  Froms = {"init-thread", "second-thread"}
  Shapes = {"flat", "nested"}
  RSet <- GenRSetWide
  DSet <- GenDSet
INVARIANTS TypeOK
