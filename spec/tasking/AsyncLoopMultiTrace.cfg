SPECIFICATION TSpec
CONSTANTS
  N = 2
POSTCONDITION Post
CHECK_DEADLOCK FALSE
