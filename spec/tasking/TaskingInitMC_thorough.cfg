SPECIFICATION SpecMC
CONSTANTS
  Backend <- MCBackend
  Ns <- MCNs
  Froms = {"init-thread", "second-thread"}
  Shapes = {"flat", "nested"}
  RSet <- MCRSet
  DSet <- MCDSet
  K = 4
  MaxBodies = 3
INVARIANTS TypeOK SummaryIsMomentary ReturnedLoopsWellFormed Declarative ReportedLaws NeverExceeded SerialIsOne OpenWhereUnstated Monotone
CHECK_DEADLOCK FALSE
