SPECIFICATION SpecMC
CONSTANTS
  Backend <- MCBackend
  Ns <- MCNs
  Froms = {"init-thread", "second-thread"}
  Shapes = {"flat", "nested"}
  RSet <- MCRSet
  DSet <- MCDSet
  HW = 4
  InitOpts = {}
  BurstOpts <- MCBurstOpts
  LoopOpts = {}
  LBurstOpts = {}
  PairOpts = {}
  K = 4
  MaxBodies = 3
INVARIANTS TypeOK SummaryIsMomentary ReturnedLoopsWellFormed Declarative ReportedLaws NeverExceeded SerialIsOne OpenWhereUnstated Monotone BurstIsIteration ConcatLaw SizeLaws
CHECK_DEADLOCK FALSE
