--------------------------- MODULE ParallelForTrace ---------------------------
(* Trace validation for the parallel-loop contract: events recorded from real  *)
(* executions (ordered by stamps from one atomic counter; body invocations by  *)
(* the worker threads themselves, call and return by the calling thread).      *)
(* Executions are separated by Reset lines.  An "Abort" line (the driver gave   *)
(* up: a body invocation for a count <= 0, a time-out) is not an event of the   *)
(* contract and is therefore rejected.                                          *)
EXTENDS ParallelFor, Json, IOUtils, TLC

VARIABLE l
TraceLines == ndJsonDeserialize(IOEnv.TRACE)
N == Len(TraceLines)
Line == TraceLines[l]

TInit == Init /\ l = 1
Dispatch ==
  \/ Line.ev = "Call"      /\ Call(Line.c, Line.n, Line.B, Line.blocks, Line.parent)
  \/ Line.ev = "ExecBegin" /\ ExecBegin(Line.c, Line.b, Line.e)
  \/ Line.ev = "ExecEnd"   /\ ExecEnd(Line.c, Line.b, Line.e)
  \/ Line.ev = "Return"    /\ Return(Line.c, Line.cells)
  \/ Line.ev = "Reset"     /\ calls' = <<>>
TNext == l <= N /\ Dispatch /\ l' = l + 1
TSpec == TInit /\ [][TNext]_<<vars, l>>

Accepted == TLCGet("stats").diameter - 1 = N
Post == IF Accepted THEN TRUE
        ELSE PrintT(<<"TRACE-REJECTED-AT-LINE", TLCGet("stats").diameter, "OF", N>>) /\ FALSE
===============================================================================
