------------------------- MODULE AsyncLoopMultiTrace -------------------------
(* Is the sequence of contract events recorded from a real execution with N    *)
(* AsyncLoop instances (ordered by stamps of one counter taken under one mutex;*)
(* BodyEnter / BodyExit are stamped inside the body) a behaviour of            *)
(* AsyncLoopMultiContract?  Every event carries its instance i and the calling *)
(* thread c (0 = harness thread, j = the loop thread of j inside the body of   *)
(* j).  Executions are introduced by a Begin line with the launch methods.     *)
(* HoldTimeout / ProbeTimeout / Hang are no actions of the contract.           *)
EXTENDS AsyncLoopMultiContract, Json, IOUtils, TLC, Sequences

VARIABLE l
TraceLines == ndJsonDeserialize(IOEnv.TRACE)
NL == Len(TraceLines)
Line == TraceLines[l]

TInit == l = 1 /\ MInit(AllI("THREAD"))

Begin == /\ Line.e = "Begin"
         /\ method' = [i \in Inst |-> Line.methods[i]]
         /\ q' = AllI(TRUE) /\ b' = AllI(FALSE) /\ d' = AllI(FALSE) /\ started' = AllI(FALSE)
         /\ entered' = AllI(FALSE) /\ fresh' = AllI(FALSE) /\ busy' = [c \in Threads |-> NoCall]

Dispatch ==
  \/ Begin
  \/ Line.e = "StartCall" /\ StartCall(Line.i, Line.c)
  \/ Line.e = "StartRet"  /\ StartRet(Line.i, Line.c)
  \/ Line.e = "StopCall"  /\ StopCall(Line.i, Line.c)
  \/ Line.e = "StopRet"   /\ StopRet(Line.i, Line.c)
  \/ Line.e = "DtorCall"  /\ DtorCall(Line.i)
  \/ Line.e = "DtorRet"   /\ DtorRet(Line.i)
  \/ Line.e = "BodyEnter" /\ BodyEnter(Line.i)
  \/ Line.e = "BodyExit"  /\ BodyExit(Line.i)
  \/ Line.e = "HoldOk"    /\ HoldOk(Line.i)
  \/ Line.e = "ProbeCall" /\ ProbeCall(Line.i)
  \/ Line.e = "ProbeOk"   /\ ProbeOk(Line.i)

TNext == l <= NL /\ Dispatch /\ l' = l + 1
TSpec == TInit /\ [][TNext]_<<mvars, l>>

Accepted == TLCGet("stats").diameter - 1 = NL
Post == IF Accepted THEN TRUE
        ELSE PrintT(<<"TRACE-REJECTED-AT-LINE", TLCGet("stats").diameter, "OF", NL>>) /\ FALSE
===============================================================================
