-------------------------- MODULE AsyncLoopContract --------------------------
(* Contract of rkcommon::tasking::AsyncLoop - exactly what property C03 says,  *)
(* over the events a user can observe: the calls and returns of start(),       *)
(* stop() and the destructor on the controlling thread, and entry / exit of    *)
(* the loop body.                                                              *)
(*                                                                             *)
(*  - After stop() returns the body is not executing and does not begin        *)
(*    executing again until start() is next called (initially: never started). *)
(*  - After start() returns the body is executed again (Settle = the harness   *)
(*    waiting for that entry; a wait that gives up is not a behaviour).        *)
(*  - When the loop owns its thread (THREAD launch), no body invocation is     *)
(*    running or begins after the destructor returned.                         *)
(* The mechanism specification AsyncLoop refines this module; traces recorded  *)
(* from the real code are validated against it (AsyncLoopContractTrace).       *)
VARIABLES method,     \* "THREAD" | "TASK"
          q,          \* quiesced: stop() returned / never started, and start() not called since
          b,          \* the body is executing
          d,          \* the destructor has returned
          started,    \* start() returned and neither stop() nor the destructor was called since
          entered     \* the body was entered since the last call of start()
cvars == <<method, q, b, d, started, entered>>

CInit(m) == method = m /\ q = TRUE /\ b = FALSE /\ d = FALSE /\ started = FALSE /\ entered = FALSE

StartCall == /\ ~d
             /\ q' = FALSE /\ entered' = FALSE /\ started' = FALSE
             /\ UNCHANGED <<method, b, d>>
StartRet  == started' = TRUE /\ UNCHANGED <<method, q, b, d, entered>>
StopCall  == started' = FALSE /\ UNCHANGED <<method, q, b, d, entered>>
StopRet   == /\ ~b                                   \* the body is not executing when stop() returns
             /\ q' = TRUE /\ UNCHANGED <<method, b, d, started, entered>>
DtorCall  == started' = FALSE /\ UNCHANGED <<method, q, b, d, entered>>
DtorRet   == /\ method = "THREAD" => ~b              \* owned thread: nothing is running afterwards
             /\ d' = TRUE /\ UNCHANGED <<method, q, b, started, entered>>
BodyEnter == /\ ~q                                   \* never while stopped
             /\ ~b                                   \* one loop thread: invocations do not overlap
             /\ ~(d /\ method = "THREAD")            \* never after destruction of an owned thread
             /\ b' = TRUE /\ entered' = TRUE /\ UNCHANGED <<method, q, d, started>>
BodyExit  == /\ b
             /\ b' = FALSE /\ UNCHANGED <<method, q, d, started, entered>>
SettleOk  == /\ entered \/ ~started                  \* the entry the harness waited for did happen
             /\ UNCHANGED cvars

CNext == StartCall \/ StartRet \/ StopCall \/ StopRet \/ DtorCall \/ DtorRet \/ BodyEnter \/ BodyExit \/ SettleOk
===============================================================================
