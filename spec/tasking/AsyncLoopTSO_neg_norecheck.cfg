SPECIFICATION Spec
CONSTANTS SC_L = TRUE
          SC_S = TRUE
          RECHECK = FALSE
          MaxIter = 3
INVARIANTS TypeOK NoBodyAfterStop
PROPERTY StopReturns
