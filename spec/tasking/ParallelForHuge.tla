--------------------------- MODULE ParallelForHuge ---------------------------
(* MACRO form of the parallel-loop contract (property C01) for task counts     *)
(* around 2^31 and 2^32, where a count held in an int / unsigned somewhere in   *)
(* the wrappers around parallel_for goes negative or is cut to N mod 2^32.      *)
(* Such loops cannot be recorded (or enumerated by TLC) index by index, so one  *)
(* whole loop is ONE macro step whose observable result is the SUMMARY a caller *)
(* can measure after the call returned:                                         *)
(*                                                                              *)
(*   once     indices of [0,N) the function was invoked for exactly once        *)
(*   never    indices of [0,N) it was never invoked for                         *)
(*   multi    indices of [0,N) it was invoked for more than once                *)
(*   outside  indices outside [0,N) it was invoked for                          *)
(*   min, max smallest / largest index it was invoked for (None: no index)      *)
(*   oversize block invocations [b,e) with e - b > BLOCK  (parallel_in_blocks_of)*)
(*   empty    block invocations with b >= e                                     *)
(*                                                                              *)
(* The statement of C01 ("exactly once for every index in [0,n) and for nothing *)
(* else ... blocks no larger than the block size ... all effects visible when   *)
(* the call returns") fixes the summary completely: Summary(N).  That Summary   *)
(* is what the per-index contract ParallelFor.tla implies is model-checked on   *)
(* a bounded instance by ParallelForHugeMC (invariant MacroAgrees).             *)
(*                                                                              *)
(* TLC integers are 32-bit: every count / index is a pair of limbs              *)
(* <<hi, lo>> = hi * 2^16 + lo with 0 <= lo < 2^16 (hi up to 2^16 + 1 here).    *)
EXTENDS Integers, Sequences, FiniteSets, TLC

Base == 65536
Lim(hi, lo) == <<hi + (lo \div Base), lo % Base>>      \* normalise (lo may be negative or >= Base)
OfInt(k)    == Lim(0, k)                                \* an ordinary TLC integer k >= 0
Plus(v, k)  == Lim(v[1], v[2] + k)                      \* v + k for a small integer k (k < 0 allowed)
Less(a, b)  == a[1] < b[1] \/ (a[1] = b[1] /\ a[2] < b[2])
Zero  == <<0, 0>>
None  == <<-1, 0>>                                      \* "no index"
Two31 == <<32768, 0>>
Two32 == <<65536, 0>>

\* laws of the limb arithmetic
ASSUME \A k \in {0, 1, 65535, 65536, 65537, 1000000, 2147483647} : OfInt(k)[1] * Base + OfInt(k)[2] = k /\ OfInt(k)[2] \in 0..(Base - 1)
ASSUME Plus(Two31, -1) = <<32767, 65535>> /\ Plus(Two31, -1) = OfInt(2147483647) /\ Plus(Two32, -1) = <<65535, 65535>>
ASSUME \A v \in {Two31, Two32, Zero, OfInt(65535)}, k \in {1, 5, 7, 65535, 65536} : Plus(Plus(v, k), -k) = v /\ Less(v, Plus(v, k))

----------------------------------------------------------------------------
\* the contract, macro form: the summary of a loop over N indices (N >= 0 in limbs; a count <= 0 is N = Zero)
Summary(N) ==
  [once |-> N, never |-> Zero, multi |-> Zero, outside |-> Zero,
   min |-> IF N = Zero THEN None ELSE Zero, max |-> IF N = Zero THEN None ELSE Plus(N, -1),
   oversize |-> Zero, empty |-> Zero]
\* control (no loop is called at all; checks that the measuring side can tell "never" from "once")
NoLoop(N) ==
  [once |-> Zero, never |-> N, multi |-> Zero, outside |-> Zero, min |-> None, max |-> None, oversize |-> Zero, empty |-> Zero]
Fields == <<"once", "never", "multi", "outside", "min", "max", "oversize", "empty">>
Expected(api, N) == IF api = "none" THEN NoLoop(N) ELSE Summary(N)

----------------------------------------------------------------------------
\* scenario space: the boundaries of the 32-bit types, from both sides
HugeNs  == {Plus(Two31, -1), Two31, Plus(Two31, 7), Plus(Two32, -1), Two32, Plus(Two32, 5)}
SmallNs == {Zero, OfInt(1), OfInt(1000), OfInt(65537)}
TypeMax == [i32 |-> Plus(Two31, -1), u32 |-> Plus(Two32, -1), i64 |-> <<2147483647, 0>>, ll |-> <<2147483647, 0>>,
            ull |-> <<2147483647, 0>>, sz |-> <<2147483647, 0>>]       \* 64-bit types: anything representable here
Fits(t, N) == ~Less(TypeMax[t], N)
SizeClass(N) == IF Less(N, Two31) THEN (IF Less(N, OfInt(100000)) THEN "small" ELSE "n=2^31-1")
                ELSE IF Less(N, Two32) THEN "2^31<=n<2^32" ELSE "n>=2^32"

\* plan: "quick" = run in both tiers (TBB); "wide" = thorough tier, every backend that can run it in bounded time;
\*       "tbb" = thorough tier, TBB only.  (Which backends: the checker's plan; the verdict never depends on it.)
Sc(api, t, N, B, plan) ==
  [mode |-> "huge", api |-> api, type |-> t, N |-> N, B |-> B, G |-> 64, plan |-> plan, cls |-> SizeClass(N), exp |-> Expected(api, N)]

Quick ==
  {Sc("foreach_it", "sz", Two31, 1, "quick"), Sc("foreach", "sz", Plus(Two32, 5), 1, "quick"),
   Sc("for", "sz", Plus(Two32, 5), 1, "quick"), Sc("for", "i64", Two31, 1, "quick"),
   Sc("for", "i32", Plus(Two31, -1), 1, "quick"),
   Sc("blocks", "sz", Plus(Two32, 5), 1, "quick"),
   \* the maximum of the 32-bit index types: neither nTasks + BLOCK - 1 nor begin + BLOCK may be formed in the index type
   Sc("blocks", "u32", Plus(Two32, -1), 65536, "quick"), Sc("blocks", "i32", Plus(Two31, -1), 65536, "quick"),
   Sc("none", "sz", Plus(Two31, 7), 1, "quick")}
   \cup {Sc(a, "sz", N, 1, "quick") : a \in {"for", "foreach", "foreach_it", "blocks"}, N \in {Zero, OfInt(1000)}}
Wide ==
  {Sc("for", t, N, 1, "wide") : t \in {"sz", "i64"}, N \in {Two31, Plus(Two32, 5)}}
   \cup {Sc("for", "u32", Plus(Two32, -1), 1, "wide"), Sc("for", "i32", Plus(Two31, -1), 1, "wide")}
   \cup {Sc("foreach_it", "sz", N, 1, "wide") : N \in {Two31, Plus(Two32, 5)}}
   \cup {Sc("foreach", "sz", Plus(Two31, 7), 1, "wide"), Sc("blocks", "sz", Plus(Two32, 5), 65536, "wide"), Sc("blocks", "sz", Plus(Two31, 7), 3, "wide")}
Tbb ==
  {Sc("for", t, N, 1, "tbb") : t \in {"sz", "i64"}, N \in HugeNs}
   \cup {Sc("for", t, N, 1, "tbb") : t \in {"ll", "ull"}, N \in {Two31, Plus(Two32, 5)}}
   \cup {Sc("for", "u32", N, 1, "tbb") : N \in {n \in HugeNs : Fits("u32", n)}}
   \cup {Sc(a, "sz", N, 1, "tbb") : a \in {"foreach", "foreach_it"}, N \in HugeNs}
   \cup {Sc("blocks", "sz", N, B, "tbb") : N \in HugeNs, B \in {1, 65536}}
   \cup {Sc("blocks", "i64", N, B, "tbb") : N \in {Two31, Plus(Two32, 5)}, B \in {1, 65536}}
   \cup {Sc("blocks", "sz", Plus(Two32, 5), 3, "tbb")}
   \cup {Sc("blocks", t, TypeMax[t], B, "tbb") : t \in {"i32", "u32"}, B \in {1, 3}}
   \cup {Sc("blocks", "u32", Plus(Two32, -65535), 65536, "tbb"), Sc("blocks", "u32", Plus(Two32, -65536), 65536, "tbb"),
         Sc("blocks", "i32", Plus(Two31, -65535), 65536, "tbb"), Sc("blocks", "i32", Plus(Two31, -65536), 65536, "tbb")}
\* one record per (api, type, N, B): the most widely run plan wins
Key(s) == <<s.api, s.type, s.N, s.B>>
Scenarios == Quick \cup {s \in Wide : \A q \in Quick : Key(q) # Key(s)}
                   \cup {s \in Tbb : \A q \in Quick \cup Wide : Key(q) # Key(s)}

\* laws of the scenario space: every count fits its index type; every listed boundary is met by every API family;
\* the quick plan meets both boundaries through parallel_foreach (the container overload is built on the iterator
\* one) and through a 64-bit parallel_for, and every API with at least one count >= 2^31
ASSUME \A s \in Scenarios : Fits(s.type, s.N) /\ s.B \in {1, 3, 65536}
ASSUME \A N \in HugeNs : \A a \in {"for", "foreach", "foreach_it", "blocks"} : \E s \in Scenarios : s.api = a /\ s.N = N
ASSUME \A fam \in {{"for"}, {"foreach", "foreach_it"}} : \A c \in {"2^31<=n<2^32", "n>=2^32"} : \E s \in Quick : s.api \in fam /\ s.cls = c
ASSUME \A a \in {"for", "foreach", "foreach_it", "blocks"} : \E s \in Quick : s.api = a /\ ~Less(s.N, Two31)
ASSUME \E s \in Scenarios : s.api = "for" /\ s.type = "i32" /\ s.N = Plus(Two31, -1)
ASSUME \A t \in {"i32", "u32"} : \E s \in Quick : s.api = "blocks" /\ s.type = t /\ s.N = TypeMax[t] /\ s.B > 1
ASSUME \A s \in Scenarios : s.api # "none" => (s.exp.once = s.N /\ s.exp.never = Zero)
===============================================================================
