SPECIFICATION Spec
CONSTANTS SC_L = FALSE
          SC_S = TRUE
          RECHECK = TRUE
          MaxIter = 3
INVARIANTS TypeOK NoBodyAfterStop
PROPERTY StopReturns
