SPECIFICATION Spec
CONSTANTS
  MaxCalls = 2
  MaxN = 3
INVARIANTS DoneDisjoint ReturnedComplete
CHECK_DEADLOCK FALSE
