------------------------------ MODULE TaskingInit ------------------------------
(* Contract of rkcommon's tasking-system initialisation (property C13):        *)
(*                                                                             *)
(*   initTaskingSystem(n)      Init(n)                                         *)
(*   numTaskingThreads() -> r  Query(from, r)                                  *)
(*   parallel_for(k, body)     Loop(from, shape, d)                            *)
(*                                                                             *)
(* "After initTaskingSystem(n) with n > 0, numTaskingThreads() returns n (1    *)
(* under the serial debug backend, which has no threads) and parallel_for      *)
(* never runs its body on more than that many threads at the same time, under  *)
(* every backend.  Before initialisation numTaskingThreads() is 0; a first     *)
(* initialisation with n <= 0 selects a positive hardware-derived default;     *)
(* initialising again with another n > 0 replaces the previous setting."       *)
(*                                                                             *)
(* State: `inited` (has initTaskingSystem been called in this process) and     *)
(* `limit` (the configured count in force; 0 = none stated: never initialised, *)
(* or the latest initialisation asked for the default).  What a loop did is    *)
(* summarised by `d`, the sequence of body entries (+1) and body exits (-1) in *)
(* the order in which they happened: its largest prefix sum Peak(d) is the     *)
(* largest number of threads that were inside bodies at the same time.         *)
(* TaskingInitMC checks that this summary rule is the same as "at no moment    *)
(* more than the limit inside".                                                *)
(*                                                                             *)
(* Left open on purpose (the statement does not say): the value of the default *)
(* (only r >= 1), the concurrency of loops while no positive count is in       *)
(* force, what Init(n <= 0) after a positive initialisation selects (r >= 1),  *)
(* how many distinct threads run bodies over time, how many bodies a loop has. *)
(*                                                                             *)
(* The ghost variable `last` records the action just taken, its arguments, the *)
(* class of the situation (for finding signatures) and the observables the     *)
(* contract determines EXACTLY after it (exp.r); observables that are only     *)
(* bounded (exp.r_ge, exp.peak_le) are shown for the reader of a replay        *)
(* artefact and are enforced by TLC through the actions' enabling conditions   *)
(* (trace validation), never by the orchestrator.                              *)
EXTENDS Integers, Sequences, TLC

CONSTANTS Backend,    \* "TBB" | "OpenMP" | "Internal" | "Debug"
          Ns,         \* arguments of initTaskingSystem that are explored
          Froms,      \* issuing thread: "init-thread" (the one that initialised) | "second-thread"
          Shapes,     \* "flat" | "nested"
          RSet,       \* query results tried where the contract leaves them open (bounded instances)
          DSet,       \* loop summaries tried (bounded instances)
          HW,         \* hardware threads of the machine (sizes loops while no positive count is in force)
          InitOpts,   \* boundary instances: Init arguments as records [n, from, fz]
          BurstOpts,  \*   bursts of re-initialisations [cnt, n, cyc]
          LoopOpts,   \*   loop variants [from, shape, size, api]
          LBurstOpts, \*   bursts of loops [from, cnt]
          PairOpts    \*   two simultaneous loops [from, shape, size, api]

VARIABLES inited, limit, reinit, last
vars == <<inited, limit, reinit, last>>

Serial == Backend = "Debug"
Cap(n) == IF Serial THEN 1 ELSE n          \* the serial backend has no threads: one

-------------------------------------------------------------------------------
\* Loop summaries.  A stretch of the recording is summarised by <<sum, largest prefix sum, smallest prefix sum>> (the
\* empty prefix counts: largest >= 0 >= smallest); two adjacent stretches combine associatively, so the recording is
\* evaluated by halving (recursion depth log2 of its length; recorded loops have thousands of entries).
Max2(a, b) == IF a >= b THEN a ELSE b
Min2(a, b) == IF a <= b THEN a ELSE b
RECURSIVE Seg(_, _, _)
Seg(d, lo, hi) ==
  IF lo > hi THEN <<0, 0, 0>>
  ELSE IF lo = hi THEN <<d[lo], Max2(d[lo], 0), Min2(d[lo], 0)>>
  ELSE LET mid == (lo + hi) \div 2
           A == Seg(d, lo, mid)
           B == Seg(d, mid + 1, hi)
       IN <<A[1] + B[1], Max2(A[2], A[1] + B[2]), Min2(A[3], A[1] + B[3])>>
Scan(d)  == Seg(d, 1, Len(d))               \* <<inside at the end, largest, smallest number inside>>
Peak(d)  == Scan(d)[2]
\* a recording is well formed when it is made of +1 / -1, nobody leaves who has not entered and everybody has left at the end
\* (written as a set equation: inside an action TLC would unfold a universal quantifier over thousands of entries recursively)
WellFormed(d) == /\ {i \in DOMAIN d : d[i] \notin {1, -1}} = {}
                 /\ Scan(d)[1] = 0 /\ Scan(d)[3] = 0

-------------------------------------------------------------------------------
\* what the contract allows
QueryOK(r) == IF ~inited THEN r = 0
              ELSE IF limit > 0 THEN r = Cap(limit)
              ELSE r >= 1
LoopOK(d)  == limit > 0 => Peak(d) <= Cap(limit)

Exact == ~inited \/ limit > 0                  \* the query result is determined
Cfg   == IF ~inited THEN "none" ELSE IF limit = 0 THEN "default" ELSE IF reinit THEN "replaced" ELSE "set"
Cls(from) == "from=" \o from \o ",cfg=" \o Cfg

Init == /\ inited = FALSE /\ limit = 0 /\ reinit = FALSE
        /\ last = [a |-> "Start", arg |-> <<>>, cls |-> "", exp |-> [r |-> 0]]

\* the effect of one initTaskingSystem(n) on <<inited, limit, reinit>>
AfterInit(st, n) == <<TRUE, IF n > 0 THEN n ELSE 0, st[1]>>

\* Init: `arg` carries n and, optionally, what the statement does not distinguish (the issuing thread `from`, the
\* flushDenormals flag `fz`): the effect depends on n only
InitWith(arg) ==
  LET st == AfterInit(<<inited, limit, reinit>>, arg.n) IN
  /\ inited' = st[1] /\ limit' = st[2] /\ reinit' = st[3]
  /\ last'   = [a |-> "Init", arg |-> arg, cls |-> IF arg.n > 0 THEN "n>0" ELSE "n<=0", exp |-> [void |-> TRUE]]
InitSys(n) == InitWith([n |-> n])

\* Macro action: cnt >= 1 initialisations in a row without an observation in between; the i-th argument is given by a
\* formula (the cycle `cyc`, the last one is n), so that 256 or 65536 re-initialisations are one step for TLC.
\* TaskingInitMC checks that it is the same as cnt single Init steps.
BurstArg(b, i) == IF i = b.cnt THEN b.n ELSE b.cyc[((i - 1) % Len(b.cyc)) + 1]
BurstEffect(st, b) == <<TRUE, IF b.n > 0 THEN b.n ELSE 0, st[1] \/ b.cnt >= 2>>
InitBurst(b) ==
  LET st == BurstEffect(<<inited, limit, reinit>>, b) IN
  /\ b.cnt >= 1
  /\ inited' = st[1] /\ limit' = st[2] /\ reinit' = st[3]
  /\ last'   = [a |-> "InitBurst", arg |-> b, cls |-> IF b.n > 0 THEN "n>0" ELSE "n<=0", exp |-> [void |-> TRUE]]

Query(from, r) ==
  /\ QueryOK(r)
  /\ UNCHANGED <<inited, limit, reinit>>
  /\ last' = [a |-> "Query", arg |-> [from |-> from], cls |-> Cls(from),
              exp |-> IF Exact THEN [r |-> r] ELSE [r_ge |-> 1]]

\* Loop-like actions (name: "Loop" | "LoopBurst"): `arg` carries the issuing thread and whatever describes the loop
\* (shape, size class, number of tasks k, index type / API, number of loops of a burst); the contract looks at d only.
\* The recording of a burst of loops is the concatenation of the loops' recordings (every loop ends with nobody inside,
\* so the concatenation is well formed and its peak is the largest peak - law ConcatLaw of TaskingInitMC).
LoopLike(name, arg, d) ==
  /\ WellFormed(d)
  /\ LoopOK(d)
  /\ UNCHANGED <<inited, limit, reinit>>
  /\ last' = [a |-> name, arg |-> arg, cls |-> Cls(arg.from),
              exp |-> IF limit > 0 THEN [peak_le |-> Cap(limit)] ELSE [peak_le |-> "unconstrained"]]
LoopWith(arg, d)     == LoopLike("Loop", arg, d)
Loop(from, shape, d) == LoopWith([from |-> from, shape |-> shape], d)

\* Two parallel_for calls issued at the same time by two threads: the statement speaks about a parallel_for and its
\* body, so each CALL is bounded by the count (how many threads the two calls occupy together is not stated)
LoopPair(arg, d1, d2) ==
  /\ WellFormed(d1) /\ WellFormed(d2)
  /\ LoopOK(d1) /\ LoopOK(d2)
  /\ UNCHANGED <<inited, limit, reinit>>
  /\ last' = [a |-> "LoopPair", arg |-> arg, cls |-> Cls(arg.from),
              exp |-> IF limit > 0 THEN [peak_le |-> Cap(limit)] ELSE [peak_le |-> "unconstrained"]]

\* Number of tasks of a loop as a function of its size class and of the count in force (HW while none is): the
\* classes sit at the boundaries of the statement's "all loop sizes" - no task, one, fewer than / exactly as many as /
\* one more than the count, several rounds, beyond typical internal block sizes.  Narrow index types cap k.
LoopBase == IF limit > 0 THEN limit ELSE HW
SizeK(size) == CASE size = "zero"  -> 0
                 [] size = "one"   -> 1
                 [] size = "below" -> IF LoopBase > 1 THEN LoopBase - 1 ELSE 0
                 [] size = "equal" -> LoopBase
                 [] size = "above" -> LoopBase + 1
                 [] size = "x4"    -> 4 * LoopBase
                 [] size = "x4p1"  -> 4 * LoopBase + 1
                 [] size = "b1025" -> 1025
                 [] size = "b4097" -> 4097
                 [] size = "b65537" -> 65537
ApiCap(api) == IF api = "for:u8" THEN 255 ELSE IF api = "for:short" THEN 32767 ELSE 2147483647
WithK(o) == [k |-> Min2(SizeK(o.size), ApiCap(o.api)), outer |-> Min2(LoopBase + 1, 12)] @@ o
BurstK(o) == [k |-> LoopBase + 1] @@ o

Next ==
  \/ \E n \in Ns : InitSys(n)
  \/ \E f \in Froms, r \in RSet : Query(f, r)
  \/ \E f \in Froms, s \in Shapes, d \in DSet : Loop(f, s, d)
  \* the richer alphabet of the boundary instances (empty sets elsewhere)
  \/ \E o \in InitOpts : InitWith(o)
  \/ \E b \in BurstOpts : InitBurst(b)
  \/ \E o \in LoopOpts, d \in DSet : LoopWith(WithK(o), d)
  \/ \E o \in LBurstOpts, d \in DSet : LoopLike("LoopBurst", BurstK(o), d)
  \/ \E o \in PairOpts, d \in DSet : LoopPair(WithK(o), d, d)

Spec == Init /\ [][Next]_vars

-------------------------------------------------------------------------------
TypeOK == /\ inited \in BOOLEAN /\ reinit \in BOOLEAN
          /\ limit \in Nat
          /\ (limit > 0 => inited) /\ (reinit => inited)
===============================================================================
