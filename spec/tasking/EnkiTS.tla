------------------------------- MODULE EnkiTS -------------------------------
(* Mechanism specification of the Internal tasking backend's scheduler            *)
(* (rkcommon/tasking/detail/enkiTS/TaskScheduler.cpp, as used by TaskSys.h):      *)
(* AddTaskSetToPipe, SplitAndAddTask (incl. the pipe-full branch), TryRunTask     *)
(* (own pipe front, else steal from the back of another pipe; split when larger   *)
(* than m_RangeToRun), the running count, WaitforTask, and the self-retiring      *)
(* task of schedule_internal.  Pipes are abstracted to atomic bounded deques      *)
(* (their instruction-level model is Pipe.tla).  Small pipe capacities make the   *)
(* pipe-full branch reachable, which never happens with the production capacity   *)
(* of 256 in any test.                                                            *)
(*                                                                                *)
(* Checked: every index of the parallel_for task set "A" is executed at most      *)
(* once and never outside [0,S) (NoOob, AtMostOnce), the caller's wait returns    *)
(* only when all were executed (JoinOk) and eventually does (Joins), and no task  *)
(* object is touched after it was released (NoUaf).                               *)
(* FIXSPLIT / FIXFREE = FALSE reproduce the two defects of the code as pinned     *)
(* (kept as negative controls that TLC must refute).                              *)
EXTENDS Integers, Sequences, FiniteSets, TLC, EnkiCuts
CONSTANTS N,        \* scheduler threads (0 = caller)
          Cap,      \* pipe capacity
          S,        \* set size of the parallel_for task "A"
          Prefill,  \* number of foreign sub-tasks already sitting in the caller's pipe
          WithF,    \* TRUE: the caller first schedules a self-deleting task "F"
          FIXSPLIT, \* TRUE: compare m_RangeToRun with the partition actually cut (upstream fix)
          FIXFREE   \* TRUE: the schedule() task is retired after the scheduler is done with it (no delete this)
Threads == 0..(N-1)
Max(a,b) == IF a > b THEN a ELSE b
Min(a,b) == IF a < b THEN a ELSE b
NumPartitions == IF N = 1 THEN 1 ELSE N * (N-1)
NumInitial    == IF N = 1 THEN 1 ELSE Min(N-1, 8)
Size(k) == IF k = "A" THEN S ELSE 1
Dummy == [k |-> "D", s |-> 0, e |-> 1]
(* --algorithm Enki {
variables pipe = [t \in Threads |-> IF t = 0 THEN [i \in 1..Prefill |-> Dummy] ELSE <<>>],
          running = [k \in {"A","F","D"} |-> IF k = "D" THEN Prefill ELSE 0],
          rtr = [k \in {"A","F","D"} |-> 1],
          execd = [i \in 0..(S-1) |-> 0], oob = FALSE, freed = {}, uaf = FALSE, done = FALSE;

macro Touch(k) { if (k \in freed) uaf := TRUE; }

procedure Exec(xk, xa, xb) variable xi = 0;
{
E0:  if (xk = "A") {
       xi := xa;
E1:    while (xi < xb /\ ~oob) {
         if (xi >= S) oob := TRUE else execd[xi] := execd[xi] + 1;
         xi := xi + 1;
       }
     } else if (xk = "F") { if (~FIXFREE) { freed := freed \cup {"F"} } };   \* t(); delete this;
E2:  return;
}

procedure SplitAndAdd(ak, as, ae, arts) variables ts = 0, te = 0;
{
SA:   while (as # ae /\ ~oob) {
        ts := as;
        \* SplitTask: rangeLeft is unsigned: if as > ae it wraps to a huge value
        te := IF as <= ae /\ arts > ae - as THEN ae ELSE as + arts;
        as := te;
SAinc:  Touch(ak); running[ak] := running[ak] + 1;
SAw:    if (Len(pipe[self]) < Cap) {
          pipe[self] := Append(pipe[self], [k |-> ak, s |-> ts, e |-> te]);
        } else {
          if (IF FIXSPLIT THEN rtr[ak] < te - ts ELSE rtr[ak] < arts) { te := ts + rtr[ak]; as := te };
SAx:      call Exec(ak, ts, te);
SAdec:    Touch(ak); running[ak] := running[ak] - 1;
        }
      };
SAr:  return;
}

procedure TryRun() variables sub = Dummy, have = FALSE;
{
TR:   either { await pipe[self] # <<>>;                         \* WriterTryReadFront
               sub := pipe[self][Len(pipe[self])]; pipe[self] := SubSeq(pipe[self], 1, Len(pipe[self]) - 1); have := TRUE }
      or     { await pipe[self] = <<>>;                         \* ReaderTryReadBack on some other pipe
               with (o \in {t \in Threads : t # self /\ pipe[t] # <<>>}) { sub := Head(pipe[o]); pipe[o] := Tail(pipe[o]); have := TRUE } }
      or     { await \A t \in Threads : pipe[t] = <<>>; have := FALSE };
TR1:  if (have) {
        Touch(sub.k);
        if (rtr[sub.k] < sub.e - sub.s) {
          call SplitAndAdd(sub.k, sub.s + rtr[sub.k], sub.e, rtr[sub.k]);
TR2:      call Exec(sub.k, sub.s, sub.s + rtr[sub.k]);
        } else {
TR3:      call Exec(sub.k, sub.s, sub.e);
        };
TR4:    Touch(sub.k); running[sub.k] := running[sub.k] - 1;
      };
TRr:  return;
}

procedure AddTaskSet(tk)
{
AT:   running[tk] := 0; rtr[tk] := Max(1, Size(tk) \div NumPartitions);
AT1:  call SplitAndAdd(tk, 0, Size(tk), Max(1, Size(tk) \div NumInitial));
ATr:  return;
}

fair process (caller = 0)
{
M0:  if (WithF) { call AddTaskSet("F") };
M1:  call AddTaskSet("A");
M2:  while (running["A"] # 0) { call TryRun() };
M3:  done := TRUE;
}
fair process (worker \in 1..(N-1))
{
W0:  while (~done) { call TryRun() };
}
} *)
\* BEGIN TRANSLATION
CONSTANT defaultInitValue
VARIABLES pc, pipe, running, rtr, execd, oob, freed, uaf, done, stack, xk, xa, 
          xb, xi, ak, as, ae, arts, ts, te, sub, have, tk

vars == << pc, pipe, running, rtr, execd, oob, freed, uaf, done, stack, xk, 
           xa, xb, xi, ak, as, ae, arts, ts, te, sub, have, tk >>

ProcSet == {0} \cup (1..(N-1))

Init == (* Global variables *)
        /\ pipe = [t \in Threads |-> IF t = 0 THEN [i \in 1..Prefill |-> Dummy] ELSE <<>>]
        /\ running = [k \in {"A","F","D"} |-> IF k = "D" THEN Prefill ELSE 0]
        /\ rtr = [k \in {"A","F","D"} |-> 1]
        /\ execd = [i \in 0..(S-1) |-> 0]
        /\ oob = FALSE
        /\ freed = {}
        /\ uaf = FALSE
        /\ done = FALSE
        (* Procedure Exec *)
        /\ xk = [ self \in ProcSet |-> defaultInitValue]
        /\ xa = [ self \in ProcSet |-> defaultInitValue]
        /\ xb = [ self \in ProcSet |-> defaultInitValue]
        /\ xi = [ self \in ProcSet |-> 0]
        (* Procedure SplitAndAdd *)
        /\ ak = [ self \in ProcSet |-> defaultInitValue]
        /\ as = [ self \in ProcSet |-> defaultInitValue]
        /\ ae = [ self \in ProcSet |-> defaultInitValue]
        /\ arts = [ self \in ProcSet |-> defaultInitValue]
        /\ ts = [ self \in ProcSet |-> 0]
        /\ te = [ self \in ProcSet |-> 0]
        (* Procedure TryRun *)
        /\ sub = [ self \in ProcSet |-> Dummy]
        /\ have = [ self \in ProcSet |-> FALSE]
        (* Procedure AddTaskSet *)
        /\ tk = [ self \in ProcSet |-> defaultInitValue]
        /\ stack = [self \in ProcSet |-> << >>]
        /\ pc = [self \in ProcSet |-> CASE self = 0 -> "M0"
                                        [] self \in 1..(N-1) -> "W0"]

E0(self) == /\ pc[self] = "E0"
            /\ IF xk[self] = "A"
                  THEN /\ xi' = [xi EXCEPT ![self] = xa[self]]
                       /\ pc' = [pc EXCEPT ![self] = "E1"]
                       /\ freed' = freed
                  ELSE /\ IF xk[self] = "F"
                             THEN /\ IF ~FIXFREE
                                        THEN /\ freed' = (freed \cup {"F"})
                                        ELSE /\ TRUE
                                             /\ freed' = freed
                             ELSE /\ TRUE
                                  /\ freed' = freed
                       /\ pc' = [pc EXCEPT ![self] = "E2"]
                       /\ xi' = xi
            /\ UNCHANGED << pipe, running, rtr, execd, oob, uaf, done, stack, 
                            xk, xa, xb, ak, as, ae, arts, ts, te, sub, have, 
                            tk >>

E1(self) == /\ pc[self] = "E1"
            /\ IF xi[self] < xb[self] /\ ~oob
                  THEN /\ IF xi[self] >= S
                             THEN /\ oob' = TRUE
                                  /\ execd' = execd
                             ELSE /\ execd' = [execd EXCEPT ![xi[self]] = execd[xi[self]] + 1]
                                  /\ oob' = oob
                       /\ xi' = [xi EXCEPT ![self] = xi[self] + 1]
                       /\ pc' = [pc EXCEPT ![self] = "E1"]
                  ELSE /\ pc' = [pc EXCEPT ![self] = "E2"]
                       /\ UNCHANGED << execd, oob, xi >>
            /\ UNCHANGED << pipe, running, rtr, freed, uaf, done, stack, xk, 
                            xa, xb, ak, as, ae, arts, ts, te, sub, have, tk >>

E2(self) == /\ pc[self] = "E2"
            /\ pc' = [pc EXCEPT ![self] = Head(stack[self]).pc]
            /\ xi' = [xi EXCEPT ![self] = Head(stack[self]).xi]
            /\ xk' = [xk EXCEPT ![self] = Head(stack[self]).xk]
            /\ xa' = [xa EXCEPT ![self] = Head(stack[self]).xa]
            /\ xb' = [xb EXCEPT ![self] = Head(stack[self]).xb]
            /\ stack' = [stack EXCEPT ![self] = Tail(stack[self])]
            /\ UNCHANGED << pipe, running, rtr, execd, oob, freed, uaf, done, 
                            ak, as, ae, arts, ts, te, sub, have, tk >>

Exec(self) == E0(self) \/ E1(self) \/ E2(self)

SA(self) == /\ pc[self] = "SA"
            /\ IF as[self] # ae[self] /\ ~oob
                  THEN /\ ts' = [ts EXCEPT ![self] = as[self]]
                       /\ te' = [te EXCEPT ![self] = IF as[self] <= ae[self] /\ arts[self] > ae[self] - as[self] THEN ae[self] ELSE as[self] + arts[self]]
                       /\ as' = [as EXCEPT ![self] = te'[self]]
                       /\ pc' = [pc EXCEPT ![self] = "SAinc"]
                  ELSE /\ pc' = [pc EXCEPT ![self] = "SAr"]
                       /\ UNCHANGED << as, ts, te >>
            /\ UNCHANGED << pipe, running, rtr, execd, oob, freed, uaf, done, 
                            stack, xk, xa, xb, xi, ak, ae, arts, sub, have, tk >>

SAinc(self) == /\ pc[self] = "SAinc"
               /\ IF ak[self] \in freed
                     THEN /\ uaf' = TRUE
                     ELSE /\ TRUE
                          /\ uaf' = uaf
               /\ running' = [running EXCEPT ![ak[self]] = running[ak[self]] + 1]
               /\ pc' = [pc EXCEPT ![self] = "SAw"]
               /\ UNCHANGED << pipe, rtr, execd, oob, freed, done, stack, xk, 
                               xa, xb, xi, ak, as, ae, arts, ts, te, sub, have, 
                               tk >>

SAw(self) == /\ pc[self] = "SAw"
             /\ IF Len(pipe[self]) < Cap
                   THEN /\ pipe' = [pipe EXCEPT ![self] = Append(pipe[self], [k |-> ak[self], s |-> ts[self], e |-> te[self]])]
                        /\ pc' = [pc EXCEPT ![self] = "SA"]
                        /\ UNCHANGED << as, te >>
                   ELSE /\ IF IF FIXSPLIT THEN rtr[ak[self]] < te[self] - ts[self] ELSE rtr[ak[self]] < arts[self]
                              THEN /\ te' = [te EXCEPT ![self] = ts[self] + rtr[ak[self]]]
                                   /\ as' = [as EXCEPT ![self] = te'[self]]
                              ELSE /\ TRUE
                                   /\ UNCHANGED << as, te >>
                        /\ pc' = [pc EXCEPT ![self] = "SAx"]
                        /\ pipe' = pipe
             /\ UNCHANGED << running, rtr, execd, oob, freed, uaf, done, stack, 
                             xk, xa, xb, xi, ak, ae, arts, ts, sub, have, tk >>

SAx(self) == /\ pc[self] = "SAx"
             /\ /\ stack' = [stack EXCEPT ![self] = << [ procedure |->  "Exec",
                                                         pc        |->  "SAdec",
                                                         xi        |->  xi[self],
                                                         xk        |->  xk[self],
                                                         xa        |->  xa[self],
                                                         xb        |->  xb[self] ] >>
                                                     \o stack[self]]
                /\ xa' = [xa EXCEPT ![self] = ts[self]]
                /\ xb' = [xb EXCEPT ![self] = te[self]]
                /\ xk' = [xk EXCEPT ![self] = ak[self]]
             /\ xi' = [xi EXCEPT ![self] = 0]
             /\ pc' = [pc EXCEPT ![self] = "E0"]
             /\ UNCHANGED << pipe, running, rtr, execd, oob, freed, uaf, done, 
                             ak, as, ae, arts, ts, te, sub, have, tk >>

SAdec(self) == /\ pc[self] = "SAdec"
               /\ IF ak[self] \in freed
                     THEN /\ uaf' = TRUE
                     ELSE /\ TRUE
                          /\ uaf' = uaf
               /\ running' = [running EXCEPT ![ak[self]] = running[ak[self]] - 1]
               /\ pc' = [pc EXCEPT ![self] = "SA"]
               /\ UNCHANGED << pipe, rtr, execd, oob, freed, done, stack, xk, 
                               xa, xb, xi, ak, as, ae, arts, ts, te, sub, have, 
                               tk >>

SAr(self) == /\ pc[self] = "SAr"
             /\ pc' = [pc EXCEPT ![self] = Head(stack[self]).pc]
             /\ ts' = [ts EXCEPT ![self] = Head(stack[self]).ts]
             /\ te' = [te EXCEPT ![self] = Head(stack[self]).te]
             /\ ak' = [ak EXCEPT ![self] = Head(stack[self]).ak]
             /\ as' = [as EXCEPT ![self] = Head(stack[self]).as]
             /\ ae' = [ae EXCEPT ![self] = Head(stack[self]).ae]
             /\ arts' = [arts EXCEPT ![self] = Head(stack[self]).arts]
             /\ stack' = [stack EXCEPT ![self] = Tail(stack[self])]
             /\ UNCHANGED << pipe, running, rtr, execd, oob, freed, uaf, done, 
                             xk, xa, xb, xi, sub, have, tk >>

SplitAndAdd(self) == SA(self) \/ SAinc(self) \/ SAw(self) \/ SAx(self)
                        \/ SAdec(self) \/ SAr(self)

TR(self) == /\ pc[self] = "TR"
            /\ \/ /\ pipe[self] # <<>>
                  /\ sub' = [sub EXCEPT ![self] = pipe[self][Len(pipe[self])]]
                  /\ pipe' = [pipe EXCEPT ![self] = SubSeq(pipe[self], 1, Len(pipe[self]) - 1)]
                  /\ have' = [have EXCEPT ![self] = TRUE]
               \/ /\ pipe[self] = <<>>
                  /\ \E o \in {t \in Threads : t # self /\ pipe[t] # <<>>}:
                       /\ sub' = [sub EXCEPT ![self] = Head(pipe[o])]
                       /\ pipe' = [pipe EXCEPT ![o] = Tail(pipe[o])]
                       /\ have' = [have EXCEPT ![self] = TRUE]
               \/ /\ \A t \in Threads : pipe[t] = <<>>
                  /\ have' = [have EXCEPT ![self] = FALSE]
                  /\ UNCHANGED <<pipe, sub>>
            /\ pc' = [pc EXCEPT ![self] = "TR1"]
            /\ UNCHANGED << running, rtr, execd, oob, freed, uaf, done, stack, 
                            xk, xa, xb, xi, ak, as, ae, arts, ts, te, tk >>

TR1(self) == /\ pc[self] = "TR1"
             /\ IF have[self]
                   THEN /\ IF (sub[self].k) \in freed
                              THEN /\ uaf' = TRUE
                              ELSE /\ TRUE
                                   /\ uaf' = uaf
                        /\ IF rtr[sub[self].k] < sub[self].e - sub[self].s
                              THEN /\ /\ ae' = [ae EXCEPT ![self] = sub[self].e]
                                      /\ ak' = [ak EXCEPT ![self] = sub[self].k]
                                      /\ arts' = [arts EXCEPT ![self] = rtr[sub[self].k]]
                                      /\ as' = [as EXCEPT ![self] = sub[self].s + rtr[sub[self].k]]
                                      /\ stack' = [stack EXCEPT ![self] = << [ procedure |->  "SplitAndAdd",
                                                                               pc        |->  "TR2",
                                                                               ts        |->  ts[self],
                                                                               te        |->  te[self],
                                                                               ak        |->  ak[self],
                                                                               as        |->  as[self],
                                                                               ae        |->  ae[self],
                                                                               arts      |->  arts[self] ] >>
                                                                           \o stack[self]]
                                   /\ ts' = [ts EXCEPT ![self] = 0]
                                   /\ te' = [te EXCEPT ![self] = 0]
                                   /\ pc' = [pc EXCEPT ![self] = "SA"]
                              ELSE /\ pc' = [pc EXCEPT ![self] = "TR3"]
                                   /\ UNCHANGED << stack, ak, as, ae, arts, ts, 
                                                   te >>
                   ELSE /\ pc' = [pc EXCEPT ![self] = "TRr"]
                        /\ UNCHANGED << uaf, stack, ak, as, ae, arts, ts, te >>
             /\ UNCHANGED << pipe, running, rtr, execd, oob, freed, done, xk, 
                             xa, xb, xi, sub, have, tk >>

TR4(self) == /\ pc[self] = "TR4"
             /\ IF (sub[self].k) \in freed
                   THEN /\ uaf' = TRUE
                   ELSE /\ TRUE
                        /\ uaf' = uaf
             /\ running' = [running EXCEPT ![sub[self].k] = running[sub[self].k] - 1]
             /\ pc' = [pc EXCEPT ![self] = "TRr"]
             /\ UNCHANGED << pipe, rtr, execd, oob, freed, done, stack, xk, xa, 
                             xb, xi, ak, as, ae, arts, ts, te, sub, have, tk >>

TR2(self) == /\ pc[self] = "TR2"
             /\ /\ stack' = [stack EXCEPT ![self] = << [ procedure |->  "Exec",
                                                         pc        |->  "TR4",
                                                         xi        |->  xi[self],
                                                         xk        |->  xk[self],
                                                         xa        |->  xa[self],
                                                         xb        |->  xb[self] ] >>
                                                     \o stack[self]]
                /\ xa' = [xa EXCEPT ![self] = sub[self].s]
                /\ xb' = [xb EXCEPT ![self] = sub[self].s + rtr[sub[self].k]]
                /\ xk' = [xk EXCEPT ![self] = sub[self].k]
             /\ xi' = [xi EXCEPT ![self] = 0]
             /\ pc' = [pc EXCEPT ![self] = "E0"]
             /\ UNCHANGED << pipe, running, rtr, execd, oob, freed, uaf, done, 
                             ak, as, ae, arts, ts, te, sub, have, tk >>

TR3(self) == /\ pc[self] = "TR3"
             /\ /\ stack' = [stack EXCEPT ![self] = << [ procedure |->  "Exec",
                                                         pc        |->  "TR4",
                                                         xi        |->  xi[self],
                                                         xk        |->  xk[self],
                                                         xa        |->  xa[self],
                                                         xb        |->  xb[self] ] >>
                                                     \o stack[self]]
                /\ xa' = [xa EXCEPT ![self] = sub[self].s]
                /\ xb' = [xb EXCEPT ![self] = sub[self].e]
                /\ xk' = [xk EXCEPT ![self] = sub[self].k]
             /\ xi' = [xi EXCEPT ![self] = 0]
             /\ pc' = [pc EXCEPT ![self] = "E0"]
             /\ UNCHANGED << pipe, running, rtr, execd, oob, freed, uaf, done, 
                             ak, as, ae, arts, ts, te, sub, have, tk >>

TRr(self) == /\ pc[self] = "TRr"
             /\ pc' = [pc EXCEPT ![self] = Head(stack[self]).pc]
             /\ sub' = [sub EXCEPT ![self] = Head(stack[self]).sub]
             /\ have' = [have EXCEPT ![self] = Head(stack[self]).have]
             /\ stack' = [stack EXCEPT ![self] = Tail(stack[self])]
             /\ UNCHANGED << pipe, running, rtr, execd, oob, freed, uaf, done, 
                             xk, xa, xb, xi, ak, as, ae, arts, ts, te, tk >>

TryRun(self) == TR(self) \/ TR1(self) \/ TR4(self) \/ TR2(self)
                   \/ TR3(self) \/ TRr(self)

AT(self) == /\ pc[self] = "AT"
            /\ running' = [running EXCEPT ![tk[self]] = 0]
            /\ rtr' = [rtr EXCEPT ![tk[self]] = Max(1, Size(tk[self]) \div NumPartitions)]
            /\ pc' = [pc EXCEPT ![self] = "AT1"]
            /\ UNCHANGED << pipe, execd, oob, freed, uaf, done, stack, xk, xa, 
                            xb, xi, ak, as, ae, arts, ts, te, sub, have, tk >>

AT1(self) == /\ pc[self] = "AT1"
             /\ /\ ae' = [ae EXCEPT ![self] = Size(tk[self])]
                /\ ak' = [ak EXCEPT ![self] = tk[self]]
                /\ arts' = [arts EXCEPT ![self] = Max(1, Size(tk[self]) \div NumInitial)]
                /\ as' = [as EXCEPT ![self] = 0]
                /\ stack' = [stack EXCEPT ![self] = << [ procedure |->  "SplitAndAdd",
                                                         pc        |->  "ATr",
                                                         ts        |->  ts[self],
                                                         te        |->  te[self],
                                                         ak        |->  ak[self],
                                                         as        |->  as[self],
                                                         ae        |->  ae[self],
                                                         arts      |->  arts[self] ] >>
                                                     \o stack[self]]
             /\ ts' = [ts EXCEPT ![self] = 0]
             /\ te' = [te EXCEPT ![self] = 0]
             /\ pc' = [pc EXCEPT ![self] = "SA"]
             /\ UNCHANGED << pipe, running, rtr, execd, oob, freed, uaf, done, 
                             xk, xa, xb, xi, sub, have, tk >>

ATr(self) == /\ pc[self] = "ATr"
             /\ pc' = [pc EXCEPT ![self] = Head(stack[self]).pc]
             /\ tk' = [tk EXCEPT ![self] = Head(stack[self]).tk]
             /\ stack' = [stack EXCEPT ![self] = Tail(stack[self])]
             /\ UNCHANGED << pipe, running, rtr, execd, oob, freed, uaf, done, 
                             xk, xa, xb, xi, ak, as, ae, arts, ts, te, sub, 
                             have >>

AddTaskSet(self) == AT(self) \/ AT1(self) \/ ATr(self)

M0 == /\ pc[0] = "M0"
      /\ IF WithF
            THEN /\ /\ stack' = [stack EXCEPT ![0] = << [ procedure |->  "AddTaskSet",
                                                          pc        |->  "M1",
                                                          tk        |->  tk[0] ] >>
                                                      \o stack[0]]
                    /\ tk' = [tk EXCEPT ![0] = "F"]
                 /\ pc' = [pc EXCEPT ![0] = "AT"]
            ELSE /\ pc' = [pc EXCEPT ![0] = "M1"]
                 /\ UNCHANGED << stack, tk >>
      /\ UNCHANGED << pipe, running, rtr, execd, oob, freed, uaf, done, xk, xa, 
                      xb, xi, ak, as, ae, arts, ts, te, sub, have >>

M1 == /\ pc[0] = "M1"
      /\ /\ stack' = [stack EXCEPT ![0] = << [ procedure |->  "AddTaskSet",
                                               pc        |->  "M2",
                                               tk        |->  tk[0] ] >>
                                           \o stack[0]]
         /\ tk' = [tk EXCEPT ![0] = "A"]
      /\ pc' = [pc EXCEPT ![0] = "AT"]
      /\ UNCHANGED << pipe, running, rtr, execd, oob, freed, uaf, done, xk, xa, 
                      xb, xi, ak, as, ae, arts, ts, te, sub, have >>

M2 == /\ pc[0] = "M2"
      /\ IF running["A"] # 0
            THEN /\ stack' = [stack EXCEPT ![0] = << [ procedure |->  "TryRun",
                                                       pc        |->  "M2",
                                                       sub       |->  sub[0],
                                                       have      |->  have[0] ] >>
                                                   \o stack[0]]
                 /\ sub' = [sub EXCEPT ![0] = Dummy]
                 /\ have' = [have EXCEPT ![0] = FALSE]
                 /\ pc' = [pc EXCEPT ![0] = "TR"]
            ELSE /\ pc' = [pc EXCEPT ![0] = "M3"]
                 /\ UNCHANGED << stack, sub, have >>
      /\ UNCHANGED << pipe, running, rtr, execd, oob, freed, uaf, done, xk, xa, 
                      xb, xi, ak, as, ae, arts, ts, te, tk >>

M3 == /\ pc[0] = "M3"
      /\ done' = TRUE
      /\ pc' = [pc EXCEPT ![0] = "Done"]
      /\ UNCHANGED << pipe, running, rtr, execd, oob, freed, uaf, stack, xk, 
                      xa, xb, xi, ak, as, ae, arts, ts, te, sub, have, tk >>

caller == M0 \/ M1 \/ M2 \/ M3

W0(self) == /\ pc[self] = "W0"
            /\ IF ~done
                  THEN /\ stack' = [stack EXCEPT ![self] = << [ procedure |->  "TryRun",
                                                                pc        |->  "W0",
                                                                sub       |->  sub[self],
                                                                have      |->  have[self] ] >>
                                                            \o stack[self]]
                       /\ sub' = [sub EXCEPT ![self] = Dummy]
                       /\ have' = [have EXCEPT ![self] = FALSE]
                       /\ pc' = [pc EXCEPT ![self] = "TR"]
                  ELSE /\ pc' = [pc EXCEPT ![self] = "Done"]
                       /\ UNCHANGED << stack, sub, have >>
            /\ UNCHANGED << pipe, running, rtr, execd, oob, freed, uaf, done, 
                            xk, xa, xb, xi, ak, as, ae, arts, ts, te, tk >>

worker(self) == W0(self)

(* Allow infinite stuttering to prevent deadlock on termination. *)
Terminating == /\ \A self \in ProcSet: pc[self] = "Done"
               /\ UNCHANGED vars

Next == caller
           \/ (\E self \in ProcSet:  \/ Exec(self) \/ SplitAndAdd(self)
                                     \/ TryRun(self) \/ AddTaskSet(self))
           \/ (\E self \in 1..(N-1): worker(self))
           \/ Terminating

Spec == /\ Init /\ [][Next]_vars
        /\ /\ WF_vars(caller)
           /\ WF_vars(AddTaskSet(0))
           /\ WF_vars(TryRun(0))
           /\ WF_vars(Exec(0))
           /\ WF_vars(SplitAndAdd(0))
        /\ \A self \in 1..(N-1) : /\ WF_vars(worker(self))
                                  /\ WF_vars(TryRun(self))
                                  /\ WF_vars(Exec(self))
                                  /\ WF_vars(SplitAndAdd(self))

Termination == <>(\A self \in ProcSet: pc[self] = "Done")

\* END TRANSLATION
\* the model's own partition arithmetic is the one of EnkiCuts (which judges the ranges recorded from the real scheduler)
ASSUME NumPartitions = NumPartitionsOf(N) /\ NumInitial = NumInitialOf(N)
ExecAtCuts == \A self \in ProcSet : (pc[self] = "E0" /\ xk[self] = "A") => IsPartition(N, S, xa[self], xb[self])
NoFullBranch == \A self \in ProcSet : pc[self] # "SAx"
NoOob == ~oob
NoUaf == ~uaf
AtMostOnce == \A i \in 0..(S-1) : execd[i] <= 1
JoinOk == done => \A i \in 0..(S-1) : execd[i] = 1
Joins == <>done
====
