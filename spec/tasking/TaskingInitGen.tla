----------------------------- MODULE TaskingInitGen ----------------------------
(* Generation instances of TaskingInit: TLC dumps the complete state graph; the *)
(* orchestrator takes its histories from the graph's paths.                     *)
(*                                                                             *)
(* Base instance (TaskingInitGen.cfg): ALL histories of Init / Query / Loop up  *)
(* to a length, over the initialisation arguments {-1, 0, 1, 2, 3, 8, 2H}       *)
(* (H = hardware threads of this machine, read by the driver and handed over    *)
(* in the environment), two issuing threads and two loop shapes.                *)
(* Wide instance (TaskingInitGenWide.cfg): every n in -2..2H+1, random walks.   *)
(* Boundary instance (TaskingInitGenB.cfg, _thorough): the corners of the       *)
(* statement's quantifier - counts at the hardware boundary (H-1, H, H+1, 2H-1, *)
(* 2H), far negative counts, initialisation from another thread and with        *)
(* flushDenormals, a thread that exists before the first initialisation, loop   *)
(* sizes from no task over "one more than the count" to beyond internal block   *)
(* sizes, every index type / loop API, bursts of 255 / 256 / 257 (thorough:     *)
(* 65535 / 65536 / 65537) re-initialisations or loops as single macro steps,    *)
(* two loops issued at the same moment by two threads.                          *)
(*                                                                             *)
(* The ghost variable `last` carries what the contract determines exactly       *)
(* (exp.r) and the spec-computed loop size (arg.k); query results and loop      *)
(* summaries the contract leaves open are not part of `last`, so that one edge  *)
(* stands for all of them.                                                      *)
EXTENDS TaskingInit, IOUtils

GenHW == IF "HW" \in DOMAIN IOEnv THEN atoi(IOEnv.HW) ELSE 16
GenBackend == IF "BACKEND" \in DOMAIN IOEnv THEN IOEnv.BACKEND ELSE "TBB"
GenNs   == {-1, 0, 1, 2, 3, 8, 2 * GenHW}
GenRSet == {0, 1, 2, 3, 8, 2 * GenHW}         \* every exact answer occurs; 1 stands for "some positive default"
\* wide instance: every count in 1..2H and a few around the ends, for long seeded random walks
GenNsWide   == (-2)..(2 * GenHW + 1)
GenRSetWide == 0..(2 * GenHW + 1)
GenDSet == {<<>>, <<1, -1>>}                  \* stands for "some loop"; a single body is allowed in every state

\* ---- boundary instance ------------------------------------------------------
Main == "init-thread"
BNs == {-2147483647, -65536, -2, -1, 0, 1, 2, 3, GenHW - 1, GenHW, GenHW + 1, 2 * GenHW - 1, 2 * GenHW} \ {x \in {GenHW - 1} : x < 1}
BInitOpts ==
  {[n |-> n, from |-> Main, fz |-> FALSE] : n \in BNs}
  \cup {[n |-> n, from |-> "second-thread", fz |-> FALSE] : n \in {0, 3, GenHW + 1}}
  \cup {[n |-> n, from |-> "early-thread", fz |-> FALSE] : n \in {2}}
  \cup {[n |-> n, from |-> Main, fz |-> TRUE] : n \in {-1, 3}}
BFroms == {Main, "second-thread", "early-thread"}
BRSet  == {0, 1, 2, 3, GenHW - 1, GenHW, GenHW + 1, 2 * GenHW - 1, 2 * GenHW}
FlatSizes == {"zero", "one", "below", "equal", "above", "x4", "x4p1", "b1025", "b4097"}
Apis      == {"for:size_t", "for:u8", "for:short", "for:i64", "for:int:lvalue", "blocks", "foreach"}
BVariants(big) ==
  {[shape |-> "flat", size |-> s, api |-> "for:int"] : s \in FlatSizes \cup big}
  \cup {[shape |-> "flat", size |-> "x4", api |-> a] : a \in Apis}
  \cup {[shape |-> "nested", size |-> s, api |-> "for:int"] : s \in {"above", "x4"}}
  \cup {[shape |-> "nested", size |-> "x4", api |-> "for:size_t"]}
BLoopOptsOf(big) == {[from |-> f] @@ v : f \in BFroms, v \in BVariants(big)}
BLoopOpts   == BLoopOptsOf({})
BLoopOptsTh == BLoopOptsOf({"b65537"})
Cyc == <<1, 2, 3>>
BBurstOptsOf(cnts) == {[cnt |-> c, n |-> 2, cyc |-> Cyc] : c \in cnts} \cup {[cnt |-> 256, n |-> -1, cyc |-> Cyc], [cnt |-> 2, n |-> 3, cyc |-> Cyc]}
BBurstOpts   == BBurstOptsOf({255, 256, 257})
BBurstOptsTh == BBurstOptsOf({255, 256, 257, 4095, 4096, 4097, 65535, 65536, 65537})
BLBurstOptsOf(cnts) == {[from |-> f, cnt |-> c] : f \in {Main, "second-thread"}, c \in cnts}
BLBurstOpts   == BLBurstOptsOf({255, 256, 257})
BLBurstOptsTh == BLBurstOptsOf({255, 256, 257, 4097})
BDSet == {<<1, -1>>}                        \* stands for "some loop" (not part of `last`)
BPairOpts == {[from |-> "two-threads", shape |-> "flat", size |-> s, api |-> "for:int"] : s \in {"above", "x4"}}
===============================================================================
