----------------------------- MODULE TaskingInitGen ----------------------------
(* Generation instance of TaskingInit: TLC dumps the complete state graph; the  *)
(* orchestrator enumerates its paths = ALL histories of Init / Query / Loop up  *)
(* to a length, over the initialisation arguments {-1, 0, 1, 2, 3, 8, 2H}       *)
(* (H = hardware threads of this machine, read by the driver and handed over    *)
(* in the environment), two issuing threads and two loop shapes.  The ghost     *)
(* variable `last` carries what the contract determines exactly (exp.r); query  *)
(* results and loop summaries the contract leaves open are not part of `last`,  *)
(* so that one edge stands for all of them.                                     *)
EXTENDS TaskingInit, IOUtils

HW == IF "HW" \in DOMAIN IOEnv THEN atoi(IOEnv.HW) ELSE 16
GenBackend == IF "BACKEND" \in DOMAIN IOEnv THEN IOEnv.BACKEND ELSE "TBB"
GenNs   == {-1, 0, 1, 2, 3, 8, 2 * HW}
GenRSet == {0, 1, 2, 3, 8, 2 * HW}            \* every exact answer occurs; 1 stands for "some positive default"
\* wide instance: every count in 1..2H and a few around the ends, for long seeded random walks
GenNsWide   == (-2)..(2 * HW + 1)
GenRSetWide == 0..(2 * HW + 1)
GenDSet == {<<>>, <<1, -1>>}                  \* stands for "some loop"; a single body is allowed in every state
===============================================================================
