SPECIFICATION Spec
